(* C04 — the journal index file (journal.idx): byte-level model of processIndexRecords,
   the batch validations of readJournalIndex, corruptIndexRecovery, and bootstrap with / without
   an index on top of the C03 journal model.  Mirrors go/store/nbs/journal_index_record.go and
   journal_writer.go (loadJournalIndex, readJournalIndex, corruptIndexRecovery, truncateIndex,
   bootstrapJournal, flushIndexRecord, Close).  No proofs in this file.

   Finding F1 is modelled faithfully: the batch checksum is the CRC of the concatenation of the
   16-byte address prefixes ONLY; the (offset,length) ranges are covered by nothing. *)
From Coq Require Import NArith List Bool.
From Dolt Require Import Base.Str C03.Model.
Import ListNotations.
Local Open Scope N_scope.

(* record layout (journal_index_record.go); literals pinned to Gen.C04Consts in Proofs.v *)
Definition tag_lookup : N := 0.          (* indexRecChunk *)
Definition tag_meta : N := 1.            (* indexRecMeta *)
Definition lookup_len : N := 28.         (* lookupSz = 16 + 8 + 4 *)
Definition meta_len : N := 40.           (* lookupMetaSz = 8 + 8 + 4 + 20 *)
Definition a16_len : N := 16.

Record lookup := { lk_addr : bytes; lk_off : N; lk_len : N }.
Record meta := { m_start : N; m_end : N; m_sum : N; m_root : bytes }.
Record batch := { bt_lookups : list lookup; bt_meta : meta }.

(* readIndexLookup: |addr16|offset u64|length u32| *)
Definition dec_lookup (b : bytes) : lookup :=
  {| lk_addr := firstn 16 b; lk_off := rd64 (skipn 16 b); lk_len := rd32 (skipn 24 b) |}.
(* readIndexMeta: |start u64|end u64|checksum u32|root 20| *)
Definition dec_meta (b : bytes) : meta :=
  {| m_start := rd64 b; m_end := rd64 (skipn 8 b); m_sum := rd32 (skipn 16 b); m_root := skipn 20 b |}.
(* writeIndexLookup / writeJournalIndexMeta *)
Definition enc_lookup (l : lookup) : bytes := tag_lookup :: lk_addr l ++ be64 (lk_off l) ++ be32 (lk_len l).
Definition enc_meta (m : meta) : bytes := tag_meta :: be64 (m_start m) ++ be64 (m_end m) ++ be32 (m_sum m) ++ m_root m.

(* processIndexRecords with an accepting callback: the complete batches in file order, and whether
   reading stopped at an unknown tag (ErrMalformedIndex).  A short read anywhere (ReadByte / ReadFull
   hitting EOF) is the benign end: the partial batch is dropped.  [cur]: lookups of the open batch. *)
Fixpoint parse_fuel (fuel : nat) (bs : bytes) (cur : list lookup) : list batch * bool :=
  match fuel with
  | O => ([], false)
  | S f =>
    match bs with
    | [] => ([], false)
    | tag :: r =>
      if tag =? tag_lookup then
        match splitN lookup_len r with
        | Some (rec, r') => parse_fuel f r' (cur ++ [dec_lookup rec])
        | None => ([], false)
        end
      else if tag =? tag_meta then
        match splitN meta_len r with
        | Some (rec, r') =>
          let '(bts, mal) := parse_fuel f r' [] in
          ({| bt_lookups := cur; bt_meta := dec_meta rec |} :: bts, mal)
        | None => ([], false)
        end
      else ([], true)
    end
  end.
Definition parse_index (idx : bytes) : list batch * bool := parse_fuel (S (length idx)) idx [].

Definition batch_size (b : batch) : N := N.of_nat (length (bt_lookups b)) * (1 + lookup_len) + (1 + meta_len).
(* the |off| returned by processIndexRecords: end of the last complete batch *)
Definition safe_offset (bts : list batch) : N := fold_left (fun a b => a + batch_size b) bts 0.

Definition ranges0 : ranges := {| novel := []; cached := [] |}.

Section Index.
  Variable crc : bytes -> N.
  Variable bufsz : N.

  (* the running batchCrc: crc32.Update chained over l.a[:] of every lookup = crc of the concatenation.
     F1: the ranges are not part of it. *)
  Definition batch_crc (ls : list lookup) : N := crc (concat (map lk_addr ls)).

  (* peekRootHashAt + rootHashFromBuffer: ReadAt of rootHashRecordSize bytes at |off| (a negative
     int64 offset is an error; a short read leaves the rest of the buffer zero), size field <= 40,
     buf[:sz] validates, parses, is a root record. *)
  Definition peek_root (journal : bytes) (off : N) : option bytes :=
    if 9223372036854775808 <=? off then None
    else
      let buf := firstn 40 (dropN off journal ++ repeat 0 40) in
      let sz := rd32 buf in
      if root_rec_len <? sz then None
      else
        let b := firstn (N.to_nat sz) buf in
        if validate crc b then
          match read_rec b with
          | ROk r => if p_kind r =? kind_root then Some (p_addr r) else None
          | _ => None
          end
        else None.

  (* the callback of readJournalIndex, batch after batch; [prev] = previous batchEnd (initially 0).
     Returns the last batchEnd (wr.indexed) or None on the first failing check. *)
  Definition batch_ok (journal : bytes) (prev : N) (b : batch) : bool :=
    let m := bt_meta b in
    (m_sum m =? batch_crc (bt_lookups b))                       (* m.checkSum != batchChecksum *)
    && (m_start m =? prev)                                      (* m.batchStart != prev *)
    && match peek_root journal (m_end m) with                   (* peekRootHashAt(wr.journal, m.batchEnd) == m.latestHash *)
       | Some h => beq_bytes h (m_root m)
       | None => false
       end.

  Fixpoint validate_batches (journal : bytes) (prev : N) (bts : list batch) : option N :=
    match bts with
    | [] => Some prev
    | b :: bts' => if batch_ok journal prev b then validate_batches journal (m_end (bt_meta b)) bts' else None
    end.

  (* what readJournalIndex leaves in wr.ranges.cached: every lookup of every complete batch, later wins
     (the association list is most-recent-first) *)
  Definition cached_of (bts : list batch) : rmap :=
    rev (map (fun l => (lk_addr l, (lk_off l, lk_len l))) (concat (map bt_lookups bts))).

  (* loadJournalIndex on an existing index file: Some (indexed, cached, safe index offset) when every
     batch validates and no unknown tag is met; None = corruptIndexRecovery.  The real code validates
     batch n before reading batch n+1; an error later discards everything all the same, so parsing
     first and validating afterwards is equivalent. *)
  Definition load_index (idx journal : bytes) : option (N * rmap * N) :=
    let '(bts, malformed) := parse_index idx in
    if malformed then None
    else match validate_batches journal 0 bts with
         | Some indexed => Some (indexed, cached_of bts, safe_offset bts)
         | None => None
         end.

  (* wr.indexed / wr.ranges after loadJournalIndex; [idx] = None: no index file *)
  Definition index_state (idx : option bytes) (journal : bytes) : N * ranges :=
    match idx with
    | None => (0, ranges0)
    | Some ib =>
      match load_index ib journal with
      | Some (indexed, c, _) => (indexed, {| novel := []; cached := c |})
      | None => (0, ranges0)
      end
    end.

  Definition bootstrap_with_index (can_write : bool) (max_novel : N) (idx journal : bytes) : boot :=
    let '(indexed, rg0) := index_state (Some idx) journal in
    bootstrap_from crc bufsz indexed rg0 can_write max_novel journal.

  Definition bootstrap_opt_index (can_write : bool) (max_novel : N) (idx : option bytes) (journal : bytes) : boot :=
    let '(indexed, rg0) := index_state idx journal in
    bootstrap_from crc bufsz indexed rg0 can_write max_novel journal.

  Definition bootstrap_no_index (can_write : bool) (max_novel : N) (journal : bytes) : boot :=
    bootstrap crc bufsz can_write max_novel journal.

  (* ---------------------------------------------------------------- *)
  (* the index file after open + Close.  Read-only: untouched (not created when missing).
     Writable: created when missing; truncated to the safe offset (validated) or to 0 (recovery);
     on a bootstrap error nothing more is flushed; otherwise bootstrapJournal appends one lookup per
     chunk record scanned after |indexed| and, when novelCount > maxNovel, one meta
     (flushIndexRecord(last, lastOffset)); Close flushes the bufio writer. *)
  Definition reindexed (start : N) (max_novel : N) (journal : bytes) : option bytes :=
    match process crc bufsz kind_ok start journal with
    | POk _ items =>
      let chunks := filter (fun it : N * prec => p_kind (snd it) =? kind_chunk) items in
      let lks := map (fun it : N * prec =>
                        let '(o, r) := it in
                        {| lk_addr := addr16 (p_addr r); lk_off := o + (p_len r - (lenN (p_payload r) + 4)); lk_len := lenN (p_payload r) |})
                     chunks in
      let roots := filter (fun it : N * prec => negb (p_kind (snd it) =? kind_chunk)) items in
      let '(last_off, last) := match rev roots with
                               | (o, r) :: _ => (o, p_addr r)
                               | [] => (0, zero_hash)
                               end in
      let novel_count := N.of_nat (length (dedup_keys (map (fun it : N * prec => (p_addr (snd it), (0, 0))) chunks) [])) in
      Some (concat (map enc_lookup lks)
            ++ (if max_novel <? novel_count
                then enc_meta {| m_start := start; m_end := last_off; m_sum := batch_crc lks; m_root := last |}
                else []))
    | _ => None
    end.

  Definition index_after (can_write : bool) (max_novel : N) (idx : option bytes) (journal : bytes) : option bytes :=
    if can_write then
      let '(start, base) :=
        match idx with
        | None => (0, [])
        | Some ib =>
          match load_index ib journal with
          | Some (indexed, _, safe) => (indexed, firstn (N.to_nat safe) ib)
          | None => (0, [])
          end
        end in
      match reindexed start max_novel journal with
      | Some app => Some (base ++ app)
      | None => Some base
      end
    else idx.
End Index.
