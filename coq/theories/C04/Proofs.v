(* C04 — proofs.

   The full property:

     index_transparent :
       forall crc bufsz can_write max_novel known (idx : option bytes) (j : bytes),
         view_of_boot crc known (bootstrap_opt_index crc bufsz can_write max_novel idx j)
         = view_of_boot crc known (bootstrap_no_index crc bufsz can_write max_novel j).

   The faithful model does NOT satisfy it (finding F1): the batch checksum covers the 16-byte
   address prefixes only, so an index whose (offset,length) ranges are swapped between two lookups
   passes every validation.  [index_transparent_refuted] exhibits a concrete journal and index.

   What is proved universally ([index_transparent_partial]): for every journal and every index image
   that is not used — absent, malformed (unknown tag), without a complete batch (empty, too short), or
   failing any validation of readJournalIndex (checksum, contiguity, root record at batchEnd) — the
   whole bootstrap result (hence the view) equals the one without an index; and read-only opens leave
   both files untouched for every index image ([ro_open_pure_index]).
   The validated-prefix case (a genuine or stale index) is [index_transparent_validated] at the end of
   this file: when the journal below [indexed] is a run of intact records, a root record starts at
   [indexed], and the lookups the index supplied are the journal's own ranges (the hypothesis F1 shows
   cannot be dropped), the view equals the index-free one; it rests on the compositionality of the
   journal scan (C03 scan_app).  [own_lookups_agree] derives that hypothesis from "the lookups are, in
   order, those of the chunk records" — what C03 index_stream_covers proves of the writer's index stream.
   Still missing for the unconditional statement on genuine files: the byte-level round trip of the
   index stream through parse_index (tied by the correspondence run only). *)
From Coq Require Import NArith Arith List Bool Lia ZifyN ZifyNat ZifyBool.
From Dolt Require Import Base.Str Gen.C04Consts C03.Model C03.Spec C03.Corr C03.Proofs C04.Model C04.Spec.
Import ListNotations.
Local Open Scope N_scope.

(* ---- literals pinned to the regenerated constants ---- *)
Lemma c04_consts_pinned :
  tag_lookup = index_rec_chunk /\ tag_meta = index_rec_meta
  /\ lookup_len = lookup_sz /\ meta_len = lookup_meta_sz
  /\ lookup_len = a16_len + offset_size + length_size
  /\ meta_len = offset_size + offset_size + checksum_size + hash_byte_len
  /\ addr_sz = hash_byte_len /\ index_rec_type_size = 1.
Proof. repeat split; reflexivity. Qed.

(* ---- an unused index is transparent ---- *)
Definition index_unused (crc : bytes -> N) (idx : option bytes) (j : bytes) : Prop :=
  index_state crc idx j = (0, ranges0).

Lemma unused_boot_eq : forall crc bufsz cw mn idx j,
  index_unused crc idx j ->
  bootstrap_opt_index crc bufsz cw mn idx j = bootstrap_no_index crc bufsz cw mn j.
Proof.
  intros crc bufsz cw mn idx j Hu. unfold bootstrap_opt_index, bootstrap_no_index, bootstrap.
  unfold index_unused in Hu. rewrite Hu. reflexivity.
Qed.

Lemma unused_missing : forall crc j, index_unused crc None j.
Proof. reflexivity. Qed.

Lemma unused_recovery : forall crc ib j, load_index crc ib j = None -> index_unused crc (Some ib) j.
Proof. intros crc ib j H. unfold index_unused, index_state. rewrite H. reflexivity. Qed.

Lemma load_malformed : forall crc ib j, snd (parse_index ib) = true -> load_index crc ib j = None.
Proof.
  intros crc ib j H. unfold load_index. destruct (parse_index ib) as [bts mal]. cbn [snd] in H. subst mal. reflexivity.
Qed.

Lemma load_invalid : forall crc ib j,
  validate_batches crc j 0 (fst (parse_index ib)) = None -> load_index crc ib j = None.
Proof.
  intros crc ib j H. unfold load_index. destruct (parse_index ib) as [bts mal]. cbn [fst] in H.
  destruct mal; [reflexivity|]. rewrite H. reflexivity.
Qed.

(* a batch that fails its check at the position it is reached makes the whole index invalid *)
Lemma validate_bad_batch : forall crc j pre prev p b post,
  validate_batches crc j prev pre = Some p ->
  batch_ok crc j p b = false ->
  validate_batches crc j prev (pre ++ b :: post) = None.
Proof.
  intros crc j pre. induction pre as [|x pre IH]; intros prev p b post Hpre Hb.
  - cbn [validate_batches] in Hpre. injection Hpre as <-. cbn [app validate_batches]. rewrite Hb. reflexivity.
  - cbn [app validate_batches] in *. destruct (batch_ok crc j prev x) eqn:Hx; [|discriminate].
    eapply IH; eassumption.
Qed.

(* a wrong checksum anywhere (the check does not depend on the position) *)
Definition sum_ok (crc : bytes -> N) (b : batch) : bool := m_sum (bt_meta b) =? batch_crc crc (bt_lookups b).
Lemma validate_bad_sum : forall crc j bts prev,
  forallb (sum_ok crc) bts = false -> validate_batches crc j prev bts = None.
Proof.
  intros crc j bts. induction bts as [|b bts IH]; intros prev H.
  - discriminate.
  - cbn [forallb] in H. cbn [validate_batches]. unfold batch_ok. fold (sum_ok crc b).
    destruct (sum_ok crc b) eqn:Hs.
    + cbn [andb] in *. destruct (_ && _); [apply IH; exact H|reflexivity].
    + reflexivity.
Qed.

(* first batch not starting at 0 (non-contiguous), or whose batchEnd does not hold a root record with the recorded hash *)
Lemma validate_bad_first : forall crc j b bts,
  (m_start (bt_meta b) =? 0) = false
  \/ peek_root crc j (m_end (bt_meta b)) = None
  \/ (exists h, peek_root crc j (m_end (bt_meta b)) = Some h /\ beq_bytes h (m_root (bt_meta b)) = false) ->
  validate_batches crc j 0 (b :: bts) = None.
Proof.
  intros crc j b bts H. cbn [validate_batches]. unfold batch_ok.
  destruct H as [H|[H|[h [H1 H2]]]].
  - rewrite H. rewrite andb_false_r. reflexivity.
  - rewrite H. rewrite andb_false_r. reflexivity.
  - rewrite H1, H2. rewrite andb_false_r. reflexivity.
Qed.

Lemma unused_no_batch : forall crc ib j, parse_index ib = ([], false) -> index_unused crc (Some ib) j.
Proof.
  intros crc ib j H. unfold index_unused, index_state, load_index. rewrite H. reflexivity.
Qed.

Lemma unused_empty : forall crc j, index_unused crc (Some []) j.
Proof. intros. apply unused_no_batch. reflexivity. Qed.

(* an index file shorter than a meta record holds no complete batch: [parse_fuel] never emits a batch
   without consuming 41 bytes.  Stated on the parser for images of at most one tag byte + 40. *)
Lemma parse_short_no_batch : forall fuel bs cur, (length bs <= 40)%nat -> fst (parse_fuel fuel bs cur) = [].
Proof.
  induction fuel as [|f IH]; intros bs cur Hl; [reflexivity|].
  cbn [parse_fuel]. destruct bs as [|tag r]; [reflexivity|].
  destruct (tag =? tag_lookup).
  - destruct (splitN lookup_len r) as [[rec r']|] eqn:Hs; [|reflexivity].
    apply IH. clear IH. cbn [length] in Hl.
    assert (Hle : (length r' <= length r)%nat).
    { clear Hl. revert r rec r' Hs. generalize lookup_len as n.
      intros n r. revert n. induction r as [|x r IHr]; intros n rec r' Hs; cbn [splitN] in Hs.
      - destruct (n =? 0); [injection Hs as <- <-; apply le_n|discriminate].
      - destruct (n =? 0); [injection Hs as <- <-; apply le_n|].
        destruct (splitN (N.pred n) r) as [[a b]|] eqn:Hr; [|discriminate].
        injection Hs as <- <-. apply IHr in Hr. cbn [length]. lia. }
    lia.
  - destruct (tag =? tag_meta); [|reflexivity].
    destruct (splitN meta_len r) as [[rec r']|] eqn:Hs; [|reflexivity].
    exfalso. cbn [length] in Hl.
    assert (Hge : (40 <= length r)%nat).
    { clear Hl IH. revert Hs. unfold meta_len.
      assert (G : forall (n : nat) (l : bytes) a b, splitN (N.of_nat n) l = Some (a, b) -> (n <= length l)%nat).
      { induction n as [|n IHn]; intros l a b Hs; [lia|].
        destruct l as [|x l]; cbn [splitN] in Hs.
        - destruct (N.of_nat (S n) =? 0) eqn:E; [apply N.eqb_eq in E; lia|discriminate].
        - destruct (N.of_nat (S n) =? 0) eqn:E; [apply N.eqb_eq in E; lia|].
          replace (N.pred (N.of_nat (S n))) with (N.of_nat n) in Hs by lia.
          destruct (splitN (N.of_nat n) l) as [[a' b']|] eqn:Hr; [|discriminate].
          apply IHn in Hr. cbn [length]. lia. }
      intro Hs. apply (G 40%nat r rec r'). exact Hs. }
    lia.
Qed.

Lemma unused_short : forall crc ib j, (length ib <= 40)%nat -> index_unused crc (Some ib) j.
Proof.
  intros crc ib j Hl. unfold index_unused, index_state, load_index.
  pose proof (parse_short_no_batch (S (length ib)) ib [] Hl) as H. unfold parse_index.
  destruct (parse_fuel (S (length ib)) ib []) as [bts mal]. cbn [fst] in H. subst bts.
  destruct mal; reflexivity.
Qed.

(* ---- the partial transparency theorem ---- *)
Definition not_used (crc : bytes -> N) (idx : option bytes) (j : bytes) : Prop :=
  match idx with
  | None => True                                                      (* no index file *)
  | Some ib =>
    (length ib <= 40)%nat                                             (* empty / shorter than one batch *)
    \/ parse_index ib = ([], false)                                   (* no complete batch (benign EOF) *)
    \/ snd (parse_index ib) = true                                    (* unknown record tag: ErrMalformedIndex *)
    \/ forallb (sum_ok crc) (fst (parse_index ib)) = false            (* some batch checksum wrong *)
    \/ (exists pre p b post, fst (parse_index ib) = pre ++ b :: post  (* some batch fails its validation where it is reached: *)
          /\ validate_batches crc j 0 pre = Some p                    (*   checksum, batchStart = previous batchEnd,       *)
          /\ batch_ok crc j p b = false)                              (*   root record at batchEnd with the recorded hash  *)
    \/ load_index crc ib j = None                                     (* in general: corruptIndexRecovery *)
  end.

Theorem index_transparent_partial :
  forall crc bufsz can_write max_novel known idx j,
    not_used crc idx j ->
    bootstrap_opt_index crc bufsz can_write max_novel idx j = bootstrap_no_index crc bufsz can_write max_novel j
    /\ view_of_boot crc known (bootstrap_opt_index crc bufsz can_write max_novel idx j)
       = view_of_boot crc known (bootstrap_no_index crc bufsz can_write max_novel j).
Proof.
  intros crc bufsz cw mn known idx j H.
  assert (Hu : index_unused crc idx j).
  { destruct idx as [ib|]; [|apply unused_missing].
    cbn [not_used] in H. destruct H as [H|[H|[H|[H|[H|H]]]]].
    - apply unused_short; exact H.
    - apply unused_no_batch; exact H.
    - apply unused_recovery, load_malformed; exact H.
    - apply unused_recovery, load_invalid, validate_bad_sum; exact H.
    - destruct H as [pre [p [b [post [He [Hp Hb]]]]]].
      apply unused_recovery, load_invalid. rewrite He. eapply validate_bad_batch; eassumption.
    - apply unused_recovery; exact H. }
  rewrite (unused_boot_eq crc bufsz cw mn idx j Hu). split; reflexivity.
Qed.

(* ---- read-only opens are pure, for every index image (used or not) ---- *)
Lemma bootstrap_from_ro_file : forall crc bufsz start rg0 mn file,
  b_file (bootstrap_from crc bufsz start rg0 false mn file) = file.
Proof.
  intros. unfold bootstrap_from. destruct (process crc bufsz kind_ok start file) as [off items|off|]; try reflexivity.
  destruct (fold_left apply_item items (rg0, zero_hash)) as [rg root]. reflexivity.
Qed.

Theorem ro_open_pure_index :
  forall crc bufsz max_novel idx j,
    index_after crc bufsz false max_novel idx j = idx
    /\ b_file (bootstrap_opt_index crc bufsz false max_novel idx j) = j.
Proof.
  intros. split; [reflexivity|]. unfold bootstrap_opt_index.
  destruct (index_state crc idx j) as [indexed rg0]. apply bootstrap_from_ro_file.
Qed.

(* ---- F1: the refutation, on concrete bytes ---- *)
Definition wcrc : bytes -> N := crc32 castagnoli.
Definition w_a1 : bytes := repeat 17 20.
Definition w_a2 : bytes := repeat 34 20.
Definition w_root : bytes := repeat 51 20.
Definition w_d1 : bytes := [10; 11; 12].
Definition w_d2 : bytes := [20; 21; 22; 23; 24].
Definition w_p1 : bytes := w_d1 ++ be32 (wcrc w_d1).          (* a well-formed compressed chunk: data + its crc *)
Definition w_p2 : bytes := w_d2 ++ be32 (wcrc w_d2).
(* chunk 1 at 0 (39 bytes, payload at 28, 7 bytes); chunk 2 at 39 (41 bytes, payload at 67, 9 bytes); root record at 80 *)
Definition w_journal : bytes := enc_all wcrc [WChunk w_a1 w_p1; WChunk w_a2 w_p2; WRoot 7 w_root].
Definition w_meta : meta :=
  {| m_start := 0; m_end := 80; m_sum := wcrc (addr16 w_a1 ++ addr16 w_a2); m_root := w_root |}.
(* what the writer leaves: one batch of two lookups *)
Definition w_genuine : bytes :=
  enc_lookup {| lk_addr := addr16 w_a1; lk_off := 28; lk_len := 7 |}
  ++ enc_lookup {| lk_addr := addr16 w_a2; lk_off := 67; lk_len := 9 |} ++ enc_meta w_meta.
(* the same with the two (offset,length) pairs swapped *)
Definition w_swapped : bytes :=
  enc_lookup {| lk_addr := addr16 w_a1; lk_off := 67; lk_len := 9 |}
  ++ enc_lookup {| lk_addr := addr16 w_a2; lk_off := 28; lk_len := 7 |} ++ enc_meta w_meta.
Definition w_bufsz : N := 5242880.
Definition w_maxnovel : N := 16384.

(* non-vacuity: the genuine index is accepted and transparent on this journal *)
Example genuine_index_transparent :
  transparent_on wcrc w_bufsz true w_maxnovel [w_a1; w_a2] (Some w_genuine) w_journal = true
  /\ fst (index_state wcrc (Some w_genuine) w_journal) = 80.
Proof. vm_compute. split; reflexivity. Qed.

Lemma swapped_index_witness :
  (* the swapped index passes every validation: the open skips the first 80 bytes of the journal *)
  (exists c, load_index wcrc w_swapped w_journal = Some (80, c, 99))
  (* both opens succeed with the same root *)
  /\ b_err (bootstrap_with_index wcrc w_bufsz true w_maxnovel w_swapped w_journal) = 0
  /\ b_err (bootstrap_no_index wcrc w_bufsz true w_maxnovel w_journal) = 0
  (* without the index, address a1 reads chunk 1; with it, address a1 reads chunk 2's bytes, status ok, no error *)
  /\ look_of wcrc (bootstrap_no_index wcrc w_bufsz true w_maxnovel w_journal) w_a1
     = {| l_found := true; l_off := 28; l_len := 7; l_st := 1; l_sum := wcrc w_p1 |}
  /\ look_of wcrc (bootstrap_with_index wcrc w_bufsz true w_maxnovel w_swapped w_journal) w_a1
     = {| l_found := true; l_off := 67; l_len := 9; l_st := 1; l_sum := wcrc w_p2 |}
  /\ wcrc w_p1 <> wcrc w_p2.
Proof.
  vm_compute. repeat split; try reflexivity.
  - eexists. reflexivity.
  - discriminate.
Qed.

Theorem index_transparent_refuted :
  exists (idx j h : bytes),
    view_of_boot wcrc [h] (bootstrap_with_index wcrc w_bufsz true w_maxnovel idx j)
    <> view_of_boot wcrc [h] (bootstrap_no_index wcrc w_bufsz true w_maxnovel j).
Proof.
  exists w_swapped, w_journal, w_a1. vm_compute. discriminate.
Qed.


(* ------------------------------------------------------------------ *)
(* the validated-prefix case: an index whose lookups are the journal's own ranges is transparent *)

(* what the bootstrap callback accumulates: novel entries (most recent first) and the last root *)
Fixpoint nvl (items : list (N * prec)) (acc : rmap) : rmap :=
  match items with
  | [] => acc
  | (o, r) :: t =>
    nvl t (if p_kind r =? kind_chunk
           then (p_addr r, (o + (p_len r - (lenN (p_payload r) + 4)), lenN (p_payload r))) :: acc else acc)
  end.
Fixpoint rtl (items : list (N * prec)) (root : bytes) : bytes :=
  match items with
  | [] => root
  | (o, r) :: t => rtl t (if p_kind r =? kind_chunk then root else p_addr r)
  end.

Lemma fold_apply_shape items : forall rg root,
  fold_left apply_item items (rg, root) = ({| novel := nvl items (novel rg); cached := cached rg |}, rtl items root).
Proof.
  induction items as [|[o r] t IH]; intros rg root; [destruct rg; reflexivity|].
  cbn [fold_left nvl rtl]. unfold apply_item at 2. destruct (p_kind r =? kind_chunk); rewrite IH; reflexivity.
Qed.

Lemma nvl_acc items : forall acc, nvl items acc = nvl items [] ++ acc.
Proof.
  induction items as [|[o r] t IH]; intros acc; [reflexivity|]. cbn [nvl].
  destruct (p_kind r =? kind_chunk); [|apply IH]. rewrite IH, (IH [_]), <- app_assoc. reflexivity.
Qed.

Lemma nvl_app a : forall b acc, nvl (a ++ b) acc = nvl b (nvl a acc).
Proof. induction a as [|[o r] t IH]; intros b acc; [reflexivity|]. cbn [app nvl]. apply IH. Qed.

Lemma nvl_items_of rs : forall off acc, nvl (items_of off rs) acc = spec_ranges off rs acc.
Proof.
  induction rs as [|r rs IH]; intros off acc; [reflexivity|]. cbn [items_of nvl].
  destruct r as [a p|ts a]; cbn [prec_of p_kind p_addr p_len p_payload wrec_len spec_ranges].
  - change (kind_chunk =? kind_chunk) with true. cbv iota.
    replace (off + (chunk_rec_len (lenN p) - (lenN p + 4))) with (off + chunk_payload_off)
      by (unfold chunk_rec_len, chunk_payload_off; lia).
    apply IH.
  - change (kind_root =? kind_chunk) with false. cbv iota. apply IH.
Qed.

Lemma nvl_keys items : forall acc k v, In (k, v) (nvl items acc) ->
  In k (map (fun it : N * prec => p_addr (snd it)) (filter (fun it : N * prec => p_kind (snd it) =? kind_chunk) items)) \/ In (k, v) acc.
Proof.
  induction items as [|[o r] t IH]; intros acc k v H; [right; exact H|]. cbn [nvl filter snd] in *.
  destruct (p_kind r =? kind_chunk).
  - destruct (IH _ k v H) as [H1|[H1|H1]]; [left; right; exact H1| |right; exact H1].
    inversion H1; subst. left. left. reflexivity.
  - exact (IH _ k v H).
Qed.

Lemma assoc_app k a : forall b, assoc k (a ++ b) = match assoc k a with Some x => Some x | None => assoc k b end.
Proof. induction a as [|[k' v] a IH]; intros b; [reflexivity|]. cbn [app assoc]. destruct (beq_bytes k k'); [reflexivity|apply IH]. Qed.

Definition map16 (m : rmap) : rmap := map (fun kv => (addr16 (fst kv), snd kv)) m.

(* looking up by 16-byte prefix agrees with looking up by full address when the prefix tells h apart *)
Lemma assoc_map16 h m : (forall k v, In (k, v) m -> addr16 k = addr16 h -> k = h) ->
  assoc (addr16 h) (map16 m) = assoc h m.
Proof.
  induction m as [|[k v] m IH]; intros H; [reflexivity|]. cbn [map16 map assoc fst snd].
  destruct (beq_bytes (addr16 h) (addr16 k)) eqn:E.
  - apply beq_bytes_spec in E. rewrite (H k v (or_introl eq_refl) (eq_sym E)), beq_bytes_refl. reflexivity.
  - destruct (beq_bytes h k) eqn:E2.
    + apply beq_bytes_spec in E2. subst k. rewrite beq_bytes_refl in E. discriminate.
    + apply IH. intros k0 v0 Hi. apply (H k0 v0). right. exact Hi.
Qed.

Lemma get_maybe_flatten h rg (b : bool) :
  (forall k v, In (k, v) (novel rg) -> addr16 k = addr16 h -> k = h) ->
  rng_get (if b then flatten rg else rg) h = rng_get rg h.
Proof.
  intros H. destruct b; [|reflexivity]. unfold rng_get, flatten. cbn [novel cached assoc].
  fold (map16 (novel rg)). rewrite assoc_app, (assoc_map16 h _ H). reflexivity.
Qed.

Section Validated.
  Variable crc : bytes -> N.
  Variable bufsz : N.
  Hypothesis crc_range : forall b, crc b < 4294967296.

  (* index_transparent for a validated index (genuine or stale): the journal up to [indexed] is a run of intact
     records, a root record starts at [indexed] (what peekRootHashAt checked), and — the hypothesis that finding
     F1 shows cannot be dropped — the lookups the index supplied are the journal's own ranges: looking an address
     up in them gives what scanning those records gives. *)
  Theorem index_transparent_validated :
    forall (can_write : bool) (max_novel : N) (known : list bytes) (ib j : bytes)
           (indexed safe : N) (c : rmap) (rs : list wrec) (ts : N) (a tail2 : bytes),
      load_index crc ib j = Some (indexed, c, safe) ->
      j = enc_all crc rs ++ enc crc (WRoot ts a) ++ tail2 ->
      Forall (wf_rec bufsz) rs -> wf_rec bufsz (WRoot ts a) ->
      indexed = total_len rs ->
      (forall h, In h known ->
         assoc (addr16 h) c = assoc h (spec_ranges 0 rs [])     (* the index's ranges are the journal's own *)
         /\ a16_distinct crc bufsz j h) ->
      view_of_boot crc known (bootstrap_with_index crc bufsz can_write max_novel ib j)
      = view_of_boot crc known (bootstrap_no_index crc bufsz can_write max_novel j).
  Proof.
    intros cw mn known ib j indexed safe c rs ts a tail2 Hload Hj Hrs Hroot Hidx Hknown.
    set (root := WRoot ts a) in *.
    assert (W1 : Forall (wf_rec bufsz) [root]) by (constructor; [exact Hroot|constructor]).
    assert (Eroot : enc crc root ++ tail2 = enc_all crc [root] ++ tail2)
      by (cbn [enc_all map concat]; rewrite app_nil_r; reflexivity).
    (* the two scans *)
    pose proof (scan_app crc bufsz crc_range kind_ok (kind_ok_wf bufsz) [root] indexed tail2 W1) as Sb.
    pose proof (scan_app crc bufsz crc_range kind_ok (kind_ok_wf bufsz) rs 0 (enc crc root ++ tail2) Hrs) as Sa.
    rewrite N.add_0_l, <- Hidx, Eroot, Sb in Sa. rewrite <- Eroot, <- Hj in Sa.
    assert (Dj : dropN indexed j = enc_all crc [root] ++ tail2).
    { rewrite Hj, Hidx, <- (lenN_enc_all crc bufsz crc_range rs Hrs), Eroot. apply dropN_app with (crc := crc); assumption. }
    cbn [items_of] in Sa, Sb.
    destruct (scan crc bufsz kind_ok (indexed + total_len [root]) tail2) as [[[items2 off] st] rest] eqn:S2.
    cbn [prep] in Sa, Sb.
    set (X1 := (indexed, prec_of root) :: items2) in *.
    set (X0 := items_of 0 rs ++ X1) in *.
    (* processJournalRecords with and without the index *)
    assert (P1 : process crc bufsz kind_ok indexed j =
                 match st with StErr | StFuel => PErr | StEOF => POk off X1
                 | StRecovered => if data_loss_check crc bufsz rest then PDataLoss off else POk off X1 end).
    { unfold process. rewrite Dj, Sb. cbn [app]. reflexivity. }
    assert (P0 : process crc bufsz kind_ok 0 j =
                 match st with StErr | StFuel => PErr | StEOF => POk off X0
                 | StRecovered => if data_loss_check crc bufsz rest then PDataLoss off else POk off X0 end).
    { unfold process. rewrite dropN_0, Sa. reflexivity. }
    (* the successful case *)
    assert (Main : process crc bufsz kind_ok indexed j = POk off X1 -> process crc bufsz kind_ok 0 j = POk off X0 ->
                   view_of_boot crc known (bootstrap_from crc bufsz indexed {| novel := []; cached := c |} cw mn j)
                   = view_of_boot crc known (bootstrap crc bufsz cw mn j)).
    { intros Q1 Q0. unfold bootstrap, bootstrap_from. rewrite Q1, Q0, !fold_apply_shape. cbn [novel cached].
      (* roots *)
      assert (R : forall d, rtl X0 d = rtl X1 zero_hash).
      { intros d. unfold X0. clear. revert d. generalize 0 as o. induction rs as [|r rs' IH]; intros o d.
        - cbn [items_of app]. unfold X1. cbn [rtl prec_of p_kind p_addr root].
          change (kind_root =? kind_chunk) with false. cbv iota. reflexivity.
        - cbn [items_of app rtl]. apply IH. }
      rewrite (R zero_hash).
      (* novel maps *)
      assert (N0 : nvl X0 [] = nvl X1 [] ++ spec_ranges 0 rs []).
      { unfold X0. rewrite nvl_app, nvl_items_of, nvl_acc. reflexivity. }
      set (rgW := {| novel := nvl X1 []; cached := c |}).
      set (rg0 := {| novel := nvl X0 []; cached := [] |}).
      unfold view_of_boot. cbn [b_err b_root b_off b_ranges b_file]. change (0 =? 0) with true. cbv iota.
      f_equal. apply map_ext_in. intros h Hh. destruct (Hknown h Hh) as [Hown Hdist].
      assert (K0 : forall k v, In (k, v) (nvl X0 []) -> addr16 k = addr16 h -> k = h).
      { intros k v Hi. apply Hdist. unfold journal_chunk_addrs. rewrite Q0.
        destruct (nvl_keys X0 [] k v Hi) as [H|[]]. exact H. }
      assert (KW : forall k v, In (k, v) (novel rgW) -> addr16 k = addr16 h -> k = h).
      { intros k v Hi. apply (K0 k v). rewrite N0. apply in_or_app. left. exact Hi. }
      assert (G : rng_get (if cw && (mn <? rng_novel_count rgW) then flatten rgW else rgW) h
                  = rng_get (if cw && (mn <? rng_novel_count rg0) then flatten rg0 else rg0) h).
      { rewrite (get_maybe_flatten h rgW _ KW), (get_maybe_flatten h rg0 _ K0).
        unfold rng_get, rgW, rg0. cbn [novel cached]. rewrite N0, assoc_app, Hown.
        destruct (assoc h (nvl X1 [])); [reflexivity|]. destruct (assoc h (spec_ranges 0 rs [])); reflexivity. }
      unfold look_of. cbn [b_ranges b_file b_off]. rewrite G. reflexivity. }
    unfold bootstrap_with_index, bootstrap_no_index, index_state. rewrite Hload.
    destruct st.
    - exact (Main P1 P0).
    - destruct (data_loss_check crc bufsz rest).
      + unfold bootstrap, bootstrap_from. rewrite P1, P0. reflexivity.
      + exact (Main P1 P0).
    - unfold bootstrap, bootstrap_from. rewrite P1, P0. reflexivity.
    - unfold bootstrap, bootstrap_from. rewrite P1, P0. reflexivity.
  Qed.
End Validated.

(* "the lookups are the journal's own": if the lookups of the validated batches are, in order, exactly the lookups the
   chunk records below [indexed] are entitled to (what C03's index_stream_covers proves of the writer's index
   stream), then the cached map agrees with the journal's own range table on every address that its 16-byte
   prefix tells apart. *)
Definition entry3 (t : bytes * N * N) : bytes * (N * N) := let '(a, o, l) := t in (a, (o, l)).

Lemma map16_spec rs : forall off acc,
  map16 (spec_ranges off rs acc) = rev (map entry3 (rlookups off rs)) ++ map16 acc.
Proof.
  induction rs as [|r rs IH]; intros off acc; [reflexivity|]. destruct r as [a p|ts a]; cbn [spec_ranges rlookups].
  - rewrite IH. cbn [map rev entry3 map16 fst snd]. rewrite <- app_assoc. reflexivity.
  - apply IH.
Qed.

Lemma own_lookups_agree (bts : list batch) (rs : list wrec) (h : bytes) :
  map (fun l => (lk_addr l, lk_off l, lk_len l)) (concat (map bt_lookups bts)) = rlookups 0 rs ->
  (forall k v, In (k, v) (spec_ranges 0 rs []) -> addr16 k = addr16 h -> k = h) ->
  assoc (addr16 h) (cached_of bts) = assoc h (spec_ranges 0 rs []).
Proof.
  intros Hl Hd. rewrite <- (assoc_map16 h _ Hd), (map16_spec rs 0 []), app_nil_r, <- Hl, map_map. reflexivity.
Qed.
