(* C27 — the abstract view: a keyless table is a multiset of rows (row ↦ multiplicity). *)
From Coq Require Import NArith List Bool.
From Dolt Require Import C29.Model C27.Model.
Import ListNotations.
Local Open Scope N_scope.

Definition mset := row -> N.

Definition m_ins (r : row) (m : mset) : mset := fun x => if row_eqb x r then m x + 1 else m x.
Definition m_del (r : row) (m : mset) : mset := fun x => if row_eqb x r then N.pred (m x) else m x.
Definition m_step (m : mset) (o : op) : mset :=
  match o with Ins r => m_ins r m | Del r => m_del r m | Upd a b => m_ins b (m_del a m) end.
Definition m_run (ops : list op) (m : mset) : mset := fold_left m_step ops m.

(* merge of multiplicities of one row: a side that did not change the multiplicity lets the other
   side's change through (ancestor + delta); both sides changing it is a conflict (ours is kept) —
   dolt's rule also for equal changes ("For keyless tables, this counts as a conflict"). *)
Definition merge_card (bc lc rc : N) : N * bool :=
  if negb (lc =? bc) && negb (rc =? bc) then (lc, true)
  else if negb (rc =? bc) then (rc, false) else (lc, false).
