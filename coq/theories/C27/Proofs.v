(* C27 — proofs. *)
From Coq Require Import NArith ZArith List Bool Lia.
From Dolt Require Import C29.Model C29.Proofs C27.Model C27.Spec.
Import ListNotations.
Local Open Scope N_scope.

Lemma sget_sdel k k' s : sget k (sdel k' s) = if k' =? k then None else sget k s.
Proof.
  unfold sdel. induction s as [|[k0 v0] s IH]; cbn [filter sget fst].
  - destruct (k' =? k); reflexivity.
  - destruct (N.eqb_spec k0 k') as [e|n]; cbn [negb].
    + subst k0. rewrite IH. destruct (k' =? k); reflexivity.
    + cbn [sget]. rewrite IH. destruct (N.eqb_spec k0 k) as [e2|n2]; [|reflexivity].
      subst k0. destruct (N.eqb_spec k' k); [congruence|reflexivity].
Qed.

Lemma sget_sput k k' v s : sget k (sput k' v s) = if k' =? k then Some v else sget k s.
Proof. unfold sput. cbn [sget]. rewrite sget_sdel. destruct (k' =? k); reflexivity. Qed.

Section Refinement.
  Variable hash : row -> N.
  Hypothesis hash_inj : forall a b, hash a = hash b -> a = b.   (* no xxh3-128 collision among the rows of a history *)

  Lemma hash_eqb a b : (hash a =? hash b) = row_eqb b a.
  Proof.
    apply eq_true_iff_eq. rewrite N.eqb_eq, row_eqb_eq. split; intro H; [symmetry; apply hash_inj; exact H|subst; reflexivity].
  Qed.

  Lemma card_ins r s x : card_of hash (ins hash r s) x = m_ins r (card_of hash s) x.
  Proof.
    unfold card_of, ins, m_ins. rewrite <- hash_eqb.
    destruct (sget (hash r) s) as [[c r']|] eqn:E; rewrite sget_sput;
      destruct (N.eqb_spec (hash r) (hash x)) as [e|n]; try reflexivity.
    - rewrite <- e, E. reflexivity.
    - rewrite <- e, E. reflexivity.
  Qed.

  Lemma card_del r s x : card_of hash (del hash r s) x = m_del r (card_of hash s) x.
  Proof.
    unfold card_of, del, m_del. rewrite <- hash_eqb.
    destruct (sget (hash r) s) as [[c r']|] eqn:E.
    - destruct (N.ltb_spec 0 (c - 1)) as [Hc|Hc].
      + rewrite sget_sput. destruct (N.eqb_spec (hash r) (hash x)) as [e|n]; [|reflexivity].
        rewrite <- e, E. lia.
      + rewrite sget_sdel. destruct (N.eqb_spec (hash r) (hash x)) as [e|n]; [|reflexivity].
        rewrite <- e, E. lia.
    - destruct (N.eqb_spec (hash r) (hash x)) as [e|n]; [|reflexivity].
      rewrite <- e, E. reflexivity.
  Qed.

  Lemma card_step s o x : card_of hash (step hash s o) x = m_step (card_of hash s) o x.
  Proof.
    destruct o as [r|r|a b]; cbn [step m_step].
    - apply card_ins.
    - apply card_del.
    - rewrite card_ins. unfold m_ins. rewrite card_del. reflexivity.
  Qed.

  Lemma m_step_ext m m' o : (forall x, m x = m' x) -> forall x, m_step m o x = m_step m' o x.
  Proof.
    intros H x. destruct o as [r|r|a b]; cbn [m_step]; unfold m_ins, m_del; rewrite ?H; reflexivity.
  Qed.

  Lemma m_run_ext ops : forall m m', (forall x, m x = m' x) -> forall x, m_run ops m x = m_run ops m' x.
  Proof.
    induction ops as [|o ops IH]; intros m m' H x; cbn [m_run fold_left]; [apply H|].
    apply IH. apply m_step_ext. exact H.
  Qed.

  (* keyless_refines_multiset: for every sequence of writer operations and every store, the
     multiplicity of every row in the stored form is what the multiset operations give. *)
  Theorem keyless_refines_multiset : forall ops s x,
    card_of hash (run hash ops s) x = m_run ops (card_of hash s) x.
  Proof.
    induction ops as [|o ops IH]; intros s x; cbn [run m_run fold_left]; [reflexivity|].
    fold (run hash ops (step hash s o)). rewrite IH.
    fold (m_run ops (card_of hash (step hash s o))). apply m_run_ext. intro y. apply card_step.
  Qed.

  (* stored cardinalities stay positive (an entry whose count reaches 0 is removed) *)
  Definition positive (s : store) : Prop := forall k c r, sget k s = Some (c, r) -> 0 < c.

  Lemma positive_step s o : positive s -> positive (step hash s o).
  Proof.
    assert (Hi : forall r s, positive s -> positive (ins hash r s)).
    { intros r s0 P k c r0. unfold ins. destruct (sget (hash r) s0) as [[c1 r1]|] eqn:E; rewrite sget_sput;
        destruct (hash r =? k); intro H; try (inversion H; lia); eapply P; exact H. }
    assert (Hd : forall r s, positive s -> positive (del hash r s)).
    { intros r s0 P k c r0. unfold del. destruct (sget (hash r) s0) as [[c1 r1]|] eqn:E; [|apply P].
      destruct (N.ltb_spec 0 (c1 - 1)).
      - rewrite sget_sput. destruct (hash r =? k); intro H'; [inversion H'; lia|eapply P; exact H'].
      - rewrite sget_sdel. destruct (hash r =? k); intro H'; [discriminate|eapply P; exact H']. }
    intro P. destruct o as [r|r|a b]; cbn [step]; auto.
  Qed.

  Theorem positive_run : forall ops s, positive s -> positive (run hash ops s).
  Proof.
    induction ops as [|o ops IH]; intros s P; cbn [run fold_left]; [exact P|].
    apply IH. apply positive_step. exact P.
  Qed.

  Lemma positive_nil : positive [].
  Proof. intros k c r H. discriminate. Qed.

  (* the stored row at hash id (hash r) is r itself *)
  Definition keyed (s : store) : Prop := forall k c r, sget k s = Some (c, r) -> k = hash r.

  (* ---- merge ---- *)
  Lemma sget_none_keys k s : sget k s = None <-> ~ In k (skeys s).
  Proof.
    induction s as [|[k' v] s IH]; cbn [sget skeys map fst]; [tauto|].
    destruct (N.eqb_spec k' k) as [e|n].
    - split; [discriminate|]. intro H. exfalso. apply H. left. exact e.
    - unfold skeys in IH. rewrite IH. split; intro H.
      + intros [E|I]; [congruence|tauto].
      + intro I. apply H. right. exact I.
  Qed.

  Lemma sget_flat_map (g : N -> option (N * row)) ks k :
    sget k (flat_map (fun k' => match g k' with Some v => [(k', v)] | None => [] end) ks)
    = if existsb (N.eqb k) ks then g k else None.
  Proof.
    induction ks as [|k' ks IH]; cbn [flat_map existsb]; [reflexivity|].
    rewrite (N.eqb_sym k k').
    destruct (g k') as [v|] eqn:G; cbn [app sget].
    - destruct (N.eqb_spec k' k) as [e|n]; cbn [orb]; [subst; rewrite G; reflexivity|exact IH].
    - rewrite IH. destruct (N.eqb_spec k' k) as [e|n]; cbn [orb]; [|reflexivity].
      subst. rewrite G. destruct (existsb _ ks); reflexivity.
  Qed.

  Theorem kmerge_get : forall b l r k,
    sget k (km_rows (kmerge b l r)) = fst (kmerge_key (sget k b) (sget k l) (sget k r)).
  Proof.
    intros. unfold kmerge. cbn [km_rows]. rewrite sget_flat_map.
    destruct (existsb (N.eqb k) _) eqn:E; [reflexivity|].
    assert (H : ~ In k (skeys b ++ skeys l ++ skeys r)).
    { intro H. apply (nodup_In N.eq_dec) in H. apply (proj2 (existsb_eqb_In k _)) in H. congruence. }
    rewrite !in_app_iff in H.
    assert (Hb : sget k b = None) by (apply sget_none_keys; tauto).
    assert (Hl : sget k l = None) by (apply sget_none_keys; tauto).
    assert (Hr : sget k r = None) by (apply sget_none_keys; tauto).
    rewrite Hb, Hl, Hr. reflexivity.
  Qed.

  Theorem kmerge_conflict_iff : forall b l r k,
    In k (map fst (km_conf (kmerge b l r))) <-> snd (kmerge_key (sget k b) (sget k l) (sget k r)) = true.
  Proof.
    intros. unfold kmerge. cbn [km_conf]. rewrite in_map_iff. split.
    - intros [[k' e] [Hk Hin]]. cbn [fst] in Hk. subst k'. apply in_flat_map in Hin as [k0 [_ Hin]].
      destruct (snd (kmerge_key (sget k0 b) (sget k0 l) (sget k0 r))) eqn:E; [|destruct Hin].
      destruct Hin as [Hin|[]]. inversion Hin; subst. exact E.
    - intro H. exists (k, (sget k b, sget k l, sget k r)). split; [reflexivity|].
      apply in_flat_map. exists k. split.
      + apply nodup_In. rewrite !in_app_iff.
        destruct (sget k b) eqn:Eb; [left; apply Decidable.not_not; [unfold Decidable.decidable; destruct (in_dec N.eq_dec k (skeys b)); tauto|]; intro N0; apply sget_none_keys in N0; congruence|].
        destruct (sget k l) eqn:El; [right; left; apply Decidable.not_not; [unfold Decidable.decidable; destruct (in_dec N.eq_dec k (skeys l)); tauto|]; intro N0; apply sget_none_keys in N0; congruence|].
        destruct (sget k r) eqn:Er; [right; right; apply Decidable.not_not; [unfold Decidable.decidable; destruct (in_dec N.eq_dec k (skeys r)); tauto|]; intro N0; apply sget_none_keys in N0; congruence|].
        cbn in H. discriminate.
      + rewrite H. left. reflexivity.
  Qed.

  Lemma oentry_eqb_card (a b : option (N * row)) :
    (forall c r, a = Some (c, r) -> 0 < c) -> (forall c r, b = Some (c, r) -> 0 < c) ->
    oentry_eqb a b = ((match b with Some (c, _) => c | None => 0 end) =? (match a with Some (c, _) => c | None => 0 end)).
  Proof.
    intros Pa Pb. destruct a as [[c r]|], b as [[c' r']|]; cbn [oentry_eqb].
    - apply N.eqb_sym.
    - specialize (Pa c r eq_refl). symmetry. apply N.eqb_neq. lia.
    - specialize (Pb c' r' eq_refl). symmetry. apply N.eqb_neq. lia.
    - reflexivity.
  Qed.

  (* keyless_merge_spec: for all positive stores and every row, the merged multiplicity and the
     conflict flag are those of merge_card on the three multiplicities. *)
  Theorem keyless_merge_spec : forall b l r x,
    positive b -> positive l -> positive r ->
    card_of hash (km_rows (kmerge b l r)) x
    = fst (merge_card (card_of hash b x) (card_of hash l x) (card_of hash r x))
    /\ (In (hash x) (map fst (km_conf (kmerge b l r)))
        <-> snd (merge_card (card_of hash b x) (card_of hash l x) (card_of hash r x)) = true).
  Proof.
    intros b l r x Pb Pl Pr. rewrite kmerge_conflict_iff. unfold card_of. rewrite kmerge_get.
    unfold kmerge_key, merge_card.
    rewrite (oentry_eqb_card (sget (hash x) b) (sget (hash x) l)) by (intros c r0 H; eauto).
    rewrite (oentry_eqb_card (sget (hash x) b) (sget (hash x) r)) by (intros c r0 H; eauto).
    destruct (sget (hash x) b) as [[cb rb]|], (sget (hash x) l) as [[cl rl]|], (sget (hash x) r) as [[cr rr]|];
      cbn [fst snd];
      repeat match goal with |- context [?a =? ?b] => destruct (N.eqb_spec a b) end;
      cbn [negb andb fst snd]; split; try reflexivity; try tauto.
  Qed.

  (* "applies each side's change in multiplicity": without conflict the result is ancestor + both deltas *)
  Theorem merge_card_deltas : forall bc lc rc,
    snd (merge_card bc lc rc) = false ->
    Z.of_N (fst (merge_card bc lc rc)) = (Z.of_N bc + (Z.of_N lc - Z.of_N bc) + (Z.of_N rc - Z.of_N bc))%Z.
  Proof.
    intros bc lc rc. unfold merge_card.
    destruct (N.eqb_spec lc bc), (N.eqb_spec rc bc); cbn [negb andb fst snd]; intro H; try discriminate; subst; lia.
  Qed.

  Theorem merge_card_conflict_iff : forall bc lc rc,
    snd (merge_card bc lc rc) = true <-> (lc <> bc /\ rc <> bc).
  Proof.
    intros. unfold merge_card. destruct (N.eqb_spec lc bc), (N.eqb_spec rc bc); cbn [negb andb snd]; split; intro H; try discriminate; try tauto.
  Qed.
End Refinement.

(* ====================================================================== *)
(* Round 2: the oracle accepts the model's merge observation (list level)  *)
(* ====================================================================== *)
From Dolt Require Import C27.Corr.

Section OracleOnModel.
  (* the executable run uses [enc] as the hash id; it is injective on the rows of the input at hand *)
  Variable U : list row.
  Hypothesis enc_inj : forall x y, In x U -> In y U -> enc x = enc y -> x = y.

  Definition rows_in (m : mstate) : Prop := forall r c, In (r, c) m -> In r U.
  Definition keyed_on (s : store) : Prop := forall k c r, In (k, (c, r)) s -> k = enc r /\ In r U.

  Lemma enc_eqb x y : In x U -> In y U -> (enc x =? enc y) = row_eqb x y.
  Proof.
    intros Hx Hy. apply eq_true_iff_eq. rewrite N.eqb_eq, row_eqb_eq. split; [apply enc_inj; assumption|congruence].
  Qed.

  Lemma card_store_of m x : rows_in m -> In x U -> card_of enc (store_of m) x = mlookup x m.
  Proof.
    intros R Hx. unfold card_of. induction m as [|[r c] m IH]; [reflexivity|].
    cbn [store_of map fst snd sget mlookup].
    assert (Hr : In r U) by (apply (R r c); left; reflexivity).
    rewrite (enc_eqb r x Hr Hx). destruct (row_eqb r x); [reflexivity|].
    apply IH. intros r' c' H. apply (R r' c'). right. exact H.
  Qed.

  Lemma keyed_store_of m : rows_in m -> keyed_on (store_of m).
  Proof.
    intros R k c r H. unfold store_of in H. apply in_map_iff in H as [[r' c'] [E Hin]]. cbn [fst snd] in E.
    inversion E; subst. split; [reflexivity|]. apply (R r c). exact Hin.
  Qed.

  Lemma sget_In k s v : sget k s = Some v -> In (k, v) s.
  Proof.
    induction s as [|[k' v'] s IH]; cbn [sget]; [discriminate|].
    destruct (N.eqb_spec k' k); intro H; [inversion H; subst; left; reflexivity|right; apply IH; exact H].
  Qed.

  Lemma positive_store_of m : forallb (fun e => 0 <? snd e) m = true -> positive (store_of m).
  Proof.
    intros P k c r H. apply sget_In in H. unfold store_of in H. apply in_map_iff in H as [[r' c'] [E Hin]].
    cbn [fst snd] in E. inversion E; subst. rewrite forallb_forall in P. specialize (P _ Hin). cbn [snd] in P.
    apply N.ltb_lt. exact P.
  Qed.

  Lemma mlookup_state_of s x : keyed_on s -> In x U -> mlookup x (state_of s) = card_of enc s x.
  Proof.
    intros K Hx. unfold card_of. induction s as [|[k [c r]] s IH]; [reflexivity|].
    cbn [state_of map fst snd mlookup sget].
    destruct (K k c r (or_introl eq_refl)) as [Ek Hr]. subst k.
    rewrite (enc_eqb r x Hr Hx). destruct (row_eqb r x); [reflexivity|].
    apply IH. intros k' c' r' H. apply (K k' c' r'). right. exact H.
  Qed.

  Lemma keyed_kmerge b l r : keyed_on b -> keyed_on l -> keyed_on r -> keyed_on (km_rows (kmerge b l r)).
  Proof.
    intros Kb Kl Kr k c x H. unfold kmerge in H. cbn [km_rows] in H.
    apply in_flat_map in H as [k0 [_ H]].
    destruct (fst (kmerge_key (sget k0 b) (sget k0 l) (sget k0 r))) as [v|] eqn:E; [|destruct H].
    destruct H as [H|[]]. inversion H; subst. unfold kmerge_key in E.
    destruct (negb (oentry_eqb (sget k b) (sget k l)) && negb (oentry_eqb (sget k b) (sget k r)));
      [|destruct (negb (oentry_eqb (sget k b) (sget k r)))]; cbn [fst] in E; apply sget_In in E; eauto.
  Qed.
End OracleOnModel.

Section OracleOnModel2.
  Variable U : list row.
  Hypothesis enc_inj : forall x y, In x U -> In y U -> enc x = enc y -> x = y.

  Definition cardo (o : option (N * row)) : N := match o with Some (c, _) => c | None => 0 end.
  Definition rowof (e : option (N * row) * option (N * row) * option (N * row)) : row :=
    match e with
    | (Some (_, x), _, _) => x | (None, Some (_, x), _) => x | (None, None, Some (_, x)) => x | _ => [] end.
  Definition trc (ce : kconflict) : row * (N * N * N) :=
    (rowof (snd ce), (cardo (fst (fst (snd ce))), cardo (snd (fst (snd ce))), cardo (snd (snd ce)))).

  Lemma model_merge_conf b l r :
    mo_conf (model_merge b l r) = map trc (km_conf (kmerge (store_of b) (store_of l) (store_of r))).
  Proof. reflexivity. Qed.

  Lemma rowof_keyed b l r k :
    keyed_on U b -> keyed_on U l -> keyed_on U r ->
    snd (kmerge_key (sget k b) (sget k l) (sget k r)) = true ->
    enc (rowof (sget k b, sget k l, sget k r)) = k /\ In (rowof (sget k b, sget k l, sget k r)) U.
  Proof.
    intros Kb Kl Kr C. unfold rowof.
    destruct (sget k b) as [[cb xb]|] eqn:Eb.
    - apply sget_In in Eb. destruct (Kb _ _ _ Eb). split; [symmetry|]; assumption.
    - destruct (sget k l) as [[cl xl]|] eqn:El.
      + apply sget_In in El. destruct (Kl _ _ _ El). split; [symmetry|]; assumption.
      + destruct (sget k r) as [[cr xr]|] eqn:Er.
        * apply sget_In in Er. destruct (Kr _ _ _ Er). split; [symmetry|]; assumption.
        * cbn in C. discriminate.
  Qed.

  Lemma clookup_conf b l r x ks :
    keyed_on U b -> keyed_on U l -> keyed_on U r -> In x U ->
    clookup x (map trc (flat_map (fun k => if snd (kmerge_key (sget k b) (sget k l) (sget k r))
                                           then [(k, (sget k b, sget k l, sget k r))] else []) ks))
    = if existsb (N.eqb (enc x)) ks
      then (if snd (kmerge_key (sget (enc x) b) (sget (enc x) l) (sget (enc x) r))
            then Some (cardo (sget (enc x) b), cardo (sget (enc x) l), cardo (sget (enc x) r)) else None)
      else None.
  Proof.
    intros Kb Kl Kr Hx. induction ks as [|k ks IH]; cbn [flat_map existsb]; [reflexivity|].
    rewrite map_app. destruct (snd (kmerge_key (sget k b) (sget k l) (sget k r))) eqn:C.
    - cbv iota. cbn [map app clookup trc fst snd]. destruct (rowof_keyed b l r k Kb Kl Kr C) as [Ek Hin].
      rewrite <- (enc_eqb U enc_inj _ _ Hin Hx), Ek, (N.eqb_sym (enc x) k).
      destruct (N.eqb_spec k (enc x)) as [E|NE]; cbn [orb].
      + subst k. rewrite C. reflexivity.
      + refine (eq_trans IH _). reflexivity.
    - cbv iota. cbn [map app]. refine (eq_trans IH _). destruct (N.eqb_spec (enc x) k) as [E|NE]; cbn [orb]; [|reflexivity].
      subst k. rewrite C. destruct (existsb _ ks); reflexivity.
  Qed.

  Lemma kmerge_key_absent_all : snd (kmerge_key None None None) = false.
  Proof. reflexivity. Qed.

  Lemma clookup_model b l r x :
    rows_in U b -> rows_in U l -> rows_in U r -> In x U ->
    clookup x (mo_conf (model_merge b l r))
    = let sb := store_of b in let sl := store_of l in let sr := store_of r in
      if snd (kmerge_key (sget (enc x) sb) (sget (enc x) sl) (sget (enc x) sr))
      then Some (cardo (sget (enc x) sb), cardo (sget (enc x) sl), cardo (sget (enc x) sr)) else None.
  Proof.
    intros Rb Rl Rr Hx. cbv zeta. rewrite model_merge_conf. unfold kmerge. cbn [km_conf].
    rewrite clookup_conf by (try apply keyed_store_of; assumption).
    destruct (existsb (N.eqb (enc x)) _) eqn:E; [reflexivity|].
    assert (H : ~ In (enc x) (skeys (store_of b) ++ skeys (store_of l) ++ skeys (store_of r))).
    { intro H. apply (nodup_In N.eq_dec) in H. apply (proj2 (existsb_eqb_In (enc x) _)) in H. congruence. }
    rewrite !in_app_iff in H.
    assert (Hb : sget (enc x) (store_of b) = None) by (apply sget_none_keys; tauto).
    assert (Hl : sget (enc x) (store_of l) = None) by (apply sget_none_keys; tauto).
    assert (Hr : sget (enc x) (store_of r) = None) by (apply sget_none_keys; tauto).
    rewrite Hb, Hl, Hr. reflexivity.
  Qed.

  Definition pos_m (m : mstate) : Prop := forallb (fun e => 0 <? snd e) m = true.

  Lemma merge_ok_at b l r x :
    rows_in U b -> rows_in U l -> rows_in U r -> pos_m b -> pos_m l -> pos_m r -> In x U ->
    (let '(c, cf) := merge_card (mlookup x b) (mlookup x l) (mlookup x r) in
     (mlookup x (mo_state (model_merge b l r)) =? c)
     && match clookup x (mo_conf (model_merge b l r)) with
        | None => negb cf
        | Some (cb, co, ct) => cf && (cb =? mlookup x b) && (co =? mlookup x l) && (ct =? mlookup x r)
        end) = true.
  Proof.
    intros Rb Rl Rr Pb Pl Pr Hx.
    pose proof (keyless_merge_spec enc (store_of b) (store_of l) (store_of r) x
                  (positive_store_of b Pb) (positive_store_of l Pl) (positive_store_of r Pr)) as [V C].
    rewrite kmerge_conflict_iff in C.
    rewrite !(card_store_of U enc_inj) in V by assumption.
    rewrite !(card_store_of U enc_inj) in C by assumption.
    assert (S : mlookup x (mo_state (model_merge b l r)) = card_of enc (km_rows (kmerge (store_of b) (store_of l) (store_of r))) x).
    { change (mo_state (model_merge b l r)) with (state_of (km_rows (kmerge (store_of b) (store_of l) (store_of r)))).
      apply (mlookup_state_of U enc_inj); [|exact Hx].
      apply keyed_kmerge; apply keyed_store_of; assumption. }
    rewrite S, V. rewrite (clookup_model b l r x Rb Rl Rr Hx). cbv zeta.
    assert (Cb : cardo (sget (enc x) (store_of b)) = mlookup x b) by (rewrite <- (card_store_of U enc_inj b x Rb Hx); reflexivity).
    assert (Cl : cardo (sget (enc x) (store_of l)) = mlookup x l) by (rewrite <- (card_store_of U enc_inj l x Rl Hx); reflexivity).
    assert (Cr : cardo (sget (enc x) (store_of r)) = mlookup x r) by (rewrite <- (card_store_of U enc_inj r x Rr Hx); reflexivity).
    rewrite Cb, Cl, Cr.
    destruct (merge_card (mlookup x b) (mlookup x l) (mlookup x r)) as [c cf]. cbn [fst snd] in *.
    rewrite N.eqb_refl. cbn [andb].
    destruct (snd (kmerge_key (sget (enc x) (store_of b)) (sget (enc x) (store_of l)) (sget (enc x) (store_of r)))).
    - rewrite (proj1 C eq_refl), !N.eqb_refl. reflexivity.
    - destruct cf; [specialize (proj2 C eq_refl); discriminate|reflexivity].
  Qed.
End OracleOnModel2.

Definition input_rows (b l r : mstate) : list row := map fst b ++ map fst l ++ map fst r.

Lemma rows_in_part (U : list row) (m : mstate) : incl (map fst m) U -> rows_in U m.
Proof. intros H r c Hin. apply H. apply in_map_iff. exists (r, c). split; [reflexivity|exact Hin]. Qed.

Theorem merge_oracle_on_model : forall b l r,
  (forall x y, In x (input_rows b l r) -> In y (input_rows b l r) -> enc x = enc y -> x = y) ->
  pos_m b -> pos_m l -> pos_m r ->
  merge_ok b l r (model_merge b l r) = true.
Proof.
  intros b l r Inj Pb Pl Pr. set (U := input_rows b l r) in *.
  assert (Rb : rows_in U b) by (apply rows_in_part; unfold U, input_rows; intros x H; apply in_or_app; left; exact H).
  assert (Rl : rows_in U l) by (apply rows_in_part; unfold U, input_rows; intros x H; apply in_or_app; right; apply in_or_app; left; exact H).
  assert (Rr : rows_in U r) by (apply rows_in_part; unfold U, input_rows; intros x H; apply in_or_app; right; apply in_or_app; right; exact H).
  pose proof (keyed_store_of U b Rb) as Kb. pose proof (keyed_store_of U l Rl) as Kl. pose proof (keyed_store_of U r Rr) as Kr.
  unfold merge_ok. rewrite !andb_true_iff. split; [split|].
  - change (mo_class (model_merge b l r)) with (match km_conf (kmerge (store_of b) (store_of l) (store_of r)) with [] => 0 | _ => 1 end).
    destruct (km_conf _); reflexivity.
  - rewrite model_merge_conf.
    change (mo_class (model_merge b l r)) with (match km_conf (kmerge (store_of b) (store_of l) (store_of r)) with [] => 0 | _ => 1 end).
    destruct (km_conf _); reflexivity.
  - apply forallb_forall. intros x Hx.
    assert (HU : In x U).
    { rewrite !in_app_iff in Hx. destruct Hx as [H|[H|[H|[H|H]]]].
      - unfold U, input_rows. rewrite !in_app_iff. tauto.
      - unfold U, input_rows. rewrite !in_app_iff. tauto.
      - unfold U, input_rows. rewrite !in_app_iff. tauto.
      - change (mo_state (model_merge b l r)) with (state_of (km_rows (kmerge (store_of b) (store_of l) (store_of r)))) in H.
        unfold state_of in H. rewrite map_map in H. apply in_map_iff in H as [[k [c x']] [E Hin]]. cbn [fst snd] in E. subst x'.
        destruct (keyed_kmerge U _ _ _ Kb Kl Kr k c x Hin) as [_ Hin']. exact Hin'.
      - rewrite model_merge_conf, map_map in H. apply in_map_iff in H as [[k e] [E Hin]]. cbn [trc fst snd] in E. subst x.
        unfold kmerge in Hin. cbn [km_conf] in Hin. apply in_flat_map in Hin as [k0 [_ Hin]].
        destruct (snd (kmerge_key (sget k0 (store_of b)) (sget k0 (store_of l)) (sget k0 (store_of r)))) eqn:C; [|destruct Hin].
        destruct Hin as [Hin|[]]. inversion Hin; subst.
        destruct (rowof_keyed U _ _ _ k Kb Kl Kr C) as [_ Hin']. exact Hin'. }
    apply (merge_ok_at U Inj b l r x Rb Rl Rr Pb Pl Pr HU).
Qed.

(* oracle_on_model (C27).  Full statement: for every input whose statement expansions are the
   engine's (each op list implements its statement on the multiset before it), on whose rows [enc] is
   injective and whose multiplicities are positive, [oracle i (model_obs i) = true].
   Proved part: the two merge conjuncts (both directions).  Missing: the statement-by-statement
   conjunct [steps_ok] — it needs the list-level glue between [run enc ops] and the GROUP BY view
   (distinct rows, COUNT = sum, index probe) plus a characterisation of correct expansions; the
   multiplicity part of it is keyless_refines_multiset. *)
Theorem oracle_on_model_partial : forall i,
  (forall x y, In x (input_rows (i_b i) (i_l i) (i_r i)) -> In y (input_rows (i_b i) (i_l i) (i_r i)) -> enc x = enc y -> x = y) ->
  pos_m (i_b i) -> pos_m (i_l i) -> pos_m (i_r i) ->
  merge_ok (i_b i) (i_l i) (i_r i) (o_lr (model_obs i)) = true
  /\ merge_ok (i_b i) (i_r i) (i_l i) (o_rl (model_obs i)) = true.
Proof.
  intros i Inj Pb Pl Pr. split; apply merge_oracle_on_model; try assumption.
  intros x y Hx Hy. apply Inj; unfold input_rows in *; rewrite !in_app_iff in *; tauto.
Qed.

(* entries of the conflict list carry the three stored values of their hash id *)
Theorem kmerge_conflict_entry : forall b l r k e,
  In (k, e) (km_conf (kmerge b l r)) -> e = (sget k b, sget k l, sget k r).
Proof.
  intros b l r k e H. unfold kmerge in H. cbn [km_conf] in H. apply in_flat_map in H as [k0 [_ H]].
  destruct (snd (kmerge_key (sget k0 b) (sget k0 l) (sget k0 r))); [|destruct H].
  destruct H as [H|[]]. inversion H. reflexivity.
Qed.

(* non-vacuity of the hypotheses of merge_oracle_on_model *)
Example merge_oracle_hyps_satisfiable :
  let b := [([Some 1; Some 1], 2); ([Some 2; None], 1)] in
  let l := [([Some 1; Some 1], 3); ([Some 2; None], 1)] in
  let r := [([Some 1; Some 1], 3)] in
  merge_ok b l r (model_merge b l r) = true /\ mo_class (model_merge b l r) = 1.
Proof. split; vm_compute; reflexivity. Qed.

(* ====================================================================== *)
(* Round 4: the secondary index of a keyless table mirrors the stored multiset *)
(* ====================================================================== *)
Lemma ientry_eqb_spec27 a b : ientry_eqb a b = true <-> a = b.
Proof.
  destruct a as [v k], b as [v' k']. unfold ientry_eqb. cbn [fst snd]. rewrite andb_true_iff, N.eqb_eq.
  destruct (cell_eqb_spec v v') as [E|NE]; split; intro H.
  - destruct H. congruence.
  - split; [reflexivity|congruence].
  - destruct H. discriminate.
  - inversion H. contradiction.
Qed.

Lemma cell_eqb_sym27 a b : cell_eqb a b = cell_eqb b a.
Proof. destruct (cell_eqb_spec a b), (cell_eqb_spec b a); congruence. Qed.

Lemma imem_iput v h e ix : imem v h (iput e ix) = ientry_eqb (v, h) e || imem v h ix.
Proof.
  unfold iput. destruct (imem (fst e) (snd e) ix) eqn:M; [|reflexivity].
  destruct (ientry_eqb (v, h) e) eqn:E; [|reflexivity]. apply ientry_eqb_spec27 in E. subst e. cbn [fst snd] in M.
  rewrite M. reflexivity.
Qed.

Lemma imem_idel27 v h e ix : imem v h (idel e ix) = imem v h ix && negb (ientry_eqb e (v, h)).
Proof.
  unfold imem, idel. induction ix as [|x ix IH]; cbn [filter existsb]; [reflexivity|].
  destruct (ientry_eqb e x) eqn:E; cbn [negb].
  - rewrite IH. apply ientry_eqb_spec27 in E. subst x.
    destruct (ientry_eqb (v, h) e) eqn:E2; cbn [orb]; [|reflexivity].
    apply ientry_eqb_spec27 in E2. subst e.
    assert (H : ientry_eqb (v, h) (v, h) = true) by (apply ientry_eqb_spec27; reflexivity).
    rewrite H. cbn [negb]. rewrite !andb_false_r. reflexivity.
  - cbn [existsb]. rewrite IH. destruct (ientry_eqb (v, h) x) eqn:E2; cbn [orb]; [|reflexivity].
    apply ientry_eqb_spec27 in E2. subst x. rewrite E. reflexivity.
Qed.

Lemma ientry_eqb_key v h v' h' : ientry_eqb (v, h) (v', h') = cell_eqb v v' && (h =? h').
Proof. reflexivity. Qed.

Section IndexMirror.
  Variable hash : row -> N.
  Hypothesis hash_inj : forall a b, hash a = hash b -> a = b.

  Definition keyed27 (s : store) : Prop := forall k c r, sget k s = Some (c, r) -> k = hash r.

  (* (v, h) is an index entry exactly when the primary holds, at hash id h, a row whose indexed column is v *)
  Definition imirror (st : tstate) : Prop :=
    forall v h, imem v h (snd st) = match sget h (fst st) with Some (_, r) => cell_eqb (ival r) v | None => false end.

  Lemma keyed_ins r s : keyed27 s -> keyed27 (ins hash r s).
  Proof.
    intros K k c x. unfold ins. destruct (sget (hash r) s) as [[c1 r1]|] eqn:E; rewrite sget_sput;
      destruct (N.eqb_spec (hash r) k) as [Ek|NE]; intro H; try (eapply K; exact H).
    - inversion H; subst. apply (K _ _ _ E).
    - inversion H; subst. reflexivity.
  Qed.

  Lemma keyed_del r s : keyed27 s -> keyed27 (del hash r s).
  Proof.
    intros K k c x. unfold del. destruct (sget (hash r) s) as [[c1 r1]|] eqn:E; [|apply K].
    destruct (0 <? c1 - 1).
    - rewrite sget_sput. destruct (N.eqb_spec (hash r) k) as [Ek|NE]; intro H; [|eapply K; exact H].
      inversion H; subst. apply (K _ _ _ E).
    - rewrite sget_sdel. destruct (hash r =? k); intro H; [discriminate|eapply K; exact H].
  Qed.

  Lemma mirror_ins r s ix :
    keyed27 s -> imirror (s, ix) -> imirror (ins hash r s, iput (ival r, hash r) ix).
  Proof.
    intros K M v h. cbn [fst snd]. rewrite imem_iput, ientry_eqb_key. pose proof (M v h) as Mh. cbn [fst snd] in Mh.
    unfold ins. destruct (sget (hash r) s) as [[c r']|] eqn:E; rewrite sget_sput;
      rewrite (N.eqb_sym h (hash r)); destruct (N.eqb_spec (hash r) h) as [Eh|NE];
      rewrite ?andb_false_r, ?andb_true_r; cbn [orb]; try exact Mh.
    - subst h. rewrite E in Mh. rewrite Mh.
      assert (r' = r) by (apply hash_inj; symmetry; apply (K _ _ _ E)). subst r'.
      rewrite (cell_eqb_sym27 v). destruct (cell_eqb (ival r) v); reflexivity.
    - subst h. rewrite E in Mh. rewrite Mh, orb_false_r. apply cell_eqb_sym27.
  Qed.

  Lemma mirror_secdel r s ix :
    keyed27 s -> imirror (s, ix) -> imirror (del hash r s, sec_del hash r s ix).
  Proof.
    intros K M v h. cbn [fst snd]. pose proof (M v h) as Mh. cbn [fst snd] in Mh.
    unfold del, sec_del. destruct (sget (hash r) s) as [[c r']|] eqn:E.
    - assert (r' = r) by (apply hash_inj; symmetry; apply (K _ _ _ E)). subst r'.
      destruct (N.ltb_spec 1 c) as [Hc|Hc]; destruct (N.ltb_spec 0 (c - 1)) as [Hc'|Hc']; try lia.
      + rewrite sget_sput. destruct (N.eqb_spec (hash r) h) as [Eh|NE]; [|exact Mh].
        subst h. rewrite E in Mh. exact Mh.
      + rewrite sget_sdel, imem_idel27, ientry_eqb_key.
        destruct (N.eqb_spec (hash r) h) as [Eh|NE].
        * subst h. rewrite E in Mh. rewrite Mh, andb_true_r. destruct (cell_eqb (ival r) v); reflexivity.
        * rewrite andb_false_r. cbn [negb]. rewrite andb_true_r. exact Mh.
    - rewrite imem_idel27, ientry_eqb_key. destruct (N.eqb_spec (hash r) h) as [Eh|NE].
      + subst h. rewrite E in Mh. rewrite Mh, E. reflexivity.
      + rewrite andb_false_r. cbn [negb]. rewrite andb_true_r. exact Mh.
  Qed.

  Lemma tstep_inv st o : keyed27 (fst st) /\ imirror st -> keyed27 (fst (tstep hash st o)) /\ imirror (tstep hash st o).
  Proof.
    destruct st as [s ix]. cbn [fst]. intros [K M]. destruct o as [r|r|a b]; cbn [tstep fst].
    - split; [apply keyed_ins; exact K|apply mirror_ins; assumption].
    - split; [apply keyed_del; exact K|apply mirror_secdel; assumption].
    - split; [apply keyed_ins, keyed_del; exact K|].
      apply mirror_ins; [apply keyed_del; exact K|apply mirror_secdel; assumption].
  Qed.

  (* for every sequence of writer operations on an empty indexed keyless table: the index mirrors the primary *)
  Theorem index_mirrors_store : forall ops,
    keyed27 (fst (trun hash ops ([], []))) /\ imirror (trun hash ops ([], [])).
  Proof.
    assert (G : forall ops st, keyed27 (fst st) /\ imirror st ->
                keyed27 (fst (trun hash ops st)) /\ imirror (trun hash ops st)).
    { induction ops as [|o ops IH]; intros st H; cbn [trun fold_left]; [exact H|].
      apply IH. apply tstep_inv. exact H. }
    intro ops. apply G. split; [intros k c r H; discriminate|intros v h; reflexivity].
  Qed.

  Lemma trun_store ops : forall st, fst (trun hash ops st) = run hash ops (fst st).
  Proof.
    induction ops as [|o ops IH]; intro st; cbn [trun run fold_left]; [reflexivity|].
    fold (trun hash ops (tstep hash st o)). fold (run hash ops (step hash (fst st) o)).
    rewrite IH. destruct st as [s ix]. destruct o; reflexivity.
  Qed.

  (* the statement asked for: after every sequence of writer operations, the entry (indexed value of r,
     hash id of r) is in the index exactly when r's multiplicity is positive *)
  Theorem index_entry_iff_present : forall ops r,
    let st := trun hash ops ([], []) in
    imem (ival r) (hash r) (snd st) = true <-> 0 < card_of hash (fst st) r.
  Proof.
    intros ops r st. destruct (index_mirrors_store ops) as [K M]. fold st in K, M.
    rewrite (M (ival r) (hash r)). unfold card_of.
    assert (P : positive (fst st)).
    { unfold st. rewrite trun_store. apply positive_run. apply positive_nil. }
    destruct (sget (hash r) (fst st)) as [[c r']|] eqn:E.
    - assert (r' = r) by (apply hash_inj; symmetry; apply (K _ _ _ E)). subst r'.
      rewrite cell_eqb_refl. split; [intros _; apply (P _ _ _ E)|reflexivity].
    - split; [discriminate|lia].
  Qed.
End IndexMirror.
