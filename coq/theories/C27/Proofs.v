(* C27 — proofs. *)
From Coq Require Import NArith ZArith List Bool Lia.
From Dolt Require Import C29.Model C29.Proofs C27.Model C27.Spec.
Import ListNotations.
Local Open Scope N_scope.

Lemma sget_sdel k k' s : sget k (sdel k' s) = if k' =? k then None else sget k s.
Proof.
  unfold sdel. induction s as [|[k0 v0] s IH]; cbn [filter sget fst].
  - destruct (k' =? k); reflexivity.
  - destruct (N.eqb_spec k0 k') as [e|n]; cbn [negb].
    + subst k0. rewrite IH. destruct (k' =? k); reflexivity.
    + cbn [sget]. rewrite IH. destruct (N.eqb_spec k0 k) as [e2|n2]; [|reflexivity].
      subst k0. destruct (N.eqb_spec k' k); [congruence|reflexivity].
Qed.

Lemma sget_sput k k' v s : sget k (sput k' v s) = if k' =? k then Some v else sget k s.
Proof. unfold sput. cbn [sget]. rewrite sget_sdel. destruct (k' =? k); reflexivity. Qed.

Section Refinement.
  Variable hash : row -> N.
  Hypothesis hash_inj : forall a b, hash a = hash b -> a = b.   (* no xxh3-128 collision among the rows of a history *)

  Lemma hash_eqb a b : (hash a =? hash b) = row_eqb b a.
  Proof.
    apply eq_true_iff_eq. rewrite N.eqb_eq, row_eqb_eq. split; intro H; [symmetry; apply hash_inj; exact H|subst; reflexivity].
  Qed.

  Lemma card_ins r s x : card_of hash (ins hash r s) x = m_ins r (card_of hash s) x.
  Proof.
    unfold card_of, ins, m_ins. rewrite <- hash_eqb.
    destruct (sget (hash r) s) as [[c r']|] eqn:E; rewrite sget_sput;
      destruct (N.eqb_spec (hash r) (hash x)) as [e|n]; try reflexivity.
    - rewrite <- e, E. reflexivity.
    - rewrite <- e, E. reflexivity.
  Qed.

  Lemma card_del r s x : card_of hash (del hash r s) x = m_del r (card_of hash s) x.
  Proof.
    unfold card_of, del, m_del. rewrite <- hash_eqb.
    destruct (sget (hash r) s) as [[c r']|] eqn:E.
    - destruct (N.ltb_spec 0 (c - 1)) as [Hc|Hc].
      + rewrite sget_sput. destruct (N.eqb_spec (hash r) (hash x)) as [e|n]; [|reflexivity].
        rewrite <- e, E. lia.
      + rewrite sget_sdel. destruct (N.eqb_spec (hash r) (hash x)) as [e|n]; [|reflexivity].
        rewrite <- e, E. lia.
    - destruct (N.eqb_spec (hash r) (hash x)) as [e|n]; [|reflexivity].
      rewrite <- e, E. reflexivity.
  Qed.

  Lemma card_step s o x : card_of hash (step hash s o) x = m_step (card_of hash s) o x.
  Proof.
    destruct o as [r|r|a b]; cbn [step m_step].
    - apply card_ins.
    - apply card_del.
    - rewrite card_ins. unfold m_ins. rewrite card_del. reflexivity.
  Qed.

  Lemma m_step_ext m m' o : (forall x, m x = m' x) -> forall x, m_step m o x = m_step m' o x.
  Proof.
    intros H x. destruct o as [r|r|a b]; cbn [m_step]; unfold m_ins, m_del; rewrite ?H; reflexivity.
  Qed.

  Lemma m_run_ext ops : forall m m', (forall x, m x = m' x) -> forall x, m_run ops m x = m_run ops m' x.
  Proof.
    induction ops as [|o ops IH]; intros m m' H x; cbn [m_run fold_left]; [apply H|].
    apply IH. apply m_step_ext. exact H.
  Qed.

  (* keyless_refines_multiset: for every sequence of writer operations and every store, the
     multiplicity of every row in the stored form is what the multiset operations give. *)
  Theorem keyless_refines_multiset : forall ops s x,
    card_of hash (run hash ops s) x = m_run ops (card_of hash s) x.
  Proof.
    induction ops as [|o ops IH]; intros s x; cbn [run m_run fold_left]; [reflexivity|].
    fold (run hash ops (step hash s o)). rewrite IH.
    fold (m_run ops (card_of hash (step hash s o))). apply m_run_ext. intro y. apply card_step.
  Qed.

  (* stored cardinalities stay positive (an entry whose count reaches 0 is removed) *)
  Definition positive (s : store) : Prop := forall k c r, sget k s = Some (c, r) -> 0 < c.

  Lemma positive_step s o : positive s -> positive (step hash s o).
  Proof.
    assert (Hi : forall r s, positive s -> positive (ins hash r s)).
    { intros r s0 P k c r0. unfold ins. destruct (sget (hash r) s0) as [[c1 r1]|] eqn:E; rewrite sget_sput;
        destruct (hash r =? k); intro H; try (inversion H; lia); eapply P; exact H. }
    assert (Hd : forall r s, positive s -> positive (del hash r s)).
    { intros r s0 P k c r0. unfold del. destruct (sget (hash r) s0) as [[c1 r1]|] eqn:E; [|apply P].
      destruct (N.ltb_spec 0 (c1 - 1)).
      - rewrite sget_sput. destruct (hash r =? k); intro H'; [inversion H'; lia|eapply P; exact H'].
      - rewrite sget_sdel. destruct (hash r =? k); intro H'; [discriminate|eapply P; exact H']. }
    intro P. destruct o as [r|r|a b]; cbn [step]; auto.
  Qed.

  Theorem positive_run : forall ops s, positive s -> positive (run hash ops s).
  Proof.
    induction ops as [|o ops IH]; intros s P; cbn [run fold_left]; [exact P|].
    apply IH. apply positive_step. exact P.
  Qed.

  Lemma positive_nil : positive [].
  Proof. intros k c r H. discriminate. Qed.

  (* the stored row at hash id (hash r) is r itself *)
  Definition keyed (s : store) : Prop := forall k c r, sget k s = Some (c, r) -> k = hash r.

  (* ---- merge ---- *)
  Lemma sget_none_keys k s : sget k s = None <-> ~ In k (skeys s).
  Proof.
    induction s as [|[k' v] s IH]; cbn [sget skeys map fst]; [tauto|].
    destruct (N.eqb_spec k' k) as [e|n].
    - split; [discriminate|]. intro H. exfalso. apply H. left. exact e.
    - unfold skeys in IH. rewrite IH. split; intro H.
      + intros [E|I]; [congruence|tauto].
      + intro I. apply H. right. exact I.
  Qed.

  Lemma sget_flat_map (g : N -> option (N * row)) ks k :
    sget k (flat_map (fun k' => match g k' with Some v => [(k', v)] | None => [] end) ks)
    = if existsb (N.eqb k) ks then g k else None.
  Proof.
    induction ks as [|k' ks IH]; cbn [flat_map existsb]; [reflexivity|].
    rewrite (N.eqb_sym k k').
    destruct (g k') as [v|] eqn:G; cbn [app sget].
    - destruct (N.eqb_spec k' k) as [e|n]; cbn [orb]; [subst; rewrite G; reflexivity|exact IH].
    - rewrite IH. destruct (N.eqb_spec k' k) as [e|n]; cbn [orb]; [|reflexivity].
      subst. rewrite G. destruct (existsb _ ks); reflexivity.
  Qed.

  Theorem kmerge_get : forall b l r k,
    sget k (km_rows (kmerge b l r)) = fst (kmerge_key (sget k b) (sget k l) (sget k r)).
  Proof.
    intros. unfold kmerge. cbn [km_rows]. rewrite sget_flat_map.
    destruct (existsb (N.eqb k) _) eqn:E; [reflexivity|].
    assert (H : ~ In k (skeys b ++ skeys l ++ skeys r)).
    { intro H. apply (nodup_In N.eq_dec) in H. apply (proj2 (existsb_eqb_In k _)) in H. congruence. }
    rewrite !in_app_iff in H.
    assert (Hb : sget k b = None) by (apply sget_none_keys; tauto).
    assert (Hl : sget k l = None) by (apply sget_none_keys; tauto).
    assert (Hr : sget k r = None) by (apply sget_none_keys; tauto).
    rewrite Hb, Hl, Hr. reflexivity.
  Qed.

  Theorem kmerge_conflict_iff : forall b l r k,
    In k (map fst (km_conf (kmerge b l r))) <-> snd (kmerge_key (sget k b) (sget k l) (sget k r)) = true.
  Proof.
    intros. unfold kmerge. cbn [km_conf]. rewrite in_map_iff. split.
    - intros [[k' e] [Hk Hin]]. cbn [fst] in Hk. subst k'. apply in_flat_map in Hin as [k0 [_ Hin]].
      destruct (snd (kmerge_key (sget k0 b) (sget k0 l) (sget k0 r))) eqn:E; [|destruct Hin].
      destruct Hin as [Hin|[]]. inversion Hin; subst. exact E.
    - intro H. exists (k, (sget k b, sget k l, sget k r)). split; [reflexivity|].
      apply in_flat_map. exists k. split.
      + apply nodup_In. rewrite !in_app_iff.
        destruct (sget k b) eqn:Eb; [left; apply Decidable.not_not; [unfold Decidable.decidable; destruct (in_dec N.eq_dec k (skeys b)); tauto|]; intro N0; apply sget_none_keys in N0; congruence|].
        destruct (sget k l) eqn:El; [right; left; apply Decidable.not_not; [unfold Decidable.decidable; destruct (in_dec N.eq_dec k (skeys l)); tauto|]; intro N0; apply sget_none_keys in N0; congruence|].
        destruct (sget k r) eqn:Er; [right; right; apply Decidable.not_not; [unfold Decidable.decidable; destruct (in_dec N.eq_dec k (skeys r)); tauto|]; intro N0; apply sget_none_keys in N0; congruence|].
        cbn in H. discriminate.
      + rewrite H. left. reflexivity.
  Qed.

  Lemma oentry_eqb_card (a b : option (N * row)) :
    (forall c r, a = Some (c, r) -> 0 < c) -> (forall c r, b = Some (c, r) -> 0 < c) ->
    oentry_eqb a b = ((match b with Some (c, _) => c | None => 0 end) =? (match a with Some (c, _) => c | None => 0 end)).
  Proof.
    intros Pa Pb. destruct a as [[c r]|], b as [[c' r']|]; cbn [oentry_eqb].
    - apply N.eqb_sym.
    - specialize (Pa c r eq_refl). symmetry. apply N.eqb_neq. lia.
    - specialize (Pb c' r' eq_refl). symmetry. apply N.eqb_neq. lia.
    - reflexivity.
  Qed.

  (* keyless_merge_spec: for all positive stores and every row, the merged multiplicity and the
     conflict flag are those of merge_card on the three multiplicities. *)
  Theorem keyless_merge_spec : forall b l r x,
    positive b -> positive l -> positive r ->
    card_of hash (km_rows (kmerge b l r)) x
    = fst (merge_card (card_of hash b x) (card_of hash l x) (card_of hash r x))
    /\ (In (hash x) (map fst (km_conf (kmerge b l r)))
        <-> snd (merge_card (card_of hash b x) (card_of hash l x) (card_of hash r x)) = true).
  Proof.
    intros b l r x Pb Pl Pr. rewrite kmerge_conflict_iff. unfold card_of. rewrite kmerge_get.
    unfold kmerge_key, merge_card.
    rewrite (oentry_eqb_card (sget (hash x) b) (sget (hash x) l)) by (intros c r0 H; eauto).
    rewrite (oentry_eqb_card (sget (hash x) b) (sget (hash x) r)) by (intros c r0 H; eauto).
    destruct (sget (hash x) b) as [[cb rb]|], (sget (hash x) l) as [[cl rl]|], (sget (hash x) r) as [[cr rr]|];
      cbn [fst snd];
      repeat match goal with |- context [?a =? ?b] => destruct (N.eqb_spec a b) end;
      cbn [negb andb fst snd]; split; try reflexivity; try tauto.
  Qed.

  (* "applies each side's change in multiplicity": without conflict the result is ancestor + both deltas *)
  Theorem merge_card_deltas : forall bc lc rc,
    snd (merge_card bc lc rc) = false ->
    Z.of_N (fst (merge_card bc lc rc)) = (Z.of_N bc + (Z.of_N lc - Z.of_N bc) + (Z.of_N rc - Z.of_N bc))%Z.
  Proof.
    intros bc lc rc. unfold merge_card.
    destruct (N.eqb_spec lc bc), (N.eqb_spec rc bc); cbn [negb andb fst snd]; intro H; try discriminate; subst; lia.
  Qed.

  Theorem merge_card_conflict_iff : forall bc lc rc,
    snd (merge_card bc lc rc) = true <-> (lc <> bc /\ rc <> bc).
  Proof.
    intros. unfold merge_card. destruct (N.eqb_spec lc bc), (N.eqb_spec rc bc); cbn [negb andb snd]; split; intro H; try discriminate; try tauto.
  Qed.
End Refinement.
