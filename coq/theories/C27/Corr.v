(* C27 — correspondence: DML on a keyless table observed statement by statement
   (GROUP BY all columns + COUNT, COUNT of the whole table, lookup through a secondary index),
   and merges of two independently edited copies in both directions. *)
From Coq Require Import NArith List Bool.
From Dolt Require Import C29.Model C27.Model C27.Spec.
Import ListNotations.
Local Open Scope N_scope.

(* concrete stand-in for the hash id in the executable run (rows of small values; the proofs are
   over an arbitrary injective hash) *)
Definition enc (r : row) : N :=
  fold_left (fun acc c => acc * 4096 + match c with None => 1 | Some v => v + 2 end) r 1.

Inductive stmt :=
| SIns (r : row) (n : N)                               (* INSERT n copies of r *)
| SDel (ci : nat) (v : cell)                           (* DELETE WHERE c_ci <=> v *)
| SUpd (ci : nat) (v : cell) (cj : nat) (w : cell)     (* UPDATE SET c_cj = w WHERE c_ci <=> v *)
| SDelL (ci : nat) (v : cell) (n : N)                  (* DELETE WHERE c_ci <=> v LIMIT n: any n matching copies *)
| SUpdL (ci : nat) (v : cell) (cj : nat) (w : cell) (n : N).   (* UPDATE SET c_cj = w WHERE c_ci <=> v LIMIT n *)

Definition mstate := list (row * N).                    (* SELECT cols, COUNT( * ) GROUP BY cols *)

Record sobs := { so_state : mstate; so_count : N; so_ix : list N }.   (* so_ix: per probe value, COUNT( * ) WHERE c0 = v / IS NULL *)
Record mobs := { mo_class : N; mo_state : mstate; mo_conf : list (row * (N * N * N)) }.  (* row, base/our/their cardinality *)

Record input := {
  i_steps : list (stmt * list op);          (* statement, the writer calls it expands to *)
  i_probes : list cell;                     (* values looked up through the index on column 0 after every statement (NULL included) *)
  i_b : mstate; i_l : mstate; i_r : mstate }.
Record obs := { o_steps : list sobs; o_lr : mobs; o_rl : mobs }.
Definition case := (input * obs)%type.

Fixpoint mlookup (x : row) (m : mstate) : N :=
  match m with [] => 0 | (r, c) :: m' => if row_eqb r x then c else mlookup x m' end.
Definition msum (m : mstate) : N := fold_right (fun e acc => snd e + acc) 0 m.
Definition mprobe (p : cell) (m : mstate) : N :=
  msum (filter (fun e => cell_eqb (nth 0 (fst e) None) p) m).
Definition msame (a b : mstate) : bool :=
  forallb (fun x => mlookup x a =? mlookup x b) (map fst a ++ map fst b).

Definition state_of (s : store) : mstate := map (fun e => (snd (snd e), fst (snd e))) s.
Definition store_of (m : mstate) : store := map (fun e => (enc (fst e), (snd e, fst e))) m.

Fixpoint model_steps (probes : list cell) (st : tstate) (steps : list (stmt * list op)) : list sobs :=
  match steps with
  | [] => []
  | (_, ops) :: rest =>
      let st' := trun enc ops st in
      {| so_state := state_of (fst st'); so_count := N.of_nat (length (scan (fst st')));
         so_ix := map (fun p => ilookup_count p st') probes |}
      :: model_steps probes st' rest
  end.

Definition model_merge (b l r : mstate) : mobs :=
  let M := kmerge (store_of b) (store_of l) (store_of r) in
  let card := fun (o : option (N * row)) => match o with Some (c, _) => c | None => 0 end in
  let rowof := fun (e : option (N * row) * option (N * row) * option (N * row)) =>
    match e with
    | (Some (_, x), _, _) => x | (None, Some (_, x), _) => x | (None, None, Some (_, x)) => x | _ => [] end in
  {| mo_class := match km_conf M with [] => 0 | _ => 1 end;
     mo_state := state_of (km_rows M);
     mo_conf := map (fun ce => (rowof (snd ce), (card (fst (fst (snd ce))), card (snd (fst (snd ce))), card (snd (snd ce))))) (km_conf M) |}.

Definition model_obs (i : input) : obs :=
  {| o_steps := model_steps (i_probes i) ([], []) (i_steps i);
     o_lr := model_merge (i_b i) (i_l i) (i_r i);
     o_rl := model_merge (i_b i) (i_r i) (i_l i) |}.

Fixpoint clookup (x : row) (cs : list (row * (N * N * N))) : option (N * N * N) :=
  match cs with [] => None | (r, e) :: cs' => if row_eqb r x then Some e else clookup x cs' end.

Definition conf_same (a b : list (row * (N * N * N))) : bool :=
  forallb (fun x => match clookup x a, clookup x b with
                    | Some (p, q, r), Some (p', q', r') => (p =? p') && (q =? q') && (r =? r')
                    | _, _ => false end) (map fst a ++ map fst b).

Fixpoint listN_eqb (a b : list N) : bool :=
  match a, b with [], [] => true | x :: a', y :: b' => (x =? y) && listN_eqb a' b' | _, _ => false end.

Fixpoint steps_eqb (a b : list sobs) : bool :=
  match a, b with
  | [], [] => true
  | x :: a', y :: b' => msame (so_state x) (so_state y) && (so_count x =? so_count y) && listN_eqb (so_ix x) (so_ix y) && steps_eqb a' b'
  | _, _ => false
  end.

Definition mobs_eqb (a b : mobs) : bool :=
  (mo_class a =? mo_class b) && ((mo_class a =? 2) || (msame (mo_state a) (mo_state b) && conf_same (mo_conf a) (mo_conf b))).

Definition obs_eqb (a b : obs) : bool :=
  steps_eqb (o_steps a) (o_steps b) && mobs_eqb (o_lr a) (o_lr b) && mobs_eqb (o_rl a) (o_rl b).

(* ---- the property on dolt's observations ---- *)
Definition matches (ci : nat) (v : cell) (x : row) : bool := cell_eqb (nth ci x None) v.
Fixpoint set_nth (j : nat) (w : cell) (x : row) : row :=
  match j, x with
  | O, _ :: t => w :: t
  | S j', h :: t => h :: set_nth j' w t
  | _, [] => []
  end.

(* multiplicity of x after the statement, from the multiset before it *)
Definition expected (prev : mstate) (st : stmt) (x : row) : N :=
  match st with
  | SIns r n => if row_eqb x r then mlookup x prev + n else mlookup x prev
  | SDel ci v => if matches ci v x then 0 else mlookup x prev
  | SUpd ci v cj w =>
      (if matches ci v x then 0 else mlookup x prev)
      + msum (filter (fun e => matches ci v (fst e) && row_eqb (set_nth cj w (fst e)) x) prev)
  | SDelL _ _ _ => mlookup x prev      (* not a function of the statement: see limit_ok *)
  | SUpdL _ _ _ _ _ => mlookup x prev  (* see limit_upd_ok *)
  end.

(* DELETE ... LIMIT n: which copies go is the engine's choice; as a multiset statement: no multiplicity
   grows, only matching rows lose copies, and exactly min(n, number of matching copies) copies go *)
Definition limit_ok (prev new : mstate) (ci : nat) (v : cell) (n : N) : bool :=
  forallb (fun x => (mlookup x new <=? mlookup x prev)
                    && (matches ci v x || (mlookup x new =? mlookup x prev))) (map fst prev ++ map fst new)
  && (msum new <=? msum prev)
  && (msum prev - msum new =? N.min n (msum (filter (fun e => matches ci v (fst e)) prev))).

Definition touched (prev : mstate) (st : stmt) : list row :=
  match st with
  | SIns r _ => [r]
  | SDel _ _ => []
  | SDelL _ _ _ => []
  | SUpdL _ _ _ _ _ => []
  | SUpd _ _ cj w => map (fun e => set_nth cj w (fst e)) prev
  end.

(* UPDATE ... LIMIT n.  A source row (matches, and the assignment changes it) can only lose copies;
   what the sources lose arrives at their images; every other multiplicity is the old one plus the
   arrivals; the LIMIT picks exactly min(n, matching) matching copies, of which the unchanged ones
   (already holding the assigned value) do not move. *)
Definition limit_upd_ok (prev new : mstate) (ci : nat) (v : cell) (cj : nat) (w : cell) (n : N) : bool :=
  let source := fun x => matches ci v x && negb (row_eqb (set_nth cj w x) x) in
  let out := fun x => mlookup x prev - mlookup x new in
  let moved := msum (map (fun e => (fst e, out (fst e))) (filter (fun e => source (fst e)) prev)) in
  let matching := msum (filter (fun e => matches ci v (fst e)) prev) in
  let unchanged := msum (filter (fun e => matches ci v (fst e) && row_eqb (set_nth cj w (fst e)) (fst e)) prev) in
  forallb (fun x =>
     if source x then mlookup x new <=? mlookup x prev
     else mlookup x new =? mlookup x prev
            + msum (map (fun e => (fst e, out (fst e)))
                        (filter (fun e => source (fst e) && row_eqb (set_nth cj w (fst e)) x) prev)))
    (map fst prev ++ map fst new ++ map (fun e => set_nth cj w (fst e)) prev)
  && (moved <=? N.min n matching) && (N.min n matching - unchanged <=? moved).

Definition trans_ok (prev : mstate) (st : stmt) (new : mstate) : bool :=
  match st with
  | SDelL ci v n => limit_ok prev new ci v n
  | SUpdL ci v cj w n => limit_upd_ok prev new ci v cj w n
  | _ => forallb (fun x => mlookup x new =? expected prev st x) (map fst prev ++ map fst new ++ touched prev st)
  end.

Fixpoint nodup_rows (m : mstate) : bool :=
  match m with [] => true | (r, _) :: m' => negb (existsb (fun e => row_eqb (fst e) r) m') && nodup_rows m' end.

Fixpoint steps_ok (probes : list cell) (prev : mstate) (steps : list (stmt * list op)) (os : list sobs) : bool :=
  match steps, os with
  | [], [] => true
  | (st, _) :: steps', o :: os' =>
      let new := so_state o in
      nodup_rows new
      && forallb (fun e => 0 <? snd e) new
      && trans_ok prev st new
      && (so_count o =? msum new)                      (* COUNT( * ) and the scan reflect the multiplicities *)
      && listN_eqb (so_ix o) (map (fun p => mprobe p new) probes)   (* so does every lookup through the secondary index,
                                                                       for every value incl. NULL: same rows, same multiplicities as the scan *)
      && steps_ok probes new steps' os'
  | _, _ => false
  end.

Definition merge_ok (b l r : mstate) (o : mobs) : bool :=
  negb (mo_class o =? 2)
  && (mo_class o =? match mo_conf o with [] => 0 | _ => 1 end)
  && forallb (fun x =>
       let '(c, cf) := merge_card (mlookup x b) (mlookup x l) (mlookup x r) in
       (mlookup x (mo_state o) =? c)
       && match clookup x (mo_conf o) with
          | None => negb cf
          | Some (cb, co, ct) => cf && (cb =? mlookup x b) && (co =? mlookup x l) && (ct =? mlookup x r)
          end)
     (map fst b ++ map fst l ++ map fst r ++ map fst (mo_state o) ++ map fst (mo_conf o)).

Definition oracle (i : input) (o : obs) : bool :=
  steps_ok (i_probes i) [] (i_steps i) (o_steps o)
  && merge_ok (i_b i) (i_l i) (i_r i) (o_lr o)
  && merge_ok (i_b i) (i_r i) (i_l i) (o_rl o).

Definition check_case (c : case) : N :=
  (if obs_eqb (model_obs (fst c)) (snd c) then 0 else 1)
  + (if oracle (fst c) (snd c) then 0 else 2).
