(* C27 — keyless tables: executable model of the stored form and of its merge.
   Mirrors go/store/val/keyless_tuple.go (HashTupleFromValue, ModifyKeylessCardinality),
   go/libraries/doltcore/sqle/writer/prolly_index_writer_keyless.go (prollyKeylessWriter
   Insert / Delete / Update), go/libraries/doltcore/sqle/index/keyless_iter.go (a stored entry
   is emitted cardinality times) and, for merges, three_way_differ.go + merge_prolly_rows.go
   (valueMerger.TryMerge returns "unresolved" for keyless tables; convergent edits of a keyless
   table are recorded as conflicts; MaybeShortCircuit does not short-circuit identical changes).
   No proofs in this file. *)
From Coq Require Import NArith List Bool.
From Dolt Require Import C29.Model.
Import ListNotations.
Local Open Scope N_scope.

Definition entry := (N * (N * row))%type.      (* hash id ↦ (cardinality, row) *)
Definition store := list entry.

Fixpoint sget (k : N) (s : store) : option (N * row) :=
  match s with [] => None | (k', v) :: s' => if k' =? k then Some v else sget k s' end.
Definition sdel (k : N) (s : store) : store := filter (fun e => negb (fst e =? k)) s.
Definition sput (k : N) (v : N * row) (s : store) : store := (k, v) :: sdel k s.

Inductive op := Ins (r : row) | Del (r : row) | Upd (o n : row).

Section Keyless.
  Variable hash : row -> N.                     (* xxh3.Hash128 of the row's fields (cardinality excluded) *)

  (* Insert: read the existing value (or a fresh one with cardinality 0), add 1, put *)
  Definition ins (r : row) (s : store) : store :=
    match sget (hash r) s with
    | Some (c, r') => sput (hash r) (c + 1, r') s
    | None => sput (hash r) (1, r) s
    end.

  (* Delete: absent ⇒ nothing; cardinality − 1, put when still > 0, else delete the entry *)
  Definition del (r : row) (s : store) : store :=
    match sget (hash r) s with
    | None => s
    | Some (c, r') => if 0 <? c - 1 then sput (hash r) (c - 1, r') s else sdel (hash r) s
    end.

  Definition step (s : store) (o : op) : store :=
    match o with Ins r => ins r s | Del r => del r s | Upd a b => ins b (del a s) end.

  Definition run (ops : list op) (s : store) : store := fold_left step ops s.

  Definition card_of (s : store) (r : row) : N :=
    match sget (hash r) s with Some (c, _) => c | None => 0 end.
End Keyless.

(* ---- secondary index of a keyless table (prollyKeylessSecondaryWriter; prollyTableWriter orders the
   calls: secondary writers first, then the primary).  An index entry is (indexed value, hash id).
   Insert puts the entry.  Delete reads the row's cardinality from the primary BEFORE the primary is
   touched and removes the entry only when that cardinality is <= 1 ("if card > 1 { return nil }").
   Update = Delete old; Insert new on the index, then Delete old; Insert new on the primary. ---- *)
Definition ientry := (cell * N)%type.
Definition ival (r : row) : cell := nth 0 r None.            (* the index is on the first column *)
Definition ientry_eqb (a b : ientry) : bool := cell_eqb (fst a) (fst b) && (snd a =? snd b).
Definition imem (v : cell) (h : N) (ix : list ientry) : bool := existsb (ientry_eqb (v, h)) ix.
Definition iput (e : ientry) (ix : list ientry) : list ientry := if imem (fst e) (snd e) ix then ix else e :: ix.
Definition idel (e : ientry) (ix : list ientry) : list ientry := filter (fun x => negb (ientry_eqb e x)) ix.

Definition tstate := (store * list ientry)%type.

Section KeylessIndex.
  Variable hash : row -> N.

  Definition sec_del (r : row) (s : store) (ix : list ientry) : list ientry :=
    match sget (hash r) s with
    | Some (c, _) => if 1 <? c then ix else idel (ival r, hash r) ix
    | None => idel (ival r, hash r) ix
    end.

  Definition tstep (st : tstate) (o : op) : tstate :=
    let '(s, ix) := st in
    match o with
    | Ins r => (ins hash r s, iput (ival r, hash r) ix)
    | Del r => (del hash r s, sec_del r s ix)
    | Upd a b => (ins hash b (del hash a s), iput (ival b, hash b) (sec_del a s ix))
    end.

  Definition trun (ops : list op) (st : tstate) : tstate := fold_left tstep ops st.
End KeylessIndex.

(* a lookup of value v through the index: every entry with that value leads to its row in the primary,
   which is emitted cardinality times *)
Definition ilookup_count (v : cell) (st : tstate) : N :=
  fold_right (fun e acc => (if cell_eqb (fst e) v
                            then match sget (snd e) (fst st) with Some (c, _) => c | None => 0 end else 0) + acc)
             0 (snd st).

(* keyless_iter: every entry is emitted cardinality times *)
Definition scan (s : store) : list row :=
  flat_map (fun e => repeat (snd (snd e)) (N.to_nat (fst (snd e)))) s.

(* ---- merge (per hash id) ---- *)
Definition oentry_eqb (a b : option (N * row)) : bool :=   (* byte equality of the stored values at one hash id *)
  match a, b with
  | None, None => true
  | Some (c, _), Some (c', _) => c =? c'
  | _, _ => false
  end.

(* both sides have a diff ⇒ conflict, whatever the two changes are (delete/delete, equal changes,
   different changes); the table keeps ours.  One side ⇒ that side's entry. *)
Definition kmerge_key (ob ol or : option (N * row)) : option (N * row) * bool :=
  let ld := negb (oentry_eqb ob ol) in
  let rd := negb (oentry_eqb ob or) in
  if ld && rd then (ol, true) else if rd then (or, false) else (ol, false).

Definition kconflict := (N * (option (N * row) * option (N * row) * option (N * row)))%type.

Record kmerged := { km_rows : store; km_conf : list kconflict }.

Definition skeys (s : store) : list N := map fst s.

Definition kmerge (b l r : store) : kmerged :=
  let ks := nodup N.eq_dec (skeys b ++ skeys l ++ skeys r) in
  let f := fun k => kmerge_key (sget k b) (sget k l) (sget k r) in
  {| km_rows := flat_map (fun k => match fst (f k) with Some v => [(k, v)] | None => [] end) ks;
     km_conf := flat_map (fun k => if snd (f k) then [(k, (sget k b, sget k l, sget k r))] else []) ks |}.
