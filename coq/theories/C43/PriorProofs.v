(* C43 — the oracle accepts the model also when the table already carries conflict artifacts of an
   earlier merge (prior), under what the generator guarantees about them. *)
From Coq Require Import NArith List Bool.
From Dolt Require Import C29.Model C29.Spec C29.Corr C29.Proofs C43.Model C43.Spec C43.Corr C43.Proofs.
Import ListNotations.
Local Open Scope N_scope.

Fixpoint nodupb (l : list N) : bool :=
  match l with [] => true | x :: t => negb (existsb (N.eqb x) t) && nodupb t end.

(* what the generator guarantees about the artifacts of the earlier merge: distinct keys; the present
   merge's right side left those keys as the ancestor has them; the artifact's "ours" is our row *)
Definition prior_ok (prior : list conflict_entry) (i : input) : bool :=
  nodupb (map fst prior)
  && forallb (fun e => orow_eqb (get (fst e) (i_r i)) (get (fst e) (i_b i))
                       && orow_agree (i_s i) (snd (fst (snd e))) (i_s i) (get (fst e) (i_l i))) prior.

Lemma nodupb_NoDup l : nodupb l = true -> NoDup l.
Proof.
  induction l as [|x t IH]; cbn [nodupb]; intro H; [constructor|].
  apply andb_true_iff in H as [H1 H2]. constructor; [|apply IH; exact H2].
  intro Hin. apply negb_true_iff in H1. apply (proj2 (existsb_eqb_In x t)) in Hin. congruence.
Qed.

Lemma orow_eqb_eq a b : orow_eqb a b = true -> a = b.
Proof.
  destruct a, b; cbn [orow_eqb]; intro H; try discriminate; [|reflexivity].
  apply row_eqb_eq in H. congruence.
Qed.

Lemma getc_In k cs e : getc k cs = Some e -> In (k, e) cs.
Proof.
  induction cs as [|[k' e'] cs IH]; cbn [getc]; [discriminate|].
  destruct (N.eqb_spec k' k); intro H; [inversion H; subst; left; reflexivity|right; apply IH; exact H].
Qed.

Lemma getc_in_keys k cs : In k (map fst cs) -> getc k cs <> None.
Proof.
  induction cs as [|[k' e'] cs IH]; cbn [getc map fst]; [tauto|].
  destruct (N.eqb_spec k' k); intros [H|H]; try discriminate; try congruence. apply IH. exact H.
Qed.

Lemma getc_app k a b : getc k (a ++ b) = match getc k a with Some e => Some e | None => getc k b end.
Proof.
  induction a as [|[k' e'] a IH]; cbn [app getc]; [reflexivity|]. destruct (k' =? k); [reflexivity|exact IH].
Qed.

Lemma NoDup_app2 {A} (a b : list A) : NoDup a -> NoDup b -> (forall x, In x a -> ~ In x b) -> NoDup (a ++ b).
Proof.
  intros Na Nb D. induction a as [|x a IH]; [exact Nb|]. cbn [app]. inversion Na; subst.
  constructor.
  - intro H. apply in_app_or in H as [H|H]; [contradiction|]. apply (D x); [left; reflexivity|exact H].
  - apply IH; [assumption|]. intros y Hy. apply D. right. exact Hy.
Qed.

Lemma col_remap_self s x c : mem c s = true -> col s (remap s s x) c = col s x c.
Proof.
  intro M. unfold remap. rewrite col_map, M. destruct (col_some_ex s x c M) as [v Hv]. rewrite Hv. reflexivity.
Qed.

Lemma agree_remap s a b : orow_agree s a s b = true -> orow_agree s a s (option_map (remap s s) b) = true.
Proof.
  destruct a as [ra|], b as [rb|]; cbn [option_map orow_agree]; try (intro H; exact H).
  rewrite !forallb_forall. intros H c Hc. rewrite col_remap_self; [apply H; exact Hc|].
  apply mem_In. apply in_app_or in Hc. tauto.
Qed.

Section Prior.
  Variable prior : list conflict_entry.
  Variable i : input.
  Hypothesis P : prior_ok prior i = true.

  Let s := i_s i.
  Let M := table_merge true s s s (i_b i) (i_l i) (i_r i).

  Lemma prior_key k b0 o0 t0 :
    getc k prior = Some (b0, o0, t0) ->
    get k (i_r i) = get k (i_b i) /\ orow_agree s o0 s (get k (i_l i)) = true.
  Proof.
    intro G. apply getc_In in G. unfold prior_ok in P. apply andb_true_iff in P as [_ F].
    rewrite forallb_forall in F. specialize (F _ G). cbn [fst snd] in F.
    apply andb_true_iff in F as [F1 F2]. split; [apply orow_eqb_eq; exact F1|exact F2].
  Qed.

  (* a key the right side left as the ancestor has it: our row, no conflict *)
  Lemma untouched_key k :
    get k (i_r i) = get k (i_b i) ->
    merge_key true s s s (i_b i) (i_l i) (i_r i) k = ROk (option_map (remap s s) (get k (i_l i))) false.
  Proof.
    intro H. unfold merge_key. rewrite H. rewrite merge_one_sided_left, merged_schema_same. reflexivity.
  Qed.

  Lemma conf_entry_facts k b1 o1 t1 :
    getc k (m_conf M) = Some (b1, o1, t1) ->
    o1 = get k (m_rows M) /\ t1 = get k (i_r i)
    /\ get k (m_rows M) = option_map (remap s s) (get k (i_l i)).
  Proof.
    intro G. unfold M in *. rewrite table_merge_get. rewrite conflicts_exact in G. unfold merge_key in *.
    destruct (same_schema_scope s (get k (i_b i)) (get k (i_l i)) (get k (i_r i))) as [Hs [Cv Dv]].
    rewrite (row_merge_refines_spec _ _ _ _ _ _ Hs Cv Dv) in *.
    pose proof (spec_conflict_ours s s s (get k (i_b i)) (get k (i_l i)) (get k (i_r i))) as O.
    destruct (snd (spec_row s s s (get k (i_b i)) (get k (i_l i)) (get k (i_r i)))); [|discriminate].
    rewrite (O eq_refl), merged_schema_same in *. inversion G; subst. auto.
  Qed.

  Lemma prior_not_in_conf k e : getc k prior = Some e -> getc k (m_conf M) = None.
  Proof.
    intro G. destruct e as [[b0 o0] t0]. destruct (prior_key k b0 o0 t0 G) as [Hr _].
    unfold M. rewrite conflicts_exact, (untouched_key k Hr). reflexivity.
  Qed.

  Lemma conf_keys_distinct : NoDup (map fst (m_conf M ++ prior)).
  Proof.
    rewrite map_app. apply NoDup_app2.
    - apply conflict_keys_distinct.
    - apply nodupb_NoDup. unfold prior_ok in P. apply andb_true_iff in P as [N0 _]. exact N0.
    - intros k H1 H2. apply getc_in_keys in H1. apply getc_in_keys in H2.
      destruct (getc k prior) as [e|] eqn:G; [|congruence]. apply H1. apply (prior_not_in_conf k e G).
  Qed.

  Theorem oracle_on_model_p_sec : oracle_p prior i (model_obs_p prior i) = true.
  Proof.
    unfold oracle_p, model_obs_p. cbv zeta.
    cbn [o_err o_rows o_conf o_ours o_theirs o_ours_left o_theirs_left o_ours_ix o_theirs_ix].
    fold s. fold M.
    assert (EM : m_err M = false) by apply merge_total.
    rewrite EM. cbn [negb andb resolve_state fst snd length N.of_nat N.eqb].
    rewrite !andb_true_iff. split; [split; [split; [split|]|]|]; try reflexivity.
    - apply forallb_forall. intros k _.
      set (conf := m_conf M ++ prior).
      assert (Ro : resolve true (m_rows M) conf = m_rows M) by reflexivity.
      pose proof (resolve_theirs_spec (m_rows M) conf k) as Tg.
      assert (Ga : getc k conf = match getc k (m_conf M) with Some e => Some e | None => getc k prior end)
        by (unfold conf; apply getc_app).
      rewrite Ro. unfold spec_resolved.
      destruct (getc k prior) as [[[b0 o0] t0]|] eqn:GP.
      + destruct (prior_key k b0 o0 t0 GP) as [Hr Ho].
        pose proof (prior_not_in_conf k _ GP) as GM.
        assert (Rows : get k (m_rows M) = option_map (remap s s) (get k (i_l i))).
        { unfold M. rewrite table_merge_get, (untouched_key k Hr). reflexivity. }
        rewrite GM in Ga. rewrite Ga in *. rewrite Tg.
        rewrite !orow_eqb_refl, !orow_agree_refl. cbn [andb].
        rewrite Rows. rewrite (agree_remap s o0 (get k (i_l i)) Ho), remap_self_agree. reflexivity.
      + assert (Gc : getc k conf = getc k (m_conf M)) by (rewrite Ga; destruct (getc k (m_conf M)); reflexivity).
        rewrite Gc in *. rewrite Tg.
        rewrite <- (conflicts_exact_same_schema s (i_b i) (i_l i) (i_r i) k). fold M.
        destruct (getc k (m_conf M)) as [[[b1 o1] t1]|] eqn:G.
        * destruct (conf_entry_facts k b1 o1 t1 G) as [E1 [E2 E3]]. subst o1 t1.
          rewrite !orow_eqb_refl, !orow_agree_refl. cbn [andb].
          rewrite E3, remap_self_agree. rewrite ?E2, ?orow_agree_refl. reflexivity.
        * rewrite !orow_agree_refl. reflexivity.
    - apply forallb_forall. intros e He. apply in_map_iff in He as [v [E _]]. subst e.
      apply lookup_ok_mirror. apply mirror_build.
    - apply forallb_forall. intros e He. apply in_map_iff in He as [v [E _]]. subst e.
      apply lookup_ok_mirror. apply resolve_preserves_mirror; [apply conf_keys_distinct|apply mirror_build].
  Qed.
End Prior.

(* oracle_on_model_p: for every list of earlier artifacts and every input satisfying prior_ok, the
   executable statement of the property accepts the model's observation *)
Theorem oracle_on_model_p : forall prior i, prior_ok prior i = true -> oracle_p prior i (model_obs_p prior i) = true.
Proof. exact oracle_on_model_p_sec. Qed.

(* non-vacuity: an earlier merge left a conflict on key 1 (theirs had deleted it); the present merge
   conflicts on key 3 *)
Example prior_ok_nonempty :
  let i := {| i_s := [0;1]; i_probes := [Some 1];
              i_b := [(1, [Some 1; Some 1]); (3, [Some 3; Some 3])];
              i_l := [(1, [Some 10; Some 1]); (3, [Some 20; Some 3])];
              i_r := [(1, [Some 1; Some 1]); (3, [Some 22; Some 3])] |} in
  let prior := [(1, (Some [Some 1; Some 1], Some [Some 10; Some 1], None))] in
  prior_ok prior i = true /\ check_case_p (prior, (i, model_obs_p prior i)) = 0
  /\ get 1 (o_theirs (model_obs_p prior i)) = None.
Proof. repeat split; vm_compute; reflexivity. Qed.
