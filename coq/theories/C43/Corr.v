(* C43 — correspondence: conflict table after a conflicted merge, and the table after
   dolt_conflicts_resolve --ours / --theirs (each on its own copy of the merge). *)
From Coq Require Import NArith List Bool.
From Dolt Require Import C29.Model C29.Spec C29.Corr C43.Model C43.Spec.
Import ListNotations.
Local Open Scope N_scope.

Record input := { i_s : schema; i_b : table; i_l : table; i_r : table;   (* no schema change: one column list *)
                  i_probes : list cell }.   (* values looked up through the secondary index on non-key column 0 (empty: no index) *)

Record obs := {
  o_err : bool;                      (* the merge or a resolve call returned an error *)
  o_rows : table;                    (* table after the merge *)
  o_conf : list conflict_entry;      (* dolt_conflicts_t after the merge *)
  o_ours : table; o_ours_left : N;   (* table / number of rows of dolt_conflicts_t after resolve --ours *)
  o_theirs : table; o_theirs_left : N;
  o_ours_ix : list (cell * list N);  (* after resolve --ours: for each probe value, the keys SELECT ... WHERE c0 = v returns *)
  o_theirs_ix : list (cell * list N) }.

Definition case := (input * obs)%type.

Definition model_obs (i : input) : obs :=
  let M := table_merge true (i_s i) (i_s i) (i_s i) (i_b i) (i_l i) (i_r i) in
  let ro := resolve_state true (m_rows M) (m_conf M) in
  let rt := resolve_state false (m_rows M) (m_conf M) in
  {| o_err := m_err M; o_rows := m_rows M; o_conf := m_conf M;
     o_ours := fst ro; o_ours_left := N.of_nat (length (snd ro));
     o_theirs := fst rt; o_theirs_left := N.of_nat (length (snd rt));
     o_ours_ix := map (fun v => (v, lookup_idx v (build_idx 0 (m_rows M)))) (i_probes i);
     o_theirs_ix := map (fun v => (v, lookup_idx v (resolve_idx 0 (m_rows M) (m_conf M) (build_idx 0 (m_rows M))))) (i_probes i) |}.

Definition memN (k : N) (ks : list N) : bool := existsb (N.eqb k) ks.
Definition keyset_eqb (a b : list N) : bool := forallb (fun k => memN k b) a && forallb (fun k => memN k a) b.
Fixpoint ix_eqb (a b : list (cell * list N)) : bool :=
  match a, b with
  | [], [] => true
  | (v, ks) :: a', (w, js) :: b' => cell_eqb v w && keyset_eqb ks js && ix_eqb a' b'
  | _, _ => false
  end.

(* what a lookup of value v must return: exactly the keys of the rows holding v in the indexed column *)
Definition lookup_ok (t : table) (e : cell * list N) : bool :=
  let holds := fun k => match get k t with Some r => cell_eqb (ival 0 r) (fst e) | None => false end in
  forallb holds (snd e) && forallb (fun k => implb (holds k) (memN k (snd e))) (keys t).

Definition obs_eqb_s (s : schema) (m o : obs) : bool :=
  Bool.eqb (o_err m) (o_err o)
  && (o_err m
      || (tables_agree s (o_rows m) s (o_rows o)
          && conf_agree s (o_conf m) s (o_conf o)
          && tables_agree s (o_ours m) s (o_ours o) && (o_ours_left m =? o_ours_left o)
          && tables_agree s (o_theirs m) s (o_theirs o) && (o_theirs_left m =? o_theirs_left o)
          && ix_eqb (o_ours_ix m) (o_ours_ix o) && ix_eqb (o_theirs_ix m) (o_theirs_ix o))).

(* The property on what dolt returned:
   (1) dolt_conflicts_t lists exactly the keys the declarative merge declares conflicting, with that
       base / ours / theirs;
   (2) after resolve --ours (--theirs) every listed key holds exactly our (their) version — absent
       when that version is absent —, every other key holds what the merged table held, and the
       conflict table is empty. *)
Definition oracle (i : input) (o : obs) : bool :=
  let s := i_s i in
  negb (o_err o)
  && forallb (fun k =>
       match spec_conflict_entry s s s (i_b i) (i_l i) (i_r i) k, getc k (o_conf o) with
       | None, None => true
       | Some (b1, o1, t1), Some (b2, o2, t2) => orow_eqb b1 b2 && orow_agree s o1 s o2 && orow_eqb t1 t2
       | _, _ => false
       end
       && orow_agree s (spec_resolved true (o_rows o) (o_conf o) k) s (get k (o_ours o))
       && orow_agree s (spec_resolved false (o_rows o) (o_conf o) k) s (get k (o_theirs o))
       (* "exactly that version": the version of the branch itself *)
       && match getc k (o_conf o) with
          | Some _ => orow_agree s (get k (i_l i)) s (get k (o_ours o)) && orow_agree s (get k (i_r i)) s (get k (o_theirs o))
          | None => true
          end)
     (all_keys (i_b i) (i_l i) (i_r i) ++ keys (o_rows o) ++ map fst (o_conf o) ++ keys (o_ours o) ++ keys (o_theirs o))
  && (o_ours_left o =? 0) && (o_theirs_left o =? 0)
  (* (3) the secondary index still mirrors the table after either resolution *)
  && forallb (lookup_ok (o_ours o)) (o_ours_ix o) && forallb (lookup_ok (o_theirs o)) (o_theirs_ix o).

Definition check_case (c : case) : N :=
  (if obs_eqb_s (i_s (fst c)) (model_obs (fst c)) (snd c) then 0 else 1)
  + (if oracle (fst c) (snd c) then 0 else 2).

(* ---- conflicts accumulated from two successive merges ----
   The table may already carry conflict artifacts of an earlier merge (committed with
   dolt_allow_commit_conflicts) whose "theirs" rows live in a different root.  [prior] are those
   artifacts (key, base, ours, theirs) — on keys the present merge does not touch.  The conflict
   table lists both generations; resolve --theirs must take every row from ITS OWN merge's theirs
   (resolveProllyConflicts reloads the their-map when TheirRootIsh changes). *)
Definition model_obs_p (prior : list conflict_entry) (i : input) : obs :=
  let M := table_merge true (i_s i) (i_s i) (i_s i) (i_b i) (i_l i) (i_r i) in
  let conf := m_conf M ++ prior in
  let ro := resolve_state true (m_rows M) conf in
  let rt := resolve_state false (m_rows M) conf in
  {| o_err := m_err M; o_rows := m_rows M; o_conf := conf;
     o_ours := fst ro; o_ours_left := N.of_nat (length (snd ro));
     o_theirs := fst rt; o_theirs_left := N.of_nat (length (snd rt));
     o_ours_ix := map (fun v => (v, lookup_idx v (build_idx 0 (m_rows M)))) (i_probes i);
     o_theirs_ix := map (fun v => (v, lookup_idx v (resolve_idx 0 (m_rows M) conf (build_idx 0 (m_rows M))))) (i_probes i) |}.

Definition oracle_p (prior : list conflict_entry) (i : input) (o : obs) : bool :=
  let s := i_s i in
  negb (o_err o)
  && forallb (fun k =>
       let expected := match getc k prior with
                       | Some e => Some e
                       | None => spec_conflict_entry s s s (i_b i) (i_l i) (i_r i) k
                       end in
       let their_version := match getc k prior with Some (_, _, th) => th | None => get k (i_r i) end in
       match expected, getc k (o_conf o) with
       | None, None => true
       | Some (b1, o1, t1), Some (b2, o2, t2) => orow_eqb b1 b2 && orow_agree s o1 s o2 && orow_eqb t1 t2
       | _, _ => false
       end
       && orow_agree s (spec_resolved true (o_rows o) (o_conf o) k) s (get k (o_ours o))
       && orow_agree s (spec_resolved false (o_rows o) (o_conf o) k) s (get k (o_theirs o))
       && match getc k (o_conf o) with
          | Some _ => orow_agree s (get k (i_l i)) s (get k (o_ours o)) && orow_agree s their_version s (get k (o_theirs o))
          | None => true
          end)
     (all_keys (i_b i) (i_l i) (i_r i) ++ keys (o_rows o) ++ map fst (o_conf o) ++ keys (o_ours o) ++ keys (o_theirs o) ++ map fst prior)
  && (o_ours_left o =? 0) && (o_theirs_left o =? 0)
  && forallb (lookup_ok (o_ours o)) (o_ours_ix o) && forallb (lookup_ok (o_theirs o)) (o_theirs_ix o).

Definition pcase := (list conflict_entry * case)%type.

Definition check_case_p (pc : pcase) : N :=
  let '(prior, c) := pc in
  (if obs_eqb_s (i_s (fst c)) (model_obs_p prior (fst c)) (snd c) then 0 else 1)
  + (if oracle_p prior (fst c) (snd c) then 0 else 2).

(* one dolt_conflicts_resolve call may name several tables: a case is the list of the per-table cases
   of one script; the verdict bits are or-ed *)
Definition check_multi (cs : list pcase) : N := fold_right (fun c acc => N.lor (check_case_p c) acc) 0 cs.
