(* C43 — conflict table and conflict resolution.  The conflict artifact and the merged table are
   those of the C29 model (table_merge); this file adds dolt_conflicts_resolve.
   Mirrors go/libraries/doltcore/sqle/dprocedures/dolt_conflicts_resolve.go
   (ResolveDataConflictsForTable, resolveProllyConflicts, clearTableAndUpdateRoot) and
   go/libraries/doltcore/sqle/dtables/conflicts_tables_prolly.go (row iterator: base from the
   ancestor root, ours from the table itself, theirs from their root).  No proofs here. *)
From Coq Require Import NArith List Bool.
From Dolt Require Import C29.Model.
Import ListNotations.
Local Open Scope N_scope.

Definition put (k : N) (r : row) (t : table) : table := (k, r) :: t.
Definition del (k : N) (t : table) : table := filter (fun e => negb (fst e =? k)) t.

(* resolveProllyConflicts, one artifact: `if len(theirRow) == 0 { Delete } else { Put(theirRow) }` *)
Definition apply_theirs (e : conflict_entry) (t : table) : table :=
  match e with (k, (_, _, Some r)) => put k r t | (k, (_, _, None)) => del k t end.

(* --ours: the table already holds our versions, only the artifacts are cleared;
   --theirs: every conflicted key is overwritten with / deleted according to their version.
   (ResolveDataConflictsForTable refuses when the table's schema differs from the chosen side's
   schema — ErrConfSchIncompatible — so rows are written without remapping.) *)
Definition resolve (ours : bool) (t : table) (conf : list conflict_entry) : table :=
  if ours then t else fold_right apply_theirs t conf.

(* state of the table after dolt_conflicts_resolve: rows and (cleared) conflicts *)
Definition resolve_state (ours : bool) (t : table) (conf : list conflict_entry) : table * list conflict_entry :=
  (resolve ours t conf, []).

(* ---- secondary index maintenance during resolve --theirs (resolveProllyConflicts, the loop over
   mutIdxs): ourRow is read from the table as it was before the resolve; absent ours => InsertEntry
   (their row), absent theirs => DeleteEntry (our row), else UpdateEntry (delete ours, insert theirs).
   An index on non-key column number ci is modelled by its entry set (indexed value, key). ---- *)
Definition ientry := (cell * N)%type.
Definition ival (ci : nat) (r : row) : cell := nth ci r None.
Definition ientry_eqb (a b : ientry) : bool := cell_eqb (fst a) (fst b) && (snd a =? snd b).
Definition imem (v : cell) (k : N) (idx : list ientry) : bool := existsb (ientry_eqb (v, k)) idx.
Definition iins (e : ientry) (idx : list ientry) : list ientry := e :: idx.
Definition idel (e : ientry) (idx : list ientry) : list ientry := filter (fun x => negb (ientry_eqb e x)) idx.

Definition apply_idx (ci : nat) (t0 : table) (e : conflict_entry) (idx : list ientry) : list ientry :=
  match e with
  | (k, (_, _, th)) =>
      match get k t0, th with
      | None, Some r => iins (ival ci r, k) idx
      | Some o, None => idel (ival ci o, k) idx
      | Some o, Some r => iins (ival ci r, k) (idel (ival ci o, k) idx)
      | None, None => idx
      end
  end.

Definition resolve_idx (ci : nat) (t0 : table) (conf : list conflict_entry) (idx : list ientry) : list ientry :=
  fold_right (apply_idx ci t0) idx conf.

(* the index built from a table, and a lookup through an index (keys whose entry has value v) *)
Definition build_idx (ci : nat) (t : table) : list ientry :=
  flat_map (fun k => match get k t with Some r => [(ival ci r, k)] | None => [] end) (nodup N.eq_dec (keys t)).
Definition lookup_idx (v : cell) (idx : list ientry) : list N :=
  map snd (filter (fun e => cell_eqb (fst e) v) idx).
