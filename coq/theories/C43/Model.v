(* C43 — conflict table and conflict resolution.  The conflict artifact and the merged table are
   those of the C29 model (table_merge); this file adds dolt_conflicts_resolve.
   Mirrors go/libraries/doltcore/sqle/dprocedures/dolt_conflicts_resolve.go
   (ResolveDataConflictsForTable, resolveProllyConflicts, clearTableAndUpdateRoot) and
   go/libraries/doltcore/sqle/dtables/conflicts_tables_prolly.go (row iterator: base from the
   ancestor root, ours from the table itself, theirs from their root).  No proofs here. *)
From Coq Require Import NArith List Bool.
From Dolt Require Import C29.Model.
Import ListNotations.
Local Open Scope N_scope.

Definition put (k : N) (r : row) (t : table) : table := (k, r) :: t.
Definition del (k : N) (t : table) : table := filter (fun e => negb (fst e =? k)) t.

(* resolveProllyConflicts, one artifact: `if len(theirRow) == 0 { Delete } else { Put(theirRow) }` *)
Definition apply_theirs (e : conflict_entry) (t : table) : table :=
  match e with (k, (_, _, Some r)) => put k r t | (k, (_, _, None)) => del k t end.

(* --ours: the table already holds our versions, only the artifacts are cleared;
   --theirs: every conflicted key is overwritten with / deleted according to their version.
   (ResolveDataConflictsForTable refuses when the table's schema differs from the chosen side's
   schema — ErrConfSchIncompatible — so rows are written without remapping.) *)
Definition resolve (ours : bool) (t : table) (conf : list conflict_entry) : table :=
  if ours then t else fold_right apply_theirs t conf.

(* state of the table after dolt_conflicts_resolve: rows and (cleared) conflicts *)
Definition resolve_state (ours : bool) (t : table) (conf : list conflict_entry) : table * list conflict_entry :=
  (resolve ours t conf, []).
