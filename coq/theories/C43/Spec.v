(* C43 — what resolution must do, key by key, independent of how the table is rewritten. *)
From Coq Require Import NArith List Bool.
From Dolt Require Import C29.Model C29.Spec C29.Corr.
Import ListNotations.
Local Open Scope N_scope.

(* the row a key must hold after resolving with ours / theirs *)
Definition spec_resolved (ours : bool) (t : table) (conf : list conflict_entry) (k : N) : option row :=
  match getc k conf with
  | Some (_, o, th) => if ours then o else th     (* exactly that version; absent = deleted *)
  | None => get k t                                (* other rows untouched *)
  end.

(* the conflict entry the system table must show for a key (None = not listed) *)
Definition spec_conflict_entry (sb sl sr : schema) (b l r : table) (k : N) : option (option row * option row * option row) :=
  let '(v, c) := spec_row sb sl sr (get k b) (get k l) (get k r) in
  if c then Some (get k b, v, get k r) else None.
