(* C43 — proofs. *)
From Coq Require Import NArith List Bool.
From Dolt Require Import C29.Model C29.Spec C29.Corr C29.Proofs C43.Model C43.Spec.
Import ListNotations.
Local Open Scope N_scope.

Lemma get_del k k' t : get k (del k' t) = if k' =? k then None else get k t.
Proof.
  unfold del. induction t as [|[k0 r0] t IH]; cbn [filter get fst].
  - destruct (k' =? k); reflexivity.
  - destruct (N.eqb_spec k0 k') as [e|n]; cbn [negb].
    + subst k0. rewrite IH. destruct (k' =? k); reflexivity.
    + cbn [get]. rewrite IH. destruct (N.eqb_spec k0 k) as [e2|n2]; [|reflexivity].
      subst k0. destruct (N.eqb_spec k' k); [congruence|reflexivity].
Qed.

Lemma get_apply_theirs k e t :
  get k (apply_theirs e t) = if fst e =? k then snd (snd e) else get k t.
Proof.
  destruct e as [k' [[b o] [r|]]]; cbn [apply_theirs fst snd].
  - unfold put. cbn [get]. reflexivity.
  - apply get_del.
Qed.

(* resolve_spec: for every table and every conflict list, after resolving with ours/theirs every
   conflicted key holds exactly that version (absent when that version is absent), every other key
   is untouched, and no conflicts remain. *)
Theorem resolve_theirs_spec : forall t conf k,
  get k (resolve false t conf) = match getc k conf with Some (_, _, th) => th | None => get k t end.
Proof.
  intros t conf k. unfold resolve. induction conf as [|[k' [[b o] th]] conf IH]; cbn [fold_right getc]; [reflexivity|].
  rewrite get_apply_theirs. cbn [fst snd]. destruct (k' =? k); [reflexivity|exact IH].
Qed.

Theorem resolve_spec : forall sb sl sr b l r ours k,
  let M := table_merge true sb sl sr b l r in
  get k (fst (resolve_state ours (m_rows M) (m_conf M))) = spec_resolved ours (m_rows M) (m_conf M) k
  /\ snd (resolve_state ours (m_rows M) (m_conf M)) = []
  /\ (forall e, getc k (m_conf M) = Some e -> snd (fst e) = get k (m_rows M)).
Proof.
  intros sb sl sr b l r ours k M. split; [|split].
  - unfold resolve_state, spec_resolved. cbn [fst]. destruct ours.
    + unfold resolve. subst M. rewrite conflicts_exact, table_merge_get.
      destruct (merge_key true sb sl sr b l r k) as [|v [|]]; reflexivity.
    + rewrite resolve_theirs_spec. destruct (getc k (m_conf M)) as [[[b0 o] th]|]; reflexivity.
  - reflexivity.
  - intros e He. subst M. rewrite conflicts_exact in He. rewrite table_merge_get.
    destruct (merge_key true sb sl sr b l r k) as [|v [|]]; try discriminate. inversion He. reflexivity.
Qed.

Theorem resolve_idempotent : forall t conf k,
  get k (resolve false (resolve false t conf) conf) = get k (resolve false t conf).
Proof.
  intros. rewrite (resolve_theirs_spec (resolve false t conf)). rewrite resolve_theirs_spec.
  destruct (getc k conf) as [[[b o] th]|]; reflexivity.
Qed.

(* conflicts_exact: the conflict list of the merge shows, for every key, exactly the entry the
   declarative merge prescribes (base, ours, theirs) — in the schema class and under the two
   data hypotheses of C29 (see C29.Proofs: conflict_iff_refuted, byte_coincidence_refuted). *)
Theorem conflicts_exact_spec : forall sb sl sr b l r k,
  schemas_ok sb sl sr -> conv_ok sl sr (get k l) (get k r) ->
  delete_visible sb sl sr (get k b) (get k l) (get k r) ->
  getc k (m_conf (table_merge true sb sl sr b l r)) = spec_conflict_entry sb sl sr b l r k.
Proof.
  intros sb sl sr b l r k Hs Cv Dv. rewrite conflicts_exact. unfold merge_key, spec_conflict_entry.
  rewrite (row_merge_refines_spec _ _ _ _ _ _ Hs Cv Dv).
  destruct (spec_row sb sl sr (get k b) (get k l) (get k r)) as [v [|]]; reflexivity.
Qed.

(* without schema changes the two data hypotheses hold trivially: the statement is unconditional *)
Theorem conflicts_exact_same_schema : forall s b l r k,
  getc k (m_conf (table_merge true s s s b l r)) = spec_conflict_entry s s s b l r k.
Proof.
  intros. apply conflicts_exact_spec.
  - split; intros _; reflexivity.
  - intros x _ _. reflexivity.
  - unfold delete_visible. destruct (get k b), (get k l), (get k r); try exact I;
      intros c v Hm Hc; apply col_some_mem in Hc; congruence.
Qed.
