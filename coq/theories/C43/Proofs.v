(* C43 — proofs. *)
From Coq Require Import NArith List Bool.
From Dolt Require Import C29.Model C29.Spec C29.Corr C29.Proofs C43.Model C43.Spec.
Import ListNotations.
Local Open Scope N_scope.

Lemma get_del k k' t : get k (del k' t) = if k' =? k then None else get k t.
Proof.
  unfold del. induction t as [|[k0 r0] t IH]; cbn [filter get fst].
  - destruct (k' =? k); reflexivity.
  - destruct (N.eqb_spec k0 k') as [e|n]; cbn [negb].
    + subst k0. rewrite IH. destruct (k' =? k); reflexivity.
    + cbn [get]. rewrite IH. destruct (N.eqb_spec k0 k) as [e2|n2]; [|reflexivity].
      subst k0. destruct (N.eqb_spec k' k); [congruence|reflexivity].
Qed.

Lemma get_apply_theirs k e t :
  get k (apply_theirs e t) = if fst e =? k then snd (snd e) else get k t.
Proof.
  destruct e as [k' [[b o] [r|]]]; cbn [apply_theirs fst snd].
  - unfold put. cbn [get]. reflexivity.
  - apply get_del.
Qed.

(* resolve_spec: for every table and every conflict list, after resolving with ours/theirs every
   conflicted key holds exactly that version (absent when that version is absent), every other key
   is untouched, and no conflicts remain. *)
Theorem resolve_theirs_spec : forall t conf k,
  get k (resolve false t conf) = match getc k conf with Some (_, _, th) => th | None => get k t end.
Proof.
  intros t conf k. unfold resolve. induction conf as [|[k' [[b o] th]] conf IH]; cbn [fold_right getc]; [reflexivity|].
  rewrite get_apply_theirs. cbn [fst snd]. destruct (k' =? k); [reflexivity|exact IH].
Qed.

Theorem resolve_spec : forall sb sl sr b l r ours k,
  let M := table_merge true sb sl sr b l r in
  get k (fst (resolve_state ours (m_rows M) (m_conf M))) = spec_resolved ours (m_rows M) (m_conf M) k
  /\ snd (resolve_state ours (m_rows M) (m_conf M)) = []
  /\ (forall e, getc k (m_conf M) = Some e -> snd (fst e) = get k (m_rows M)).
Proof.
  intros sb sl sr b l r ours k M. split; [|split].
  - unfold resolve_state, spec_resolved. cbn [fst]. destruct ours.
    + unfold resolve. subst M. rewrite conflicts_exact, table_merge_get.
      destruct (merge_key true sb sl sr b l r k) as [|v [|]]; reflexivity.
    + rewrite resolve_theirs_spec. destruct (getc k (m_conf M)) as [[[b0 o] th]|]; reflexivity.
  - reflexivity.
  - intros e He. subst M. rewrite conflicts_exact in He. rewrite table_merge_get.
    destruct (merge_key true sb sl sr b l r k) as [|v [|]]; try discriminate. inversion He. reflexivity.
Qed.

Theorem resolve_idempotent : forall t conf k,
  get k (resolve false (resolve false t conf) conf) = get k (resolve false t conf).
Proof.
  intros. rewrite (resolve_theirs_spec (resolve false t conf)). rewrite resolve_theirs_spec.
  destruct (getc k conf) as [[[b o] th]|]; reflexivity.
Qed.

(* conflicts_exact: the conflict list of the merge shows, for every key, exactly the entry the
   declarative merge prescribes (base, ours, theirs) — in the schema class and under the two
   data hypotheses of C29 (see C29.Proofs: conflict_iff_refuted, byte_coincidence_refuted). *)
Theorem conflicts_exact_spec : forall sb sl sr b l r k,
  schemas_ok sb sl sr -> conv_ok sl sr (get k l) (get k r) ->
  delete_visible sb sl sr (get k b) (get k l) (get k r) ->
  getc k (m_conf (table_merge true sb sl sr b l r)) = spec_conflict_entry sb sl sr b l r k.
Proof.
  intros sb sl sr b l r k Hs Cv Dv. rewrite conflicts_exact. unfold merge_key, spec_conflict_entry.
  rewrite (row_merge_refines_spec _ _ _ _ _ _ Hs Cv Dv).
  destruct (spec_row sb sl sr (get k b) (get k l) (get k r)) as [v [|]]; reflexivity.
Qed.

(* without schema changes the two data hypotheses hold trivially: the statement is unconditional *)
Theorem conflicts_exact_same_schema : forall s b l r k,
  getc k (m_conf (table_merge true s s s b l r)) = spec_conflict_entry s s s b l r k.
Proof.
  intros. apply conflicts_exact_spec.
  - split; intros _; reflexivity.
  - intros x _ _. reflexivity.
  - unfold delete_visible. destruct (get k b), (get k l), (get k r); try exact I;
      intros c v Hm Hc; apply col_some_mem in Hc; congruence.
Qed.

(* ---------- resolve_preserves_mirror ---------- *)
(* the index mirrors the table: (v,k) is an entry exactly when the row at key k has v in the indexed column *)
Definition mirror (ci : nat) (idx : list ientry) (t : table) : Prop :=
  forall v k, imem v k idx = match get k t with Some r => cell_eqb (ival ci r) v | None => false end.

Lemma ientry_eqb_spec a b : ientry_eqb a b = true <-> a = b.
Proof.
  destruct a as [v k], b as [v' k']. unfold ientry_eqb. cbn [fst snd]. rewrite andb_true_iff, N.eqb_eq.
  destruct (cell_eqb_spec v v') as [E|NE]; split; intro H.
  - destruct H. congruence.
  - split; [reflexivity|congruence].
  - destruct H. discriminate.
  - inversion H. contradiction.
Qed.

Lemma imem_iins v k e idx : imem v k (iins e idx) = ientry_eqb (v, k) e || imem v k idx.
Proof. reflexivity. Qed.

Lemma imem_idel v k e idx : imem v k (idel e idx) = imem v k idx && negb (ientry_eqb e (v, k)).
Proof.
  unfold imem, idel. induction idx as [|x idx IH]; cbn [filter existsb]; [reflexivity|].
  destruct (ientry_eqb e x) eqn:E; cbn [negb].
  - rewrite IH. apply ientry_eqb_spec in E. subst x.
    destruct (ientry_eqb (v, k) e) eqn:E2; cbn [orb].
    + apply ientry_eqb_spec in E2. subst e. assert (H : ientry_eqb (v, k) (v, k) = true) by (apply ientry_eqb_spec; reflexivity).
      rewrite H. cbn [negb]. rewrite !andb_false_r. reflexivity.
    + reflexivity.
  - cbn [existsb]. rewrite IH. destruct (ientry_eqb (v, k) x) eqn:E2; cbn [orb]; [|reflexivity].
    apply ientry_eqb_spec in E2. subst x. rewrite E. reflexivity.
Qed.

Lemma ientry_key_ne v k v' k' : k' <> k -> ientry_eqb (v, k) (v', k') = false /\ ientry_eqb (v', k') (v, k) = false.
Proof.
  intro H. unfold ientry_eqb. cbn [fst snd]. split; apply andb_false_iff; right; apply N.eqb_neq; congruence.
Qed.

Lemma ientry_same_key v k v' : ientry_eqb (v, k) (v', k) = cell_eqb v v'.
Proof. unfold ientry_eqb. cbn [fst snd]. rewrite N.eqb_refl. apply andb_true_r. Qed.

Lemma cell_eqb_sym a b : cell_eqb a b = cell_eqb b a.
Proof. destruct (cell_eqb_spec a b), (cell_eqb_spec b a); congruence. Qed.

(* one artifact: the table step (apply_theirs) and the index step (apply_idx) keep the mirror,
   provided the row the index step reads (from the pre-resolve table t0) is the current row *)
Lemma mirror_step ci t0 t idx e :
  mirror ci idx t -> get (fst e) t0 = get (fst e) t ->
  mirror ci (apply_idx ci t0 e idx) (apply_theirs e t).
Proof.
  intros M G. destruct e as [k [[b0 o0] th]]. cbn [fst] in G. intros v k'.
  rewrite get_apply_theirs. cbn [fst snd apply_idx]. rewrite G.
  destruct (N.eqb_spec k k') as [E|NE].
  - subst k'. pose proof (M v k) as Mk.
    destruct (get k t) as [o|] eqn:Go, th as [r|].
    + rewrite imem_iins, imem_idel, Mk, !ientry_same_key.
      rewrite (cell_eqb_sym v (ival ci r)). destruct (cell_eqb (ival ci r) v); [reflexivity|]. cbn [orb].
      destruct (cell_eqb (ival ci o) v); reflexivity.
    + rewrite imem_idel, Mk, ientry_same_key. destruct (cell_eqb (ival ci o) v); reflexivity.
    + rewrite imem_iins, Mk, ientry_same_key, orb_false_r. apply cell_eqb_sym.
    + exact Mk.
  - pose proof (M v k') as Mk.
    destruct (get k t) as [o|], th as [r|];
      rewrite ?imem_iins, ?imem_idel;
      repeat match goal with |- context [ientry_eqb (?a, k') (?c, k)] => rewrite (proj1 (ientry_key_ne a k' c k NE)) end;
      repeat match goal with |- context [ientry_eqb (?c, k) (?a, k')] => rewrite (proj2 (ientry_key_ne a k' c k NE)) end;
      cbn [orb negb]; rewrite ?andb_true_r; exact Mk.
Qed.

(* resolve_preserves_mirror: for every table, index and conflict list with distinct keys, resolving
   with theirs leaves the secondary index mirroring the resolved table. *)
Theorem resolve_preserves_mirror : forall ci t conf idx,
  NoDup (map fst conf) -> mirror ci idx t ->
  mirror ci (resolve_idx ci t conf idx) (resolve false t conf).
Proof.
  intros ci t conf idx ND M. unfold resolve_idx, resolve.
  induction conf as [|e conf IH]; cbn [fold_right]; [exact M|].
  inversion ND as [|x xs Hnot ND']; subst.
  apply mirror_step; [apply IH; exact ND'|].
  fold (resolve false t conf). rewrite resolve_theirs_spec.
  assert (G : getc (fst e) conf = None).
  { clear - Hnot. induction conf as [|[k' e'] conf IH]; [reflexivity|]. cbn [getc map fst] in *.
    destruct (N.eqb_spec k' (fst e)) as [E|NE]; [exfalso; apply Hnot; left; exact E|].
    apply IH. intro H. apply Hnot. right. exact H. }
  rewrite G. reflexivity.
Qed.

(* resolving with ours does not touch rows or index *)
Theorem resolve_ours_preserves_mirror : forall ci t conf idx,
  mirror ci idx t -> mirror ci idx (resolve true t conf).
Proof. intros. exact H. Qed.

(* the conflict list of a merge has distinct keys *)
Lemma NoDup_flat_map_keys {A} (f : N -> list (N * A)) ks :
  NoDup ks -> (forall k x, In x (f k) -> fst x = k) -> (forall k, length (f k) <= 1)%nat ->
  NoDup (map fst (flat_map f ks)).
Proof.
  intros ND Hk Hl. induction ks as [|k ks IH]; cbn [flat_map map]; [constructor|].
  inversion ND as [|y ys Hnot ND']; subst. rewrite map_app.
  specialize (IH ND').
  pose proof (Hl k) as L. pose proof (Hk k) as K.
  destruct (f k) as [|x [|x' rest]]; cbn [map app length] in *; [exact IH| |exfalso; inversion L as [|? L']; inversion L'].
  constructor; [|exact IH]. rewrite (K x (or_introl eq_refl)).
  intro H. apply in_map_iff in H as [[k' a] [E Hin]]. cbn [fst] in E. subst k'.
  apply in_flat_map in Hin as [k0 [Hk0 Hin]]. apply Hk in Hin. cbn [fst] in Hin. subst k0. contradiction.
Qed.

Theorem conflict_keys_distinct : forall fixed sb sl sr b l r,
  NoDup (map fst (m_conf (table_merge fixed sb sl sr b l r))).
Proof.
  intros. unfold table_merge. cbn [m_conf]. apply NoDup_flat_map_keys.
  - apply NoDup_nodup.
  - intros k x Hin. destruct (merge_key fixed sb sl sr b l r k) as [|v [|]]; cbn [In] in Hin; try contradiction.
    destruct Hin as [E|[]]. subst x. reflexivity.
  - intro k. destruct (merge_key fixed sb sl sr b l r k) as [|v [|]]; cbn [length]; auto.
Qed.

(* ---------- oracle_on_model ---------- *)
From Dolt Require Import C43.Corr.

Lemma same_schema_scope s ob ol or :
  schemas_ok s s s /\ conv_ok s s ol or /\ delete_visible s s s ob ol or.
Proof.
  split; [split; intros _; reflexivity|]. split; [intros x _ _; reflexivity|].
  unfold delete_visible. destruct ob, ol, or; try exact I;
    intros c v Hm Hc; apply col_some_mem in Hc; congruence.
Qed.

Lemma remap_self_agree s o : orow_agree s o s (option_map (remap s s) o) = true.
Proof.
  destruct o as [x|]; cbn [option_map orow_agree]; [|reflexivity].
  apply forallb_forall. intros c Hc. unfold remap. rewrite col_map.
  assert (M : mem c s = true). { apply mem_In. apply in_app_or in Hc. tauto. }
  rewrite M. destruct (col_some_ex s x c M) as [v Hv]. rewrite Hv. cbn [nullify ocell_eqb]. apply cell_eqb_refl.
Qed.

Lemma imem_app v k a b : imem v k (a ++ b) = imem v k a || imem v k b.
Proof. unfold imem. apply existsb_app. Qed.

Lemma imem_build ci (g : N -> option row) ks v k :
  imem v k (flat_map (fun k' => match g k' with Some r => [(ival ci r, k')] | None => [] end) ks)
  = if existsb (N.eqb k) ks then match g k with Some r => cell_eqb (ival ci r) v | None => false end else false.
Proof.
  induction ks as [|k' ks IH]; cbn [flat_map existsb]; [reflexivity|].
  rewrite imem_app, IH. rewrite (N.eqb_sym k k').
  destruct (N.eqb_spec k' k) as [E|NE]; cbn [orb].
  - subst k'. destruct (g k) as [r|]; cbn [imem existsb].
    + unfold imem. cbn [existsb]. rewrite ientry_same_key, orb_false_r, (cell_eqb_sym v).
      destruct (cell_eqb (ival ci r) v); cbn [orb]; [reflexivity|]. destruct (existsb (N.eqb k) ks); reflexivity.
    + unfold imem. cbn [existsb orb]. destruct (existsb (N.eqb k) ks); reflexivity.
  - destruct (g k') as [r|]; unfold imem at 1; cbn [existsb orb]; [|reflexivity].
    rewrite (proj1 (ientry_key_ne v k (ival ci r) k' NE)). reflexivity.
Qed.

Lemma mirror_build ci t : mirror ci (build_idx ci t) t.
Proof.
  intros v k. unfold build_idx. rewrite (imem_build ci (fun k' => get k' t)).
  destruct (existsb (N.eqb k) (nodup N.eq_dec (keys t))) eqn:E; [reflexivity|].
  assert (G : get k t = None).
  { apply get_none_keys. intro H. apply (nodup_In N.eq_dec) in H. apply (proj2 (existsb_eqb_In k _)) in H. congruence. }
  rewrite G. reflexivity.
Qed.

Lemma lookup_ok_mirror idx t v : mirror 0 idx t -> lookup_ok t (v, lookup_idx v idx) = true.
Proof.
  intro M. unfold lookup_ok, lookup_idx. cbn [fst snd]. apply andb_true_iff. split; apply forallb_forall.
  - intros k Hk. apply in_map_iff in Hk as [[v' k'] [E Hin]]. cbn [snd] in E. subst k'.
    apply filter_In in Hin as [Hin Hv]. cbn [fst] in Hv. destruct (cell_eqb_spec v' v); [subst v'|discriminate].
    rewrite <- (M v k). unfold imem. apply existsb_exists. exists (v, k). split; [exact Hin|apply ientry_eqb_spec; reflexivity].
  - intros k _. rewrite <- (M v k). destruct (imem v k idx) eqn:I; [|reflexivity]. cbn [implb].
    unfold imem in I. apply existsb_exists in I as [x [Hin Hx]]. apply ientry_eqb_spec in Hx. subst x.
    unfold memN. apply existsb_exists. exists k. split; [|apply N.eqb_refl].
    apply in_map_iff. exists (v, k). split; [reflexivity|]. apply filter_In. split; [exact Hin|apply cell_eqb_refl].
Qed.

(* oracle_on_model: the executable statement of the property accepts the model's observation for
   every input (conflict table, both resolutions, index lookups) — no hypotheses. *)
Theorem oracle_on_model : forall i, oracle i (model_obs i) = true.
Proof.
  intro i. unfold oracle, model_obs.
  cbn [o_err o_rows o_conf o_ours o_theirs o_ours_left o_theirs_left o_ours_ix o_theirs_ix].
  set (s := i_s i). set (M := table_merge true s s s (i_b i) (i_l i) (i_r i)).
  assert (EM : m_err M = false) by apply merge_total.
  rewrite EM. cbn [negb andb resolve_state fst snd length N.of_nat N.eqb].
  rewrite !andb_true_iff. split; [split; [split; [split|]|]|]; try reflexivity.
  - apply forallb_forall. intros k _.
    destruct (resolve_spec s s s (i_b i) (i_l i) (i_r i) true k) as [Ro _].
    destruct (resolve_spec s s s (i_b i) (i_l i) (i_r i) false k) as [Rt _].
    cbn [resolve_state fst] in Ro, Rt. fold M in Ro, Rt.
    rewrite <- (conflicts_exact_same_schema s (i_b i) (i_l i) (i_r i) k). fold M.
    rewrite Ro, Rt, !orow_agree_refl.
    destruct (getc k (m_conf M)) as [[[b1 o1] t1]|] eqn:G; [|reflexivity].
    rewrite !orow_eqb_refl, orow_agree_refl. cbn [andb].
    unfold spec_resolved. rewrite G.
    subst M. rewrite conflicts_exact in G. unfold merge_key in G.
    destruct (same_schema_scope s (get k (i_b i)) (get k (i_l i)) (get k (i_r i))) as [Hs [Cv Dv]].
    rewrite (row_merge_refines_spec _ _ _ _ _ _ Hs Cv Dv) in G.
    pose proof (spec_conflict_ours s s s (get k (i_b i)) (get k (i_l i)) (get k (i_r i))) as O.
    destruct (snd (spec_row s s s (get k (i_b i)) (get k (i_l i)) (get k (i_r i)))); [|discriminate].
    rewrite (O eq_refl), merged_schema_same in G. inversion G; subst.
    rewrite remap_self_agree, orow_agree_refl. reflexivity.
  - apply forallb_forall. intros e He. apply in_map_iff in He as [v [E _]]. subst e.
    apply lookup_ok_mirror. apply mirror_build.
  - apply forallb_forall. intros e He. apply in_map_iff in He as [v [E _]]. subst e.
    apply lookup_ok_mirror. apply resolve_preserves_mirror; [apply conflict_keys_distinct|apply mirror_build].
Qed.

(* ---------- the prior-aware check at prior = [] is the single-merge check ---------- *)
Lemma model_obs_p_nil : forall i, model_obs_p [] i = model_obs i.
Proof. intro i. unfold model_obs_p, model_obs. cbv zeta. rewrite !app_nil_r. reflexivity. Qed.

Lemma oracle_p_nil : forall i o, oracle_p [] i o = oracle i o.
Proof.
  intros i o. unfold oracle_p, oracle. cbv zeta. cbn [getc map]. rewrite !app_nil_r. reflexivity.
Qed.

Lemma check_case_p_nil : forall c, check_case_p ([], c) = check_case c.
Proof. intro c. unfold check_case_p, check_case. rewrite model_obs_p_nil, oracle_p_nil. reflexivity. Qed.

Theorem oracle_on_model_p_nil : forall i, oracle_p [] i (model_obs_p [] i) = true.
Proof. intro i. rewrite oracle_p_nil, model_obs_p_nil. apply oracle_on_model. Qed.
