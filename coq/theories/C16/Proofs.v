(* C16 — proofs. *)
From Coq Require Import NArith ZArith List Bool Lia ZifyN ZifyBool.
From Dolt Require Import Base.Str Gen.C15Consts C15.Model C15.Spec C15.Proofs C16.Model C16.Spec C16.Corr.
Import ListNotations.
Local Open Scope N_scope.
Ltac Zify.zify_post_hook ::= Z.div_mod_to_equations.

(* 1. SQLite4 varint: vi_roundtrip, vi_first_byte_nonzero, vi_enc_nonempty are proved in C15.Proofs
   (the tuple builder's oracle theorem needs them). *)

(* ------------------------------------------------------------------ *)
(* 2. adaptive representations round-trip                              *)
Definition wf_aval (v : aval) : Prop :=
  match v with
  | AOut n addr => 0 < n < 2 ^ 64
  | _ => True
  end.

Theorem ad_roundtrip (v : aval) : wf_aval v -> ad_dec (ad_enc v) = v.
Proof.
  destruct v as [| c | n addr]; intros H; [reflexivity | reflexivity |].
  cbn [wf_aval] in H. destruct H as [Hpos Hlt].
  pose proof (vi_first_byte_nonzero n Hpos) as Hnz.
  pose proof (vi_roundtrip n addr Hlt) as Hrt.
  cbn [ad_enc].
  destruct (vi_enc n) as [|h t] eqn:E; [exfalso; apply (vi_enc_nonempty n); exact E|].
  cbn [hd] in Hnz.
  change ((h :: t) ++ addr) with (h :: (t ++ addr)) in *.
  unfold ad_dec.
  destruct (N.eqb_spec h 0) as [E0 | _]; [contradiction|].
  rewrite Hrt. unfold len. rewrite Nat2N.id.
  change (h :: t ++ addr) with ((h :: t) ++ addr). rewrite skipn_app, skipn_all, Nat.sub_diag. reflexivity.
Qed.

(* ------------------------------------------------------------------ *)
(* 3. reading a blob back = concatenating its leaves = the input        *)
Theorem blob_roundtrip (sizes : list nat) (b : bytes) : concat (split_by sizes b) = b.
Proof.
  revert b; induction sizes as [|n r IH]; intros b; cbn [split_by concat].
  - apply app_nil_r.
  - rewrite IH. apply firstn_skipn.
Qed.

Lemma chunk_fuel_concat fuel K b : (0 < K)%nat -> (length b <= fuel)%nat -> concat (chunk_fuel fuel K b) = b.
Proof.
  intros HK. revert b; induction fuel as [|f IH]; intros b Hl.
  - destruct b; [reflexivity | cbn in Hl; lia].
  - cbn [chunk_fuel]. destruct b as [|x b]; [reflexivity|].
    cbn [concat]. rewrite IH; [apply firstn_skipn|].
    rewrite skipn_length. cbn [length] in *. lia.
Qed.

Theorem chunks_concat (K : nat) (b : bytes) : (0 < K)%nat -> concat (chunks K b) = b.
Proof. intros HK. apply chunk_fuel_concat; [exact HK | lia]. Qed.

Lemma tree_bytes_node cs : tree_bytes (TNode cs) = forest_bytes cs.
Proof.
  unfold forest_bytes. cbn [tree_bytes].
  induction cs as [|c r IH]; [reflexivity|]. cbn [map concat]. rewrite <- IH. reflexivity.
Qed.

Lemma forest_bytes_app a b : forest_bytes (a ++ b) = forest_bytes a ++ forest_bytes b.
Proof. unfold forest_bytes. rewrite map_app, concat_app. reflexivity. Qed.

Lemma group_fuel_bytes fuel F ts : (0 < F)%nat -> (length ts <= fuel)%nat -> forest_bytes (group_fuel fuel F ts) = forest_bytes ts.
Proof.
  intros HF. revert ts; induction fuel as [|f IH]; intros ts Hl.
  - destruct ts; [reflexivity | cbn in Hl; lia].
  - cbn [group_fuel]. destruct ts as [|t ts]; [reflexivity|].
    change (forest_bytes (TNode (firstn F (t :: ts)) :: group_fuel f F (skipn F (t :: ts))))
      with (tree_bytes (TNode (firstn F (t :: ts))) ++ forest_bytes (group_fuel f F (skipn F (t :: ts)))).
    rewrite tree_bytes_node, IH.
    + rewrite <- forest_bytes_app, firstn_skipn. reflexivity.
    + rewrite skipn_length. cbn [length] in *. lia.
Qed.

Lemma levels_bytes h F ts : (0 < F)%nat -> forest_bytes (levels h F ts) = forest_bytes ts.
Proof.
  intros HF. revert ts; induction h as [|h IH]; intros ts; [reflexivity|].
  cbn [levels]. rewrite IH. apply group_fuel_bytes; [exact HF | lia].
Qed.

(* every byte string, whatever the chunk size, fan-out and number of levels *)
Theorem blob_tree_roundtrip (K F : N) (b : bytes) : 0 < K -> 0 < F -> forest_bytes (blob_forest K F b) = b.
Proof.
  intros HK HF. unfold blob_forest. rewrite levels_bytes by lia.
  unfold forest_bytes. rewrite map_map. cbn [tree_bytes]. rewrite map_id.
  apply chunks_concat. lia.
Qed.

(* ------------------------------------------------------------------ *)
(* 4. comparison of adaptive values                                    *)
Section Compare.
Variable K F : N.
Variable content : bytes -> bytes.

(* v stands for the byte string c *)
Definition repr_of (c : bytes) (v : aval) : Prop :=
  v = AInline c \/ exists addr, v = AOut (len c) addr /\ content addr = c.

Lemma chunks_single (c : bytes) : c <> [] -> len c <= K -> chunks (N.to_nat K) c = [c].
Proof.
  intros Hne Hl. unfold chunks. destruct c as [|x c]; [congruence|].
  cbn [length chunk_fuel]. unfold len in Hl.
  rewrite firstn_all2 by lia. rewrite skipn_all2 by lia.
  destruct (length c); reflexivity.
Qed.

Lemma first_chunk_side c v : len c <= K -> 0 < K -> repr_of c v -> first_chunk (side_of K F content v) = c.
Proof.
  intros Hl HK [-> | [addr [-> Hc]]]; [reflexivity|].
  cbn [side_of first_chunk]. rewrite Hc.
  destruct c as [|x c]; [reflexivity|]. rewrite chunks_single; [reflexivity | discriminate | exact Hl].
Qed.

Lemma top_level_small c : len c <= K -> top_level K F (len c) = 0.
Proof. intros H. unfold top_level. apply N.leb_le in H. rewrite H. reflexivity. Qed.

(* values that fit one chunk (this covers every value that can be stored
   inline at all under a length target <= chunk size): the result is the
   byte order of the contents, whichever representation either side uses *)
Theorem compare_adaptive_small (cl cr : bytes) (l r : aval) :
  0 < K -> len cl <= K -> len cr <= K -> repr_of cl l -> repr_of cr r ->
  compare_adaptive K F content l r = bytes_compare cl cr.
Proof.
  intros HK Hl Hr Rl Rr.
  pose proof (first_chunk_side cl l Hl HK Rl) as Fl.
  pose proof (first_chunk_side cr r Hr HK Rr) as Fr.
  destruct Rl as [-> | [al [-> Cl]]]; destruct Rr as [-> | [ar [-> Cr]]].
  - reflexivity.
  - cbn [compare_adaptive]. rewrite Fr. reflexivity.
  - cbn [compare_adaptive]. rewrite Fl. reflexivity.
  - cbn [compare_adaptive].
    destruct (beq_bytes al ar) eqn:E.
    + apply beq_bytes_spec in E. subst ar. rewrite Cl in Cr. subst cr. symmetry. apply bytes_compare_eq. reflexivity.
    + cbn [side_of first_chunk] in Fl, Fr. rewrite Cl in Fl. rewrite Cr in Fr.
      cbn [side_of]. rewrite Cl, Cr, !top_level_small by assumption.
      change ((0 =? 0) && (0 <? 0)) with false. cbv iota. rewrite Fl, Fr. reflexivity.
Qed.

Corollary compare_adaptive_repr_indep (cl cr : bytes) (l l' r r' : aval) :
  0 < K -> len cl <= K -> len cr <= K ->
  repr_of cl l -> repr_of cl l' -> repr_of cr r -> repr_of cr r' ->
  compare_adaptive K F content l r = compare_adaptive K F content l' r'.
Proof. intros. rewrite !(compare_adaptive_small cl cr) by assumption. reflexivity. Qed.
End Compare.

(* Full statement — for all contents, compare_adaptive l r = bytes_compare cl cr —
   is FALSE of the differ as written: when the two trees have different heights
   (or one root is a leaf) only the first leaf of each side is compared.
   Witness with the real chunk size and fan-out: 4000 x 'a' against 4001 x 'a'. *)
Definition w_a1 : bytes := [1].
Definition w_a2 : bytes := [2].
Definition w_content (addr : bytes) : bytes := if beq_bytes addr w_a1 then repeat 97 4000 else repeat 97 4001.

Theorem compare_adaptive_order_refuted :
  exists (content : bytes -> bytes) (l r : aval) (cl cr : bytes),
    repr_of content cl l /\ repr_of content cr r /\ cl <> cr
    /\ compare_adaptive c_blob_chunk_length (c_blob_chunk_length / c_hash_byte_len) content l r = Eq.
Proof.
  exists w_content, (AOut 4000 w_a1), (AOut 4001 w_a2), (repeat 97 4000), (repeat 97 4001).
  split; [right; exists w_a1; split; reflexivity|].
  split; [right; exists w_a2; split; reflexivity|].
  split.
  - intros E. apply (f_equal (@length N)) in E. rewrite !repeat_length in E. discriminate E.
  - vm_compute. reflexivity.
Qed.


(* ================================================================== *)
(* 5. aligned chunk lists: the first differing pair of leaves decides    *)
Lemma bytes_compare_app_same p x y : bytes_compare (p ++ x) (p ++ y) = bytes_compare x y.
Proof. induction p as [|c p IH]; [reflexivity|]. cbn [app bytes_compare]. rewrite N.compare_refl. exact IH. Qed.

Lemma bytes_compare_app_diff a1 : forall b1 x y,
  length a1 = length b1 -> a1 <> b1 -> bytes_compare (a1 ++ x) (b1 ++ y) = bytes_compare a1 b1.
Proof.
  induction a1 as [|c a1 IH]; intros [|d b1] x y L D; try discriminate L; [congruence|].
  cbn [app bytes_compare]. destruct (c ?= d) eqn:C; try reflexivity.
  apply N.compare_eq in C. subst d. apply IH; [cbn in L; lia | congruence].
Qed.

Lemma bytes_compare_short a : forall p q,
  (length a < length p)%nat -> bytes_compare a (p ++ q) = bytes_compare a p.
Proof.
  induction a as [|c a IH]; intros [|d p] q L; cbn [length] in L; try lia; [reflexivity|].
  cbn [app bytes_compare]. destruct (c ?= d); try reflexivity. apply IH. lia.
Qed.

Lemma bytes_compare_short_l a p q :
  (length a < length p)%nat -> bytes_compare (p ++ q) a = bytes_compare p a.
Proof.
  intros L. rewrite (bytes_compare_antisym a (p ++ q)), (bytes_compare_antisym a p), bytes_compare_short by exact L. reflexivity.
Qed.

Lemma beq_bytes_false x y : beq_bytes x y = false -> x <> y.
Proof. intros H E. subst. rewrite beq_bytes_refl in H. discriminate H. Qed.

Lemma first_diff_chunk_fuel (K : nat) : (0 < K)%nat -> forall n a b,
  (length a <= n)%nat -> (length b <= n)%nat ->
  first_diff (chunk_fuel n K a) (chunk_fuel n K b) = bytes_compare a b.
Proof.
  intros HK. induction n as [|n IH]; intros a b La Lb.
  - destruct a; [|cbn in La; lia]. destruct b; [reflexivity | cbn in Lb; lia].
  - cbn [chunk_fuel]. destruct K as [|K']; [lia|].
    destruct a as [|x a], b as [|y b]; try reflexivity.
    set (A := x :: a) in *. set (B := y :: b) in *.
    cbn [first_diff].
    pose proof (firstn_skipn (S K') A) as SA. pose proof (firstn_skipn (S K') B) as SB.
    assert (LA : (length (skipn (S K') A) <= n)%nat) by (rewrite skipn_length; subst A; cbn [length] in *; lia).
    assert (LB : (length (skipn (S K') B) <= n)%nat) by (rewrite skipn_length; subst B; cbn [length] in *; lia).
    destruct (beq_bytes (firstn (S K') A) (firstn (S K') B)) eqn:E.
    + apply beq_bytes_spec in E. rewrite IH by assumption.
      rewrite <- SA, <- SB at 2. rewrite E. symmetry. apply bytes_compare_app_same.
    + apply beq_bytes_false in E.
      rewrite <- SA, <- SB at 2.
      pose proof (firstn_length (S K') A) as FA. pose proof (firstn_length (S K') B) as FB.
      destruct (Nat.lt_trichotomy (length (firstn (S K') A)) (length (firstn (S K') B))) as [L | [L | L]].
      * assert (SK : skipn (S K') A = []) by (apply skipn_all2; lia).
        rewrite SK, app_nil_r. symmetry. apply bytes_compare_short. exact L.
      * symmetry. apply bytes_compare_app_diff; assumption.
      * assert (SK : skipn (S K') B = []) by (apply skipn_all2; lia).
        rewrite SK, app_nil_r. symmetry. apply bytes_compare_short_l. exact L.
Qed.

Lemma chunk_fuel_enough (K : nat) : (0 < K)%nat -> forall f1 f2 b,
  (length b <= f1)%nat -> (length b <= f2)%nat -> chunk_fuel f1 K b = chunk_fuel f2 K b.
Proof.
  intros HK. induction f1 as [|f1 IH]; intros f2 b L1 L2.
  - destruct b; [|cbn in L1; lia]. destruct f2; reflexivity.
  - destruct f2 as [|f2]; [destruct b; [reflexivity | cbn in L2; lia]|].
    cbn [chunk_fuel]. destruct b as [|x b]; [reflexivity|]. f_equal.
    apply IH; rewrite skipn_length; cbn [length] in *; lia.
Qed.

Theorem first_diff_chunks (K : nat) (a b : bytes) :
  (0 < K)%nat -> first_diff (chunks K a) (chunks K b) = bytes_compare a b.
Proof.
  intros HK. unfold chunks.
  rewrite (chunk_fuel_enough K HK (length a) (Nat.max (length a) (length b)) a) by lia.
  rewrite (chunk_fuel_enough K HK (length b) (Nat.max (length a) (length b)) b) by lia.
  apply first_diff_chunk_fuel; lia.
Qed.

Lemma hd_chunks (K : nat) (c : bytes) : hd [] (chunks K c) = firstn K c.
Proof.
  unfold chunks. destruct c as [|x c]; [destruct K; reflexivity|]. reflexivity.
Qed.

(* ================================================================== *)
(* 6. comparison beyond one chunk                                      *)
Section Compare2.
Variable K F : N.
Variable content : bytes -> bytes.

(* outside the class of the finding nodeStore.CompareAdaptive:first-chunk-only:
   two trees are compared leaf by leaf only when they have the same height
   (>= 1); otherwise only the first leaf of each side is looked at, which is
   enough exactly when the other side cannot extend past it *)
Definition cmp_safe (cl cr : bytes) (l r : aval) : bool :=
  match l, r with
  | AOut _ _, AOut _ _ =>
    ((len cl <=? K) && (len cr <=? K))
    || ((top_level K F (len cl) =? top_level K F (len cr)) && (0 <? top_level K F (len cl)))
  | AInline _, AOut _ _ => (len cl <? K) || (len cr <=? K)
  | AOut _ _, AInline _ => (len cr <? K) || (len cl <=? K)
  | _, _ => true
  end.

Lemma firstn_small (c : bytes) : len c <= K -> firstn (N.to_nat K) c = c.
Proof. intros H. apply firstn_all2. unfold len in H. lia. Qed.

Lemma compare_first_chunk (a c : bytes) :
  (len a <? K) || (len c <=? K) = true -> bytes_compare a (firstn (N.to_nat K) c) = bytes_compare a c.
Proof.
  intros H. apply orb_true_iff in H as [H | H].
  - apply N.ltb_lt in H. destruct (N.le_gt_cases (len c) K) as [L | L]; [rewrite firstn_small by exact L; reflexivity|].
    rewrite <- (firstn_skipn (N.to_nat K) c) at 2. symmetry. apply bytes_compare_short.
    rewrite firstn_length. unfold len in *. lia.
  - apply N.leb_le in H. rewrite firstn_small by exact H. reflexivity.
Qed.

Theorem compare_adaptive_correct (cl cr : bytes) (l r : aval) :
  0 < K -> repr_of content cl l -> repr_of content cr r -> cmp_safe cl cr l r = true ->
  compare_adaptive K F content l r = bytes_compare cl cr.
Proof.
  intros HK Rl Rr S.
  destruct Rl as [-> | [al [-> Cl]]]; destruct Rr as [-> | [ar [-> Cr]]]; cbn [cmp_safe] in S.
  - reflexivity.
  - cbn [compare_adaptive side_of first_chunk]. rewrite Cr, hd_chunks. apply compare_first_chunk. exact S.
  - cbn [compare_adaptive side_of first_chunk]. rewrite Cl, hd_chunks.
    rewrite (bytes_compare_antisym cr (firstn _ cl)), (bytes_compare_antisym cr cl), compare_first_chunk by exact S. reflexivity.
  - cbn [compare_adaptive].
    destruct (beq_bytes al ar) eqn:E.
    + apply beq_bytes_spec in E. subst ar. rewrite Cl in Cr. subst cr. symmetry. apply bytes_compare_eq. reflexivity.
    + cbn [side_of]. rewrite Cl, Cr.
      destruct ((top_level K F (len cl) =? top_level K F (len cr)) && (0 <? top_level K F (len cl))) eqn:H.
      * apply first_diff_chunks. lia.
      * rewrite orb_false_r in S. apply andb_true_iff in S as [S1 S2]. apply N.leb_le in S1, S2.
        rewrite !hd_chunks, !firstn_small by assumption. reflexivity.
Qed.

(* the result does not depend on the representation of either side, for all
   contents, as long as both pairs are outside the finding's class *)
Corollary compare_adaptive_repr_indep_general (cl cr : bytes) (l l' r r' : aval) :
  0 < K -> repr_of content cl l -> repr_of content cl l' -> repr_of content cr r -> repr_of content cr r' ->
  cmp_safe cl cr l r = true -> cmp_safe cl cr l' r' = true ->
  compare_adaptive K F content l r = compare_adaptive K F content l' r'.
Proof. intros. rewrite !(compare_adaptive_correct cl cr) by assumption. reflexivity. Qed.

(* two out-of-band values whose trees have the same height >= 1 *)
Corollary compare_adaptive_same_height (cl cr al ar : bytes) :
  0 < K -> content al = cl -> content ar = cr ->
  top_level K F (len cl) = top_level K F (len cr) -> 0 < top_level K F (len cl) ->
  compare_adaptive K F content (AOut (len cl) al) (AOut (len cr) ar) = bytes_compare cl cr.
Proof.
  intros HK Cl Cr H1 H2. apply compare_adaptive_correct; [exact HK | right; eauto | right; eauto |].
  cbn [cmp_safe]. apply N.eqb_eq in H1. apply N.ltb_lt in H2. rewrite H1, H2. apply orb_true_r.
Qed.
End Compare2.


(* ================================================================== *)
(* 7. oracle_on_model                                                  *)
Definition out_form (x addr : bytes) : aval := if len x =? 0 then AInline x else AOut (len x) addr.

(* store level: lengths fit the 64-bit header; within the case the store is a
   bijection between the two contents and their addresses *)
Definition api_wf (a : api_in) : bool :=
  let x := expand (a_x a) in
  let y := expand (a_y a) in
  (len x <? 2 ^ 64) && (len y <? 2 ^ 64)
  && Bool.eqb (beq_bytes (a_addr_x a) (a_addr_y a)) (beq_bytes x y).

(* excluded class = the known finding nodeStore.CompareAdaptive:first-chunk-only:
   every comparison the case makes is between sides for which looking at first
   leaves / aligned leaves is enough (cmp_safe) *)
Definition api_safe (a : api_in) : bool :=
  let x := expand (a_x a) in
  let y := expand (a_y a) in
  let ox := out_form x (a_addr_x a) in
  let oy := out_form y (a_addr_y a) in
  let ix := inline_ok (a_target a) x in
  let iy := inline_ok (a_target a) y in
  let safe := cmp_safe chunk_len fanout x y in
  (negb ix || safe (AInline x) oy) && (negb iy || safe ox (AInline y)) && safe ox oy.

Lemma chunk_len_pos : 0 < chunk_len.
Proof. reflexivity. Qed.

Lemma repr_out_x a : repr_of (store2 a) (expand (a_x a)) (out_form (expand (a_x a)) (a_addr_x a)).
Proof.
  unfold out_form. destruct (len (expand (a_x a)) =? 0); [left; reflexivity|].
  right. exists (a_addr_x a). split; [reflexivity|]. unfold store2. rewrite beq_bytes_refl. reflexivity.
Qed.

Lemma repr_out_y a : api_wf a = true -> repr_of (store2 a) (expand (a_y a)) (out_form (expand (a_y a)) (a_addr_y a)).
Proof.
  intros W. unfold out_form. destruct (len (expand (a_y a)) =? 0); [left; reflexivity|].
  right. exists (a_addr_y a). split; [reflexivity|]. unfold store2.
  destruct (beq_bytes (a_addr_y a) (a_addr_x a)) eqn:E; [|reflexivity].
  unfold api_wf in W. apply andb_true_iff in W as [_ W]. apply eqb_prop in W.
  apply beq_bytes_spec in E. rewrite E, beq_bytes_refl in W. symmetry in W. apply beq_bytes_spec in W. exact W.
Qed.

Lemma code_eqb_refl c : (comparison_code c =? comparison_code c)%Z = true.
Proof. apply Z.eqb_refl. Qed.

Theorem api_oracle_on_model (a : api_in) :
  api_wf a = true -> api_safe a = true -> api_oracle a (api_model a) = true.
Proof.
  intros W S. pose proof (repr_out_x a) as Rx. pose proof (repr_out_y a W) as Ry.
  unfold api_safe in S. apply andb_true_iff in S as [S S3]. apply andb_true_iff in S as [S1 S2].
  unfold api_oracle, api_model. cbn [ao_read_ok ao_out ao_cmp].
  fold (out_form (expand (a_x a)) (a_addr_x a)). fold (out_form (expand (a_y a)) (a_addr_y a)).
  set (x := expand (a_x a)) in *. set (y := expand (a_y a)) in *.
  set (ox := out_form x (a_addr_x a)) in *. set (oy := out_form y (a_addr_y a)) in *.
  assert (Rix : repr_of (store2 a) x (AInline x)) by (left; reflexivity).
  assert (Riy : repr_of (store2 a) y (AInline y)) by (left; reflexivity).
  apply andb_true_iff; split; [apply andb_true_iff; split; [reflexivity|]|].
  - (* the out-of-band form decodes to (length, address) *)
    unfold ox, out_form. destruct (N.eqb_spec (len x) 0) as [E | E].
    + cbn [ad_enc ad_dec]. rewrite E. reflexivity.
    + rewrite ad_roundtrip.
      * rewrite N.eqb_refl, beq_bytes_refl. reflexivity.
      * cbn [wf_aval]. unfold api_wf in W. apply andb_true_iff in W as [W _]. apply andb_true_iff in W as [W _].
        apply N.ltb_lt in W. fold x in W. lia.
  - cbn [forallb]. rewrite andb_true_r.
    repeat (apply andb_true_iff; split).
    + destruct (inline_ok (a_target a) x && inline_ok (a_target a) y); [|reflexivity].
      cbn [compare_adaptive]. apply code_eqb_refl.
    + destruct (inline_ok (a_target a) x); [|reflexivity]. cbn [negb orb] in S1.
      rewrite (compare_adaptive_correct chunk_len fanout (store2 a) x y) by (try assumption; apply chunk_len_pos).
      apply code_eqb_refl.
    + destruct (inline_ok (a_target a) y); [|reflexivity]. cbn [negb orb] in S2.
      rewrite (compare_adaptive_correct chunk_len fanout (store2 a) x y) by (try assumption; apply chunk_len_pos).
      apply code_eqb_refl.
    + rewrite (compare_adaptive_correct chunk_len fanout (store2 a) x y) by (try assumption; apply chunk_len_pos).
      apply code_eqb_refl.
Qed.

(* --- SQL level: the model observation is the declarative spec; the oracle accepts it --- *)
Lemma row_le_total x y : row_le x y = false -> row_le y x = true.
Proof.
  unfold row_le. rewrite (bytes_compare_antisym (fst x) (fst y)).
  destruct (bytes_compare (fst x) (fst y)); cbn [CompOpp]; intros H; try discriminate H; try reflexivity.
  apply N.leb_gt in H. apply N.leb_le. lia.
Qed.

Lemma sorted_cons x l : sorted_rows (x :: l) = match l with [] => true | y :: _ => row_le x y && sorted_rows l end.
Proof. reflexivity. Qed.

Lemma insert_row_sorted x l : sorted_rows l = true -> sorted_rows (insert_row x l) = true.
Proof.
  induction l as [|y l IH]; intros H; [reflexivity|].
  cbn [insert_row]. destruct (row_le x y) eqn:E.
  - rewrite sorted_cons, E, H. reflexivity.
  - apply row_le_total in E. rewrite sorted_cons in H.
    destruct l as [|z l].
    + cbn [insert_row]. rewrite sorted_cons, E. reflexivity.
    + apply andb_true_iff in H as [H1 H2]. specialize (IH H2).
      cbn [insert_row] in IH |- *. destruct (row_le x z) eqn:E2.
      * rewrite sorted_cons, E. cbn [andb]. exact IH.
      * rewrite sorted_cons, H1. cbn [andb]. exact IH.
Qed.

Lemma sort_rows_sorted l : sorted_rows (sort_rows l) = true.
Proof. unfold sort_rows. induction l as [|x l IH]; [reflexivity|]. cbn [fold_right]. apply insert_row_sorted. exact IH. Qed.

Lemma insert_row_forall (P : bytes * N -> Prop) x l : P x -> Forall P l -> Forall P (insert_row x l).
Proof.
  intros Hx H. induction H as [|y l Hy Hl IH]; cbn [insert_row]; [constructor; [exact Hx | constructor]|].
  destruct (row_le x y); constructor; try assumption. constructor; assumption.
Qed.

Lemma sort_rows_forall (P : bytes * N -> Prop) l : Forall P l -> Forall P (sort_rows l).
Proof.
  unfold sort_rows. induction 1 as [|x l Hx Hl IH]; cbn [fold_right]; [constructor|].
  apply insert_row_forall; assumption.
Qed.

Lemma insert_row_length x l : length (insert_row x l) = S (length l).
Proof. induction l as [|y l IH]; [reflexivity|]. cbn [insert_row]. destruct (row_le x y); cbn [length]; [reflexivity | rewrite IH; reflexivity]. Qed.

Lemma sort_rows_length l : length (sort_rows l) = length l.
Proof. unfold sort_rows. induction l as [|x l IH]; [reflexivity|]. cbn [fold_right]. rewrite insert_row_length, IH. reflexivity. Qed.

Lemma combine_ids_good (vs : list bytes) : forall k,
  Forall (fun p : bytes * N => exists j, snd p = N.of_nat (k + j) /\ nth j vs [] = fst p /\ (j < length vs)%nat)
         (combine vs (map N.of_nat (seq k (length vs)))).
Proof.
  induction vs as [|v vs IH]; intros k; [constructor|].
  cbn [length seq map combine]. constructor.
  - exists 0%nat. cbn [fst snd nth length]. repeat split; [f_equal; lia | lia].
  - specialize (IH (S k)). eapply Forall_impl; [|exact IH].
    intros p [j (H1 & H2 & H3)]. exists (S j). cbn [nth length]. repeat split; [rewrite H1; f_equal; lia | exact H2 | lia].
Qed.

Lemma list_eqb_N_refl l : list_eqb N.eqb l l = true.
Proof. induction l as [|x l IH]; [reflexivity|]. cbn [list_eqb]. rewrite N.eqb_refl, IH. reflexivity. Qed.
Lemma list_eqb_bool_refl l : list_eqb Bool.eqb l l = true.
Proof. induction l as [|x l IH]; [reflexivity|]. cbn [list_eqb]. rewrite eqb_reflx, IH. reflexivity. Qed.

Theorem sql_oracle_on_model (s : sql_in) : sql_oracle s (sql_model s) = true.
Proof.
  unfold sql_oracle, sql_model.
  cbn [so_read_in so_read_out so_read_sel so_read_upd so_order_in so_order_out so_order_sel so_order_upd so_distinct_sel so_distinct_upd
       so_json_full so_distinct_in so_distinct_out so_groups_in so_groups_out so_join so_unique so_hash_same].
  set (vs := map expand (s_vals s)).
  set (L := sort_rows (combine vs (map N.of_nat (seq 1 (length vs))))).
  assert (HL : map (fun id => (nth (N.to_nat id - 1) vs [], id)) (map snd L) = L).
  { rewrite map_map. rewrite <- (map_id L) at 2. apply map_ext_in. intros p Hp.
    assert (G : Forall (fun p : bytes * N => exists j, snd p = N.of_nat (1 + j) /\ nth j vs [] = fst p /\ (j < length vs)%nat) L)
      by (apply sort_rows_forall, combine_ids_good).
    rewrite Forall_forall in G. destruct (G p Hp) as [j (H1 & H2 & _)].
    rewrite H1. replace (N.to_nat (N.of_nat (1 + j)) - 1)%nat with j by lia. rewrite H2, <- H1. destruct p; reflexivity. }
  rewrite !N.eqb_refl, list_eqb_N_refl, list_eqb_bool_refl, HL. cbn [andb].
  unfold L at 1. rewrite sort_rows_sorted. cbn [andb].
  rewrite map_length. unfold L. rewrite sort_rows_length, combine_length, map_length, seq_length, Nat.min_id.
  rewrite N.eqb_refl. reflexivity.
Qed.

(* the property holds of the model on every well-formed input outside the
   class of the known comparison finding *)
(* --- comparison as a function of the contents: antisymmetry --- *)
(* byte order (faithful model of the chunk differ), outside the finding's class *)
Theorem compare_adaptive_antisym (K F : N) (content : bytes -> bytes) (cl cr : bytes) (l r : aval) :
  0 < K -> repr_of content cl l -> repr_of content cr r ->
  cmp_safe K F cl cr l r = true -> cmp_safe K F cr cl r l = true ->
  compare_adaptive K F content r l = CompOpp (compare_adaptive K F content l r).
Proof.
  intros HK Rl Rr S1 S2.
  rewrite (compare_adaptive_correct K F content cl cr l r) by assumption.
  rewrite (compare_adaptive_correct K F content cr cl r l) by assumption.
  apply bytes_compare_antisym.
Qed.

(* collated text and JSON: the comparison of the contents (collation weights,
   JSON ordering) is an outside oracle [ord]; a comparison that is a function
   of the contents only inherits its antisymmetry and does not depend on the
   representation of either side *)
Section ContentOrder.
Variable content_of : aval -> bytes.           (* getUnderlyingBytes *)
Variable ord : bytes -> bytes -> Z.            (* the collation's / JSON's comparison of whole values *)
Hypothesis ord_antisym : forall a b, ord b a = (- ord a b)%Z.
Definition content_compare (l r : aval) : Z := ord (content_of l) (content_of r).

Theorem content_compare_antisym l r : content_compare r l = (- content_compare l r)%Z.
Proof. apply ord_antisym. Qed.

Theorem content_compare_repr_indep l l' r r' :
  content_of l = content_of l' -> content_of r = content_of r' -> content_compare l r = content_compare l' r'.
Proof. unfold content_compare. intros -> ->. reflexivity. Qed.
End ContentOrder.

Lemma all_are_cmp_row z il ir : all_are z (cmp_row z il ir) = true.
Proof. unfold all_are, cmp_row. destruct il, ir; cbn [andb forallb]; rewrite !Z.eqb_refl; reflexivity. Qed.

Theorem cmp_oracle_on_model (c : cmp_in) :
  (c_ref_yx c =? - c_ref_xy c)%Z = true -> cmp_oracle c (cmp_model c) = true.
Proof.
  intros H. unfold cmp_oracle, cmp_model. cbn [oc_xy oc_yx oc_tuple_xy oc_tuple_yx oc_sql_distinct oc_sql_first].
  rewrite H, !all_are_cmp_row, !Z.eqb_refl. cbn [andb length cmp_row Nat.eqb].
  destruct (c_sql c); [|reflexivity]. cbn [negb orb]. rewrite !N.eqb_refl. reflexivity.
Qed.

Definition wf_input (i : input) : bool :=
  match i with
  | IApi a => api_wf a && api_safe a
  | ISql _ => true
  | ICmp c => (c_ref_yx c =? - c_ref_xy c)%Z
  end.

Theorem oracle_on_model (i : input) : wf_input i = true -> oracle i (model_obs i) = true.
Proof.
  destruct i as [a | s | c]; cbn [wf_input oracle model_obs]; intros H.
  - apply andb_true_iff in H as [W S]. apply api_oracle_on_model; assumption.
  - apply sql_oracle_on_model.
  - apply cmp_oracle_on_model. exact H.
Qed.

Example wf_input_example :
  wf_input (IApi {| a_target := 2048; a_x := {| cs_n := 30%nat; cs_pat := [97]; cs_muts := [] |};
                    a_y := {| cs_n := 31%nat; cs_pat := [97]; cs_muts := [] |}; a_addr_x := [1]; a_addr_y := [2] |}) = true.
Proof. vm_compute. reflexivity. Qed.


(* ================================================================== *)
(* 8. the blob builder's level count gives a single root               *)
Lemma chunk_fuel_count (K : nat) : (0 < K)%nat -> forall f b,
  (length b <= f)%nat -> b <> [] ->
  (1 <= length (chunk_fuel f K b) /\ length (chunk_fuel f K b) * K <= length b + K - 1)%nat.
Proof.
  intros HK. induction f as [|f IH]; intros b L Hne.
  - destruct b; [congruence | cbn in L; lia].
  - cbn [chunk_fuel]. destruct b as [|x b]; [congruence|]. cbn [length].
    set (r := skipn K (x :: b)).
    assert (Lr : length r = (length (x :: b) - K)%nat) by (unfold r; apply skipn_length).
    cbn [length] in Lr, L.
    destruct r as [|y r'] eqn:R.
    + destruct f; cbn [chunk_fuel length]; cbn [length] in Lr; lia.
    + destruct (IH (y :: r')) as [I1 I2]; [cbn [length] in *; lia | discriminate|].
      rewrite Lr in I2. split; [lia|]. nia.
Qed.

Lemma group_fuel_count (F : nat) : (0 < F)%nat -> forall f ts,
  (length ts <= f)%nat -> ts <> [] ->
  (1 <= length (group_fuel f F ts) /\ length (group_fuel f F ts) * F <= length ts + F - 1)%nat.
Proof.
  intros HF. induction f as [|f IH]; intros ts L Hne.
  - destruct ts; [congruence | cbn in L; lia].
  - cbn [group_fuel]. destruct ts as [|x ts]; [congruence|]. cbn [length].
    set (r := skipn F (x :: ts)).
    assert (Lr : length r = (length (x :: ts) - F)%nat) by (unfold r; apply skipn_length).
    cbn [length] in Lr, L.
    destruct r as [|y r'] eqn:R.
    + destruct f; cbn [group_fuel length]; cbn [length] in Lr; lia.
    + destruct (IH (y :: r')) as [I1 I2]; [cbn [length] in *; lia | discriminate|].
      rewrite Lr in I2. split; [lia|]. nia.
Qed.

Lemma levels_count (F : nat) : (0 < F)%nat -> forall h ts, ts <> [] ->
  (1 <= length (levels h F ts) /\ length (levels h F ts) * F ^ h <= length ts + F ^ h - 1)%nat.
Proof.
  intros HF. induction h as [|h IH]; intros ts Hne.
  - cbn [levels Nat.pow]. destruct ts; [congruence | cbn [length]; lia].
  - cbn [levels].
    destruct (group_fuel_count F HF (length ts) ts (le_n _) Hne) as [G1 G2].
    fold (group F ts) in G1, G2.
    assert (Gne : group F ts <> []) by (destruct (group F ts); [cbn in G1; lia | discriminate]).
    destruct (IH (group F ts) Gne) as [I1 I2]. split; [exact I1|].
    assert (P : (0 < F ^ h)%nat) by (apply Nat.neq_0_lt_0, Nat.pow_nonzero; lia).
    cbn [Nat.pow]. nia.
Qed.

Lemma top_level_fuel_bound (F : N) : 1 < F -> forall fuel d,
  d < F ^ N.of_nat fuel -> d < F ^ top_level_fuel fuel F d.
Proof.
  intros HF. induction fuel as [|fuel IH]; intros d Hd.
  - cbn [top_level_fuel]. exact Hd.
  - cbn [top_level_fuel]. destruct (N.ltb_spec 0 d) as [Hp | Hz]; [|rewrite N.pow_0_r; lia].
    rewrite Nat2N.inj_succ, N.pow_succ_r' in Hd.
    assert (Hq : d / F < F ^ N.of_nat fuel) by (apply N.div_lt_upper_bound; lia).
    specialize (IH _ Hq). rewrite N.add_1_l, N.pow_succ_r'.
    pose proof (N.div_mod d F ltac:(lia)) as E. pose proof (N.mod_lt d F ltac:(lia)) as R.
    set (q := d / F) in *. set (X := F ^ top_level_fuel fuel F q) in *. clearbody X. nia.
Qed.

Theorem blob_forest_single_root (K F : N) (b : bytes) :
  0 < K -> 1 < F -> b <> [] -> len b < 2 ^ 64 -> length (blob_forest K F b) = 1%nat.
Proof.
  intros HK HF Hne H64. unfold blob_forest.
  assert (HKn : (0 < N.to_nat K)%nat) by lia. assert (HFn : (0 < N.to_nat F)%nat) by lia.
  destruct (chunk_fuel_count (N.to_nat K) HKn (length b) b (le_n _) Hne) as [C1 C2].
  fold (chunks (N.to_nat K) b) in C1, C2.
  set (lv := map TLeaf (chunks (N.to_nat K) b)).
  assert (Ll : length lv = length (chunks (N.to_nat K) b)) by (unfold lv; apply map_length).
  assert (Lne : lv <> []) by (destruct lv; [cbn in Ll; lia | discriminate]).
  set (h := N.to_nat (top_level K F (len b))).
  destruct (levels_count (N.to_nat F) HFn h lv Lne) as [V1 V2].
  enough (HL : (length lv <= N.to_nat F ^ h)%nat) by nia.
  rewrite Ll. unfold h, top_level.
  destruct (N.leb_spec (len b) K) as [Hs | Hb].
  - cbn [N.to_nat Nat.pow]. unfold len in Hs. nia.
  - set (d := len b / K).
    assert (Hd : d < F ^ top_level_fuel 64 F d).
    { apply top_level_fuel_bound; [exact HF|]. change (N.of_nat 64) with 64.
      assert (d <= len b) by (apply N.div_le_upper_bound; nia).
      assert (2 ^ 64 <= F ^ 64) by (apply N.pow_le_mono_l; lia). lia. }
    (* number of leaves <= d + 1 <= F^h *)
    assert (Hc : N.of_nat (length (chunks (N.to_nat K) b)) <= d + 1).
    { pose proof (N.div_mod (len b) K ltac:(lia)) as E. pose proof (N.mod_lt (len b) K ltac:(lia)) as R.
      fold d in E. unfold len in *. set (L := length (chunks (N.to_nat K) b)) in *. clearbody L. nia. }
    set (t := top_level_fuel 64 F d) in *.
    assert (Hp : N.of_nat (N.to_nat F ^ N.to_nat t) = F ^ t).
    { rewrite Nat2N.inj_pow, !N2Nat.id. reflexivity. }
    lia.
Qed.
