(* C16 — proofs. *)
From Coq Require Import NArith ZArith List Bool Lia ZifyN ZifyBool.
From Dolt Require Import Base.Str Gen.C15Consts C15.Model C15.Proofs C16.Model.
Import ListNotations.
Local Open Scope N_scope.
Ltac Zify.zify_post_hook ::= Z.div_mod_to_equations.

(* 1. SQLite4 varint: vi_roundtrip, vi_first_byte_nonzero, vi_enc_nonempty are proved in C15.Proofs
   (the tuple builder's oracle theorem needs them). *)

(* ------------------------------------------------------------------ *)
(* 2. adaptive representations round-trip                              *)
Definition wf_aval (v : aval) : Prop :=
  match v with
  | AOut n addr => 0 < n < 2 ^ 64
  | _ => True
  end.

Theorem ad_roundtrip (v : aval) : wf_aval v -> ad_dec (ad_enc v) = v.
Proof.
  destruct v as [| c | n addr]; intros H; [reflexivity | reflexivity |].
  cbn [wf_aval] in H. destruct H as [Hpos Hlt].
  pose proof (vi_first_byte_nonzero n Hpos) as Hnz.
  pose proof (vi_roundtrip n addr Hlt) as Hrt.
  cbn [ad_enc].
  destruct (vi_enc n) as [|h t] eqn:E; [exfalso; apply (vi_enc_nonempty n); exact E|].
  cbn [hd] in Hnz.
  change ((h :: t) ++ addr) with (h :: (t ++ addr)) in *.
  unfold ad_dec.
  destruct (N.eqb_spec h 0) as [E0 | _]; [contradiction|].
  rewrite Hrt. unfold len. rewrite Nat2N.id.
  change (h :: t ++ addr) with ((h :: t) ++ addr). rewrite skipn_app, skipn_all, Nat.sub_diag. reflexivity.
Qed.

(* ------------------------------------------------------------------ *)
(* 3. reading a blob back = concatenating its leaves = the input        *)
Theorem blob_roundtrip (sizes : list nat) (b : bytes) : concat (split_by sizes b) = b.
Proof.
  revert b; induction sizes as [|n r IH]; intros b; cbn [split_by concat].
  - apply app_nil_r.
  - rewrite IH. apply firstn_skipn.
Qed.

Lemma chunk_fuel_concat fuel K b : (0 < K)%nat -> (length b <= fuel)%nat -> concat (chunk_fuel fuel K b) = b.
Proof.
  intros HK. revert b; induction fuel as [|f IH]; intros b Hl.
  - destruct b; [reflexivity | cbn in Hl; lia].
  - cbn [chunk_fuel]. destruct b as [|x b]; [reflexivity|].
    cbn [concat]. rewrite IH; [apply firstn_skipn|].
    rewrite skipn_length. cbn [length] in *. lia.
Qed.

Theorem chunks_concat (K : nat) (b : bytes) : (0 < K)%nat -> concat (chunks K b) = b.
Proof. intros HK. apply chunk_fuel_concat; [exact HK | lia]. Qed.

Lemma tree_bytes_node cs : tree_bytes (TNode cs) = forest_bytes cs.
Proof.
  unfold forest_bytes. cbn [tree_bytes].
  induction cs as [|c r IH]; [reflexivity|]. cbn [map concat]. rewrite <- IH. reflexivity.
Qed.

Lemma forest_bytes_app a b : forest_bytes (a ++ b) = forest_bytes a ++ forest_bytes b.
Proof. unfold forest_bytes. rewrite map_app, concat_app. reflexivity. Qed.

Lemma group_fuel_bytes fuel F ts : (0 < F)%nat -> (length ts <= fuel)%nat -> forest_bytes (group_fuel fuel F ts) = forest_bytes ts.
Proof.
  intros HF. revert ts; induction fuel as [|f IH]; intros ts Hl.
  - destruct ts; [reflexivity | cbn in Hl; lia].
  - cbn [group_fuel]. destruct ts as [|t ts]; [reflexivity|].
    change (forest_bytes (TNode (firstn F (t :: ts)) :: group_fuel f F (skipn F (t :: ts))))
      with (tree_bytes (TNode (firstn F (t :: ts))) ++ forest_bytes (group_fuel f F (skipn F (t :: ts)))).
    rewrite tree_bytes_node, IH.
    + rewrite <- forest_bytes_app, firstn_skipn. reflexivity.
    + rewrite skipn_length. cbn [length] in *. lia.
Qed.

Lemma levels_bytes h F ts : (0 < F)%nat -> forest_bytes (levels h F ts) = forest_bytes ts.
Proof.
  intros HF. revert ts; induction h as [|h IH]; intros ts; [reflexivity|].
  cbn [levels]. rewrite IH. apply group_fuel_bytes; [exact HF | lia].
Qed.

(* every byte string, whatever the chunk size, fan-out and number of levels *)
Theorem blob_tree_roundtrip (K F : N) (b : bytes) : 0 < K -> 0 < F -> forest_bytes (blob_forest K F b) = b.
Proof.
  intros HK HF. unfold blob_forest. rewrite levels_bytes by lia.
  unfold forest_bytes. rewrite map_map. cbn [tree_bytes]. rewrite map_id.
  apply chunks_concat. lia.
Qed.

(* ------------------------------------------------------------------ *)
(* 4. comparison of adaptive values                                    *)
Section Compare.
Variable K F : N.
Variable content : bytes -> bytes.

(* v stands for the byte string c *)
Definition repr_of (c : bytes) (v : aval) : Prop :=
  v = AInline c \/ exists addr, v = AOut (len c) addr /\ content addr = c.

Lemma chunks_single (c : bytes) : c <> [] -> len c <= K -> chunks (N.to_nat K) c = [c].
Proof.
  intros Hne Hl. unfold chunks. destruct c as [|x c]; [congruence|].
  cbn [length chunk_fuel]. unfold len in Hl.
  rewrite firstn_all2 by lia. rewrite skipn_all2 by lia.
  destruct (length c); reflexivity.
Qed.

Lemma first_chunk_side c v : len c <= K -> 0 < K -> repr_of c v -> first_chunk (side_of K F content v) = c.
Proof.
  intros Hl HK [-> | [addr [-> Hc]]]; [reflexivity|].
  cbn [side_of first_chunk]. rewrite Hc.
  destruct c as [|x c]; [reflexivity|]. rewrite chunks_single; [reflexivity | discriminate | exact Hl].
Qed.

Lemma top_level_small c : len c <= K -> top_level K F (len c) = 0.
Proof. intros H. unfold top_level. apply N.leb_le in H. rewrite H. reflexivity. Qed.

(* values that fit one chunk (this covers every value that can be stored
   inline at all under a length target <= chunk size): the result is the
   byte order of the contents, whichever representation either side uses *)
Theorem compare_adaptive_small (cl cr : bytes) (l r : aval) :
  0 < K -> len cl <= K -> len cr <= K -> repr_of cl l -> repr_of cr r ->
  compare_adaptive K F content l r = bytes_compare cl cr.
Proof.
  intros HK Hl Hr Rl Rr.
  pose proof (first_chunk_side cl l Hl HK Rl) as Fl.
  pose proof (first_chunk_side cr r Hr HK Rr) as Fr.
  destruct Rl as [-> | [al [-> Cl]]]; destruct Rr as [-> | [ar [-> Cr]]].
  - reflexivity.
  - cbn [compare_adaptive]. rewrite Fr. reflexivity.
  - cbn [compare_adaptive]. rewrite Fl. reflexivity.
  - cbn [compare_adaptive].
    destruct (beq_bytes al ar) eqn:E.
    + apply beq_bytes_spec in E. subst ar. rewrite Cl in Cr. subst cr. symmetry. apply bytes_compare_eq. reflexivity.
    + cbn [side_of first_chunk] in Fl, Fr. rewrite Cl in Fl. rewrite Cr in Fr.
      cbn [side_of]. rewrite Cl, Cr, !top_level_small by assumption.
      change ((0 =? 0) && (0 <? 0)) with false. cbv iota. rewrite Fl, Fr. reflexivity.
Qed.

Corollary compare_adaptive_repr_indep (cl cr : bytes) (l l' r r' : aval) :
  0 < K -> len cl <= K -> len cr <= K ->
  repr_of cl l -> repr_of cl l' -> repr_of cr r -> repr_of cr r' ->
  compare_adaptive K F content l r = compare_adaptive K F content l' r'.
Proof. intros. rewrite !(compare_adaptive_small cl cr) by assumption. reflexivity. Qed.
End Compare.

(* Full statement — for all contents, compare_adaptive l r = bytes_compare cl cr —
   is FALSE of the differ as written: when the two trees have different heights
   (or one root is a leaf) only the first leaf of each side is compared.
   Witness with the real chunk size and fan-out: 4000 x 'a' against 4001 x 'a'. *)
Definition w_a1 : bytes := [1].
Definition w_a2 : bytes := [2].
Definition w_content (addr : bytes) : bytes := if beq_bytes addr w_a1 then repeat 97 4000 else repeat 97 4001.

Theorem compare_adaptive_order_refuted :
  exists (content : bytes -> bytes) (l r : aval) (cl cr : bytes),
    repr_of content cl l /\ repr_of content cr r /\ cl <> cr
    /\ compare_adaptive c_blob_chunk_length (c_blob_chunk_length / c_hash_byte_len) content l r = Eq.
Proof.
  exists w_content, (AOut 4000 w_a1), (AOut 4001 w_a2), (repeat 97 4000), (repeat 97 4001).
  split; [right; exists w_a1; split; reflexivity|].
  split; [right; exists w_a2; split; reflexivity|].
  split.
  - intros E. apply (f_equal (@length N)) in E. rewrite !repeat_length in E. discriminate E.
  - vm_compute. reflexivity.
Qed.
