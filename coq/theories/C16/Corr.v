(* C16 — correspondence and oracle. *)
From Coq Require Import NArith ZArith List Bool.
From Dolt Require Import Base.Str Gen.C15Consts C15.Model C15.Spec C16.Model C16.Spec.
Import ListNotations.
Local Open Scope N_scope.

(* a byte string given by a short recipe (keeps case terms small): the pattern
   repeated up to n bytes, then single bytes overwritten *)
Record cspec := { cs_n : nat; cs_pat : bytes; cs_muts : list (nat * N) }.

Fixpoint cycle (fuel : nat) (pat cur : bytes) : bytes :=
  match fuel with
  | O => []
  | S f => match cur with
           | [] => match pat with [] => 0 :: cycle f pat [] | x :: r => x :: cycle f pat r end
           | x :: r => x :: cycle f pat r
           end
  end.
Fixpoint set_nth (i : nat) (v : N) (l : bytes) : bytes :=
  match l, i with
  | [], _ => []
  | _ :: r, O => v :: r
  | x :: r, S i' => x :: set_nth i' v r
  end.
Definition expand (c : cspec) : bytes :=
  fold_left (fun acc m => set_nth (fst m) (snd m) acc) (cs_muts c) (cycle (cs_n c) (cs_pat c) []).

Definition chunk_len : N := c_blob_chunk_length.
Definition fanout : N := c_blob_chunk_length / c_hash_byte_len.

(* ---------------- store-level case ---------------- *)
Record api_in := { a_target : N; a_x : cspec; a_y : cspec; a_addr_x : bytes; a_addr_y : bytes }.
Record api_obs := {
  ao_read_ok : bool;            (* ReadBytes(WriteBytes x) = x and same for y *)
  ao_height : N;                (* level of x's root node (0 when x is empty: no tree) *)
  ao_leaves : N;                (* number of leaves of x's tree *)
  ao_last_leaf : N;             (* size of the last leaf *)
  ao_out : bytes;               (* out-of-band adaptive value for x *)
  ao_built : bytes;             (* field bytes TupleBuilder stores for x alone in a row: inline or out of band *)
  ao_cmp : list (option Z)      (* CompareAdaptive for (inline|out) x (inline|out): ii, io, oi, oo; None = x or y cannot be inline *)
}.

(* ---------------- SQL-level case ---------------- *)
Record sql_in := { s_kind : N; s_vals : list cspec; s_prefix : nat }.
Record sql_obs := {
  so_read_in : bool; so_read_out : bool;        (* every value reads back from both tables *)
  so_read_sel : bool; so_read_upd : bool;       (* … from a table filled by INSERT..SELECT from tout, and from one filled by UPDATE *)
  so_order_in : list N; so_order_out : list N;  (* SELECT id ... ORDER BY v, id *)
  so_order_sel : list N; so_order_upd : list N;
  so_distinct_sel : N; so_distinct_upd : N;
  so_json_full : bool;                          (* JSON columns: the whole documents render identically from all four tables and as CAST(literal AS JSON) *)
  so_distinct_in : N; so_distinct_out : N;      (* SELECT DISTINCT v *)
  so_groups_in : N; so_groups_out : N;          (* GROUP BY v *)
  so_join : N;                                  (* pairs (a in tin, b in tout) with a.v = b.v *)
  so_unique : list bool;                        (* unique key on a prefix: accepted? per value *)
  so_hash_same : bool                           (* same table hash: literal / INSERT..SELECT / UPDATE..CONCAT *)
}.

(* ---------------- collated-text / JSON comparison case ----------------
   The comparison of two adaptive values under a collation (or as JSON
   documents) must be a function of the contents only.  The order of the
   contents themselves (go-mysql-server's collation / JSON comparator applied to
   the whole values) is an outside oracle, reported by the harness. *)
Record cmp_in := {
  c_kind : N;                 (* 0 collated text (non-binary collation), 1 collated text (_bin), 2 JSON *)
  c_inline_x : bool;          (* x / y can be inline under the case's length target *)
  c_inline_y : bool;
  c_ref_xy : Z;               (* reference comparator on the full values: x vs y, y vs x *)
  c_ref_yx : Z;
  c_sql : bool                (* the case was also run through SQL *)
}.
Record cmp_obs := {
  oc_xy : list (option Z);    (* compare(x, y) for (inline|out) x (inline|out): ii, io, oi, oo *)
  oc_yx : list (option Z);    (* compare(y, x), same layout (first letter = representation of y) *)
  oc_tuple_xy : Z;            (* TupleDesc.Compare on tuples holding x and y (as the builder stores them) *)
  oc_tuple_yx : Z;
  oc_sql_distinct : N;        (* SELECT DISTINCT over {x inline-table, y out-of-band-table}: number of values *)
  oc_sql_first : N            (* id of the first row of ORDER BY v, id (x has id 1, y has id 2) *)
}.

Inductive input := IApi (a : api_in) | ISql (s : sql_in) | ICmp (c : cmp_in).
Inductive obs := OApi (o : api_obs) | OSql (o : sql_obs) | OCmp (o : cmp_obs) | OBad.
Definition case := (input * obs)%type.

Definition store2 (a : api_in) (addr : bytes) : bytes :=
  if beq_bytes addr (a_addr_x a) then expand (a_x a) else expand (a_y a).

Definition inline_ok (target : N) (c : bytes) : bool := len c + 1 <=? target.

Definition api_model (a : api_in) : api_obs :=
  let x := expand (a_x a) in
  let y := expand (a_y a) in
  let lx := chunks (N.to_nat chunk_len) x in
  (* an empty value has no out-of-band form (its length header would be the inline marker 0):
     the harness uses the inline form in its place *)
  let ox := if len x =? 0 then AInline x else AOut (len x) (a_addr_x a) in
  let oy := if len y =? 0 then AInline y else AOut (len y) (a_addr_y a) in
  let cmp l r := Some (comparison_code (compare_adaptive chunk_len fanout (store2 a) l r)) in
  let ix := inline_ok (a_target a) x in
  let iy := inline_ok (a_target a) y in
  {| ao_read_ok := true;
     ao_height := top_level chunk_len fanout (len x);
     ao_leaves := N.of_nat (length lx);
     ao_last_leaf := len (last lx []);
     ao_out := ad_enc ox;
     ao_built := ad_enc (stored_form (a_target a) 0 x (a_addr_x a));
     ao_cmp := [ if ix && iy then cmp (AInline x) (AInline y) else None;
                 if ix then cmp (AInline x) oy else None;
                 if iy then cmp ox (AInline y) else None;
                 cmp ox oy ] |}.

Definition sql_model (s : sql_in) : sql_obs :=
  let vs := map expand (s_vals s) in
  let ids := map N.of_nat (seq 1 (length vs)) in
  let order := map snd (sort_rows (combine vs ids)) in
  {| so_read_in := true; so_read_out := true; so_read_sel := true; so_read_upd := true;
     so_order_in := order; so_order_out := order; so_order_sel := order; so_order_upd := order;
     so_distinct_sel := distinct_count vs; so_distinct_upd := distinct_count vs;
     so_json_full := true;
     so_distinct_in := distinct_count vs; so_distinct_out := distinct_count vs;
     so_groups_in := distinct_count vs; so_groups_out := distinct_count vs;
     so_join := equal_pairs vs;
     so_unique := if s_kind s =? 2 then [] else unique_accepts (s_prefix s) [] vs;   (* no prefix key on JSON *)
     so_hash_same := true |}.

(* comparison as a function of the contents only: every representation pair gives the reference answer *)
Definition cmp_row (ref : Z) (il ir : bool) : list (option Z) :=
  [ if il && ir then Some ref else None; if il then Some ref else None; if ir then Some ref else None; Some ref ].

Definition cmp_model (c : cmp_in) : cmp_obs :=
  {| oc_xy := cmp_row (c_ref_xy c) (c_inline_x c) (c_inline_y c);
     oc_yx := cmp_row (c_ref_yx c) (c_inline_y c) (c_inline_x c);
     oc_tuple_xy := c_ref_xy c; oc_tuple_yx := c_ref_yx c;
     oc_sql_distinct := if c_sql c then (if (c_ref_xy c =? 0)%Z then 1 else 2) else 0;
     oc_sql_first := if c_sql c then (if (c_ref_xy c <=? 0)%Z then 1 else 2) else 0 |}.

Definition model_obs (i : input) : obs :=
  match i with IApi a => OApi (api_model a) | ISql s => OSql (sql_model s) | ICmp c => OCmp (cmp_model c) end.

Definition oz_eqb (a b : option Z) : bool :=
  match a, b with None, None => true | Some x, Some y => (x =? y)%Z | _, _ => false end.
Fixpoint list_eqb {A} (eqb : A -> A -> bool) (a b : list A) : bool :=
  match a, b with
  | [], [] => true
  | x :: a', y :: b' => eqb x y && list_eqb eqb a' b'
  | _, _ => false
  end.

Definition api_eqb (a b : api_obs) : bool :=
  Bool.eqb (ao_read_ok a) (ao_read_ok b) && (ao_height a =? ao_height b) && (ao_leaves a =? ao_leaves b)
  && (ao_last_leaf a =? ao_last_leaf b) && beq_bytes (ao_out a) (ao_out b) && beq_bytes (ao_built a) (ao_built b)
  && list_eqb oz_eqb (ao_cmp a) (ao_cmp b).

Definition sql_eqb (a b : sql_obs) : bool :=
  Bool.eqb (so_read_in a) (so_read_in b) && Bool.eqb (so_read_out a) (so_read_out b)
  && Bool.eqb (so_read_sel a) (so_read_sel b) && Bool.eqb (so_read_upd a) (so_read_upd b)
  && list_eqb N.eqb (so_order_in a) (so_order_in b) && list_eqb N.eqb (so_order_out a) (so_order_out b)
  && list_eqb N.eqb (so_order_sel a) (so_order_sel b) && list_eqb N.eqb (so_order_upd a) (so_order_upd b)
  && (so_distinct_sel a =? so_distinct_sel b) && (so_distinct_upd a =? so_distinct_upd b)
  && Bool.eqb (so_json_full a) (so_json_full b)
  && (so_distinct_in a =? so_distinct_in b) && (so_distinct_out a =? so_distinct_out b)
  && (so_groups_in a =? so_groups_in b) && (so_groups_out a =? so_groups_out b)
  && (so_join a =? so_join b) && list_eqb Bool.eqb (so_unique a) (so_unique b)
  && Bool.eqb (so_hash_same a) (so_hash_same b).

Definition cmp_eqb (a b : cmp_obs) : bool :=
  list_eqb oz_eqb (oc_xy a) (oc_xy b) && list_eqb oz_eqb (oc_yx a) (oc_yx b)
  && (oc_tuple_xy a =? oc_tuple_xy b)%Z && (oc_tuple_yx a =? oc_tuple_yx b)%Z
  && (oc_sql_distinct a =? oc_sql_distinct b) && (oc_sql_first a =? oc_sql_first b).

Definition obs_eqb (a b : obs) : bool :=
  match a, b with
  | OApi x, OApi y => api_eqb x y
  | OSql x, OSql y => sql_eqb x y
  | OCmp x, OCmp y => cmp_eqb x y
  | _, _ => false
  end.

(* --- the property on what the implementation returned ---
   store level: the value reads back; its out-of-band form decodes to (length,
   address); every comparison between any two representations of x and y is
   the byte order of x and y.
   SQL level: both tables return every value; ORDER BY gives the same order in
   both tables and it is the (content, id) order; DISTINCT / GROUP BY find the
   number of distinct contents in both; the equality join across the tables
   finds exactly the equal pairs; the unique key accepts exactly the values with
   a new prefix; the table hash does not depend on how the value was produced. *)
Definition api_oracle (a : api_in) (o : api_obs) : bool :=
  let x := expand (a_x a) in
  let y := expand (a_y a) in
  let want := comparison_code (bytes_compare x y) in
  ao_read_ok o
  && match ad_dec (ao_out o) with
     | AOut n addr => (n =? len x) && beq_bytes addr (a_addr_x a)
     | AInline c => (len x =? 0)        (* length 0 has no out-of-band form *)
     | ANull => false
     end
  && forallb (fun c => match c with None => true | Some z => (z =? want)%Z end) (ao_cmp o).

Definition sql_oracle (s : sql_in) (o : sql_obs) : bool :=
  let vs := map expand (s_vals s) in
  let ids := map N.of_nat (seq 1 (length vs)) in
  let lookup id := nth (N.to_nat id - 1) vs [] in
  so_read_in o && so_read_out o && so_read_sel o && so_read_upd o && so_json_full o
  && list_eqb N.eqb (so_order_in o) (so_order_out o)
  && list_eqb N.eqb (so_order_in o) (so_order_sel o) && list_eqb N.eqb (so_order_in o) (so_order_upd o)
  && (so_distinct_sel o =? distinct_count vs) && (so_distinct_upd o =? distinct_count vs)
  && sorted_rows (map (fun id => (lookup id, id)) (so_order_in o))
  && (N.of_nat (length (so_order_in o)) =? N.of_nat (length vs))
  && (so_distinct_in o =? distinct_count vs) && (so_distinct_out o =? distinct_count vs)
  && (so_groups_in o =? distinct_count vs) && (so_groups_out o =? distinct_count vs)
  && (so_join o =? equal_pairs vs)
  && list_eqb Bool.eqb (so_unique o) (if s_kind s =? 2 then [] else unique_accepts (s_prefix s) [] vs)
  && so_hash_same o.

(* collated / JSON comparison: every answer, whatever the representations and
   the operand order, is the order of the contents (so: representation
   independent and antisymmetric); the tuple comparator and SQL DISTINCT /
   ORDER BY agree with it *)
Definition all_are (z : Z) (l : list (option Z)) : bool :=
  forallb (fun c => match c with None => true | Some x => (x =? z)%Z end) l.

Definition cmp_oracle (c : cmp_in) (o : cmp_obs) : bool :=
  (c_ref_yx c =? - c_ref_xy c)%Z                         (* the reference itself is antisymmetric *)
  && all_are (c_ref_xy c) (oc_xy o) && all_are (c_ref_yx c) (oc_yx o)
  && Nat.eqb (length (oc_xy o)) 4 && Nat.eqb (length (oc_yx o)) 4
  && (oc_tuple_xy o =? c_ref_xy c)%Z && (oc_tuple_yx o =? c_ref_yx c)%Z
  && (negb (c_sql c)
      || ((oc_sql_distinct o =? (if (c_ref_xy c =? 0)%Z then 1 else 2))
          && (oc_sql_first o =? (if (c_ref_xy c <=? 0)%Z then 1 else 2)))).

Definition oracle (i : input) (o : obs) : bool :=
  match i, o with
  | IApi a, OApi x => api_oracle a x
  | ISql s, OSql x => sql_oracle s x
  | ICmp c, OCmp x => cmp_oracle c x
  | _, _ => false
  end.

Definition check_case (c : case) : N :=
  (if obs_eqb (model_obs (fst c)) (snd c) then 0 else 1)
  + (if oracle (fst c) (snd c) then 0 else 2).
