(* C16 — the property, stated on contents: a stored TEXT/BLOB value reads back
   as the bytes written; comparison, order, DISTINCT/GROUP BY and equality
   joins depend on the contents only, never on the representation. *)
From Coq Require Import NArith ZArith List Bool.
From Dolt Require Import Base.Str C15.Model C15.Spec C16.Model.
Import ListNotations.
Local Open Scope N_scope.

(* (content, id) order used by ORDER BY v, id *)
Definition row_le (a b : bytes * N) : bool :=
  match bytes_compare (fst a) (fst b) with
  | Lt => true
  | Gt => false
  | Eq => snd a <=? snd b
  end.

Fixpoint sorted_rows (l : list (bytes * N)) : bool :=
  match l with
  | [] => true
  | x :: r => match r with [] => true | y :: _ => row_le x y && sorted_rows r end
  end.

Fixpoint insert_row (x : bytes * N) (l : list (bytes * N)) : list (bytes * N) :=
  match l with
  | [] => [x]
  | y :: r => if row_le x y then x :: l else y :: insert_row x r
  end.
Definition sort_rows (l : list (bytes * N)) : list (bytes * N) := fold_right insert_row [] l.

Fixpoint dedup (l : list bytes) : list bytes :=
  match l with
  | [] => []
  | x :: r => if existsb (beq_bytes x) r then dedup r else x :: dedup r
  end.
Definition distinct_count (l : list bytes) : N := N.of_nat (length (dedup l)).

Definition equal_pairs (l : list bytes) : N :=
  N.of_nat (length (filter (fun p => beq_bytes (fst p) (snd p)) (list_prod l l))).

(* unique key on the first [p] bytes: a value is accepted iff no accepted value has the same prefix *)
Fixpoint unique_accepts (p : nat) (seen : list bytes) (l : list bytes) : list bool :=
  match l with
  | [] => []
  | x :: r => let k := firstn p x in
              if existsb (beq_bytes k) seen then false :: unique_accepts p seen r
              else true :: unique_accepts p (k :: seen) r
  end.
