(* C16 — adaptive values (inline vs out-of-band), the blob tree behind an
   out-of-band value and the comparison of adaptive values.
   go/store/val/adaptive_value.go, go/store/prolly/tree/blob_builder.go,
   node_store.go (ReadBytes, CompareAdaptive), blob_chunk_differ.go.
   The SQLite4 varint [vi_enc]/[vi_dec] and [bytes_compare] are in C15.Model.
   No proofs in this file. *)
From Coq Require Import NArith ZArith List Bool.
From Dolt Require Import Base.Str C15.Model.
Import ListNotations.
Local Open Scope N_scope.

(* ------------------------------------------------------------------ *)
(* 1. Representations (adaptive_value.go)                               *)
Inductive aval :=
| ANull
| AInline (content : bytes)              (* 0 :: content *)
| AOut (n : N) (addr : bytes).           (* varint n ++ 20-byte address *)

Definition ad_enc (v : aval) : bytes :=
  match v with
  | ANull => []
  | AInline c => 0 :: c
  | AOut n addr => vi_enc n ++ addr
  end.

(* IsNull / isInlined / IsOutOfBand + uvarint.Uvarint *)
Definition ad_dec (b : bytes) : aval :=
  match b with
  | [] => ANull
  | h :: c => if h =? 0 then AInline c
              else let '(n, used) := vi_dec b in AOut n (skipn (N.to_nat used) b)
  end.

(* ------------------------------------------------------------------ *)
(* 2. Blob tree (blob_builder.go).  K = chunk size, F = addresses per    *)
(*    internal node (K / 20).                                          *)
Fixpoint chunk_fuel (fuel : nat) (K : nat) (b : bytes) : list bytes :=
  match fuel with
  | O => []
  | S f => match b with
           | [] => []
           | _ => firstn K b :: chunk_fuel f K (skipn K b)
           end
  end.
(* the leaves written by blobLeafWriter: K bytes each, the last one shorter *)
Definition chunks (K : nat) (b : bytes) : list bytes := chunk_fuel (length b) K b.

(* any way of cutting a byte string into consecutive pieces *)
Fixpoint split_by (sizes : list nat) (b : bytes) : list bytes :=
  match sizes with
  | [] => [b]
  | n :: r => firstn n b :: split_by r (skipn n b)
  end.

Inductive tree :=
| TLeaf (b : bytes)
| TNode (children : list tree).

(* nodeStore.ReadBytes: WalkNodes appends every leaf value in order *)
Fixpoint tree_bytes (t : tree) : bytes :=
  match t with
  | TLeaf b => b
  | TNode cs => (fix go (l : list tree) : bytes :=
                   match l with [] => [] | c :: r => tree_bytes c ++ go r end) cs
  end.
Definition forest_bytes (ts : list tree) : bytes := concat (map tree_bytes ts).

(* blobLevelWriter: consecutive groups of F children become one node *)
Fixpoint group_fuel (fuel : nat) (F : nat) (ts : list tree) : list tree :=
  match fuel with
  | O => []
  | S f => match ts with
           | [] => []
           | _ => TNode (firstn F ts) :: group_fuel f F (skipn F ts)
           end
  end.
Definition group (F : nat) (ts : list tree) : list tree := group_fuel (length ts) F ts.

Fixpoint levels (h : nat) (F : nat) (ts : list tree) : list tree :=
  match h with
  | O => ts
  | S h' => levels h' F (group F ts)
  end.

(* BlobBuilder.Init: topLevel *)
Fixpoint top_level_fuel (fuel : nat) (F d : N) : N :=
  match fuel with
  | O => 0
  | S f => if 0 <? d then 1 + top_level_fuel f F (d / F) else 0
  end.
Definition top_level (K F n : N) : N :=
  if n <=? K then 0 else top_level_fuel 64 F (n / K).

Definition blob_forest (K F : N) (b : bytes) : list tree :=
  levels (N.to_nat (top_level K F (len b))) (N.to_nat F) (map TLeaf (chunks (N.to_nat K) b)).

(* ------------------------------------------------------------------ *)
(* 3. CompareAdaptive for byte/text encodings (node_store.go +           *)
(*    blob_chunk_differ.go).  [content] is the value store: address ->   *)
(*    bytes; out-of-band values were written by the blob builder, so the *)
(*    tree behind an address is blob_forest of its content.             *)
Section Compare.
Variable K F : N.
Variable content : bytes -> bytes.

Inductive side :=
| SInline (c : bytes)                    (* inline or NULL payload: yielded once, whole *)
| STree (h : N) (leaves : list bytes).   (* out of band: tree height and leaf chunks *)

Definition side_of (v : aval) : side :=
  match v with
  | ANull => SInline []
  | AInline c => SInline c
  | AOut _ addr => let c := content addr in STree (top_level K F (len c)) (chunks (N.to_nat K) c)
  end.

Definition first_chunk (s : side) : bytes :=
  match s with
  | SInline c => c
  | STree _ l => hd [] l
  end.

(* aligned descent over two trees of the same height: skip identical
   subtrees, stop at the first pair of leaves that differ; a side that runs
   out yields nil *)
Fixpoint first_diff (l r : list bytes) : comparison :=
  match l, r with
  | [], [] => Eq                                   (* io.EOF *)
  | [], y :: _ => bytes_compare [] y
  | x :: _, [] => bytes_compare x []
  | x :: l', y :: r' => if beq_bytes x y then first_diff l' r' else bytes_compare x y
  end.

Definition compare_adaptive (l r : aval) : comparison :=
  match l, r with
  | AInline a, AInline b => bytes_compare a b      (* both inline: compare payloads *)
  | ANull, AInline b => bytes_compare [] b
  | AInline a, ANull => bytes_compare a []
  | ANull, ANull => Eq
  | _, _ =>
    match l, r with
    | AOut _ a1, AOut _ a2 =>
      if beq_bytes a1 a2 then Eq                   (* identical root addresses *)
      else
        match side_of l, side_of r with
        | STree h1 l1, STree h2 l2 =>
          if (h1 =? h2) && (0 <? h1) then first_diff l1 l2
          else bytes_compare (hd [] l1) (hd [] l2)  (* a leaf root or different levels: diverged at once *)
        | s1, s2 => bytes_compare (first_chunk s1) (first_chunk s2)
        end
    | _, _ => bytes_compare (first_chunk (side_of l)) (first_chunk (side_of r))
    end
  end.
End Compare.

(* which representation TupleBuilder picks for a value standing alone in a
   row whose other columns take [others] bytes (tuple_builder.go): out of band
   iff the all-inline size exceeds the target and moving it saves space *)
Definition stored_form (target others : N) (c : bytes) (addr : bytes) : aval :=
  if (target <? others + len c + 1) && (len (vi_enc (len c)) + 20 <? len c + 1)
  then AOut (len c) addr else AInline c.
