(* C34 — working-set machine: stash, reset, checkout.  No proofs in this file.

   A root value is the pair of the contents of the two tables t1, t2 (contents as in
   C31.Model).  Staging, stash, checkout carry-over all work table by table (table
   hashes), so the pair makes the granularity explicit.

   go/libraries/doltcore/sqle/dprocedures/dolt_stash.go  doStashPush / doStashPop / handleMerge
   go/libraries/doltcore/sqle/dprocedures/dolt_reset.go  resetHard / resetSoftTables / resetSoft
   go/libraries/doltcore/env/actions/reset.go            ResetHardTables / ResetSoftTables
   go/libraries/doltcore/sqle/dprocedures/dolt_checkout.go checkoutExistingBranch (plain: SwitchWorkingSet)
   go/libraries/doltcore/sqle/dprocedures/dolt_checkout_helpers.go MoveWorkingSetToBranch (--move)
   go/libraries/doltcore/env/actions/checkout.go         RootsForBranch / moveModifiedTables,
                                                         CheckoutWouldStompWorkingSetChanges, CleanOldWorkingSet *)
From Coq Require Import NArith List Bool.
From Dolt Require Import C31.Model.
Import ListNotations.
Local Open Scope N_scope.

Definition root := (content * content)%type.
Definition root_eqb (a b : root) : bool := content_eqb (fst a) (fst b) && content_eqb (snd a) (snd b).

Definition tbl (t : N) (r : root) : content := if t =? 1 then fst r else snd r.
Definition set_tbl (t : N) (r : root) (c : content) : root := if t =? 1 then (c, snd r) else (fst r, c).

(* the three roots of one branch *)
Record ws := { w_head : root; w_staged : root; w_working : root }.

(* a stash entry: the stashed root and the head root it was made on *)
Definition stash := (root * root)%type.

Record st := {
  s_on_other : bool;           (* current branch: false = main, true = other *)
  s_main : ws; s_other : ws;
  s_stashes : list stash;      (* most recent first *)
  s_commits : list root        (* commits made so far: 0 = main, 1 = other, then in creation order *)
}.

Definition cur (s : st) : ws := if s_on_other s then s_other s else s_main s.
Definition set_cur (s : st) (w : ws) : st :=
  if s_on_other s
  then {| s_on_other := true; s_main := s_main s; s_other := w; s_stashes := s_stashes s; s_commits := s_commits s |}
  else {| s_on_other := false; s_main := w; s_other := s_other s; s_stashes := s_stashes s; s_commits := s_commits s |}.
Definition set_stashes (s : st) (l : list stash) : st :=
  {| s_on_other := s_on_other s; s_main := s_main s; s_other := s_other s; s_stashes := l; s_commits := s_commits s |}.
Definition add_commit (s : st) (r : root) : st :=
  {| s_on_other := s_on_other s; s_main := s_main s; s_other := s_other s; s_stashes := s_stashes s; s_commits := s_commits s ++ [r] |}.

Definition has_changes (w : ws) : bool :=
  negb (root_eqb (w_staged w) (w_head w)) || negb (root_eqb (w_working w) (w_head w)).

Inductive op :=
| Edit (t : N) (rows : content)        (* replace the rows of table t in the working root *)
| Add (t : N) | AddAll
| Commit                               (* dolt_commit('-m'): the staged root becomes the new head *)
| Stash | Pop
| StashBad                             (* dolt_stash('push', <illegal name>): fails (invalid dataset id) *)
| ResetHard | ResetHardTo (c : N)
| ResetSoft | ResetSoftT (t : N)       (* dolt_reset() / dolt_reset('t'): unstage *)
| ResetSoftTo (c : N)                  (* dolt_reset('--soft', commit): only HEAD moves *)
| Checkout (other : bool)              (* dolt_checkout(branch): switch working sets *)
| CheckoutMove (other : bool).         (* dolt_checkout('--move', branch): carry changes *)

Definition commit_at (s : st) (c : N) : root :=
  nth (N.to_nat (c mod N.of_nat (length (s_commits s)))) (s_commits s) ([], []).

(* ---- stash ---- *)
(* doStashPush: every modified table is staged first (StageModifiedAndDeletedTables), the staged
   root is saved together with the head, then staged := head and the stashed tables are moved
   from head to working.  The staged / unstaged distinction is not recorded. *)
Definition do_stash (w : ws) : option (ws * stash) :=
  if has_changes w
  then Some ({| w_head := w_head w; w_staged := w_head w; w_working := w_head w |}, (w_working w, w_head w))
  else None.

(* doStashPop / handleMerge: MergeRoots(ours = current working, theirs = stash root, ancestor = the
   head the stash was made on); any conflict: error, the stash is kept.  Only the working root is
   updated (tables ADDED by the stash would be staged again; tables are fixed here). *)
Definition merge_root (b o t : root) : option root :=
  if clean (fst b) (fst o) (fst t) && clean (snd b) (snd o) (snd t)
  then Some (merge3 (fst b) (fst o) (fst t), merge3 (snd b) (snd o) (snd t))
  else None.

Definition do_pop (w : ws) (e : stash) : option ws :=
  match merge_root (snd e) (w_working w) (fst e) with
  | Some r => Some {| w_head := w_head w; w_staged := w_staged w; w_working := r |}
  | None => None
  end.

(* ---- checkout --move ---- *)
(* moveModifiedTables, per table: unchanged in the source -> the target's table; else target head
   equals source head -> the changed table is carried; else conflict *)
Definition move_tbl (old new changed : content) : option content :=
  if content_eqb old changed then Some new
  else if content_eqb old new then Some changed
  else None.
Definition move_root (old new changed : root) : option root :=
  match move_tbl (fst old) (fst new) (fst changed), move_tbl (snd old) (snd new) (snd changed) with
  | Some a, Some b => Some (a, b)
  | _, _ => None
  end.

Definition would_stomp (src dst : ws) : bool :=
  has_changes src && has_changes dst
  && (negb (root_eqb (w_working src) (w_working dst)) || negb (root_eqb (w_staged src) (w_staged dst))).

(* result: new source ws, new destination ws *)
Definition do_move (src dst : ws) : option (ws * ws) :=
  if would_stomp src dst then None
  else if has_changes src then
    match move_root (w_head src) (w_head dst) (w_working src), move_root (w_head src) (w_head dst) (w_staged src) with
    | Some wk, Some sg =>
      Some ({| w_head := w_head src; w_staged := w_head src; w_working := w_head src |},     (* CleanOldWorkingSet *)
            {| w_head := w_head dst; w_staged := sg; w_working := wk |})
    | _, _ => None
    end
  else Some (src, dst).

(* ---- one step: None = the procedure returns an error and nothing changes ---- *)
Definition step (s : st) (o : op) : option st :=
  let w := cur s in
  match o with
  | Edit t rows => Some (set_cur s {| w_head := w_head w; w_staged := w_staged w; w_working := set_tbl t (w_working w) rows |})
  | Add t => Some (set_cur s {| w_head := w_head w; w_staged := set_tbl t (w_staged w) (tbl t (w_working w)); w_working := w_working w |})
  | AddAll => Some (set_cur s {| w_head := w_head w; w_staged := w_working w; w_working := w_working w |})
  | Commit => if root_eqb (w_staged w) (w_head w) then None
              else Some (add_commit (set_cur s {| w_head := w_staged w; w_staged := w_staged w; w_working := w_working w |}) (w_staged w))
  | Stash => match do_stash w with
             | Some (w', e) => Some (set_stashes (set_cur s w') (e :: s_stashes s))
             | None => None
             end
  | StashBad => None
  | Pop => match s_stashes s with
           | e :: rest => match do_pop w e with
                          | Some w' => Some (set_stashes (set_cur s w') rest)
                          | None => None
                          end
           | [] => None
           end
  | ResetHard => Some (set_cur s {| w_head := w_head w; w_staged := w_head w; w_working := w_head w |})
  | ResetHardTo c => let r := commit_at s c in Some (set_cur s {| w_head := r; w_staged := r; w_working := r |})
  | ResetSoft => Some (set_cur s {| w_head := w_head w; w_staged := w_head w; w_working := w_working w |})
  | ResetSoftT t => Some (set_cur s {| w_head := w_head w; w_staged := set_tbl t (w_staged w) (tbl t (w_head w)); w_working := w_working w |})
  | ResetSoftTo c => Some (set_cur s {| w_head := commit_at s c; w_staged := w_staged w; w_working := w_working w |})
  | Checkout b =>
    Some {| s_on_other := b; s_main := s_main s; s_other := s_other s; s_stashes := s_stashes s; s_commits := s_commits s |}
  | CheckoutMove b =>
    if Bool.eqb b (s_on_other s) then Some s                     (* already on that branch: nothing to do *)
    else let dst := if b then s_other s else s_main s in
         match do_move w dst with
         | Some (src', dst') =>
           Some {| s_on_other := b; s_main := if b then src' else dst'; s_other := if b then dst' else src';
                   s_stashes := s_stashes s; s_commits := s_commits s |}
         | None => None
         end
  end.

Definition init (m o : root) : st :=
  {| s_on_other := false;
     s_main := {| w_head := m; w_staged := m; w_working := m |};
     s_other := {| w_head := o; w_staged := o; w_working := o |};
     s_stashes := []; s_commits := [m; o] |}.
