(* C34 — proofs. *)
From Coq Require Import NArith List Bool Lia.
From Dolt Require Import C31.Model C31.Spec C31.Proofs C34.Model C34.Spec C34.Corr.
Import ListNotations.
Local Open Scope N_scope.

Lemma root_eqb_eq a b : root_eqb a b = true <-> a = b.
Proof.
  destruct a as [a1 a2], b as [b1 b2]. unfold root_eqb. cbn [fst snd].
  rewrite andb_true_iff, !content_eqb_eq. split; [intros [-> ->]; reflexivity | intros H; inversion H; auto].
Qed.
Lemma root_eqb_refl a : root_eqb a a = true.
Proof. apply root_eqb_eq; reflexivity. Qed.

(* ---------------- stash ; pop ---------------- *)
(* For every working set with local changes: stash succeeds, the immediate pop succeeds, the
   working root is restored exactly (as a map; literally when canonical), the head is untouched,
   and the staged root afterwards is the HEAD root. *)
Theorem stash_pop_working w :
  has_changes w = true ->
  exists w1 e w2, do_stash w = Some (w1, e) /\ do_pop w1 e = Some w2 /\
    root_ext (w_working w2) (w_working w) /\
    w_working w2 = (norm (fst (w_working w)), norm (snd (w_working w))) /\
    w_head w2 = w_head w /\ w_staged w2 = w_head w.
Proof.
  intros H. unfold do_stash. rewrite H. eexists _, _, _. split; [reflexivity|].
  unfold do_pop, merge_root. cbn [fst snd w_working w_head w_staged].
  destruct (merge3_base_left (fst (w_head w)) (fst (w_working w))) as [C1 E1].
  destruct (merge3_base_left (snd (w_head w)) (snd (w_working w))) as [C2 E2].
  rewrite C1, C2. cbn [andb]. split; [reflexivity|]. cbn [w_working w_head w_staged fst snd].
  repeat split; try assumption. rewrite !merge3_base_left_eq. reflexivity.
Qed.

(* the staged root is restored iff nothing was staged *)
Theorem stash_pop_staged_iff w w1 e w2 :
  do_stash w = Some (w1, e) -> do_pop w1 e = Some w2 ->
  (w_staged w2 = w_staged w <-> w_staged w = w_head w).
Proof.
  unfold do_stash. destruct (has_changes w); [|discriminate]. intros H1. inversion H1; subst; clear H1.
  unfold do_pop. destruct (merge_root _ _ _); [|discriminate]. intros H2. inversion H2; subst; clear H2.
  cbn [w_staged]. split; intros E; congruence.
Qed.

(* the property's clause as stated, with the side condition the code needs: no staged changes
   (and canonical working contents, which every root read back from the engine has) *)
Theorem stash_pop_id w :
  has_changes w = true -> w_staged w = w_head w ->
  canonical (fst (w_working w)) = true -> canonical (snd (w_working w)) = true ->
  exists w1 e, do_stash w = Some (w1, e) /\ do_pop w1 e = Some w.
Proof.
  intros H S C1 C2. destruct (stash_pop_working w H) as [w1 [e [w2 [D1 [D2 [_ [W [Hh Hs]]]]]]]].
  exists w1, e. split; [exact D1|]. rewrite D2. f_equal. destruct w as [h s wk], w2 as [h2 s2 wk2].
  cbn [w_head w_staged w_working] in *. subst. rewrite (norm_canonical _ C1), (norm_canonical _ C2).
  destruct wk; reflexivity.
Qed.

(* the clause as stated in the property text (staged restored too) is false on the model of the code *)
Definition wit : ws :=
  {| w_head := ([((1, 1), [Some 0; Some 0])], []);
     w_staged := ([((1, 1), [Some 1; Some 1])], []);
     w_working := ([((1, 1), [Some 1; Some 1])], []) |}.
Theorem stash_pop_id_refuted :
  exists w w1 e w2, do_stash w = Some (w1, e) /\ do_pop w1 e = Some w2 /\ ~ stash_pop_restores w w2.
Proof.
  exists wit. eexists _, _, _. split; [vm_compute; reflexivity|]. split; [vm_compute; reflexivity|].
  intros [_ [[E _] _]]. specialize (E (1, 1)). vm_compute in E. discriminate.
Qed.

(* ---------------- reset ---------------- *)
Lemma cur_set_cur s w : cur (set_cur s w) = w.
Proof. unfold cur, set_cur. destruct (s_on_other s); reflexivity. Qed.
Theorem reset_hard_spec s c :
  (exists s', step s ResetHard = Some s' /\ w_working (cur s') = w_head (cur s) /\ w_staged (cur s') = w_head (cur s) /\ w_head (cur s') = w_head (cur s))
  /\ (exists s', step s (ResetHardTo c) = Some s' /\ w_working (cur s') = commit_at s c /\ w_staged (cur s') = commit_at s c /\ w_head (cur s') = commit_at s c).
Proof.
  split; eexists; (split; [reflexivity|]); rewrite cur_set_cur; cbn [w_head w_staged w_working]; auto.
Qed.

Theorem reset_soft_spec s t c :
  (exists s', step s ResetSoft = Some s' /\ w_working (cur s') = w_working (cur s) /\ w_head (cur s') = w_head (cur s) /\ w_staged (cur s') = w_head (cur s))
  /\ (exists s', step s (ResetSoftT t) = Some s' /\ w_working (cur s') = w_working (cur s) /\ w_head (cur s') = w_head (cur s)
                 /\ tbl t (w_staged (cur s')) = tbl t (w_head (cur s)))
  /\ (exists s', step s (ResetSoftTo c) = Some s' /\ w_working (cur s') = w_working (cur s) /\ w_staged (cur s') = w_staged (cur s)
                 /\ w_head (cur s') = commit_at s c).
Proof.
  split; [|split]; eexists; (split; [reflexivity|]); rewrite cur_set_cur; cbn [w_head w_staged w_working]; auto.
  repeat split. unfold tbl, set_tbl. destruct (t =? 1); reflexivity.
Qed.

(* ---------------- checkout ---------------- *)
Lemma move_tbl_keeps old new changed r :
  move_tbl old new changed = Some r -> content_eqb old changed = false -> r = changed.
Proof.
  unfold move_tbl. intros H Hc. rewrite Hc in H. destruct (content_eqb old new); [inversion H; reflexivity | discriminate].
Qed.

Lemma move_root_keeps old new changed r t :
  move_root old new changed = Some r -> content_eqb (tbl t old) (tbl t changed) = false -> tbl t r = tbl t changed.
Proof.
  unfold move_root. destruct (move_tbl (fst old) (fst new) (fst changed)) as [a|] eqn:A; [|discriminate].
  destruct (move_tbl (snd old) (snd new) (snd changed)) as [b|] eqn:B; [|discriminate].
  intros H; inversion H; subst; clear H. unfold tbl. destruct (t =? 1); cbn [fst snd]; intros Hc.
  - eapply move_tbl_keeps; eauto.
  - eapply move_tbl_keeps; eauto.
Qed.

(* a carried checkout loses no uncommitted change of any table, staged or not *)
Theorem checkout_no_loss src dst src' dst' :
  do_move src dst = Some (src', dst') -> has_changes src = true -> no_loss src dst'.
Proof.
  unfold do_move. destruct (would_stomp src dst); [discriminate|]. intros H Hc. rewrite Hc in H.
  destruct (move_root (w_head src) (w_head dst) (w_working src)) as [wk|] eqn:W; [|discriminate].
  destruct (move_root (w_head src) (w_head dst) (w_staged src)) as [sg|] eqn:S; [|discriminate].
  inversion H; subst; clear H. intros t. unfold changed_tbl. cbn [w_working w_staged]. split; intros Hn.
  - eapply move_root_keeps; [exact W|]. apply negb_true_iff in Hn. exact Hn.
  - eapply move_root_keeps; [exact S|]. apply negb_true_iff in Hn. exact Hn.
Qed.

(* a refused checkout (and any refused operation) changes nothing: [step] returns None and the
   machine stays in the same state; a plain checkout touches neither branch's working set *)
Theorem checkout_plain_intact s b s' :
  step s (Checkout b) = Some s' -> s_main s' = s_main s /\ s_other s' = s_other s /\ s_stashes s' = s_stashes s.
Proof. intros H. inversion H; subst. cbn. auto. Qed.

Theorem checkout_move_clean_source s b s' :
  step s (CheckoutMove b) = Some s' -> b <> s_on_other s -> has_changes (cur s) = true ->
  s_on_other s' = b /\ no_loss (cur s) (cur s').
Proof.
  cbn [step]. destruct (Bool.eqb b (s_on_other s)) eqn:E; [apply eqb_prop in E; congruence|].
  intros H _ Hc. destruct (do_move (cur s) (if b then s_other s else s_main s)) as [[src' dst']|] eqn:M; [|discriminate].
  inversion H; subst; clear H. split; [reflexivity|]. pose proof (checkout_no_loss _ _ _ _ M Hc) as N.
  unfold cur at 2. cbn [s_on_other s_main s_other]. destruct b; exact N.
Qed.

(* the correspondence driver keeps the state on a refused operation *)
Theorem failed_step_unchanged s o ops :
  step s o = None -> run s (o :: ops) = observe false s :: run s ops.
Proof. intros H. cbn [run]. rewrite H. reflexivity. Qed.

(* ---------------- stash stack (round 2) ---------------- *)
(* pop takes the most recent stash and removes only that entry *)
Theorem pop_takes_latest s e rest w' :
  s_stashes s = e :: rest -> do_pop (cur s) e = Some w' ->
  step s Pop = Some (set_stashes (set_cur s w') rest).
Proof. intros H1 H2. cbn [step]. rewrite H1, H2. reflexivity. Qed.

(* popping onto a working set that conflicts with the stash is refused: the step fails, so (by
   failed_step_unchanged) working, staged, head and the stash stack are all unchanged *)
Theorem stash_pop_conflict s e rest :
  s_stashes s = e :: rest -> merge_root (snd e) (w_working (cur s)) (fst e) = None ->
  step s Pop = None.
Proof. intros H1 H2. cbn [step]. rewrite H1. unfold do_pop. rewrite H2. reflexivity. Qed.

(* a successful pop changes only the working root of the current branch *)
Theorem pop_touches_working_only w e w' :
  do_pop w e = Some w' -> w_head w' = w_head w /\ w_staged w' = w_staged w.
Proof. unfold do_pop. destruct (merge_root _ _ _); [|discriminate]. intros H; inversion H; subst. split; reflexivity. Qed.

(* stashes are pushed on top: after a successful stash the new entry is first and the older ones follow *)
Theorem stash_pushes_on_top s s' :
  step s Stash = Some s' -> exists e, s_stashes s' = e :: s_stashes s /\ e = (w_working (cur s), w_head (cur s)).
Proof.
  cbn [step]. unfold do_stash. destruct (has_changes (cur s)); [|discriminate]. intros H; inversion H; subst.
  eexists. split; reflexivity.
Qed.

(* non-vacuity: a carried and a refused checkout *)
Example ex_move_refused :
  let m := ([((1, 1), [Some 0; Some 0])], []) in let o := ([((1, 1), [Some 5; Some 5])], []) in
  match step (init m o) (Edit 1 [((1, 1), [Some 1; Some 1])]) with
  | Some s => step s (CheckoutMove true) = None
  | None => False end.
Proof. vm_compute. reflexivity. Qed.
Example ex_move_carried :
  let m := ([((1, 1), [Some 0; Some 0])], []) in let o := ([((1, 1), [Some 0; Some 0])], [((2, 1), [None; None])]) in
  match step (init m o) (Edit 1 [((1, 1), [Some 1; Some 1])]) with
  | Some s => match step s (CheckoutMove true) with
              | Some s' => w_working (cur s') = ([((1, 1), [Some 1; Some 1])], [((2, 1), [None; None])])
              | None => False end
  | None => False end.
Proof. vm_compute. reflexivity. Qed.
