(* C34 — correspondence. *)
From Coq Require Import NArith List Bool.
From Dolt Require Import C31.Model C31.Spec C34.Model C34.Spec.
Import ListNotations.
Local Open Scope N_scope.

Definition input := (root * root * list op)%type.

Record sobs := {
  b_ok : bool;            (* the procedure returned without error *)
  b_other : bool;         (* active branch is "other" *)
  b_head : root; b_staged : root; b_working : root;   (* AS OF 'HEAD' / 'STAGED' / 'WORKING' *)
  b_nstash : N;
  b_ws_eq : bool;         (* dolt_hashof_db('WORKING') = dolt_hashof_db('STAGED') *)
  b_sh_eq : bool          (* dolt_hashof_db('STAGED') = dolt_hashof_db('HEAD') *)
}.
Definition obs := list sobs.
Definition case := (input * obs)%type.

Definition observe (ok : bool) (s : st) : sobs :=
  let w := cur s in
  {| b_ok := ok; b_other := s_on_other s; b_head := w_head w; b_staged := w_staged w; b_working := w_working w;
     b_nstash := N.of_nat (length (s_stashes s));
     b_ws_eq := root_eqb (w_working w) (w_staged w); b_sh_eq := root_eqb (w_staged w) (w_head w) |}.

Fixpoint run (s : st) (ops : list op) : obs :=
  match ops with
  | [] => []
  | o :: ops' => match step s o with
                 | Some s' => observe true s' :: run s' ops'
                 | None => observe false s :: run s ops'
                 end
  end.

Definition model_obs (i : input) : obs := let '(m, o, ops) := i in run (init m o) ops.

Definition sobs_eqb (a b : sobs) : bool :=
  Bool.eqb (b_ok a) (b_ok b) && Bool.eqb (b_other a) (b_other b)
  && root_eqb (b_head a) (b_head b) && root_eqb (b_staged a) (b_staged b) && root_eqb (b_working a) (b_working b)
  && (b_nstash a =? b_nstash b) && Bool.eqb (b_ws_eq a) (b_ws_eq b) && Bool.eqb (b_sh_eq a) (b_sh_eq b).
Fixpoint obs_eqb (a b : obs) : bool :=
  match a, b with
  | [], [] => true
  | x :: a', y :: b' => sobs_eqb x y && obs_eqb a' b'
  | _, _ => false
  end.

(* ---- the property on the implementation's observations ----
   The oracle walks the (operation, observation) pairs remembering the previous observation, the
   last observed roots of the branch that is not checked out, the contents of the commits made so
   far (as observed), and the roots seen just before a successful stash. *)
Record ostate := {
  q_prev : sobs;
  q_away : option (root * root * root);     (* head, staged, working of the other branch when last seen *)
  q_commits : list root;
  q_before_stash : option sobs
}.

Definition same_roots (a b : sobs) : bool :=
  Bool.eqb (b_other a) (b_other b) && root_eqb (b_head a) (b_head b) && root_eqb (b_staged a) (b_staged b)
  && root_eqb (b_working a) (b_working b) && (b_nstash a =? b_nstash b).

Definition tbl_kept (t : N) (p n : sobs) : bool :=
  (content_eqb (tbl t (b_head p)) (tbl t (b_working p)) || content_eqb (tbl t (b_working n)) (tbl t (b_working p)))
  && (content_eqb (tbl t (b_head p)) (tbl t (b_staged p)) || content_eqb (tbl t (b_staged n)) (tbl t (b_staged p))).

Definition target (q : ostate) (c : N) : root :=
  nth (N.to_nat (c mod N.of_nat (length (q_commits q)))) (q_commits q) ([], []).

Definition prop_step (q : ostate) (o : op) (n : sobs) : bool :=
  let p := q_prev q in
  if negb (b_ok n) then same_roots p n                       (* a refused operation changes nothing *)
  else match o with
  | Pop =>
    match q_before_stash q with
    | Some b0 => (* stash directly followed by pop: working and staged exactly as before the stash *)
      root_extb (b_working n) (b_working b0) && root_extb (b_staged n) (b_staged b0) && root_eqb (b_head n) (b_head b0)
    | None => true
    end
  | ResetHard => root_eqb (b_working n) (b_head p) && root_eqb (b_staged n) (b_head p) && root_eqb (b_head n) (b_head p)
  | ResetHardTo c => let r := target q c in root_eqb (b_working n) r && root_eqb (b_staged n) r && root_eqb (b_head n) r
  | ResetSoft => root_eqb (b_working n) (b_working p) && root_eqb (b_head n) (b_head p) && root_eqb (b_staged n) (b_head p)
  | ResetSoftT t =>
    root_eqb (b_working n) (b_working p) && root_eqb (b_head n) (b_head p)
    && content_eqb (tbl t (b_staged n)) (tbl t (b_head p))
    && content_eqb (tbl (3 - t) (b_staged n)) (tbl (3 - t) (b_staged p))
  | ResetSoftTo c => root_eqb (b_working n) (b_working p) && root_eqb (b_staged n) (b_staged p) && root_eqb (b_head n) (target q c)
  | Checkout b =>
    Bool.eqb (b_other n) b &&
    (if Bool.eqb b (b_other p) then same_roots p n
     else match q_away q with
          | Some (h, s, w) => root_eqb (b_head n) h && root_eqb (b_staged n) s && root_eqb (b_working n) w   (* that branch's working set is intact *)
          | None => true
          end)
  | CheckoutMove b =>
    Bool.eqb (b_other n) b
    && (if Bool.eqb b (b_other p) then same_roots p n
        else tbl_kept 1 p n && tbl_kept 2 p n                (* no uncommitted change of the source is lost *)
             && match q_away q with                          (* ... and none of the target branch *)
                | Some (h, s, w) =>
                  if negb (root_eqb s h) || negb (root_eqb w h)
                  then root_eqb (b_working n) w && root_eqb (b_staged n) s
                  else true
                | None => true
                end)
  | _ => true
  end.

Definition next_state (q : ostate) (o : op) (n : sobs) : ostate :=
  let p := q_prev q in
  let switched := negb (Bool.eqb (b_other n) (b_other p)) in
  {| q_prev := n;
     q_away := if switched
               then match o with
                    | CheckoutMove _ => Some (b_head p, b_head p, b_head p)   (* moved: the source was cleaned *)
                    | _ => Some (b_head p, b_staged p, b_working p)
                    end
               else q_away q;
     q_commits := match o with Commit => if b_ok n then q_commits q ++ [b_head n] else q_commits q | _ => q_commits q end;
     q_before_stash := match o with Stash => if b_ok n then Some p else None | _ => None end |}.

Fixpoint prop_run (q : ostate) (ops : list op) (os : obs) : bool :=
  match ops, os with
  | [], [] => true
  | o :: ops', n :: os' => prop_step q o n && prop_run (next_state q o n) ops' os'
  | _, _ => false
  end.

Definition oracle (i : input) (o : obs) : bool :=
  let '(m, ot, ops) := i in
  prop_run {| q_prev := observe true (init m ot); q_away := Some (ot, ot, ot); q_commits := [m; ot]; q_before_stash := None |} ops o.

Definition check_case (c : case) : N :=
  (if obs_eqb (model_obs (fst c)) (snd c) then 0 else 1)
  + (if oracle (fst c) (snd c) then 0 else 2).
