(* C34 — what the operations promise, declaratively. *)
From Coq Require Import NArith List Bool.
From Dolt Require Import C31.Model C31.Spec C34.Model.
Import ListNotations.
Local Open Scope N_scope.

Definition root_ext (a b : root) : Prop := ext_eq (fst a) (fst b) /\ ext_eq (snd a) (snd b).
Definition root_extb (a b : root) : bool := ext_eqb (fst a) (fst b) && ext_eqb (snd a) (snd b).

(* stash then pop restores working and staged exactly *)
Definition stash_pop_restores (w w' : ws) : Prop :=
  root_ext (w_working w') (w_working w) /\ root_ext (w_staged w') (w_staged w) /\ w_head w' = w_head w.

(* an uncommitted change of table t (in the working or in the staged root) *)
Definition changed_tbl (t : N) (w : ws) (r : root) : bool := negb (content_eqb (tbl t (w_head w)) (tbl t r)).

(* after a carried checkout no uncommitted change is lost *)
Definition no_loss (src dst' : ws) : Prop :=
  forall t, (changed_tbl t src (w_working src) = true -> tbl t (w_working dst') = tbl t (w_working src)) /\
            (changed_tbl t src (w_staged src) = true -> tbl t (w_staged dst') = tbl t (w_staged src)).
