(* C36 — correspondence and oracle. *)
From Coq Require Import NArith List Bool.
From Dolt Require Import Base.Str Gen.C36Consts C36.Model C36.Spec.
Import ListNotations.
Local Open Scope N_scope.

Inductive cin :=
| CStr (s : bytes)
| CCsv (fs : list (option bytes))
| CTable
| CBatch (n : N).

Inductive obs :=
| OStr (q h : bytes) (lex_ok : bool) (u : bytes)            (* quoted text, hex text, lexer verdict, lexed bytes *)
| OCsv (text : bytes) (rows : list (list (option bytes))) (rerr : bool)
| OTable (setup_ok sql_same ddl_same csv_same : bool)
| OBatch (counts : list N) (nmissing extra : N) (perr : bool)   (* tuples per INSERT statement; rows of 1..n not exported; unexpected rows *)
| OBad.

Definition case := (cin * obs)%type.

Definition model_rows (text : bytes) : option (list (list (option bytes))) :=
  match csv_read text with
  | Some (Some fs, rest) =>
    match csv_read rest with
    | Some (None, _) => Some [fs]
    | _ => None                       (* the harness writes exactly one record *)
    end
  | Some (None, _) => Some []
  | None => None
  end.

(* tuples per statement when n rows go through the batched writer; batch_size is regenerated from the Go source *)
Definition model_counts (n : N) : list N :=
  map (fun ch => N.of_nat (length ch)) (chunks (N.to_nat batch_size) (repeat tt (N.to_nat n))).
Fixpoint nlist_eqb (a b : list N) : bool :=
  match a, b with
  | [], [] => true
  | x :: a', y :: b' => (x =? y) && nlist_eqb a' b'
  | _, _ => false
  end.
Definition nsum (l : list N) : N := fold_right N.add 0 l.

Definition model_agrees (c : case) : bool :=
  match c with
  | (CBatch n, OBatch counts nmissing extra perr) =>
    nlist_eqb counts (model_counts n) && (nmissing =? 0) && (extra =? 0) && negb perr
  | (CStr s, OStr q h lex_ok u) =>
    beq_bytes q (sql_quote s) && beq_bytes h (hex_encode s)
    && match sql_unquote q with
       | Some (u', rest) => lex_ok && beq_bytes u u' && beq_bytes rest []
       | None => negb lex_ok
       end
  | (CCsv fs, OCsv text rows rerr) =>
    beq_bytes text (csv_write fs)
    && match model_rows text with
       | Some r => negb rerr && rows_eqb r rows
       | None => rerr
       end
  | (CTable, OTable _ _ _ _) => true
  | _ => false
  end.

(* the property on what the implementation did *)
Definition oracle (c : case) : bool :=
  match c with
  | (CBatch n, OBatch counts nmissing extra perr) =>
    (* the exported statements hold exactly the n rows: none missing, none extra, n tuples in all *)
    negb perr && (nmissing =? 0) && (extra =? 0) && (nsum counts =? n)
  | (CStr s, OStr q h lex_ok u) =>
    lex_ok && beq_bytes u s
    && match hex_decode h with Some d => beq_bytes d s | None => false end
  | (CCsv fs, OCsv text rows rerr) => negb rerr && csv_roundtrip_ok fs rows
  | (CTable, OTable setup_ok sql_same ddl_same csv_same) => setup_ok && sql_same && ddl_same && csv_same
  | _ => false
  end.

Definition check_case (c : case) : N :=
  (if model_agrees c then 0 else 1) + (if oracle c then 0 else 2).
