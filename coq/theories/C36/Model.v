(* C36 — dump / re-import.  Executable model of
     go/libraries/doltcore/sqle/sqlfmt/row_fmt.go   quoteAndEscapeString (vitess sqltypes.encodeBytesSQL,
                                                    SQLEncodeMap), hexEncodeBytes
     vitess go/vt/sqlparser/token.go                Tokenizer.scanString (SQLDecodeMap, doubled delimiter)
     go/libraries/doltcore/table/untyped/csv/writer.go   writeCsvRow, fieldNeedsQuotes
     go/libraries/doltcore/table/untyped/csv/reader.go   readLine (CRLF normalisation), csvReadRecords,
                                                         parseField, parseQuotedField
   No proofs here. *)
From Coq Require Import NArith ZArith List Bool.
From Dolt Require Import Base.Str.
Import ListNotations.
Local Open Scope N_scope.

(* ---------- SQL string literals ---------- *)
(* sqltypes.SQLEncodeMap: None = DontEscape *)
Definition sql_enc (c : N) : option N :=
  if c =? 0 then Some 48            (* \0 *)
  else if c =? 39 then Some 39      (* backslash quote *)
  else if c =? 34 then Some 34      (* backslash dquote *)
  else if c =? 8 then Some 98       (* \b *)
  else if c =? 10 then Some 110     (* \n *)
  else if c =? 13 then Some 114     (* \r *)
  else if c =? 9 then Some 116      (* \t *)
  else if c =? 26 then Some 90      (* \Z *)
  else if c =? 92 then Some 92      (* \\ *)
  else None.

(* sqltypes.SQLDecodeMap; an unknown escape \q stands for q *)
Definition sql_dec (e : N) : N :=
  if e =? 48 then 0 else if e =? 39 then 39 else if e =? 34 then 34 else if e =? 98 then 8
  else if e =? 110 then 10 else if e =? 114 then 13 else if e =? 116 then 9 else if e =? 90 then 26
  else if e =? 92 then 92 else e.

Fixpoint sql_esc (s : bytes) : bytes :=
  match s with
  | [] => []
  | c :: t => match sql_enc c with Some e => 92 :: e :: sql_esc t | None => c :: sql_esc t end
  end.

(* encodeBytesSQL *)
Definition sql_quote (s : bytes) : bytes := 39 :: sql_esc s ++ [39].

(* scanString after the opening delimiter: contents and the text after the closing delimiter;
   None = LEX_ERROR (unterminated string / string ends inside an escape) *)
Fixpoint sql_scan (s : bytes) : option (bytes * bytes) :=
  match s with
  | [] => None
  | c :: t =>
    if c =? 92 then
      match t with
      | [] => None
      | e :: t' => match sql_scan t' with Some (r, rest) => Some (sql_dec e :: r, rest) | None => None end
      end
    else if c =? 39 then
      match t with
      | d :: t' => if d =? 39 then match sql_scan t' with Some (r, rest) => Some (39 :: r, rest) | None => None end
                   else Some ([], t)
      | [] => Some ([], [])
      end
    else match sql_scan t with Some (r, rest) => Some (c :: r, rest) | None => None end
  end.

Definition sql_unquote (lit : bytes) : option (bytes * bytes) :=
  match lit with
  | c :: t => if c =? 39 then sql_scan t else None
  | [] => None
  end.

(* ---------- hex literals ---------- *)
Definition hex_digit (v : N) : N := if v <? 10 then 48 + v else 87 + v.     (* 0-9 a-f *)
Definition hex_val (c : N) : option N :=
  if (48 <=? c) && (c <=? 57) then Some (c - 48)
  else if (97 <=? c) && (c <=? 102) then Some (c - 87)
  else if (65 <=? c) && (c <=? 70) then Some (c - 55)
  else None.
Fixpoint hex_body (s : bytes) : bytes :=
  match s with [] => [] | b :: t => hex_digit (b / 16) :: hex_digit (b mod 16) :: hex_body t end.
(* hexEncodeBytes *)
Definition hex_encode (s : bytes) : bytes := 48 :: 120 :: hex_body s.
Fixpoint hex_unbody (s : bytes) : option bytes :=
  match s with
  | [] => Some []
  | h :: l :: t =>
    match hex_val h, hex_val l, hex_unbody t with
    | Some a, Some b, Some r => Some (16 * a + b :: r)
    | _, _, _ => None
    end
  | [_] => None
  end.
Definition hex_decode (lit : bytes) : option bytes :=
  match lit with
  | 48 :: 120 :: t => hex_unbody t
  | _ => None
  end.

(* ---------- CSV ---------- *)
Definition c_quote : N := 34.  Definition c_comma : N := 44.  Definition c_lf : N := 10.  Definition c_cr : N := 13.

(* number of bytes of the first rune when it is white space (unicode.IsSpace), else 0 *)
Definition space_rune_len (s : bytes) : nat :=
  match s with
  | c :: t =>
    if ((9 <=? c) && (c <=? 13)) || (c =? 32) then 1%nat
    else if c =? 194 then (match t with d :: _ => if (d =? 133) || (d =? 160) then 2%nat else 0%nat | [] => 0%nat end)
    else if c =? 225 then (match t with 154 :: 128 :: _ => 3%nat | _ => 0%nat end)
    else if c =? 226 then
      (match t with
       | 128 :: e :: _ => if ((128 <=? e) && (e <=? 138)) || (e =? 168) || (e =? 169) || (e =? 175) then 3%nat else 0%nat
       | 129 :: 159 :: _ => 3%nat
       | _ => 0%nat
       end)
    else if c =? 227 then (match t with 128 :: 128 :: _ => 3%nat | _ => 0%nat end)
    else 0%nat
  | [] => 0%nat
  end.

Definition starts_space_std (s : bytes) : bool := negb (Nat.eqb (space_rune_len s) 0).

(* bytes.TrimLeftFunc(line, unicode.IsSpace) restricted to the current line: stops after the line feed *)
Fixpoint trim_std (fuel : nat) (s : bytes) : bytes :=
  match fuel with
  | O => s
  | S f =>
    match s with
    | c :: _ => if c =? c_lf then s
                else match space_rune_len s with O => s | n => trim_std f (skipn n s) end
    | [] => s
    end
  end.

Section Csv.
  Variable starts_space : bytes -> bool.     (* unicode.IsSpace on the first rune *)
  Variable trim : bytes -> bytes.            (* TrimLeftFunc(.., unicode.IsSpace), within the line *)

  Fixpoint contains_byte (c : N) (s : bytes) : bool :=
    match s with [] => false | x :: t => (x =? c) || contains_byte c t end.

  (* fieldNeedsQuotes, delimiter comma *)
  Definition needs_quotes (s : bytes) : bool :=
    match s with
    | [] => true
    | _ => beq_bytes s [92; 46] || contains_byte c_comma s || contains_byte c_quote s
           || contains_byte c_cr s || contains_byte c_lf s || starts_space s
    end.

  Fixpoint csv_esc (s : bytes) : bytes :=
    match s with [] => [] | c :: t => if c =? c_quote then c_quote :: c_quote :: csv_esc t else c :: csv_esc t end.

  (* writeCsvRow for one field (useCRLF = false); None = NULL *)
  Definition write_field (f : option bytes) : bytes :=
    match f with
    | None => []
    | Some s => if needs_quotes s then c_quote :: csv_esc s ++ [c_quote] else s
    end.

  Fixpoint write_fields (fs : list (option bytes)) : bytes :=
    match fs with
    | [] => []
    | [f] => write_field f
    | f :: rest => write_field f ++ c_comma :: write_fields rest
    end.
  Definition write_record (fs : list (option bytes)) : bytes := write_fields fs ++ [c_lf].

  (* end of a field: more fields follow / the record ends *)
  Inductive fend := FCont | FEnd.

  (* parseQuotedField after the opening quote (embedded line feeds continue on the next line) *)
  Fixpoint read_quoted (s : bytes) (acc : bytes) : option (option bytes * fend * bytes) :=
    match s with
    | [] => None                                        (* abrupt end of file *)
    | c :: t =>
      if c =? c_quote then
        match t with
        | [] => Some (Some acc, FEnd, [])
        | d :: t' =>
          if d =? c_comma then Some (Some acc, FCont, t')
          else if d =? c_quote then read_quoted t' (acc ++ [c_quote])
          else if d =? c_lf then Some (Some acc, FEnd, t')
          else None                                      (* bare quote *)
        end
      else read_quoted t (acc ++ [c])
    end.

  (* parseField: up to the delimiter or the end of the line; an empty unquoted field is NULL *)
  Fixpoint read_plain (s : bytes) (acc : bytes) : option bytes * fend * bytes :=
    let fld := match acc with [] => None | _ => Some acc end in
    match s with
    | [] => (fld, FEnd, [])
    | c :: t =>
      if c =? c_comma then (fld, FCont, t)
      else if c =? c_lf then (fld, FEnd, t)
      else read_plain t (acc ++ [c])
    end.

  Definition read_field (s : bytes) : option (option bytes * fend * bytes) :=
    match trim s with
    | c :: t => if c =? c_quote then read_quoted t [] else Some (read_plain (c :: t) [])
    | [] => Some (None, FEnd, [])
    end.

  (* one record; fuel bounds the number of fields *)
  Fixpoint read_fields (fuel : nat) (s : bytes) : option (list (option bytes) * bytes) :=
    match fuel with
    | O => None
    | S f =>
      match read_field s with
      | None => None
      | Some (fld, FEnd, rest) => Some ([fld], rest)
      | Some (fld, FCont, rest) =>
        match read_fields f rest with
        | Some (fs, rest') => Some (fld :: fs, rest')
        | None => None
        end
      end
    end.

  (* csvReadRecords: empty lines before a record are skipped *)
  Fixpoint skip_empty_lines (s : bytes) : bytes :=
    match s with c :: t => if c =? c_lf then skip_empty_lines t else s | [] => [] end.

  (* None = parse error; Some None = end of file *)
  Definition read_record (s : bytes) : option (option (list (option bytes)) * bytes) :=
    match skip_empty_lines s with
    | [] => Some (None, [])
    | s' => match read_fields (S (length s')) s' with
            | Some (fs, rest) => Some (Some fs, rest)
            | None => None
            end
    end.
End Csv.

(* readLine: CR LF becomes LF on every input line *)
Fixpoint normalize_crlf (s : bytes) : bytes :=
  match s with
  | [] => []
  | c :: t => match t with
              | d :: _ => if (c =? c_cr) && (d =? c_lf) then normalize_crlf t else c :: normalize_crlf t
              | [] => [c]
              end
  end.

Definition trim_line (s : bytes) : bytes := trim_std (length s) s.
Definition csv_write (fs : list (option bytes)) : bytes := write_record starts_space_std fs.
Definition csv_read (text : bytes) : option (option (list (option bytes)) * bytes) :=
  read_record trim_line (normalize_crlf text).

(* ---------- per-type value formatting (interfaceValueAsSqlString) and the literal forms a MySQL
   lexer accepts ---------- *)
(* decimal digits of a natural number; fuel bounds the number of digits *)
Fixpoint digits (fuel : nat) (n : N) : bytes :=
  match fuel with
  | O => []
  | S f => if n <? 10 then [48 + n] else digits f (n / 10) ++ [48 + n mod 10]
  end.
Definition fmt_nat (n : N) : bytes := digits (S (N.to_nat (N.log2 n))) n.

Fixpoint parse_digits (s : bytes) (acc : N) : option N :=
  match s with
  | [] => Some acc
  | c :: t => if (48 <=? c) && (c <=? 57) then parse_digits t (10 * acc + (c - 48)) else None
  end.
Definition parse_nat (s : bytes) : option N :=
  match s with [] => None | _ => parse_digits s 0 end.

(* fmt %d of a signed integer / the lexer's integer literal with an optional minus sign *)
Definition fmt_int (z : Z) : bytes :=
  match z with
  | Z0 => [48]
  | Zpos p => fmt_nat (Npos p)
  | Zneg p => 45 :: fmt_nat (Npos p)
  end.
Definition parse_int (s : bytes) : option Z :=
  match s with
  | c :: t => if c =? 45 then match parse_nat t with Some n => Some (Z.opp (Z.of_N n)) | None => None end
              else match parse_nat s with Some n => Some (Z.of_N n) | None => None end
  | [] => None
  end.

(* the value classes of interfaceValueAsSqlString *)
Inductive sqlval :=
| VNull
| VInt (z : Z)                 (* integer types: bare decimal *)
| VText (s : bytes)            (* char / varchar / text / json / enum / set / blob: quoted and escaped *)
| VBin (s : bytes)             (* binary / varbinary: 0x hex *)
| VTemporal (s : bytes)        (* date / datetime / timestamp / time / year: the formatted text between quotes, not escaped *)
| VBit (s : bytes).            (* bit(n): falls into the default branch, the raw value bytes are emitted *)

Definition s_null : bytes := [78; 85; 76; 76].
Definition fmt_val (v : sqlval) : bytes :=
  match v with
  | VNull => s_null
  | VInt z => fmt_int z
  | VText s => sql_quote s
  | VBin s => hex_encode s
  | VTemporal s => 39 :: s ++ [39]
  | VBit s => s
  end.

(* what the literal text denotes when read back for a column of the same class; None = not a literal *)
Definition parse_val (like : sqlval) (text : bytes) : option sqlval :=
  if beq_bytes text s_null then Some VNull else
  match like with
  | VInt _ => match parse_int text with Some z => Some (VInt z) | None => None end
  | VText _ => match sql_unquote text with Some (s, []) => Some (VText s) | _ => None end
  | VTemporal _ => match sql_unquote text with Some (s, []) => Some (VTemporal s) | _ => None end
  | VBin _ => match hex_decode text with Some s => Some (VBin s) | None => None end
  | VBit _ =>
    (* a BIT column accepts an integer literal, a b'..' literal or a hex literal; raw bytes are none of these
       unless they happen to be ASCII digits, in which case they denote that number, not those bytes *)
    match parse_int text with
    | Some z => Some (VBit [Z.to_N z])
    | None => match hex_decode text with Some s => Some (VBit s) | None => None end
    end
  | VNull => None
  end.

(* ---------- decimal literals: [-]digits[.digits] as decimal.String() prints them (scale kept) ---------- *)
Record dec := { d_neg : bool; d_int : N; d_frac : list N }.      (* fraction digits, each < 10 *)

Definition fmt_dec (x : dec) : bytes :=
  (if d_neg x then [45] else []) ++ fmt_nat (d_int x)
  ++ match d_frac x with [] => [] | f => 46 :: map (fun d => 48 + d) f end.

Fixpoint split_dot (s : bytes) (acc : bytes) : bytes * option bytes :=
  match s with
  | [] => (rev acc, None)
  | c :: t => if c =? 46 then (rev acc, Some t) else split_dot t (c :: acc)
  end.

Fixpoint frac_digits (s : bytes) : option (list N) :=
  match s with
  | [] => Some []
  | c :: t => if (48 <=? c) && (c <=? 57)
              then match frac_digits t with Some r => Some (c - 48 :: r) | None => None end
              else None
  end.

Definition parse_dec (s : bytes) : option dec :=
  let '(neg, body) := match s with c :: t => if c =? 45 then (true, t) else (false, s) | [] => (false, []) end in
  let '(ip, fp) := split_dot body [] in
  match parse_nat ip with
  | None => None
  | Some n =>
    match fp with
    | None => Some {| d_neg := neg; d_int := n; d_frac := [] |}
    | Some [] => None
    | Some f => match frac_digits f with Some r => Some {| d_neg := neg; d_int := n; d_frac := r |} | None => None end
    end
  end.

(* ---------- batched SQL export (BatchSqlExportWriter.WriteSqlRow) ----------
   Rows are appended to the current INSERT statement; a row that arrives when the statement already
   holds [n] tuples ends it and starts the next one with that row.  [cur] is the open statement
   (reversed), [k] its remaining capacity. *)
Section Chunks.
  Context {A : Type}.
  Variable n : nat.
  Fixpoint chunk_go (l : list A) (cur : list A) (k : nat) : list (list A) :=
    match l with
    | [] => match cur with [] => [] | _ => [rev cur] end
    | x :: t =>
      match k with
      | O => rev cur :: chunk_go t [x] (n - 1)
      | S k' => chunk_go t (x :: cur) k'
      end
    end.
  Definition chunks (l : list A) : list (list A) := chunk_go l [] n.
End Chunks.
