(* C36 — proofs. *)
From Coq Require Import NArith List Bool Lia PeanoNat.
From Dolt Require Import Base.Str C36.Model C36.Spec C36.Corr.
Import ListNotations.
Local Open Scope N_scope.

(* ------------------------------------------------------------------ *)
(* 1. SQL string literals: the lexer undoes the quoting, for every byte string. *)
Lemma sql_dec_enc c e : sql_enc c = Some e -> sql_dec e = c /\ True.
Proof.
  unfold sql_enc. intros H.
  repeat match type of H with
         | (if ?b then _ else _) = _ => destruct b eqn:?E; [inversion H; subst; clear H | ]
         end; try discriminate;
  repeat match goal with Hx : (_ =? _) = true |- _ => apply N.eqb_eq in Hx; subst end;
  split; try exact I; reflexivity.
Qed.

Lemma sql_enc_none c : sql_enc c = None -> (c =? 92) = false /\ (c =? 39) = false.
Proof.
  unfold sql_enc. intros H.
  destruct (c =? 0); [discriminate|]. destruct (c =? 39) eqn:E39; [discriminate|].
  destruct (c =? 34); [discriminate|]. destruct (c =? 8); [discriminate|]. destruct (c =? 10); [discriminate|].
  destruct (c =? 13); [discriminate|]. destruct (c =? 9); [discriminate|]. destruct (c =? 26); [discriminate|].
  destruct (c =? 92) eqn:E92; [discriminate|]. split; reflexivity.
Qed.

Lemma sql_enc_some_cases c e : sql_enc c = Some e -> True.
Proof. intros _. exact I. Qed.

Lemma sql_scan_esc s : sql_scan (sql_esc s ++ [39]) = Some (s, []).
Proof.
  induction s as [|c s IH]; [reflexivity|].
  cbn [sql_esc]. destruct (sql_enc c) as [e|] eqn:E.
  - cbn [app sql_scan]. rewrite N.eqb_refl. rewrite IH.
    destruct (sql_dec_enc c e E) as [-> _]. reflexivity.
  - destruct (sql_enc_none c E) as [E92 E39].
    cbn [app sql_scan]. rewrite E92, E39, IH. reflexivity.
Qed.

Theorem sql_string_roundtrip : forall s, sql_unquote (sql_quote s) = Some (s, []).
Proof. intros s. unfold sql_unquote, sql_quote. rewrite N.eqb_refl. apply sql_scan_esc. Qed.

Theorem sql_string_oracle : forall s, sql_roundtrip_ok s (sql_unquote (sql_quote s)) = true.
Proof. intros s. rewrite sql_string_roundtrip. unfold sql_roundtrip_ok. rewrite beq_bytes_refl. reflexivity. Qed.

(* unknown escapes and the special ones, as the lexer reads them (non-vacuity of the decode table) *)
Example sql_scan_examples :
  sql_unquote [39; 92; 113; 92; 48; 92; 90; 39; 39; 97; 39] = Some ([113; 0; 26; 39; 97], []).
Proof. reflexivity. Qed.

(* ------------------------------------------------------------------ *)
(* 2. hex literals *)
Lemma hex_val_digit v : v < 16 -> hex_val (hex_digit v) = Some v.
Proof.
  intros H. assert (HS : forallb (fun n => match hex_val (hex_digit (N.of_nat n)) with Some w => w =? N.of_nat n | None => false end) (seq 0 16) = true) by (vm_compute; reflexivity).
  rewrite forallb_forall in HS. specialize (HS (N.to_nat v)).
  rewrite N2Nat.id in HS. assert (HI : In (N.to_nat v) (seq 0 16)) by (apply in_seq; lia).
  specialize (HS HI). destruct (hex_val (hex_digit v)) as [w|]; [|discriminate]. apply N.eqb_eq in HS. subst. reflexivity.
Qed.

Theorem hex_roundtrip : forall s, Forall (fun b => b < 256) s -> hex_decode (hex_encode s) = Some s.
Proof.
  intros s HF. unfold hex_decode, hex_encode.
  induction HF as [|b s Hb HF IH]; [reflexivity|].
  cbn [hex_body hex_unbody].
  assert (Hq : b / 16 < 16) by (apply N.div_lt_upper_bound; [discriminate|]; change (16 * 16) with 256; exact Hb).
  assert (Hr : b mod 16 < 16) by (apply N.mod_lt; discriminate).
  rewrite (hex_val_digit _ Hq), (hex_val_digit _ Hr), IH.
  f_equal. f_equal. symmetry. apply N.div_mod. discriminate.
Qed.

(* ------------------------------------------------------------------ *)
(* 3. CSV fields: what writeCsvRow writes for a field, the reader reads back as the same field,
   NULL and the empty string included, whatever follows (next field or end of line). *)
Section CsvField.
  Variable starts_space : bytes -> bool.
  Variable trim : bytes -> bytes.
  (* trimming removes nothing when the text does not start with white space; the delimiter and the
     quote are not white space; trimming does not go past the end of the line; whether a non-empty
     field starts with white space does not depend on the delimiter / line feed that follows it *)
  Hypothesis trim_id : forall s, starts_space s = false -> trim s = s.
  Hypothesis comma_not_space : forall r, starts_space (c_comma :: r) = false.
  Hypothesis quote_not_space : forall r, starts_space (c_quote :: r) = false.
  Hypothesis trim_lf : forall r, trim (c_lf :: r) = c_lf :: r.
  Hypothesis space_ext : forall x s c r, (c = c_comma \/ c = c_lf) ->
    starts_space ((x :: s) ++ c :: r) = starts_space (x :: s).

  Let fld (acc : bytes) : option bytes := match acc with [] => None | _ => Some acc end.

  Lemma read_quoted_esc s : forall acc c rest, (c = c_comma \/ c = c_lf) ->
    read_quoted (csv_esc s ++ c_quote :: c :: rest) acc
    = Some (Some (acc ++ s), (if c =? c_comma then FCont else FEnd), rest).
  Proof.
    induction s as [|x s IH]; intros acc c rest Hc.
    - rewrite app_nil_r. destruct Hc as [-> | ->]; reflexivity.
    - cbn [csv_esc]. destruct (x =? c_quote) eqn:E.
      + apply N.eqb_eq in E. subst x. cbn [app read_quoted]. rewrite !N.eqb_refl.
        change (c_quote =? c_comma) with false. cbv iota.
        rewrite IH by exact Hc. rewrite <- app_assoc. reflexivity.
      + cbn [app read_quoted]. rewrite E. rewrite IH by exact Hc. rewrite <- app_assoc. reflexivity.
  Qed.

  Lemma read_plain_run s : forall acc c rest, (c = c_comma \/ c = c_lf) ->
    contains_byte c_comma s = false -> contains_byte c_lf s = false ->
    read_plain (s ++ c :: rest) acc = (fld (acc ++ s), (if c =? c_comma then FCont else FEnd), rest).
  Proof.
    induction s as [|x s IH]; intros acc c rest Hc H1 H2.
    - cbn [app]. rewrite app_nil_r. destruct Hc as [-> | ->]; reflexivity.
    - cbn [contains_byte] in H1, H2. apply orb_false_iff in H1 as [H1 H1']. apply orb_false_iff in H2 as [H2 H2'].
      cbn [app read_plain]. rewrite H1, H2. rewrite IH by assumption. rewrite <- app_assoc. reflexivity.
  Qed.

  Theorem csv_field_roundtrip : forall (f : option bytes) c rest, (c = c_comma \/ c = c_lf) ->
    read_field trim (write_field starts_space f ++ c :: rest)
    = Some (f, (if c =? c_comma then FCont else FEnd), rest).
  Proof.
    intros f c rest Hc. unfold read_field, write_field.
    destruct f as [s|].
    - destruct (needs_quotes starts_space s) eqn:NQ.
      + cbn [app]. rewrite (trim_id _ (quote_not_space _)). rewrite N.eqb_refl.
        rewrite <- app_assoc. cbn [app]. rewrite read_quoted_esc by exact Hc. reflexivity.
      + destruct s as [|x s]; [discriminate NQ|].
        unfold needs_quotes in NQ.
        repeat (apply orb_false_iff in NQ; destruct NQ as [NQ ?]).
        rewrite trim_id by (rewrite space_ext by exact Hc; assumption).
        cbn [app]. 
        assert (Hx : (x =? c_quote) = false).
        { match goal with H : contains_byte c_quote (x :: s) = false |- _ => cbn [contains_byte] in H; apply orb_false_iff in H; exact (proj1 H) end. }
        rewrite Hx. change (x :: s ++ c :: rest) with ((x :: s) ++ c :: rest).
        rewrite read_plain_run by assumption. reflexivity.
    - cbn [app]. destruct Hc as [-> | ->].
      + rewrite (trim_id _ (comma_not_space _)). reflexivity.
      + rewrite trim_lf. reflexivity.
  Qed.
End CsvField.

(* ------------------------------------------------------------------ *)
(* 4. At the level of whole records the round trip does not hold for the reader as implemented:
   CR LF inside a value is turned into LF, and a record consisting of a single NULL is an empty
   line, which the reader skips.   Full statement (refuted):
     forall fs, fs <> [] -> csv_read (csv_write fs) = Some (Some fs, []). *)
Theorem csv_record_roundtrip_refuted_crlf :
  exists fs, csv_read (csv_write fs) = Some (Some [Some [10]], []) /\ fs = [Some [13; 10]].
Proof. exists [Some [13; 10]]. split; reflexivity. Qed.

Theorem csv_record_roundtrip_refuted_single_null :
  exists fs, csv_read (csv_write fs) = Some (None, []) /\ fs = [None].
Proof. exists [None]. split; reflexivity. Qed.

Example csv_record_examples :
  csv_read (csv_write [Some [97]; None; Some []; Some [34; 44; 10]; Some [32; 120]; Some [97; 13]])
  = Some (Some [Some [97]; None; Some []; Some [34; 44; 10]; Some [32; 120]; Some [97; 13]], []).
Proof. vm_compute. reflexivity. Qed.

(* ------------------------------------------------------------------ *)
(* 5. The hypotheses of csv_field_roundtrip hold for the modelled unicode.IsSpace / TrimLeftFunc. *)
Lemma trim_line_id s : starts_space_std s = false -> trim_line s = s.
Proof.
  unfold starts_space_std, trim_line. intros H. apply negb_false_iff in H. apply Nat.eqb_eq in H.
  destruct s as [|c t]; [reflexivity|]. cbn [length trim_std].
  destruct (c =? c_lf); [reflexivity|]. rewrite H. reflexivity.
Qed.

Lemma trim_line_lf r : trim_line (c_lf :: r) = c_lf :: r.
Proof. unfold trim_line. cbn [length trim_std]. rewrite N.eqb_refl. reflexivity. Qed.

Lemma space_ext_std x s c r : (c = c_comma \/ c = c_lf) ->
  starts_space_std ((x :: s) ++ c :: r) = starts_space_std (x :: s).
Proof.
  intros Hc. unfold starts_space_std. f_equal. f_equal.
  unfold space_rune_len. cbn [app].
  destruct (((9 <=? x) && (x <=? 13)) || (x =? 32)); [reflexivity|].
  destruct (x =? 194).
  { destruct s as [|y s']; cbn [app]; [|reflexivity]. destruct Hc as [-> | ->]; reflexivity. }
  destruct (x =? 225).
  { destruct s as [|y [|z s']]; cbn [app]; try reflexivity.
    - destruct Hc as [-> | ->]; reflexivity.
    - destruct Hc as [-> | ->]; unfold c_comma, c_lf;
        destruct y as [|p]; try reflexivity; repeat (destruct p as [p|p|]; try reflexivity). }
  destruct (x =? 226).
  { destruct s as [|y [|z s']]; cbn [app]; try reflexivity.
    - destruct Hc as [-> | ->]; reflexivity.
    - destruct Hc as [-> | ->]; unfold c_comma, c_lf;
        destruct y as [|p]; try reflexivity; repeat (destruct p as [p|p|]; try reflexivity). }
  destruct (x =? 227); [|reflexivity].
  destruct s as [|y [|z s']]; cbn [app]; try reflexivity.
  - destruct Hc as [-> | ->]; reflexivity.
  - destruct Hc as [-> | ->]; unfold c_comma, c_lf;
      destruct y as [|p]; try reflexivity; repeat (destruct p as [p|p|]; try reflexivity).
Qed.

Theorem csv_field_roundtrip_std : forall (f : option bytes) c rest, (c = c_comma \/ c = c_lf) ->
  read_field trim_line (write_field starts_space_std f ++ c :: rest)
  = Some (f, (if c =? c_comma then FCont else FEnd), rest).
Proof.
  apply csv_field_roundtrip.
  - exact trim_line_id.
  - reflexivity.
  - reflexivity.
  - exact trim_line_lf.
  - exact space_ext_std.
Qed.
