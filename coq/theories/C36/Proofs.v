(* C36 — proofs. *)
From Coq Require Import NArith List Bool Lia PeanoNat.
From Dolt Require Import Base.Str C36.Model C36.Spec C36.Corr.
Import ListNotations.
Local Open Scope N_scope.

(* ------------------------------------------------------------------ *)
(* 1. SQL string literals: the lexer undoes the quoting, for every byte string. *)
Lemma sql_dec_enc c e : sql_enc c = Some e -> sql_dec e = c /\ True.
Proof.
  unfold sql_enc. intros H.
  repeat match type of H with
         | (if ?b then _ else _) = _ => destruct b eqn:?E; [inversion H; subst; clear H | ]
         end; try discriminate;
  repeat match goal with Hx : (_ =? _) = true |- _ => apply N.eqb_eq in Hx; subst end;
  split; try exact I; reflexivity.
Qed.

Lemma sql_enc_none c : sql_enc c = None -> (c =? 92) = false /\ (c =? 39) = false.
Proof.
  unfold sql_enc. intros H.
  destruct (c =? 0); [discriminate|]. destruct (c =? 39) eqn:E39; [discriminate|].
  destruct (c =? 34); [discriminate|]. destruct (c =? 8); [discriminate|]. destruct (c =? 10); [discriminate|].
  destruct (c =? 13); [discriminate|]. destruct (c =? 9); [discriminate|]. destruct (c =? 26); [discriminate|].
  destruct (c =? 92) eqn:E92; [discriminate|]. split; reflexivity.
Qed.

Lemma sql_enc_some_cases c e : sql_enc c = Some e -> True.
Proof. intros _. exact I. Qed.

Lemma sql_scan_esc s : sql_scan (sql_esc s ++ [39]) = Some (s, []).
Proof.
  induction s as [|c s IH]; [reflexivity|].
  cbn [sql_esc]. destruct (sql_enc c) as [e|] eqn:E.
  - cbn [app sql_scan]. rewrite N.eqb_refl. rewrite IH.
    destruct (sql_dec_enc c e E) as [-> _]. reflexivity.
  - destruct (sql_enc_none c E) as [E92 E39].
    cbn [app sql_scan]. rewrite E92, E39, IH. reflexivity.
Qed.

Theorem sql_string_roundtrip : forall s, sql_unquote (sql_quote s) = Some (s, []).
Proof. intros s. unfold sql_unquote, sql_quote. rewrite N.eqb_refl. apply sql_scan_esc. Qed.

Theorem sql_string_oracle : forall s, sql_roundtrip_ok s (sql_unquote (sql_quote s)) = true.
Proof. intros s. rewrite sql_string_roundtrip. unfold sql_roundtrip_ok. rewrite beq_bytes_refl. reflexivity. Qed.

(* unknown escapes and the special ones, as the lexer reads them (non-vacuity of the decode table) *)
Example sql_scan_examples :
  sql_unquote [39; 92; 113; 92; 48; 92; 90; 39; 39; 97; 39] = Some ([113; 0; 26; 39; 97], []).
Proof. reflexivity. Qed.

(* ------------------------------------------------------------------ *)
(* 2. hex literals *)
Lemma hex_val_digit v : v < 16 -> hex_val (hex_digit v) = Some v.
Proof.
  intros H. assert (HS : forallb (fun n => match hex_val (hex_digit (N.of_nat n)) with Some w => w =? N.of_nat n | None => false end) (seq 0 16) = true) by (vm_compute; reflexivity).
  rewrite forallb_forall in HS. specialize (HS (N.to_nat v)).
  rewrite N2Nat.id in HS. assert (HI : In (N.to_nat v) (seq 0 16)) by (apply in_seq; lia).
  specialize (HS HI). destruct (hex_val (hex_digit v)) as [w|]; [|discriminate]. apply N.eqb_eq in HS. subst. reflexivity.
Qed.

Theorem hex_roundtrip : forall s, Forall (fun b => b < 256) s -> hex_decode (hex_encode s) = Some s.
Proof.
  intros s HF. unfold hex_decode, hex_encode.
  induction HF as [|b s Hb HF IH]; [reflexivity|].
  cbn [hex_body hex_unbody].
  assert (Hq : b / 16 < 16) by (apply N.div_lt_upper_bound; [discriminate|]; change (16 * 16) with 256; exact Hb).
  assert (Hr : b mod 16 < 16) by (apply N.mod_lt; discriminate).
  rewrite (hex_val_digit _ Hq), (hex_val_digit _ Hr), IH.
  f_equal. f_equal. symmetry. apply N.div_mod. discriminate.
Qed.

(* ------------------------------------------------------------------ *)
(* 3. CSV fields: what writeCsvRow writes for a field, the reader reads back as the same field,
   NULL and the empty string included, whatever follows (next field or end of line). *)
Section CsvField.
  Variable starts_space : bytes -> bool.
  Variable trim : bytes -> bytes.
  (* trimming removes nothing when the text does not start with white space; the delimiter and the
     quote are not white space; trimming does not go past the end of the line; whether a non-empty
     field starts with white space does not depend on the delimiter / line feed that follows it *)
  Hypothesis trim_id : forall s, starts_space s = false -> trim s = s.
  Hypothesis comma_not_space : forall r, starts_space (c_comma :: r) = false.
  Hypothesis quote_not_space : forall r, starts_space (c_quote :: r) = false.
  Hypothesis trim_lf : forall r, trim (c_lf :: r) = c_lf :: r.
  Hypothesis space_ext : forall x s c r, (c = c_comma \/ c = c_lf) ->
    starts_space ((x :: s) ++ c :: r) = starts_space (x :: s).

  Let fld (acc : bytes) : option bytes := match acc with [] => None | _ => Some acc end.

  Lemma read_quoted_esc s : forall acc c rest, (c = c_comma \/ c = c_lf) ->
    read_quoted (csv_esc s ++ c_quote :: c :: rest) acc
    = Some (Some (acc ++ s), (if c =? c_comma then FCont else FEnd), rest).
  Proof.
    induction s as [|x s IH]; intros acc c rest Hc.
    - rewrite app_nil_r. destruct Hc as [-> | ->]; reflexivity.
    - cbn [csv_esc]. destruct (x =? c_quote) eqn:E.
      + apply N.eqb_eq in E. subst x. cbn [app read_quoted]. rewrite !N.eqb_refl.
        change (c_quote =? c_comma) with false. cbv iota.
        rewrite IH by exact Hc. rewrite <- app_assoc. reflexivity.
      + cbn [app read_quoted]. rewrite E. rewrite IH by exact Hc. rewrite <- app_assoc. reflexivity.
  Qed.

  Lemma read_plain_run s : forall acc c rest, (c = c_comma \/ c = c_lf) ->
    contains_byte c_comma s = false -> contains_byte c_lf s = false ->
    read_plain (s ++ c :: rest) acc = (fld (acc ++ s), (if c =? c_comma then FCont else FEnd), rest).
  Proof.
    induction s as [|x s IH]; intros acc c rest Hc H1 H2.
    - cbn [app]. rewrite app_nil_r. destruct Hc as [-> | ->]; reflexivity.
    - cbn [contains_byte] in H1, H2. apply orb_false_iff in H1 as [H1 H1']. apply orb_false_iff in H2 as [H2 H2'].
      cbn [app read_plain]. rewrite H1, H2. rewrite IH by assumption. rewrite <- app_assoc. reflexivity.
  Qed.

  Theorem csv_field_roundtrip : forall (f : option bytes) c rest, (c = c_comma \/ c = c_lf) ->
    read_field trim (write_field starts_space f ++ c :: rest)
    = Some (f, (if c =? c_comma then FCont else FEnd), rest).
  Proof.
    intros f c rest Hc. unfold read_field, write_field.
    destruct f as [s|].
    - destruct (needs_quotes starts_space s) eqn:NQ.
      + cbn [app]. rewrite (trim_id _ (quote_not_space _)). rewrite N.eqb_refl.
        rewrite <- app_assoc. cbn [app]. rewrite read_quoted_esc by exact Hc. reflexivity.
      + destruct s as [|x s]; [discriminate NQ|].
        unfold needs_quotes in NQ.
        repeat (apply orb_false_iff in NQ; destruct NQ as [NQ ?]).
        rewrite trim_id by (rewrite space_ext by exact Hc; assumption).
        cbn [app]. 
        assert (Hx : (x =? c_quote) = false).
        { match goal with H : contains_byte c_quote (x :: s) = false |- _ => cbn [contains_byte] in H; apply orb_false_iff in H; exact (proj1 H) end. }
        rewrite Hx. change (x :: s ++ c :: rest) with ((x :: s) ++ c :: rest).
        rewrite read_plain_run by assumption. reflexivity.
    - cbn [app]. destruct Hc as [-> | ->].
      + rewrite (trim_id _ (comma_not_space _)). reflexivity.
      + rewrite trim_lf. reflexivity.
  Qed.
End CsvField.

(* ------------------------------------------------------------------ *)
(* 4. At the level of whole records the round trip does not hold for the reader as implemented:
   CR LF inside a value is turned into LF, and a record consisting of a single NULL is an empty
   line, which the reader skips.   Full statement (refuted):
     forall fs, fs <> [] -> csv_read (csv_write fs) = Some (Some fs, []). *)
Theorem csv_record_roundtrip_refuted_crlf :
  exists fs, csv_read (csv_write fs) = Some (Some [Some [10]], []) /\ fs = [Some [13; 10]].
Proof. exists [Some [13; 10]]. split; reflexivity. Qed.

Theorem csv_record_roundtrip_refuted_single_null :
  exists fs, csv_read (csv_write fs) = Some (None, []) /\ fs = [None].
Proof. exists [None]. split; reflexivity. Qed.

Example csv_record_examples :
  csv_read (csv_write [Some [97]; None; Some []; Some [34; 44; 10]; Some [32; 120]; Some [97; 13]])
  = Some (Some [Some [97]; None; Some []; Some [34; 44; 10]; Some [32; 120]; Some [97; 13]], []).
Proof. vm_compute. reflexivity. Qed.

(* ------------------------------------------------------------------ *)
(* 5. The hypotheses of csv_field_roundtrip hold for the modelled unicode.IsSpace / TrimLeftFunc. *)
Lemma trim_line_id s : starts_space_std s = false -> trim_line s = s.
Proof.
  unfold starts_space_std, trim_line. intros H. apply negb_false_iff in H. apply Nat.eqb_eq in H.
  destruct s as [|c t]; [reflexivity|]. cbn [length trim_std].
  destruct (c =? c_lf); [reflexivity|]. rewrite H. reflexivity.
Qed.

Lemma trim_line_lf r : trim_line (c_lf :: r) = c_lf :: r.
Proof. unfold trim_line. cbn [length trim_std]. rewrite N.eqb_refl. reflexivity. Qed.

Lemma space_ext_std x s c r : (c = c_comma \/ c = c_lf) ->
  starts_space_std ((x :: s) ++ c :: r) = starts_space_std (x :: s).
Proof.
  intros Hc. unfold starts_space_std. f_equal. f_equal.
  unfold space_rune_len. cbn [app].
  destruct (((9 <=? x) && (x <=? 13)) || (x =? 32)); [reflexivity|].
  destruct (x =? 194).
  { destruct s as [|y s']; cbn [app]; [|reflexivity]. destruct Hc as [-> | ->]; reflexivity. }
  destruct (x =? 225).
  { destruct s as [|y [|z s']]; cbn [app]; try reflexivity.
    - destruct Hc as [-> | ->]; reflexivity.
    - destruct Hc as [-> | ->]; unfold c_comma, c_lf;
        destruct y as [|p]; try reflexivity; repeat (destruct p as [p|p|]; try reflexivity). }
  destruct (x =? 226).
  { destruct s as [|y [|z s']]; cbn [app]; try reflexivity.
    - destruct Hc as [-> | ->]; reflexivity.
    - destruct Hc as [-> | ->]; unfold c_comma, c_lf;
        destruct y as [|p]; try reflexivity; repeat (destruct p as [p|p|]; try reflexivity). }
  destruct (x =? 227); [|reflexivity].
  destruct s as [|y [|z s']]; cbn [app]; try reflexivity.
  - destruct Hc as [-> | ->]; reflexivity.
  - destruct Hc as [-> | ->]; unfold c_comma, c_lf;
      destruct y as [|p]; try reflexivity; repeat (destruct p as [p|p|]; try reflexivity).
Qed.

Theorem csv_field_roundtrip_std : forall (f : option bytes) c rest, (c = c_comma \/ c = c_lf) ->
  read_field trim_line (write_field starts_space_std f ++ c :: rest)
  = Some (f, (if c =? c_comma then FCont else FEnd), rest).
Proof.
  apply csv_field_roundtrip.
  - exact trim_line_id.
  - reflexivity.
  - reflexivity.
  - exact trim_line_lf.
  - exact space_ext_std.
Qed.

(* ------------------------------------------------------------------ *)
(* 6. Per-type value formatting: what interfaceValueAsSqlString emits reads back as the same value. *)
Lemma parse_digits_app a : forall b acc,
  parse_digits (a ++ b) acc = match parse_digits a acc with Some x => parse_digits b x | None => None end.
Proof.
  induction a as [|c a IH]; intros b acc; [reflexivity|].
  cbn [app parse_digits]. destruct ((48 <=? c) && (c <=? 57)); [apply IH | reflexivity].
Qed.

Lemma digit_char_ok d : d < 10 -> ((48 <=? 48 + d) && (48 + d <=? 57)) = true /\ 48 + d - 48 = d.
Proof.
  intros H. split; [|lia]. apply andb_true_iff. split; apply N.leb_le; lia.
Qed.

Lemma digits_parse fuel : forall n, n < 2 ^ N.of_nat fuel -> parse_digits (digits fuel n) 0 = Some n.
Proof.
  induction fuel as [|f IH]; intros n H.
  - change (2 ^ N.of_nat 0) with 1 in H. assert (n = 0) by lia. subst. reflexivity.
  - cbn [digits]. destruct (n <? 10) eqn:E.
    + apply N.ltb_lt in E. cbn [parse_digits]. destruct (digit_char_ok n E) as [-> ->]. first [reflexivity | f_equal; lia].
    + apply N.ltb_ge in E. rewrite parse_digits_app.
      assert (Hq : n / 10 < 2 ^ N.of_nat f).
      { rewrite Nat2N.inj_succ, N.pow_succ_r' in H. apply N.div_lt_upper_bound; [discriminate|].
        assert (0 < 2 ^ N.of_nat f) by (apply N.neq_0_lt_0, N.pow_nonzero; discriminate). lia. }
      rewrite (IH _ Hq). cbn [parse_digits].
      assert (Hm : n mod 10 < 10) by (apply N.mod_lt; discriminate).
      destruct (digit_char_ok _ Hm) as [-> ->]. f_equal.
      symmetry. apply N.div_mod. discriminate.
Qed.

Lemma fmt_nat_parse n : parse_digits (fmt_nat n) 0 = Some n.
Proof.
  unfold fmt_nat. apply digits_parse. rewrite Nat2N.inj_succ, N2Nat.id.
  destruct n as [|p]; [reflexivity|]. apply N.log2_spec. reflexivity.
Qed.

Lemma digits_head_range f n : exists c t, digits (S f) n = c :: t /\ 48 <= c /\ c <= 57.
Proof.
  revert n. induction f as [|f IH]; intros n.
  - cbn [digits]. destruct (n <? 10) eqn:E.
    + apply N.ltb_lt in E. exists (48 + n), []. split; [reflexivity|]. lia.
    + pose proof (N.mod_lt n 10 ltac:(discriminate)) as Hm. exists (48 + n mod 10), []. split; [reflexivity|].
      revert Hm. generalize (n mod 10). intros r Hm. lia.
  - change (digits (S (S f)) n) with (if n <? 10 then [48 + n] else digits (S f) (n / 10) ++ [48 + n mod 10]).
    destruct (n <? 10) eqn:E.
    + apply N.ltb_lt in E. exists (48 + n), []. split; [reflexivity|]. lia.
    + destruct (IH (n / 10)) as [c [t [-> Hc]]]. exists c, (t ++ [48 + n mod 10]). split; [reflexivity | exact Hc].
Qed.

Lemma digits_head f n : exists c t, digits (S f) n = c :: t /\ (c =? 45) = false /\ (c =? 78) = false.
Proof.
  destruct (digits_head_range f n) as [c [t [H [H1 H2]]]]. exists c, t. split; [exact H|].
  split; apply N.eqb_neq; lia.
Qed.

Theorem int_fmt_roundtrip : forall z, parse_int (fmt_int z) = Some z.
Proof.
  intros [|p|p]; [reflexivity| |].
  - unfold fmt_int, parse_int. pose proof (fmt_nat_parse (Npos p)) as HP. unfold fmt_nat in *.
    destruct (digits_head (N.to_nat (N.log2 (N.pos p))) (N.pos p)) as [c [t [HD [Hc _]]]].
    rewrite HD in *. rewrite Hc. unfold parse_nat. rewrite HP. reflexivity.
  - unfold fmt_int, parse_int. rewrite N.eqb_refl.
    pose proof (fmt_nat_parse (Npos p)) as HP. unfold fmt_nat in *.
    destruct (digits_head (N.to_nat (N.log2 (N.pos p))) (N.pos p)) as [c [t [HD [Hc _]]]].
    unfold parse_nat. rewrite HD in *. rewrite HP. reflexivity.
Qed.

(* temporal values are put between quotes without escaping: safe because the formatted text has
   neither quotes nor backslashes *)
Lemma sql_scan_plain s : Forall (fun c => c <> 39 /\ c <> 92) s -> sql_scan (s ++ [39]) = Some (s, []).
Proof.
  induction 1 as [|c s [H1 H2] HF IH]; [reflexivity|].
  cbn [app sql_scan]. destruct (c =? 92) eqn:E1; [apply N.eqb_eq in E1; congruence|].
  destruct (c =? 39) eqn:E2; [apply N.eqb_eq in E2; congruence|]. rewrite IH. reflexivity.
Qed.

Definition val_ok (v : sqlval) : Prop :=
  match v with
  | VBin s => Forall (fun b => b < 256) s
  | VTemporal s => Forall (fun c => c <> 39 /\ c <> 92) s
  | VBit _ => False                       (* the BIT class is excluded: refuted below *)
  | _ => True
  end.

Lemma not_null_text t : (match t with c :: _ => negb (c =? 78) | [] => true end) = true -> beq_bytes t s_null = false.
Proof.
  destruct t as [|c t]; [reflexivity|]. intros H. unfold s_null. cbn [beq_bytes].
  apply negb_true_iff in H. rewrite H. reflexivity.
Qed.

(* Full statement (refuted for BIT): forall v, parse_val v (fmt_val v) = Some v. *)
Theorem value_fmt_roundtrip_partial : forall v, val_ok v -> parse_val v (fmt_val v) = Some v.
Proof.
  intros v HV. destruct v as [|z|s|s|s|s]; cbn [val_ok] in HV; try contradiction.
  - reflexivity.
  - unfold parse_val, fmt_val.
    assert (HN : beq_bytes (fmt_int z) s_null = false).
    { destruct z as [|p|p]; [reflexivity| |reflexivity].
      unfold fmt_int, fmt_nat. destruct (digits_head (N.to_nat (N.log2 (N.pos p))) (N.pos p)) as [c [t [-> [_ Hc]]]].
      unfold s_null. cbn [beq_bytes]. rewrite Hc. reflexivity. }
    rewrite HN, int_fmt_roundtrip. reflexivity.
  - unfold parse_val, fmt_val. change (beq_bytes (sql_quote s) s_null) with false. cbv iota.
    rewrite sql_string_roundtrip. reflexivity.
  - unfold parse_val, fmt_val. change (beq_bytes (hex_encode s) s_null) with false. cbv iota.
    rewrite (hex_roundtrip s HV). reflexivity.
  - unfold parse_val, fmt_val. change (beq_bytes (39 :: s ++ [39]) s_null) with false. cbv iota.
    unfold sql_unquote. rewrite N.eqb_refl. rewrite (sql_scan_plain s HV). reflexivity.
Qed.

(* the BIT class: the raw value byte is not a literal (import fails), or it is a digit and denotes another value *)
Theorem value_fmt_roundtrip_refuted_bit :
  parse_val (VBit [170]) (fmt_val (VBit [170])) = None
  /\ parse_val (VBit [49]) (fmt_val (VBit [49])) = Some (VBit [1]).
Proof. split; reflexivity. Qed.

(* ------------------------------------------------------------------ *)
(* 7. The oracle holds on the model's own observation of every string. *)
Theorem oracle_on_model_str : forall s, Forall (fun b => b < 256) s ->
  oracle (CStr s, OStr (sql_quote s) (hex_encode s) true s) = true.
Proof.
  intros s HF. cbn [oracle]. rewrite beq_bytes_refl. rewrite (hex_roundtrip s HF), beq_bytes_refl. reflexivity.
Qed.
Theorem model_agrees_on_model_str : forall s,
  model_agrees (CStr s, OStr (sql_quote s) (hex_encode s) true s) = true.
Proof.
  intros s. cbn [model_agrees]. rewrite !beq_bytes_refl, sql_string_roundtrip, beq_bytes_refl. reflexivity.
Qed.

(* ------------------------------------------------------------------ *)
(* 8. Decimal literals: sign, integer part and every fraction digit (the scale) survive. *)
Lemma digits_no_dot f : forall n, Forall (fun c => 48 <= c /\ c <= 57) (digits f n).
Proof.
  induction f as [|f IH]; intros n; [constructor|]. cbn [digits].
  destruct (n <? 10) eqn:E.
  - apply N.ltb_lt in E. constructor; [lia | constructor].
  - apply Forall_app. split; [apply IH|]. constructor; [|constructor].
    pose proof (N.mod_lt n 10 ltac:(discriminate)) as Hm. revert Hm. generalize (n mod 10). intros r Hm. lia.
Qed.

Lemma split_dot_digits s : forall acc rest, Forall (fun c => 48 <= c /\ c <= 57) s ->
  split_dot (s ++ 46 :: rest) acc = (rev acc ++ s, Some rest).
Proof.
  induction s as [|c s IH]; intros acc rest HF.
  - cbn [app split_dot]. rewrite N.eqb_refl, app_nil_r. reflexivity.
  - inversion HF as [|c' s' [H1 H2] HF']; subst. cbn [app split_dot].
    destruct (c =? 46) eqn:E; [apply N.eqb_eq in E; lia|].
    rewrite IH by exact HF'. cbn [rev]. rewrite <- app_assoc. reflexivity.
Qed.

Lemma split_dot_nodot s : forall acc, Forall (fun c => 48 <= c /\ c <= 57) s ->
  split_dot s acc = (rev acc ++ s, None).
Proof.
  induction s as [|c s IH]; intros acc HF.
  - cbn [split_dot]. rewrite app_nil_r. reflexivity.
  - inversion HF as [|c' s' [H1 H2] HF']; subst. cbn [split_dot].
    destruct (c =? 46) eqn:E; [apply N.eqb_eq in E; lia|].
    rewrite IH by exact HF'. cbn [rev]. rewrite <- app_assoc. reflexivity.
Qed.

Lemma frac_digits_map f : Forall (fun d => d < 10) f -> frac_digits (map (fun d => 48 + d) f) = Some f.
Proof.
  induction 1 as [|d f Hd HF IH]; [reflexivity|]. cbn [map frac_digits].
  destruct (digit_char_ok d Hd) as [-> ->]. rewrite IH. reflexivity.
Qed.

Lemma fmt_nat_parse_nat n : parse_nat (fmt_nat n) = Some n.
Proof.
  pose proof (fmt_nat_parse n) as H. unfold fmt_nat in *.
  destruct (digits_head (N.to_nat (N.log2 n)) n) as [c [t [HD _]]]. rewrite HD in *. exact H.
Qed.

Lemma sign_split c t x : (c =? 45) = false ->
  (match (c :: t) ++ x with c0 :: t0 => if c0 =? 45 then (true, t0) else (false, (c :: t) ++ x) | [] => (false, []) end)
  = (false, (c :: t) ++ x).
Proof. intros H. cbn [app]. rewrite H. reflexivity. Qed.

Theorem dec_fmt_roundtrip : forall x, Forall (fun d => d < 10) (d_frac x) -> parse_dec (fmt_dec x) = Some x.
Proof.
  intros [neg ip frac] HF. cbn [d_frac] in HF. unfold fmt_dec, parse_dec. cbn [d_neg d_int d_frac].
  pose proof (digits_no_dot (S (N.to_nat (N.log2 ip))) ip) as HD. fold (fmt_nat ip) in HD.
  assert (HH : exists c t, fmt_nat ip = c :: t /\ (c =? 45) = false).
  { unfold fmt_nat. destruct (digits_head (N.to_nat (N.log2 ip)) ip) as [c [t [E [E1 _]]]]. exists c, t. split; assumption. }
  destruct HH as [c [t [EN EC]]].
  destruct neg; cbn [app].
  - rewrite N.eqb_refl. destruct frac as [|d frac].
    + rewrite app_nil_r, split_dot_nodot by exact HD. cbn [rev app]. rewrite fmt_nat_parse_nat. reflexivity.
    + rewrite split_dot_digits by exact HD. cbn [rev app]. rewrite fmt_nat_parse_nat.
      rewrite frac_digits_map by exact HF. reflexivity.
  - destruct frac as [|d frac].
    + rewrite app_nil_r. rewrite EN. cbv iota. rewrite EC. rewrite <- EN.
      rewrite split_dot_nodot by exact HD. cbn [rev app]. rewrite fmt_nat_parse_nat. reflexivity.
    + rewrite EN. cbn [app]. rewrite EC. change (c :: t ++ 46 :: map (fun d0 => 48 + d0) (d :: frac)) with ((c :: t) ++ 46 :: map (fun d0 => 48 + d0) (d :: frac)).
      rewrite <- EN. rewrite split_dot_digits by exact HD. cbn [rev app]. rewrite fmt_nat_parse_nat.
      rewrite frac_digits_map by exact HF. reflexivity.
Qed.

(* ------------------------------------------------------------------ *)
(* 9. Batching rows into INSERT statements loses and reorders nothing, for every batch size and
   every row list. *)
Lemma concat_chunk_go {A} (n : nat) (l : list A) : forall cur k, concat (chunk_go n l cur k) = rev cur ++ l.
Proof.
  induction l as [|x t IH]; intros cur k.
  - cbn [chunk_go]. destruct cur as [|c cur']; [reflexivity|]. cbn [concat]. rewrite !app_nil_r. reflexivity.
  - cbn [chunk_go]. destruct k as [|k'].
    + cbn [concat]. rewrite IH. reflexivity.
    + rewrite IH. cbn [rev]. rewrite <- app_assoc. reflexivity.
Qed.

Theorem concat_chunks : forall {A} (n : nat) (l : list A), concat (chunks n l) = l.
Proof. intros A n l. unfold chunks. rewrite concat_chunk_go. reflexivity. Qed.

(* no statement holds more than n tuples (n > 0) *)
Lemma chunk_go_bound {A} (n : nat) (l : list A) : (0 < n)%nat -> forall cur k, (length cur + k = n)%nat ->
  Forall (fun ch => (length ch <= n)%nat) (chunk_go n l cur k).
Proof.
  intros Hn. induction l as [|x t IH]; intros cur k Hk.
  - cbn [chunk_go]. destruct cur; [constructor|]. constructor; [rewrite rev_length; lia | constructor].
  - cbn [chunk_go]. destruct k as [|k'].
    + constructor; [rewrite rev_length; lia|]. apply IH. cbn [length]. lia.
    + apply IH. cbn [length]. lia.
Qed.
Theorem chunks_bound : forall {A} (n : nat) (l : list A), (0 < n)%nat -> Forall (fun ch => (length ch <= n)%nat) (chunks n l).
Proof. intros A n l Hn. unfold chunks. apply chunk_go_bound; [exact Hn | reflexivity]. Qed.

(* the model's own observation of any row count passes the batch oracle: the tuple counts add up *)
Lemma nsum_lengths {A} (L : list (list A)) : nsum (map (fun ch => N.of_nat (length ch)) L) = N.of_nat (length (concat L)).
Proof.
  induction L as [|ch L IH]; [reflexivity|]. cbn [map nsum fold_right concat]. fold (nsum (map (fun ch => N.of_nat (length ch)) L)).
  rewrite IH, app_length. lia.
Qed.
Theorem oracle_on_model_batch : forall n, oracle (CBatch n, OBatch (model_counts n) 0 0 false) = true.
Proof.
  intros n. cbn [oracle negb andb N.eqb]. unfold model_counts. rewrite nsum_lengths, concat_chunks, repeat_length, N2Nat.id.
  apply N.eqb_refl.
Qed.
