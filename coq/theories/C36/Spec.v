(* C36 — the property, declaratively: what is written can be read back unchanged. *)
From Coq Require Import NArith List Bool.
From Dolt Require Import Base.Str C36.Model.
Import ListNotations.
Local Open Scope N_scope.

Definition obytes_eqb (a b : option bytes) : bool :=
  match a, b with
  | None, None => true
  | Some x, Some y => beq_bytes x y
  | _, _ => false
  end.
Fixpoint fields_eqb (a b : list (option bytes)) : bool :=
  match a, b with
  | [], [] => true
  | x :: a', y :: b' => obytes_eqb x y && fields_eqb a' b'
  | _, _ => false
  end.
Fixpoint rows_eqb (a b : list (list (option bytes))) : bool :=
  match a, b with
  | [], [] => true
  | x :: a', y :: b' => fields_eqb x y && rows_eqb a' b'
  | _, _ => false
  end.

(* a string literal re-read by the lexer is the original string, with nothing left over *)
Definition sql_roundtrip_ok (s : bytes) (lexed : option (bytes * bytes)) : bool :=
  match lexed with Some (u, rest) => beq_bytes u s && beq_bytes rest [] | None => false end.

(* a CSV record re-read is the original record: NULL stays NULL, the empty string stays empty *)
Definition csv_roundtrip_ok (fs : list (option bytes)) (rows : list (list (option bytes))) : bool :=
  rows_eqb rows [fs].
