(* C14 — Three-way merge is key-wise.  Model (no proofs in this file).

   Dictionaries are strictly sorted association lists key -> value (keys and
   values are numbers; a value stands for the value tuple's bytes, compared with
   bytes.Equal).  Every algorithm of the merge is a walk over two key-ordered
   streams that compares the two heads ("switch cmp"): the differ over two trees
   (diff.go), ThreeWayDiffer.Next over two diff streams, SendPatches over two
   patch streams (merge.go, point patches), ApplyPatches / the row merger over a
   patch stream and the left map (tree_patcher.go).  [walk] is that loop; each
   algorithm supplies what it does in the three cases. *)
From Coq Require Import NArith List Bool.
Import ListNotations.
Local Open Scope N_scope.

Definition dict (A : Type) := list (N * A).

Fixpoint lookup {A : Type} (k : N) (d : dict A) : option A :=
  match d with
  | [] => None
  | (k', v) :: d' => if k =? k' then Some v else lookup k d'
  end.

Definition cons_opt {C : Type} (k : N) (o : option C) (l : dict C) : dict C :=
  match o with Some c => (k, c) :: l | None => l end.

Section Walk.
  Variables A B C : Type.
  (* what to emit for a key given the heads that carry it: (Some a, None) = only
     the first stream has the key (cmp < 0), (None, Some b) = only the second
     (cmp > 0), (Some a, Some b) = both (cmp = 0) *)
  Variable f : N -> option A -> option B -> option C.

  Fixpoint walk (a : dict A) : dict B -> dict C :=
    fix go (b : dict B) : dict C :=
      match a, b with
      | [], [] => []
      | (ka, va) :: a', [] => cons_opt ka (f ka (Some va) None) (walk a' [])
      | [], (kb, vb) :: b' => cons_opt kb (f kb None (Some vb)) (go b')
      | (ka, va) :: a', (kb, vb) :: b' =>
        if ka <? kb then cons_opt ka (f ka (Some va) None) (walk a' b)
        else if kb <? ka then cons_opt kb (f kb None (Some vb)) (go b')
        else cons_opt ka (f ka (Some va) (Some vb)) (walk a' b')
      end.
End Walk.
Arguments walk {A B C} f a b.

Definition opt_eqb (x y : option N) : bool :=
  match x, y with
  | None, None => true
  | Some a, Some b => a =? b
  | _, _ => false
  end.

(* ---- diff.go: Differ.Next — (from, to) for every key whose value differs ---- *)
Definition change := (option N * option N)%type.   (* From, To; None = absent *)

Definition diff_f (_ : N) (b s : option N) : option change :=
  match b, s with
  | Some x, None => Some (Some x, None)                       (* RemovedDiff *)
  | None, Some y => Some (None, Some y)                       (* AddedDiff *)
  | Some x, Some y => if x =? y then None else Some (Some x, Some y)   (* ModifiedDiff *)
  | None, None => None
  end.
Definition diff (base side : dict N) : dict change := walk diff_f base side.

(* ---- three_way_differ.go ---- *)
(* DiffOp, numbered as in the Go iota *)
Definition LeftAdd := 0.  Definition RightAdd := 1.  Definition LeftDelete := 2.  Definition RightDelete := 3.
Definition LeftModify := 4.  Definition RightModify := 5.  Definition ConvergentAdd := 6.
Definition ConvergentDelete := 7.  Definition ConvergentModify := 8.  Definition DivergentModifyResolved := 9.
Definition DivergentDeleteConflict := 10.  Definition DivergentModifyConflict := 11.  Definition DivergentDeleteResolved := 12.

(* the collision callback: base, left, right -> Some v (resolved to v; v = None is
   "resolved: the row is deleted") | None (conflict) *)
Definition collide_t := option N -> option N -> option N -> option (option N).

(* a ThreeWayDiff as the row merger uses it: Op, Right, Merged *)
Definition twd := (N * option N * option N)%type.

(* newLeftEdit / newRightEdit / newConvergentEdit: the kind follows the DiffType *)
Definition kind3 (c : change) (add del md : N) : N :=
  match c with
  | (None, _) => add
  | (_, None) => del
  | _ => md
  end.

Section ThreeWay.
  Variable collide : collide_t.

  (* ThreeWayDiffer.Next: dsNewLeft / dsNewRight / dsMatch *)
  Definition three_way_f (_ : N) (l r : option change) : option twd :=
    match l, r with
    | Some lc, None => Some (kind3 lc LeftAdd LeftDelete LeftModify, None, None)
    | None, Some rc => Some (kind3 rc RightAdd RightDelete RightModify, snd rc, None)
    | Some (lf, lt), Some (rf, rt) =>
      match lt, rt with
      | None, None => Some (ConvergentDelete, None, None)
      | None, _ | _, None =>
        match collide lf lt rt with
        | None => Some (DivergentDeleteConflict, rt, None)
        | Some _ => Some (DivergentDeleteResolved, rt, None)
        end
      | Some x, Some y =>
        if x =? y then Some (kind3 (lf, lt) ConvergentAdd ConvergentDelete ConvergentModify, None, None)
        else match collide lf lt rt with
             | None => Some (DivergentModifyConflict, rt, None)
             | Some m => Some (DivergentModifyResolved, rt, m)
             end
      end
    | None, None => None
    end.
  Definition three_way (ld rd : dict change) : dict twd := walk three_way_f ld rd.

  (* the resolveCb invocations, in order: (base, left, right) *)
  Definition tw_calls_f (_ : N) (l r : option change) : option (option N * option N * option N) :=
    match l, r with
    | Some (lf, lt), Some (rf, rt) =>
      match lt, rt with
      | None, None => None
      | Some x, Some y => if x =? y then None else Some (lf, lt, rt)
      | _, _ => Some (lf, lt, rt)
      end
    | _, _ => None
    end.
  Definition tw_calls (ld rd : dict change) := walk tw_calls_f ld rd.

  (* the row-level merge applies the op stream onto the left map
     (merge_prolly_rows.go: right edits and resolved divergences are written,
     conflicts and left / convergent edits leave the left row) *)
  Definition apply_op_f (_ : N) (o : option twd) (l : option N) : option N :=
    match o with
    | None => l
    | Some (op, rgt, merged) =>
      if (op =? RightAdd) || (op =? RightModify) then rgt
      else if (op =? RightDelete) || (op =? DivergentDeleteResolved) then None
      else if op =? DivergentModifyResolved then merged
      else l
    end.
  Definition apply_ops (ops : dict twd) (left : dict N) : dict N := walk apply_op_f ops left.

  Definition merge_by_differ (base left right : dict N) : dict N :=
    apply_ops (three_way (diff base left) (diff base right)) left.

  (* ---- merge.go SendPatches, point patches: which right-side changes are sent ---- *)
  Definition send_f (_ : N) (l r : option change) : option (option N) :=   (* the patch's To *)
    match l, r with
    | Some _, None => None                                  (* cmp < 0: already on the left map *)
    | None, Some (rf, rt) => Some rt                        (* cmp > 0: SendPatch(right) *)
    | Some (lf, lt), Some (rf, rt) =>
      if opt_eqb lt rt then None                            (* bytes.Equal(left.To, right.To) *)
      else collide lf lt rt                                 (* resolveCollision: patch only if ok *)
    | None, None => None
    end.
  Definition send_patches (ld rd : dict change) : dict (option N) := walk send_f ld rd.

  Definition send_calls_f (_ : N) (l r : option change) : option (option N * option N * option N) :=
    match l, r with
    | Some (lf, lt), Some (rf, rt) => if opt_eqb lt rt then None else Some (lf, lt, rt)
    | _, _ => None
    end.
  Definition send_calls (ld rd : dict change) := walk send_calls_f ld rd.

  (* ---- tree_patcher.go ApplyPatches / applyLeafPatch: To = nil deletes, else upsert ---- *)
  Definition patch_f (_ : N) (p : option (option N)) (l : option N) : option N :=
    match p with Some to => to | None => l end.
  Definition apply_patches (ps : dict (option N)) (left : dict N) : dict N := walk patch_f ps left.

  Definition merge_by_patches (base left right : dict N) : dict N :=
    apply_patches (send_patches (diff base left) (diff base right)) left.

  (* ---- range (chunk-level) patches: patch_generator.go Patch with Level > 0 ----
     A patch is either a point change (Level 0: EndKey, To) or a range
     (KeyBelowStart, EndKey] together with the subtree that replaces everything in
     that range (To = address of a node of the right tree; nil for a removed
     chunk).  tree_patcher.go applyNodePatch: the keys of the left map in
     (KeyBelowStart, EndKey] are dropped and the entries of the node are written.
     KeyBelowStart = nil (first chunk of a level) is None. *)
End ThreeWay.

Inductive patch :=
| PPoint (k : N) (to : option N)
| PRange (lo : option N) (hi : N) (content : dict N).

Definition in_range (lo : option N) (hi k : N) : bool :=
  (match lo with None => true | Some l => l <? k end) && (k <=? hi).

Definition range_f (lo : option N) (hi : N) (k : N) (c l : option N) : option N :=
  if in_range lo hi k then c else l.
Definition apply_range (lo : option N) (hi : N) (content left : dict N) : dict N :=
  walk (range_f lo hi) content left.

Definition apply_patch (p : patch) (d : dict N) : dict N :=
  match p with
  | PPoint k to => walk (fun _ (p : option (option N)) (l : option N) => match p with Some to => to | None => l end) [(k, to)] d
  | PRange lo hi c => apply_range lo hi c d
  end.

(* ApplyPatches consumes the ordered stream in one pass; its meaning is the
   patches applied one after the other *)
Definition apply_stream (ps : list patch) (d : dict N) : dict N := fold_left (fun d p => apply_patch p d) ps d.

Definition covers (p : patch) (k : N) : bool :=
  match p with PPoint k0 _ => k =? k0 | PRange lo hi _ => in_range lo hi k end.
Definition covered (ps : list patch) (k : N) : bool := existsb (fun p => covers p k) ps.

Section ThreeWayStats.
  Variable collide : collide_t.

  (* merge statistics of the row-level path (merge_prolly_rows.go: s.Adds / Modifications / Deletes / DataConflicts) *)
  Definition count_ops (p : N -> bool) (ops : dict twd) : N :=
    N.of_nat (length (filter (fun e => p (fst (fst (snd e)))) ops)).
End ThreeWayStats.
