(* C14 — proofs: every theorem is for EVERY base / left / right (strictly sorted
   dictionaries) and EVERY collision handler. *)
From Coq Require Import NArith List Bool Lia.
From Dolt Require Import C14.Model C14.Spec C14.Corr.
Import ListNotations.
Local Open Scope N_scope.

(* ------------------------------------------------------------------------- *)
(* strictly sorted dictionaries and the generic walk                          *)
Definition lbd {A : Type} (k : N) (d : dict A) : Prop := Forall (fun p => k < fst p) d.

Fixpoint sorted {A : Type} (d : dict A) : Prop :=
  match d with
  | [] => True
  | (k, _) :: d' => lbd k d' /\ sorted d'
  end.

Lemma lbd_weaken : forall A (d : dict A) k k', k' <= k -> lbd k d -> lbd k' d.
Proof.
  intros A d k k' Hle H. unfold lbd in *. eapply Forall_impl; [|exact H].
  intros p Hp. cbn in *. lia.
Qed.

Lemma lookup_lbd_none : forall A (d : dict A) k k', lbd k d -> k' <= k -> lookup k' d = None.
Proof.
  intros A d; induction d as [|[k0 v0] d IH]; intros k k' H Hle; [reflexivity|].
  inversion H as [|p l Hp Hl]; subst. cbn [fst] in Hp. cbn [lookup].
  destruct (k' =? k0) eqn:E; [apply N.eqb_eq in E; lia|]. eapply IH; eauto.
Qed.

Lemma sorted_tail_lbd : forall A (d : dict A) k v, sorted ((k, v) :: d) -> lbd k d.
Proof. intros A d k v [H _]. exact H. Qed.

Lemma lbd_cons_opt : forall C k k0 (o : option C) (l : dict C), k < k0 -> lbd k l -> lbd k (cons_opt k0 o l).
Proof. intros C k k0 [c|] l Hk Hl; cbn [cons_opt]; [constructor; [exact Hk|exact Hl]|exact Hl]. Qed.

Lemma sorted_cons_opt : forall C k0 (o : option C) (l : dict C), lbd k0 l -> sorted l -> sorted (cons_opt k0 o l).
Proof. intros C k0 [c|] l Hl Hs; cbn [cons_opt sorted]; auto. Qed.

Lemma lookup_cons_opt : forall C k k0 (o : option C) (l : dict C),
  lookup k (cons_opt k0 o l) = if k =? k0 then match o with Some c => Some c | None => lookup k l end else lookup k l.
Proof.
  intros C k k0 [c|] l; cbn [cons_opt lookup]; [reflexivity|]. destruct (k =? k0); reflexivity.
Qed.

Section WalkFacts.
  Variables A B C : Type.
  Variable f : N -> option A -> option B -> option C.

  Lemma walk_nil_l : forall kb vb b, walk f [] ((kb, vb) :: b) = cons_opt kb (f kb None (Some vb)) (walk f [] b).
  Proof. reflexivity. Qed.
  Lemma walk_nil_r : forall ka va a, walk f ((ka, va) :: a) [] = cons_opt ka (f ka (Some va) None) (walk f a []).
  Proof. reflexivity. Qed.
  Lemma walk_cons : forall ka va a kb vb b,
    walk f ((ka, va) :: a) ((kb, vb) :: b) =
    if ka <? kb then cons_opt ka (f ka (Some va) None) (walk f a ((kb, vb) :: b))
    else if kb <? ka then cons_opt kb (f kb None (Some vb)) (walk f ((ka, va) :: a) b)
    else cons_opt ka (f ka (Some va) (Some vb)) (walk f a b).
  Proof. reflexivity. Qed.

  Lemma walk_lbd : forall a b k, lbd k a -> lbd k b -> lbd k (walk f a b).
  Proof.
    induction a as [|[ka va] a IHa]; intro b; induction b as [|[kb vb] b IHb]; intros k Ha Hb.
    - constructor.
    - rewrite walk_nil_l. inversion Hb; subst. apply lbd_cons_opt; [assumption|]. apply IHb; assumption.
    - rewrite walk_nil_r. inversion Ha; subst. apply lbd_cons_opt; [assumption|]. apply IHa; [assumption|constructor].
    - rewrite walk_cons. inversion Ha as [|? ? Hka Ha']; inversion Hb as [|? ? Hkb Hb']; subst. cbn [fst] in *.
      destruct (ka <? kb); [|destruct (kb <? ka)]; apply lbd_cons_opt; auto.
  Qed.

  Lemma walk_sorted : forall a b, sorted a -> sorted b -> sorted (walk f a b).
  Proof.
    induction a as [|[ka va] a IHa]; intro b; induction b as [|[kb vb] b IHb]; intros Ha Hb.
    - exact Logic.I.
    - rewrite walk_nil_l. destruct Hb as [Hl Hs]. apply sorted_cons_opt; [apply walk_lbd; [constructor|exact Hl]|apply IHb; [exact Ha|exact Hs]].
    - rewrite walk_nil_r. destruct Ha as [Hl Hs]. apply sorted_cons_opt; [apply walk_lbd; [exact Hl|constructor]|apply IHa; [exact Hs|exact Logic.I]].
    - rewrite walk_cons. destruct Ha as [Hla Hsa]. destruct Hb as [Hlb Hsb].
      destruct (ka <? kb) eqn:E1; [|destruct (kb <? ka) eqn:E2].
      + apply N.ltb_lt in E1. apply sorted_cons_opt.
        * apply walk_lbd; [exact Hla|]. constructor; [exact E1|]. eapply lbd_weaken; [|exact Hlb]. lia.
        * apply IHa; [exact Hsa|]. split; assumption.
      + apply N.ltb_lt in E2. apply sorted_cons_opt.
        * apply walk_lbd; [|exact Hlb]. constructor; [exact E2|]. eapply lbd_weaken; [|exact Hla]. lia.
        * apply IHb; [split; assumption|exact Hsb].
      + apply N.ltb_ge in E1. apply N.ltb_ge in E2. assert (ka = kb) by lia. subst kb.
        apply sorted_cons_opt; [apply walk_lbd; assumption|apply IHa; assumption].
  Qed.

  Definition pw (k : N) (x : option A) (y : option B) : option C :=
    match x, y with None, None => None | _, _ => f k x y end.

  Lemma walk_lookup : forall a b k, sorted a -> sorted b ->
    lookup k (walk f a b) = pw k (lookup k a) (lookup k b).
  Proof.
    induction a as [|[ka va] a IHa]; intro b; induction b as [|[kb vb] b IHb]; intros k Ha Hb.
    - reflexivity.
    - rewrite walk_nil_l, lookup_cons_opt. destruct Hb as [Hl Hs]. cbn [lookup].
      destruct (k =? kb) eqn:E.
      + apply N.eqb_eq in E; subst k. cbn [pw].
        destruct (f kb None (Some vb)); [reflexivity|].
        apply (lookup_lbd_none _ _ kb kb); [apply walk_lbd; [constructor|exact Hl]|lia].
      + rewrite (IHb k Ha Hs). reflexivity.
    - rewrite walk_nil_r, lookup_cons_opt. destruct Ha as [Hl Hs]. cbn [lookup].
      destruct (k =? ka) eqn:E.
      + apply N.eqb_eq in E; subst k. cbn [pw].
        destruct (f ka (Some va) None); [reflexivity|].
        apply (lookup_lbd_none _ _ ka ka); [apply walk_lbd; [exact Hl|constructor]|lia].
      + rewrite (IHa [] k Hs Logic.I). reflexivity.
    - rewrite walk_cons. destruct Ha as [Hla Hsa]. destruct Hb as [Hlb Hsb].
      destruct (ka <? kb) eqn:E1; [|destruct (kb <? ka) eqn:E2].
      + apply N.ltb_lt in E1. rewrite lookup_cons_opt. cbn [lookup]. destruct (k =? ka) eqn:E.
        * apply N.eqb_eq in E; subst k.
          assert (Hb0 : lookup ka ((kb, vb) :: b) = None).
          { apply (lookup_lbd_none _ _ ka ka); [|lia]. constructor; [exact E1|]. eapply lbd_weaken; [|exact Hlb]. lia. }
          cbn [lookup] in Hb0. rewrite Hb0. cbn [pw].
          destruct (f ka (Some va) None); [reflexivity|].
          apply (lookup_lbd_none _ _ ka ka); [|lia]. apply walk_lbd; [exact Hla|].
          constructor; [exact E1|]. eapply lbd_weaken; [|exact Hlb]. lia.
        * rewrite (IHa ((kb, vb) :: b) k Hsa (conj Hlb Hsb)). reflexivity.
      + apply N.ltb_lt in E2. rewrite lookup_cons_opt. cbn [lookup]. destruct (k =? kb) eqn:E.
        * apply N.eqb_eq in E; subst k.
          assert (Ha0 : lookup kb ((ka, va) :: a) = None).
          { apply (lookup_lbd_none _ _ kb kb); [|lia]. constructor; [exact E2|]. eapply lbd_weaken; [|exact Hla]. lia. }
          cbn [lookup] in Ha0. rewrite Ha0. cbn [pw].
          destruct (f kb None (Some vb)); [reflexivity|].
          apply (lookup_lbd_none _ _ kb kb); [|lia]. apply walk_lbd; [|exact Hlb].
          constructor; [exact E2|]. eapply lbd_weaken; [|exact Hla]. lia.
        * assert (Hsa' : sorted ((ka, va) :: a)) by (split; assumption).
          rewrite (IHb k Hsa' Hsb). cbn [lookup]. reflexivity.
      + apply N.ltb_ge in E1. apply N.ltb_ge in E2. assert (ka = kb) by lia. subst kb.
        rewrite lookup_cons_opt. cbn [lookup]. destruct (k =? ka) eqn:E.
        * apply N.eqb_eq in E; subst k. cbn [pw].
          destruct (f ka (Some va) (Some vb)); [reflexivity|].
          apply (lookup_lbd_none _ _ ka ka); [|lia]. apply walk_lbd; assumption.
        * rewrite (IHa b k Hsa Hsb). reflexivity.
  Qed.
End WalkFacts.

Lemma sorted_ext : forall A (a b : dict A), sorted a -> sorted b ->
  (forall k, lookup k a = lookup k b) -> a = b.
Proof.
  intros A a; induction a as [|[ka va] a IH]; intros [|[kb vb] b] Ha Hb H.
  - reflexivity.
  - specialize (H kb). cbn [lookup] in H. rewrite N.eqb_refl in H. discriminate.
  - specialize (H ka). cbn [lookup] in H. rewrite N.eqb_refl in H. discriminate.
  - destruct Ha as [Hla Hsa]. destruct Hb as [Hlb Hsb].
    assert (ka = kb).
    { pose proof (H ka) as H1. pose proof (H kb) as H2. cbn [lookup] in H1, H2.
      rewrite N.eqb_refl in H1, H2.
      destruct (ka =? kb) eqn:E; [apply N.eqb_eq, E|].
      destruct (kb =? ka) eqn:E'; [apply N.eqb_eq in E'; congruence|].
      destruct (N.lt_total ka kb) as [Hlt|[Heq|Hgt]]; [|exact Heq|].
      - rewrite (lookup_lbd_none _ b kb ka Hlb) in H1 by lia. discriminate.
      - rewrite (lookup_lbd_none _ a ka kb Hla) in H2 by lia. discriminate. }
    subst kb. pose proof (H ka) as H1. cbn [lookup] in H1. rewrite N.eqb_refl in H1. inversion H1; subst vb.
    f_equal. apply IH; [exact Hsa|exact Hsb|]. intro k. specialize (H k). cbn [lookup] in H.
    destruct (k =? ka) eqn:E; [|exact H].
    apply N.eqb_eq in E; subst k.
    rewrite (lookup_lbd_none _ a ka ka Hla), (lookup_lbd_none _ b ka ka Hlb) by lia. reflexivity.
Qed.

Lemma sorted_sortedb : forall A (d : dict A), sorted d -> sortedb d = true.
Proof.
  intros A d; induction d as [|[k v] d IH]; intro H; [reflexivity|].
  destruct H as [Hl Hs]. cbn [sortedb]. destruct d as [|[k' v'] d']; [reflexivity|].
  inversion Hl; subst. cbn [fst] in *. rewrite (proj2 (N.ltb_lt _ _)) by assumption. cbn [andb]. apply IH, Hs.
Qed.

Lemma opt_eqb_eq : forall x y, opt_eqb x y = true <-> x = y.
Proof.
  intros [x|] [y|]; cbn [opt_eqb]; split; intro H; try discriminate; try reflexivity.
  - apply N.eqb_eq in H. congruence.
  - inversion H. apply N.eqb_refl.
Qed.

Lemma opt_eqb_refl : forall x, opt_eqb x x = true.
Proof. intro x. apply opt_eqb_eq. reflexivity. Qed.

(* ------------------------------------------------------------------------- *)
Section Merge.
  Variable collide : collide_t.
  Variables base left right : dict N.
  Hypothesis Hb : sorted base.
  Hypothesis Hl : sorted left.
  Hypothesis Hr : sorted right.

  (* the differ reports exactly the keys whose value differs, with from/to *)
  Lemma diff_sorted : forall side, sorted side -> sorted (diff base side).
  Proof. intros. apply walk_sorted; assumption. Qed.

  Lemma diff_lookup : forall side k, sorted side ->
    lookup k (diff base side) =
    if opt_eqb (lookup k base) (lookup k side) then None else Some (lookup k base, lookup k side).
  Proof.
    intros side k Hs. unfold diff. rewrite walk_lookup by assumption. unfold pw, diff_f.
    destruct (lookup k base) as [x|], (lookup k side) as [y|]; cbn [opt_eqb]; reflexivity.
  Qed.

  Ltac cases k :=
    rewrite !diff_lookup by assumption;
    destruct (lookup k base) as [b|], (lookup k left) as [l|], (lookup k right) as [r|];
    unfold pw, classify, handler_call, merge3_key, divergent, changed, kind_of, kind3;
    cbn [opt_eqb negb andb fst snd];
    repeat match goal with
           | |- context [?x =? ?y] => let E := fresh "E" in destruct (x =? y) eqn:E;
                                      [apply N.eqb_eq in E; subst|]; cbn [opt_eqb negb andb fst snd]
           end;
    rewrite ?N.eqb_refl; cbn [opt_eqb negb andb fst snd].

  (* three_way_differ_spec: each key is classified per the declarative rule *)
  Theorem three_way_differ_spec : forall k,
    lookup k (three_way collide (diff base left) (diff base right)) =
    classify collide (lookup k base) (lookup k left) (lookup k right).
  Proof.
    intro k. unfold three_way. rewrite walk_lookup by (apply diff_sorted; assumption).
    unfold three_way_f. cases k; try reflexivity;
    repeat match goal with |- context [collide ?a ?b ?c] => destruct (collide a b c) end; try reflexivity; try congruence.
  Qed.

  Theorem three_way_sorted : sorted (three_way collide (diff base left) (diff base right)).
  Proof. apply walk_sorted; apply diff_sorted; assumption. Qed.

  (* ... and exactly the divergent keys reach the callback, with (base, left, right) *)
  Theorem three_way_calls_spec : forall k,
    lookup k (tw_calls (diff base left) (diff base right)) =
    handler_call (lookup k base) (lookup k left) (lookup k right).
  Proof.
    intro k. unfold tw_calls. rewrite walk_lookup by (apply diff_sorted; assumption).
    unfold tw_calls_f. cases k; try reflexivity; try congruence.
  Qed.

  Theorem send_calls_spec : forall k,
    lookup k (send_calls (diff base left) (diff base right)) =
    handler_call (lookup k base) (lookup k left) (lookup k right).
  Proof.
    intro k. unfold send_calls. rewrite walk_lookup by (apply diff_sorted; assumption).
    unfold send_calls_f. cases k; try reflexivity; try congruence.
  Qed.

  (* both routes invoke the handler on the same keys with the same arguments, in the same order *)
  Theorem calls_agree :
    tw_calls (diff base left) (diff base right) = send_calls (diff base left) (diff base right).
  Proof.
    apply sorted_ext; try (apply walk_sorted; apply diff_sorted; assumption).
    intro k. rewrite three_way_calls_spec, send_calls_spec. reflexivity.
  Qed.

  (* merge_result_spec, patch route: the result map is the key-wise merge, for every handler *)
  Theorem patch_merge_spec : forall k,
    lookup k (merge_by_patches collide base left right) =
    merge3_key collide (lookup k base) (lookup k left) (lookup k right).
  Proof.
    intro k. unfold merge_by_patches, apply_patches, send_patches.
    rewrite walk_lookup; [|apply walk_sorted; apply diff_sorted; assumption|assumption].
    rewrite walk_lookup by (apply diff_sorted; assumption).
    unfold send_f, patch_f. cases k; try reflexivity;
    repeat match goal with |- context [collide ?a ?b ?c] => destruct (collide a b c) as [[?|]|] end;
    cbn [pw]; try reflexivity; try congruence.
  Qed.

  Theorem patch_merge_sorted : sorted (merge_by_patches collide base left right).
  Proof. apply walk_sorted; [apply walk_sorted; apply diff_sorted; assumption|assumption]. Qed.

  (* The differ route treats a resolved divergent delete as a delete.  It agrees
     with the key-wise merge for every handler that resolves a divergent delete
     to "deleted" (the only resolution the row merger can return there). *)
  Definition delete_resolves_to_delete : Prop :=
    forall b l r v, (l = None \/ r = None) -> collide b l r = Some v -> v = None.

  Theorem differ_merge_spec : delete_resolves_to_delete -> forall k,
    lookup k (merge_by_differ collide base left right) =
    merge3_key collide (lookup k base) (lookup k left) (lookup k right).
  Proof.
    intros Hd k. unfold merge_by_differ, apply_ops.
    rewrite walk_lookup; [|apply three_way_sorted|assumption].
    rewrite three_way_differ_spec.
    pose proof (Hd (lookup k base) (lookup k left) (lookup k right)) as Hd'.
    destruct (lookup k base) as [b|], (lookup k left) as [l|], (lookup k right) as [r|];
    unfold pw, classify, merge3_key, changed, kind_of;
    cbn [opt_eqb negb andb fst snd];
    repeat match goal with
           | |- context [?x =? ?y] => is_var x; is_var y;
                                      let E := fresh "E" in destruct (x =? y) eqn:E;
                                      [apply N.eqb_eq in E; subst|]; cbn [opt_eqb negb andb fst snd]
           end;
    rewrite ?N.eqb_refl; cbn [opt_eqb negb andb fst snd]; try reflexivity;
    repeat match goal with
           | |- context [collide ?a ?b ?c] => let E := fresh "Ec" in destruct (collide a b c) as [v|] eqn:E
           end; try reflexivity;
    try (assert (v = None) by (apply Hd'; auto); subst v; reflexivity).
  Qed.

  Theorem differ_merge_sorted : sorted (merge_by_differ collide base left right).
  Proof. apply walk_sorted; [apply three_way_sorted|assumption]. Qed.

  (* patch_merge_eq_differ: the chunk-level patch merge and the key-level differ
     merge give the same map (and, by [calls_agree], the same handler calls) *)
  Theorem patch_merge_eq_differ : delete_resolves_to_delete ->
    merge_by_patches collide base left right = merge_by_differ collide base left right.
  Proof.
    intro Hd. apply sorted_ext; [apply patch_merge_sorted|apply differ_merge_sorted|].
    intro k. rewrite patch_merge_spec, differ_merge_spec by assumption. reflexivity.
  Qed.

  (* ----------------------------------------------------------------------- *)
  (* Range (chunk-level) patches stand for exactly the point changes of the keys
     they cover.  [P] is the point-level patch set (what SendPatches would send
     if every patch were split down to level 0), [M] the merged map.

     A patch of a stream is acceptable when
       - a point patch is one of the point patches of P;
       - a range patch (lo, hi] carries exactly the right map's entries of that
         range, and the left side changed nothing in it (SendPatches splits a
         range as soon as a patch of the other side overlaps it, so only such
         ranges are ever sent).
     Then every stream of acceptable patches that covers all keys of P — however
     the generator chose and split its ranges, in whatever order — applied to the
     left map gives M.  So patch_merge_spec / patch_merge_eq_differ hold for what
     the code sends, not only for its point-level refinement. *)
  Notation Pset := (send_patches collide (diff base left) (diff base right)).
  Notation Mmap := (merge_by_patches collide base left right).

  Definition patch_ok (p : patch) : Prop :=
    match p with
    | PPoint k to => lookup k Pset = Some to
    | PRange lo hi c =>
      sorted c /\
      (forall k, lookup k c = if in_range lo hi k then lookup k right else None) /\
      (forall k, in_range lo hi k = true -> lookup k left = lookup k base)
    end.

  Lemma Pset_sorted : sorted Pset.
  Proof. apply walk_sorted; apply diff_sorted; assumption. Qed.

  Lemma Mmap_lookup : forall k,
    lookup k Mmap = match lookup k Pset with Some to => to | None => lookup k left end.
  Proof.
    intro k. unfold merge_by_patches, apply_patches. rewrite walk_lookup by (apply Pset_sorted || assumption).
    unfold pw, patch_f. destruct (lookup k Pset), (lookup k left); reflexivity.
  Qed.

  (* inside an untouched-on-the-left range the merged map is the right map *)
  Lemma Mmap_in_clean_range : forall k, lookup k left = lookup k base -> lookup k Mmap = lookup k right.
  Proof.
    intros k H. rewrite patch_merge_spec. unfold merge3_key, changed. rewrite H.
    destruct (opt_eqb (lookup k base) (lookup k right)) eqn:E; cbn [negb].
    - apply opt_eqb_eq in E. exact E.
    - rewrite opt_eqb_refl. reflexivity.
  Qed.

  Lemma apply_patch_lookup : forall p d, sorted d -> patch_ok p ->
    sorted (apply_patch p d) /\
    forall k, lookup k (apply_patch p d) = if covers p k then lookup k Mmap else lookup k d.
  Proof.
    intros [k0 to|lo hi c] d Hd Hok; cbn [apply_patch covers].
    - assert (Hs : sorted [(k0, to)]) by (split; [constructor|exact Logic.I]).
      split; [apply walk_sorted; assumption|]. intro k. rewrite walk_lookup by assumption.
      cbn [lookup patch_ok] in *. unfold pw. destruct (k =? k0) eqn:E.
      + apply N.eqb_eq in E; subst k. rewrite Mmap_lookup, Hok. reflexivity.
      + destruct (lookup k d); reflexivity.
    - destruct Hok as (Hc & Hcont & Hclean). unfold apply_range.
      split; [apply walk_sorted; assumption|]. intro k. rewrite walk_lookup by assumption.
      unfold pw, range_f. rewrite (Hcont k). destruct (in_range lo hi k) eqn:E.
      + rewrite (Mmap_in_clean_range k (Hclean k E)). destruct (lookup k right), (lookup k d); reflexivity.
      + destruct (lookup k d); reflexivity.
  Qed.

  Lemma apply_stream_lookup : forall ps d, sorted d -> Forall patch_ok ps ->
    sorted (apply_stream ps d) /\
    forall k, lookup k (apply_stream ps d) = if covered ps k then lookup k Mmap else lookup k d.
  Proof.
    induction ps as [|p ps IH]; intros d Hd Hok; cbn [apply_stream fold_left covered existsb].
    - split; [exact Hd|reflexivity].
    - inversion Hok as [|? ? Hp Hps]; subst.
      destruct (apply_patch_lookup p d Hd Hp) as [Hs Hlk].
      destruct (IH _ Hs Hps) as [Hs' Hlk']. split; [exact Hs'|].
      intro k. unfold apply_stream in Hlk'. rewrite Hlk', Hlk. fold (covered ps k).
      destruct (covers p k), (covered ps k); reflexivity.
  Qed.

  Theorem range_patches_sound : forall ps,
    Forall patch_ok ps ->
    (forall k to, lookup k Pset = Some to -> covered ps k = true) ->
    apply_stream ps left = Mmap.
  Proof.
    intros ps Hok Hcov. destruct (apply_stream_lookup ps left Hl Hok) as [Hs Hlk].
    apply sorted_ext; [exact Hs|apply patch_merge_sorted; assumption|].
    intro k. rewrite Hlk. destruct (covered ps k) eqn:E; [reflexivity|].
    rewrite Mmap_lookup. destruct (lookup k Pset) as [to|] eqn:Ep; [|reflexivity].
    rewrite (Hcov k to Ep) in E. discriminate.
  Qed.

  (* a single range patch = the point patches of the keys it covers *)
  Corollary range_patch_is_its_points : forall lo hi c k,
    patch_ok (PRange lo hi c) ->
    lookup k (apply_patch (PRange lo hi c) left) =
    if in_range lo hi k then lookup k (apply_patches Pset left) else lookup k left.
  Proof.
    intros lo hi c k Hok. destruct (apply_patch_lookup _ left Hl Hok) as [_ H]. rewrite H. reflexivity.
  Qed.
End Merge.

(* ------------------------------------------------------------------------- *)
(* oracle_on_model: the executable statement of the property holds on the model's
   own observation, for every input and every handler mode that resolves a
   divergent delete to "deleted" or to a conflict (all modes of collide_mode). *)
Lemma In_lookup : forall A (d : dict A) k v, sorted d -> In (k, v) d -> lookup k d = Some v.
Proof.
  intros A d; induction d as [|[k0 v0] d IH]; intros k v Hs Hin; [destruct Hin|].
  destruct Hs as [Hl Hs]. cbn [lookup]. destruct Hin as [Heq|Hin].
  - inversion Heq; subst. rewrite N.eqb_refl. reflexivity.
  - destruct (k =? k0) eqn:E; [|apply IH; assumption].
    apply N.eqb_eq in E; subst k0. unfold lbd in Hl. rewrite Forall_forall in Hl.
    specialize (Hl _ Hin). cbn in Hl. lia.
Qed.

Lemma lookup_In : forall A (d : dict A) k v, lookup k d = Some v -> In (k, v) d.
Proof.
  intros A d; induction d as [|[k0 v0] d IH]; intros k v H; cbn [lookup] in H; [discriminate|].
  destruct (k =? k0) eqn:E.
  - apply N.eqb_eq in E; subst. inversion H; subst. left; reflexivity.
  - right. apply IH, H.
Qed.

Lemma oeqb_refl : forall A (e : A -> A -> bool), (forall x, e x x = true) -> forall o, oeqb e o o = true.
Proof. intros A e He [x|]; cbn [oeqb]; [apply He|reflexivity]. Qed.

Lemma twd_eqb_refl : forall t, twd_eqb t t = true.
Proof. intros [[o r] m]. cbn [twd_eqb]. rewrite N.eqb_refl, !opt_eqb_refl. reflexivity. Qed.

Lemma triple_eqb_refl : forall t, triple_eqb t t = true.
Proof. intros [[b l] r]. cbn [triple_eqb]. rewrite !opt_eqb_refl. reflexivity. Qed.

Lemma list_eqb_refl : forall A (e : A -> A -> bool), (forall x, e x x = true) -> forall l, list_eqb e l l = true.
Proof. intros A e He l; induction l as [|x l IH]; cbn [list_eqb]; [reflexivity|]. rewrite He, IH. reflexivity. Qed.

Lemma entry_eqb_refl : forall A (e : A -> A -> bool), (forall x, e x x = true) -> forall x, entry_eqb e x x = true.
Proof. intros A e He [k v]. unfold entry_eqb. cbn [fst snd]. rewrite N.eqb_refl, He. reflexivity. Qed.

Lemma pointwise_true : forall A (e : option A -> option A -> bool) keys (d : dict A) spec,
  sorted d -> (forall k, lookup k d = spec k) -> (forall x, e x x = true) -> pointwise e keys d spec = true.
Proof.
  intros A e keys d spec Hs Hl He. unfold pointwise. rewrite (sorted_sortedb _ _ Hs). cbn [andb].
  apply forallb_forall. intros k _. rewrite Hl. apply He.
Qed.

Theorem oracle_on_model : forall i,
  sorted (i_base i) -> sorted (i_left i) -> sorted (i_right i) ->
  delete_resolves_to_delete (collide_mode (i_mode i)) ->
  oracle i (model_obs i) = true.
Proof.
  intros i Hb Hl Hr Hd. unfold oracle, model_obs. cbn [d_ops d_calls p_res p_calls p_canon p_stream].
  set (c := collide_mode (i_mode i)). set (B := i_base i) in *. set (L := i_left i) in *. set (R := i_right i) in *.
  set (P := send_patches c (diff B L) (diff B R)).
  assert (HP : sorted P) by (apply Pset_sorted; assumption).
  assert (Hok : Forall (patch_ok c B L R) (map (fun e => PPoint (fst e) (snd e)) P)).
  { apply Forall_forall. intros p Hin. apply in_map_iff in Hin as [[k to] [<- Hin]]. cbn [fst snd patch_ok].
    apply In_lookup; assumption. }
  assert (Hcov : forall k to, lookup k P = Some to -> covered (map (fun e => PPoint (fst e) (snd e)) P) k = true).
  { intros k to H. apply lookup_In in H. unfold covered. apply existsb_exists.
    exists (PPoint k to). split; [apply in_map_iff; exists (k, to); split; [reflexivity|exact H]|].
    cbn [covers]. apply N.eqb_refl. }
  rewrite pointwise_true; [|apply three_way_sorted; assumption| |apply oeqb_refl, twd_eqb_refl];
    [|intro k; apply three_way_differ_spec; assumption].
  rewrite pointwise_true; [|apply walk_sorted; apply diff_sorted; assumption| |apply oeqb_refl, triple_eqb_refl];
    [|intro k; apply send_calls_spec; assumption].
  rewrite (calls_agree B L R Hb Hl Hr). rewrite (list_eqb_refl _ triple_eqb triple_eqb_refl).
  rewrite pointwise_true; [|apply patch_merge_sorted; assumption| |apply oeqb_refl, N.eqb_refl];
    [|intro k; apply patch_merge_spec; assumption].
  rewrite (range_patches_sound c B L R Hb Hl Hr _ Hok Hcov).
  rewrite (list_eqb_refl _ (entry_eqb N.eqb)) by (intro x; apply entry_eqb_refl, N.eqb_refl).
  cbn [andb]. rewrite andb_true_r.
  unfold stream_okb. fold P. apply andb_true_iff. split.
  - apply forallb_forall. intros p Hin. apply in_map_iff in Hin as [[k to] [<- Hin]].
    cbn [fst snd patch_okb]. fold P. rewrite (In_lookup _ _ _ _ HP Hin). cbn [oo_eqb]. apply opt_eqb_refl.
  - apply forallb_forall. intros [k to] Hin. cbn [fst]. apply (Hcov k to). apply In_lookup; assumption.
Qed.

(* every handler the generator can pick satisfies the hypothesis *)
Lemma collide_mode_delete : forall m, delete_resolves_to_delete (collide_mode m).
Proof.
  intros m b l r v [H|H] E; subst; unfold collide_mode in E.
  - destruct r as [y|]; [|discriminate].
    destruct ((m =? 1) || (m =? 3)); [inversion E; reflexivity|].
    destruct (m =? 4); [destruct (y mod 2 =? 0); [inversion E; reflexivity|discriminate]|discriminate].
  - destruct l as [x|]; [|discriminate].
    destruct ((m =? 1) || (m =? 3)); [inversion E; reflexivity|].
    destruct (m =? 4); [destruct (x mod 2 =? 0); [inversion E; reflexivity|discriminate]|discriminate].
Qed.

Corollary oracle_on_model_all_modes : forall i,
  sorted (i_base i) -> sorted (i_left i) -> sorted (i_right i) -> oracle i (model_obs i) = true.
Proof. intros. apply oracle_on_model; auto using collide_mode_delete. Qed.
