(* C14 — the key-wise specification, independent of any walk. *)
From Coq Require Import NArith List Bool.
From Dolt Require Import C14.Model.
Import ListNotations.
Local Open Scope N_scope.

Section Spec.
  Variable collide : collide_t.

  Definition changed (b s : option N) : bool := negb (opt_eqb b s).
  (* changed on both sides, differently *)
  Definition divergent (b l r : option N) : bool := changed b l && changed b r && negb (opt_eqb l r).

  (* the merged value of one key *)
  Definition merge3_key (b l r : option N) : option N :=
    if negb (changed b r) then l                 (* right did not touch it: left's value *)
    else if negb (changed b l) then r            (* only right changed it *)
    else if opt_eqb l r then l                   (* both made the same change *)
    else match collide b l r with
         | Some v => v                           (* resolved by the handler *)
         | None => l                             (* conflict: left value stays *)
         end.

  Definition kind_of (b s : option N) (add del md : N) : N :=
    match b, s with
    | None, _ => add
    | _, None => del
    | _, _ => md
    end.

  (* the class of one key: Op, Right, Merged — None when nobody changed it *)
  Definition classify (b l r : option N) : option twd :=
    if changed b l && negb (changed b r) then Some (kind_of b l LeftAdd LeftDelete LeftModify, None, None)
    else if negb (changed b l) && changed b r then Some (kind_of b r RightAdd RightDelete RightModify, r, None)
    else if negb (changed b l) then None
    else if opt_eqb l r then Some (kind_of b l ConvergentAdd ConvergentDelete ConvergentModify, None, None)
    else match l, r with
         | Some _, Some _ =>
           match collide b l r with
           | None => Some (DivergentModifyConflict, r, None)
           | Some m => Some (DivergentModifyResolved, r, m)
           end
         | _, _ =>
           match collide b l r with
           | None => Some (DivergentDeleteConflict, r, None)
           | Some _ => Some (DivergentDeleteResolved, r, None)
           end
         end.

  (* exactly the divergent keys reach the handler, with (base, left, right) *)
  Definition handler_call (b l r : option N) : option (option N * option N * option N) :=
    if divergent b l r then Some (b, l, r) else None.
End Spec.

(* boolean forms over observed lists *)
Fixpoint sortedb {A : Type} (d : dict A) : bool :=
  match d with
  | [] => true
  | (k, _) :: d' => match d' with [] => true | (k', _) :: _ => (k <? k') && sortedb d' end
  end.

Definition pointwise {A : Type} (eqb : option A -> option A -> bool) (keys : list N)
           (d : dict A) (spec : N -> option A) : bool :=
  sortedb d && forallb (fun k => eqb (lookup k d) (spec k)) keys.

(* ---- executable acceptance test for a recorded patch stream (Proofs.patch_ok
   evaluated over the finite key set of the case; [keys] must contain every key
   of base, left, right and of the stream's contents) ---- *)
Definition oo_eqb (x y : option (option N)) : bool :=
  match x, y with
  | None, None => true
  | Some a, Some b => opt_eqb a b
  | _, _ => false
  end.

Definition patch_okb (collide : collide_t) (base left right : dict N) (keys : list N) (p : patch) : bool :=
  let P := send_patches collide (diff base left) (diff base right) in
  match p with
  | PPoint k to => oo_eqb (lookup k P) (Some to)
  | PRange lo hi c =>
    sortedb c
    && forallb (fun k => opt_eqb (lookup k c) (if in_range lo hi k then lookup k right else None)) (keys ++ map fst c)
    && forallb (fun k => negb (in_range lo hi k) || opt_eqb (lookup k left) (lookup k base)) keys
  end.

Definition stream_okb (collide : collide_t) (base left right : dict N) (keys : list N) (ps : list patch) : bool :=
  forallb (patch_okb collide base left right keys) ps
  && forallb (fun e => covered ps (fst e)) (send_patches collide (diff base left) (diff base right)).
