(* C14 — correspondence: tree.ThreeWayDiffer and prolly.MergeMaps (patch generator
   + SendPatches + ApplyPatches) on generated (base, left, right) with a
   recording collision handler, against the model; the oracle is the key-wise
   specification evaluated on what the implementation returned. *)
From Coq Require Import NArith List Bool.
From Dolt Require Import C14.Model C14.Spec.
Import ListNotations.
Local Open Scope N_scope.

(* the handlers the generator can pick (the same table is in harness/c14) *)
Definition collide_mode (m : N) : collide_t := fun b l r =>
  match l, r with
  | Some x, Some y =>
    if m =? 1 then Some (Some x)
    else if m =? 2 then Some (Some y)
    else if m =? 3 then Some (Some (x + y + 1000))
    else if m =? 4 then (if (x + y) mod 2 =? 0 then Some (Some (x * 7 + y)) else None)
    else None
  | Some x, None | None, Some x =>
    if (m =? 1) || (m =? 3) then Some None
    else if m =? 4 then (if x mod 2 =? 0 then Some None else None)
    else None
  | None, None => None
  end.

Definition triple := (option N * option N * option N)%type.

Record input := { i_base : dict N; i_left : dict N; i_right : dict N; i_mode : N }.

Record obs := {
  d_ops : dict twd;            (* ThreeWayDiffer.Next stream: key -> (Op, Right, Merged) *)
  d_calls : list triple;       (* its resolveCb invocations (base, left, right), in order *)
  p_res : dict N;              (* entries of the map returned by MergeMaps *)
  p_calls : dict triple;       (* CollisionFn invocations: key -> (base, left, right) *)
  p_canon : bool;              (* root hash of the result = root hash of the bulk-built map of its entries *)
  p_stream : list patch        (* the patches tree.SendPatches really sent (points and chunk-level ranges, ranges resolved to their entries) *)
}.

Definition case := (input * obs)%type.

Definition model_obs (i : input) : obs :=
  let c := collide_mode (i_mode i) in
  let ld := diff (i_base i) (i_left i) in
  let rd := diff (i_base i) (i_right i) in
  {| d_ops := three_way c ld rd;
     d_calls := map snd (tw_calls ld rd);
     p_res := merge_by_patches c (i_base i) (i_left i) (i_right i);
     p_calls := send_calls ld rd;
     p_canon := true;
     (* the point-level refinement of whatever stream the generator picks *)
     p_stream := map (fun e => PPoint (fst e) (snd e)) (send_patches c ld rd) |}.

Definition twd_eqb (a b : twd) : bool :=
  let '(o1, r1, m1) := a in let '(o2, r2, m2) := b in (o1 =? o2) && opt_eqb r1 r2 && opt_eqb m1 m2.
Definition triple_eqb (a b : triple) : bool :=
  let '(b1, l1, r1) := a in let '(b2, l2, r2) := b in opt_eqb b1 b2 && opt_eqb l1 l2 && opt_eqb r1 r2.

Definition oeqb {A : Type} (e : A -> A -> bool) (x y : option A) : bool :=
  match x, y with
  | None, None => true
  | Some a, Some b => e a b
  | _, _ => false
  end.

Fixpoint list_eqb {A : Type} (e : A -> A -> bool) (a b : list A) : bool :=
  match a, b with
  | [], [] => true
  | x :: a', y :: b' => e x y && list_eqb e a' b'
  | _, _ => false
  end.

Definition entry_eqb {A : Type} (e : A -> A -> bool) (x y : N * A) : bool := (fst x =? fst y) && e (snd x) (snd y).

Definition obs_eqb (a b : obs) : bool :=
  list_eqb (entry_eqb twd_eqb) (d_ops a) (d_ops b)
  && list_eqb triple_eqb (d_calls a) (d_calls b)
  && list_eqb (entry_eqb N.eqb) (p_res a) (p_res b)
  && list_eqb (entry_eqb triple_eqb) (p_calls a) (p_calls b)
  && Bool.eqb (p_canon a) (p_canon b).

(* the model does not predict which ranges the generator picks: p_stream is compared by the oracle only *)
(* The property on the implementation's observation:
   - every key is classified per the declarative rule, nothing else is reported;
   - exactly the divergent keys reached the handler, with (base, left, right), in
     both routes, in key order;
   - the resulting map is the key-wise merge;
   - the result has the canonical shape of its contents. *)
Definition oracle (i : input) (o : obs) : bool :=
  let c := collide_mode (i_mode i) in
  let B := i_base i in let L := i_left i in let R := i_right i in
  let keys := map fst B ++ map fst L ++ map fst R ++ map fst (d_ops o) ++ map fst (p_res o) ++ map fst (p_calls o) in
  pointwise (oeqb twd_eqb) keys (d_ops o) (fun k => classify c (lookup k B) (lookup k L) (lookup k R))
  && pointwise (oeqb triple_eqb) keys (p_calls o) (fun k => handler_call (lookup k B) (lookup k L) (lookup k R))
  && list_eqb triple_eqb (d_calls o) (map snd (p_calls o))
  && pointwise (oeqb N.eqb) keys (p_res o) (fun k => merge3_key c (lookup k B) (lookup k L) (lookup k R))
  && p_canon o
  (* the patch stream really sent: every patch stands for point changes (Proofs.patch_ok),
     the stream covers every point change, and applying it to the left map gives the result *)
  && stream_okb c B L R keys (p_stream o)
  && list_eqb (entry_eqb N.eqb) (apply_stream (p_stream o) L) (p_res o).

Definition check_case (c : case) : N :=
  (if obs_eqb (model_obs (fst c)) (snd c) then 0 else 1)
  + (if oracle (fst c) (snd c) then 0 else 2).
