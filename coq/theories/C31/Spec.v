(* C31 — the property, declaratively.
   A map [m] is THE three-way merge of (base b, ours o, theirs t) when at every
   key its binding is the key-wise merge of the three bindings and no key
   conflicts.  Cherry-pick / revert / rebase are then stated through it. *)
From Coq Require Import NArith List Bool.
From Dolt Require Import C31.Model.
Import ListNotations.
Local Open Scope N_scope.

(* two association lists denote the same map *)
Definition ext_eq (m1 m2 : content) : Prop := forall k, get k m1 = get k m2.

Definition mval (r : mres) : option row := match r with MOk v => v | MConflict => None end.

(* m is the merge of b o t *)
Definition is_merge3 (b o t m : content) : Prop :=
  (forall k, merge_row (get k b) (get k o) (get k t) <> MConflict) /\
  (forall k, get k m = mval (merge_row (get k b) (get k o) (get k t))).

Definition has_conflict (b o t : content) : Prop :=
  exists k, merge_row (get k b) (get k o) (get k t) = MConflict.

(* boolean forms over the finitely many keys that occur *)
Definition no_conflict_b (b o t : content) : bool :=
  forallb (fun k => negb (is_conflict (merge_row (get k b) (get k o) (get k t))))
          (keys b ++ keys o ++ keys t).
Definition is_merge3_b (b o t m : content) : bool :=
  no_conflict_b b o t &&
  forallb (fun k => orow_eqb (get k m) (mval (merge_row (get k b) (get k o) (get k t))))
          (keys m ++ keys b ++ keys o ++ keys t).
Definition ext_eqb (m1 m2 : content) : bool :=
  forallb (fun k => orow_eqb (get k m1) (get k m2)) (keys m1 ++ keys m2).

(* the fold of cherry-picks of a list of commits (parent content, content)
   onto a start content; None when some cherry-pick conflicts *)
Fixpoint fold_picks (h : content) (l : list (content * content)) : option content :=
  match l with
  | [] => Some h
  | (p, c) :: l' => if clean p h c then fold_picks (cherry_pick_data h p c) l' else None
  end.

Definition kept (p : plan) : list (content * content) :=
  map snd (filter (fun st => is_kept (fst st)) p).

(* the same plan with every squash / fixup turned into a pick *)
Definition as_picks (p : plan) : plan :=
  map (fun st => (if is_fold_action (fst st) then Pick else fst st, snd st)) p.

(* ---------------- round 2 ---------------- *)
(* d is the merge of b o t with every conflicting key taken whole from side h *)
Definition is_resolved (h : side) (b o t d : content) : Prop :=
  forall k, get k d = match merge_row (get k b) (get k o) (get k t) with
                      | MOk v => v
                      | MConflict => pick_side h (get k o) (get k t)
                      end.
Definition is_resolved_b (h : side) (b o t d : content) : bool :=
  forallb (fun k => orow_eqb (get k d) (resolve_at h b o t k)) (keys d ++ keys b ++ keys o ++ keys t).

(* one cherry-pick of the fold under a conflict policy: None = the fold stops *)
Definition pick2 (m : onconf) (h p c : content) : option content :=
  if clean p h c then Some (cherry_pick_data h p c)
  else match m with Resolve s => Some (resolved s p h c) | _ => None end.

Fixpoint fold_picks2 (m : onconf) (h : content) (l : list (content * content)) : option content :=
  match l with
  | [] => Some h
  | (p, c) :: l' => match pick2 m h p c with Some d => fold_picks2 m d l' | None => None end
  end.
