(* C31 — proofs: the algebraic laws of the three-way merge for every map, the
   characterisation of merge3 by lookups, cherry-pick / revert consequences and
   rebase = fold of cherry-picks. *)
From Coq Require Import NArith List Bool Lia Sorted.
From Dolt Require Import C31.Model C31.Spec C31.Corr.
Import ListNotations.
Local Open Scope N_scope.

(* ---------------- equalities ---------------- *)
Lemma key_eqb_eq a b : key_eqb a b = true <-> a = b.
Proof.
  destruct a as [a1 a2], b as [b1 b2]; unfold key_eqb; cbn [fst snd].
  rewrite andb_true_iff, !N.eqb_eq. split; [intros [-> ->]; reflexivity | intros H; inversion H; auto].
Qed.
Lemma key_eqb_refl a : key_eqb a a = true.
Proof. apply key_eqb_eq; reflexivity. Qed.
Lemma key_eqb_sym a b : key_eqb a b = key_eqb b a.
Proof.
  destruct (key_eqb a b) eqn:E.
  - apply key_eqb_eq in E; subst; symmetry; apply key_eqb_refl.
  - destruct (key_eqb b a) eqn:E'; [|reflexivity]. apply key_eqb_eq in E'; subst.
    rewrite key_eqb_refl in E; discriminate.
Qed.

Lemma cell_eqb_eq a b : cell_eqb a b = true <-> a = b.
Proof.
  destruct a as [x|], b as [y|]; cbn [cell_eqb]; try (split; [discriminate|discriminate]); try tauto.
  rewrite N.eqb_eq. split; [intros ->; reflexivity | intros H; inversion H; reflexivity].
Qed.
Lemma row_eqb_eq a : forall b, row_eqb a b = true <-> a = b.
Proof.
  induction a as [|x a IH]; intros [|y b]; cbn [row_eqb]; try (split; [discriminate|discriminate]); try tauto.
  rewrite andb_true_iff, cell_eqb_eq, IH. split; [intros [-> ->]; reflexivity | intros H; inversion H; auto].
Qed.
Lemma orow_eqb_eq a b : orow_eqb a b = true <-> a = b.
Proof.
  destruct a as [x|], b as [y|]; cbn [orow_eqb]; try (split; [discriminate|discriminate]); try tauto.
  rewrite row_eqb_eq. split; [intros ->; reflexivity | intros H; inversion H; reflexivity].
Qed.
Lemma orow_eqb_refl a : orow_eqb a a = true.
Proof. apply orow_eqb_eq; reflexivity. Qed.
Lemma content_eqb_eq a : forall b, content_eqb a b = true <-> a = b.
Proof.
  induction a as [|[k r] a IH]; intros [|[k' r'] b]; cbn [content_eqb]; try (split; [discriminate|discriminate]); try tauto.
  rewrite !andb_true_iff, key_eqb_eq, row_eqb_eq, IH.
  split; [intros [[-> ->] ->]; reflexivity | intros H; inversion H; auto].
Qed.

(* ---------------- row-level laws ---------------- *)
Lemma merge_row_base_left b x : merge_row b b x = MOk x.
Proof.
  unfold merge_row. destruct (orow_eqb b x) eqn:E.
  - apply orow_eqb_eq in E; subst; reflexivity.
  - rewrite orow_eqb_refl. reflexivity.
Qed.
Lemma merge_row_base_right b x : merge_row b x b = MOk x.
Proof.
  unfold merge_row. destruct (orow_eqb x b) eqn:E; [reflexivity|].
  rewrite orow_eqb_refl. reflexivity.
Qed.
Lemma merge_row_same b x : merge_row b x x = MOk x.
Proof. unfold merge_row. rewrite orow_eqb_refl. reflexivity. Qed.
Lemma merge_row_none : merge_row None None None = MOk None.
Proof. reflexivity. Qed.

(* ---------------- lookups in constructed maps ---------------- *)
Definition mem (k : key) (l : list key) : bool := existsb (key_eqb k) l.

Lemma mem_insert k a l : mem k (insert_key a l) = key_eqb k a || mem k l.
Proof.
  induction l as [|x l IH]; cbn [insert_key mem existsb]; [reflexivity|].
  destruct (key_ltb a x); [reflexivity|]. destruct (key_eqb a x) eqn:E.
  - apply key_eqb_eq in E; subst. cbn [existsb]. destruct (key_eqb k x); reflexivity.
  - cbn [existsb]. fold (mem k (insert_key a l)). rewrite IH. fold (mem k l).
    destruct (key_eqb k x), (key_eqb k a); reflexivity.
Qed.
Lemma mem_sort k l : mem k (sort_keys l) = mem k l.
Proof.
  induction l as [|a l IH]; [reflexivity|]. cbn [sort_keys fold_right]. fold (sort_keys l).
  rewrite mem_insert, IH. reflexivity.
Qed.
Lemma mem_app k l1 l2 : mem k (l1 ++ l2) = mem k l1 || mem k l2.
Proof. unfold mem. apply existsb_app. Qed.
Lemma get_not_mem k m : mem k (keys m) = false -> get k m = None.
Proof.
  induction m as [|[k' r] m IH]; [reflexivity|]. cbn [keys map fst mem existsb get].
  intros H. apply orb_false_iff in H as [H1 H2]. rewrite H1. apply IH. exact H2.
Qed.
Lemma get_mem k m : mem k (keys m) = true -> exists r, get k m = Some r.
Proof.
  induction m as [|[k' r] m IH]; [discriminate|]. cbn [keys map fst mem existsb get].
  destruct (key_eqb k k'); [intros _; eexists; reflexivity|]. exact IH.
Qed.

Lemma get_flat_map (g : key -> option row) k ks :
  get k (flat_map (fun k' => match g k' with Some r => [(k', r)] | None => [] end) ks)
  = if mem k ks then g k else None.
Proof.
  induction ks as [|a ks IH]; [reflexivity|]. cbn [flat_map mem existsb].
  destruct (g a) as [r|] eqn:G; cbn [app get].
  - destruct (key_eqb k a) eqn:E; cbn [orb].
    + apply key_eqb_eq in E; subst. symmetry; exact G.
    + exact IH.
  - destruct (key_eqb k a) eqn:E; cbn [orb].
    + apply key_eqb_eq in E; subst. rewrite IH, G. destruct (mem a ks); reflexivity.
    + exact IH.
Qed.

Lemma merge3_as_flat_map b o t :
  merge3 b o t = flat_map (fun k' => match mval (merge3_at b o t k') with Some r => [(k', r)] | None => [] end) (keys3 b o t).
Proof.
  unfold merge3. apply flat_map_ext. intros k. destruct (merge3_at b o t k) as [[r|]|]; reflexivity.
Qed.

(* the merged map, key by key *)
Theorem get_merge3 b o t k : get k (merge3 b o t) = mval (merge_row (get k b) (get k o) (get k t)).
Proof.
  rewrite merge3_as_flat_map, (get_flat_map (fun k' => mval (merge3_at b o t k'))).
  unfold keys3. rewrite mem_sort, !mem_app. unfold merge3_at.
  destruct (mem k (keys b)) eqn:Eb; [reflexivity|].
  destruct (mem k (keys o)) eqn:Eo; [reflexivity|].
  destruct (mem k (keys t)) eqn:Et; [reflexivity|]. cbn [orb].
  rewrite (get_not_mem _ _ Eb), (get_not_mem _ _ Eo), (get_not_mem _ _ Et). reflexivity.
Qed.

Theorem clean_iff b o t :
  clean b o t = true <-> forall k, merge_row (get k b) (get k o) (get k t) <> MConflict.
Proof.
  unfold clean. rewrite forallb_forall. split.
  - intros H k. destruct (mem k (keys3 b o t)) eqn:M.
    + unfold mem in M. apply existsb_exists in M as [k' [Hin E]]. apply key_eqb_eq in E; subst k'.
      specialize (H _ Hin). unfold merge3_at in H. intros C. rewrite C in H. discriminate.
    + unfold keys3 in M. rewrite mem_sort, !mem_app in M.
      apply orb_false_iff in M as [Mb M]. apply orb_false_iff in M as [Mo Mt].
      rewrite (get_not_mem _ _ Mb), (get_not_mem _ _ Mo), (get_not_mem _ _ Mt). discriminate.
  - intros H k _. unfold merge3_at. specialize (H k).
    destruct (merge_row (get k b) (get k o) (get k t)); [reflexivity | congruence].
Qed.

Lemma get_norm m k : get k (norm m) = get k m.
Proof.
  unfold norm. rewrite (get_flat_map (fun k' => get k' m)), mem_sort.
  destruct (mem k (keys m)) eqn:M; [reflexivity|]. symmetry; apply get_not_mem; exact M.
Qed.

(* merge3 is the declarative merge whenever no key conflicts *)
Theorem merge3_is_merge b o t : clean b o t = true -> is_merge3 b o t (merge3 b o t).
Proof. intros H. split; [apply clean_iff; exact H | intros k; apply get_merge3]. Qed.

Theorem merge_unique b o t m1 m2 : is_merge3 b o t m1 -> is_merge3 b o t m2 -> ext_eq m1 m2.
Proof. intros [_ H1] [_ H2] k. rewrite H1, H2. reflexivity. Qed.

Theorem unclean_has_conflict b o t : clean b o t = false -> has_conflict b o t.
Proof.
  unfold clean. intros H.
  assert (E : existsb (fun k => is_conflict (merge3_at b o t k)) (keys3 b o t) = true).
  { induction (keys3 b o t) as [|a l IH]; [discriminate|]. cbn [forallb existsb] in *.
    destruct (is_conflict (merge3_at b o t a)); [reflexivity|]. cbn [negb andb orb] in *. apply IH; exact H. }
  apply existsb_exists in E as [k [_ E]]. exists k. unfold merge3_at in E.
  destruct (merge_row (get k b) (get k o) (get k t)); [discriminate | reflexivity].
Qed.

(* ---------------- the three laws, for every map ---------------- *)
Theorem merge3_base_left b x : clean b b x = true /\ ext_eq (merge3 b b x) x.
Proof.
  split.
  - apply clean_iff. intros k. rewrite merge_row_base_left. discriminate.
  - intros k. rewrite get_merge3, merge_row_base_left. reflexivity.
Qed.
Theorem merge3_base_right b x : clean b x b = true /\ ext_eq (merge3 b x b) x.
Proof.
  split.
  - apply clean_iff. intros k. rewrite merge_row_base_right. discriminate.
  - intros k. rewrite get_merge3, merge_row_base_right. reflexivity.
Qed.
Theorem merge3_same b x : clean b x x = true /\ ext_eq (merge3 b x x) x.
Proof.
  split.
  - apply clean_iff. intros k. rewrite merge_row_same. discriminate.
  - intros k. rewrite get_merge3, merge_row_same. reflexivity.
Qed.

(* ---------------- canonical forms: equal lookups = equal lists ---------------- *)
Definition key_lt (a b : key) : Prop := key_ltb a b = true.

Lemma key_ltb_spec a b :
  key_ltb a b = true <-> (fst a < fst b \/ (fst a = fst b /\ snd a < snd b)).
Proof. unfold key_ltb. rewrite orb_true_iff, andb_true_iff, !N.ltb_lt, N.eqb_eq. tauto. Qed.
Lemma key_lt_trans a b c : key_lt a b -> key_lt b c -> key_lt a c.
Proof. unfold key_lt. rewrite !key_ltb_spec. lia. Qed.
Lemma key_lt_irrefl a : ~ key_lt a a.
Proof. unfold key_lt. rewrite key_ltb_spec. lia. Qed.
Lemma key_trichotomy a b : key_ltb a b = false -> key_eqb a b = false -> key_lt b a.
Proof.
  intros H1 H2. unfold key_lt. rewrite key_ltb_spec.
  assert (N1 : ~ (fst a < fst b \/ (fst a = fst b /\ snd a < snd b))) by (rewrite <- key_ltb_spec; congruence).
  assert (N2 : a <> b) by (intros E; apply key_eqb_eq in E; congruence).
  destruct a as [a1 a2], b as [b1 b2]; cbn [fst snd] in *.
  assert (a1 <> b1 \/ a2 <> b2) by (destruct (N.eq_dec a1 b1); [right; congruence | left; assumption]). lia.
Qed.
Lemma key_lt_neq a b : key_lt a b -> key_eqb a b = false.
Proof.
  intros H. destruct (key_eqb a b) eqn:E; [|reflexivity]. apply key_eqb_eq in E; subst.
  exfalso; eapply key_lt_irrefl; eauto.
Qed.

Definition sorted (l : list key) : Prop := StronglySorted key_lt l.

Lemma Forall_insert (P : key -> Prop) k l : P k -> Forall P l -> Forall P (insert_key k l).
Proof.
  intros Hk Hl. induction l as [|x l IH]; cbn [insert_key]; [constructor; auto|].
  inversion Hl; subst. destruct (key_ltb k x); [constructor; auto|]. destruct (key_eqb k x); [auto|].
  constructor; auto.
Qed.
Lemma sorted_insert k l : sorted l -> sorted (insert_key k l).
Proof.
  unfold sorted. intros H. induction H as [|x l Hs IH Hx]; cbn [insert_key].
  - constructor; constructor.
  - destruct (key_ltb k x) eqn:E1.
    + constructor; [constructor; assumption|]. constructor; [exact E1|].
      eapply Forall_impl; [|exact Hx]. intros y Hy. eapply key_lt_trans; [exact E1|exact Hy].
    + destruct (key_eqb k x) eqn:E2; [constructor; assumption|].
      constructor; [exact IH|]. apply Forall_insert; [apply key_trichotomy; assumption | exact Hx].
Qed.
Lemma sorted_sort l : sorted (sort_keys l).
Proof.
  induction l as [|a l IH]; [constructor|]. cbn [sort_keys fold_right]. apply sorted_insert. exact IH.
Qed.

Lemma Forall_keys_flat_map (P : key -> Prop) (g : key -> option row) ks :
  Forall P ks -> Forall P (keys (flat_map (fun k' => match g k' with Some r => [(k', r)] | None => [] end) ks)).
Proof.
  intros H. induction H as [|a ks Ha Hk IH]; [constructor|]. cbn [flat_map].
  destruct (g a); cbn [app keys map fst]; [constructor; assumption | exact IH].
Qed.
Lemma sorted_flat_map (g : key -> option row) ks :
  sorted ks -> sorted (keys (flat_map (fun k' => match g k' with Some r => [(k', r)] | None => [] end) ks)).
Proof.
  unfold sorted. intros H. induction H as [|a ks Hs IH Ha]; [constructor|]. cbn [flat_map].
  destruct (g a); cbn [app keys map fst]; [|exact IH].
  constructor; [exact IH | apply Forall_keys_flat_map; exact Ha].
Qed.

Lemma get_below k m : Forall (key_lt k) (keys m) -> get k m = None.
Proof.
  induction m as [|[k' r] m IH]; [reflexivity|]. cbn [keys map fst get]. intros H. inversion H; subst.
  rewrite (key_lt_neq _ _ H2). apply IH. exact H3.
Qed.

Theorem sorted_ext m1 : forall m2,
  sorted (keys m1) -> sorted (keys m2) -> ext_eq m1 m2 -> m1 = m2.
Proof.
  unfold sorted. induction m1 as [|[k1 r1] m1 IH]; intros [|[k2 r2] m2] S1 S2 E.
  - reflexivity.
  - specialize (E k2). cbn [get] in E. rewrite key_eqb_refl in E. discriminate.
  - specialize (E k1). cbn [get] in E. rewrite key_eqb_refl in E. discriminate.
  - cbn [keys map fst] in S1, S2. inversion S1 as [|? ? S1' F1]; inversion S2 as [|? ? S2' F2]; subst.
    assert (K : k1 = k2).
    { destruct (key_ltb k1 k2) eqn:L12.
      - pose proof (E k1) as E1. cbn [get] in E1. rewrite key_eqb_refl, (key_lt_neq _ _ L12) in E1.
        rewrite get_below in E1; [discriminate|].
        eapply Forall_impl; [|exact F2]. intros y Hy. eapply key_lt_trans; [exact L12|exact Hy].
      - destruct (key_eqb k1 k2) eqn:E12; [apply key_eqb_eq; exact E12|].
        pose proof (key_trichotomy _ _ L12 E12) as L21.
        pose proof (E k2) as E2. cbn [get] in E2. rewrite key_eqb_refl, (key_lt_neq _ _ L21) in E2.
        rewrite get_below in E2; [discriminate|].
        eapply Forall_impl; [|exact F1]. intros y Hy. eapply key_lt_trans; [exact L21|exact Hy]. }
    subst k2. pose proof (E k1) as E1. cbn [get] in E1. rewrite key_eqb_refl in E1. inversion E1; subst r2.
    f_equal. apply IH; [assumption|assumption|]. intros k. specialize (E k). cbn [get] in E.
    destruct (key_eqb k k1) eqn:Ek; [|exact E]. apply key_eqb_eq in Ek; subst k.
    rewrite (get_below _ _ F1), (get_below _ _ F2). reflexivity.
Qed.

Lemma sorted_merge3 b o t : sorted (keys (merge3 b o t)).
Proof. rewrite merge3_as_flat_map. apply sorted_flat_map. apply sorted_sort. Qed.
Lemma sorted_norm m : sorted (keys (norm m)).
Proof. unfold norm. apply (sorted_flat_map (fun k' => get k' m)). apply sorted_sort. Qed.

Lemma sorted_from_spec l : forall lo, sorted_from lo l = true -> sorted (lo :: l).
Proof.
  unfold sorted. induction l as [|k l IH]; intros lo H; [constructor; constructor|].
  cbn [sorted_from] in H. apply andb_true_iff in H as [H1 H2]. specialize (IH _ H2).
  constructor; [exact IH|]. constructor; [exact H1|]. inversion IH; subst.
  eapply Forall_impl; [|eassumption]. intros y Hy. eapply key_lt_trans; [exact H1|exact Hy].
Qed.
Lemma canonical_sorted m : canonical m = true -> sorted (keys m).
Proof.
  unfold canonical, sorted_keys. destruct (keys m) as [|k l]; [intros _; constructor|]. apply sorted_from_spec.
Qed.
Lemma norm_canonical m : canonical m = true -> norm m = m.
Proof.
  intros H. apply sorted_ext; [apply sorted_norm | apply canonical_sorted; exact H | intros k; apply get_norm].
Qed.

(* Leibniz forms of the laws: the merge IS the (canonical copy of the) other side *)
Theorem merge3_base_left_eq b x : merge3 b b x = norm x.
Proof.
  apply sorted_ext; [apply sorted_merge3 | apply sorted_norm |].
  intros k. rewrite get_norm. apply merge3_base_left.
Qed.
Theorem merge3_base_right_eq b x : merge3 b x b = norm x.
Proof.
  apply sorted_ext; [apply sorted_merge3 | apply sorted_norm |].
  intros k. rewrite get_norm. apply merge3_base_right.
Qed.
Theorem merge3_same_eq b x : merge3 b x x = norm x.
Proof.
  apply sorted_ext; [apply sorted_merge3 | apply sorted_norm |].
  intros k. rewrite get_norm. apply merge3_same.
Qed.

(* ---------------- cherry-pick and revert ---------------- *)
(* reverting HEAD's own commit (content c, parent content p) restores the parent's data *)
Theorem revert_latest p c :
  revert c p c = if content_eqb (norm p) (norm c) then PNoChange else POk (norm p).
Proof.
  unfold revert, revert_data. destruct (merge3_base_left c p) as [Hc _]. rewrite Hc. cbn [negb].
  rewrite merge3_base_left_eq. reflexivity.
Qed.
Theorem revert_latest_data p c : clean c c p = true /\ revert_data c p c = norm p /\ ext_eq (revert_data c p c) p.
Proof.
  split; [apply merge3_base_left|]. split; [apply merge3_base_left_eq | apply merge3_base_left].
Qed.

(* cherry-picking a commit (content c, parent content p) onto its own parent reproduces its data *)
Theorem cherry_pick_on_parent p c :
  cherry_pick p p c = if content_eqb (norm c) (norm p) then PNoChange else POk (norm c).
Proof.
  unfold cherry_pick, cherry_pick_data. destruct (merge3_base_left p c) as [Hc _]. rewrite Hc. cbn [negb].
  rewrite merge3_base_left_eq. reflexivity.
Qed.
Theorem cherry_pick_on_parent_data p c :
  clean p p c = true /\ cherry_pick_data p p c = norm c /\ ext_eq (cherry_pick_data p p c) c.
Proof.
  split; [apply merge3_base_left|]. split; [apply merge3_base_left_eq | apply merge3_base_left].
Qed.

(* in general: the procedures give the declarative merge or report its conflict *)
Theorem cherry_pick_is_merge head p c :
  match cherry_pick head p c with
  | POk d => is_merge3 p head c d
  | PNoChange => is_merge3 p head c head
  | PConflict => has_conflict p head c
  | PBad => False
  end.
Proof.
  unfold cherry_pick, cherry_pick_data. destruct (clean p head c) eqn:C; cbn [negb].
  - destruct (content_eqb (merge3 p head c) (norm head)) eqn:E.
    + apply content_eqb_eq in E. destruct (merge3_is_merge _ _ _ C) as [H1 H2]. split; [exact H1|].
      intros k. rewrite <- H2, E, get_norm. reflexivity.
    + apply merge3_is_merge; exact C.
  - apply unclean_has_conflict; exact C.
Qed.
Theorem revert_is_merge head p c :
  match revert head p c with
  | POk d => is_merge3 c head p d
  | PNoChange => is_merge3 c head p head
  | PConflict => has_conflict c head p
  | PBad => False
  end.
Proof.
  unfold revert, revert_data. destruct (clean c head p) eqn:C; cbn [negb].
  - destruct (content_eqb (merge3 c head p) (norm head)) eqn:E.
    + apply content_eqb_eq in E. destruct (merge3_is_merge _ _ _ C) as [H1 H2]. split; [exact H1|].
      intros k. rewrite <- H2, E, get_norm. reflexivity.
    + apply merge3_is_merge; exact C.
  - apply unclean_has_conflict; exact C.
Qed.

(* ---------------- rebase = fold of cherry-picks ---------------- *)
Lemma clean_ext b o o' t : ext_eq o o' -> clean b o t = clean b o' t.
Proof.
  intros E. destruct (clean b o t) eqn:C1; destruct (clean b o' t) eqn:C2; try reflexivity.
  - pose proof (proj1 (clean_iff _ _ _) C1) as D1. assert (clean b o' t = true); [|congruence].
    apply clean_iff. intros k. rewrite <- E. apply D1.
  - pose proof (proj1 (clean_iff _ _ _) C2) as D2. assert (clean b o t = true); [|congruence].
    apply clean_iff. intros k. rewrite E. apply D2.
Qed.
Lemma merge3_ext b o o' t : ext_eq o o' -> ext_eq (merge3 b o t) (merge3 b o' t).
Proof. intros E k. rewrite !get_merge3, E. reflexivity. Qed.

Lemma kept_cons a pc p :
  kept ((a, pc) :: p) = if is_kept a then pc :: kept p else kept p.
Proof. unfold kept. cbn [filter fst]. destruct (is_kept a); reflexivity. Qed.

Lemma run_steps_fold p : forall s h, ext_eq (r_head s) h ->
  match run_steps s p with
  | ROk s' => exists d, fold_picks h (kept p) = Some d /\ ext_eq (r_head s') d
  | RConflict => fold_picks h (kept p) = None
  | RInvalid => False
  end.
Proof.
  induction p as [|[a [pp c]] p IH]; intros s h E.
  - cbn [run_steps kept filter map fold_picks]. exists h. split; [reflexivity|exact E].
  - cbn [run_steps]. rewrite kept_cons.
    assert (Step : forall s1, ext_eq (r_head s1) (cherry_pick_data h pp c) ->
              match run_steps s1 p with
              | ROk s' => exists d, fold_picks (cherry_pick_data h pp c) (kept p) = Some d /\ ext_eq (r_head s') d
              | RConflict => fold_picks (cherry_pick_data h pp c) (kept p) = None
              | RInvalid => False
              end) by (intros s1 E1; apply IH; exact E1).
    assert (D : ext_eq (cherry_pick_data (r_head s) pp c) (cherry_pick_data h pp c))
      by (apply merge3_ext; exact E).
    assert (Same : content_eqb (cherry_pick_data (r_head s) pp c) (norm (r_head s)) = true ->
                   ext_eq (r_head s) (cherry_pick_data h pp c)).
    { intros Q. apply content_eqb_eq in Q. intros k. rewrite <- D, Q, get_norm. reflexivity. }
    destruct a; cbn [run_step is_kept]; cbn [fold_picks];
      try (rewrite <- (clean_ext pp (r_head s) h c E));
      try (destruct (clean pp (r_head s) c) eqn:C; cbn [negb]; [|reflexivity]).
    + (* Pick *)
      destruct (content_eqb (cherry_pick_data (r_head s) pp c) (norm (r_head s))) eqn:Q.
      * apply Step. apply Same; reflexivity.
      * apply Step. exact D.
    + (* Reword *)
      destruct (content_eqb (cherry_pick_data (r_head s) pp c) (norm (r_head s))) eqn:Q.
      * apply Step. apply Same; reflexivity.
      * apply Step. exact D.
    + (* Squash *)
      destruct (content_eqb (cherry_pick_data (r_head s) pp c) (norm (r_head s))) eqn:Q.
      * apply Step. apply Same; reflexivity.
      * destruct (r_new s); apply Step; exact D.
    + (* Fixup *)
      destruct (content_eqb (cherry_pick_data (r_head s) pp c) (norm (r_head s))) eqn:Q.
      * apply Step. apply Same; reflexivity.
      * destruct (r_new s); apply Step; exact D.
    + (* Drop *)
      apply IH. exact E.
Qed.

(* The data after a rebase plan is the data of cherry-picking its kept commits
   in plan order; the plan stops with a conflict exactly when that fold does. *)
Theorem rebase_is_fold onto p :
  match run_plan onto p with
  | ROk s => valid_plan p = true /\ exists d, fold_picks onto (kept p) = Some d /\ ext_eq (r_head s) d
  | RConflict => valid_plan p = true /\ fold_picks onto (kept p) = None
  | RInvalid => valid_plan p = false
  end.
Proof.
  unfold run_plan. destruct (valid_plan p) eqn:V; [|reflexivity].
  pose proof (run_steps_fold p {| r_onto := onto; r_new := [] |} onto (fun k => eq_refl)) as H.
  destruct (run_steps {| r_onto := onto; r_new := [] |} p); [split; [reflexivity|exact H] | split; [reflexivity|exact H] | destruct H].
Qed.

Lemma kept_as_picks p : kept (as_picks p) = kept p.
Proof.
  induction p as [|[a pc] p IH]; [reflexivity|].
  unfold as_picks. cbn [map fst snd]. fold (as_picks p). rewrite !kept_cons, IH.
  destruct a; reflexivity.
Qed.
Lemma valid_as_picks p : forall seen, valid_plan_from seen (as_picks p) = true.
Proof.
  induction p as [|[a pc] p IH]; intros seen; [reflexivity|].
  unfold as_picks. cbn [map fst snd]. fold (as_picks p). destruct a; cbn [is_fold_action valid_plan_from]; apply IH.
Qed.

(* squash and fixup change only where the commit boundaries fall, not the data:
   a valid plan and the same plan with squash/fixup replaced by pick end with the
   same data, and one conflicts exactly when the other does *)
Theorem squash_only_boundaries onto p : valid_plan p = true ->
  match run_plan onto p, run_plan onto (as_picks p) with
  | ROk s, ROk s' => ext_eq (r_head s) (r_head s')
  | RConflict, RConflict => True
  | _, _ => False
  end.
Proof.
  intros V. pose proof (rebase_is_fold onto p) as H1. pose proof (rebase_is_fold onto (as_picks p)) as H2.
  rewrite kept_as_picks in H2.
  destruct (run_plan onto p) as [s| |]; destruct (run_plan onto (as_picks p)) as [s'| |].
  - destruct H1 as [_ [d [F1 E1]]], H2 as [_ [d' [F2 E2]]]. rewrite F1 in F2. inversion F2; subst d'.
    intros k. rewrite E1, E2. reflexivity.
  - destruct H1 as [_ [d [F1 _]]], H2 as [_ F2]. congruence.
  - unfold valid_plan in H2. rewrite valid_as_picks in H2. discriminate.
  - destruct H1 as [_ F1], H2 as [_ [d [F2 _]]]. congruence.
  - exact I.
  - unfold valid_plan in H2. rewrite valid_as_picks in H2. discriminate.
  - congruence.
  - congruence.
  - congruence.
Qed.

(* squash / fixup never add a commit: the number of new commits is at most the
   number of pick / reword steps *)
Definition n_picks (p : plan) : nat :=
  length (filter (fun st => match fst st with Pick | Reword => true | _ => false end) p).

(* ---------------- the oracle holds on the model ---------------- *)
Lemma forallb_app_intro {A} (f : A -> bool) l1 l2 : forallb f l1 = true -> forallb f l2 = true -> forallb f (l1 ++ l2) = true.
Proof. intros H1 H2. rewrite forallb_app, H1, H2. reflexivity. Qed.

Lemma no_conflict_b_of_clean b o t : clean b o t = true -> no_conflict_b b o t = true.
Proof.
  intros C. unfold no_conflict_b. apply forallb_forall. intros k _.
  pose proof (proj1 (clean_iff b o t) C k) as H. destruct (merge_row (get k b) (get k o) (get k t)); [reflexivity|congruence].
Qed.
Lemma no_conflict_b_clean b o t : no_conflict_b b o t = true -> clean b o t = true.
Proof.
  unfold no_conflict_b. rewrite forallb_forall. intros H. apply clean_iff. intros k.
  destruct (mem k (keys b ++ keys o ++ keys t)) eqn:M.
  - unfold mem in M. apply existsb_exists in M as [k' [Hin E]]. apply key_eqb_eq in E; subst k'.
    specialize (H _ Hin). intros Cf. rewrite Cf in H. discriminate.
  - rewrite !mem_app in M. apply orb_false_iff in M as [Mb M]. apply orb_false_iff in M as [Mo Mt].
    rewrite (get_not_mem _ _ Mb), (get_not_mem _ _ Mo), (get_not_mem _ _ Mt). discriminate.
Qed.
Lemma is_merge3_b_intro b o t m : is_merge3 b o t m -> is_merge3_b b o t m = true.
Proof.
  intros [H1 H2]. unfold is_merge3_b. apply andb_true_iff. split.
  - apply no_conflict_b_of_clean. apply clean_iff. exact H1.
  - apply forallb_forall. intros k _. rewrite H2. apply orow_eqb_refl.
Qed.
Lemma ext_eqb_intro m1 m2 : ext_eq m1 m2 -> ext_eqb m1 m2 = true.
Proof. intros E. unfold ext_eqb. apply forallb_forall. intros k _. rewrite E. apply orow_eqb_refl. Qed.
Lemma ext_eqb_elim m1 m2 : ext_eqb m1 m2 = true -> ext_eq m1 m2.
Proof.
  unfold ext_eqb. rewrite forallb_forall. intros H k.
  destruct (mem k (keys m1 ++ keys m2)) eqn:M.
  - unfold mem in M. apply existsb_exists in M as [k' [Hin E]]. apply key_eqb_eq in E; subst k'.
    apply orow_eqb_eq. apply H. exact Hin.
  - rewrite mem_app in M. apply orb_false_iff in M as [M1 M2].
    rewrite (get_not_mem _ _ M1), (get_not_mem _ _ M2). reflexivity.
Qed.

Lemma sorted_canonical m : sorted (keys m) -> canonical m = true.
Proof.
  unfold canonical, sorted_keys, sorted. destruct (keys m) as [|k l]; [reflexivity|].
  revert k. induction l as [|x l IH]; intros k H; [reflexivity|]. cbn [sorted_from].
  inversion H as [|? ? Hs Hf]; subst. inversion Hf; subst. apply andb_true_iff. split; [assumption|]. apply IH. exact Hs.
Qed.

Lemma norm_eq_of_ext a b : ext_eq a b -> norm a = norm b.
Proof.
  intros E. apply sorted_ext; [apply sorted_norm|apply sorted_norm|]. intros k. rewrite !get_norm. apply E.
Qed.
Lemma content_eqb_refl a : content_eqb a a = true.
Proof. apply content_eqb_eq; reflexivity. Qed.

(* ================= round 2 ================= *)
(* ---------------- resolution: the merge with conflicting keys taken from one side ---------------- *)
Theorem get_resolved h b o t k :
  get k (resolved h b o t) = match merge_row (get k b) (get k o) (get k t) with
                             | MOk v => v
                             | MConflict => pick_side h (get k o) (get k t)
                             end.
Proof.
  unfold resolved. rewrite (get_flat_map (resolve_at h b o t)).
  unfold keys3. rewrite mem_sort, !mem_app. unfold resolve_at, merge3_at.
  destruct (mem k (keys b)) eqn:Eb; [reflexivity|].
  destruct (mem k (keys o)) eqn:Eo; [reflexivity|].
  destruct (mem k (keys t)) eqn:Et; [reflexivity|]. cbn [orb].
  rewrite (get_not_mem _ _ Eb), (get_not_mem _ _ Eo), (get_not_mem _ _ Et). reflexivity.
Qed.
Theorem resolved_is_resolved h b o t : is_resolved h b o t (resolved h b o t).
Proof. intros k. apply get_resolved. Qed.
Theorem resolved_of_clean h b o t : clean b o t = true -> ext_eq (resolved h b o t) (merge3 b o t).
Proof.
  intros C k. rewrite get_resolved, get_merge3. pose proof (proj1 (clean_iff b o t) C k) as H.
  destruct (merge_row (get k b) (get k o) (get k t)); [reflexivity|congruence].
Qed.
Lemma sorted_resolved h b o t : sorted (keys (resolved h b o t)).
Proof. unfold resolved. apply (sorted_flat_map (resolve_at h b o t)). apply sorted_sort. Qed.
Lemma resolved_ext h b o o' t : ext_eq o o' -> ext_eq (resolved h b o t) (resolved h b o' t).
Proof. intros E k. rewrite !get_resolved, E. reflexivity. Qed.

(* the procedures under a conflict policy: what each outcome means *)
Theorem merge_proc_spec m b o t :
  match merge_proc m b o t with
  | QOk d => is_merge3 b o t d
  | QNoChange => is_merge3 b o t o
  | QConflict => has_conflict b o t /\ m = Stop
  | QResolved d => has_conflict b o t /\ exists h, m = Resolve h /\ is_resolved h b o t d
  | QAborted d => has_conflict b o t /\ m = Abort /\ d = norm o
  end.
Proof.
  unfold merge_proc. destruct (clean b o t) eqn:C.
  - destruct (content_eqb (merge3 b o t) (norm o)) eqn:E.
    + apply content_eqb_eq in E. destruct (merge3_is_merge _ _ _ C) as [H1 H2]. split; [exact H1|].
      intros k. rewrite <- H2, E, get_norm. reflexivity.
    + apply merge3_is_merge; exact C.
  - pose proof (unclean_has_conflict _ _ _ C) as Hc. destruct m as [|h|].
    + split; [exact Hc|reflexivity].
    + split; [exact Hc|]. exists h. split; [reflexivity|apply resolved_is_resolved].
    + split; [exact Hc|]. split; reflexivity.
Qed.

(* --abort restores exactly the state before the operation, whatever was done while it was stopped *)
Lemma fold_uedit_keeps edits : forall s,
  os_head (fold_left apply_uedit edits s) = os_head s /\ os_pre (fold_left apply_uedit edits s) = os_pre s.
Proof.
  induction edits as [|e edits IH]; intros s; [split; reflexivity|].
  cbn [fold_left]. destruct (IH (apply_uedit s e)) as [H1 H2]. rewrite H1, H2. destruct e; split; reflexivity.
Qed.
Theorem abort_restores b o t edits :
  abort_op (fold_left apply_uedit edits (start_paused b o t)) = Some (clean_state o).
Proof.
  unfold abort_op. destruct (fold_uedit_keeps edits (start_paused b o t)) as [H1 H2]. rewrite H1, H2. reflexivity.
Qed.
Theorem abort_without_operation h : abort_op (clean_state h) = None.
Proof. reflexivity. Qed.

(* ---------------- rebase under a conflict policy ---------------- *)
Lemma head_commit_step a s d : ext_eq (r_head (commit_step a s d)) d.
Proof.
  unfold commit_step. destruct (content_eqb d (norm (r_head s))) eqn:E.
  - apply content_eqb_eq in E. intros k. rewrite E, get_norm. reflexivity.
  - destruct a; try (intros k; reflexivity); destruct (r_new s); intros k; reflexivity.
Qed.

Lemma run_steps2_fold m orig p : forall s n h, ext_eq (r_head s) h ->
  match run_steps2 m orig s n p with
  | R2Ok s' _ => exists d, fold_picks2 m h (kept p) = Some d /\ ext_eq (r_head s') d
  | R2Conflict => m = Stop /\ fold_picks2 m h (kept p) = None
  | R2Aborted d => m = Abort /\ d = orig /\ fold_picks2 m h (kept p) = None
  | R2Invalid => False
  end.
Proof.
  induction p as [|[a [pp c]] p IH]; intros s n h E.
  - cbn [run_steps2 kept filter map fold_picks2]. exists h. split; [reflexivity|exact E].
  - rewrite kept_cons.
    assert (Keep : is_kept a = true ->
      match (if clean pp (r_head s) c
             then run_steps2 m orig (commit_step a s (cherry_pick_data (r_head s) pp c)) n p
             else match m with
                  | Stop => R2Conflict
                  | Abort => R2Aborted orig
                  | Resolve hh => run_steps2 m orig (commit_step a s (resolved hh pp (r_head s) c)) (n + 1) p
                  end) with
      | R2Ok s' _ => exists d, fold_picks2 m h ((pp, c) :: kept p) = Some d /\ ext_eq (r_head s') d
      | R2Conflict => m = Stop /\ fold_picks2 m h ((pp, c) :: kept p) = None
      | R2Aborted d => m = Abort /\ d = orig /\ fold_picks2 m h ((pp, c) :: kept p) = None
      | R2Invalid => False
      end).
    { intros _. cbn [fold_picks2]. unfold pick2. rewrite <- (clean_ext pp (r_head s) h c E).
      destruct (clean pp (r_head s) c) eqn:C.
      - apply IH. intros k. rewrite (head_commit_step a s _ k). apply merge3_ext. exact E.
      - destruct m as [|hh|].
        + split; reflexivity.
        + apply IH. intros k. rewrite (head_commit_step a s _ k). apply resolved_ext. exact E.
        + repeat split; reflexivity. }
    destruct a; cbn [run_steps2 is_kept]; try (apply Keep; reflexivity).
    apply IH. exact E.
Qed.

(* the data after a rebase plan under a policy is the fold of (resolved) cherry-picks; it stops
   exactly when the fold stops; --abort gives back the branch as it was *)
Theorem rebase2_is_fold m orig onto p :
  match run_plan2 m orig onto p with
  | R2Ok s _ => valid_plan p = true /\ exists d, fold_picks2 m onto (kept p) = Some d /\ ext_eq (r_head s) d
  | R2Conflict => valid_plan p = true /\ m = Stop /\ fold_picks2 m onto (kept p) = None
  | R2Aborted d => valid_plan p = true /\ m = Abort /\ d = orig /\ fold_picks2 m onto (kept p) = None
  | R2Invalid => valid_plan p = false
  end.
Proof.
  unfold run_plan2. destruct (valid_plan p) eqn:V; [|reflexivity].
  pose proof (run_steps2_fold m orig p {| r_onto := onto; r_new := [] |} 0 onto (fun k => eq_refl)) as H.
  destruct (run_steps2 m orig {| r_onto := onto; r_new := [] |} 0 p); [split; [reflexivity|exact H] | split; [reflexivity|exact H] | destruct H | split; [reflexivity|exact H]].
Qed.
Theorem rebase_abort_restores orig onto p d : run_plan2 Abort orig onto p = R2Aborted d -> d = orig.
Proof.
  intros H. pose proof (rebase2_is_fold Abort orig onto p) as S. rewrite H in S. destruct S as [_ [_ [E _]]]. exact E.
Qed.
(* with policy Stop the new machine is the old one *)
Theorem fold_picks2_stop h l : fold_picks2 Stop h l = fold_picks h l.
Proof.
  revert h. induction l as [|[p c] l IH]; intros h; [reflexivity|]. cbn [fold_picks2 fold_picks]. unfold pick2.
  destruct (clean p h c); [apply IH|reflexivity].
Qed.

(* ---------------- schema changes ---------------- *)
Lemma has_col_in c s : In c s -> has_col c s = true.
Proof. intros H. unfold has_col. apply existsb_exists. exists c. split; [exact H|apply N.eqb_refl]. Qed.
Lemma schema_eqb_refl s : schema_eqb s s = true.
Proof. induction s as [|x s IH]; [reflexivity|]. cbn [schema_eqb]. rewrite N.eqb_refl, IH. reflexivity. Qed.
Lemma schema_eqb_eq a : forall b, schema_eqb a b = true -> a = b.
Proof.
  induction a as [|x a IH]; intros [|y b] H; try discriminate; [reflexivity|].
  cbn [schema_eqb] in H. apply andb_true_iff in H as [H1 H2]. apply N.eqb_eq in H1. f_equal; [exact H1|apply IH; exact H2].
Qed.

(* with three equal schemas the schema-aware procedure IS the plain one *)
Theorem smerge_proc_same_schema m s b o t : smerge_proc m s s s b o t = (s, merge_proc m b o t).
Proof. unfold smerge_proc. rewrite schema_eqb_refl. reflexivity. Qed.

(* ---------------- the oracle holds on the model (commit trees of one schema) ---------------- *)
(* Full statement: forall i, oracle i (model_obs i) = true.
   Proved here for inputs whose commits all have the same schema (oracle_on_model_partial).  Missing for
   schema-changing commits: the direct clauses of the oracle (cherry-pick onto the own parent gives the
   commit's schema and rows) need well-formedness of the input (rows aligned with their schema, child
   schema = ALTER of the parent schema) and lemmas reshape s s = id, schema_merge sp sp sc = sc; the
   correspondence run evaluates the full oracle on every generated schema case. *)
Lemma outcome_ok_model m s b o t : outcome_ok m s b o t (of_pres2 (s, merge_proc m b o t)) = true.
Proof.
  pose proof (merge_proc_spec m b o t) as H. unfold outcome_ok.
  unfold merge_proc in *. destruct (clean b o t) eqn:C.
  - destruct (content_eqb (merge3 b o t) (norm o)); cbn [of_pres2 snd fst mk k_kind k_data k_schema N.eqb Pos.eqb].
    + apply is_merge3_b_intro; exact H.
    + rewrite (is_merge3_b_intro _ _ _ _ H), schema_eqb_refl, andb_true_r. cbn [andb]. apply sorted_canonical. apply sorted_merge3.
  - assert (Nc : no_conflict_b b o t = false).
    { destruct (no_conflict_b b o t) eqn:Nc; [|reflexivity]. apply no_conflict_b_clean in Nc. congruence. }
    destruct m as [|h|]; cbn [of_pres2 snd fst mk k_kind k_data k_schema k_restored N.eqb Pos.eqb is_stop is_abort]; rewrite Nc; cbn [negb andb].
    + reflexivity.
    + rewrite schema_eqb_refl, andb_true_r. apply andb_true_iff. split.
      * unfold is_resolved_b. apply forallb_forall. intros k _. unfold resolve_at, merge3_at. rewrite get_resolved. apply orow_eqb_refl.
      * apply sorted_canonical. apply sorted_resolved.
    + rewrite schema_eqb_refl, andb_true_r. apply andb_true_iff. split.
      * apply ext_eqb_intro. intros k. apply get_norm.
      * apply sorted_canonical. apply sorted_norm.
Qed.

Lemma direct_ok_model m s p c :
  direct_ok true s s p c (of_pres2 (s, merge_proc m p p c)) = true.
Proof.
  unfold direct_ok, merge_proc. rewrite schema_eqb_refl. cbn [andb].
  destruct (merge3_base_left p c) as [Hc _]. rewrite Hc, merge3_base_left_eq.
  destruct (ext_eqb p c) eqn:X.
  - apply ext_eqb_elim in X. rewrite (norm_eq_of_ext _ _ X), content_eqb_refl. reflexivity.
  - destruct (content_eqb (norm c) (norm p)) eqn:Y.
    + apply content_eqb_eq in Y. assert (ext_eq p c) as Z by (intros k; rewrite <- (get_norm p), <- (get_norm c), Y; reflexivity).
      apply ext_eqb_intro in Z. congruence.
    + cbn [of_pres2 snd fst mk k_kind k_data k_schema N.eqb andb]. rewrite schema_eqb_refl, andb_true_r.
      apply ext_eqb_intro. intros k. apply get_norm.
Qed.

Definition one_schema (cs : list (option N * schema * content)) : Prop := forall i j, schema_at cs i = schema_at cs j.

Lemma oracle_op_model cs o : one_schema cs ->
  match o with OCpD _ _ _ _ | ORvD _ _ _ _ => True | _ => oracle_op cs o (model_op cs o) = true end.
Proof.
  intros S. destruct o as [hd c m | hd c m | tip onto pl m | hd c d2 u | hd c d2 u]; try exact I; cbn [oracle_op model_op].
  - destruct (data_at (hist_of cs) hd) as [dh|] eqn:Eh; [|reflexivity].
    destruct (first_parent (hist_of cs) c) as [pi|] eqn:Fp; [|reflexivity].
    destruct (parent_data (hist_of cs) c) as [dp|] eqn:Ep; [|reflexivity].
    destruct (data_at (hist_of cs) c) as [dc|] eqn:Ec; [|reflexivity].
    rewrite (S pi hd), (S c hd). unfold merge_ok. rewrite smerge_proc_same_schema, schema_eqb_refl. cbn [andb].
    rewrite outcome_ok_model. cbn [andb].
    destruct (pi =? hd) eqn:Q; [|reflexivity]. apply N.eqb_eq in Q; subst pi.
    unfold parent_data in Ep. rewrite Fp, Eh in Ep. inversion Ep; subst dp. apply direct_ok_model.
  - destruct (data_at (hist_of cs) hd) as [dh|] eqn:Eh; [|reflexivity].
    destruct (first_parent (hist_of cs) c) as [pi|] eqn:Fp; [|reflexivity].
    destruct (parent_data (hist_of cs) c) as [dp|] eqn:Ep; [|reflexivity].
    destruct (data_at (hist_of cs) c) as [dc|] eqn:Ec; [|reflexivity].
    rewrite (S pi hd), (S c hd). unfold merge_ok. rewrite smerge_proc_same_schema, schema_eqb_refl. cbn [andb].
    rewrite outcome_ok_model. cbn [andb].
    destruct (c =? hd) eqn:Q; [|reflexivity]. apply N.eqb_eq in Q; subst hd.
    rewrite Ec in Eh. inversion Eh; subst dh. apply direct_ok_model.
  - destruct (data_at (hist_of cs) tip) as [dt|]; [|reflexivity].
    destruct (data_at (hist_of cs) onto) as [d0|]; [|reflexivity].
    destruct (plan_of (hist_of cs) pl) as [p|]; [|reflexivity].
    pose proof (rebase2_is_fold m dt d0 p) as H.
    destruct (run_plan2 m dt d0 p) as [s n| | |d].
    + destruct H as [V [d [F E]]]. rewrite V, F. cbn [negb mk k_kind k_data].
      apply andb_true_iff. split; [apply andb_true_iff; split|].
      * destruct (n =? 0); reflexivity.
      * apply ext_eqb_intro. intros k. rewrite get_norm. apply E.
      * apply sorted_canonical. apply sorted_norm.
    + destruct H as [V [M F]]. subst m. rewrite V, F. reflexivity.
    + rewrite H. reflexivity.
    + destruct H as [V [M [D F]]]. subst m d. rewrite V, F. cbn [negb is_abort mk k_kind k_data k_restored N.eqb Pos.eqb andb].
      apply andb_true_iff. split; [apply ext_eqb_intro; intros k; apply get_norm | apply sorted_canonical; apply sorted_norm].
Qed.

(* ---- operations with unrelated uncommitted work around ---- *)
Lemma oracle_op_with_dirty cs o r w k : oracle_op cs o (with_dirty r w k) = oracle_op cs o r.
Proof. destruct o, r; reflexivity. Qed.

Lemma of_pres2_kind_ne7 sr : (k_kind (of_pres2 sr) =? 7) = false.
Proof. destruct sr as [s [d| | |d|d]]; reflexivity. Qed.

Lemma model_op_cp_ne7 cs hd c m : (k_kind (model_op cs (OCp hd c m)) =? 7) = false.
Proof.
  cbn [model_op]. destruct (data_at (hist_of cs) hd); [|reflexivity]. destruct (first_parent (hist_of cs) c); [|reflexivity].
  destruct (parent_data (hist_of cs) c); [|reflexivity]. destruct (data_at (hist_of cs) c); [|reflexivity]. apply of_pres2_kind_ne7.
Qed.
Lemma model_op_rv_ne7 cs hd c m : (k_kind (model_op cs (ORv hd c m)) =? 7) = false.
Proof.
  cbn [model_op]. destruct (data_at (hist_of cs) hd); [|reflexivity]. destruct (first_parent (hist_of cs) c); [|reflexivity].
  destruct (parent_data (hist_of cs) c); [|reflexivity]. destruct (data_at (hist_of cs) c); [|reflexivity]. apply of_pres2_kind_ne7.
Qed.

Lemma refused_ok s dh d2 :
  k_restored (refused_obs s dh d2) && k_dirty_kept (refused_obs s dh d2)
  && ext_eqb (k_data (refused_obs s dh d2)) dh && ext_eqb (k_work (refused_obs s dh d2)) (set_t2 dh d2) = true.
Proof.
  unfold refused_obs, with_dirty, mk. cbn [k_restored k_dirty_kept k_data k_work andb].
  rewrite (ext_eqb_intro (norm dh) dh (fun k => get_norm dh k)).
  rewrite (ext_eqb_intro (norm (set_t2 dh d2)) (set_t2 dh d2) (fun k => get_norm _ k)). reflexivity.
Qed.

Lemma oracle_op_dirty_model cs o : one_schema cs -> oracle_op_dirty cs o (model_op_dirty cs o) = true.
Proof.
  intros S. destruct o as [hd c m | hd c m | tip onto pl m | hd c d2 u | hd c d2 u];
    try (cbn [oracle_op_dirty model_op_dirty]; first [exact (oracle_op_model cs (OCp hd c m) S) | exact (oracle_op_model cs (ORv hd c m) S) | exact (oracle_op_model cs (ORb tip onto pl m) S)]).
  - cbn [oracle_op_dirty model_op_dirty]. destruct (data_at (hist_of cs) hd) as [dh|] eqn:Eh; [|reflexivity].
    destruct (t2_dirty dh d2 || u) eqn:D.
    + change (k_kind (refused_obs (schema_at cs hd) dh d2) =? 7) with true. cbv iota. cbn [andb].
      pose proof (refused_ok (schema_at cs hd) dh d2) as R. rewrite <- !andb_assoc in *. exact R.
    + rewrite model_op_cp_ne7, (oracle_op_model cs (OCp hd c Stop) S). reflexivity.
  - cbn [oracle_op_dirty model_op_dirty]. destruct (data_at (hist_of cs) hd) as [dh|] eqn:Eh; [|reflexivity].
    destruct (parent_data (hist_of cs) c) as [dp|] eqn:Ep; [|reflexivity].
    destruct (data_at (hist_of cs) c) as [dc|] eqn:Ec; [|reflexivity].
    destruct (t2_dirty dh d2 && touches2 dp dc) eqn:D.
    + change (k_kind (refused_obs (schema_at cs hd) dh d2) =? 7) with true. cbv iota. cbn [andb].
      pose proof (refused_ok (schema_at cs hd) dh d2) as R. rewrite <- !andb_assoc in *. exact R.
    + pose proof (model_op_rv_ne7 cs hd c Stop) as N7. pose proof (oracle_op_model cs (ORv hd c Stop) S) as O.
      destruct (k_kind (model_op cs (ORv hd c Stop)) =? 0) eqn:K0.
      * assert (K : k_kind (with_dirty (model_op cs (ORv hd c Stop)) (norm (set_t2 (k_data (model_op cs (ORv hd c Stop))) d2)) true)
                    = k_kind (model_op cs (ORv hd c Stop))) by reflexivity.
        rewrite K, N7, K0, oracle_op_with_dirty, O. cbn [andb with_dirty k_dirty_kept k_work k_data].
        apply ext_eqb_intro. intros k. apply get_norm.
      * rewrite N7, K0, O. reflexivity.
Qed.

Theorem oracle_on_model_partial cs ops : one_schema cs -> oracle (cs, ops) (model_obs (cs, ops)) = true.
Proof.
  intros S. unfold oracle, model_obs. cbn [fst snd].
  induction ops as [|o ops IH]; [reflexivity|]. cbn [map oracle_ops]. rewrite (oracle_op_dirty_model cs o S), IH. reflexivity.
Qed.

(* ---------------- schema-changing commits ---------------- *)
(* NOT PROVED (kept visible): for a schema-changing commit (sc, c) with parent (sp, p),
     cherry_pick_on_parent_schema : smerge_proc m sp sp sc p p c = (sc, QOk (norm c))
     revert_latest_schema         : smerge_proc m sc sc sp c c p = (sp, QOk (norm p))
   for well-formed inputs (rows aligned with their schema, sc an ALTER of sp).  Needs
   reshape s s = id on aligned rows, schema_merge sp sp sc = sc and settle = reshape when the
   other side did not delete.  The correspondence evaluates exactly these two clauses on the
   implementation and on the model for every generated schema case (Corr.direct_ok). *)

(* ---------------- non-vacuity ---------------- *)
Example ex_cellwise :
  merge_row (Some [Some 1; Some 1]) (Some [Some 9; Some 1]) (Some [Some 1; Some 5]) = MOk (Some [Some 9; Some 5]).
Proof. reflexivity. Qed.
Example ex_conflict :
  merge_row (Some [Some 1; Some 1]) (Some [Some 1; Some 6]) (Some [Some 1; Some 5]) = MConflict.
Proof. reflexivity. Qed.
Example ex_delete_modify : merge_row (Some [Some 1]) None (Some [Some 2]) = MConflict.
Proof. reflexivity. Qed.
Example ex_rebase :
  let c0 := [((1, 1), [Some 1; Some 1])] in
  let c1 := [((1, 1), [Some 1; Some 5])] in
  let c2 := [((1, 1), [Some 1; Some 5]); ((2, 7), [None; None])] in
  let c3 := [((1, 1), [Some 9; Some 1])] in
  run_plan c3 [(Pick, (c0, c1)); (Squash, (c1, c2))]
  = ROk {| r_onto := c3; r_new := [[((1, 1), [Some 9; Some 5]); ((2, 7), [None; None])]] |}.
Proof. vm_compute. reflexivity. Qed.
