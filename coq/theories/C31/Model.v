(* C31 — common SQL-level data model (also Required by C32, C33, C34, C47) and
   the model of cherry-pick / revert / rebase.  No proofs in this file.

   Database content.  A database state ("root value") is a finite map
       table -> (primary key -> row).
   It is represented curried as one association list keyed by (table id, pk):
   with a fixed set of tables an empty table and a table without rows are the
   same map.  Rows are the non-key cells, each NULL (None) or an integer.
   Lookup is "first binding wins"; the canonical form is strictly sorted by
   key and is what the harness reports (ORDER BY pk per table).

   Three-way merge (a small, self-contained version of
     go/libraries/doltcore/merge/merge_prolly_rows.go   valueMerger.tryMerge,
     go/store/prolly/tree/three_way_differ.go           ThreeWayDiffer
   ): key-wise; per key the three optional rows are merged
     - both sides equal              -> that value (convergent add/delete/modify)
     - only one side differs from base -> that side's value
     - both modified an existing row  -> cell-wise, same rule per cell; two
                                         different new values of one cell conflict
     - both inserted different rows / delete vs modify -> conflict.

   Procedures
     go/libraries/doltcore/cherry_pick/cherry_pick.go  cherryPick:
        merge.MergeRoots(ours = working(=HEAD), theirs = C, ancestor = parent C)
     go/libraries/doltcore/revert/revert.go            revertCommit:
        merge.MergeRoots(ours = working(=HEAD), theirs = parent C, ancestor = C)
     go/libraries/doltcore/sqle/dprocedures/dolt_rebase.go  continueRebase /
        processRebasePlanStep / createCherryPickOptionsForRebaseStep:
        the steps of the dolt_rebase table in rebase_order, each a cherry-pick
        onto the temporary branch; squash / fixup cherry-pick with Amend. *)
From Coq Require Import NArith List Bool.
Import ListNotations.
Local Open Scope N_scope.

(* ---------------------------------------------------------------- *)
(* contents                                                          *)
Definition cell := option N.
Definition row := list cell.
Definition key := (N * N)%type.                 (* (table id, primary key) *)
Definition content := list (key * row).

Definition key_eqb (a b : key) : bool := (fst a =? fst b) && (snd a =? snd b).
Definition key_ltb (a b : key) : bool :=
  (fst a <? fst b) || ((fst a =? fst b) && (snd a <? snd b)).

Definition cell_eqb (a b : cell) : bool :=
  match a, b with
  | None, None => true
  | Some x, Some y => x =? y
  | _, _ => false
  end.

Fixpoint row_eqb (a b : row) : bool :=
  match a, b with
  | [], [] => true
  | x :: a', y :: b' => cell_eqb x y && row_eqb a' b'
  | _, _ => false
  end.

Definition orow_eqb (a b : option row) : bool :=
  match a, b with
  | None, None => true
  | Some x, Some y => row_eqb x y
  | _, _ => false
  end.

Fixpoint get (k : key) (m : content) : option row :=
  match m with
  | [] => None
  | (k', r) :: m' => if key_eqb k k' then Some r else get k m'
  end.

Definition keys (m : content) : list key := map fst m.

Fixpoint content_eqb (a b : content) : bool :=
  match a, b with
  | [], [] => true
  | (k, r) :: a', (k', r') :: b' => key_eqb k k' && row_eqb r r' && content_eqb a' b'
  | _, _ => false
  end.

(* strictly increasing keys: the canonical form *)
Fixpoint sorted_from (lo : key) (l : list key) : bool :=
  match l with
  | [] => true
  | k :: l' => key_ltb lo k && sorted_from k l'
  end.
Definition sorted_keys (l : list key) : bool :=
  match l with [] => true | k :: l' => sorted_from k l' end.
Definition canonical (m : content) : bool := sorted_keys (keys m).

(* sorted insertion without duplicates *)
Fixpoint insert_key (k : key) (l : list key) : list key :=
  match l with
  | [] => [k]
  | x :: l' => if key_ltb k x then k :: l
               else if key_eqb k x then l
               else x :: insert_key k l'
  end.
Definition sort_keys (l : list key) : list key := fold_right insert_key [] l.

(* ---------------------------------------------------------------- *)
(* three-way merge                                                   *)
Inductive mres := MOk (r : option row) | MConflict.

Definition merge_cell (b o t : cell) : option cell :=
  if cell_eqb o t then Some o
  else if cell_eqb o b then Some t
  else if cell_eqb t b then Some o
  else None.

(* None: some cell conflicts (or the arities differ: schema changes are not
   part of this model) *)
Fixpoint merge_cells (b o t : row) : option row :=
  match b, o, t with
  | [], [], [] => Some []
  | cb :: b', co :: o', ct :: t' =>
    match merge_cell cb co ct, merge_cells b' o' t' with
    | Some c, Some r => Some (c :: r)
    | _, _ => None
    end
  | _, _, _ => None
  end.

Definition merge_row (b o t : option row) : mres :=
  if orow_eqb o t then MOk o
  else if orow_eqb o b then MOk t
  else if orow_eqb t b then MOk o
  else match b, o, t with
       | Some rb, Some ro, Some rt =>
         match merge_cells rb ro rt with
         | Some r => MOk (Some r)
         | None => MConflict
         end
       | _, _, _ => MConflict
       end.

Definition keys3 (b o t : content) : list key := sort_keys (keys b ++ keys o ++ keys t).

Definition merge3_at (b o t : content) (k : key) : mres :=
  merge_row (get k b) (get k o) (get k t).

Definition is_conflict (r : mres) : bool := match r with MConflict => true | MOk _ => false end.

(* the merged map; conflicting keys are left out here and reported by [conflicts] *)
Definition merge3 (b o t : content) : content :=
  flat_map (fun k => match merge3_at b o t k with
                     | MOk (Some r) => [(k, r)]
                     | _ => []
                     end) (keys3 b o t).

Definition conflicts (b o t : content) : list key :=
  filter (fun k => is_conflict (merge3_at b o t k)) (keys3 b o t).

Definition clean (b o t : content) : bool :=
  forallb (fun k => negb (is_conflict (merge3_at b o t k))) (keys3 b o t).

(* canonical copy of a content (sorted, first binding of each key) *)
Definition norm (m : content) : content :=
  flat_map (fun k => match get k m with Some r => [(k, r)] | None => [] end) (sort_keys (keys m)).

(* ---------------------------------------------------------------- *)
(* histories                                                         *)
(* A commit: positions of its parents in the history (earlier commits) and its
   content.  Commit ids are positions. *)
Record commit := { c_parents : list N; c_data : content }.
Definition history := list commit.

Definition commit_at (h : history) (i : N) : option commit := nth_error h (N.to_nat i).
Definition data_at (h : history) (i : N) : option content :=
  match commit_at h i with Some c => Some (c_data c) | None => None end.
Definition first_parent (h : history) (i : N) : option N :=
  match commit_at h i with
  | Some c => match c_parents c with p :: _ => Some p | [] => None end
  | None => None
  end.
Definition parent_data (h : history) (i : N) : option content :=
  match first_parent h i with Some p => data_at h p | None => None end.

(* ---------------------------------------------------------------- *)
(* cherry-pick, revert                                                *)
(* result of a procedure on the data level *)
Inductive pres :=
| POk (d : content)        (* new commit with this content on top of HEAD *)
| PConflict                (* merge artifacts: the procedure stops *)
| PNoChange                (* the merge result equals HEAD *)
| PBad.                    (* commit without parent / merge commit / unknown commit *)

(* [head] the content of HEAD, [c] / [p] the content of the commit and of its parent *)
Definition cherry_pick_data (head p c : content) : content := merge3 p head c.
Definition revert_data (head p c : content) : content := merge3 c head p.

Definition cherry_pick (head p c : content) : pres :=
  if negb (clean p head c) then PConflict
  else let d := cherry_pick_data head p c in
       if content_eqb d (norm head) then PNoChange else POk d.

Definition revert (head p c : content) : pres :=
  if negb (clean c head p) then PConflict
  else let d := revert_data head p c in
       if content_eqb d (norm head) then PNoChange else POk d.

(* ---------------------------------------------------------------- *)
(* rebase plans                                                       *)
Inductive action := Pick | Reword | Squash | Fixup | Drop.
(* a plan step names a commit by (parent content, content) *)
Definition step := (action * (content * content))%type.
Definition plan := list step.

Definition is_fold_action (a : action) : bool :=
  match a with Squash | Fixup => true | _ => false end.
Definition is_kept (a : action) : bool := match a with Drop => false | _ => true end.

(* rebase.ValidateRebasePlan: squash / fixup need an earlier pick or reword *)
Fixpoint valid_plan_from (seen : bool) (p : plan) : bool :=
  match p with
  | [] => true
  | (a, _) :: p' =>
    match a with
    | Pick | Reword => valid_plan_from true p'
    | Squash | Fixup => seen && valid_plan_from seen p'
    | Drop => valid_plan_from seen p'
    end
  end.
Definition valid_plan (p : plan) : bool := valid_plan_from false p.

(* State while the plan runs: the new commits created so far on the temporary
   branch (most recent first; their contents) on top of [onto]. *)
Record rstate := { r_onto : content; r_new : list content }.
Definition r_head (s : rstate) : content :=
  match r_new s with d :: _ => d | [] => r_onto s end.

Inductive rres := ROk (s : rstate) | RConflict | RInvalid.

(* One step.  A step whose cherry-pick leaves HEAD unchanged creates no commit
   (rebase default --empty=drop: the commit "becomes empty" and is dropped). *)
Definition run_step (s : rstate) (st : step) : rres :=
  let '(a, (p, c)) := st in
  match a with
  | Drop => ROk s
  | Pick | Reword =>
    if negb (clean p (r_head s) c) then RConflict
    else let d := cherry_pick_data (r_head s) p c in
         if content_eqb d (norm (r_head s)) then ROk s
         else ROk {| r_onto := r_onto s; r_new := d :: r_new s |}
  | Squash | Fixup =>
    if negb (clean p (r_head s) c) then RConflict
    else let d := cherry_pick_data (r_head s) p c in
         if content_eqb d (norm (r_head s)) then ROk s
         else match r_new s with
              | _ :: older => ROk {| r_onto := r_onto s; r_new := d :: older |}    (* amend HEAD *)
              | [] => ROk {| r_onto := r_onto s; r_new := [d] |}                  (* HEAD is onto itself: see Proofs, excluded by valid_plan + non-empty picks *)
              end
  end.

Fixpoint run_steps (s : rstate) (p : plan) : rres :=
  match p with
  | [] => ROk s
  | st :: p' => match run_step s st with
                | ROk s' => run_steps s' p'
                | e => e
                end
  end.

Definition run_plan (onto : content) (p : plan) : rres :=
  if valid_plan p then run_steps {| r_onto := onto; r_new := [] |} p else RInvalid.

(* ================================================================ *)
(* Round 2 extensions (add-only: everything above is unchanged)      *)

(* ---------------- conflict resolution and --continue ---------------- *)
(* While an operation is stopped with conflicts the working tables hold, for a
   conflicting key, "our" row; dolt_conflicts_resolve --ours / --theirs replaces
   every conflicting row by the whole row of that side
     go/libraries/doltcore/sqle/dprocedures/dolt_conflicts_resolve.go
   and --continue commits the working set
     cherry_pick.ContinueCherryPick, revert.ContinueRevert,
     dolt_rebase.go continueRebase / commitManuallyStagedChangesForStep. *)
Inductive side := Ours | Theirs.
Definition pick_side (h : side) (ko kt : option row) : option row :=
  match h with Ours => ko | Theirs => kt end.

Definition resolve_at (h : side) (b o t : content) (k : key) : option row :=
  match merge3_at b o t k with
  | MOk v => v
  | MConflict => pick_side h (get k o) (get k t)
  end.

(* the merge with every conflicting key resolved to side h *)
Definition resolved (h : side) (b o t : content) : content :=
  flat_map (fun k => match resolve_at h b o t k with Some r => [(k, r)] | None => [] end) (keys3 b o t).

(* what to do when the operation stops with conflicts *)
Inductive onconf := Stop | Resolve (h : side) | Abort.

Inductive pres2 :=
| QOk (d : content)          (* no conflict: new commit *)
| QNoChange                  (* (resolved) merge equals HEAD: nothing to commit *)
| QConflict                  (* stopped with conflicts, given up *)
| QResolved (d : content)    (* stopped, conflicts resolved, --continue made the commit *)
| QAborted (d : content).    (* stopped, --abort: the content afterwards *)

(* one three-way-merge procedure (ours = HEAD) with a conflict policy *)
Definition merge_proc (m : onconf) (b o t : content) : pres2 :=
  if clean b o t then
    let d := merge3 b o t in if content_eqb d (norm o) then QNoChange else QOk d
  else match m with
       | Stop => QConflict
       | Abort => QAborted (norm o)
       | Resolve h => QResolved (resolved h b o t)   (* --continue commits even when the resolved rows equal HEAD's (observed) *)
       end.

Definition cherry_pick2 (m : onconf) (head p c : content) : pres2 := merge_proc m p head c.
Definition revert2 (m : onconf) (head p c : content) : pres2 := merge_proc m c head p.

(* The session state while an operation is stopped: merge.AbortMerge resets
   staged := HEAD, working := the pre-merge working root, and clears the state. *)
Record opstate := { os_head : content; os_staged : content; os_working : content; os_pre : option content }.
Definition clean_state (h : content) : opstate :=
  {| os_head := h; os_staged := h; os_working := h; os_pre := None |}.
(* cherryPick / revertCommit with artifacts: working := merge result (conflicting rows keep ours),
   non-conflicting tables staged, StartCherryPick / StartRevert record the pre-merge working root *)
Definition start_paused (b o t : content) : opstate :=
  {| os_head := o; os_staged := merge3 b o t; os_working := resolved Ours b o t; os_pre := Some o |}.
(* anything the user does while resolving: arbitrary new working / staged contents *)
Inductive uedit := SetWorking (c : content) | SetStaged (c : content).
Definition apply_uedit (s : opstate) (e : uedit) : opstate :=
  match e with
  | SetWorking c => {| os_head := os_head s; os_staged := os_staged s; os_working := c; os_pre := os_pre s |}
  | SetStaged c => {| os_head := os_head s; os_staged := c; os_working := os_working s; os_pre := os_pre s |}
  end.
Definition abort_op (s : opstate) : option opstate :=
  match os_pre s with
  | Some pre => Some {| os_head := os_head s; os_staged := os_head s; os_working := pre; os_pre := None |}
  | None => None                      (* "there is no merge to abort" *)
  end.

(* rebase with a conflict policy.  The rebased branch itself is not touched until the
   plan has finished (the work happens on the temporary branch dolt_rebase_<b>), so
   --abort (abortRebase: delete the temporary branch, switch back) gives back [orig]. *)
Inductive rres2 := R2Ok (s : rstate) (pauses : N) | R2Conflict | R2Invalid | R2Aborted (orig : content).

Definition commit_step (a : action) (s : rstate) (d : content) : rstate :=
  if content_eqb d (norm (r_head s)) then s
  else match a with
       | Squash | Fixup => match r_new s with
                           | _ :: older => {| r_onto := r_onto s; r_new := d :: older |}
                           | [] => {| r_onto := r_onto s; r_new := [d] |}
                           end
       | _ => {| r_onto := r_onto s; r_new := d :: r_new s |}
       end.

Fixpoint run_steps2 (m : onconf) (orig : content) (s : rstate) (n : N) (p : plan) : rres2 :=
  match p with
  | [] => R2Ok s n
  | (a, (pp, c)) :: p' =>
    match a with
    | Drop => run_steps2 m orig s n p'
    | _ =>
      if clean pp (r_head s) c
      then run_steps2 m orig (commit_step a s (cherry_pick_data (r_head s) pp c)) n p'
      else match m with
           | Stop => R2Conflict
           | Abort => R2Aborted orig
           | Resolve h => run_steps2 m orig (commit_step a s (resolved h pp (r_head s) c)) (n + 1) p'
           end
    end
  end.

Definition run_plan2 (m : onconf) (orig onto : content) (p : plan) : rres2 :=
  if valid_plan p then run_steps2 m orig {| r_onto := onto; r_new := [] |} 0 p else R2Invalid.

(* ---------------- schema changes in the picked / reverted commit ---------------- *)
(* Table 1 may gain or lose columns (ALTER TABLE t1 ADD COLUMN c int / DROP COLUMN c);
   a schema is the list of its non-key column ids, rows are aligned with it.
   merge.MergeRoots first merges the schemas (schema_merge.go), then merges rows in
   the merged schema, a missing column reading as NULL
   (merge_prolly_rows.go valueMerger: processBaseColumn / processColumn). *)
Definition schema := list N.

Fixpoint col_index (c : N) (s : schema) : option nat :=
  match s with
  | [] => None
  | x :: s' => if x =? c then Some O else match col_index c s' with Some i => Some (S i) | None => None end
  end.
Definition cell_of (s : schema) (r : row) (c : N) : cell :=
  match col_index c s with Some i => nth i r None | None => None end.
Definition proj (from to : schema) (r : row) : row := map (cell_of from r) to.
Definition reshape (from to : schema) (m : content) : content :=
  map (fun kr => if fst (fst kr) =? 1 then (fst kr, proj from to (snd kr)) else kr) m.
Definition has_col (c : N) (s : schema) : bool := existsb (N.eqb c) s.

(* column sets are kept sorted by column id (the order of columns is presentation only and is
   not compared) *)
Fixpoint insert_col (c : N) (l : schema) : schema :=
  match l with
  | [] => [c]
  | x :: l' => if c <? x then c :: l else if c =? x then l else x :: insert_col c l'
  end.
Definition sort_cols (l : schema) : schema := fold_right insert_col [] l.

(* ours without the columns theirs dropped, plus the columns theirs added *)
Definition schema_merge (sb so st : schema) : schema :=
  sort_cols (filter (fun c => negb (has_col c sb && negb (has_col c st))) so
             ++ filter (fun c => negb (has_col c sb) && negb (has_col c so)) st).
(* a column of the base dropped by one side while the other side changed its cell in a row the
   base has (valueMerger.processBaseColumn: "modified on one side, dropped on the other") *)
Definition drop_conflict_at (sb so st : schema) (b o t : content) (k : key) : bool :=
  if fst k =? 1 then
    match get k b with
    | Some rb =>
      existsb (fun c =>
        (negb (has_col c st) && has_col c so
         && match get k o with Some ro => negb (cell_eqb (cell_of so ro c) (cell_of sb rb c)) && negb (cell_eqb (cell_of so ro c) None) | None => false end)
        || (negb (has_col c so) && has_col c st
            && match get k t with Some rt => negb (cell_eqb (cell_of st rt c) (cell_of sb rb c)) && negb (cell_eqb (cell_of st rt c) None) | None => false end)) sb
    | None => false
    end
  else false.

(* A row one side deleted and the other side left unchanged in every column of the base that it
   still has (it may carry values in columns it added) counts as unchanged on that other side:
   the row stays deleted (observed; the differ compares the rows in the columns of the base). *)
Definition same_on_base (sb sx : schema) (rb rx : row) : bool :=
  forallb (fun c => negb (has_col c sx) || cell_eqb (cell_of sb rb c) (cell_of sx rx c)) sb.
(* ... and a row both sides inserted has, in a column only the other side has, the other side's cell
   (this side has no opinion about that column). *)
Definition settle (sb sx sy sm : schema) (b x other : content) : content :=
  map (fun kr =>
    if fst (fst kr) =? 1 then
      match get (fst kr) other, get (fst kr) b with
      | None, Some rb => if same_on_base sb sx rb (snd kr) then (fst kr, proj sb sm rb) else (fst kr, proj sx sm (snd kr))
      | Some ry, None => (fst kr, map (fun c => if has_col c sx then cell_of sx (snd kr) c else cell_of sy ry c) sm)
      | _, _ => (fst kr, proj sx sm (snd kr))
      end
    else kr) x.

(* rows are merged in the merged schema, a column a side does not have reading as NULL there *)
Definition smerge3 (sb so st : schema) (b o t : content) : content :=
  let sm := schema_merge sb so st in merge3 (reshape sb sm b) (settle sb so st sm b o t) (settle sb st so sm b t o).
Definition sclean (sb so st : schema) (b o t : content) : bool :=
  let sm := schema_merge sb so st in
  clean (reshape sb sm b) (settle sb so st sm b o t) (settle sb st so sm b t o)
  && forallb (fun k => negb (drop_conflict_at sb so st b o t k)) (keys3 b o t).

Fixpoint schema_eqb (a b : schema) : bool :=
  match a, b with
  | [], [] => true
  | x :: a', y :: b' => (x =? y) && schema_eqb a' b'
  | _, _ => false
  end.

(* merge procedure over (schema, content) pairs; with three equal schemas it is merge_proc *)
Definition smerge_proc (m : onconf) (sb so st : schema) (b o t : content) : schema * pres2 :=
  if schema_eqb sb so && schema_eqb sb st then (so, merge_proc m b o t)
  else let sm := schema_merge sb so st in
       if sclean sb so st b o t then
         let d := smerge3 sb so st b o t in
         if schema_eqb sm so && content_eqb d (norm o) then (so, QNoChange) else (sm, QOk d)
       else match m with
            | Abort => (so, QAborted (norm o))
            | _ => (so, QConflict)          (* resolution of schema-change conflicts is not modelled *)
            end.
