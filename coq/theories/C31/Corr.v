(* C31 — correspondence: cases, model observation, oracle. *)
From Coq Require Import NArith List Bool.
From Dolt Require Import C31.Model C31.Spec.
Import ListNotations.
Local Open Scope N_scope.

(* input: a commit tree (parent position, schema of table 1, content), commit 0 is the root,
   and operations each run on a fresh branch, with a policy for conflicts *)
Inductive op :=
| OCp (head c : N) (m : onconf)                         (* dolt_cherry_pick(c) with HEAD = head *)
| ORv (head c : N) (m : onconf)                         (* dolt_revert(c) with HEAD = head *)
| ORb (tip onto : N) (pl : list (action * N)) (m : onconf)   (* dolt_rebase -i onto on a branch at tip *)
(* the same with unrelated uncommitted work present: table 2 edited (not staged) to the rows d2, and / or an
   untracked table *)
| OCpD (head c : N) (d2 : option content) (untracked : bool)
| ORvD (head c : N) (d2 : option content) (untracked : bool).

Definition input := (list (option N * schema * content) * list op)%type.

(* outcome kinds: 0 ok, 1 conflict, 2 no change, 3 invalid plan, 4 other error,
   5 conflicts resolved and continued, 6 aborted, 7 refused because of uncommitted changes.
   k_data: the COMMITTED rows of HEAD afterwards; k_work: the working-set rows;
   k_dirty_kept: the unrelated edits are still listed as unstaged by dolt_status and are not in HEAD *)
Record op_obs := { k_kind : N; k_schema : schema; k_data : content; k_new : N; k_restored : bool; k_pauses : N;
                   k_work : content; k_dirty_kept : bool }.
Definition obs := list op_obs.
Definition case := (input * obs)%type.

Definition hist_of (cs : list (option N * schema * content)) : history :=
  map (fun pc => {| c_parents := match fst (fst pc) with Some p => [p] | None => [] end; c_data := snd pc |}) cs.
Definition schema_at (cs : list (option N * schema * content)) (i : N) : schema :=
  match nth_error cs (N.to_nat i) with Some pc => snd (fst pc) | None => [] end.

Definition mk (k : N) (s : schema) (d : content) (n : N) (r : bool) (p : N) : op_obs :=
  {| k_kind := k; k_schema := s; k_data := d; k_new := n; k_restored := r; k_pauses := p; k_work := d; k_dirty_kept := false |}.

Definition with_dirty (r : op_obs) (w : content) (kept : bool) : op_obs :=
  {| k_kind := k_kind r; k_schema := k_schema r; k_data := k_data r; k_new := k_new r; k_restored := k_restored r;
     k_pauses := k_pauses r; k_work := w; k_dirty_kept := kept |}.

(* rows of one table / the content with table 2 replaced *)
Definition tbl_of (t : N) (m : content) : content := filter (fun kr => fst (fst kr) =? t) m.
Definition set_t2 (d : content) (d2 : option content) : content :=
  match d2 with Some x => tbl_of 1 d ++ tbl_of 2 x | None => d end.
Definition t2_dirty (dh : content) (d2 : option content) : bool :=
  match d2 with Some x => negb (content_eqb (norm (tbl_of 2 x)) (norm (tbl_of 2 dh))) | None => false end.
Definition touches2 (dp dc : content) : bool := negb (content_eqb (norm (tbl_of 2 dp)) (norm (tbl_of 2 dc))).
Definition bad : op_obs := mk 4 [] [] 0 false 0.

Definition of_pres2 (sr : schema * pres2) : op_obs :=
  match snd sr with
  | QOk d => mk 0 (fst sr) d 1 false 0
  | QNoChange => mk 2 [] [] 0 false 0
  | QConflict => mk 1 [] [] 0 false 0
  | QResolved d => mk 5 (fst sr) d 1 false 1
  | QAborted d => mk 6 (fst sr) d 0 true 0
  end.

Definition plan_of (h : history) (pl : list (action * N)) : option plan :=
  fold_right (fun an acc =>
    match acc, parent_data h (snd an), data_at h (snd an) with
    | Some l, Some p, Some c => Some ((fst an, (p, c)) :: l)
    | _, _, _ => None
    end) (Some []) pl.

Definition model_op (cs : list (option N * schema * content)) (o : op) : op_obs :=
  let h := hist_of cs in
  match o with
  | OCp hd c m =>
    match data_at h hd, first_parent h c, parent_data h c, data_at h c with
    | Some dh, Some pi, Some dp, Some dc =>
      of_pres2 (smerge_proc m (schema_at cs pi) (schema_at cs hd) (schema_at cs c) dp dh dc)
    | _, _, _, _ => bad
    end
  | ORv hd c m =>
    match data_at h hd, first_parent h c, parent_data h c, data_at h c with
    | Some dh, Some pi, Some dp, Some dc =>
      of_pres2 (smerge_proc m (schema_at cs c) (schema_at cs hd) (schema_at cs pi) dc dh dp)
    | _, _, _, _ => bad
    end
  | ORb tip onto pl m =>
    match data_at h tip, data_at h onto, plan_of h pl with
    | Some dt, Some d0, Some p =>
      match run_plan2 m dt d0 p with
      | R2Ok s n => mk (if n =? 0 then 0 else 5) (schema_at cs onto) (norm (r_head s)) (N.of_nat (length (r_new s))) false n
      | R2Conflict => mk 1 [] [] 0 false 0
      | R2Invalid => mk 3 [] [] 0 false 0
      | R2Aborted d => mk 6 (schema_at cs tip) (norm d) 0 true 0
      end
    | _, _, _ => bad
    end
  | OCpD _ _ _ _ | ORvD _ _ _ _ => bad          (* handled by model_op_dirty *)
  end.

(* revert.dirtyTablesConflictWithRevert: an unstaged change to a table the revert would touch refuses it;
   cherry_pick.cherryPick: any uncommitted change (also an untracked table) refuses it.  Otherwise only the
   tables the merge changed are staged and committed (stageRevertedTables): the unrelated edits stay in the
   working set, uncommitted. *)
Definition refused_obs (s : schema) (dh : content) (d2 : option content) : op_obs :=
  with_dirty (mk 7 s (norm dh) 0 true 0) (norm (set_t2 dh d2)) true.

Definition model_op_dirty (cs : list (option N * schema * content)) (o : op) : op_obs :=
  let h := hist_of cs in
  match o with
  | OCpD hd c d2 u =>
    match data_at h hd with
    | Some dh => if t2_dirty dh d2 || u then refused_obs (schema_at cs hd) dh d2
                 else model_op cs (OCp hd c Stop)
    | None => bad
    end
  | ORvD hd c d2 u =>
    match data_at h hd, parent_data h c, data_at h c with
    | Some dh, Some dp, Some dc =>
      if t2_dirty dh d2 && touches2 dp dc then refused_obs (schema_at cs hd) dh d2
      else let r := model_op cs (ORv hd c Stop) in
           if k_kind r =? 0 then with_dirty r (norm (set_t2 (k_data r) d2)) true else r
    | _, _, _ => bad
    end
  | _ => model_op cs o
  end.

Definition model_obs (i : input) : obs := map (model_op_dirty (fst i)) (snd i).

Definition op_obs_eqb (a b : op_obs) : bool :=
  (k_kind a =? k_kind b) && schema_eqb (k_schema a) (k_schema b) && content_eqb (k_data a) (k_data b)
  && (k_new a =? k_new b) && Bool.eqb (k_restored a) (k_restored b) && (k_pauses a =? k_pauses b)
  && content_eqb (k_work a) (k_work b) && Bool.eqb (k_dirty_kept a) (k_dirty_kept b).

Fixpoint obs_eqb (a b : obs) : bool :=
  match a, b with
  | [], [] => true
  | x :: a', y :: b' => op_obs_eqb x y && obs_eqb a' b'
  | _, _ => false
  end.

(* ---- The property on what the implementation returned ----
   cherry-pick c onto head: success with exactly the three-way merge (base = parent c, ours =
   head, theirs = c; with a schema change: in the merged schema); a reported conflict only when
   the merge has one; "no change" only when the (resolved) merge equals head; after resolving every
   conflict to one side and --continue: the merge with the conflicting rows of that side; after
   --abort: exactly the state before the operation.  Directly: cherry-picking onto c's own parent
   gives c's data and schema, reverting HEAD's own commit gives its parent's data and schema.
   rebase: the data of the fold of (resolved) cherry-picks of the kept commits in plan order. *)
Definition is_stop (m : onconf) : bool := match m with Stop => true | _ => false end.
Definition is_abort (m : onconf) : bool := match m with Abort => true | _ => false end.

Definition outcome_ok (m : onconf) (s : schema) (b o t : content) (r : op_obs) : bool :=
  let k := k_kind r in
  if k =? 0 then is_merge3_b b o t (k_data r) && canonical (k_data r) && schema_eqb (k_schema r) s
  else if k =? 1 then negb (no_conflict_b b o t) && is_stop m
  else if k =? 2 then is_merge3_b b o t o
  else if k =? 5 then
    match m with
    | Resolve h => negb (no_conflict_b b o t) && is_resolved_b h b o t (k_data r) && canonical (k_data r) && schema_eqb (k_schema r) s
    | _ => false
    end
  else if k =? 6 then
    is_abort m && negb (no_conflict_b b o t) && k_restored r && ext_eqb (k_data r) o && canonical (k_data r) && schema_eqb (k_schema r) s
  else false.

(* with a schema change between the three: the merge in the merged schema *)
Definition no_drop_conflict_b (sb so st : schema) (b o t : content) : bool :=
  forallb (fun k => negb (drop_conflict_at sb so st b o t k)) (keys b ++ keys o ++ keys t).
Definition soutcome_ok (m : onconf) (sb so st : schema) (b o t : content) (r : op_obs) : bool :=
  let sm := schema_merge sb so st in
  let rb := reshape sb sm b in let ro := settle sb so st sm b o t in let rt := settle sb st so sm b t o in
  let okm := no_conflict_b rb ro rt && no_drop_conflict_b sb so st b o t in
  let k := k_kind r in
  if k =? 0 then okm && is_merge3_b rb ro rt (k_data r) && canonical (k_data r) && schema_eqb (k_schema r) sm
  else if k =? 1 then negb okm && negb (is_abort m)
  else if k =? 2 then okm && schema_eqb sm so && is_merge3_b rb ro rt (reshape so sm o)
  else if k =? 6 then
    is_abort m && negb okm && k_restored r && ext_eqb (k_data r) o && canonical (k_data r) && schema_eqb (k_schema r) so
  else false.

Definition merge_ok (m : onconf) (sb so st : schema) (b o t : content) (r : op_obs) : bool :=
  if schema_eqb sb so && schema_eqb sb st then outcome_ok m so b o t r else soutcome_ok m sb so st b o t r.

(* the two algebraic consequences, stated directly on the observation:
   [same] = the operation is "onto own parent" / "of HEAD's own commit"; target = what must come back *)
Definition direct_ok (same : bool) (s_from s_to : schema) (d_from d_to : content) (r : op_obs) : bool :=
  if same then
    if schema_eqb s_from s_to && ext_eqb d_from d_to then k_kind r =? 2
    else (k_kind r =? 0) && ext_eqb (k_data r) d_to && schema_eqb (k_schema r) s_to
  else true.

Definition oracle_op (cs : list (option N * schema * content)) (o : op) (r : op_obs) : bool :=
  let h := hist_of cs in
  match o with
  | OCp hd c m =>
    match data_at h hd, first_parent h c, parent_data h c, data_at h c with
    | Some dh, Some pi, Some dp, Some dc =>
      merge_ok m (schema_at cs pi) (schema_at cs hd) (schema_at cs c) dp dh dc r
      && direct_ok (pi =? hd) (schema_at cs pi) (schema_at cs c) dp dc r
    | _, _, _, _ => k_kind r =? 4
    end
  | ORv hd c m =>
    match data_at h hd, first_parent h c, parent_data h c, data_at h c with
    | Some dh, Some pi, Some dp, Some dc =>
      merge_ok m (schema_at cs c) (schema_at cs hd) (schema_at cs pi) dc dh dp r
      && direct_ok (c =? hd) (schema_at cs c) (schema_at cs pi) dc dp r
    | _, _, _, _ => k_kind r =? 4
    end
  | ORb tip onto pl m =>
    match data_at h tip, data_at h onto, plan_of h pl with
    | Some dt, Some d0, Some p =>
      if negb (valid_plan p) then k_kind r =? 3
      else match fold_picks2 m d0 (kept p) with
           | Some d => ((k_kind r =? 0) || (k_kind r =? 5)) && ext_eqb (k_data r) d && canonical (k_data r)
           | None => if is_abort m then (k_kind r =? 6) && k_restored r && ext_eqb (k_data r) dt && canonical (k_data r)
                     else k_kind r =? 1
           end
    | _, _, _ => k_kind r =? 4
    end
  | OCpD _ _ _ _ | ORvD _ _ _ _ => false        (* handled by oracle_op_dirty *)
  end.

(* with unrelated uncommitted work present: the new commit is the merge result only; the unrelated
   changes stay uncommitted (still in the working set, still listed by dolt_status, not in HEAD);
   a refusal is legitimate only when local changes would be in the way, and changes nothing *)
Definition oracle_op_dirty (cs : list (option N * schema * content)) (o : op) (r : op_obs) : bool :=
  let h := hist_of cs in
  match o with
  | OCpD hd c d2 u =>
    match data_at h hd with
    | Some dh =>
      if k_kind r =? 7 then (t2_dirty dh d2 || u) && k_restored r && k_dirty_kept r
                            && ext_eqb (k_data r) dh && ext_eqb (k_work r) (set_t2 dh d2)
      else oracle_op cs (OCp hd c Stop) r && negb (t2_dirty dh d2 || u)
    | None => k_kind r =? 4
    end
  | ORvD hd c d2 u =>
    match data_at h hd, parent_data h c, data_at h c with
    | Some dh, Some dp, Some dc =>
      if k_kind r =? 7 then t2_dirty dh d2 && touches2 dp dc && k_restored r && k_dirty_kept r
                            && ext_eqb (k_data r) dh && ext_eqb (k_work r) (set_t2 dh d2)
      else oracle_op cs (ORv hd c Stop) r
           && (if k_kind r =? 0 then k_dirty_kept r && ext_eqb (k_work r) (set_t2 (k_data r) d2) else true)
    | _, _, _ => k_kind r =? 4
    end
  | _ => oracle_op cs o r
  end.

Fixpoint oracle_ops (cs : list (option N * schema * content)) (os : list op) (rs : obs) : bool :=
  match os, rs with
  | [], [] => true
  | o :: os', r :: rs' => oracle_op_dirty cs o r && oracle_ops cs os' rs'
  | _, _ => false
  end.

Definition oracle (i : input) (o : obs) : bool := oracle_ops (fst i) (snd i) o.

Definition check_case (c : case) : N :=
  (if obs_eqb (model_obs (fst c)) (snd c) then 0 else 1)
  + (if oracle (fst c) (snd c) then 0 else 2).
