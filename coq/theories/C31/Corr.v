(* C31 — correspondence: cases, model observation, oracle. *)
From Coq Require Import NArith List Bool.
From Dolt Require Import C31.Model C31.Spec.
Import ListNotations.
Local Open Scope N_scope.

(* input: a commit tree (parent position, content), commit 0 is the root, and
   operations each run on a fresh branch *)
Inductive op :=
| OCp (head c : N)                          (* dolt_cherry_pick(c) with HEAD = head *)
| ORv (head c : N)                          (* dolt_revert(c) with HEAD = head *)
| ORb (onto : N) (pl : list (action * N)).  (* dolt_rebase -i onto, plan steps name commits *)

Definition input := (list (option N * content) * list op)%type.

(* outcome kinds: 0 ok, 1 conflict, 2 no change, 3 invalid plan, 4 other error *)
Record op_obs := { k_kind : N; k_data : content; k_new : N }.
Definition obs := list op_obs.
Definition case := (input * obs)%type.

Definition hist_of (cs : list (option N * content)) : history :=
  map (fun pc => {| c_parents := match fst pc with Some p => [p] | None => [] end; c_data := snd pc |}) cs.

Definition mk (k : N) (d : content) (n : N) : op_obs := {| k_kind := k; k_data := d; k_new := n |}.
Definition bad : op_obs := mk 4 [] 0.

Definition of_pres (r : pres) : op_obs :=
  match r with
  | POk d => mk 0 d 1
  | PConflict => mk 1 [] 0
  | PNoChange => mk 2 [] 0
  | PBad => bad
  end.

Definition plan_of (h : history) (pl : list (action * N)) : option plan :=
  fold_right (fun an acc =>
    match acc, parent_data h (snd an), data_at h (snd an) with
    | Some l, Some p, Some c => Some ((fst an, (p, c)) :: l)
    | _, _, _ => None
    end) (Some []) pl.

Definition model_op (h : history) (o : op) : op_obs :=
  match o with
  | OCp hd c =>
    match data_at h hd, parent_data h c, data_at h c with
    | Some dh, Some dp, Some dc => of_pres (cherry_pick dh dp dc)
    | _, _, _ => bad
    end
  | ORv hd c =>
    match data_at h hd, parent_data h c, data_at h c with
    | Some dh, Some dp, Some dc => of_pres (revert dh dp dc)
    | _, _, _ => bad
    end
  | ORb onto pl =>
    match data_at h onto, plan_of h pl with
    | Some d0, Some p =>
      match run_plan d0 p with
      | ROk s => mk 0 (norm (r_head s)) (N.of_nat (length (r_new s)))
      | RConflict => mk 1 [] 0
      | RInvalid => mk 3 [] 0
      end
    | _, _ => bad
    end
  end.

Definition model_obs (i : input) : obs := map (model_op (hist_of (fst i))) (snd i).

Definition op_obs_eqb (a b : op_obs) : bool :=
  (k_kind a =? k_kind b) && content_eqb (k_data a) (k_data b) && (k_new a =? k_new b).

Fixpoint obs_eqb (a b : obs) : bool :=
  match a, b with
  | [], [] => true
  | x :: a', y :: b' => op_obs_eqb x y && obs_eqb a' b'
  | _, _ => false
  end.

(* The property on what the implementation returned.
   cherry-pick c onto head: success with exactly the three-way merge (base =
   parent c, ours = head, theirs = c); a reported conflict only when the merge
   has one; "no change" only when the merge equals head; and, directly,
   cherry-picking onto c's own parent gives c's data.
   revert c on head: the merge with base c, ours head, theirs parent c; reverting
   HEAD's own commit gives its parent's data.
   rebase: the data of the fold of cherry-picks of the kept commits in plan order. *)
Definition merge_outcome_ok (b o t : content) (r : op_obs) : bool :=
  if k_kind r =? 0 then is_merge3_b b o t (k_data r) && canonical (k_data r)
  else if k_kind r =? 1 then negb (no_conflict_b b o t)
  else if k_kind r =? 2 then is_merge3_b b o t o
  else false.

Definition oracle_op (h : history) (o : op) (r : op_obs) : bool :=
  match o with
  | OCp hd c =>
    match data_at h hd, parent_data h c, data_at h c with
    | Some dh, Some dp, Some dc =>
      merge_outcome_ok dp dh dc r
      && (match first_parent h c with
          | Some p => if p =? hd then if ext_eqb dp dc then k_kind r =? 2
                                      else (k_kind r =? 0) && ext_eqb (k_data r) dc
                      else true
          | None => true end)
    | _, _, _ => k_kind r =? 4
    end
  | ORv hd c =>
    match data_at h hd, parent_data h c, data_at h c with
    | Some dh, Some dp, Some dc =>
      merge_outcome_ok dc dh dp r
      && (if c =? hd then if ext_eqb dp dc then k_kind r =? 2
                          else (k_kind r =? 0) && ext_eqb (k_data r) dp
          else true)
    | _, _, _ => k_kind r =? 4
    end
  | ORb onto pl =>
    match data_at h onto, plan_of h pl with
    | Some d0, Some p =>
      if negb (valid_plan p) then k_kind r =? 3
      else match fold_picks d0 (kept p) with
           | Some d => (k_kind r =? 0) && ext_eqb (k_data r) d && canonical (k_data r)
           | None => k_kind r =? 1
           end
    | _, _ => k_kind r =? 4
    end
  end.

Fixpoint oracle_ops (h : history) (os : list op) (rs : obs) : bool :=
  match os, rs with
  | [], [] => true
  | o :: os', r :: rs' => oracle_op h o r && oracle_ops h os' rs'
  | _, _ => false
  end.

Definition oracle (i : input) (o : obs) : bool := oracle_ops (hist_of (fst i)) (snd i) o.

Definition check_case (c : case) : N :=
  (if obs_eqb (model_obs (fst c)) (snd c) then 0 else 1)
  + (if oracle (fst c) (snd c) then 0 else 2).
