(* C06 — correspondence.  The implementation's incidental choices (snappy
   bytes, CRC values, the order the unstable sort gave to equal prefixes, the
   plan order of conjoined sources) are part of the input; the model rebuilds the
   file byte for byte, re-opens it and answers the reads.  The oracle is the
   round-trip property itself, stated on the chunk set. *)
From Coq Require Import NArith List Bool.
From Dolt Require Import Base.Str Gen.C01Consts C01.Model C01.Spec C06.Model C06.Spec.
Import ListNotations.
Local Open Scope N_scope.

Record crec := mkCrec { c_addr : addr; c_data : bytes; c_z : bytes; c_crc : N }.
Definition crec_rec (c : crec) : rec := mkRec (c_addr c) (c_z c) (c_crc c) (nlen (c_data c)).

Inductive input :=
| ITable (tables : list (list crec * list tuple)) (merged : list tuple) (probes : list addr) (pre : list bool)
| ISearch (s : list N) (target : N)
| IArchive (cs : list chunk) (prefixes suffixes : list N) (probes : list addr)
           (span_lens : list N) (refs : list aref)     (* staged span lengths; chunk ref per index position *)
| IBig (n nabsent : N).      (* n generated chunks through the ArchiveStreamWriter (n > maxSamples: dictionary path); membership compared in Go *)

Inductive obs :=
| OTable (file : bytes) (count unc : N) (has : list bool) (get : list (option bytes))
         (hm : list bool) (hm_rem : bool)
         (gm : list chunk) (gm_flags : list bool) (gm_rem : bool) (iter : list chunk)
| OSearch (r : N)
| OArchive (count : N) (has : list bool) (get : list (option bytes)) (iter : list chunk) (idx : bytes)
| OBig (count nhas ngetok niter niterok nabsentok : N) (sorted : bool)
| OFail (code : N).

Definition case := (input * obs)%type.

(* checksum / decompression as finite tables taken from the implementation *)
Fixpoint tbl_crc (cs : list crec) (z : bytes) : N :=
  match cs with [] => 0 | c :: t => if beq_bytes (c_z c) z then c_crc c else tbl_crc t z end.
Fixpoint tbl_dec (cs : list crec) (z : bytes) : option bytes :=
  match cs with [] => None | c :: t => if beq_bytes (c_z c) z then Some (c_data c) else tbl_dec t z end.

Definition all_crecs (tables : list (list crec * list tuple)) : list crec := flat_map fst tables.
Definition all_chunks (tables : list (list crec * list tuple)) : list chunk :=
  map (fun c => (c_addr c, c_data c)) (all_crecs tables).

Definition build_file (tables : list (list crec * list tuple)) (merged : list tuple) : option bytes :=
  match tables with
  | [] => None
  | [(cs, ts)] => Some (write_table_with ts (map crec_rec cs))
  | _ =>
    let opened := map (fun t => open_table (write_table_with (snd t) (map crec_rec (fst t)))) tables in
    if forallb (fun o => match o with Some _ => true | None => false end) opened
    then Some (conjoin_with merged (flat_map (fun o => match o with Some t => [t] | None => [] end) opened))
    else None
  end.

Definition opt_list {A} (l : list (rd A)) : option (list A) :=
  fold_right (fun r acc => match r, acc with ROk a, Some t => Some (a :: t) | _, _ => None end) (Some []) l.

Definition model_obs (i : input) : obs :=
  match i with
  | ITable tables merged probes pre =>
    let crc := tbl_crc (all_crecs tables) in
    let dec := tbl_dec (all_crecs tables) in
    match build_file tables merged with
    | None => OFail 1
    | Some file =>
      match open_table file with
      | None => OFail 2
      | Some t =>
        let reqs := combine probes pre in
        let '(hm, hm_rem) := has_many (t_ix t) reqs in
        let '(gmr, gm, gm_rem) := table_get_many crc dec t reqs in
        match opt_list (map (table_get crc dec t) probes), gm, table_iterate crc dec t with
        | Some gets, ROk gmc, ROk it =>
          OTable file (table_count t) (table_unc t) (map (table_has t) probes) gets
                 (map snd hm) hm_rem (sort_chunks gmc) (map snd gmr) gm_rem (sort_chunks it)
        | _, _, _ => OFail 3
        end
      end
    end
  | ISearch s target =>
    match prolly_bin_search s target with Some r => OSearch r | None => OFail 4 end
  | IArchive cs prefixes suffixes probes span_lens refs =>
    match opt_list (map (fun h => match find_index prefixes suffixes h with
                                  | Some r => ROk r | None => RErrRead end) probes) with
    | None => OFail 5
    | Some found =>
      OArchive (nlenN prefixes) (map (fun o => match o with Some _ => true | None => false end) found)
               (map (fun ph => match snd ph with Some _ => chunk_get cs (fst ph) | None => None end) (combine probes found))
               (sort_chunks cs)
               (* the index block as the writer lays it out (chunks in index order with their refs) *)
               (archive_index_bytes span_lens (combine (combine prefixes suffixes) refs))
    end
  | IBig n nabsent => OBig n n n n n nabsent true      (* every chunk written is read back, nothing else is *)
  end.

Fixpoint bools_eqb (a b : list bool) : bool :=
  match a, b with [], [] => true | x :: a', y :: b' => Bool.eqb x y && bools_eqb a' b' | _, _ => false end.
Fixpoint opts_eqb (a b : list (option bytes)) : bool :=
  match a, b with [], [] => true | x :: a', y :: b' => opt_bytes_eqb x y && opts_eqb a' b' | _, _ => false end.

Definition obs_eqb (a b : obs) : bool :=
  match a, b with
  | OTable f c u h g hm hr gm gf gr it, OTable f' c' u' h' g' hm' hr' gm' gf' gr' it' =>
    beq_bytes f f' && (c =? c') && (u =? u') && bools_eqb h h' && opts_eqb g g'
    && bools_eqb hm hm' && Bool.eqb hr hr' && chunks_eqb gm gm' && bools_eqb gf gf' && Bool.eqb gr gr'
    && chunks_eqb it it'
  | OSearch r, OSearch r' => r =? r'
  | OArchive c h g it ix, OArchive c' h' g' it' ix' => (c =? c') && bools_eqb h h' && opts_eqb g g' && chunks_eqb it it' && beq_bytes ix ix'
  | OBig a b c d e f g, OBig a' b' c' d' e' f' g' =>
    (a =? a') && (b =? b') && (c =? c') && (d =? d') && (e =? e') && (f =? f') && Bool.eqb g g'
  | OFail x, OFail y => x =? y
  | _, _ => false
  end.

(* ---- the property on the implementation's observation ---- *)
Definition present_b (cs : list chunk) (h : addr) : bool := is_some (chunk_get cs h).
(* duplicates of an address carry the same bytes (content addressing) *)
Definition consistent_b (cs : list chunk) : bool :=
  forallb (fun c => opt_bytes_eqb (chunk_get cs (fst c)) (Some (snd c))) cs.
Fixpoint reqs_sorted_b (ps : list addr) : bool :=
  match ps with
  | [] => true
  | x :: t => (match t with [] => true | y :: _ => a_prefix x <=? a_prefix y end) && reqs_sorted_b t
  end.

Definition oracle (i : input) (o : obs) : bool :=
  match i, o with
  | ITable tables merged probes pre, OTable _ count unc has get hm hm_rem gm gm_flags gm_rem iter =>
    let cs := all_chunks tables in
    let want_flags := map (fun pf => snd pf || present_b cs (fst pf)) (combine probes pre) in
    consistent_b cs && reqs_sorted_b probes && (nlen probes =? nlen pre)
    (* the index orders the implementation chose are prefix-sorted permutations *)
    && forallb (fun t => valid_tuples_b (snd t) (map crec_rec (fst t))) tables
    && (match tables with [_] => true | _ => valid_tuples_b merged (map crec_rec (all_crecs tables)) end)
    (* counts and sizes *)
    && (count =? nlen cs) && (unc =? sum_N (map (fun c => nlen (snd c)) cs))
    (* every chunk reads back byte for byte, every absent address is absent *)
    && bools_eqb has (map (present_b cs) probes)
    && opts_eqb get (map (chunk_get cs) probes)
    && bools_eqb hm want_flags && Bool.eqb hm_rem (existsb negb want_flags)
    && bools_eqb gm_flags want_flags && Bool.eqb gm_rem (existsb negb want_flags)
    && chunks_eqb gm (sort_chunks (flat_map (fun pf : addr * bool => if snd pf then []
                                                       else match chunk_get cs (fst pf) with
                                                            | Some d => [(fst pf, d)] | None => [] end)
                                            (combine probes pre)))
    && chunks_eqb iter (sort_chunks cs)
  | ISearch s target, OSearch r => negb (sorted_b s) || (r =? lower_bound s target)
  | IArchive cs prefixes suffixes probes span_lens refs, OArchive count has get iter idx =>
    consistent_b cs
    (* the index block parses back to the arrays the reader reported, refs point at staged spans *)
    && (match parse_archive_index (nlen span_lens) (nlen prefixes) idx with
        | Some ai => addrs_eqb (combine (ai_prefixes ai) (ai_suffixes ai)) (combine prefixes suffixes)
                     && addrs_eqb (ai_refs ai) refs
                     && forallb (fun r : aref => (1 <=? snd r) && (snd r <=? nlen span_lens) && (fst r <=? nlen span_lens)) refs
        | None => false
        end)
    (* archive index: chunks sorted by full address *)
    && addrs_eqb (combine prefixes suffixes) (sort_addrs (map fst cs))
    && (count =? nlen cs)
    && bools_eqb has (map (present_b cs) probes)
    && opts_eqb get (map (chunk_get cs) probes)
    && chunks_eqb iter (sort_chunks cs)
  | IBig n nabsent, OBig count nhas ngetok niter niterok nabsentok sorted =>
    (count =? n) && (nhas =? n) && (ngetok =? n) && (niter =? n) && (niterok =? n) && (nabsentok =? nabsent) && sorted
  | _, _ => false
  end.

Definition check_case (c : case) : N :=
  (if obs_eqb (model_obs (fst c)) (snd c) then 0 else 1)
  + (if oracle (fst c) (snd c) then 0 else 2).
