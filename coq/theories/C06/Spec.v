(* C06 — declarative side: what a file must contain. *)
From Coq Require Import NArith List Bool.
From Dolt Require Import Base.Str Gen.C01Consts C01.Model C01.Spec C06.Model.
Import ListNotations.
Local Open Scope N_scope.

(* first position whose value is >= target (length if none) *)
Fixpoint lower_bound (s : list N) (target : N) : N :=
  match s with [] => 0 | x :: t => if x <? target then 1 + lower_bound t target else 0 end.

Fixpoint sorted (s : list N) : Prop :=
  match s with [] => True | x :: t => (match t with [] => True | y :: _ => x <= y end) /\ sorted t end.
Fixpoint sorted_b (s : list N) : bool :=
  match s with [] => true | x :: t => (match t with [] => true | y :: _ => x <=? y end) && sorted_b t end.

(* the chunk set of a file, as an association list address -> uncompressed bytes *)
Definition chunk := (addr * bytes)%type.
Definition chunk_get (cs : list chunk) (h : addr) : option bytes := assoc cs h.
