(* C06 — proofs. *)
From Coq Require Import NArith Arith List Bool Lia Sorting.Permutation Sorting.Sorted.
From Dolt Require Import Base.Str Gen.C01Consts C01.Model C01.Spec C01.Proofs C01.ProofsBytes C01.ProofsSort C01.ProofsTable C06.Model C06.Spec.
Import ListNotations.
Local Open Scope N_scope.

Lemma sorted_nth (s : list N) : sorted s -> forall i j, (i <= j)%nat -> (j < length s)%nat -> nth i s 0 <= nth j s 0.
Proof.
  induction s as [|x s IH]; intros S i j Hij Hj; [cbn in Hj; lia|].
  destruct S as [Hx S]. cbn [length] in Hj.
  destruct j; [assert (i = 0)%nat by lia; subst; apply N.le_refl|].
  destruct i.
  - cbn [nth]. destruct s as [|y s]; [cbn in Hj; lia|].
    pose proof (IH S O j ltac:(lia) ltac:(lia)) as H0. change (nth 0 (y :: s) 0) with y in H0. lia.
  - cbn [nth]. apply IH; [exact S | lia | lia].
Qed.

(* r is the lower bound as soon as everything before r is below target and
   position r (if any) is not *)
Lemma lower_bound_char (s : list N) target : forall r : nat,
  (r <= length s)%nat ->
  (forall i, (i < r)%nat -> nth i s 0 < target) ->
  ((r < length s)%nat -> target <= nth r s 0) ->
  lower_bound s target = N.of_nat r.
Proof.
  induction s as [|x s IH]; intros r Hr A B.
  - cbn in Hr. assert (r = 0)%nat by lia. subst. reflexivity.
  - cbn [lower_bound]. destruct r.
    + specialize (B ltac:(cbn; lia)). cbn in B. replace (x <? target) with false by (symmetry; apply N.ltb_ge; lia). reflexivity.
    + pose proof (A O ltac:(lia)) as A0. cbn in A0.
      replace (x <? target) with true by (symmetry; apply N.ltb_lt; lia).
      rewrite (IH r).
      * lia.
      * cbn in Hr. lia.
      * intros i Hi. apply (A (S i)). lia.
      * intros H. apply B. cbn. lia.
Qed.

Lemma lb_from_boundary (s : list N) target (r : nat) : sorted s ->
  (r <= length s)%nat ->
  (r = O \/ nth (r - 1) s 0 < target) ->
  ((r < length s)%nat -> target <= nth r s 0) ->
  lower_bound s target = N.of_nat r.
Proof.
  intros S Hr A B. apply lower_bound_char; [exact Hr | | exact B].
  intros i Hi. destruct A as [-> | A]; [lia|].
  pose proof (sorted_nth s S i (r - 1)%nat ltac:(lia) ltac:(lia)). lia.
Qed.

(* loop invariant: lo = s[lft] < target <= hi = s[hidx], hidx ∈ {rht-1 (initially), rht} *)
Lemma prolly_loop_spec (s : list N) target : sorted s ->
  forall fuel lft rht lo hi hidx,
    lft < rht -> rht <= nlenN s -> hidx < nlenN s ->
    (hidx = rht \/ (hidx = rht - 1 /\ rht = nlenN s)) ->
    lo = nthN s lft -> hi = nthN s hidx -> lo < target -> target <= hi ->
    (N.to_nat (rht - lft) < fuel)%nat ->
    prolly_loop fuel s target (nlenN s) lft rht lo hi = Some (lower_bound s target).
Proof.
  intros S. induction fuel as [|f IH]; intros lft rht lo hi hidx Hlr Hrn Hh Hcase Hlo Hhi Hlt Hle Hf; [exfalso; lia|].
  cbn [prolly_loop]. replace (lft <? rht) with true by (symmetry; apply N.ltb_lt; lia).
  replace (hi - lo =? 0) with false by (symmetry; apply N.eqb_neq; lia).
  assert (Hq : (target - lo) * (rht - lft - 1) / (hi - lo) <= rht - lft - 1).
  { apply N.div_le_upper_bound; [lia|]. apply N.mul_le_mono_r. lia. }
  remember ((target - lo) * (rht - lft - 1) / (hi - lo)) as q eqn:Eq. clear Eq.
  set (idx := q + lft).
  assert (Hi1 : lft <= idx) by (unfold idx; lia).
  assert (Hi2 : idx < rht) by (unfold idx; lia).
  unfold nlenN, nthN in *.
  destruct (nth (N.to_nat idx) s 0 <? target) eqn:C.
  - apply N.ltb_lt in C.
    (* idx cannot be the position of hi *)
    assert (Hidx : idx < hidx).
    { destruct (N.lt_ge_cases idx hidx) as [G | G]; [exact G|]. exfalso.
      pose proof (sorted_nth s S (N.to_nat hidx) (N.to_nat idx) ltac:(lia) ltac:(lia)). lia. }
    replace (idx + 1 <? N.of_nat (length s)) with true by (symmetry; apply N.ltb_lt; lia).
    destruct (target <=? nth (N.to_nat (idx + 1)) s 0) eqn:D.
    + apply N.leb_le in D. f_equal. symmetry.
      replace (idx + 1) with (N.of_nat (N.to_nat (idx + 1))) by lia.
      apply lb_from_boundary; [exact S | lia | | intros _; exact D].
      right. replace (N.to_nat (idx + 1) - 1)%nat with (N.to_nat idx) by lia. exact C.
    + apply N.leb_gt in D.
      assert (Hne : idx + 1 <> hidx).
      { intros E. rewrite E in D. lia. }
      apply (IH (idx + 1) rht _ hi hidx); try lia; try reflexivity; try assumption.
  - apply N.ltb_ge in C.
    assert (Hne : lft <> idx).
    { intros E. rewrite <- E in C. lia. }
    apply (IH lft idx lo _ idx); try lia; try reflexivity; try assumption.
Qed.

(* Headline: on every sorted list the interpolation search terminates
   (never runs out of fuel, never divides by zero, quotient fits) and returns
   the lower bound. *)
Theorem prolly_bin_search_spec (s : list N) (target : N) :
  sorted s -> prolly_bin_search s target = Some (lower_bound s target).
Proof.
  intros S. unfold prolly_bin_search, nlenN, nthN.
  destruct (N.of_nat (length s) =? 0) eqn:E0.
  - apply N.eqb_eq in E0. destruct s; [reflexivity | cbn in E0; lia].
  - apply N.eqb_neq in E0.
    destruct (nth (N.to_nat (N.of_nat (length s) - 1)) s 0 <? target) eqn:E1.
    + apply N.ltb_lt in E1. f_equal. symmetry. apply lb_from_boundary; [exact S | lia | | lia].
      right. replace (length s - 1)%nat with (N.to_nat (N.of_nat (length s) - 1)) by lia. exact E1.
    + apply N.ltb_ge in E1. destruct (target <=? nth (N.to_nat 0) s 0) eqn:E2.
      * apply N.leb_le in E2. f_equal. symmetry. apply (lb_from_boundary s target O S); [lia | left; reflexivity | intros _; exact E2].
      * apply N.leb_gt in E2.
        apply (prolly_loop_spec s target S _ 0 (N.of_nat (length s)) _ _ (N.of_nat (length s) - 1)); unfold nlenN, nthN; try lia; try reflexivity.
Qed.

(* ------------------------------------------------------------------ *)
(* Table round trip, from the BYTES (DESIGN §5 C06 table_roundtrip).
   For every record list with distinct addresses (any prefixes, equal 8-byte
   prefixes included) that fits the format (uint32 count / lengths, uint64 total),
   and every prefix-sorted outcome ts of the index sort: the written file re-opens
   (parse_index of its bytes), reports count and uncompressed size, returns every
   chunk byte for byte, reports every absent address absent, and iterateAllChunks
   yields exactly the stored chunks (in storage order, hence a permutation). *)
Section RoundTrip.
  Variable crc : bytes -> N.
  Variable compress : bytes -> bytes.
  Variable decompress : bytes -> option bytes.
  Hypothesis decompress_compress : forall d, decompress (compress d) = Some d.

  Theorem table_roundtrip ts rs (content : addr -> bytes) :
    valid_tuples ts rs -> table_fits rs -> recs_ok crc compress content rs ->
    exists t, open_table (write_table_with ts rs) = Some t
      /\ table_count t = nlen rs /\ table_unc t = total_unc rs
      /\ (forall h, table_get crc decompress t h = ROk (if in_table rs h then Some (content h) else None))
      /\ (forall h, table_has t h = in_table rs h)
      /\ (forall h, lookup (t_ix t) h = lookup_spec rs h)
      /\ table_iterate crc decompress t = ROk (map (chunk_of content) rs).
  Proof.
    intros Hv Fit OK. exists (mkTable (write_table_with ts rs) (build_pindex ts rs)).
    assert (T : tbl_rep crc compress content (mkTable (write_table_with ts rs) (build_pindex ts rs)) rs)
      by (exists ts; split; [exact Hv | split; [reflexivity | exact OK]]).
    split; [apply open_write_table; assumption|]. split; [reflexivity|]. split; [reflexivity|].
    split; [intros h; apply (tbl_get crc compress decompress decompress_compress content _ rs h T)|].
    split; [intros h; apply (tbl_has crc compress content _ rs h T)|].
    split; [intros h; apply lookup_write_index; [exact Hv | exact (proj1 OK)]|].
    apply (tbl_iterate crc compress decompress decompress_compress content _ rs T).
  Qed.
End RoundTrip.

(* Continued in ProofsConjoin.v (conjoin_is_table, conjoin_roundtrip) and ProofsArchive.v
   (find_index_spec, archive_index_roundtrip, archive_roundtrip).
   Still NOT proved for C06: the archive data section (byte spans, snappy / zstd payloads,
   dictionaries), metadata and footer of archive files - real archives (including conversions
   of more than maxSamples chunks, which go through the dictionary path) are compared with the
   chunk set by the correspondence. *)
