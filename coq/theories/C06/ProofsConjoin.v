(* C06 — conjoin: the conjoined file IS the table file of the concatenated record lists. *)
From Coq Require Import NArith Arith List Bool Lia Sorting.Permutation Sorting.Sorted.
From Dolt Require Import Base.Str Gen.C01Consts C01.Model C01.Spec C01.Proofs C01.ProofsBytes C01.ProofsSort C01.ProofsTable
  C01.ProofsStore C01.ProofsStore2 C01.ProofsStore3 C06.Model C06.Spec.
Import ListNotations.
Local Open Scope N_scope.

Lemma nlen_index_bytes ts rs : length ts = length rs -> nlen (index_bytes ts rs) = 28 * nlen rs.
Proof.
  intros L. unfold index_bytes. rewrite !nlen_app.
  rewrite (nlen_concat_fixed tuple_bytes w_tuple) by apply length_tuple_bytes.
  rewrite (nlen_concat_fixed _ w32) by (intros; apply length_be_enc).
  rewrite (nlen_concat_fixed _ w_suf) by (intros; apply length_be_enc).
  unfold nlen. rewrite L. change (N.of_nat w_tuple) with 12. change (N.of_nat w32) with 4. change (N.of_nat w_suf) with 12. lia.
Qed.

Lemma nlen_footer c u : nlen (footer_bytes c u) = 20.
Proof. unfold footer_bytes. rewrite !nlen_app. unfold nlen. rewrite !length_be_enc. reflexivity. Qed.

(* calcChunkRangeSize: everything before index and footer is the record region *)
Lemma data_region_written ts rs : length ts = length rs ->
  data_region (mkTable (write_table_with ts rs) (build_pindex ts rs)) = records_bytes rs.
Proof.
  intros L. unfold data_region. cbn [t_file t_ix build_pindex mk_pindex pi_count].
  unfold write_table_with. set (R := records_bytes rs). set (X := index_bytes ts rs ++ footer_bytes (nlen rs) (total_unc rs)).
  assert (LX : nlen X = index_size (nlen rs) + footer_size).
  { unfold X. rewrite nlen_app, (nlen_index_bytes ts rs L), nlen_footer. unfold index_size, footer_size. lia. }
  replace (length (R ++ X) - N.to_nat (index_size (nlen rs) + footer_size))%nat with (length R).
  - rewrite firstn_app, firstn_all, Nat.sub_diag. cbn [firstn]. apply app_nil_r.
  - rewrite app_length. unfold nlen in *. lia.
Qed.

Lemma records_bytes_concat rss : records_bytes (concat rss) = concat (map records_bytes rss).
Proof.
  induction rss as [|rs rss IH]; [reflexivity|]. cbn [concat map]. rewrite <- IH. unfold records_bytes. rewrite map_app, concat_app. reflexivity.
Qed.

Lemma entry_lengths_written ts rs : valid_tuples ts rs ->
  entry_lengths (build_pindex ts rs) (length (pi_tuples (build_pindex ts rs))) 0 = map rec_len rs.
Proof.
  intros Hv. cbn [build_pindex mk_pindex pi_tuples]. rewrite (ts_length ts rs Hv).
  assert (G : forall m k, (k + m = length rs)%nat ->
            entry_lengths (build_pindex ts rs) m (N.of_nat k) = map rec_len (skipn k rs)).
  { induction m as [|m IH]; intros k Hk.
    - rewrite skipn_all2 by lia. reflexivity.
    - cbn [entry_lengths]. rewrite (index_entry_spec ts rs k) by lia. cbn [snd].
      replace (N.of_nat k + 1) with (N.of_nat (S k)) by lia. rewrite IH by lia.
      assert (E : skipn k rs = nth k rs dummy_rec :: skipn (S k) rs).
      { clear -Hk. revert k Hk. induction rs as [|r rs IHr]; intros k Hk; [cbn in Hk; lia|]. destruct k; [reflexivity|]. cbn [skipn nth]. apply IHr. cbn in Hk. lia. }
      rewrite E. reflexivity. }
  exact (G (length rs) O eq_refl).
Qed.

Lemma tuples_from_app a b : forall i, tuples_from i (a ++ b) = tuples_from i a ++ tuples_from (i + nlen a) b.
Proof.
  induction a as [|r a IH]; intros i; cbn [app tuples_from].
  - f_equal. unfold nlen. cbn. lia.
  - rewrite IH. f_equal. f_equal. f_equal. unfold nlen. cbn [length]. lia.
Qed.
Lemma shift_tuples_from rs : forall i off, shift_tuples off (tuples_from i rs) = tuples_from (i + off) rs.
Proof.
  induction rs as [|r rs IH]; intros i off; [reflexivity|]. cbn [tuples_from shift_tuples]. rewrite IH. f_equal. f_equal. lia.
Qed.
Lemma shift_tuples_perm off a b : Permutation a b -> Permutation (shift_tuples off a) (shift_tuples off b).
Proof.
  assert (E : forall l, shift_tuples off l = map (fun t : tuple => (fst t, snd t + off)) l).
  { induction l as [|[p o] l IH]; [reflexivity|]. cbn [shift_tuples map fst snd]. rewrite IH. reflexivity. }
  intros P. rewrite !E. apply Permutation_map. exact P.
Qed.

Section Conjoin.
  Variable crc : bytes -> N.
  Variable compress : bytes -> bytes.
  Variable decompress : bytes -> option bytes.
  Hypothesis decompress_compress : forall d, decompress (compress d) = Some d.
  Variable content : addr -> bytes.
  Notation trep := (tbl_rep crc compress content).

  Lemma conjoin_tuples_perm srcs rss : Forall2 trep srcs rss -> forall off,
    Permutation (conjoin_tuples off (map t_ix srcs)) (tuples_from off (concat rss)).
  Proof.
    induction 1 as [|t rs srcs rss (ts & Hv & -> & _) F IH]; intros off; [reflexivity|].
    cbn [map conjoin_tuples concat t_ix]. rewrite tuples_from_app. apply Permutation_app.
    - cbn [build_pindex mk_pindex pi_tuples]. rewrite (shift_tuples_perm off _ _ (proj1 Hv)), shift_tuples_from. reflexivity.
    - cbn [build_pindex mk_pindex pi_count]. apply IH.
  Qed.

  (* planTableConjoin's output is byte for byte the table file of the concatenated
     record lists (in plan order), for whatever prefix-sorted order the merged tuples got *)
  Theorem conjoin_is_table ts srcs rss : Forall2 trep srcs rss ->
    conjoin_with ts srcs = write_table_with ts (concat rss).
  Proof.
    intros F. unfold conjoin_with, write_table_with.
    assert (E1 : concat (map data_region srcs) = records_bytes (concat rss)).
    { rewrite records_bytes_concat. f_equal. induction F as [|t rs srcs rss (ts0 & Hv & -> & _) F IH]; [reflexivity|].
      cbn [map]. rewrite IH, (data_region_written ts0 rs (ts_length ts0 rs Hv)). reflexivity. }
    assert (E2 : conjoin_lengths (map t_ix srcs) = map rec_len (concat rss)).
    { clear E1. unfold conjoin_lengths. induction F as [|t rs srcs rss (ts0 & Hv & -> & _) F IH]; [reflexivity|].
      cbn [map flat_map concat t_ix]. rewrite IH, map_app, (entry_lengths_written ts0 rs Hv). reflexivity. }
    assert (E3 : conjoin_suffixes (map t_ix srcs) = map (fun r => a_suffix (r_addr r)) (concat rss)).
    { clear E1 E2. unfold conjoin_suffixes. induction F as [|t rs srcs rss (ts0 & Hv & -> & _) F IH]; [reflexivity|].
      cbn [map flat_map concat t_ix]. rewrite IH, map_app. reflexivity. }
    assert (E4 : sum_N (map pi_count (map t_ix srcs)) = nlen (concat rss)).
    { clear E1 E2 E3. induction F as [|t rs srcs rss (ts0 & Hv & -> & _) F IH]; [reflexivity|].
      cbn [map sum_N concat t_ix]. rewrite IH. cbn [build_pindex mk_pindex pi_count]. unfold nlen. rewrite app_length. lia. }
    assert (E5 : sum_N (map pi_unc (map t_ix srcs)) = total_unc (concat rss)).
    { clear E1 E2 E3 E4. induction F as [|t rs srcs rss (ts0 & Hv & -> & _) F IH]; [reflexivity|].
      cbn [map sum_N concat t_ix]. rewrite IH. cbn [build_pindex mk_pindex pi_unc]. unfold total_unc. rewrite map_app, sum_N_app. reflexivity. }
    rewrite E1, E2, E3, E4, E5. f_equal. f_equal.
    unfold conjoin_index_bytes, index_bytes. rewrite !map_map. reflexivity.
  Qed.

  (* the model's own merged order is one of the valid ones *)
  Lemma conjoin_default_valid srcs rss : Forall2 trep srcs rss ->
    valid_tuples (sort_tuples (conjoin_tuples 0 (map t_ix srcs))) (concat rss).
  Proof.
    intros F. destruct (sort_tuples_valid (concat rss)) as [_ _].
    split.
    - etransitivity; [|apply (conjoin_tuples_perm srcs rss F 0)].
      unfold sort_tuples. generalize (conjoin_tuples 0 (map t_ix srcs)). intros l. induction l as [|x l IH]; cbn [fold_right]; [reflexivity|].
      rewrite insert_tuple_perm. constructor. exact IH.
    - unfold sort_tuples. generalize (conjoin_tuples 0 (map t_ix srcs)). intros l. induction l as [|x l IH]; cbn [fold_right]; [constructor|].
      apply insert_tuple_sorted. exact IH.
  Qed.

  (* a table over a record list that may hold an address several times (equal bytes) *)
  Definition recs_wf (rs : list rec) : Prop :=
    forall k, (k < length rs)%nat -> wf_rec crc compress (nth k rs dummy_rec) (content (r_addr (nth k rs dummy_rec))).

  Lemma table_get_any ts rs h : valid_tuples ts rs -> recs_wf rs ->
    table_get crc decompress (mkTable (write_table_with ts rs) (build_pindex ts rs)) h
    = ROk (if in_table rs h then Some (content h) else None).
  Proof.
    intros Hv W. unfold table_get. cbn [t_ix t_file]. pose proof (lookup_any ts rs h Hv) as L.
    destruct (lookup (build_pindex ts rs) h) as [[off len]|].
    - destruct L as (k & Hk & A & E). inversion E; subst off len.
      rewrite (read_chunk_written crc compress decompress decompress_compress ts rs k _ Hk (W k Hk)). cbn [rd_map].
      replace (in_table rs h) with true by (symmetry; apply in_table_iff; exists k; split; assumption).
      rewrite A. reflexivity.
    - rewrite L. reflexivity.
  Qed.

  Lemma in_table_concat rss h : in_table (concat rss) h = in_tables rss h.
  Proof.
    apply bool_eq_iff. rewrite in_table_In. unfold in_tables. rewrite existsb_exists, concat_map, in_concat. split.
    - intros (l & Hl & Hh). apply in_map_iff in Hl. destruct Hl as (rs & <- & Hrs).
      exists rs. split; [exact Hrs | apply in_table_In; exact Hh].
    - intros (rs & Hrs & Hh). exists (map r_addr rs). split; [apply in_map; exact Hrs | apply in_table_In; exact Hh].
  Qed.

  Lemma recs_wf_concat rss : Forall (fun rs => recs_wf rs) rss -> recs_wf (concat rss).
  Proof.
    induction 1 as [|rs rss W F IH]; intros k Hk; [cbn in Hk; lia|]. cbn [concat] in *. rewrite app_length in Hk.
    destruct (Nat.lt_ge_cases k (length rs)) as [L | G].
    - rewrite app_nth1 by exact L. apply W. exact L.
    - rewrite app_nth2 by exact G. apply IH. lia.
  Qed.

  (* HEADLINE: the conjoined file re-opens (from its bytes) and serves exactly the
     union of its inputs; an address stored in several inputs is stored several times
     (as planTableConjoin does) and is served from one of the equal copies; counts and
     sizes add up. *)
  Theorem conjoin_roundtrip ts srcs rss : Forall2 trep srcs rss ->
    valid_tuples ts (concat rss) -> table_fits (concat rss) ->
    exists t, open_table (conjoin_with ts srcs) = Some t
      /\ table_count t = sum_N (map nlen rss)
      /\ table_unc t = sum_N (map total_unc rss)
      /\ (forall h, table_has t h = in_tables rss h)
      /\ (forall h, table_get crc decompress t h = ROk (if in_tables rss h then Some (content h) else None)).
  Proof.
    intros F Hv Fit. rewrite (conjoin_is_table ts srcs rss F).
    exists (mkTable (write_table_with ts (concat rss)) (build_pindex ts (concat rss))).
    split; [apply open_write_table; assumption|].
    assert (W : recs_wf (concat rss)).
    { apply recs_wf_concat. clear -F. induction F as [|t rs srcs rss (ts0 & _ & _ & (_ & W)) F IH]; constructor; [exact W | exact IH]. }
    split; [|split; [|split]].
    - cbn. clear. induction rss as [|rs rss IH]; [reflexivity|]. cbn [concat map sum_N]. rewrite <- IH. unfold nlen. rewrite app_length. lia.
    - cbn. clear. induction rss as [|rs rss IH]; [reflexivity|]. cbn [concat map sum_N]. rewrite <- IH. unfold total_unc. rewrite map_app, sum_N_app. reflexivity.
    - intros h. rewrite (table_has_written ts (concat rss) h Hv). apply in_table_concat.
    - intros h. rewrite (table_get_any ts (concat rss) h Hv W), in_table_concat. reflexivity.
  Qed.
End Conjoin.
