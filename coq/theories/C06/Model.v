(* C06 — table files and archives round-trip any chunk set.
   The table-file model is C01/Model.v (write_table_with, parse_index, lookup,
   has_many, find_offsets, table_get, table_iterate).  This file adds
     go/store/nbs/table_persister.go   planTableConjoin (conjoin of table files)
     go/store/nbs/archive_reader.go    prollyBinSearch, archiveReader.findIndex
     go/store/nbs/archive_writer.go    writeIndex ordering (chunks sorted by full address)
   No proofs here. *)
From Coq Require Import NArith List Bool.
From Dolt Require Import Base.Str Gen.C01Consts C01.Model.
Import ListNotations.
Local Open Scope N_scope.

(* ---- planTableConjoin ----
   Sources are ordered by the plan (descending data size, then name); their
   chunk-record regions are concatenated, ordinals of source j are shifted by the
   number of chunks before it, lengths are recomputed from the parsed offsets,
   suffix blocks are copied, the merged prefix tuples are sorted by prefix
   (sort.Sort: any prefix-sorted permutation), the footer carries the summed
   count and uncompressed size. *)
Fixpoint shift_tuples (off : N) (ts : list tuple) : list tuple :=
  match ts with [] => [] | (p, o) :: t => (p, o + off) :: shift_tuples off t end.
Fixpoint conjoin_tuples (off : N) (ixs : list pindex) : list tuple :=
  match ixs with
  | [] => []
  | ix :: r => shift_tuples off (pi_tuples ix) ++ conjoin_tuples (off + pi_count ix) r
  end.
Fixpoint entry_lengths (ix : pindex) (n : nat) (ord : N) : list N :=
  match n with O => [] | S n' => snd (get_index_entry ix ord) :: entry_lengths ix n' (ord + 1) end.
Definition conjoin_lengths (ixs : list pindex) : list N :=
  flat_map (fun ix => entry_lengths ix (length (pi_tuples ix)) 0) ixs.
Definition conjoin_suffixes (ixs : list pindex) : list N := flat_map pi_suffixes ixs.
(* the chunk-record region of a table file: everything before index and footer
   (calcChunkRangeSize = tableFileSize - indexSize - footerSize) *)
Definition data_region (t : table) : bytes :=
  firstn (length (t_file t) - N.to_nat (index_size (pi_count (t_ix t)) + footer_size)) (t_file t).

Definition conjoin_index_bytes (ts : list tuple) (lengths suffixes : list N) : bytes :=
  concat (map tuple_bytes ts) ++ concat (map (be_enc w32) lengths) ++ concat (map (be_enc w_suf) suffixes).

Definition conjoin_with (ts : list tuple) (srcs : list table) : bytes :=
  let ixs := map t_ix srcs in
  concat (map data_region srcs)
  ++ conjoin_index_bytes ts (conjoin_lengths ixs) (conjoin_suffixes ixs)
  ++ footer_bytes (sum_N (map pi_count ixs)) (sum_N (map pi_unc ixs)).
Definition conjoin (srcs : list table) : bytes :=
  conjoin_with (sort_tuples (conjoin_tuples 0 (map t_ix srcs))) srcs.

(* ---- archive index search ---- *)
Definition nthN (l : list N) (i : N) : N := nth (N.to_nat i) l 0.
Definition nlenN (l : list N) : N := N.of_nat (length l).

(* prollyBinSearch loop.  None = bits.Div64 would panic (divide by zero or
   quotient overflow) or fuel ran out; excluded for sorted input. *)
Fixpoint prolly_loop (fuel : nat) (s : list N) (target items lft rht lo hi : N) : option N :=
  match fuel with
  | O => None
  | S f =>
    if lft <? rht then
      let valRangeSz := hi - lo in
      let idxRangeSz := rht - lft - 1 in
      let shiftedTgt := target - lo in
      if valRangeSz =? 0 then None
      else
        let q := (shiftedTgt * idxRangeSz) / valRangeSz in
        let idx := q + lft in
        if nthN s idx <? target then
          let lft' := idx + 1 in
          if lft' <? items then
            let lo' := nthN s lft' in
            if target <=? lo' then Some lft'
            else prolly_loop f s target items lft' rht lo' hi
          else prolly_loop f s target items lft' rht lo hi
        else prolly_loop f s target items lft idx lo (nthN s idx)
    else Some lft
  end.

Definition prolly_bin_search (s : list N) (target : N) : option N :=
  let items := nlenN s in
  if items =? 0 then Some 0
  else
    let lo := nthN s 0 in
    let hi := nthN s (items - 1) in
    if hi <? target then Some items
    else if target <=? lo then Some 0
    else prolly_loop (S (length s)) s target items 0 items lo hi.

(* archiveReader.findIndex over the archive index (prefixes sorted, suffix per
   position; chunks are sorted by full address).  None = -1. *)
Fixpoint scan_arch (ps ss : list N) (h : addr) (idx : N) : option N :=
  match ps, ss with
  | p :: ps', s :: ss' =>
    if p =? a_prefix h then (if s =? a_suffix h then Some idx else scan_arch ps' ss' h (idx + 1)) else None
  | _, _ => None
  end.
Definition find_index (prefixes suffixes : list N) (h : addr) : option (option N) :=
  match prolly_bin_search prefixes (a_prefix h) with
  | None => None                                   (* search failed: excluded for sorted prefixes *)
  | Some pm =>
    if nlenN prefixes <=? pm then Some None
    else Some (scan_arch (skipn (N.to_nat pm) prefixes) (skipn (N.to_nat pm) suffixes) h pm)
  end.

(* ---- archive index block: archiveWriter.writeIndex / newInMemoryArchiveIndexReader ----
   span end offsets (uint64, cumulative lengths of the staged byte spans), prefixes (uint64),
   chunk references (dictionary id, data id : uint32 each), suffixes (12 bytes); chunks sorted
   by full address (sort.Sort(aw.stagedChunks); addresses are distinct: staging rejects
   duplicates).  Counts come from the footer (not modelled). *)
Definition aref := (N * N)%type.
Definition achunk := (addr * aref)%type.
Fixpoint insert_achunk (x : achunk) (l : list achunk) : list achunk :=
  match l with
  | [] => [x]
  | y :: t => if addr_ltb (fst y) (fst x) then y :: insert_achunk x t else x :: l
  end.
Definition sort_achunks (l : list achunk) : list achunk := fold_right insert_achunk [] l.

Definition ref_bytes (r : aref) : bytes := be_enc w32 (fst r) ++ be_enc w32 (snd r).
Definition archive_index_bytes (span_lens : list N) (staged : list achunk) : bytes :=
  let cs := sort_achunks staged in
  concat (map (be_enc w64) (cumsum 0 span_lens))
  ++ concat (map (fun c : achunk => be_enc w64 (a_prefix (fst c))) cs)
  ++ concat (map (fun c : achunk => ref_bytes (snd c)) cs)
  ++ concat (map (fun c : achunk => be_enc w_suf (a_suffix (fst c))) cs).

Record aindex := mkAindex { ai_spans : list N; ai_prefixes : list N; ai_refs : list aref; ai_suffixes : list N }.
Definition dec_ref (b : bytes) : aref := (be_dec (firstn w32 b), be_dec (skipn w32 b)).
Definition parse_archive_index (nspans nchunks : N) (b : bytes) : option aindex :=
  let ref_size := uint32_size + uint32_size in
  if negb (nlen b =? uint64_size * nspans + (uint64_size + ref_size + hash_suffix_len) * nchunks) then None
  else
    let s := N.to_nat nspans in
    let n := N.to_nat nchunks in
    let o1 := uint64_size * nspans in
    let o2 := o1 + uint64_size * nchunks in
    let o3 := o2 + ref_size * nchunks in
    Some (mkAindex (map be_dec (split_n s w64 (sub 0 o1 b)))
                   (map be_dec (split_n n w64 (sub o1 (uint64_size * nchunks) b)))
                   (map dec_ref (split_n n (w32 + w32) (sub o2 (ref_size * nchunks) b)))
                   (map be_dec (split_n n w_suf (sub o3 (hash_suffix_len * nchunks) b)))).

(* archiveReader.resolveChunk: index position -> chunk reference *)
Definition archive_lookup (ai : aindex) (h : addr) : option (option aref) :=
  match find_index (ai_prefixes ai) (ai_suffixes ai) h with
  | None => None
  | Some None => Some None
  | Some (Some i) => Some (Some (nth (N.to_nat i) (ai_refs ai) (0, 0)))
  end.
