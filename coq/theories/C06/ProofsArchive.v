(* C06 — archive index search: findIndex = interpolation search on the prefixes, then the
   suffix scan over the equal-prefix run, returns the position of h iff h is in the archive. *)
From Coq Require Import NArith Arith List Bool Lia Sorting.Permutation Sorting.Sorted.
From Dolt Require Import Base.Str Gen.C01Consts C01.Model C01.Spec C01.Proofs C01.ProofsBytes C01.ProofsSort C06.Model C06.Spec C06.Proofs.
Import ListNotations.
Local Open Scope N_scope.

(* position of h in the (address-sorted) chunk list of the archive *)
Fixpoint addr_index (l : list addr) (h : addr) (i : N) : option N :=
  match l with
  | [] => None
  | a :: t => if addr_eqb a h then Some i else addr_index t h (i + 1)
  end.

Definition addrs_sorted (l : list addr) : Prop := StronglySorted (fun a b => addr_ltb a b = true) l.

Lemma addr_index_none l h : (forall a, In a l -> a <> h) -> forall i, addr_index l h i = None.
Proof.
  induction l as [|a l IH]; intros H i; [reflexivity|]. cbn [addr_index].
  destruct (addr_eqb a h) eqn:E; [apply addr_eqb_spec in E; exfalso; exact (H a (or_introl eq_refl) E)|].
  apply IH. intros b Hb. apply H. right. exact Hb.
Qed.

Lemma addr_index_app l1 l2 h i : (forall a, In a l1 -> a <> h) ->
  addr_index (l1 ++ l2) h i = addr_index l2 h (i + N.of_nat (length l1)).
Proof.
  revert i. induction l1 as [|a l1 IH]; intros i H; cbn [app length addr_index]; [f_equal; lia|].
  destruct (addr_eqb a h) eqn:E; [apply addr_eqb_spec in E; exfalso; exact (H a (or_introl eq_refl) E)|].
  rewrite IH by (intros b Hb; apply H; right; exact Hb). f_equal. lia.
Qed.

Lemma sorted_prefixes l : addrs_sorted l -> sorted (map fst l).
Proof.
  induction 1 as [|a l S IH Ha]; [exact I|]. cbn [map sorted]. split; [|exact IH].
  destruct l as [|b l]; [exact I|]. cbn [map]. inversion Ha as [|? ? Hab _]; subst. apply addr_ltb_iff in Hab. lia.
Qed.

(* lower_bound splits the list: everything before is below the target, the element at it is not *)
Lemma lower_bound_split (l : list N) t :
  (N.to_nat (lower_bound l t) <= length l)%nat
  /\ (forall x, In x (firstn (N.to_nat (lower_bound l t)) l) -> x < t)
  /\ (match skipn (N.to_nat (lower_bound l t)) l with x :: _ => t <= x | [] => True end).
Proof.
  induction l as [|x l (L & A & B)]; [cbn; repeat split; [lia | intros x []]|].
  cbn [lower_bound]. destruct (x <? t) eqn:E.
  - apply N.ltb_lt in E. replace (N.to_nat (1 + lower_bound l t)) with (S (N.to_nat (lower_bound l t))) by lia.
    cbn [firstn skipn length]. repeat split; [lia | intros y [<- | Hy]; [exact E | exact (A y Hy)] | exact B].
  - apply N.ltb_ge in E. cbn. repeat split; [lia | intros y [] | exact E].
Qed.

(* on a run whose prefixes are all >= h's, the suffix scan is the address scan *)
Lemma scan_arch_spec l h : addrs_sorted l -> (forall a, In a l -> a_prefix h <= fst a) ->
  forall i, scan_arch (map fst l) (map snd l) h i = addr_index l h i.
Proof.
  induction 1 as [|[q s] l S IH Ha]; intros Hge i; [reflexivity|].
  cbn [map scan_arch addr_index fst snd]. unfold addr_eqb at 1. cbn [fst snd]. destruct (q =? a_prefix h) eqn:E.
  - unfold a_prefix in E. rewrite E. cbn [andb]. unfold a_suffix. destruct (s =? snd h); [reflexivity|].
    apply IH. intros a Hin. apply Hge. right. exact Hin.
  - unfold a_prefix in E. rewrite E. cbn [andb]. symmetry. apply addr_index_none. intros a Hin C. subst a.
    rewrite Forall_forall in Ha. specialize (Ha h Hin). apply addr_ltb_iff in Ha. cbn [fst snd] in Ha.
    specialize (Hge (q, s) (or_introl eq_refl)). cbn [fst] in Hge. apply N.eqb_neq in E. unfold a_prefix in *. lia.
Qed.

Lemma skipn_sorted_addrs l k : addrs_sorted l -> addrs_sorted (skipn k l).
Proof.
  revert k. induction l as [|x l IH]; intros k S; destruct k; cbn; try assumption. apply IH. inversion S; assumption.
Qed.

(* HEADLINE (index level): for every address-sorted chunk list, findIndex over its
   prefix / suffix arrays returns the position of h when h is stored and -1 (None)
   otherwise; the search never fails. *)
Theorem find_index_spec (l : list addr) (h : addr) : addrs_sorted l ->
  find_index (map fst l) (map snd l) h = Some (addr_index l h 0).
Proof.
  intros S. unfold find_index. rewrite (prolly_bin_search_spec _ (a_prefix h) (sorted_prefixes l S)).
  destruct (lower_bound_split (map fst l) (a_prefix h)) as (L & A & B).
  set (pm := lower_bound (map fst l) (a_prefix h)) in *. clearbody pm. set (k := N.to_nat pm) in *.
  rewrite map_length in L.
  assert (Hbefore : forall a, In a (firstn k l) -> a <> h).
  { intros a Ha C. subst a. specialize (A (fst h)). rewrite firstn_map in A.
    specialize (A (in_map fst _ _ Ha)). unfold a_prefix in A. lia. }
  assert (Esplit : addr_index l h 0 = addr_index (skipn k l) h pm).
  { rewrite <- (firstn_skipn k l) at 1. rewrite (addr_index_app _ _ h 0 Hbefore). f_equal.
    rewrite firstn_length, Nat.min_l by exact L. unfold k. lia. }
  unfold nlenN. rewrite map_length. destruct (_ <=? pm) eqn:E.
  - apply N.leb_le in E. f_equal. rewrite Esplit. rewrite skipn_all2 by (unfold k in *; cbv [addr] in *; lia). reflexivity.
  - f_equal. rewrite Esplit. fold k. rewrite !skipn_map.
    apply scan_arch_spec; [apply skipn_sorted_addrs; exact S|].
    (* everything from the lower bound on has prefix >= h's *)
    intros a Ha. rewrite skipn_map in B.
    remember (skipn k l) as sk eqn:Es. cbv [addr] in *. rewrite <- Es in B.
    destruct sk as [|b t]; [destruct Ha|]. cbn [map] in B.
    destruct Ha as [<- | Ha]; [exact B|].
    pose proof (skipn_sorted_addrs l k S) as Sk. cbv [addr] in *. rewrite <- Es in Sk. inversion Sk as [|? ? _ Hb]; subst.
    rewrite Forall_forall in Hb. specialize (Hb a Ha). apply addr_ltb_iff in Hb. lia.
Qed.

Corollary find_index_present l h : addrs_sorted l ->
  (exists i, find_index (map fst l) (map snd l) h = Some (Some i)) <-> In h l.
Proof.
  intros S. rewrite (find_index_spec l h S). split.
  - intros (i & E). inversion E as [E']. clear E. revert E'. generalize 0. induction l as [|a l IH]; intros n E'; [discriminate|].
    cbn [addr_index] in E'. destruct (addr_eqb a h) eqn:Ea; [apply addr_eqb_spec in Ea; left; exact Ea|].
    right. inversion S; subst. exact (IH H1 _ E').
  - intros Hin. destruct (addr_index l h 0) as [i|] eqn:E; [exists i; reflexivity|]. exfalso.
    clear S. revert E. generalize 0. induction l as [|a l IH]; intros n E; [destruct Hin|]. cbn [addr_index] in E.
    destruct (addr_eqb a h) eqn:Ea; [discriminate|]. destruct Hin as [-> | Hin]; [rewrite (proj2 (addr_eqb_spec h h) eq_refl) in Ea; discriminate|].
    exact (IH Hin _ E).
Qed.

(* ------------------------------------------------------------------ *)
(* Byte level: the index block written by archiveWriter.writeIndex decodes to the arrays
   the reader works on. *)
Lemma insert_achunk_ins x l : insert_achunk x l = ins _ _ (@fst addr aref) addr_ltb x l.
Proof. induction l as [|y l IH]; cbn; [reflexivity | rewrite IH; reflexivity]. Qed.
Lemma sort_achunks_isort l : sort_achunks l = isort _ _ (@fst addr aref) addr_ltb l.
Proof. induction l as [|x l IH]; cbn; [reflexivity|]. unfold sort_achunks in IH. rewrite IH, insert_achunk_ins. reflexivity. Qed.
Lemma sort_achunks_perm l : Permutation (sort_achunks l) l.
Proof. rewrite sort_achunks_isort. apply isort_perm. Qed.

Lemma length_ref_bytes r : length (ref_bytes r) = (w32 + w32)%nat.
Proof. unfold ref_bytes. rewrite app_length, !length_be_enc. reflexivity. Qed.
Lemma dec_ref_bytes (r : aref) : fst r < 2 ^ 32 -> snd r < 2 ^ 32 -> dec_ref (ref_bytes r) = r.
Proof.
  intros H1 H2. unfold dec_ref, ref_bytes.
  rewrite firstn_app, firstn_all2 by (rewrite length_be_enc; lia). rewrite length_be_enc, Nat.sub_diag. cbn [firstn]. rewrite app_nil_r.
  rewrite skipn_app, skipn_all2 by (rewrite length_be_enc; lia). rewrite length_be_enc, Nat.sub_diag. cbn [skipn app].
  rewrite !be_dec_enc; [destruct r; reflexivity | exact H2 | exact H1].
Qed.

Definition archive_fits (span_lens : list N) (cs : list achunk) : Prop :=
  Forall (fun e => e < 2 ^ 64) (cumsum 0 span_lens)
  /\ Forall (fun c : achunk => a_prefix (fst c) < 2 ^ 64 /\ a_suffix (fst c) < 2 ^ 96
                                /\ fst (snd c) < 2 ^ 32 /\ snd (snd c) < 2 ^ 32) cs.

Definition written_aindex (span_lens : list N) (staged : list achunk) : aindex :=
  let cs := sort_achunks staged in
  mkAindex (cumsum 0 span_lens) (map (fun c : achunk => a_prefix (fst c)) cs) (map snd cs)
           (map (fun c : achunk => a_suffix (fst c)) cs).

Theorem archive_index_roundtrip span_lens staged : archive_fits span_lens (sort_achunks staged) ->
  parse_archive_index (nlen span_lens) (nlen staged) (archive_index_bytes span_lens staged)
  = Some (written_aindex span_lens staged).
Proof.
  intros [Fs Fc]. rewrite Forall_forall in Fs, Fc.
  unfold parse_archive_index, archive_index_bytes, written_aindex.
  set (cs := sort_achunks staged) in *.
  assert (Lcs : length cs = length staged) by (apply Permutation_length, sort_achunks_perm).
  set (A := concat (map (be_enc w64) (cumsum 0 span_lens))).
  set (B := concat (map (fun c : achunk => be_enc w64 (a_prefix (fst c))) cs)).
  set (C := concat (map (fun c : achunk => ref_bytes (snd c)) cs)).
  set (D := concat (map (fun c : achunk => be_enc w_suf (a_suffix (fst c))) cs)).
  assert (LA : nlen A = 8 * nlen span_lens).
  { unfold A. rewrite (nlen_concat_fixed _ w64) by (intros; apply length_be_enc). unfold nlen. rewrite length_cumsum. reflexivity. }
  assert (LB : nlen B = 8 * nlen staged).
  { unfold B. rewrite (nlen_concat_fixed _ w64) by (intros; apply length_be_enc). unfold nlen. rewrite Lcs. reflexivity. }
  assert (LC : nlen C = 8 * nlen staged).
  { unfold C. rewrite (nlen_concat_fixed _ (w32 + w32)) by (intros; apply length_ref_bytes). unfold nlen. rewrite Lcs. reflexivity. }
  assert (LD : nlen D = 12 * nlen staged).
  { unfold D. rewrite (nlen_concat_fixed _ w_suf) by (intros; apply length_be_enc). unfold nlen. rewrite Lcs. reflexivity. }
  cbv [uint64_size uint32_size hash_suffix_len].
  replace (nlen (A ++ B ++ C ++ D) =? 8 * nlen span_lens + (8 + (4 + 4) + 12) * nlen staged) with true
    by (symmetry; apply N.eqb_eq; rewrite !nlen_app, LA, LB, LC, LD; lia).
  cbn [negb].
  rewrite (sub_head A (B ++ C ++ D)) by lia.
  rewrite (sub_at A B (C ++ D)) by lia.
  replace (A ++ B ++ C ++ D) with ((A ++ B) ++ C ++ D) by (rewrite <- app_assoc; reflexivity).
  rewrite (sub_at (A ++ B) C D) by (rewrite ?nlen_app; lia).
  replace ((A ++ B) ++ C ++ D) with (((A ++ B) ++ C) ++ D) by (rewrite <- !app_assoc; reflexivity).
  rewrite (sub_tail ((A ++ B) ++ C) D) by (rewrite ?nlen_app; lia).
  f_equal. f_equal.
  - replace (N.to_nat (nlen span_lens)) with (length (cumsum 0 span_lens)) by (rewrite length_cumsum; unfold nlen; lia).
    unfold A. rewrite <- (app_nil_r (concat _)), (split_n_concat _ w64) by (intros; apply length_be_enc).
    rewrite map_map. apply map_id_on. intros e He. apply be_dec_enc. exact (Fs e He).
  - replace (N.to_nat (nlen staged)) with (length cs) by (unfold nlen; lia).
    unfold B. rewrite <- (app_nil_r (concat _)), (split_n_concat _ w64) by (intros; apply length_be_enc).
    rewrite map_map. apply map_ext_in. intros c Hc. apply be_dec_enc. exact (proj1 (Fc c Hc)).
  - replace (N.to_nat (nlen staged)) with (length cs) by (unfold nlen; lia).
    unfold C. rewrite <- (app_nil_r (concat _)), (split_n_concat _ (w32 + w32)) by (intros; apply length_ref_bytes).
    rewrite map_map. apply map_ext_in. intros c Hc. destruct (Fc c Hc) as (_ & _ & H1 & H2). apply dec_ref_bytes; assumption.
  - replace (N.to_nat (nlen staged)) with (length cs) by (unfold nlen; lia).
    unfold D. rewrite <- (app_nil_r (concat _)), (split_n_concat _ w_suf) by (intros; apply length_be_enc).
    rewrite map_map. apply map_ext_in. intros c Hc. apply be_dec_enc. exact (proj1 (proj2 (Fc c Hc))).
Qed.

(* the chunk reference staged for h *)
Fixpoint aref_of (l : list achunk) (h : addr) : option aref :=
  match l with [] => None | c :: t => if addr_eqb (fst c) h then Some (snd c) else aref_of t h end.

Lemma aref_of_in l h r : NoDup (map fst l) -> (aref_of l h = Some r <-> In (h, r) l).
Proof.
  induction l as [|[a x] l IH]; intros N; [split; [discriminate | intros []]|].
  cbn [map fst] in N. inversion N as [|? ? Hn N']; subst. cbn [aref_of fst snd]. destruct (addr_eqb a h) eqn:E.
  - apply addr_eqb_spec in E. subst a. split.
    + intros H. inversion H. left. reflexivity.
    + intros [H | H]; [inversion H; reflexivity|]. exfalso. apply Hn. apply in_map_iff. exists (h, r). split; [reflexivity | exact H].
  - rewrite (IH N'). split; [intros H; right; exact H|]. intros [H | H]; [|exact H].
    inversion H; subst. rewrite (proj2 (addr_eqb_spec h h) eq_refl) in E. discriminate.
Qed.
Lemma aref_of_none l h : aref_of l h = None <-> ~ In h (map fst l).
Proof.
  induction l as [|[a x] l IH]; [split; [intros _ [] | reflexivity]|]. cbn [aref_of map fst snd]. destruct (addr_eqb a h) eqn:E.
  - apply addr_eqb_spec in E. subst. split; [discriminate | intros H; exfalso; apply H; left; reflexivity].
  - rewrite IH. split; [intros H [C | C]; [subst; rewrite (proj2 (addr_eqb_spec h h) eq_refl) in E; discriminate | exact (H C)] | intros H C; apply H; right; exact C].
Qed.

Lemma sorted_strict (l : list achunk) : NoDup (map fst l) ->
  StronglySorted (kle _ _ (@fst addr aref) addr_ltb) l -> addrs_sorted (map fst l).
Proof.
  intros N S. induction S as [|c l S IH Hc]; [constructor|]. cbn [map] in *. inversion N as [|? ? Hn N']; subst.
  constructor; [exact (IH N')|]. rewrite Forall_forall in *. intros a Ha. apply in_map_iff in Ha. destruct Ha as (c' & <- & Hc').
  specialize (Hc c' Hc'). unfold kle in Hc. destruct (addr_ltb (fst c) (fst c')) eqn:E; [reflexivity|]. exfalso.
  apply Hn. rewrite (addr_ltb_tri _ _ E Hc). apply in_map. exact Hc'.
Qed.

Lemma addr_index_nth (l : list achunk) h : forall i0 i, addr_index (map fst l) h i0 = Some i ->
  exists c, In c l /\ fst c = h /\ nth (N.to_nat (i - i0)) (map snd l) (0, 0) = snd c /\ i0 <= i.
Proof.
  induction l as [|c l IH]; intros i0 i H; [discriminate|]. cbn [map addr_index] in H. destruct (addr_eqb (fst c) h) eqn:E.
  - inversion H; subst. apply addr_eqb_spec in E. exists c. replace (i - i) with 0 by lia. repeat split; [left; reflexivity | exact E | lia].
  - destruct (IH _ _ H) as (c' & Hin & Hf & Hn & Hle). exists c'. repeat split; [right; exact Hin | exact Hf | | lia].
    replace (N.to_nat (i - i0)) with (S (N.to_nat (i - (i0 + 1)))) by lia. exact Hn.
Qed.

(* HEADLINE (archive, index level, from the bytes): for every staged chunk list with distinct
   addresses, decoding the written index block and running findIndex + the chunk reference
   lookup returns exactly the reference staged for h, and nothing for an absent h. *)
Theorem archive_roundtrip span_lens staged h :
  NoDup (map fst staged) -> archive_fits span_lens (sort_achunks staged) ->
  option_map (fun ai => archive_lookup ai h)
             (parse_archive_index (nlen span_lens) (nlen staged) (archive_index_bytes span_lens staged))
  = Some (Some (aref_of staged h)).
Proof.
  intros ND Fit.
  match goal with |- option_map _ ?X = _ =>
    replace X with (Some (written_aindex span_lens staged)) by (symmetry; exact (archive_index_roundtrip span_lens staged Fit)) end.
  cbn [option_map]. f_equal.
  unfold archive_lookup, written_aindex. cbn [ai_prefixes ai_suffixes ai_refs].
  set (cs := sort_achunks staged).
  assert (P : Permutation cs staged) by apply sort_achunks_perm.
  assert (NDc : NoDup (map fst cs)) by (apply (Permutation_NoDup (Permutation_map fst (Permutation_sym P))); exact ND).
  assert (Sc : addrs_sorted (map fst cs)).
  { apply sorted_strict; [exact NDc|]. unfold cs. rewrite sort_achunks_isort.
    apply (isort_sorted _ _ _ _ addr_ltb_asym addr_le_trans). }
  replace (map (fun c : achunk => a_prefix (fst c)) cs) with (map fst (map fst cs)) by (rewrite map_map; reflexivity).
  replace (map (fun c : achunk => a_suffix (fst c)) cs) with (map snd (map fst cs)) by (rewrite map_map; reflexivity).
  rewrite (find_index_spec (map fst cs) h Sc).
  destruct (addr_index (map fst cs) h 0) as [i|] eqn:E.
  - destruct (addr_index_nth cs h 0 i E) as (c & Hin & Hf & Hn & _). replace (i - 0) with i in Hn by lia. rewrite Hn.
    f_equal. symmetry. apply (aref_of_in staged h (snd c) ND). apply (Permutation_in _ P). rewrite <- Hf. destruct c; exact Hin.
  - f_equal. symmetry. apply aref_of_none. intros C. apply (Permutation_in _ (Permutation_map fst (Permutation_sym P))) in C.
    assert (addr_index (map fst cs) h 0 <> None).
    { clear -C. generalize 0. induction (map fst cs) as [|a l IH]; intros n; [destruct C|]. cbn [addr_index].
      destruct (addr_eqb a h) eqn:Ea; [discriminate|]. destruct C as [-> | C]; [rewrite (proj2 (addr_eqb_spec h h) eq_refl) in Ea; discriminate | exact (IH C _)]. }
    congruence.
Qed.
