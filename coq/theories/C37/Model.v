(* C37 — Schemas serialize faithfully and column tags are deterministic.  Model (no proofs).

   Part 1: column tags.
     go/libraries/doltcore/schema/tag.go          AutoGenerateTag, deterministicRandomTagGenerator, simpleString
     go/libraries/doltcore/doltdb/root_val.go     GenerateTagsForNewColumns, GetExistingColumns, GetAllTagsForRoots
     go/libraries/doltcore/schema/schema.go       GetSharedCols
     go/libraries/doltcore/sqle/database.go       createSqlTable (root = working root, headRoot = HEAD root)
     go/libraries/doltcore/sqle/tables.go         AddColumn (headRoot = nil), RewriteInserter/createSchemaForColumnChange
                                                  (DROP / MODIFY keep the tags of the surviving columns), ModifyColumn (rename keeps the tag)
   Part 2: the structural content of SerializeSchema / DeserializeSchema
     go/libraries/doltcore/schema/encoding/serialization.go

   The random source (math/rand seeded with the first 8 bytes of sha512(kinds ++ [kind] ++ simple table ++ simple column))
   is a Section variable [rand_seq]: the i-th value Int63n(bound) returns for that seed. *)
From Coq Require Import NArith List Bool.
From Dolt Require Import Base.Str Gen.C37Consts.
Import ListNotations.
Local Open Scope N_scope.

(* ------------------------------------------------------------------ *)
(* Part 1: tags                                                        *)
(* ------------------------------------------------------------------ *)

Definition is_alnum (b : N) : bool :=
  ((48 <=? b) && (b <=? 57)) || ((65 <=? b) && (b <=? 90)) || ((97 <=? b) && (b <=? 122)).
Definition lower (b : N) : N := if (65 <=? b) && (b <=? 90) then b + 32 else b.

(* tag.go simpleString: regexp [^a-zA-Z0-9]+ replaced by "", then strings.ToLower.  Every byte of a multi-byte
   (or invalid) UTF-8 sequence is outside the ASCII class, so byte-wise filtering is the same function. *)
Definition simple_string (s : bytes) : bytes := map lower (filter is_alnum s).

(* strings.EqualFold on ASCII names (generated names are ASCII; Unicode folding is not modelled) *)
Definition eq_fold (a b : bytes) : bool := beq_bytes (map lower a) (map lower b).

Definition mem (x : N) (l : list N) : bool := existsb (N.eqb x) l.

(* TagMapping.Size(): number of distinct tags *)
Definition distinct_count (l : list N) : N := N.of_nat (length (nodup N.eq_dec l)).

Definition reserved_tag_min : N := 1125899906842624.   (* 1 << 50, pinned to the source in Proofs.v *)

(* the maxTagVal loop of AutoGenerateTag; None = the panic branch.  uint64 overflow of maxTagVal*128 cannot
   happen below ReservedTagMin-1 (< 2^57), so that branch is dead and not modelled. *)
Fixpoint max_tag_loop (fuel : nat) (m size : N) : option N :=
  match fuel with
  | O => None
  | S fuel' =>
      if m / 2 <? size then
        if reserved_tag_min - 1 <=? m then None else max_tag_loop fuel' (m * 128) size
      else Some m
  end.
Definition max_tag (size : N) : option N := max_tag_loop 8 16384 size.

Record col := { c_name : bytes; c_kind : N; c_tag : N }.
Definition table := (bytes * list col)%type.
Definition root := list table.

Definition root_tags (r : root) : list N := flat_map (fun t => map c_tag (snd t)) r.

Fixpoint lookup (t : bytes) (r : root) : option (list col) :=
  match r with
  | [] => None
  | (n, cs) :: r' => if beq_bytes n t then Some cs else lookup t r'
  end.
Fixpoint set_table (t : bytes) (cs : list col) (r : root) : root :=
  match r with
  | [] => [(t, cs)]
  | (n, cs') :: r' => if beq_bytes n t then (n, cs) :: r' else (n, cs') :: set_table t cs r'
  end.
Definition del_table (t : bytes) (r : root) : root := filter (fun e => negb (beq_bytes (fst e) t)) r.

Section Tags.
  (* simple table name, simple column name, kinds of the existing columns, kind of the new column, bound, i *)
  Variable rand_seq : bytes -> bytes -> list N -> N -> N -> nat -> N.

  (* the `for { randTag = Int63n(max); if !existing.Contains(randTag) break }` loop, with fuel *)
  Fixpoint draw (fuel i : nat) (f : nat -> N) (existing : list N) : option N :=
    match fuel with
    | O => None
    | S fuel' => let c := f i in if mem c existing then draw fuel' (S i) f existing else Some c
    end.

  (* AutoGenerateTag; None = fuel exhausted or the "too many columns" panic *)
  Definition auto_tag (fuel : nat) (existing : list N) (tname : bytes) (kinds : list N) (cname : bytes) (kind : N) : option N :=
    match max_tag (distinct_count existing) with
    | None => None
    | Some m => draw fuel 0 (rand_seq (simple_string tname) (simple_string cname) kinds kind m) existing
    end.

  (* GenerateTagsForNewColumns: a column whose name (case-insensitively) and kind match an existing column keeps that tag *)
  Definition reuse (ecols : list col) (n : bytes) (k : N) : option N :=
    option_map c_tag (find (fun c => eq_fold n (c_name c) && (k =? c_kind c)) ecols).

  Fixpoint gen_loop (fuel : nat) (ecols : list col) (tname : bytes) (news : list (bytes * N))
           (ekinds : list N) (etags : list N) : option (list N) :=
    match news with
    | [] => Some []
    | (n, k) :: rest =>
        match reuse ecols n k with
        | Some t => option_map (cons t) (gen_loop fuel ecols tname rest ekinds etags)
        | None =>
            match auto_tag fuel etags tname ekinds n k with
            | None => None
            | Some t => option_map (cons t) (gen_loop fuel ecols tname rest (ekinds ++ [k]) (t :: etags))
            end
        end
    end.
  Definition gen_tags (fuel : nat) (ecols : list col) (etags : list N) (tname : bytes) (news : list (bytes * N)) : option (list N) :=
    gen_loop fuel ecols tname news (map c_kind ecols) etags.

  (* schema.GetSharedCols: HEAD columns with exactly the new name and the same kind, in the order of the new names *)
  Definition shared_cols (hcols : list col) (news : list (bytes * N)) : list col :=
    flat_map (fun nk => match find (fun c => beq_bytes (c_name c) (fst nk)) hcols with
                        | Some c => if c_kind c =? snd nk then [c] else []
                        | None => [] end) news.

  Inductive ddl :=
  | Create (t : bytes) (cols : list (bytes * N))         (* CREATE TABLE t (name kind, ...) *)
  | AddCol (t c : bytes) (k : N) (pos : nat)              (* ALTER TABLE t ADD COLUMN c [FIRST|AFTER ..]: stored at position pos *)
  | DropCol (t c : bytes)
  | DropTable (t : bytes)
  | RenameCol (t a b : bytes)
  | ModifyKind (t c : bytes) (k : N)                      (* MODIFY COLUMN to a type of kind k: the tag is kept *)
  | Commit.

  (* head, working root of the tables the DDL touches; [other] = tags of all the other tables of the root
     (the same in HEAD and working, since they are not touched) *)
  Record st := { head : root; work : root; other : list N }.

  Definition has_col (cs : list col) (n : bytes) : bool := existsb (fun c => eq_fold n (c_name c)) cs.
  (* the SQL layer refuses a CREATE TABLE that names a column twice (case-insensitively) *)
  Fixpoint names_distinct (l : list bytes) : bool :=
    match l with [] => true | n :: r => negb (existsb (eq_fold n) r) && names_distinct r end.
  Fixpoint insert_at {A} (i : nat) (x : A) (l : list A) : list A :=
    match i, l with
    | O, _ => x :: l
    | S i', h :: t => h :: insert_at i' x t
    | S _, [] => [x]
    end.

  Definition mk_cols (news : list (bytes * N)) (tags : list N) : list col :=
    map (fun p => {| c_name := fst (fst p); c_kind := snd (fst p); c_tag := snd p |}) (combine news tags).

  (* Some s' : the state after the statement (a rejected statement leaves the state unchanged);
     None    : fuel exhausted / panic — excluded by the theorems *)
  Definition step (fuel : nat) (s : st) (d : ddl) : option st :=
    match d with
    | Create t news =>
        if negb (names_distinct (map fst news)) then Some s else    (* duplicate column name: rejected *)
        match lookup t (work s) with
        | Some _ => Some s                                        (* table exists: rejected *)
        | None =>
            let ecols := match lookup t (head s) with Some hc => shared_cols hc news | None => [] end in
            let etags := root_tags (head s) ++ root_tags (work s) ++ other s in
            match gen_tags fuel ecols etags t news with
            | None => None
            | Some tags => Some {| head := head s; work := set_table t (mk_cols news tags) (work s); other := other s |}
            end
        end
    | AddCol t c k pos =>
        match lookup t (work s) with
        | None => Some s
        | Some cs =>
            if has_col cs c then Some s else
            match gen_tags fuel cs (root_tags (work s) ++ other s) t [(c, k)] with
            | Some [tag] => Some {| head := head s;
                                    work := set_table t (insert_at pos {| c_name := c; c_kind := k; c_tag := tag |} cs) (work s);
                                    other := other s |}
            | _ => None
            end
        end
    | DropCol t c =>
        match lookup t (work s) with
        | None => Some s
        | Some cs => Some {| head := head s; work := set_table t (filter (fun x => negb (eq_fold c (c_name x))) cs) (work s); other := other s |}
        end
    | DropTable t => Some {| head := head s; work := del_table t (work s); other := other s |}
    | RenameCol t a b =>
        match lookup t (work s) with
        | None => Some s
        | Some cs =>
            if has_col cs b then Some s else
            Some {| head := head s;
                    work := set_table t (map (fun x => if eq_fold a (c_name x) then {| c_name := b; c_kind := c_kind x; c_tag := c_tag x |} else x) cs) (work s);
                    other := other s |}
        end
    | ModifyKind t c k =>
        match lookup t (work s) with
        | None => Some s
        | Some cs =>
            Some {| head := head s;
                    work := set_table t (map (fun x => if eq_fold c (c_name x) then {| c_name := c_name x; c_kind := k; c_tag := c_tag x |} else x) cs) (work s);
                    other := other s |}
        end
    | Commit => Some {| head := work s; work := work s; other := other s |}
    end.

  Fixpoint run (fuel : nat) (s : st) (ds : list ddl) : option st :=
    match ds with
    | [] => Some s
    | d :: ds' => match step fuel s d with Some s' => run fuel s' ds' | None => None end
    end.
End Tags.

(* ------------------------------------------------------------------ *)
(* Part 2: schema -> serialized fields -> schema                       *)
(* ------------------------------------------------------------------ *)

Definition is_nil {A} (l : list A) : bool := match l with [] => true | _ => false end.

(* schema.Column (+ the NotNull constraint as [sc_nullable]); the type is its canonical descriptor *)
Record scol := {
  sc_name : bytes; sc_tag : N; sc_ty : bytes; sc_nullable : bool; sc_pk : bool; sc_autoinc : bool;
  sc_default : bytes; sc_generated : bytes; sc_onupdate : bytes; sc_virtual : bool; sc_comment : bytes;
  sc_hidden : bool; sc_syshidden : bool }.
(* schema.FullTextProperties *)
Record ftinfo := {
  ft_config : bytes; ft_pos : bytes; ft_doccount : bytes; ft_global : bytes; ft_rowcount : bytes;
  ft_keytype : N; ft_keyname : bytes; ft_keypos : list N }.
Definition ft_zero : ftinfo :=
  {| ft_config := []; ft_pos := []; ft_doccount := []; ft_global := []; ft_rowcount := []; ft_keytype := 0; ft_keyname := []; ft_keypos := [] |}.
(* schema.Index + IndexProperties.  ix_vecdist: 0 = no distance type (zero VectorProperties), 1 = vector.DistanceL2Squared, other = any other *)
Record sindex := {
  ix_name : bytes; ix_tags : list N; ix_unique : bool; ix_comment : bytes; ix_prefix : list N;
  ix_userdef : bool; ix_spatial : bool; ix_fulltext : bool; ix_vector : bool; ix_predicate : bytes;
  ix_ft : ftinfo; ix_vecdist : N }.
Record scheck := { ck_name : bytes; ck_expr : bytes; ck_enforced : bool; ck_notvalid : bool }.
Record sschema := {
  s_cols : list scol; s_pk_ord : list nat; s_indexes : list sindex; s_checks : list scheck;
  s_collation : N; s_comment : bytes; s_rowsize : N }.

(* serial.Column / serial.Index / serial.CheckConstraint / serial.TableSchema: the fields that are written
   (display_order, key_columns, value_columns, the clustered index flags, uses_adaptive_encoding and
   has_features_after_try_accessors are written but never read back: not modelled) *)
Record fcol := {
  f_name : bytes; f_sqltype : bytes; f_default : bytes; f_comment : bytes; f_tag : N; f_pk : bool; f_autoinc : bool;
  f_nullable : bool; f_generated : bool; f_virtual : bool; f_onupdate : option bytes; f_hidden : bool; f_syshidden : bool }.
Record findex := {
  fi_name : bytes; fi_comment : bytes; fi_cols : list nat; fi_unique : bool; fi_system : bool; fi_prefix : list N;
  fi_spatial : bool; fi_fulltext : bool; fi_ft : option ftinfo; fi_vector : bool; fi_vec : option N; fi_predicate : option bytes }.
Record fschema := {
  fs_cols : list fcol; fs_key_cols : list nat; fs_indexes : list findex; fs_checks : list scheck;
  fs_collation : N; fs_comment : option bytes; fs_rowsize : N }.

Definition keyless_id_col : bytes := go_keyless_id_col.
Definition keyless_card_col : bytes := go_keyless_card_col.

(* schema.IsKeyless *)
Definition keyless (s : sschema) : bool := negb (is_nil (s_cols s)) && forallb (fun c => negb (sc_pk c)) (s_cols s).

(* ColCollection.TagToIdx[tag]: a missing key reads as 0 *)
Fixpoint tag_pos (t : N) (tags : list N) : option nat :=
  match tags with
  | [] => None
  | x :: r => if x =? t then Some O else option_map S (tag_pos t r)
  end.
Definition tag_to_idx (tags : list N) (t : N) : nat := match tag_pos t tags with Some i => i | None => O end.

Fixpoint map_opt {A B} (f : A -> option B) (l : list A) : option (list B) :=
  match l with
  | [] => Some []
  | x :: r => match f x, map_opt f r with Some y, Some ys => Some (y :: ys) | _, _ => None end
  end.

Section Serial.
  Variable type_string : bytes -> bytes.            (* sqlTypeString(TypeInfo) + Encoding *)
  Variable parse_type : bytes -> option bytes.      (* typeinfoFromSqlType + WithEncoding *)

  (* serializeSchemaColumns *)
  Definition ser_col (c : scol) : fcol :=
    {| f_name := sc_name c; f_sqltype := type_string (sc_ty c);
       f_default := if is_nil (sc_default c) then sc_generated c else sc_default c;
       f_comment := sc_comment c; f_tag := sc_tag c; f_pk := sc_pk c; f_autoinc := sc_autoinc c;
       f_nullable := sc_nullable c; f_generated := negb (is_nil (sc_generated c)); f_virtual := sc_virtual c;
       f_onupdate := if is_nil (sc_onupdate c) then None else Some (sc_onupdate c);
       f_hidden := sc_hidden c; f_syshidden := sc_syshidden c |}.

  (* serializeHiddenKeylessColumns *)
  Definition hidden_col (name : bytes) (tag : N) : fcol :=
    {| f_name := name; f_sqltype := []; f_default := []; f_comment := []; f_tag := tag; f_pk := false; f_autoinc := false;
       f_nullable := false; f_generated := true; f_virtual := false; f_onupdate := None; f_hidden := true; f_syshidden := false |}.
  Definition keyless_id_tag : N := 2251799813690248.       (* schema.KeylessRowIdTag = (ReservedTagMin << 1) + 5000 *)
  Definition keyless_card_tag : N := 2251799813690249.     (* schema.KeylessRowCardinalityTag *)

  (* serializeSecondaryIndexes (+ serializeFullTextInfo, serializeVectorInfo): the system_defined flag is the negation of
     IsUserDefined; the fulltext table is written only for a fulltext index, the vector table only for a vector index and
     its distance type is L2_Squared only for vector.DistanceL2Squared (anything else is left at DistanceTypeNull = 0);
     the predicate is written only when non-empty *)
  Definition ser_index (tags : list N) (ix : sindex) : findex :=
    {| fi_name := ix_name ix; fi_comment := ix_comment ix; fi_cols := map (tag_to_idx tags) (ix_tags ix);
       fi_unique := ix_unique ix; fi_system := negb (ix_userdef ix); fi_prefix := ix_prefix ix;
       fi_spatial := ix_spatial ix; fi_fulltext := ix_fulltext ix;
       fi_ft := if ix_fulltext ix then Some (ix_ft ix) else None;
       fi_vector := ix_vector ix;
       fi_vec := if ix_vector ix then Some (if ix_vecdist ix =? 1 then 1 else 0) else None;
       fi_predicate := if is_nil (ix_predicate ix) then None else Some (ix_predicate ix) |}.

  (* serializeSchemaAsFlatbuffer *)
  Definition serialize (s : sschema) : fschema :=
    let kl := keyless s in
    {| fs_cols := map ser_col (s_cols s)
                  ++ (if kl then [hidden_col keyless_id_col keyless_id_tag; hidden_col keyless_card_col keyless_card_tag] else []);
       fs_key_cols := if kl then [length (s_cols s)] else s_pk_ord s;
       fs_indexes := map (ser_index (map sc_tag (s_cols s))) (s_indexes s);
       fs_checks := s_checks s;
       fs_collation := s_collation s;
       fs_comment := if is_nil (s_comment s) then None else Some (s_comment s);
       fs_rowsize := s_rowsize s |}.

  (* keylessSerialSchema: the last two columns are the generated hidden id / cardinality columns *)
  Definition keyless_serial (f : fschema) : bool :=
    match rev (fs_cols f) with
    | card :: id :: _ =>
        f_generated id && f_hidden id && beq_bytes (f_name id) keyless_id_col
        && f_generated card && f_hidden card && beq_bytes (f_name card) keyless_card_col
    | _ => false
    end.

  (* deserializeColumns, constraintsFromSerialColumn *)
  Definition de_col (c : fcol) : option scol :=
    match parse_type (f_sqltype c) with
    | None => None
    | Some ty =>
        Some {| sc_name := f_name c; sc_tag := f_tag c; sc_ty := ty;
                sc_nullable := f_nullable c && negb (f_pk c);
                sc_pk := f_pk c; sc_autoinc := f_autoinc c;
                sc_default := if f_generated c then [] else f_default c;
                sc_generated := if f_generated c then f_default c else [];
                sc_onupdate := match f_onupdate c with Some u => u | None => [] end;
                sc_virtual := f_virtual c; sc_comment := f_comment c; sc_hidden := f_hidden c; sc_syshidden := f_syshidden c |}
    end.

  Definition dummy_fcol : fcol := hidden_col [] 0.

  (* deserializeSecondaryIndexes (+ deserializeFullTextInfo, deserializeVectorInfo): position -> tag of the serialized column
     at that position; an absent fulltext / vector table reads as the zero value; a vector table with a distance type other
     than L2_Squared is an error *)
  Definition de_index (f : fschema) (ix : findex) : option sindex :=
    match (match fi_vec ix with None => Some 0 | Some d => if d =? 1 then Some 1 else None end) with
    | None => None
    | Some vd =>
        Some {| ix_name := fi_name ix; ix_tags := map (fun p => f_tag (nth p (fs_cols f) dummy_fcol)) (fi_cols ix);
                ix_unique := fi_unique ix; ix_comment := fi_comment ix; ix_prefix := fi_prefix ix;
                ix_userdef := negb (fi_system ix); ix_spatial := fi_spatial ix; ix_fulltext := fi_fulltext ix;
                ix_vector := fi_vector ix;
                ix_predicate := match fi_predicate ix with Some p => p | None => [] end;
                ix_ft := match fi_ft ix with Some x => x | None => ft_zero end;
                ix_vecdist := vd |}
    end.

  (* deserializeSchemaFromFlatbuffer; None = an error return *)
  Definition deserialize (f : fschema) : option sschema :=
    let kl := keyless_serial f in
    let fcols := if kl then rev (tl (tl (rev (fs_cols f)))) else fs_cols f in
    match map_opt de_col fcols, map_opt (de_index f) (fs_indexes f) with
    | Some cols, Some idxs =>
        Some {| s_cols := cols;
                s_pk_ord := if kl then [] else fs_key_cols f;
                s_indexes := idxs;
                s_checks := fs_checks f;
                s_collation := fs_collation f;
                s_comment := match fs_comment f with Some c => c | None => [] end;
                s_rowsize := fs_rowsize f |}
    | _, _ => None
    end.
End Serial.

(* ------------------------------------------------------------------ *)
(* Part 3: the root's foreign key collection                           *)
(*   go/libraries/doltcore/doltdb/foreign_key_serialization.go         *)
(*   (foreign keys are NOT part of the table schema message)           *)
(* ------------------------------------------------------------------ *)
Record sfk := {
  fk_name : bytes; fk_table : bytes; fk_index : bytes; fk_cols : list N;
  fk_reftable : bytes; fk_refindex : bytes; fk_refcols : list N;
  fk_onupdate : N; fk_ondelete : N; fk_unres : list bytes; fk_unresref : list bytes; fk_notvalid : bool; fk_match : N }.

Section FKSerial.
  (* encodeTableNameForSerialization / decodeTableNameFromSerialization (root_val_storage.go): a table name is the pair
     schema, name flattened to one byte string *)
  Variable encode_name : bytes -> bytes.
  Variable decode_name : bytes -> option bytes.

  (* serializeFlatbufferForeignKeys: every field is copied, the two table names are encoded.  The unresolved column lists are
     written only when non-nil and read as nil when empty: as lists both are []. *)
  Definition ser_fk (k : sfk) : sfk :=
    {| fk_name := fk_name k; fk_table := encode_name (fk_table k); fk_index := fk_index k; fk_cols := fk_cols k;
       fk_reftable := encode_name (fk_reftable k); fk_refindex := fk_refindex k; fk_refcols := fk_refcols k;
       fk_onupdate := fk_onupdate k; fk_ondelete := fk_ondelete k; fk_unres := fk_unres k; fk_unresref := fk_unresref k;
       fk_notvalid := fk_notvalid k; fk_match := fk_match k |}.
  (* deserializeFlatbufferForeignKeys: an undecodable table name is an error *)
  Definition de_fk (k : sfk) : option sfk :=
    match decode_name (fk_table k), decode_name (fk_reftable k) with
    | Some t, Some r =>
        Some {| fk_name := fk_name k; fk_table := t; fk_index := fk_index k; fk_cols := fk_cols k;
                fk_reftable := r; fk_refindex := fk_refindex k; fk_refcols := fk_refcols k;
                fk_onupdate := fk_onupdate k; fk_ondelete := fk_ondelete k; fk_unres := fk_unres k; fk_unresref := fk_unresref k;
                fk_notvalid := fk_notvalid k; fk_match := fk_match k |}
    | _, _ => None
    end.
  Definition fk_serialize (l : list sfk) : list sfk := map ser_fk l.
  Definition fk_deserialize (l : list sfk) : option (list sfk) := map_opt de_fk l.
End FKSerial.
