(* C37 — the property, declaratively, and its boolean forms.

   (1) A generated tag is none of the existing tags, whatever they are.
   (2) The tags a DDL sequence assigns are a function of the sequence, of the tables it touches and of the
       *set* of tags carried by the rest of the root: two roots that agree on the touched tables and whose
       other tables carry the same tags (in any order, multiplicity or grouping) get the same tags — which is
       the situation of two branches / clones running the same DDL.
   (3) Tags are pairwise distinct within a root.
   (4) deserialize (serialize s) = s, field by field. *)
From Coq Require Import NArith List Bool.
From Dolt Require Import Base.Str C37.Model.
Import ListNotations.
Local Open Scope N_scope.

Definition same_set (a b : list N) : Prop := forall x, mem x a = mem x b.

Fixpoint distinct (l : list N) : bool :=
  match l with [] => true | x :: r => negb (mem x r) && distinct r end.

(* ---- field-by-field equality of schemas ---- *)
Fixpoint list_eqb {A} (eqb : A -> A -> bool) (a b : list A) : bool :=
  match a, b with
  | [], [] => true
  | x :: a', y :: b' => eqb x y && list_eqb eqb a' b'
  | _, _ => false
  end.

Definition scol_eqb (a b : scol) : bool :=
  beq_bytes (sc_name a) (sc_name b) && (sc_tag a =? sc_tag b) && beq_bytes (sc_ty a) (sc_ty b)
  && Bool.eqb (sc_nullable a) (sc_nullable b) && Bool.eqb (sc_pk a) (sc_pk b) && Bool.eqb (sc_autoinc a) (sc_autoinc b)
  && beq_bytes (sc_default a) (sc_default b) && beq_bytes (sc_generated a) (sc_generated b)
  && beq_bytes (sc_onupdate a) (sc_onupdate b) && Bool.eqb (sc_virtual a) (sc_virtual b)
  && beq_bytes (sc_comment a) (sc_comment b) && Bool.eqb (sc_hidden a) (sc_hidden b) && Bool.eqb (sc_syshidden a) (sc_syshidden b).

Definition ftinfo_eqb (a b : ftinfo) : bool :=
  beq_bytes (ft_config a) (ft_config b) && beq_bytes (ft_pos a) (ft_pos b) && beq_bytes (ft_doccount a) (ft_doccount b)
  && beq_bytes (ft_global a) (ft_global b) && beq_bytes (ft_rowcount a) (ft_rowcount b) && (ft_keytype a =? ft_keytype b)
  && beq_bytes (ft_keyname a) (ft_keyname b) && list_eqb N.eqb (ft_keypos a) (ft_keypos b).

Definition sindex_eqb (a b : sindex) : bool :=
  beq_bytes (ix_name a) (ix_name b) && list_eqb N.eqb (ix_tags a) (ix_tags b) && Bool.eqb (ix_unique a) (ix_unique b)
  && beq_bytes (ix_comment a) (ix_comment b) && list_eqb N.eqb (ix_prefix a) (ix_prefix b)
  && Bool.eqb (ix_userdef a) (ix_userdef b) && Bool.eqb (ix_spatial a) (ix_spatial b) && Bool.eqb (ix_fulltext a) (ix_fulltext b)
  && Bool.eqb (ix_vector a) (ix_vector b) && beq_bytes (ix_predicate a) (ix_predicate b) && ftinfo_eqb (ix_ft a) (ix_ft b)
  && (ix_vecdist a =? ix_vecdist b).

Definition scheck_eqb (a b : scheck) : bool :=
  beq_bytes (ck_name a) (ck_name b) && beq_bytes (ck_expr a) (ck_expr b) && Bool.eqb (ck_enforced a) (ck_enforced b)
  && Bool.eqb (ck_notvalid a) (ck_notvalid b).

Definition sfk_eqb (a b : sfk) : bool :=
  beq_bytes (fk_name a) (fk_name b) && beq_bytes (fk_table a) (fk_table b) && beq_bytes (fk_index a) (fk_index b)
  && list_eqb N.eqb (fk_cols a) (fk_cols b) && beq_bytes (fk_reftable a) (fk_reftable b) && beq_bytes (fk_refindex a) (fk_refindex b)
  && list_eqb N.eqb (fk_refcols a) (fk_refcols b) && (fk_onupdate a =? fk_onupdate b) && (fk_ondelete a =? fk_ondelete b)
  && list_eqb beq_bytes (fk_unres a) (fk_unres b) && list_eqb beq_bytes (fk_unresref a) (fk_unresref b)
  && Bool.eqb (fk_notvalid a) (fk_notvalid b) && (fk_match a =? fk_match b).

Definition sschema_eqb (a b : sschema) : bool :=
  list_eqb scol_eqb (s_cols a) (s_cols b) && list_eqb Nat.eqb (s_pk_ord a) (s_pk_ord b)
  && list_eqb sindex_eqb (s_indexes a) (s_indexes b) && list_eqb scheck_eqb (s_checks a) (s_checks b)
  && (s_collation a =? s_collation b) && beq_bytes (s_comment a) (s_comment b) && (s_rowsize a =? s_rowsize b).

(* ---- what a schema must satisfy for the serialized form to determine it (each clause names the code that needs it) ---- *)
Section WF.
  Variable type_string : bytes -> bytes.
  Variable parse_type : bytes -> option bytes.

  Definition wf_col (c : scol) : Prop :=
    (sc_default c = [] \/ sc_generated c = [])              (* one default_value field carries both, told apart by the generated flag *)
    /\ (sc_pk c = true -> sc_nullable c = false)            (* constraintsFromSerialColumn: a primary-key column is NOT NULL *)
    /\ parse_type (type_string (sc_ty c)) = Some (sc_ty c). (* the type string parses back to the same type *)

  (* serializeFullTextInfo / serializeVectorInfo are only called for fulltext / vector indexes, and only L2Squared has a code *)
  Definition wf_index (ix : sindex) : Prop :=
    (ix_fulltext ix = false -> ix_ft ix = ft_zero)
    /\ (ix_vector ix = true -> ix_vecdist ix = 1)
    /\ (ix_vector ix = false -> ix_vecdist ix = 0).

  Definition wf_schema (s : sschema) : Prop :=
    (forall c, In c (s_cols s) -> wf_col c)
    /\ (keyless s = true -> s_pk_ord s = [])                (* no primary-key columns: no key ordinals *)
    /\ (keyless s = false ->                                (* a keyed table does not end in columns that look like the keyless markers *)
        keyless_serial {| fs_cols := map (ser_col type_string) (s_cols s); fs_key_cols := []; fs_indexes := []; fs_checks := [];
                          fs_collation := 0; fs_comment := None; fs_rowsize := 0 |} = false)
    /\ (forall ix t, In ix (s_indexes s) -> In t (ix_tags ix) -> In t (map sc_tag (s_cols s)))  (* indexes are over columns of the table *)
    /\ (forall ix, In ix (s_indexes s) -> wf_index ix).
End WF.

(* ---- the decidable class of DDL runs for which tags stay pairwise distinct ----
   [create_safe]: a CREATE TABLE that re-creates a table HEAD still has (dropped from the working root) re-uses HEAD's tags for
   the shared columns; the statement is safe when none of those tags is in use in the working root at that moment.
   This excludes exactly the runs in which a re-used tag has meanwhile been handed out again (ADD COLUMN only avoids the
   working root's tags) — the class of the finding tags:duplicate-tag-after-drop-addcol-recreate. *)
Section Safe.
  Variable rand_seq : bytes -> bytes -> list N -> N -> N -> nat -> N.

  Definition create_safe (s : st) (d : ddl) : bool :=
    match d with
    | Create t news =>
        if negb (names_distinct (map fst news)) then true else       (* rejected anyway *)
        match lookup t (work s), lookup t (head s) with
        | None, Some hc => forallb (fun c => negb (mem (c_tag c) (root_tags (work s) ++ other s))) (shared_cols hc news)
        | _, _ => true
        end
    | _ => true
    end.

  Fixpoint safe_run (fuel : nat) (s : st) (ds : list ddl) : bool :=
    match ds with
    | [] => true
    | d :: ds' => create_safe s d && match step rand_seq fuel s d with Some s' => safe_run fuel s' ds' | None => true end
    end.

  (* the states a run goes through *)
  Fixpoint reached (fuel : nat) (s : st) (ds : list ddl) : list st :=
    s :: match ds with
         | [] => []
         | d :: ds' => match step rand_seq fuel s d with Some s' => reached fuel s' ds' | None => [] end
         end.
End Safe.

(* a purely syntactic sufficient condition (no tags, no random source): no CREATE TABLE of a table that HEAD has while the
   working root does not.  [hn], [wn]: table names of HEAD and of the working root. *)
Definition mem_name (t : bytes) (l : list bytes) : bool := existsb (beq_bytes t) l.
Fixpoint no_recreate (hn wn : list bytes) (ds : list ddl) : bool :=
  match ds with
  | [] => true
  | Create t news :: ds' =>
      if negb (names_distinct (map fst news)) || mem_name t wn then no_recreate hn wn ds'
      else negb (mem_name t hn) && no_recreate hn (t :: wn) ds'
  | DropTable t :: ds' => no_recreate hn (filter (fun n => negb (beq_bytes n t)) wn) ds'
  | Commit :: ds' => no_recreate wn wn ds'
  | _ :: ds' => no_recreate hn wn ds'
  end.
