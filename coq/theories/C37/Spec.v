(* C37 — the property, declaratively, and its boolean forms.

   (1) A generated tag is none of the existing tags, whatever they are.
   (2) The tags a DDL sequence assigns are a function of the sequence, of the tables it touches and of the
       *set* of tags carried by the rest of the root: two roots that agree on the touched tables and whose
       other tables carry the same tags (in any order, multiplicity or grouping) get the same tags — which is
       the situation of two branches / clones running the same DDL.
   (3) Tags are pairwise distinct within a root.
   (4) deserialize (serialize s) = s, field by field. *)
From Coq Require Import NArith List Bool.
From Dolt Require Import Base.Str C37.Model.
Import ListNotations.
Local Open Scope N_scope.

Definition same_set (a b : list N) : Prop := forall x, mem x a = mem x b.

Fixpoint distinct (l : list N) : bool :=
  match l with [] => true | x :: r => negb (mem x r) && distinct r end.

(* ---- field-by-field equality of schemas ---- *)
Fixpoint list_eqb {A} (eqb : A -> A -> bool) (a b : list A) : bool :=
  match a, b with
  | [], [] => true
  | x :: a', y :: b' => eqb x y && list_eqb eqb a' b'
  | _, _ => false
  end.

Definition scol_eqb (a b : scol) : bool :=
  beq_bytes (sc_name a) (sc_name b) && (sc_tag a =? sc_tag b) && beq_bytes (sc_ty a) (sc_ty b)
  && Bool.eqb (sc_nullable a) (sc_nullable b) && Bool.eqb (sc_pk a) (sc_pk b) && Bool.eqb (sc_autoinc a) (sc_autoinc b)
  && beq_bytes (sc_default a) (sc_default b) && beq_bytes (sc_generated a) (sc_generated b)
  && beq_bytes (sc_onupdate a) (sc_onupdate b) && Bool.eqb (sc_virtual a) (sc_virtual b)
  && beq_bytes (sc_comment a) (sc_comment b) && Bool.eqb (sc_hidden a) (sc_hidden b).

Definition sindex_eqb (a b : sindex) : bool :=
  beq_bytes (ix_name a) (ix_name b) && list_eqb N.eqb (ix_tags a) (ix_tags b) && Bool.eqb (ix_unique a) (ix_unique b)
  && beq_bytes (ix_comment a) (ix_comment b) && list_eqb N.eqb (ix_prefix a) (ix_prefix b) && (ix_flags a =? ix_flags b).

Definition scheck_eqb (a b : scheck) : bool :=
  beq_bytes (ck_name a) (ck_name b) && beq_bytes (ck_expr a) (ck_expr b) && Bool.eqb (ck_enforced a) (ck_enforced b).

Definition sschema_eqb (a b : sschema) : bool :=
  list_eqb scol_eqb (s_cols a) (s_cols b) && list_eqb Nat.eqb (s_pk_ord a) (s_pk_ord b)
  && list_eqb sindex_eqb (s_indexes a) (s_indexes b) && list_eqb scheck_eqb (s_checks a) (s_checks b)
  && (s_collation a =? s_collation b) && beq_bytes (s_comment a) (s_comment b) && (s_rowsize a =? s_rowsize b).

(* ---- what a schema must satisfy for the serialized form to determine it (each clause names the code that needs it) ---- *)
Section WF.
  Variable type_string : bytes -> bytes.
  Variable parse_type : bytes -> option bytes.

  Definition wf_col (c : scol) : Prop :=
    (sc_default c = [] \/ sc_generated c = [])              (* one default_value field carries both, told apart by the generated flag *)
    /\ (sc_pk c = true -> sc_nullable c = false)            (* constraintsFromSerialColumn: a primary-key column is NOT NULL *)
    /\ parse_type (type_string (sc_ty c)) = Some (sc_ty c). (* the type string parses back to the same type *)

  Definition wf_schema (s : sschema) : Prop :=
    (forall c, In c (s_cols s) -> wf_col c)
    /\ (keyless s = true -> s_pk_ord s = [])                (* no primary-key columns: no key ordinals *)
    /\ (keyless s = false ->                                (* a keyed table does not end in columns that look like the keyless markers *)
        keyless_serial {| fs_cols := map (ser_col type_string) (s_cols s); fs_key_cols := []; fs_indexes := []; fs_checks := [];
                          fs_collation := 0; fs_comment := None; fs_rowsize := 0 |} = false)
    /\ (forall ix t, In ix (s_indexes s) -> In t (ix_tags ix) -> In t (map sc_tag (s_cols s))).  (* indexes are over columns of the table *)
End WF.
