(* C37 — proofs. *)
From Coq Require Import NArith List Bool Lia PeanoNat.
From Dolt Require Import Base.Str Gen.C37Consts C37.Model C37.Spec.
Import ListNotations.
Local Open Scope N_scope.

(* ---- the hand-written constant is what the source says now ---- *)
Lemma reserved_tag_min_pinned : reserved_tag_min = go_reserved_tag_min.
Proof. reflexivity. Qed.

Lemma mem_true_iff x l : mem x l = true <-> In x l.
Proof.
  unfold mem. rewrite existsb_exists. split.
  - intros [y [Hy He]]. apply N.eqb_eq in He. subst y. exact Hy.
  - intros H. exists x. split; [exact H | apply N.eqb_refl].
Qed.

Lemma mem_false_iff x l : mem x l = false <-> ~ In x l.
Proof.
  rewrite <- mem_true_iff. destruct (mem x l); split; intro H.
  - discriminate.
  - exfalso. apply H. reflexivity.
  - intro H'. discriminate.
  - reflexivity.
Qed.

Lemma same_set_refl a : same_set a a.
Proof. intro x. reflexivity. Qed.

Lemma same_set_cons t a b : same_set a b -> same_set (t :: a) (t :: b).
Proof. intros H x. unfold mem. cbn [existsb]. f_equal. apply H. Qed.

Lemma mem_app x a b : mem x (a ++ b) = mem x a || mem x b.
Proof. unfold mem. apply existsb_app. Qed.

Lemma same_set_app_l p a b : same_set a b -> same_set (p ++ a) (p ++ b).
Proof. intros H x. rewrite !mem_app. f_equal. apply H. Qed.

Lemma distinct_count_same_set a b : same_set a b -> distinct_count a = distinct_count b.
Proof.
  intros H. unfold distinct_count. f_equal.
  assert (Hincl : forall u v, same_set u v -> incl (nodup N.eq_dec u) (nodup N.eq_dec v)).
  { intros u v Huv x Hx. apply nodup_In in Hx. apply nodup_In.
    apply mem_true_iff. rewrite <- (Huv x). apply mem_true_iff. exact Hx. }
  apply Nat.le_antisymm; apply NoDup_incl_length; try apply NoDup_nodup; apply Hincl.
  - exact H.
  - intro x. symmetry. apply H.
Qed.

Lemma draw_fresh : forall fuel i f ex x, draw fuel i f ex = Some x -> mem x ex = false.
Proof.
  induction fuel as [|fuel IH]; intros i f ex x H; cbn [draw] in H.
  - discriminate.
  - destruct (mem (f i) ex) eqn:Hm.
    + eapply IH. exact H.
    + injection H as <-. exact Hm.
Qed.

Lemma draw_is_drawn : forall fuel i f ex x, draw fuel i f ex = Some x -> exists j, x = f j.
Proof.
  induction fuel as [|fuel IH]; intros i f ex x H; cbn [draw] in H.
  - discriminate.
  - destruct (mem (f i) ex) eqn:Hm.
    + eapply IH. exact H.
    + injection H as <-. exists i. reflexivity.
Qed.

Lemma draw_same_set : forall fuel i f a b, same_set a b -> draw fuel i f a = draw fuel i f b.
Proof.
  induction fuel as [|fuel IH]; intros i f a b H; cbn [draw].
  - reflexivity.
  - rewrite (H (f i)). destruct (mem (f i) b).
    + apply IH. exact H.
    + reflexivity.
Qed.

Lemma max_tag_loop_unfold fuel m size :
  max_tag_loop (S fuel) m size =
  if m / 2 <? size then if reserved_tag_min - 1 <=? m then None else max_tag_loop fuel (m * 128) size else Some m.
Proof. reflexivity. Qed.

(* fewer than 8192 distinct tags in the root (every generated case): the bound is 128*128 *)
Lemma max_tag_small size : size <= 8192 -> max_tag size = Some 16384.
Proof.
  intros H. unfold max_tag. rewrite max_tag_loop_unfold.
  change (16384 / 2) with 8192.
  destruct (8192 <? size) eqn:E.
  - apply N.ltb_lt in E. lia.
  - reflexivity.
Qed.

Example max_tag_grows : max_tag 8193 = Some 2097152 /\ max_tag 1048577 = Some 268435456.
Proof. vm_compute. split; reflexivity. Qed.

(* The growth loop can leave the user range: with more than 2^48 tags the bound becomes 2^56 > ReservedTagMin
   (unreachable in practice; recorded because "tag below the reserved range" is only true up to that size). *)
Example max_tag_overshoots_reserved : max_tag 281474976710657 = Some 72057594037927936 /\ reserved_tag_min < 72057594037927936.
Proof. vm_compute. split; reflexivity. Qed.

Section TagProofs.
  Variable rand_seq : bytes -> bytes -> list N -> N -> N -> nat -> N.

  (* The generated tag is never among the existing tags — for every existing tag set, seed and random source. *)
  Theorem tag_fresh : forall fuel ex t ks c k x,
    auto_tag rand_seq fuel ex t ks c k = Some x -> ~ In x ex.
  Proof.
    intros fuel ex t ks c k x H. unfold auto_tag in H.
    destruct (max_tag (distinct_count ex)) as [m|]; [|discriminate].
    apply draw_fresh in H. apply mem_false_iff. exact H.
  Qed.

  (* Int63n(bound) < bound: the tag is below the bound chosen for the size of the root; with fewer than 8192 tags that is 16384,
     far below ReservedTagMin. *)
  Theorem tag_below_reserved :
    (forall t c ks k m i, rand_seq t c ks k m i < m) ->
    forall fuel ex t ks c k x,
      auto_tag rand_seq fuel ex t ks c k = Some x ->
      (exists m, max_tag (distinct_count ex) = Some m /\ x < m)
      /\ (distinct_count ex <= 8192 -> x < 16384 /\ x < reserved_tag_min).
  Proof.
    intros Hb fuel ex t ks c k x H. unfold auto_tag in H.
    destruct (max_tag (distinct_count ex)) as [m|] eqn:Hm; [|discriminate].
    apply draw_is_drawn in H. destruct H as [j ->].
    split.
    - exists m. split; [reflexivity | apply Hb].
    - intros Hs. rewrite (max_tag_small _ Hs) in Hm. injection Hm as <-.
      pose proof (Hb (simple_string t) (simple_string c) ks k 16384 j) as Hj.
      split; [exact Hj |]. unfold reserved_tag_min. lia.
  Qed.

  (* the existing tags matter only as a set (TagMapping is a map) *)
  Theorem auto_tag_same_set : forall fuel a b t ks c k,
    same_set a b -> auto_tag rand_seq fuel a t ks c k = auto_tag rand_seq fuel b t ks c k.
  Proof.
    intros fuel a b t ks c k H. unfold auto_tag.
    rewrite (distinct_count_same_set a b H).
    destruct (max_tag (distinct_count b)); [|reflexivity].
    apply draw_same_set. exact H.
  Qed.

  (* names matter only through simpleString: `My Table` and my_table, C0 and c0 draw the same tags *)
  Theorem tag_simple_names : forall fuel ex t1 t2 c1 c2 ks k,
    simple_string t1 = simple_string t2 -> simple_string c1 = simple_string c2 ->
    auto_tag rand_seq fuel ex t1 ks c1 k = auto_tag rand_seq fuel ex t2 ks c2 k.
  Proof. intros fuel ex t1 t2 c1 c2 ks k Ht Hc. unfold auto_tag. rewrite Ht, Hc. reflexivity. Qed.

  Lemma gen_loop_same_set : forall fuel ecols t news ekinds a b,
    same_set a b -> gen_loop rand_seq fuel ecols t news ekinds a = gen_loop rand_seq fuel ecols t news ekinds b.
  Proof.
    intros fuel ecols t news. induction news as [|[n k] rest IH]; intros ekinds a b H; cbn [gen_loop].
    - reflexivity.
    - destruct (reuse ecols n k) as [r|].
      + rewrite (IH ekinds a b H). reflexivity.
      + rewrite (auto_tag_same_set fuel a b t ekinds n k H).
        destruct (auto_tag rand_seq fuel b t ekinds n k) as [x|]; [|reflexivity].
        rewrite (IH (ekinds ++ [k]) (x :: a) (x :: b) (same_set_cons x a b H)). reflexivity.
  Qed.

  Lemma gen_tags_same_set fuel ecols a b t news :
    same_set a b -> gen_tags rand_seq fuel ecols a t news = gen_tags rand_seq fuel ecols b t news.
  Proof. intros H. unfold gen_tags. apply gen_loop_same_set. exact H. Qed.

  Definition sim (s1 s2 : st) : Prop := head s1 = head s2 /\ work s1 = work s2 /\ same_set (other s1) (other s2).

  Lemma step_sim : forall fuel s1 s2 d, sim s1 s2 ->
    match step rand_seq fuel s1 d, step rand_seq fuel s2 d with
    | Some a, Some b => sim a b
    | None, None => True
    | _, _ => False
    end.
  Proof.
    intros fuel [h1 w1 o1] [h2 w2 o2] d [Hh [Hw Ho]]. cbn [head work other] in Hh, Hw, Ho. subst h2 w2.
    assert (Hsim : sim {| head := h1; work := w1; other := o1 |} {| head := h1; work := w1; other := o2 |}).
    { repeat split. exact Ho. }
    destruct d as [t news | t c k pos | t c | t | t a b | t c k | ]; unfold step; cbn [head work other].
    - destruct (lookup t w1) as [cs|]; [exact Hsim|].
      rewrite (gen_tags_same_set fuel _ (root_tags h1 ++ root_tags w1 ++ o1) (root_tags h1 ++ root_tags w1 ++ o2) t news).
      2:{ apply same_set_app_l. apply same_set_app_l. exact Ho. }
      destruct (gen_tags rand_seq fuel _ (root_tags h1 ++ root_tags w1 ++ o2) t news) as [tags|]; [|exact I].
      repeat split. exact Ho.
    - destruct (lookup t w1) as [cs|]; [|exact Hsim].
      destruct (has_col cs c); [exact Hsim|].
      rewrite (gen_tags_same_set fuel cs (root_tags w1 ++ o1) (root_tags w1 ++ o2) t [(c, k)]).
      2:{ apply same_set_app_l. exact Ho. }
      destruct (gen_tags rand_seq fuel cs (root_tags w1 ++ o2) t [(c, k)]) as [[|tag [|? ?]]|]; try exact I.
      repeat split. exact Ho.
    - destruct (lookup t w1) as [cs|]; [|exact Hsim]. repeat split. exact Ho.
    - repeat split. exact Ho.
    - destruct (lookup t w1) as [cs|]; [|exact Hsim]. destruct (has_col cs b); [exact Hsim|]. repeat split. exact Ho.
    - destruct (lookup t w1) as [cs|]; [|exact Hsim]. repeat split. exact Ho.
    - repeat split. exact Ho.
  Qed.

  Lemma run_sim : forall fuel ds s1 s2, sim s1 s2 ->
    match run rand_seq fuel s1 ds, run rand_seq fuel s2 ds with
    | Some a, Some b => sim a b
    | None, None => True
    | _, _ => False
    end.
  Proof.
    intros fuel ds. induction ds as [|d ds IH]; intros s1 s2 H; cbn [run].
    - exact H.
    - pose proof (step_sim fuel s1 s2 d H) as Hs.
      destruct (step rand_seq fuel s1 d) as [a|], (step rand_seq fuel s2 d) as [b|]; try contradiction.
      + apply IH. exact Hs.
      + exact I.
  Qed.

  (* Two roots (two branches, two clones) that agree on the tables the DDL touches and whose other tables carry the same SET of
     tags — in any order, grouping or multiplicity — get, from the same DDL sequence, the same tables with the same tags
     (and the run exhausts its fuel on one iff it does on the other).  Nothing else enters: no clock, no map order, no history. *)
  Theorem same_ddl_same_tags : forall fuel ds h w o1 o2 s1,
    same_set o1 o2 ->
    run rand_seq fuel {| head := h; work := w; other := o1 |} ds = Some s1 ->
    exists s2, run rand_seq fuel {| head := h; work := w; other := o2 |} ds = Some s2
               /\ head s2 = head s1 /\ work s2 = work s1.
  Proof.
    intros fuel ds h w o1 o2 s1 Ho Hr.
    pose proof (run_sim fuel ds {| head := h; work := w; other := o1 |} {| head := h; work := w; other := o2 |}) as H.
    rewrite Hr in H.
    destruct (run rand_seq fuel {| head := h; work := w; other := o2 |} ds) as [s2|].
    - exists s2. destruct H as [Hh [Hw _]]; [repeat split; assumption|]. repeat split; congruence.
    - exfalso. apply H. repeat split; assumption.
  Qed.

  (* ---- pairwise distinctness ---- *)
  Lemma gen_loop_fresh : forall fuel t news ekinds etags tags,
    gen_loop rand_seq fuel [] t news ekinds etags = Some tags ->
    NoDup tags /\ (forall x, In x tags -> ~ In x etags).
  Proof.
    intros fuel t news. induction news as [|[n k] rest IH]; intros ekinds etags tags H; cbn [gen_loop] in H.
    - injection H as <-. split; [constructor | intros x []].
    - unfold reuse in H. cbn [find option_map] in H.
      destruct (auto_tag rand_seq fuel etags t ekinds n k) as [x|] eqn:Hx; [|discriminate].
      destruct (gen_loop rand_seq fuel [] t rest (ekinds ++ [k]) (x :: etags)) as [r|] eqn:Hr; [|discriminate].
      cbn [option_map] in H. injection H as <-.
      destruct (IH _ _ _ Hr) as [Hnd Hfr].
      split.
      + constructor; [|exact Hnd]. intro Hin. apply (Hfr x Hin). left. reflexivity.
      + intros y [<-|Hy].
        * eapply tag_fresh. exact Hx.
        * intro Hin. apply (Hfr y Hy). right. exact Hin.
  Qed.

  (* Full statement (NOT provable, see tags_distinct_refuted): for every DDL sequence from the empty root the tags of the working
     root are pairwise distinct.  Proved part: a CREATE TABLE of a table that HEAD does not have assigns pairwise distinct tags,
     none of which occurs in HEAD, in the working root or in the rest of the root; an ADD COLUMN assigns a tag that occurs nowhere
     in the working root.  Missing: the book-keeping that carries NoDup through set_table for whole runs, and — essentially —
     the case of a table re-created while HEAD still has it, where the statement is false. *)
  Theorem tags_distinct_partial : forall fuel s t news s',
    lookup t (work s) = None -> lookup t (head s) = None ->
    step rand_seq fuel s (Create t news) = Some s' ->
    exists tags, work s' = set_table t (mk_cols news tags) (work s)
                 /\ NoDup tags
                 /\ forall x, In x tags -> ~ In x (root_tags (head s) ++ root_tags (work s) ++ other s).
  Proof.
    intros fuel s t news s' Hw Hh H. unfold step in H. rewrite Hw, Hh in H.
    destruct (gen_tags rand_seq fuel [] _ t news) as [tags|] eqn:Hg; [|discriminate].
    injection H as <-. exists tags. cbn [work]. split; [reflexivity|].
    unfold gen_tags in Hg. cbn [map] in Hg. apply gen_loop_fresh in Hg. exact Hg.
  Qed.

  Theorem addcol_tag_fresh : forall fuel s t c k pos cs s',
    lookup t (work s) = Some cs -> has_col cs c = false ->
    step rand_seq fuel s (AddCol t c k pos) = Some s' ->
    exists tag, work s' = set_table t (insert_at pos {| c_name := c; c_kind := k; c_tag := tag |} cs) (work s)
                /\ ~ In tag (root_tags (work s) ++ other s).
  Proof.
    intros fuel s t c k pos cs s' Hl Hc H. unfold step in H. rewrite Hl, Hc in H.
    unfold gen_tags in H. cbn [gen_loop] in H.
    assert (Hre : reuse cs c k = None).
    { unfold reuse. destruct (find _ cs) as [x|] eqn:Hf; [|reflexivity].
      apply find_some in Hf. destruct Hf as [Hin Hx]. apply andb_prop in Hx. destruct Hx as [Hx _].
      unfold has_col in Hc. assert (existsb (fun c0 => eq_fold c (c_name c0)) cs = true) as Hex.
      { apply existsb_exists. exists x. split; assumption. }
      congruence. }
    rewrite Hre in H.
    destruct (auto_tag rand_seq fuel (root_tags (work s) ++ other s) t (map c_kind cs) c k) as [tag|] eqn:Ht; [|discriminate].
    cbn [option_map] in H. injection H as <-. exists tag. cbn [work]. split; [reflexivity|].
    eapply tag_fresh. exact Ht.
  Qed.
End TagProofs.

(* Refutation of "tags are pairwise distinct within a root" for the faithful model: ADD COLUMN looks at the working root only
   (headRoot = nil in AlterableDoltTable.AddColumn) while CREATE TABLE re-uses the tags HEAD has for a dropped table:
     create t(a); create v(p); commit; drop table t; alter table v add column x; create table t(a)
   with a random source whose first draw for (v, [kind p], x) equals the tag of t.a. *)
Definition refute_rand (t c : bytes) (ks : list N) (k : N) (m : N) (i : nat) : N :=
  match t, c with
  | [116], [97] => 5 + N.of_nat i          (* t.a : 5 *)
  | [118], [112] => 9 + N.of_nat i         (* v.p : 9 *)
  | [118], [120] => 5 + N.of_nat i         (* v.x : 5 again *)
  | _, _ => 100 + N.of_nat i
  end.
Definition refute_ddl : list ddl :=
  [Create [116] [([97], 15)]; Create [118] [([112], 15)]; Commit; DropTable [116]; AddCol [118] [120] 15 1%nat; Create [116] [([97], 15)]].

Theorem tags_distinct_refuted :
  exists rand_seq ds s, run rand_seq 8 {| head := []; work := []; other := [] |} ds = Some s /\ distinct (root_tags (work s)) = false.
Proof.
  exists refute_rand, refute_ddl.
  eexists. split; [vm_compute; reflexivity | vm_compute; reflexivity].
Qed.

(* ------------------------------------------------------------------ *)
(* field-by-field equality decides equality                            *)
(* ------------------------------------------------------------------ *)
Lemma list_eqb_eq {A} (eqb : A -> A -> bool) :
  (forall x y, eqb x y = true -> x = y) -> forall a b, list_eqb eqb a b = true -> a = b.
Proof.
  intros He. induction a as [|x a IH]; destruct b as [|y b]; cbn [list_eqb]; intros H; try discriminate; try reflexivity.
  apply andb_prop in H. destruct H as [H1 H2]. f_equal; [apply He; exact H1 | apply IH; exact H2].
Qed.

Lemma list_eqb_refl {A} (eqb : A -> A -> bool) : (forall x, eqb x x = true) -> forall a, list_eqb eqb a a = true.
Proof. intros He. induction a as [|x a IH]; cbn [list_eqb]; [reflexivity | rewrite He, IH; reflexivity]. Qed.

Lemma beq_bytes_eq a b : beq_bytes a b = true -> a = b.
Proof. apply beq_bytes_spec. Qed.

Lemma Neqb_eq a b : (a =? b) = true -> a = b.
Proof. apply N.eqb_eq. Qed.

Ltac split_andb H :=
  repeat match type of H with
         | (_ && _) = true => let H2 := fresh "E" in apply andb_prop in H; destruct H as [H H2]
         end.

Lemma scol_eqb_eq a b : scol_eqb a b = true -> a = b.
Proof.
  destruct a as [a1 a2 a3 a4 a5 a6 a7 a8 a9 a10 a11 a12], b as [b1 b2 b3 b4 b5 b6 b7 b8 b9 b10 b11 b12]. unfold scol_eqb.
  cbn [sc_name sc_tag sc_ty sc_nullable sc_pk sc_autoinc sc_default sc_generated sc_onupdate sc_virtual sc_comment sc_hidden].
  intros H. split_andb H.
  repeat match goal with
         | H : beq_bytes _ _ = true |- _ => apply beq_bytes_eq in H
         | H : (_ =? _) = true |- _ => apply Neqb_eq in H
         | H : Bool.eqb _ _ = true |- _ => apply Bool.eqb_prop in H
         end.
  subst. reflexivity.
Qed.

Lemma sindex_eqb_eq a b : sindex_eqb a b = true -> a = b.
Proof.
  destruct a as [a1 a2 a3 a4 a5 a6], b as [b1 b2 b3 b4 b5 b6]. unfold sindex_eqb. cbn [ix_name ix_tags ix_unique ix_comment ix_prefix ix_flags].
  intros H. split_andb H.
  repeat match goal with
         | H : beq_bytes _ _ = true |- _ => apply beq_bytes_eq in H
         | H : list_eqb N.eqb _ _ = true |- _ => apply (list_eqb_eq N.eqb Neqb_eq) in H
         | H : (_ =? _) = true |- _ => apply Neqb_eq in H
         | H : Bool.eqb _ _ = true |- _ => apply Bool.eqb_prop in H
         end.
  subst. reflexivity.
Qed.

Lemma scheck_eqb_eq a b : scheck_eqb a b = true -> a = b.
Proof.
  destruct a as [a1 a2 a3], b as [b1 b2 b3]. unfold scheck_eqb. cbn [ck_name ck_expr ck_enforced].
  intros H. split_andb H.
  repeat match goal with
         | H : beq_bytes _ _ = true |- _ => apply beq_bytes_eq in H
         | H : Bool.eqb _ _ = true |- _ => apply Bool.eqb_prop in H
         end.
  subst. reflexivity.
Qed.

(* the oracle's comparison is sound and complete: true exactly when every modelled field is preserved *)
Theorem sschema_eqb_eq : forall a b, sschema_eqb a b = true <-> a = b.
Proof.
  intros a b. split.
  - destruct a as [a1 a2 a3 a4 a5 a6 a7], b as [b1 b2 b3 b4 b5 b6 b7]. unfold sschema_eqb. cbn [s_cols s_pk_ord s_indexes s_checks s_collation s_comment s_rowsize].
    intros H. split_andb H.
    apply (list_eqb_eq scol_eqb scol_eqb_eq) in H.
    match goal with E : list_eqb Nat.eqb _ _ = true |- _ => apply (list_eqb_eq Nat.eqb (fun x y => proj1 (Nat.eqb_eq x y))) in E end.
    match goal with E : list_eqb sindex_eqb _ _ = true |- _ => apply (list_eqb_eq sindex_eqb sindex_eqb_eq) in E end.
    match goal with E : list_eqb scheck_eqb _ _ = true |- _ => apply (list_eqb_eq scheck_eqb scheck_eqb_eq) in E end.
    repeat match goal with
           | H : beq_bytes _ _ = true |- _ => apply beq_bytes_eq in H
           | H : (_ =? _) = true |- _ => apply Neqb_eq in H
           end.
    subst. reflexivity.
  - intros <-. unfold sschema_eqb.
    assert (Hc : forall x, scol_eqb x x = true).
    { intros x. unfold scol_eqb. rewrite !beq_bytes_refl, !N.eqb_refl, !Bool.eqb_reflx. reflexivity. }
    assert (Hi : forall x, sindex_eqb x x = true).
    { intros x. unfold sindex_eqb. rewrite !beq_bytes_refl, !N.eqb_refl, !Bool.eqb_reflx, !(list_eqb_refl N.eqb N.eqb_refl). reflexivity. }
    assert (Hk : forall x, scheck_eqb x x = true).
    { intros x. unfold scheck_eqb. rewrite !beq_bytes_refl, !Bool.eqb_reflx. reflexivity. }
    rewrite (list_eqb_refl _ Hc), (list_eqb_refl _ Hi), (list_eqb_refl _ Hk), (list_eqb_refl Nat.eqb Nat.eqb_refl),
      !N.eqb_refl, beq_bytes_refl. reflexivity.
Qed.

(* ------------------------------------------------------------------ *)
(* round trip                                                          *)
(* ------------------------------------------------------------------ *)
Section RoundTrip.
  Variable type_string : bytes -> bytes.
  Variable parse_type : bytes -> option bytes.

  Lemma de_ser_col c : wf_col type_string parse_type c -> de_col parse_type (ser_col type_string c) = Some c.
  Proof.
    intros [Hdg [Hpk Hty]]. destruct c as [n tg ty nu pk ai df gn ou vi cm hd].
    cbn [sc_default sc_generated sc_pk sc_nullable sc_ty] in Hdg, Hpk, Hty.
    unfold de_col, ser_col.
    cbn [f_sqltype f_name f_tag f_nullable f_pk f_autoinc f_generated f_default f_onupdate f_virtual f_comment f_hidden
         sc_name sc_tag sc_ty sc_nullable sc_pk sc_autoinc sc_default sc_generated sc_onupdate sc_virtual sc_comment sc_hidden].
    rewrite Hty.
    assert (Hn : nu && negb pk = nu).
    { destruct pk; [rewrite (Hpk eq_refl); reflexivity | apply andb_true_r]. }
    rewrite Hn.
    assert (Hou : match (if is_nil ou then None else Some ou) with Some u => u | None => [] end = ou).
    { destruct ou; reflexivity. }
    rewrite Hou.
    destruct Hdg as [-> | ->].
    - destruct gn; reflexivity.
    - destruct df; reflexivity.
  Qed.

  Lemma map_opt_de_ser cols :
    (forall c, In c cols -> wf_col type_string parse_type c) ->
    map_opt (de_col parse_type) (map (ser_col type_string) cols) = Some cols.
  Proof.
    induction cols as [|c cols IH]; intros H; cbn [map map_opt].
    - reflexivity.
    - rewrite (de_ser_col c (H c (or_introl eq_refl))), IH; [reflexivity|].
      intros x Hx. apply H. right. exact Hx.
  Qed.

  Lemma tag_pos_nth : forall (tags : list N) t i, tag_pos t tags = Some i -> nth_error tags i = Some t.
  Proof.
    induction tags as [|x r IH]; intros t i H; cbn [tag_pos] in H.
    - discriminate.
    - destruct (x =? t) eqn:E.
      + injection H as <-. apply N.eqb_eq in E. subst. reflexivity.
      + destruct (tag_pos t r) as [j|] eqn:Hj; [|discriminate]. cbn [option_map] in H. injection H as <-.
        cbn [nth_error]. apply IH. exact Hj.
  Qed.

  Lemma tag_pos_in : forall (tags : list N) t, In t tags -> exists i, tag_pos t tags = Some i.
  Proof.
    induction tags as [|x r IH]; intros t H; [destruct H|]. cbn [tag_pos].
    destruct (x =? t) eqn:E; [exists O; reflexivity|].
    destruct H as [->|H]; [rewrite N.eqb_refl in E; discriminate|].
    destruct (IH t H) as [i Hi]. rewrite Hi. exists (S i). reflexivity.
  Qed.

  (* position written by the serializer -> tag read by the deserializer at that position *)
  Lemma pos_roundtrip cols extra t :
    In t (map sc_tag cols) ->
    f_tag (nth (tag_to_idx (map sc_tag cols) t) (map (ser_col type_string) cols ++ extra) dummy_fcol) = t.
  Proof.
    intros Hin. destruct (tag_pos_in _ _ Hin) as [i Hi]. unfold tag_to_idx. rewrite Hi.
    apply tag_pos_nth in Hi.
    assert (Hlt : (i < List.length cols)%nat).
    { rewrite <- (map_length sc_tag). apply nth_error_Some. congruence. }
    rewrite app_nth1 by (rewrite map_length; exact Hlt).
    rewrite nth_error_map in Hi. destruct (nth_error cols i) as [c|] eqn:Hc; [|discriminate].
    cbn [option_map] in Hi. injection Hi as Hi.
    rewrite (nth_indep _ dummy_fcol (ser_col type_string c)) by (rewrite map_length; exact Hlt).
    rewrite map_nth. rewrite (nth_error_nth _ _ _ Hc). cbn [ser_col f_tag]. exact Hi.
  Qed.

  Lemma de_ser_index s ix :
    (forall t, In t (ix_tags ix) -> In t (map sc_tag (s_cols s))) ->
    de_index (serialize type_string s) (ser_index (map sc_tag (s_cols s)) ix) = ix.
  Proof.
    intros H. destruct ix as [n tags u cm pf fl]. unfold de_index, ser_index.
    cbn [fi_name fi_cols fi_unique fi_comment fi_prefix fi_flags ix_name ix_tags ix_unique ix_comment ix_prefix ix_flags] in *.
    f_equal. rewrite map_map. unfold serialize. cbn [fs_cols].
    induction tags as [|t tags IH]; cbn [map]; [reflexivity|].
    rewrite pos_roundtrip by (apply H; left; reflexivity).
    f_equal. apply IH. intros x Hx. apply H. right. exact Hx.
  Qed.

  (* Storing and reloading preserves every modelled field: for every well-formed schema, whatever the columns, types,
     defaults, generated / on-update expressions, comments, key order, indexes, checks, collation. *)
  Theorem schema_roundtrip : forall s,
    wf_schema type_string parse_type s ->
    deserialize parse_type (serialize type_string s) = Some s.
  Proof.
    intros s [Hcols [Hkl [Hnk Hix]]].
    unfold deserialize.
    assert (Hidx : map (de_index (serialize type_string s)) (fs_indexes (serialize type_string s)) = s_indexes s).
    { unfold serialize at 2. cbn [fs_indexes]. rewrite map_map.
      assert (Hall : forall l, (forall ix, In ix l -> In ix (s_indexes s)) ->
                     map (fun x => de_index (serialize type_string s) (ser_index (map sc_tag (s_cols s)) x)) l = l).
      { induction l as [|ix l IH]; intros Hl; cbn [map]; [reflexivity|].
        rewrite de_ser_index by (intros t Ht; apply (Hix ix t); [apply Hl; left; reflexivity | exact Ht]).
        f_equal. apply IH. intros x Hx. apply Hl. right. exact Hx. }
      apply Hall. intros ix H. exact H. }
    rewrite Hidx. clear Hidx.
    destruct (keyless s) eqn:Ek.
    - (* keyless: marker columns appended, recognised and stripped *)
      assert (Hks : keyless_serial (serialize type_string s) = true).
      { unfold keyless_serial, serialize. cbn [fs_cols]. rewrite Ek. rewrite rev_app_distr. cbn [rev app].
        unfold hidden_col. cbn [f_generated f_hidden f_name]. rewrite !beq_bytes_refl. reflexivity. }
      rewrite Hks.
      assert (Hstrip : rev (tl (tl (rev (fs_cols (serialize type_string s))))) = map (ser_col type_string) (s_cols s)).
      { unfold serialize. cbn [fs_cols]. rewrite Ek. rewrite rev_app_distr. cbn [rev app tl]. apply rev_involutive. }
      rewrite Hstrip, (map_opt_de_ser _ Hcols).
      destruct s as [cols pk ixs cks coll cm rs]. unfold serialize. cbn [fs_checks fs_collation fs_comment fs_rowsize s_cols s_pk_ord s_indexes s_checks s_collation s_comment s_rowsize] in *.
      rewrite (Hkl eq_refl). destruct cm; reflexivity.
    - assert (Hks : keyless_serial (serialize type_string s) = false).
      { specialize (Hnk eq_refl). unfold keyless_serial in *. unfold serialize. cbn [fs_cols] in *. rewrite Ek, app_nil_r. exact Hnk. }
      rewrite Hks.
      assert (Hfc : fs_cols (serialize type_string s) = map (ser_col type_string) (s_cols s)).
      { unfold serialize. cbn [fs_cols]. rewrite Ek. apply app_nil_r. }
      rewrite Hfc, (map_opt_de_ser _ Hcols).
      destruct s as [cols pk ixs cks coll cm rs]. unfold serialize. cbn [fs_key_cols fs_checks fs_collation fs_comment fs_rowsize s_cols s_pk_ord s_indexes s_checks s_collation s_comment s_rowsize] in *.
      rewrite Ek. destruct cm; reflexivity.
  Qed.
End RoundTrip.

(* the hypotheses are satisfiable: a keyed and a keyless schema with an index, a default and a generated column *)
Definition ex_col (n : bytes) (tag : N) (pk : bool) (df gn : bytes) : scol :=
  {| sc_name := n; sc_tag := tag; sc_ty := [105]; sc_nullable := negb pk; sc_pk := pk; sc_autoinc := false;
     sc_default := df; sc_generated := gn; sc_onupdate := []; sc_virtual := false; sc_comment := [104]; sc_hidden := false |}.
Definition ex_schema (pk : bool) : sschema :=
  {| s_cols := [ex_col [97] 7 pk [] []; ex_col [98] 9 false [49] []; ex_col [99] 3 false [] [97; 43; 49]];
     s_pk_ord := if pk then [0%nat] else []; s_indexes := [{| ix_name := [105]; ix_tags := [3; 7]; ix_unique := true; ix_comment := []; ix_prefix := []; ix_flags := 1 |}];
     s_checks := [{| ck_name := [107]; ck_expr := [97]; ck_enforced := true |}]; s_collation := 46; s_comment := [116]; s_rowsize := 2048 |}.

Example roundtrip_nonvacuous :
  deserialize (fun x => Some x) (serialize (fun x => x) (ex_schema true)) = Some (ex_schema true)
  /\ deserialize (fun x => Some x) (serialize (fun x => x) (ex_schema false)) = Some (ex_schema false).
Proof. split; vm_compute; reflexivity. Qed.

(* a column that carries both a default and a generated expression does not survive (one field, one flag): why wf_col asks for one of them to be empty *)
Example roundtrip_needs_wf :
  deserialize (fun x => Some x) (serialize (fun x => x)
    {| s_cols := [ex_col [97] 7 false [49] [50]]; s_pk_ord := []; s_indexes := []; s_checks := []; s_collation := 0; s_comment := []; s_rowsize := 0 |})
  <> Some {| s_cols := [ex_col [97] 7 false [49] [50]]; s_pk_ord := []; s_indexes := []; s_checks := []; s_collation := 0; s_comment := []; s_rowsize := 0 |}.
Proof. vm_compute. intro H. discriminate H. Qed.
