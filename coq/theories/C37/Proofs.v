(* C37 — proofs. *)
From Coq Require Import NArith List Bool Lia PeanoNat.
From Dolt Require Import Base.Str Gen.C37Consts C37.Model C37.Spec C37.Corr.
Import ListNotations.
Local Open Scope N_scope.

(* ---- the hand-written constant is what the source says now ---- *)
Lemma reserved_tag_min_pinned : reserved_tag_min = go_reserved_tag_min.
Proof. reflexivity. Qed.

Lemma mem_true_iff x l : mem x l = true <-> In x l.
Proof.
  unfold mem. rewrite existsb_exists. split.
  - intros [y [Hy He]]. apply N.eqb_eq in He. subst y. exact Hy.
  - intros H. exists x. split; [exact H | apply N.eqb_refl].
Qed.

Lemma mem_false_iff x l : mem x l = false <-> ~ In x l.
Proof.
  rewrite <- mem_true_iff. destruct (mem x l); split; intro H.
  - discriminate.
  - exfalso. apply H. reflexivity.
  - intro H'. discriminate.
  - reflexivity.
Qed.

Lemma same_set_refl a : same_set a a.
Proof. intro x. reflexivity. Qed.

Lemma same_set_cons t a b : same_set a b -> same_set (t :: a) (t :: b).
Proof. intros H x. unfold mem. cbn [existsb]. f_equal. apply H. Qed.

Lemma mem_app x a b : mem x (a ++ b) = mem x a || mem x b.
Proof. unfold mem. apply existsb_app. Qed.

Lemma same_set_app_l p a b : same_set a b -> same_set (p ++ a) (p ++ b).
Proof. intros H x. rewrite !mem_app. f_equal. apply H. Qed.

Lemma distinct_count_same_set a b : same_set a b -> distinct_count a = distinct_count b.
Proof.
  intros H. unfold distinct_count. f_equal.
  assert (Hincl : forall u v, same_set u v -> incl (nodup N.eq_dec u) (nodup N.eq_dec v)).
  { intros u v Huv x Hx. apply nodup_In in Hx. apply nodup_In.
    apply mem_true_iff. rewrite <- (Huv x). apply mem_true_iff. exact Hx. }
  apply Nat.le_antisymm; apply NoDup_incl_length; try apply NoDup_nodup; apply Hincl.
  - exact H.
  - intro x. symmetry. apply H.
Qed.

Lemma draw_fresh : forall fuel i f ex x, draw fuel i f ex = Some x -> mem x ex = false.
Proof.
  induction fuel as [|fuel IH]; intros i f ex x H; cbn [draw] in H.
  - discriminate.
  - destruct (mem (f i) ex) eqn:Hm.
    + eapply IH. exact H.
    + injection H as <-. exact Hm.
Qed.

Lemma draw_is_drawn : forall fuel i f ex x, draw fuel i f ex = Some x -> exists j, x = f j.
Proof.
  induction fuel as [|fuel IH]; intros i f ex x H; cbn [draw] in H.
  - discriminate.
  - destruct (mem (f i) ex) eqn:Hm.
    + eapply IH. exact H.
    + injection H as <-. exists i. reflexivity.
Qed.

Lemma draw_same_set : forall fuel i f a b, same_set a b -> draw fuel i f a = draw fuel i f b.
Proof.
  induction fuel as [|fuel IH]; intros i f a b H; cbn [draw].
  - reflexivity.
  - rewrite (H (f i)). destruct (mem (f i) b).
    + apply IH. exact H.
    + reflexivity.
Qed.

Lemma max_tag_loop_unfold fuel m size :
  max_tag_loop (S fuel) m size =
  if m / 2 <? size then if reserved_tag_min - 1 <=? m then None else max_tag_loop fuel (m * 128) size else Some m.
Proof. reflexivity. Qed.

(* fewer than 8192 distinct tags in the root (every generated case): the bound is 128*128 *)
Lemma max_tag_small size : size <= 8192 -> max_tag size = Some 16384.
Proof.
  intros H. unfold max_tag. rewrite max_tag_loop_unfold.
  change (16384 / 2) with 8192.
  destruct (8192 <? size) eqn:E.
  - apply N.ltb_lt in E. lia.
  - reflexivity.
Qed.

Example max_tag_grows : max_tag 8193 = Some 2097152 /\ max_tag 1048577 = Some 268435456.
Proof. vm_compute. split; reflexivity. Qed.

(* The growth loop can leave the user range: with more than 2^48 tags the bound becomes 2^56 > ReservedTagMin
   (unreachable in practice; recorded because "tag below the reserved range" is only true up to that size). *)
Example max_tag_overshoots_reserved : max_tag 281474976710657 = Some 72057594037927936 /\ reserved_tag_min < 72057594037927936.
Proof. vm_compute. split; reflexivity. Qed.

Section TagProofs.
  Variable rand_seq : bytes -> bytes -> list N -> N -> N -> nat -> N.

  (* The generated tag is never among the existing tags — for every existing tag set, seed and random source. *)
  Theorem tag_fresh : forall fuel ex t ks c k x,
    auto_tag rand_seq fuel ex t ks c k = Some x -> ~ In x ex.
  Proof.
    intros fuel ex t ks c k x H. unfold auto_tag in H.
    destruct (max_tag (distinct_count ex)) as [m|]; [|discriminate].
    apply draw_fresh in H. apply mem_false_iff. exact H.
  Qed.

  (* Int63n(bound) < bound: the tag is below the bound chosen for the size of the root; with fewer than 8192 tags that is 16384,
     far below ReservedTagMin. *)
  Theorem tag_below_reserved :
    (forall t c ks k m i, rand_seq t c ks k m i < m) ->
    forall fuel ex t ks c k x,
      auto_tag rand_seq fuel ex t ks c k = Some x ->
      (exists m, max_tag (distinct_count ex) = Some m /\ x < m)
      /\ (distinct_count ex <= 8192 -> x < 16384 /\ x < reserved_tag_min).
  Proof.
    intros Hb fuel ex t ks c k x H. unfold auto_tag in H.
    destruct (max_tag (distinct_count ex)) as [m|] eqn:Hm; [|discriminate].
    apply draw_is_drawn in H. destruct H as [j ->].
    split.
    - exists m. split; [reflexivity | apply Hb].
    - intros Hs. rewrite (max_tag_small _ Hs) in Hm. injection Hm as <-.
      pose proof (Hb (simple_string t) (simple_string c) ks k 16384 j) as Hj.
      split; [exact Hj |]. unfold reserved_tag_min. lia.
  Qed.

  (* the existing tags matter only as a set (TagMapping is a map) *)
  Theorem auto_tag_same_set : forall fuel a b t ks c k,
    same_set a b -> auto_tag rand_seq fuel a t ks c k = auto_tag rand_seq fuel b t ks c k.
  Proof.
    intros fuel a b t ks c k H. unfold auto_tag.
    rewrite (distinct_count_same_set a b H).
    destruct (max_tag (distinct_count b)); [|reflexivity].
    apply draw_same_set. exact H.
  Qed.

  (* names matter only through simpleString: `My Table` and my_table, C0 and c0 draw the same tags *)
  Theorem tag_simple_names : forall fuel ex t1 t2 c1 c2 ks k,
    simple_string t1 = simple_string t2 -> simple_string c1 = simple_string c2 ->
    auto_tag rand_seq fuel ex t1 ks c1 k = auto_tag rand_seq fuel ex t2 ks c2 k.
  Proof. intros fuel ex t1 t2 c1 c2 ks k Ht Hc. unfold auto_tag. rewrite Ht, Hc. reflexivity. Qed.

  Lemma gen_loop_same_set : forall fuel ecols t news ekinds a b,
    same_set a b -> gen_loop rand_seq fuel ecols t news ekinds a = gen_loop rand_seq fuel ecols t news ekinds b.
  Proof.
    intros fuel ecols t news. induction news as [|[n k] rest IH]; intros ekinds a b H; cbn [gen_loop].
    - reflexivity.
    - destruct (reuse ecols n k) as [r|].
      + rewrite (IH ekinds a b H). reflexivity.
      + rewrite (auto_tag_same_set fuel a b t ekinds n k H).
        destruct (auto_tag rand_seq fuel b t ekinds n k) as [x|]; [|reflexivity].
        rewrite (IH (ekinds ++ [k]) (x :: a) (x :: b) (same_set_cons x a b H)). reflexivity.
  Qed.

  Lemma gen_tags_same_set fuel ecols a b t news :
    same_set a b -> gen_tags rand_seq fuel ecols a t news = gen_tags rand_seq fuel ecols b t news.
  Proof. intros H. unfold gen_tags. apply gen_loop_same_set. exact H. Qed.

  Definition sim (s1 s2 : st) : Prop := head s1 = head s2 /\ work s1 = work s2 /\ same_set (other s1) (other s2).

  Lemma step_sim : forall fuel s1 s2 d, sim s1 s2 ->
    match step rand_seq fuel s1 d, step rand_seq fuel s2 d with
    | Some a, Some b => sim a b
    | None, None => True
    | _, _ => False
    end.
  Proof.
    intros fuel [h1 w1 o1] [h2 w2 o2] d [Hh [Hw Ho]]. cbn [head work other] in Hh, Hw, Ho. subst h2 w2.
    assert (Hsim : sim {| head := h1; work := w1; other := o1 |} {| head := h1; work := w1; other := o2 |}).
    { repeat split. exact Ho. }
    destruct d as [t news | t c k pos | t c | t | t a b | t c k | ]; unfold step; cbn [head work other].
    - destruct (negb (names_distinct (map fst news))); [exact Hsim|].
      destruct (lookup t w1) as [cs|]; [exact Hsim|].
      rewrite (gen_tags_same_set fuel _ (root_tags h1 ++ root_tags w1 ++ o1) (root_tags h1 ++ root_tags w1 ++ o2) t news).
      2:{ apply same_set_app_l. apply same_set_app_l. exact Ho. }
      destruct (gen_tags rand_seq fuel _ (root_tags h1 ++ root_tags w1 ++ o2) t news) as [tags|]; [|exact I].
      repeat split. exact Ho.
    - destruct (lookup t w1) as [cs|]; [|exact Hsim].
      destruct (has_col cs c); [exact Hsim|].
      rewrite (gen_tags_same_set fuel cs (root_tags w1 ++ o1) (root_tags w1 ++ o2) t [(c, k)]).
      2:{ apply same_set_app_l. exact Ho. }
      destruct (gen_tags rand_seq fuel cs (root_tags w1 ++ o2) t [(c, k)]) as [[|tag [|? ?]]|]; try exact I.
      repeat split. exact Ho.
    - destruct (lookup t w1) as [cs|]; [|exact Hsim]. repeat split. exact Ho.
    - repeat split. exact Ho.
    - destruct (lookup t w1) as [cs|]; [|exact Hsim]. destruct (has_col cs b); [exact Hsim|]. repeat split. exact Ho.
    - destruct (lookup t w1) as [cs|]; [|exact Hsim]. repeat split. exact Ho.
    - repeat split. exact Ho.
  Qed.

  Lemma run_sim : forall fuel ds s1 s2, sim s1 s2 ->
    match run rand_seq fuel s1 ds, run rand_seq fuel s2 ds with
    | Some a, Some b => sim a b
    | None, None => True
    | _, _ => False
    end.
  Proof.
    intros fuel ds. induction ds as [|d ds IH]; intros s1 s2 H; cbn [run].
    - exact H.
    - pose proof (step_sim fuel s1 s2 d H) as Hs.
      destruct (step rand_seq fuel s1 d) as [a|], (step rand_seq fuel s2 d) as [b|]; try contradiction.
      + apply IH. exact Hs.
      + exact I.
  Qed.

  (* Two roots (two branches, two clones) that agree on the tables the DDL touches and whose other tables carry the same SET of
     tags — in any order, grouping or multiplicity — get, from the same DDL sequence, the same tables with the same tags
     (and the run exhausts its fuel on one iff it does on the other).  Nothing else enters: no clock, no map order, no history. *)
  Theorem same_ddl_same_tags : forall fuel ds h w o1 o2 s1,
    same_set o1 o2 ->
    run rand_seq fuel {| head := h; work := w; other := o1 |} ds = Some s1 ->
    exists s2, run rand_seq fuel {| head := h; work := w; other := o2 |} ds = Some s2
               /\ head s2 = head s1 /\ work s2 = work s1.
  Proof.
    intros fuel ds h w o1 o2 s1 Ho Hr.
    pose proof (run_sim fuel ds {| head := h; work := w; other := o1 |} {| head := h; work := w; other := o2 |}) as H.
    rewrite Hr in H.
    destruct (run rand_seq fuel {| head := h; work := w; other := o2 |} ds) as [s2|].
    - exists s2. destruct H as [Hh [Hw _]]; [repeat split; assumption|]. repeat split; congruence.
    - exfalso. apply H. repeat split; assumption.
  Qed.

  (* ---- pairwise distinctness ---- *)
  Lemma gen_loop_fresh : forall fuel t news ekinds etags tags,
    gen_loop rand_seq fuel [] t news ekinds etags = Some tags ->
    NoDup tags /\ (forall x, In x tags -> ~ In x etags).
  Proof.
    intros fuel t news. induction news as [|[n k] rest IH]; intros ekinds etags tags H; cbn [gen_loop] in H.
    - injection H as <-. split; [constructor | intros x []].
    - unfold reuse in H. cbn [find option_map] in H.
      destruct (auto_tag rand_seq fuel etags t ekinds n k) as [x|] eqn:Hx; [|discriminate].
      destruct (gen_loop rand_seq fuel [] t rest (ekinds ++ [k]) (x :: etags)) as [r|] eqn:Hr; [|discriminate].
      cbn [option_map] in H. injection H as <-.
      destruct (IH _ _ _ Hr) as [Hnd Hfr].
      split.
      + constructor; [|exact Hnd]. intro Hin. apply (Hfr x Hin). left. reflexivity.
      + intros y [<-|Hy].
        * eapply tag_fresh. exact Hx.
        * intro Hin. apply (Hfr y Hy). right. exact Hin.
  Qed.

  (* Full statement (NOT provable, see tags_distinct_refuted): for every DDL sequence from the empty root the tags of the working
     root are pairwise distinct.  Proved part: a CREATE TABLE of a table that HEAD does not have assigns pairwise distinct tags,
     none of which occurs in HEAD, in the working root or in the rest of the root; an ADD COLUMN assigns a tag that occurs nowhere
     in the working root.  Missing: the book-keeping that carries NoDup through set_table for whole runs, and — essentially —
     the case of a table re-created while HEAD still has it, where the statement is false. *)
  Theorem tags_distinct_partial : forall fuel s t news s',
    names_distinct (map fst news) = true ->
    lookup t (work s) = None -> lookup t (head s) = None ->
    step rand_seq fuel s (Create t news) = Some s' ->
    exists tags, work s' = set_table t (mk_cols news tags) (work s)
                 /\ NoDup tags
                 /\ forall x, In x tags -> ~ In x (root_tags (head s) ++ root_tags (work s) ++ other s).
  Proof.
    intros fuel s t news s' Hnd Hw Hh H. unfold step in H. rewrite Hnd, Hw, Hh in H. cbn [negb] in H.
    destruct (gen_tags rand_seq fuel [] _ t news) as [tags|] eqn:Hg; [|discriminate].
    injection H as <-. exists tags. cbn [work]. split; [reflexivity|].
    unfold gen_tags in Hg. cbn [map] in Hg. apply gen_loop_fresh in Hg. exact Hg.
  Qed.

  Theorem addcol_tag_fresh : forall fuel s t c k pos cs s',
    lookup t (work s) = Some cs -> has_col cs c = false ->
    step rand_seq fuel s (AddCol t c k pos) = Some s' ->
    exists tag, work s' = set_table t (insert_at pos {| c_name := c; c_kind := k; c_tag := tag |} cs) (work s)
                /\ ~ In tag (root_tags (work s) ++ other s).
  Proof.
    intros fuel s t c k pos cs s' Hl Hc H. unfold step in H. rewrite Hl, Hc in H.
    unfold gen_tags in H. cbn [gen_loop] in H.
    assert (Hre : reuse cs c k = None).
    { unfold reuse. destruct (find _ cs) as [x|] eqn:Hf; [|reflexivity].
      apply find_some in Hf. destruct Hf as [Hin Hx]. apply andb_prop in Hx. destruct Hx as [Hx _].
      unfold has_col in Hc. assert (existsb (fun c0 => eq_fold c (c_name c0)) cs = true) as Hex.
      { apply existsb_exists. exists x. split; assumption. }
      congruence. }
    rewrite Hre in H.
    destruct (auto_tag rand_seq fuel (root_tags (work s) ++ other s) t (map c_kind cs) c k) as [tag|] eqn:Ht; [|discriminate].
    cbn [option_map] in H. injection H as <-. exists tag. cbn [work]. split; [reflexivity|].
    eapply tag_fresh. exact Ht.
  Qed.
End TagProofs.

(* Refutation of "tags are pairwise distinct within a root" for the faithful model: ADD COLUMN looks at the working root only
   (headRoot = nil in AlterableDoltTable.AddColumn) while CREATE TABLE re-uses the tags HEAD has for a dropped table:
     create t(a); create v(p); commit; drop table t; alter table v add column x; create table t(a)
   with a random source whose first draw for (v, [kind p], x) equals the tag of t.a. *)
Definition refute_rand (t c : bytes) (ks : list N) (k : N) (m : N) (i : nat) : N :=
  match t, c with
  | [116], [97] => 5 + N.of_nat i          (* t.a : 5 *)
  | [118], [112] => 9 + N.of_nat i         (* v.p : 9 *)
  | [118], [120] => 5 + N.of_nat i         (* v.x : 5 again *)
  | _, _ => 100 + N.of_nat i
  end.
Definition refute_ddl : list ddl :=
  [Create [116] [([97], 15)]; Create [118] [([112], 15)]; Commit; DropTable [116]; AddCol [118] [120] 15 1%nat; Create [116] [([97], 15)]].

Theorem tags_distinct_refuted :
  exists rand_seq ds s, run rand_seq 8 {| head := []; work := []; other := [] |} ds = Some s /\ distinct (root_tags (work s)) = false.
Proof.
  exists refute_rand, refute_ddl.
  eexists. split; [vm_compute; reflexivity | vm_compute; reflexivity].
Qed.

(* ------------------------------------------------------------------ *)
(* field-by-field equality decides equality                            *)
(* ------------------------------------------------------------------ *)
Lemma list_eqb_eq {A} (eqb : A -> A -> bool) :
  (forall x y, eqb x y = true -> x = y) -> forall a b, list_eqb eqb a b = true -> a = b.
Proof.
  intros He. induction a as [|x a IH]; destruct b as [|y b]; cbn [list_eqb]; intros H; try discriminate; try reflexivity.
  apply andb_prop in H. destruct H as [H1 H2]. f_equal; [apply He; exact H1 | apply IH; exact H2].
Qed.

Lemma list_eqb_refl {A} (eqb : A -> A -> bool) : (forall x, eqb x x = true) -> forall a, list_eqb eqb a a = true.
Proof. intros He. induction a as [|x a IH]; cbn [list_eqb]; [reflexivity | rewrite He, IH; reflexivity]. Qed.

Lemma beq_bytes_eq a b : beq_bytes a b = true -> a = b.
Proof. apply beq_bytes_spec. Qed.

Lemma Neqb_eq a b : (a =? b) = true -> a = b.
Proof. apply N.eqb_eq. Qed.

Ltac split_andb H :=
  repeat match type of H with
         | (_ && _) = true => let H2 := fresh "E" in apply andb_prop in H; destruct H as [H H2]
         end.

Ltac eqb_to_eq :=
  repeat match goal with
         | H : beq_bytes _ _ = true |- _ => apply beq_bytes_eq in H
         | H : list_eqb N.eqb _ _ = true |- _ => apply (list_eqb_eq N.eqb Neqb_eq) in H
         | H : list_eqb beq_bytes _ _ = true |- _ => apply (list_eqb_eq beq_bytes beq_bytes_eq) in H
         | H : (_ =? _) = true |- _ => apply Neqb_eq in H
         | H : Bool.eqb _ _ = true |- _ => apply Bool.eqb_prop in H
         end.

Lemma scol_eqb_eq a b : scol_eqb a b = true -> a = b.
Proof.
  destruct a as [a1 a2 a3 a4 a5 a6 a7 a8 a9 a10 a11 a12 a13], b as [b1 b2 b3 b4 b5 b6 b7 b8 b9 b10 b11 b12 b13]. unfold scol_eqb.
  cbn [sc_name sc_tag sc_ty sc_nullable sc_pk sc_autoinc sc_default sc_generated sc_onupdate sc_virtual sc_comment sc_hidden sc_syshidden].
  intros H. split_andb H. eqb_to_eq. subst. reflexivity.
Qed.

Lemma ftinfo_eqb_eq a b : ftinfo_eqb a b = true -> a = b.
Proof.
  destruct a as [a1 a2 a3 a4 a5 a6 a7 a8], b as [b1 b2 b3 b4 b5 b6 b7 b8]. unfold ftinfo_eqb.
  cbn [ft_config ft_pos ft_doccount ft_global ft_rowcount ft_keytype ft_keyname ft_keypos].
  intros H. split_andb H. eqb_to_eq. subst. reflexivity.
Qed.

Lemma sindex_eqb_eq a b : sindex_eqb a b = true -> a = b.
Proof.
  destruct a as [a1 a2 a3 a4 a5 a6 a7 a8 a9 a10 a11 a12], b as [b1 b2 b3 b4 b5 b6 b7 b8 b9 b10 b11 b12]. unfold sindex_eqb.
  cbn [ix_name ix_tags ix_unique ix_comment ix_prefix ix_userdef ix_spatial ix_fulltext ix_vector ix_predicate ix_ft ix_vecdist].
  intros H. split_andb H.
  match goal with E : ftinfo_eqb _ _ = true |- _ => apply ftinfo_eqb_eq in E end.
  eqb_to_eq. subst. reflexivity.
Qed.

Lemma scheck_eqb_eq a b : scheck_eqb a b = true -> a = b.
Proof.
  destruct a as [a1 a2 a3 a4], b as [b1 b2 b3 b4]. unfold scheck_eqb. cbn [ck_name ck_expr ck_enforced ck_notvalid].
  intros H. split_andb H. eqb_to_eq. subst. reflexivity.
Qed.

Lemma sfk_eqb_eq a b : sfk_eqb a b = true -> a = b.
Proof.
  destruct a as [a1 a2 a3 a4 a5 a6 a7 a8 a9 a10 a11 a12 a13], b as [b1 b2 b3 b4 b5 b6 b7 b8 b9 b10 b11 b12 b13]. unfold sfk_eqb.
  cbn [fk_name fk_table fk_index fk_cols fk_reftable fk_refindex fk_refcols fk_onupdate fk_ondelete fk_unres fk_unresref fk_notvalid fk_match].
  intros H. split_andb H. eqb_to_eq. subst. reflexivity.
Qed.

Lemma scol_eqb_refl x : scol_eqb x x = true.
Proof. unfold scol_eqb. rewrite !beq_bytes_refl, !N.eqb_refl, !Bool.eqb_reflx. reflexivity. Qed.
Lemma ftinfo_eqb_refl x : ftinfo_eqb x x = true.
Proof. unfold ftinfo_eqb. rewrite !beq_bytes_refl, !N.eqb_refl, !(list_eqb_refl N.eqb N.eqb_refl). reflexivity. Qed.
Lemma sindex_eqb_refl x : sindex_eqb x x = true.
Proof. unfold sindex_eqb. rewrite !beq_bytes_refl, !N.eqb_refl, !Bool.eqb_reflx, !(list_eqb_refl N.eqb N.eqb_refl), ftinfo_eqb_refl. reflexivity. Qed.
Lemma scheck_eqb_refl x : scheck_eqb x x = true.
Proof. unfold scheck_eqb. rewrite !beq_bytes_refl, !Bool.eqb_reflx. reflexivity. Qed.
Lemma sfk_eqb_refl x : sfk_eqb x x = true.
Proof.
  unfold sfk_eqb. rewrite !beq_bytes_refl, !N.eqb_refl, !Bool.eqb_reflx, !(list_eqb_refl N.eqb N.eqb_refl), !(list_eqb_refl beq_bytes beq_bytes_refl).
  reflexivity.
Qed.
Lemma sschema_eqb_refl x : sschema_eqb x x = true.
Proof.
  unfold sschema_eqb.
  rewrite (list_eqb_refl _ scol_eqb_refl), (list_eqb_refl _ sindex_eqb_refl), (list_eqb_refl _ scheck_eqb_refl), (list_eqb_refl Nat.eqb Nat.eqb_refl),
    !N.eqb_refl, beq_bytes_refl. reflexivity.
Qed.

(* the oracle's comparison is sound and complete: true exactly when every modelled field is preserved *)
Theorem sschema_eqb_eq : forall a b, sschema_eqb a b = true <-> a = b.
Proof.
  intros a b. split.
  - destruct a as [a1 a2 a3 a4 a5 a6 a7], b as [b1 b2 b3 b4 b5 b6 b7]. unfold sschema_eqb. cbn [s_cols s_pk_ord s_indexes s_checks s_collation s_comment s_rowsize].
    intros H. split_andb H.
    apply (list_eqb_eq scol_eqb scol_eqb_eq) in H.
    match goal with E : list_eqb Nat.eqb _ _ = true |- _ => apply (list_eqb_eq Nat.eqb (fun x y => proj1 (Nat.eqb_eq x y))) in E end.
    match goal with E : list_eqb sindex_eqb _ _ = true |- _ => apply (list_eqb_eq sindex_eqb sindex_eqb_eq) in E end.
    match goal with E : list_eqb scheck_eqb _ _ = true |- _ => apply (list_eqb_eq scheck_eqb scheck_eqb_eq) in E end.
    eqb_to_eq. subst. reflexivity.
  - intros <-. apply sschema_eqb_refl.
Qed.

Theorem sfk_list_eqb_eq : forall a b, list_eqb sfk_eqb a b = true <-> a = b.
Proof.
  intros a b. split; [apply (list_eqb_eq sfk_eqb sfk_eqb_eq) | intros <-; apply (list_eqb_refl sfk_eqb sfk_eqb_refl)].
Qed.

(* ------------------------------------------------------------------ *)
(* round trip                                                          *)
(* ------------------------------------------------------------------ *)
Section RoundTrip.
  Variable type_string : bytes -> bytes.
  Variable parse_type : bytes -> option bytes.

  Lemma de_ser_col c : wf_col type_string parse_type c -> de_col parse_type (ser_col type_string c) = Some c.
  Proof.
    intros [Hdg [Hpk Hty]]. destruct c as [n tg ty nu pk ai df gn ou vi cm hd sh].
    cbn [sc_default sc_generated sc_pk sc_nullable sc_ty] in Hdg, Hpk, Hty.
    unfold de_col, ser_col.
    cbn [f_sqltype f_name f_tag f_nullable f_pk f_autoinc f_generated f_default f_onupdate f_virtual f_comment f_hidden f_syshidden
         sc_name sc_tag sc_ty sc_nullable sc_pk sc_autoinc sc_default sc_generated sc_onupdate sc_virtual sc_comment sc_hidden sc_syshidden].
    rewrite Hty.
    assert (Hn : nu && negb pk = nu).
    { destruct pk; [rewrite (Hpk eq_refl); reflexivity | apply andb_true_r]. }
    rewrite Hn.
    assert (Hou : match (if is_nil ou then None else Some ou) with Some u => u | None => [] end = ou).
    { destruct ou; reflexivity. }
    rewrite Hou.
    destruct Hdg as [-> | ->].
    - destruct gn; reflexivity.
    - destruct df; reflexivity.
  Qed.

  Lemma map_opt_de_ser cols :
    (forall c, In c cols -> wf_col type_string parse_type c) ->
    map_opt (de_col parse_type) (map (ser_col type_string) cols) = Some cols.
  Proof.
    induction cols as [|c cols IH]; intros H; cbn [map map_opt].
    - reflexivity.
    - rewrite (de_ser_col c (H c (or_introl eq_refl))), IH; [reflexivity|].
      intros x Hx. apply H. right. exact Hx.
  Qed.

  Lemma tag_pos_nth : forall (tags : list N) t i, tag_pos t tags = Some i -> nth_error tags i = Some t.
  Proof.
    induction tags as [|x r IH]; intros t i H; cbn [tag_pos] in H.
    - discriminate.
    - destruct (x =? t) eqn:E.
      + injection H as <-. apply N.eqb_eq in E. subst. reflexivity.
      + destruct (tag_pos t r) as [j|] eqn:Hj; [|discriminate]. cbn [option_map] in H. injection H as <-.
        cbn [nth_error]. apply IH. exact Hj.
  Qed.

  Lemma tag_pos_in : forall (tags : list N) t, In t tags -> exists i, tag_pos t tags = Some i.
  Proof.
    induction tags as [|x r IH]; intros t H; [destruct H|]. cbn [tag_pos].
    destruct (x =? t) eqn:E; [exists O; reflexivity|].
    destruct H as [->|H]; [rewrite N.eqb_refl in E; discriminate|].
    destruct (IH t H) as [i Hi]. rewrite Hi. exists (S i). reflexivity.
  Qed.

  (* position written by the serializer -> tag read by the deserializer at that position *)
  Lemma pos_roundtrip cols extra t :
    In t (map sc_tag cols) ->
    f_tag (nth (tag_to_idx (map sc_tag cols) t) (map (ser_col type_string) cols ++ extra) dummy_fcol) = t.
  Proof.
    intros Hin. destruct (tag_pos_in _ _ Hin) as [i Hi]. unfold tag_to_idx. rewrite Hi.
    apply tag_pos_nth in Hi.
    assert (Hlt : (i < List.length cols)%nat).
    { rewrite <- (map_length sc_tag). apply nth_error_Some. congruence. }
    rewrite app_nth1 by (rewrite map_length; exact Hlt).
    rewrite nth_error_map in Hi. destruct (nth_error cols i) as [c|] eqn:Hc; [|discriminate].
    cbn [option_map] in Hi. injection Hi as Hi.
    rewrite (nth_indep _ dummy_fcol (ser_col type_string c)) by (rewrite map_length; exact Hlt).
    rewrite map_nth. rewrite (nth_error_nth _ _ _ Hc). cbn [ser_col f_tag]. exact Hi.
  Qed.

  Lemma de_ser_index s ix :
    (forall t, In t (ix_tags ix) -> In t (map sc_tag (s_cols s))) -> wf_index ix ->
    de_index (serialize type_string s) (ser_index (map sc_tag (s_cols s)) ix) = Some ix.
  Proof.
    intros H [Hft [Hv1 Hv0]]. destruct ix as [n tags u cm pf ud sp ft vc pr fti vd]. unfold de_index, ser_index.
    cbn [fi_name fi_cols fi_unique fi_comment fi_prefix fi_system fi_spatial fi_fulltext fi_ft fi_vector fi_vec fi_predicate
         ix_name ix_tags ix_unique ix_comment ix_prefix ix_userdef ix_spatial ix_fulltext ix_vector ix_predicate ix_ft ix_vecdist] in *.
    assert (Htags : map (fun p => f_tag (nth p (fs_cols (serialize type_string s)) dummy_fcol)) (map (tag_to_idx (map sc_tag (s_cols s))) tags) = tags).
    { rewrite map_map. unfold serialize. cbn [fs_cols].
      induction tags as [|t tags IH]; cbn [map]; [reflexivity|].
      rewrite pos_roundtrip by (apply H; left; reflexivity).
      f_equal. apply IH. intros x Hx. apply H. right. exact Hx. }
    rewrite Htags, negb_involutive.
    assert (Hpr : match (if is_nil pr then None else Some pr) with Some p => p | None => [] end = pr) by (destruct pr; reflexivity).
    rewrite Hpr.
    destruct ft, vc.
    - rewrite (Hv1 eq_refl). reflexivity.
    - rewrite (Hv0 eq_refl). reflexivity.
    - rewrite (Hv1 eq_refl), (Hft eq_refl). reflexivity.
    - rewrite (Hv0 eq_refl), (Hft eq_refl). reflexivity.
  Qed.

  (* Storing and reloading preserves every modelled field: for every well-formed schema, whatever the columns, types,
     defaults, generated / on-update expressions, comments, key order, indexes (with their fulltext / vector / spatial
     properties, comments, prefix lengths, predicates, user-defined flag), checks, collation. *)
  Theorem schema_roundtrip : forall s,
    wf_schema type_string parse_type s ->
    deserialize parse_type (serialize type_string s) = Some s.
  Proof.
    intros s [Hcols [Hkl [Hnk [Hix Hwi]]]].
    unfold deserialize.
    assert (Hidx : map_opt (de_index (serialize type_string s)) (fs_indexes (serialize type_string s)) = Some (s_indexes s)).
    { unfold serialize at 2. cbn [fs_indexes].
      assert (Hall : forall l, (forall ix, In ix l -> In ix (s_indexes s)) ->
                     map_opt (de_index (serialize type_string s)) (map (ser_index (map sc_tag (s_cols s))) l) = Some l).
      { induction l as [|ix l IH]; intros Hl; cbn [map map_opt]; [reflexivity|].
        rewrite de_ser_index.
        - rewrite IH; [reflexivity|]. intros x Hx. apply Hl. right. exact Hx.
        - intros t Ht. apply (Hix ix t); [apply Hl; left; reflexivity | exact Ht].
        - apply Hwi. apply Hl. left. reflexivity. }
      apply Hall. intros ix H. exact H. }
    rewrite Hidx. clear Hidx.
    destruct (keyless s) eqn:Ek.
    - (* keyless: marker columns appended, recognised and stripped *)
      assert (Hks : keyless_serial (serialize type_string s) = true).
      { unfold keyless_serial, serialize. cbn [fs_cols]. rewrite Ek. rewrite rev_app_distr. cbn [rev app].
        unfold hidden_col. cbn [f_generated f_hidden f_name]. rewrite !beq_bytes_refl. reflexivity. }
      rewrite Hks.
      assert (Hstrip : rev (tl (tl (rev (fs_cols (serialize type_string s))))) = map (ser_col type_string) (s_cols s)).
      { unfold serialize. cbn [fs_cols]. rewrite Ek. rewrite rev_app_distr. cbn [rev app tl]. apply rev_involutive. }
      rewrite Hstrip, (map_opt_de_ser _ Hcols).
      destruct s as [cols pk ixs cks coll cm rs]. unfold serialize. cbn [fs_checks fs_collation fs_comment fs_rowsize s_cols s_pk_ord s_indexes s_checks s_collation s_comment s_rowsize] in *.
      rewrite (Hkl eq_refl). destruct cm; reflexivity.
    - assert (Hks : keyless_serial (serialize type_string s) = false).
      { specialize (Hnk eq_refl). unfold keyless_serial in *. unfold serialize. cbn [fs_cols] in *. rewrite Ek, app_nil_r. exact Hnk. }
      rewrite Hks.
      assert (Hfc : fs_cols (serialize type_string s) = map (ser_col type_string) (s_cols s)).
      { unfold serialize. cbn [fs_cols]. rewrite Ek. apply app_nil_r. }
      rewrite Hfc, (map_opt_de_ser _ Hcols).
      destruct s as [cols pk ixs cks coll cm rs]. unfold serialize. cbn [fs_key_cols fs_checks fs_collation fs_comment fs_rowsize s_cols s_pk_ord s_indexes s_checks s_collation s_comment s_rowsize] in *.
      rewrite Ek. destruct cm; reflexivity.
  Qed.
End RoundTrip.

(* the hypotheses are satisfiable: a keyed and a keyless schema with an index, a default and a generated column *)
Definition ex_col (n : bytes) (tag : N) (pk : bool) (df gn : bytes) : scol :=
  {| sc_name := n; sc_tag := tag; sc_ty := [105]; sc_nullable := negb pk; sc_pk := pk; sc_autoinc := false;
     sc_default := df; sc_generated := gn; sc_onupdate := []; sc_virtual := false; sc_comment := [104]; sc_hidden := false; sc_syshidden := false |}.
Definition ex_index (ft vc : bool) : sindex :=
  {| ix_name := [105]; ix_tags := [3; 7]; ix_unique := true; ix_comment := [99]; ix_prefix := [4]; ix_userdef := negb ft; ix_spatial := false;
     ix_fulltext := ft; ix_vector := vc; ix_predicate := [];
     ix_ft := if ft then {| ft_config := [1]; ft_pos := [2]; ft_doccount := [3]; ft_global := [4]; ft_rowcount := [5]; ft_keytype := 1; ft_keyname := [6]; ft_keypos := [0] |} else ft_zero;
     ix_vecdist := if vc then 1 else 0 |}.
Definition ex_schema (pk : bool) : sschema :=
  {| s_cols := [ex_col [97] 7 pk [] []; ex_col [98] 9 false [49] []; ex_col [99] 3 false [] [97; 43; 49]];
     s_pk_ord := if pk then [0%nat] else []; s_indexes := [ex_index false false; ex_index true false; ex_index false true];
     s_checks := [{| ck_name := [107]; ck_expr := [97]; ck_enforced := true; ck_notvalid := false |}]; s_collation := 46; s_comment := [116]; s_rowsize := 2048 |}.

Example roundtrip_nonvacuous :
  deserialize (fun x => Some x) (serialize (fun x => x) (ex_schema true)) = Some (ex_schema true)
  /\ deserialize (fun x => Some x) (serialize (fun x => x) (ex_schema false)) = Some (ex_schema false).
Proof. split; vm_compute; reflexivity. Qed.

(* a column that carries both a default and a generated expression does not survive (one field, one flag): why wf_col asks for one of them to be empty *)
Example roundtrip_needs_wf :
  deserialize (fun x => Some x) (serialize (fun x => x)
    {| s_cols := [ex_col [97] 7 false [49] [50]]; s_pk_ord := []; s_indexes := []; s_checks := []; s_collation := 0; s_comment := []; s_rowsize := 0 |})
  <> Some {| s_cols := [ex_col [97] 7 false [49] [50]]; s_pk_ord := []; s_indexes := []; s_checks := []; s_collation := 0; s_comment := []; s_rowsize := 0 |}.
Proof. vm_compute. intro H. discriminate H. Qed.

(* a vector index whose distance type is not L2Squared is written with DistanceTypeNull and refused on read: why wf_index asks for L2Squared *)
Example roundtrip_vector_needs_l2 :
  deserialize (fun x => Some x) (serialize (fun x => x)
    {| s_cols := [ex_col [97] 7 true [] []]; s_pk_ord := [0%nat];
       s_indexes := [{| ix_name := [105]; ix_tags := [7]; ix_unique := false; ix_comment := []; ix_prefix := []; ix_userdef := true; ix_spatial := false;
                        ix_fulltext := false; ix_vector := true; ix_predicate := []; ix_ft := ft_zero; ix_vecdist := 2 |}];
       s_checks := []; s_collation := 0; s_comment := []; s_rowsize := 0 |}) = None.
Proof. vm_compute. reflexivity. Qed.

(* ------------------------------------------------------------------ *)
(* foreign key collection round trip                                   *)
(* ------------------------------------------------------------------ *)
Section FKRoundTrip.
  Variable encode_name : bytes -> bytes.
  Variable decode_name : bytes -> option bytes.

  Theorem fk_roundtrip : forall l,
    (forall k, In k l -> decode_name (encode_name (fk_table k)) = Some (fk_table k)
                         /\ decode_name (encode_name (fk_reftable k)) = Some (fk_reftable k)) ->
    fk_deserialize decode_name (fk_serialize encode_name l) = Some l.
  Proof.
    unfold fk_deserialize, fk_serialize.
    induction l as [|k l IH]; intros H; cbn [map map_opt]; [reflexivity|].
    destruct (H k (or_introl eq_refl)) as [Ht Hr].
    assert (Hk : de_fk decode_name (ser_fk encode_name k) = Some k).
    { destruct k as [k1 k2 k3 k4 k5 k6 k7 k8 k9 k10 k11 k12 k13]. unfold de_fk, ser_fk. cbn [fk_name fk_table fk_index fk_cols fk_reftable fk_refindex fk_refcols fk_onupdate fk_ondelete fk_unres fk_unresref fk_notvalid fk_match] in *.
      rewrite Ht, Hr. reflexivity. }
    rewrite Hk, IH; [reflexivity|]. intros x Hx. apply H. right. exact Hx.
  Qed.
End FKRoundTrip.

(* ------------------------------------------------------------------ *)
(* run-level distinctness of tags                                      *)
(* ------------------------------------------------------------------ *)
From Coq Require Import Permutation.

Lemma nodup_app_iff {A} (l k : list A) : NoDup (l ++ k) <-> NoDup l /\ NoDup k /\ (forall x, In x l -> ~ In x k).
Proof.
  induction l as [|a l IH]; cbn [app].
  - split.
    + intros H. repeat split; [constructor | exact H | intros x []].
    + intros [_ [H _]]. exact H.
  - split.
    + intros H. inversion H as [|? ? Hn Hd]; subst. apply IH in Hd. destruct Hd as [Hl [Hk Hx]].
      repeat split.
      * constructor; [intro Hi; apply Hn; apply in_or_app; left; exact Hi | exact Hl].
      * exact Hk.
      * intros x [<-|Hi]; [intro Hk'; apply Hn; apply in_or_app; right; exact Hk' | apply Hx; exact Hi].
    + intros [Hl [Hk Hx]]. inversion Hl as [|? ? Hn Hd]; subst. constructor.
      * intro Hi. apply in_app_or in Hi. destruct Hi as [Hi|Hi]; [apply Hn; exact Hi | apply (Hx a); [left; reflexivity | exact Hi]].
      * apply IH. repeat split; [exact Hd | exact Hk | intros x Hi; apply Hx; right; exact Hi].
Qed.

Lemma NoDup_map_inj {A B} (f : A -> B) (l : list A) :
  NoDup (map f l) -> forall a b, In a l -> In b l -> f a = f b -> a = b.
Proof.
  induction l as [|x l IH]; intros Hnd a b Ha Hb Hf; [destruct Ha|].
  cbn [map] in Hnd. inversion Hnd as [|? ? Hn Hd]; subst.
  destruct Ha as [<-|Ha], Hb as [<-|Hb].
  - reflexivity.
  - exfalso. apply Hn. rewrite Hf. apply in_map. exact Hb.
  - exfalso. apply Hn. rewrite <- Hf. apply in_map. exact Ha.
  - apply IH; assumption.
Qed.

Lemma NoDup_map_filter {A B} (f : A -> B) (p : A -> bool) (l : list A) : NoDup (map f l) -> NoDup (map f (filter p l)).
Proof.
  induction l as [|x l IH]; intros H; cbn [filter map]; [constructor|].
  cbn [map] in H. inversion H as [|? ? Hn Hd]; subst.
  destruct (p x); [|apply IH; exact Hd].
  cbn [map]. constructor; [|apply IH; exact Hd].
  intro Hi. apply Hn. apply in_map_iff in Hi. destruct Hi as [y [Hy Hin]]. apply filter_In in Hin. destruct Hin as [Hin _].
  rewrite <- Hy. apply in_map. exact Hin.
Qed.

Lemma distinct_iff l : distinct l = true <-> NoDup l.
Proof.
  induction l as [|x l IH]; cbn [distinct].
  - split; [intros _; constructor | reflexivity].
  - split.
    + intros H. apply andb_prop in H. destruct H as [Hm Hd]. constructor; [|apply IH; exact Hd].
      apply mem_false_iff. destruct (mem x l); [discriminate | reflexivity].
    + intros H. inversion H as [|? ? Hn Hd]; subst. apply mem_false_iff in Hn. rewrite Hn. cbn [negb andb]. apply IH. exact Hd.
Qed.

Lemma root_tags_app a b : root_tags (a ++ b) = root_tags a ++ root_tags b.
Proof. unfold root_tags. apply flat_map_app. Qed.

Lemma root_tags_cons n cs r : root_tags ((n, cs) :: r) = map c_tag cs ++ root_tags r.
Proof. reflexivity. Qed.

Lemma lookup_split : forall t r cs, lookup t r = Some cs ->
  exists pre n post, r = pre ++ (n, cs) :: post /\ forall cs', set_table t cs' r = pre ++ (n, cs') :: post.
Proof.
  intros t. induction r as [|[n c0] r IH]; intros cs H; cbn [lookup] in H; [discriminate|].
  destruct (beq_bytes n t) eqn:E.
  - injection H as <-. exists [], n, r. split; [reflexivity|]. intros cs'. cbn [set_table]. rewrite E. reflexivity.
  - destruct (IH cs H) as [pre [n' [post [Hr Hs]]]]. exists ((n, c0) :: pre), n', post. split.
    + cbn [app]. rewrite <- Hr. reflexivity.
    + intros cs'. cbn [set_table]. rewrite E. cbn [app]. rewrite Hs. reflexivity.
Qed.

Lemma lookup_none_set : forall t cs' r, lookup t r = None -> set_table t cs' r = r ++ [(t, cs')].
Proof.
  intros t cs'. induction r as [|[n c0] r IH]; intros H; cbn [lookup set_table] in *; [reflexivity|].
  destruct (beq_bytes n t); [discriminate|]. cbn [app]. rewrite IH; [reflexivity | exact H].
Qed.

(* the tags of a root, with the table t pulled to the front *)
Lemma tags_perm : forall t r cs, lookup t r = Some cs ->
  exists R, (forall cs' O, Permutation (root_tags (set_table t cs' r) ++ O) (map c_tag cs' ++ R ++ O))
            /\ (forall O, Permutation (root_tags r ++ O) (map c_tag cs ++ R ++ O)).
Proof.
  intros t r cs H. destruct (lookup_split t r cs H) as [pre [n [post [Hr Hs]]]].
  exists (root_tags pre ++ root_tags post).
  assert (Hp : forall c O, Permutation (root_tags (pre ++ (n, c) :: post) ++ O) (map c_tag c ++ (root_tags pre ++ root_tags post) ++ O)).
  { intros c O. rewrite root_tags_app, root_tags_cons, <- !app_assoc. apply Permutation_app_swap_app. }
  split.
  - intros cs' O. rewrite Hs. apply Hp.
  - intros O. rewrite Hr at 1. apply Hp.
Qed.

Lemma lookup_in_tags t r cs c : lookup t r = Some cs -> In c cs -> In (c_tag c) (root_tags r).
Proof.
  intros H Hc. destruct (lookup_split t r cs H) as [pre [n [post [Hr _]]]]. rewrite Hr, root_tags_app, root_tags_cons.
  apply in_or_app. right. apply in_or_app. left. apply in_map. exact Hc.
Qed.

Lemma del_table_incl t r x : In x (root_tags (del_table t r)) -> In x (root_tags r).
Proof.
  induction r as [|[n c0] r IH]; cbn [del_table filter fst]; intros H; [exact H|].
  rewrite root_tags_cons. destruct (negb (beq_bytes n t)).
  - rewrite root_tags_cons in H. apply in_app_or in H. apply in_or_app. destruct H as [H|H]; [left; exact H | right; apply IH; exact H].
  - apply in_or_app. right. apply IH. exact H.
Qed.

Lemma del_table_nodup t r O : NoDup (root_tags r ++ O) -> NoDup (root_tags (del_table t r) ++ O).
Proof.
  induction r as [|[n c0] r IH]; cbn [del_table filter fst]; intros H; [exact H|].
  rewrite root_tags_cons, <- app_assoc in H. apply nodup_app_iff in H. destruct H as [H1 [H2 H3]].
  destruct (negb (beq_bytes n t)).
  - rewrite root_tags_cons, <- app_assoc. apply nodup_app_iff. repeat split; [exact H1 | apply IH; exact H2 |].
    intros x Hx Hin. apply (H3 x Hx). apply in_app_or in Hin. apply in_or_app.
    destruct Hin as [Hin|Hin]; [left; apply (del_table_incl t); exact Hin | right; exact Hin].
  - apply IH. exact H2.
Qed.

Lemma insert_at_perm {A} (x : A) : forall i l, Permutation (insert_at i x l) (x :: l).
Proof.
  induction i as [|i IH]; intros l; cbn [insert_at]; [reflexivity|].
  destruct l as [|h t]; [reflexivity|].
  eapply perm_trans; [apply perm_skip; apply IH | apply perm_swap].
Qed.

Lemma eq_fold_iff a b : eq_fold a b = true <-> map lower a = map lower b.
Proof. unfold eq_fold. apply beq_bytes_spec. Qed.

Lemma eq_fold_trans_l n n' x : eq_fold n x = true -> eq_fold n' x = true -> eq_fold n n' = true.
Proof. rewrite !eq_fold_iff. congruence. Qed.

Lemma mk_cols_tags : forall news tags, List.length tags = List.length news -> map c_tag (mk_cols news tags) = tags.
Proof.
  unfold mk_cols. induction news as [|nk news IH]; intros [|t tags] H; cbn [combine map List.length] in *; try reflexivity; try discriminate.
  cbn [c_tag snd]. f_equal. apply IH. injection H as H. exact H.
Qed.

Lemma shared_incl hc news c : In c (shared_cols hc news) -> In c hc.
Proof.
  unfold shared_cols. intros H. apply in_flat_map in H. destruct H as [nk [_ H]].
  destruct (find _ hc) as [c0|] eqn:Hf; [|destruct H].
  destruct (c_kind c0 =? snd nk); [|destruct H]. destruct H as [<-|[]]. apply find_some in Hf. apply Hf.
Qed.

Section RunDistinct.
  Variable rand_seq : bytes -> bytes -> list N -> N -> N -> nat -> N.

  Lemma reuse_some ecols n k x : reuse ecols n k = Some x -> exists c, In c ecols /\ c_tag c = x /\ eq_fold n (c_name c) = true.
  Proof.
    unfold reuse. destruct (find _ ecols) as [c|] eqn:Hf; cbn [option_map]; intros H; [|discriminate].
    injection H as <-. apply find_some in Hf. destruct Hf as [Hin Hc]. apply andb_prop in Hc. exists c. repeat split; [exact Hin | apply Hc].
  Qed.

  Lemma gen_loop_len : forall fuel ecols t news ekinds etags tags,
    gen_loop rand_seq fuel ecols t news ekinds etags = Some tags -> List.length tags = List.length news.
  Proof.
    intros fuel ecols t news. induction news as [|[n k] rest IH]; intros ekinds etags tags H; cbn [gen_loop] in H.
    - injection H as <-. reflexivity.
    - destruct (reuse ecols n k) as [r|].
      + destruct (gen_loop rand_seq fuel ecols t rest ekinds etags) as [tl|] eqn:Hg; [|discriminate].
        cbn [option_map] in H. injection H as <-. cbn [List.length]. f_equal. eapply IH. exact Hg.
      + destruct (auto_tag rand_seq fuel etags t ekinds n k) as [x|]; [|discriminate].
        destruct (gen_loop rand_seq fuel ecols t rest (ekinds ++ [k]) (x :: etags)) as [tl|] eqn:Hg; [|discriminate].
        cbn [option_map] in H. injection H as <-. cbn [List.length]. f_equal. eapply IH. exact Hg.
  Qed.

  (* the tags one statement assigns: pairwise distinct; each is either outside the existing tags or the tag re-used from a
     matching existing column *)
  Lemma gen_loop_distinct : forall fuel ecols t news ekinds etags tags,
    (forall a b, In a ecols -> In b ecols -> c_tag a = c_tag b -> a = b) ->
    (forall c, In c ecols -> In (c_tag c) etags) ->
    names_distinct (map fst news) = true ->
    gen_loop rand_seq fuel ecols t news ekinds etags = Some tags ->
    NoDup tags /\ forall y, In y tags -> ~ In y etags \/ (exists n k, In (n, k) news /\ reuse ecols n k = Some y).
  Proof.
    intros fuel ecols t news. induction news as [|[n k] rest IH]; intros ekinds etags tags Hinj Hsub Hnd H; cbn [gen_loop] in H.
    - injection H as <-. split; [constructor | intros y []].
    - cbn [map fst names_distinct] in Hnd. apply andb_prop in Hnd. destruct Hnd as [Hn Hnd].
      destruct (reuse ecols n k) as [r|] eqn:Hr.
      + destruct (gen_loop rand_seq fuel ecols t rest ekinds etags) as [tl|] eqn:Hg; [|discriminate].
        cbn [option_map] in H. injection H as <-.
        destruct (IH _ _ _ Hinj Hsub Hnd Hg) as [Hd Hy]. split.
        * constructor; [|exact Hd]. intro Hin.
          destruct (reuse_some _ _ _ _ Hr) as [c [Hc [Htag Hfold]]].
          destruct (Hy r Hin) as [Hfresh | [n' [k' [Hin' Hr']]]].
          -- apply Hfresh. rewrite <- Htag. apply Hsub. exact Hc.
          -- destruct (reuse_some _ _ _ _ Hr') as [c' [Hc' [Htag' Hfold']]].
             assert (c = c') by (apply Hinj; [exact Hc | exact Hc' | congruence]). subst c'.
             assert (Hnn : eq_fold n n' = true) by (eapply eq_fold_trans_l; eassumption).
             assert (Hex : existsb (eq_fold n) (map fst rest) = true).
             { apply existsb_exists. exists n'. split; [|exact Hnn]. apply in_map_iff. exists (n', k'). split; [reflexivity | exact Hin']. }
             rewrite Hex in Hn. discriminate.
        * intros y [<-|Hin].
          -- right. exists n, k. split; [left; reflexivity | exact Hr].
          -- destruct (Hy y Hin) as [Hf | [n' [k' [Hin' Hr']]]]; [left; exact Hf | right; exists n', k'; split; [right; exact Hin' | exact Hr']].
      + destruct (auto_tag rand_seq fuel etags t ekinds n k) as [x|] eqn:Hx; [|discriminate].
        destruct (gen_loop rand_seq fuel ecols t rest (ekinds ++ [k]) (x :: etags)) as [tl|] eqn:Hg; [|discriminate].
        cbn [option_map] in H. injection H as <-.
        assert (Hsub' : forall c, In c ecols -> In (c_tag c) (x :: etags)) by (intros c Hc; right; apply Hsub; exact Hc).
        destruct (IH _ _ _ Hinj Hsub' Hnd Hg) as [Hd Hy].
        pose proof (tag_fresh rand_seq _ _ _ _ _ _ _ Hx) as Hfr. split.
        * constructor; [|exact Hd]. intro Hin.
          destruct (Hy x Hin) as [Hf | [n' [k' [_ Hr']]]].
          -- apply Hf. left. reflexivity.
          -- destruct (reuse_some _ _ _ _ Hr') as [c' [Hc' [Htag' _]]]. apply Hfr. rewrite <- Htag'. apply Hsub. exact Hc'.
        * intros y [<-|Hin]; [left; exact Hfr|].
          destruct (Hy y Hin) as [Hf | [n' [k' [Hin' Hr']]]].
          -- left. intro Hi. apply Hf. right. exact Hi.
          -- right. exists n', k'. split; [right; exact Hin' | exact Hr'].
  Qed.

  Definition Inv (s : st) : Prop := NoDup (root_tags (work s) ++ other s) /\ NoDup (root_tags (head s) ++ other s).

  (* replacing the columns of an existing table *)
  Lemma set_existing_nodup t w cs cs' O :
    lookup t w = Some cs ->
    (forall RO, Permutation (root_tags w ++ O) (map c_tag cs ++ RO) -> NoDup (map c_tag cs' ++ RO)) ->
    NoDup (root_tags (set_table t cs' w) ++ O).
  Proof.
    intros Hl H. destruct (tags_perm t w cs Hl) as [R [Hset Hcur]].
    eapply Permutation_NoDup; [apply Permutation_sym; apply Hset|]. apply H. apply Hcur.
  Qed.

  Lemma step_other fuel s d s' : step rand_seq fuel s d = Some s' -> other s' = other s.
  Proof.
    destruct d as [t news | t c k pos | t c | t | t a b | t c k | ]; unfold step; intros H.
    - destruct (negb (names_distinct (map fst news))); [injection H as <-; reflexivity|].
      destruct (lookup t (work s)); [injection H as <-; reflexivity|].
      destruct (gen_tags rand_seq fuel _ _ t news); [|discriminate]. injection H as <-. reflexivity.
    - destruct (lookup t (work s)) as [cs|]; [|injection H as <-; reflexivity].
      destruct (has_col cs c); [injection H as <-; reflexivity|].
      destruct (gen_tags rand_seq fuel cs _ t [(c, k)]) as [[|tag [|? ?]]|]; try discriminate. injection H as <-. reflexivity.
    - destruct (lookup t (work s)); injection H as <-; reflexivity.
    - injection H as <-. reflexivity.
    - destruct (lookup t (work s)) as [cs|]; [|injection H as <-; reflexivity].
      destruct (has_col cs b); injection H as <-; reflexivity.
    - destruct (lookup t (work s)); injection H as <-; reflexivity.
    - injection H as <-. reflexivity.
  Qed.

  Lemma step_inv fuel s d s' : Inv s -> create_safe s d = true -> step rand_seq fuel s d = Some s' -> Inv s'.
  Proof.
    intros [Hw Hh] Hsafe H.
    destruct d as [t news | t c k pos | t c | t | t a b | t c k | ]; unfold step in H.
    - (* CREATE TABLE *)
      destruct (names_distinct (map fst news)) eqn:Hnd; cbn [negb] in H; [|injection H as <-; split; assumption].
      unfold create_safe in Hsafe. rewrite Hnd in Hsafe. cbn [negb] in Hsafe.
      destruct (lookup t (work s)) as [wc|] eqn:Hlw; [injection H as <-; split; assumption|].
      set (ecols := match lookup t (head s) with Some hc => shared_cols hc news | None => [] end) in *.
      destruct (gen_tags rand_seq fuel ecols (root_tags (head s) ++ root_tags (work s) ++ other s) t news) as [tags|] eqn:Hg; [|discriminate].
      injection H as <-. split; cbn [work head other]; [|exact Hh].
      unfold gen_tags in Hg.
      assert (Hinj : forall a b, In a ecols -> In b ecols -> c_tag a = c_tag b -> a = b).
      { subst ecols. destruct (lookup t (head s)) as [hc|] eqn:Hlh; [|intros a b []].
        intros a b Ha Hb. apply shared_incl in Ha. apply shared_incl in Hb.
        apply (NoDup_map_inj c_tag hc); [|exact Ha | exact Hb].
        destruct (tags_perm t (head s) hc Hlh) as [R [_ Hcur]].
        pose proof (Permutation_NoDup (Hcur (other s)) Hh) as Hn. apply nodup_app_iff in Hn. apply Hn. }
      assert (Hsub : forall c, In c ecols -> In (c_tag c) (root_tags (head s) ++ root_tags (work s) ++ other s)).
      { subst ecols. destruct (lookup t (head s)) as [hc|] eqn:Hlh; [|intros c []].
        intros c Hc. apply shared_incl in Hc. apply in_or_app. left. eapply lookup_in_tags; eassumption. }
      pose proof (gen_loop_len _ _ _ _ _ _ _ Hg) as Hlen.
      destruct (gen_loop_distinct _ _ _ _ _ _ _ Hinj Hsub Hnd Hg) as [Hd Hy].
      rewrite (lookup_none_set t _ _ Hlw), root_tags_app, root_tags_cons, (mk_cols_tags _ _ Hlen).
      cbn [root_tags flat_map]. rewrite app_nil_r, <- app_assoc.
      eapply Permutation_NoDup; [apply Permutation_app_swap_app|].
      apply nodup_app_iff. repeat split; [exact Hd | exact Hw |].
      intros y Hyin Hin. destruct (Hy y Hyin) as [Hf | [n [k [_ Hr]]]].
      + apply Hf. apply in_or_app. right. exact Hin.
      + destruct (reuse_some _ _ _ _ Hr) as [c [Hc [Htag _]]]. subst ecols.
        destruct (lookup t (head s)) as [hc|]; [|destruct Hc].
        rewrite forallb_forall in Hsafe. specialize (Hsafe c Hc). rewrite Htag in Hsafe.
        apply mem_true_iff in Hin. rewrite Hin in Hsafe. discriminate.
    - (* ADD COLUMN *)
      destruct (lookup t (work s)) as [cs|] eqn:Hl; [|injection H as <-; split; assumption].
      destruct (has_col cs c) eqn:Hc; [injection H as <-; split; assumption|].
      pose proof (addcol_tag_fresh rand_seq fuel s t c k pos cs) as Ha.
      assert (Hstep : step rand_seq fuel s (AddCol t c k pos) = Some s').
      { unfold step. rewrite Hl, Hc. exact H. }
      destruct (Ha s' Hl Hc Hstep) as [tag [Hwork Hfresh]].
      pose proof (step_other _ _ _ _ Hstep) as Ho.
      assert (Hhead : head s' = head s).
      { clear -H. destruct (gen_tags rand_seq fuel cs _ t [(c, k)]) as [[|tg [|? ?]]|]; try discriminate. injection H as <-. reflexivity. }
      split; rewrite Ho; [|rewrite Hhead; exact Hh].
      rewrite Hwork. eapply set_existing_nodup; [exact Hl|]. intros RO HP.
      assert (Hperm : Permutation (map c_tag (insert_at pos {| c_name := c; c_kind := k; c_tag := tag |} cs) ++ RO) (tag :: map c_tag cs ++ RO)).
      { change (tag :: map c_tag cs ++ RO) with ((tag :: map c_tag cs) ++ RO). apply Permutation_app_tail.
        change (tag :: map c_tag cs) with (map c_tag ({| c_name := c; c_kind := k; c_tag := tag |} :: cs)).
        apply Permutation_map. apply insert_at_perm. }
      eapply Permutation_NoDup; [apply Permutation_sym; exact Hperm|].
      constructor.
      + intro Hin. apply Hfresh. eapply Permutation_in; [apply Permutation_sym; exact HP | exact Hin].
      + eapply Permutation_NoDup; [exact HP | exact Hw].
    - (* DROP COLUMN *)
      destruct (lookup t (work s)) as [cs|] eqn:Hl; injection H as <-; [|split; assumption].
      split; cbn [work head other]; [|exact Hh].
      eapply set_existing_nodup; [exact Hl|]. intros RO HP.
      pose proof (Permutation_NoDup HP Hw) as Hn. apply nodup_app_iff in Hn. destruct Hn as [H1 [H2 H3]].
      apply nodup_app_iff. repeat split; [apply NoDup_map_filter; exact H1 | exact H2 |].
      intros x Hx. apply H3. apply in_map_iff in Hx. destruct Hx as [y [Hy Hin]]. apply filter_In in Hin.
      rewrite <- Hy. apply in_map. apply Hin.
    - (* DROP TABLE *)
      injection H as <-. split; cbn [work head other]; [|exact Hh]. apply del_table_nodup. exact Hw.
    - (* RENAME COLUMN *)
      destruct (lookup t (work s)) as [cs|] eqn:Hl; [|injection H as <-; split; assumption].
      destruct (has_col cs b); injection H as <-; [split; assumption|].
      split; cbn [work head other]; [|exact Hh].
      eapply set_existing_nodup; [exact Hl|]. intros RO HP.
      rewrite map_map.
      rewrite (map_ext _ c_tag) by (intros x; destruct (eq_fold a (c_name x)); reflexivity).
      eapply Permutation_NoDup; [exact HP | exact Hw].
    - (* MODIFY COLUMN *)
      destruct (lookup t (work s)) as [cs|] eqn:Hl; injection H as <-; [|split; assumption].
      split; cbn [work head other]; [|exact Hh].
      eapply set_existing_nodup; [exact Hl|]. intros RO HP.
      rewrite map_map.
      rewrite (map_ext _ c_tag) by (intros x; destruct (eq_fold c (c_name x)); reflexivity).
      eapply Permutation_NoDup; [exact HP | exact Hw].
    - (* commit *)
      injection H as <-. split; cbn [work head other]; exact Hw.
  Qed.

  (* Full statement (false, see tags_distinct_refuted): for EVERY DDL sequence the tags of every reached root are pairwise distinct.
     Proved: for every DDL sequence (CREATE TABLE, ADD / DROP / RENAME / MODIFY COLUMN, DROP TABLE, commit), every random source
     and every starting state with distinct tags, if the decidable condition [safe_run] holds — every CREATE TABLE that re-creates
     a table HEAD still has finds none of the tags it re-uses in the working root — then the tags of the working root and of HEAD
     are pairwise distinct in every state the run reaches (up to the point where fuel runs out, if it does).
     Missing for the full statement: exactly the excluded runs, on which it is false in the model and in the implementation. *)
  Theorem tags_distinct_run_partial : forall fuel ds s,
    NoDup (root_tags (work s) ++ other s) -> NoDup (root_tags (head s) ++ other s) ->
    safe_run rand_seq fuel s ds = true ->
    forall s', In s' (reached rand_seq fuel s ds) ->
      NoDup (root_tags (work s') ++ other s') /\ NoDup (root_tags (head s') ++ other s').
  Proof.
    intros fuel ds. induction ds as [|d ds IH]; intros s Hw Hh Hsafe s' Hin; cbn [reached] in Hin.
    - destruct Hin as [<-|[]]. split; assumption.
    - destruct Hin as [<-|Hin]; [split; assumption|].
      cbn [safe_run] in Hsafe. apply andb_prop in Hsafe. destruct Hsafe as [Hc Hrest].
      destruct (step rand_seq fuel s d) as [s1|] eqn:Hs; [|destruct Hin].
      destruct (step_inv fuel s d s1 (conj Hw Hh) Hc Hs) as [Hw1 Hh1].
      apply (IH s1 Hw1 Hh1 Hrest s' Hin).
  Qed.

  (* a CREATE TABLE of a table HEAD does not have is always safe *)
  Lemma create_safe_fresh s t news : lookup t (head s) = None -> create_safe s (Create t news) = true.
  Proof. intros H. unfold create_safe. rewrite H. destruct (negb _); [reflexivity|]. destruct (lookup t (work s)); reflexivity. Qed.

  (* ---- the syntactic sufficient condition ---- *)
  Definition has (t : bytes) (r : root) : bool := match lookup t r with Some _ => true | None => false end.

  Lemma beq_bytes_sym a b : beq_bytes a b = beq_bytes b a.
  Proof.
    destruct (beq_bytes a b) eqn:E1, (beq_bytes b a) eqn:E2; try reflexivity.
    - apply beq_bytes_spec in E1. subst. rewrite beq_bytes_refl in E2. discriminate.
    - apply beq_bytes_spec in E2. subst. rewrite beq_bytes_refl in E1. discriminate.
  Qed.

  Lemma has_set_table t cs t' : forall r, has t' (set_table t cs r) = beq_bytes t t' || has t' r.
  Proof.
    unfold has. induction r as [|[n c0] r IH]; cbn [set_table lookup].
    - destruct (beq_bytes t t'); reflexivity.
    - destruct (beq_bytes n t) eqn:E.
      + apply beq_bytes_spec in E. subst n. cbn [lookup]. destruct (beq_bytes t t'); reflexivity.
      + cbn [lookup]. destruct (beq_bytes n t'); [rewrite orb_true_r; reflexivity | exact IH].
  Qed.

  Lemma has_set_existing t cs t' r : has t r = true -> has t' (set_table t cs r) = has t' r.
  Proof.
    intros H. rewrite has_set_table. destruct (beq_bytes t t') eqn:E; [|reflexivity].
    apply beq_bytes_spec in E. subst. rewrite H. reflexivity.
  Qed.

  Lemma has_del_table t t' : forall r, has t' (del_table t r) = has t' r && negb (beq_bytes t' t).
  Proof.
    unfold has. induction r as [|[n c0] r IH]; cbn [del_table filter fst lookup]; [reflexivity|].
    destruct (beq_bytes n t) eqn:E; cbn [negb].
    - apply beq_bytes_spec in E. subst n. fold (del_table t r). rewrite IH.
      rewrite (beq_bytes_sym t t'). destruct (beq_bytes t' t); [rewrite andb_false_r; reflexivity | reflexivity].
    - cbn [lookup]. fold (del_table t r). destruct (beq_bytes n t') eqn:E'.
      + apply beq_bytes_spec in E'. subst n. rewrite E. reflexivity.
      + exact IH.
  Qed.

  Lemma mem_name_filter t t' : forall l, mem_name t' (filter (fun n => negb (beq_bytes n t)) l) = mem_name t' l && negb (beq_bytes t' t).
  Proof.
    unfold mem_name. induction l as [|n l IH]; cbn [filter existsb]; [reflexivity|].
    destruct (beq_bytes n t) eqn:E; cbn [negb existsb].
    - rewrite IH. destruct (beq_bytes t' n) eqn:E'; [|reflexivity].
      apply beq_bytes_spec in E'. subst n. rewrite E. cbn [negb orb]. rewrite andb_false_r. reflexivity.
    - rewrite IH. destruct (beq_bytes t' n) eqn:E'; [|reflexivity].
      apply beq_bytes_spec in E'. subst n. rewrite E. reflexivity.
  Qed.

  (* "no CREATE TABLE of a table HEAD has while the working root does not": a condition on the statement list and the table names
     alone (no tags, no random source) that puts the run in the safe class *)
  Theorem no_recreate_safe : forall fuel ds s hn wn,
    (forall t, mem_name t hn = has t (head s)) -> (forall t, mem_name t wn = has t (work s)) ->
    no_recreate hn wn ds = true -> safe_run rand_seq fuel s ds = true.
  Proof.
    intros fuel ds. induction ds as [|d ds IH]; intros s hn wn Hh Hw Hn; [reflexivity|].
    cbn [safe_run].
    destruct d as [t news | t c k pos | t c | t | t a b | t c k | ]; cbn [no_recreate] in Hn.
    - (* CREATE *)
      unfold create_safe, step.
      destruct (negb (names_distinct (map fst news))) eqn:Hnd; cbn [orb] in Hn.
      { cbn [andb]. apply (IH s hn wn Hh Hw Hn). }
      pose proof (Hw t) as Hwt. unfold has in Hwt.
      destruct (lookup t (work s)) as [wc|] eqn:Hlw.
      { rewrite Hwt in Hn. cbn [andb]. apply (IH s hn wn Hh Hw Hn). }
      rewrite Hwt in Hn. apply andb_prop in Hn. destruct Hn as [Hnh Hn].
      pose proof (Hh t) as Hht. unfold has in Hht.
      destruct (lookup t (head s)) as [hc|] eqn:Hlh; [rewrite Hht in Hnh; discriminate|].
      cbn [andb].
      destruct (gen_tags rand_seq fuel [] _ t news) as [tags|]; [|reflexivity].
      apply (IH _ hn (t :: wn)); cbn [head work]; [exact Hh | | exact Hn].
      intros t'. rewrite has_set_table. unfold mem_name. cbn [existsb]. fold (mem_name t' wn). rewrite (beq_bytes_sym t' t), Hw. reflexivity.
    - (* ADD COLUMN *)
      cbn [create_safe andb]. unfold step.
      destruct (lookup t (work s)) as [cs|] eqn:Hl; [|apply (IH s hn wn Hh Hw Hn)].
      destruct (has_col cs c); [apply (IH s hn wn Hh Hw Hn)|].
      destruct (gen_tags rand_seq fuel cs _ t [(c, k)]) as [[|tag [|? ?]]|]; try reflexivity.
      apply (IH _ hn wn); cbn [head work]; [exact Hh | | exact Hn].
      intros t'. rewrite has_set_existing; [apply Hw | unfold has; rewrite Hl; reflexivity].
    - cbn [create_safe andb]. unfold step.
      destruct (lookup t (work s)) as [cs|] eqn:Hl; [|apply (IH s hn wn Hh Hw Hn)].
      apply (IH _ hn wn); cbn [head work]; [exact Hh | | exact Hn].
      intros t'. rewrite has_set_existing; [apply Hw | unfold has; rewrite Hl; reflexivity].
    - (* DROP TABLE *)
      cbn [create_safe andb]. unfold step.
      apply (IH _ hn (filter (fun n => negb (beq_bytes n t)) wn)); cbn [head work]; [exact Hh | | exact Hn].
      intros t'. rewrite has_del_table, mem_name_filter, Hw. reflexivity.
    - cbn [create_safe andb]. unfold step.
      destruct (lookup t (work s)) as [cs|] eqn:Hl; [|apply (IH s hn wn Hh Hw Hn)].
      destruct (has_col cs b); [apply (IH s hn wn Hh Hw Hn)|].
      apply (IH _ hn wn); cbn [head work]; [exact Hh | | exact Hn].
      intros t'. rewrite has_set_existing; [apply Hw | unfold has; rewrite Hl; reflexivity].
    - cbn [create_safe andb]. unfold step.
      destruct (lookup t (work s)) as [cs|] eqn:Hl; [|apply (IH s hn wn Hh Hw Hn)].
      apply (IH _ hn wn); cbn [head work]; [exact Hh | | exact Hn].
      intros t'. rewrite has_set_existing; [apply Hw | unfold has; rewrite Hl; reflexivity].
    - (* commit *)
      cbn [create_safe andb]. unfold step.
      apply (IH _ wn wn); cbn [head work]; [exact Hw | exact Hw | exact Hn].
  Qed.

  Lemma mem_name_names t : forall r, mem_name t (map fst r) = has t r.
  Proof.
    unfold mem_name, has. induction r as [|[n c0] r IH]; cbn [map fst existsb lookup]; [reflexivity|].
    rewrite (beq_bytes_sym t n). destruct (beq_bytes n t); [reflexivity | exact IH].
  Qed.

  (* the run-level theorem under the purely syntactic condition *)
  Theorem tags_distinct_run_no_recreate : forall fuel ds s,
    NoDup (root_tags (work s) ++ other s) -> NoDup (root_tags (head s) ++ other s) ->
    no_recreate (map fst (head s)) (map fst (work s)) ds = true ->
    forall s', In s' (reached rand_seq fuel s ds) ->
      NoDup (root_tags (work s') ++ other s') /\ NoDup (root_tags (head s') ++ other s').
  Proof.
    intros fuel ds s Hw Hh Hn. apply tags_distinct_run_partial; [exact Hw | exact Hh |].
    apply (no_recreate_safe fuel ds s (map fst (head s)) (map fst (work s))); [intros t; apply mem_name_names | intros t; apply mem_name_names | exact Hn].
  Qed.
End RunDistinct.

(* ------------------------------------------------------------------ *)
(* the oracle holds on the model's own observation                     *)
(* ------------------------------------------------------------------ *)
Lemma last_indep {A} (b : A) l d d' : last (b :: l) d = last (b :: l) d'.
Proof. revert b. induction l as [|c l IH]; intros b; [reflexivity|]. cbn [last] in *. apply IH. Qed.

Lemma last_cons_default {A} (a : A) l d : last (a :: l) d = last l a.
Proof. destruct l as [|b l]; [reflexivity|]. cbn [last]. apply last_indep. Qed.

Lemma last_app_gen {A} (l1 l2 : list A) d : last (l1 ++ l2) d = last l2 (last l1 d).
Proof.
  revert d. induction l1 as [|a l1 IH]; intros d; [reflexivity|].
  cbn [app]. rewrite last_cons_default, IH. rewrite (last_cons_default a l1 d). reflexivity.
Qed.

Lemma run_states_last cands : forall ds s l sf, run_states cands s ds = (l, sf) -> last l (work s) = work sf.
Proof.
  induction ds as [|[d ok] ds IH]; intros s l sf H; cbn [run_states] in H.
  - injection H as <- <-. reflexivity.
  - match type of H with (let '(_, _) := run_states cands ?x ds in _) = _ => set (s1 := x) in * end.
    destruct (run_states cands s1 ds) as [l' sf'] eqn:E. injection H as <- <-.
    rewrite last_cons_default. apply (IH s1 l' sf' E).
Qed.

Lemma col_eqb_refl c : col_eqb c c = true.
Proof. unfold col_eqb. rewrite beq_bytes_refl, !N.eqb_refl. reflexivity. Qed.

Lemma root_same_refl r : root_same r r = true.
Proof.
  unfold root_same. apply forallb_forall. intros t _. destruct (lookup (fst t) r) as [cs|]; [|reflexivity].
  cbn [opt_cols_eqb]. apply (list_eqb_refl col_eqb col_eqb_refl).
Qed.

Lemma model_final_root i : final_root (model_obs i) = o_b2 (model_obs i).
Proof.
  unfold model_obs, final_root.
  destruct (run_states (i_cands i) {| head := []; work := []; other := [] |} (i_main i)) as [l1 s1] eqn:E1.
  destruct (run_states (i_cands i) {| head := work s1; work := work s1; other := [] |} (i_branch i)) as [l2 s2] eqn:E2.
  cbn [o_states o_b2]. rewrite last_app_gen.
  pose proof (run_states_last _ _ _ _ _ E1) as H1. cbn [work] in H1. rewrite H1.
  apply (run_states_last _ _ _ _ _ E2).
Qed.

(* clause (b): the model gives every branch / repository the same root — outright *)
Theorem oracle_b_on_model : forall i, oracle_b (model_obs i) = true.
Proof.
  intros i. unfold oracle_b. rewrite model_final_root.
  unfold model_obs.
  destruct (run_states (i_cands i) {| head := []; work := []; other := [] |} (i_main i)) as [l1 s1].
  destruct (run_states (i_cands i) {| head := work s1; work := work s1; other := [] |} (i_branch i)) as [l2 s2].
  cbn [o_b2 o_envb o_merged o_merge]. rewrite !root_same_refl. reflexivity.
Qed.

Lemma forallb_map_true {A} (l : list A) : forallb (fun b : bool => b) (map (fun _ => true) l) = true.
Proof. induction l; [reflexivity | exact IHl]. Qed.

(* clause (a): every well-formed stored schema and every foreign key collection comes back unchanged *)
Theorem oracle_a_on_model : forall i,
  Forall (wf_schema (fun x => x) (fun x => Some x)) (i_schemas i) -> oracle_a i (model_obs i) = true.
Proof.
  intros i Hwf. unfold oracle_a, model_obs.
  destruct (run_states (i_cands i) {| head := []; work := []; other := [] |} (i_main i)) as [l1 s1].
  destruct (run_states (i_cands i) {| head := work s1; work := work s1; other := [] |} (i_branch i)) as [l2 s2].
  cbn [o_back o_flags o_fks_back o_fkflags].
  rewrite !forallb_map_true, !map_length, !Nat.eqb_refl.
  assert (Hs : list_eqb opt_schema_eqb (map roundtrip (i_schemas i)) (map Some (i_schemas i)) = true).
  { induction Hwf as [|x l Hx Hl IH]; [reflexivity|]. cbn [map list_eqb]. unfold roundtrip at 1.
    rewrite (schema_roundtrip _ _ x Hx). cbn [opt_schema_eqb]. rewrite sschema_eqb_refl. exact IH. }
  assert (Hf : list_eqb opt_fks_eqb (map fk_roundtrip_m (i_fks i)) (map Some (i_fks i)) = true).
  { induction (i_fks i) as [|x l IH]; [reflexivity|]. cbn [map list_eqb]. unfold fk_roundtrip_m at 1.
    rewrite (fk_roundtrip (fun y => y) (fun y => Some y) x) by (intros k _; split; reflexivity).
    cbn [opt_fks_eqb]. rewrite (list_eqb_refl sfk_eqb sfk_eqb_refl). exact IH. }
  rewrite Hs, Hf. reflexivity.
Qed.

Lemma run_states_inv cands : forall ds s l sf,
  Inv s -> other s = [] -> steps_safe cands s ds = true -> run_states cands s ds = (l, sf) ->
  Forall (fun r => NoDup (root_tags r)) l /\ Inv sf /\ other sf = [].
Proof.
  induction ds as [|[d ok] ds IH]; intros s l sf Hi Ho Hs H; cbn [run_states steps_safe] in *.
  - injection H as <- <-. repeat split; [constructor | apply Hi | apply Hi | exact Ho].
  - destruct ok.
    + apply andb_prop in Hs. destruct Hs as [Hc Hs].
      destruct (step (rand_of cands) FUEL s d) as [s1|] eqn:E; [|discriminate].
      destruct (run_states cands s1 ds) as [l' sf'] eqn:E2. injection H as <- <-.
      pose proof (step_inv _ _ _ _ _ Hi Hc E) as Hi1.
      pose proof (step_other _ _ _ _ _ E) as Ho1. rewrite Ho in Ho1.
      destruct (IH s1 l' sf' Hi1 Ho1 Hs E2) as [Hf [Hif Hof]].
      repeat split; try assumption; try apply Hif.
      constructor; [|exact Hf]. destruct Hi1 as [Hw _]. rewrite Ho1, app_nil_r in Hw. exact Hw.
    + destruct (run_states cands s ds) as [l' sf'] eqn:E2. injection H as <- <-.
      destruct (IH s l' sf' Hi Ho Hs E2) as [Hf [Hif Hof]].
      repeat split; try assumption; try apply Hif.
      constructor; [|exact Hf]. destruct Hi as [Hw _]. rewrite Ho, app_nil_r in Hw. exact Hw.
Qed.

(* clause (c): on the inputs of the decidable class [input_safe] (every executed statement is create_safe and none runs out of
   fuel) the model's roots have pairwise distinct tags.  Outside that class the clause is false for the model as it is for the
   implementation (tags_distinct_refuted). *)
Theorem oracle_c_on_model_partial : forall i, input_safe i = true -> oracle_c (model_obs i) = true.
Proof.
  intros i Hs. unfold input_safe in Hs. unfold oracle_c, model_obs.
  destruct (run_states (i_cands i) {| head := []; work := []; other := [] |} (i_main i)) as [l1 s1] eqn:E1.
  apply andb_prop in Hs. destruct Hs as [Hs1 Hs2].
  destruct (run_states (i_cands i) {| head := work s1; work := work s1; other := [] |} (i_branch i)) as [l2 s2] eqn:E2.
  cbn [o_states o_b2 o_envb o_merged].
  assert (Hi0 : Inv {| head := []; work := []; other := [] |}) by (split; constructor).
  destruct (run_states_inv _ _ _ _ _ Hi0 eq_refl Hs1 E1) as [Hf1 [[Hw1 _] Ho1]].
  assert (Hi1 : Inv {| head := work s1; work := work s1; other := [] |}).
  { rewrite Ho1 in Hw1. split; exact Hw1. }
  destruct (run_states_inv _ _ _ _ _ Hi1 eq_refl Hs2 E2) as [Hf2 [[Hw2 _] Ho2]].
  rewrite Ho2, app_nil_r in Hw2. apply distinct_iff in Hw2. rewrite !Hw2.
  assert (Hall : forallb (fun r => distinct (root_tags r)) (l1 ++ l2) = true).
  { apply forallb_forall. intros r Hr. apply distinct_iff. apply in_app_or in Hr.
    destruct Hr as [Hr|Hr]; [apply (proj1 (Forall_forall _ _) Hf1 r Hr) | apply (proj1 (Forall_forall _ _) Hf2 r Hr)]. }
  rewrite Hall. reflexivity.
Qed.

Theorem oracle_on_model_partial : forall i,
  Forall (wf_schema (fun x => x) (fun x => Some x)) (i_schemas i) -> input_safe i = true ->
  oracle_abc i (model_obs i) = true.
Proof.
  intros i Hwf Hs. unfold oracle_abc.
  rewrite (oracle_a_on_model i Hwf), (oracle_b_on_model i), (oracle_c_on_model_partial i Hs). reflexivity.
Qed.

(* ------------------------------------------------------------------ *)
(* commit placement                                                    *)
(* ------------------------------------------------------------------ *)
(* Full statement (false): the tags a DDL sequence assigns do not depend on where commits are placed between the statements.
   Refutation in the faithful model: t (a, x) committed; DROP TABLE t; CREATE TABLE t (n, a).  Without a commit in between the
   kept column a re-uses HEAD's tag (drawn with the seed of its old position: no column before it) and n is seeded with a's
   kind; with a commit in between both are drawn afresh with the seeds of their new positions.  Any random source that looks at
   the seed's kinds separates the two (the witness replays on the implementation: known finding
   tags:recreate-tags-depend-on-commit-placement).  When the kept columns are a prefix of both definitions the seeds coincide;
   that class is checked by the correspondence (oracle_d) only. *)
Definition cp_rand (t c : bytes) (ks : list N) (k m : N) (i : nat) : N :=
  N.of_nat (List.length ks) * 1000 + hd 0 c * 10 + N.of_nat i.
Definition cp_base : list ddl := [Create [116] [([97], 15); ([120], 2)]; Commit; DropTable [116]].
Definition cp_new : ddl := Create [116] [([110], 15); ([97], 15)].

Theorem commit_placement_refuted :
  exists rand_seq sx sy,
    run rand_seq 8 {| head := []; work := []; other := [] |} (cp_base ++ [cp_new]) = Some sx
    /\ run rand_seq 8 {| head := []; work := []; other := [] |} (cp_base ++ [Commit; cp_new]) = Some sy
    /\ list_eqb N.eqb (root_tags (work sx)) (root_tags (work sy)) = false.
Proof.
  exists cp_rand. eexists. eexists.
  split; [vm_compute; reflexivity|]. split; [vm_compute; reflexivity|]. vm_compute. reflexivity.
Qed.
