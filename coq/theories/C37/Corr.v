(* C37 — correspondence: the model is run on the DDL script the implementation executed, with the candidate
   sequences the real AutoGenerateTag draws (reported by the harness per seed key) standing for the random
   source; the oracle is the property evaluated on what the implementation returned:
   (a) every stored schema of the final root (and of the extra repository with fulltext / vector / spatial indexes) comes back from
       SerializeSchema/DeserializeSchema with every modelled field equal and the serialization is deterministic; the same for the
       foreign key collections through SerializeForeignKeys/DeserializeForeignKeys,
   (b) the second branch, the independent repository and the merged branch have the same tables, columns and tags
       as the first branch, and the merge was clean,
   (c) the tags of every observed root are pairwise distinct. *)
From Coq Require Import NArith List Bool String Ascii.
From Dolt Require Import Base.Str C37.Model C37.Spec.
Import ListNotations.
Local Open Scope N_scope.

(* byte strings of a case are written as string literals (cheaper to parse than lists of numerals) *)
Definition bs (s : string) : bytes := map N_of_ascii (list_ascii_of_string s).

Definition seed_key := (bytes * bytes * list N * N)%type.

Record input := {
  i_main : list (ddl * bool);               (* statement, accepted by the implementation? (rejected ones are skipped) *)
  i_branch : list (ddl * bool);
  i_cands : list (seed_key * list N);       (* what the real generator draws for the seeds the script needs *)
  i_schemas : list sschema;                 (* the stored schemas of the final root (and of the extra repository), as read through the doltdb API *)
  i_fks : list (list sfk);                  (* the foreign key collections of those roots *)
  (* same DDL statements, different commit placement: base (then committed); route x and route y from there; the fresh route from nothing *)
  i_rc_base : list (ddl * bool); i_rc_x : list (ddl * bool); i_rc_y : list (ddl * bool); i_rc_fresh : list (ddl * bool)
}.

Record obs := {
  o_states : list root;                     (* working root after every statement of main ++ branch (repository A, branch b1) *)
  o_b2 : root; o_envb : root; o_merged : root;
  o_merge : N;                              (* 0 clean, 1 conflicts / schema conflicts reported, 2 error *)
  o_back : list (option sschema);           (* DeserializeSchema (SerializeSchema s) for each s of i_schemas; None = error *)
  o_flags : list bool;                      (* per table: SchemasAreEqual, TypeInfo.Equals for every column, same SHOW CREATE TABLE in A and B,
                                               SerializeSchema deterministic (twice / after the round trip / in A and B: same bytes; same schema hash in A, B and on b2) *)
  o_fks_back : list (option (list sfk));    (* DeserializeForeignKeys (SerializeForeignKeys c) for each collection; None = error *)
  o_fkflags : list bool;                    (* per collection: serialization deterministic (twice / after the round trip: same bytes) *)
  o_rc_x : root; o_rc_y : root; o_rc_yrepo : root; o_rc_fresh : root;   (* final roots of the routes (y also in an independent repository) *)
  o_rc_merge : N                            (* merge of branch x into branch y: 0 clean, 1 conflicts, 2 error *)
}.
Definition case := (input * obs)%type.

Definition key_eqb (a b : seed_key) : bool :=
  let '(t1, c1, ks1, k1) := a in let '(t2, c2, ks2, k2) := b in
  beq_bytes t1 t2 && beq_bytes c1 c2 && list_eqb N.eqb ks1 ks2 && (k1 =? k2).

Fixpoint cands_of (k : seed_key) (l : list (seed_key * list N)) : list N :=
  match l with [] => [] | (k', s) :: l' => if key_eqb k k' then s else cands_of k l' end.

(* 2^60 never is a real tag: running out of reported candidates shows as a mismatch *)
Definition rand_of (cands : list (seed_key * list N)) (t c : bytes) (ks : list N) (k : N) (_ : N) (i : nat) : N :=
  nth i (cands_of (t, c, ks, k) cands) 1152921504606846976.

Definition FUEL : nat := 64.

Fixpoint run_states (cands : list (seed_key * list N)) (s : st) (ds : list (ddl * bool)) : list root * st :=
  match ds with
  | [] => ([], s)
  | (d, ok) :: ds' =>
      let s' := if ok then match step (rand_of cands) FUEL s d with Some x => x | None => {| head := []; work := [([0], [])]; other := [] |} end
                else s in
      let '(l, sf) := run_states cands s' ds' in (work s' :: l, sf)
  end.

Definition roundtrip (s : sschema) : option sschema := deserialize (fun x => Some x) (serialize (fun x => x) s).
Definition fk_roundtrip_m (l : list sfk) : option (list sfk) := fk_deserialize (fun x => Some x) (fk_serialize (fun x => x) l).

(* the inputs on which clause (c) of the oracle is claimed for the model: every executed statement is [create_safe] and none exhausts its fuel *)
Fixpoint steps_safe (cands : list (seed_key * list N)) (s : st) (ds : list (ddl * bool)) : bool :=
  match ds with
  | [] => true
  | (d, ok) :: ds' =>
      if ok then create_safe s d && match step (rand_of cands) FUEL s d with Some s' => steps_safe cands s' ds' | None => false end
      else steps_safe cands s ds'
  end.

Definition st0 : st := {| head := []; work := []; other := [] |}.
Definition rc_base_state (i : input) : st :=
  let s := snd (run_states (i_cands i) st0 (i_rc_base i)) in {| head := work s; work := work s; other := [] |}.
Definition rc_route (i : input) (ds : list (ddl * bool)) : root := work (snd (run_states (i_cands i) (rc_base_state i) ds)).
Definition rc_fresh (i : input) : root := work (snd (run_states (i_cands i) st0 (i_rc_fresh i))).

Definition model_obs (i : input) : obs :=
  let s0 := {| head := []; work := []; other := [] |} in
  let '(l1, s1) := run_states (i_cands i) s0 (i_main i) in
  let s1c := {| head := work s1; work := work s1; other := [] |} in      (* the harness commits before branching *)
  let '(l2, s2) := run_states (i_cands i) s1c (i_branch i) in
  {| o_states := l1 ++ l2; o_b2 := work s2; o_envb := work s2; o_merged := work s2; o_merge := 0;
     o_back := map roundtrip (i_schemas i);
     o_flags := map (fun _ => true) (i_schemas i);
     o_fks_back := map fk_roundtrip_m (i_fks i);
     o_fkflags := map (fun _ => true) (i_fks i);
     o_rc_x := rc_route i (i_rc_x i); o_rc_y := rc_route i (i_rc_y i); o_rc_yrepo := rc_route i (i_rc_y i); o_rc_fresh := rc_fresh i;
     o_rc_merge := 0 |}.

Definition input_safe (i : input) : bool :=
  let s0 := {| head := []; work := []; other := [] |} in
  steps_safe (i_cands i) s0 (i_main i)
  && (let '(_, s1) := run_states (i_cands i) s0 (i_main i) in
      steps_safe (i_cands i) {| head := work s1; work := work s1; other := [] |} (i_branch i)).

(* ---- comparison: roots as maps from table name to columns ---- *)
Definition col_eqb (a b : col) : bool := beq_bytes (c_name a) (c_name b) && (c_kind a =? c_kind b) && (c_tag a =? c_tag b).
Definition opt_cols_eqb (a b : option (list col)) : bool :=
  match a, b with Some x, Some y => list_eqb col_eqb x y | None, None => true | _, _ => false end.
Definition root_same (a b : root) : bool :=
  forallb (fun t => opt_cols_eqb (lookup (fst t) a) (lookup (fst t) b)) (a ++ b).

Definition opt_schema_eqb (a b : option sschema) : bool :=
  match a, b with Some x, Some y => sschema_eqb x y | None, None => true | _, _ => false end.

Definition opt_fks_eqb (a b : option (list sfk)) : bool :=
  match a, b with Some x, Some y => list_eqb sfk_eqb x y | None, None => true | _, _ => false end.

Definition obs_eqb (a b : obs) : bool :=
  list_eqb root_same (o_states a) (o_states b)
  && root_same (o_b2 a) (o_b2 b) && root_same (o_envb a) (o_envb b) && root_same (o_merged a) (o_merged b)
  && (o_merge a =? o_merge b)
  && list_eqb opt_schema_eqb (o_back a) (o_back b)
  && list_eqb Bool.eqb (o_flags a) (o_flags b)
  && list_eqb opt_fks_eqb (o_fks_back a) (o_fks_back b)
  && list_eqb Bool.eqb (o_fkflags a) (o_fkflags b)
  && root_same (o_rc_x a) (o_rc_x b) && root_same (o_rc_y a) (o_rc_y b) && root_same (o_rc_yrepo a) (o_rc_yrepo b)
  && root_same (o_rc_fresh a) (o_rc_fresh b) && (o_rc_merge a =? o_rc_merge b).

(* ---- the property on the implementation's observation ---- *)
Definition final_root (o : obs) : root := last (o_states o) [].

(* (a) faithful round trip, field by field, and deterministic serialization — schemas and foreign key collections *)
Definition oracle_a (i : input) (o : obs) : bool :=
  list_eqb opt_schema_eqb (o_back o) (map Some (i_schemas i))
  && forallb (fun b => b) (o_flags o) && Nat.eqb (List.length (o_flags o)) (List.length (i_schemas i))
  && list_eqb opt_fks_eqb (o_fks_back o) (map Some (i_fks i))
  && forallb (fun b => b) (o_fkflags o) && Nat.eqb (List.length (o_fkflags o)) (List.length (i_fks i)).
(* (b) same DDL => same tags and schemas on the other branch, in the independent repository, and a clean merge *)
Definition oracle_b (o : obs) : bool :=
  root_same (final_root o) (o_b2 o) && root_same (final_root o) (o_envb o) && root_same (final_root o) (o_merged o)
  && (o_merge o =? 0).
(* (c) tags pairwise distinct within every observed root *)
Definition oracle_c (o : obs) : bool :=
  forallb (fun r => distinct (root_tags r)) (o_states o)
  && distinct (root_tags (o_b2 o)) && distinct (root_tags (o_envb o)) && distinct (root_tags (o_merged o)).

(* (d) the same statements with the commit placed differently (DROP + CREATE in one working set / a commit in between / a
   repository that never had the table) assign the same tags column by column, and the two branches merge cleanly.
   Not a theorem of the model: a new column's first candidate may equal the tag of a dropped column that only the route without
   the commit still sees in HEAD (probability ~ 1/16384 per pair of columns); on such an input model and implementation agree
   and the clause is false for both. *)
Definition oracle_d (o : obs) : bool :=
  root_same (o_rc_x o) (o_rc_y o) && root_same (o_rc_x o) (o_rc_yrepo o)
  && forallb (fun t => opt_cols_eqb (Some (snd t)) (lookup (fst t) (o_rc_x o))) (o_rc_fresh o)
  && (o_rc_merge o =? 0).

Definition oracle_abc (i : input) (o : obs) : bool := oracle_a i o && oracle_b o && oracle_c o.
Definition oracle (i : input) (o : obs) : bool := oracle_abc i o && oracle_d o.

Definition check_case (c : case) : N :=
  (if obs_eqb (model_obs (fst c)) (snd c) then 0 else 1)
  + (if oracle (fst c) (snd c) then 0 else 2).
