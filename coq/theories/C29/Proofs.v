(* C29 — proofs about the model of dolt's row-level three-way merge. *)
From Coq Require Import NArith List Bool Lia.
From Dolt Require Import C29.Model C29.Spec C29.Corr.
Import ListNotations.
Local Open Scope N_scope.

(* ---------- basic reflection ---------- *)
Lemma cell_eqb_spec (a b : cell) : reflect (a = b) (cell_eqb a b).
Proof.
  destruct a as [x|], b as [y|]; cbn [cell_eqb]; try (constructor; congruence).
  destruct (N.eqb_spec x y); constructor; congruence.
Qed.

Lemma cell_eqb_refl a : cell_eqb a a = true.
Proof. destruct (cell_eqb_spec a a); congruence. Qed.

Lemma ocell_eqb_spec (a b : option cell) : reflect (a = b) (ocell_eqb a b).
Proof.
  destruct a as [x|], b as [y|]; cbn [ocell_eqb]; try (constructor; congruence).
  destruct (cell_eqb_spec x y); constructor; congruence.
Qed.

Lemma ocell_eqb_refl a : ocell_eqb a a = true.
Proof. destruct (ocell_eqb_spec a a); congruence. Qed.

Lemma row_eqb_eq (a b : row) : row_eqb a b = true <-> a = b.
Proof.
  revert b; induction a as [|x a IH]; intros [|y b]; cbn [row_eqb]; split; intro H; try congruence; try discriminate.
  - apply andb_true_iff in H as [H1 H2]. destruct (cell_eqb_spec x y); try discriminate. apply IH in H2. congruence.
  - inversion H; subst. rewrite cell_eqb_refl. apply IH. reflexivity.
Qed.

Lemma mem_In c s : mem c s = true <-> In c s.
Proof.
  unfold mem. rewrite existsb_exists. split.
  - intros [x [Hin Hx]]. apply N.eqb_eq in Hx. subst. exact Hin.
  - intro Hin. exists c. split; [exact Hin|apply N.eqb_refl].
Qed.

Lemma index_of_none c s : index_of c s = None <-> mem c s = false.
Proof.
  induction s as [|x s IH]; cbn [index_of mem existsb]; [tauto|].
  rewrite (N.eqb_sym c x). destruct (x =? c); cbn [orb].
  - split; discriminate.
  - fold (mem c s). rewrite <- IH. destruct (index_of c s); cbn [option_map]; split; congruence.
Qed.

Lemma col_none s r c : col s r c = None <-> mem c s = false.
Proof.
  unfold col. rewrite <- index_of_none. destruct (index_of c s); split; congruence.
Qed.

Lemma col_some s r c : (exists v, col s r c = Some v) <-> mem c s = true.
Proof.
  destruct (col s r c) eqn:E.
  - split; [|eauto]. intros _. destruct (mem c s) eqn:M; [reflexivity|]. apply (col_none s r c) in M. rewrite M in E. discriminate.
  - apply col_none in E. rewrite E. split; [intros [v Hv]|]; discriminate.
Qed.

Lemma col_some_mem s r c v : col s r c = Some v -> mem c s = true.
Proof. intro H. apply (col_some s r c). eauto. Qed.

Lemma col_some_ex s r c : mem c s = true -> exists v, col s r c = Some v.
Proof. intro H. apply (col_some s r c). exact H. Qed.

Lemma mem_app c a b : mem c (a ++ b) = mem c a || mem c b.
Proof. unfold mem. apply existsb_app. Qed.

Lemma mem_filter c f s : mem c (filter f s) = mem c s && f c.
Proof.
  apply eq_true_iff_eq. rewrite andb_true_iff, !mem_In, filter_In. tauto.
Qed.

Lemma mem_merged c sb sl sr :
  mem c (merged_schema sb sl sr)
  = (mem c sl && implb (mem c sb) (mem c sr)) || (mem c sr && (negb (mem c sl) && negb (mem c sb))).
Proof. unfold merged_schema. rewrite mem_app, !mem_filter. reflexivity. Qed.

(* ---------- merge_total ---------- *)
Lemma base_pass_total f cs : (forall c, f c <> None) -> base_pass f cs <> None.
Proof.
  intro H. induction cs as [|c cs IH]; cbn [base_pass]; [discriminate|].
  specialize (H c). destruct (f c) as [[|]|]; [discriminate|exact IH|congruence].
Qed.

Lemma base_col_fixed_total sb sl sr b ol or c : base_col true sb sl sr b ol or c <> None.
Proof.
  unfold base_col. destruct ol as [l|], or as [r|]; try discriminate.
  - destruct (col sl l c), (col sr r c); discriminate.
  - destruct (col sl l c); discriminate.
  - destruct (col sr r c); discriminate.
Qed.

Lemma col_pass_total f cs : (forall c, In c cs -> f c <> CErr) -> col_pass f cs <> TErr.
Proof.
  induction cs as [|c cs IH]; intro H; cbn [col_pass]; [discriminate|].
  pose proof (H c (or_introl eq_refl)) as Hc.
  destruct (f c); [congruence|discriminate|].
  assert (IH' : col_pass f cs <> TErr) by (apply IH; intros; apply H; right; assumption).
  destruct (col_pass f cs); congruence.
Qed.

Lemma ocol_some_mem sb ob c v : ocol sb ob c = Some v -> mem c sb = true.
Proof. destruct ob as [b|]; cbn [ocol]; [|discriminate]. apply col_some_mem. Qed.

Lemma merged_col_total sb sl sr ob l r c :
  mem c (merged_schema sb sl sr) = true -> merged_col sb sl sr ob l r c <> CErr.
Proof.
  rewrite mem_merged. intro Hm. unfold merged_col.
  destruct (ocol sb ob c) as [bv|] eqn:Eb.
  - apply ocol_some_mem in Eb. rewrite Eb in Hm. cbn [implb negb andb orb] in Hm.
    rewrite !andb_false_r, orb_false_r in Hm. apply andb_true_iff in Hm as [Hl Hr].
    apply (col_some_ex sl l c) in Hl as [lv Hl]. apply (col_some_ex sr r c) in Hr as [rv Hr]. rewrite Hl, Hr.
    destruct (cell_eqb lv rv); [discriminate|]. destruct (negb (cell_eqb lv bv) && negb (cell_eqb rv bv)); [discriminate|].
    destruct (negb (cell_eqb lv bv)); discriminate.
  - destruct (col sl l c) as [lv|] eqn:El, (col sr r c) as [rv|] eqn:Er; try discriminate.
    + destruct (cell_eqb lv rv); discriminate.
    + apply col_none in El. apply col_none in Er. rewrite El, Er in Hm. discriminate.
Qed.

Lemma side_diff_nn f : side_diff f None None = false.
Proof. reflexivity. Qed.

(* merge_total: with the repaired processBaseColumn, no triple of schemas and no triple of row
   versions reaches an internal-error branch — in particular not with added, dropped or moved columns. *)
Theorem row_merge_total : forall sb sl sr ob ol or, row_merge true sb sl sr ob ol or <> RErr.
Proof.
  intros. unfold row_merge.
  destruct (side_diff (side_flag sb sl sr) ob ol) eqn:Dl, (side_diff (side_flag sb sr sl) ob or) eqn:Dr; try discriminate.
  destruct ol as [l|], or as [r|]; try discriminate.
  - destruct (row_eqb l r); [discriminate|].
    assert (T : try_merge true sb sl sr (merged_schema sb sl sr) ob (Some l) (Some r) <> TErr).
    { unfold try_merge.
      destruct ob as [b|].
      - pose proof (base_pass_total (base_col true sb sl sr b (Some l) (Some r)) sb (base_col_fixed_total sb sl sr b (Some l) (Some r))) as Hb.
        destruct (base_pass _ sb) as [[|]|]; [discriminate| |congruence].
        apply col_pass_total. intros c Hc. apply merged_col_total. apply mem_In. exact Hc.
      - apply col_pass_total. intros c Hc. apply merged_col_total. apply mem_In. exact Hc. }
    destruct (try_merge _ _ _ _ _ _ _ _); congruence.
  - destruct ob as [b|]; [|discriminate].
    assert (T : try_merge true sb sl sr (merged_schema sb sl sr) (Some b) (Some l) None <> TErr).
    { unfold try_merge.
      pose proof (base_pass_total _ sb (base_col_fixed_total sb sl sr b (Some l) None)) as Hb.
      destruct (base_pass _ sb) as [[|]|]; [discriminate|discriminate|congruence]. }
    destruct (try_merge _ _ _ _ _ _ _ _); congruence.
  - destruct ob as [b|]; [|discriminate].
    assert (T : try_merge true sb sl sr (merged_schema sb sl sr) (Some b) None (Some r) <> TErr).
    { unfold try_merge.
      pose proof (base_pass_total _ sb (base_col_fixed_total sb sl sr b None (Some r))) as Hb.
      destruct (base_pass _ sb) as [[|]|]; [discriminate|discriminate|congruence]. }
    destruct (try_merge _ _ _ _ _ _ _ _); congruence.
Qed.

Theorem merge_total : forall sb sl sr b l r, m_err (table_merge true sb sl sr b l r) = false.
Proof.
  intros. unfold table_merge. cbn [m_err].
  destruct (existsb _ _) eqn:E; [|reflexivity].
  apply existsb_exists in E as [k [_ Hk]]. unfold merge_key in Hk.
  pose proof (row_merge_total sb sl sr (get k b) (get k l) (get k r)) as T.
  destruct (row_merge _ _ _ _ _ _ _); [congruence|discriminate].
Qed.

(* F5: the line as found (rightSchema indexed with the left column index) does reach an internal
   error: the right side dropped column 0 and deleted row 1, the left side modified row 1. *)
Theorem merge_total_as_found_refuted :
  exists sb sl sr b l r, m_err (table_merge false sb sl sr b l r) = true
                         /\ m_err (table_merge false sb sr sl b r l) = false.
Proof.
  exists [0;1], [0;1], [1], [(1, [Some 1; Some 1])], [(1, [Some 1; Some 9])], [].
  split; vm_compute; reflexivity.
Qed.

(* ---------- table level: the merged table and the conflict list are the key-wise merge ---------- *)
Lemma get_none_keys k t : get k t = None <-> ~ In k (keys t).
Proof.
  induction t as [|[k' r] t IH]; cbn [get keys map fst]; [tauto|].
  destruct (N.eqb_spec k' k) as [e|n].
  - split; [discriminate|]. intro H. exfalso. apply H. left. exact e.
  - unfold keys in IH. rewrite IH. split; intro H.
    + intros [E|I]; [congruence|tauto].
    + intro I. apply H. right. exact I.
Qed.

Lemma merge_key_absent fixed sb sl sr b l r k :
  ~ In k (all_keys b l r) -> merge_key fixed sb sl sr b l r k = ROk None false.
Proof.
  unfold all_keys. rewrite nodup_In, !in_app_iff. intro H. unfold merge_key.
  assert (Hb : get k b = None) by (apply get_none_keys; tauto).
  assert (Hl : get k l = None) by (apply get_none_keys; tauto).
  assert (Hr : get k r = None) by (apply get_none_keys; tauto).
  rewrite Hb, Hl, Hr. reflexivity.
Qed.

Lemma existsb_eqb_In k ks : existsb (N.eqb k) ks = true <-> In k ks.
Proof. apply (mem_In k ks). Qed.

Lemma get_flat_map (g : N -> option row) ks k :
  get k (flat_map (fun k' => match g k' with Some v => [(k', v)] | None => [] end) ks)
  = if existsb (N.eqb k) ks then g k else None.
Proof.
  induction ks as [|k' ks IH]; cbn [flat_map existsb]; [reflexivity|].
  rewrite (N.eqb_sym k k').
  destruct (g k') as [v|] eqn:G; cbn [app get].
  - destruct (N.eqb_spec k' k) as [e|n]; cbn [orb]; [subst; rewrite G; reflexivity|exact IH].
  - rewrite IH. destruct (N.eqb_spec k' k) as [e|n]; cbn [orb]; [|reflexivity].
    subst. rewrite G. destruct (existsb _ ks); reflexivity.
Qed.

Lemma getc_flat_map (g : N -> option (option row * option row * option row)) ks k :
  getc k (flat_map (fun k' => match g k' with Some e => [(k', e)] | None => [] end) ks)
  = if existsb (N.eqb k) ks then g k else None.
Proof.
  induction ks as [|k' ks IH]; cbn [flat_map existsb]; [reflexivity|].
  rewrite (N.eqb_sym k k').
  destruct (g k') as [v|] eqn:G; cbn [app getc].
  - destruct (N.eqb_spec k' k) as [e|n]; cbn [orb]; [subst; rewrite G; reflexivity|exact IH].
  - rewrite IH. destruct (N.eqb_spec k' k) as [e|n]; cbn [orb]; [|reflexivity].
    subst. rewrite G. destruct (existsb _ ks); reflexivity.
Qed.

Theorem table_merge_get : forall fixed sb sl sr b l r k,
  get k (m_rows (table_merge fixed sb sl sr b l r))
  = match merge_key fixed sb sl sr b l r k with ROk v _ => v | RErr => None end.
Proof.
  intros. unfold table_merge. cbn [m_rows].
  rewrite (flat_map_ext _ (fun k' => match (match merge_key fixed sb sl sr b l r k' with ROk v _ => v | RErr => None end) with
                                     | Some v => [(k', v)] | None => [] end)).
  2:{ intro a. destruct (merge_key fixed sb sl sr b l r a) as [|[v|] c]; reflexivity. }
  rewrite get_flat_map. destruct (existsb (N.eqb k) (all_keys b l r)) eqn:E; [reflexivity|].
  rewrite merge_key_absent; [reflexivity|]. intro H. apply existsb_eqb_In in H. congruence.
Qed.

Theorem conflicts_exact : forall fixed sb sl sr b l r k,
  getc k (m_conf (table_merge fixed sb sl sr b l r))
  = match merge_key fixed sb sl sr b l r k with
    | ROk v true => Some (get k b, v, get k r)
    | _ => None
    end.
Proof.
  intros. unfold table_merge. cbn [m_conf].
  rewrite (flat_map_ext _ (fun k' => match (match merge_key fixed sb sl sr b l r k' with
                                            | ROk v true => Some (get k' b, v, get k' r) | _ => None end) with
                                     | Some e => [(k', e)] | None => [] end)).
  2:{ intro a. destruct (merge_key fixed sb sl sr b l r a) as [|v [|]]; reflexivity. }
  rewrite getc_flat_map. destruct (existsb (N.eqb k) (all_keys b l r)) eqn:E; [reflexivity|].
  rewrite merge_key_absent; [reflexivity|]. intro H. apply existsb_eqb_In in H. congruence.
Qed.

(* ---------- TryMerge with both rows present is the cell-wise merge (any schemas) ---------- *)
Definition is_conf (x : cres) : bool := match x with CConf => true | _ => false end.
Definition val_of (x : cres) : cell := match x with CVal v => v | _ => None end.
Definition to_cres (x : option (option cell)) : cres := match x with None => CConf | Some o => CVal (nullify o) end.

Lemma base_pass_exists f g cs : (forall c, f c = Some (g c)) -> base_pass f cs = Some (existsb g cs).
Proof.
  intro H. induction cs as [|c cs IH]; cbn [base_pass existsb]; [reflexivity|].
  rewrite H. destruct (g c); cbn [orb]; [reflexivity|exact IH].
Qed.

Lemma col_pass_spec f cs : (forall c, In c cs -> f c <> CErr) ->
  col_pass f cs = if existsb (fun c => is_conf (f c)) cs then TConflict else TMerged (map (fun c => val_of (f c)) cs).
Proof.
  induction cs as [|c cs IH]; intro H; cbn [col_pass existsb map]; [reflexivity|].
  pose proof (H c (or_introl eq_refl)) as Hc.
  destruct (f c) as [| |v] eqn:E; cbn [is_conf orb val_of]; [congruence|reflexivity|].
  rewrite IH by (intros; apply H; right; assumption).
  destruct (existsb _ cs); reflexivity.
Qed.

Lemma merged_col_spec sb sl sr ob l r c :
  mem c (merged_schema sb sl sr) = true ->
  merged_col sb sl sr ob l r c = to_cres (cell_merge (ocol sb ob c) (col sl l c) (col sr r c)).
Proof.
  rewrite mem_merged. intro Hm. unfold merged_col, cell_merge.
  destruct (ocol sb ob c) as [bv|] eqn:Eb.
  - apply ocol_some_mem in Eb. rewrite Eb in Hm. cbn [implb negb andb orb] in Hm.
    rewrite !andb_false_r, orb_false_r in Hm. apply andb_true_iff in Hm as [Hl Hr].
    apply (col_some_ex sl l c) in Hl as [lv Hl]. apply (col_some_ex sr r c) in Hr as [rv Hr]. rewrite Hl, Hr.
    cbn [ocell_eqb].
    destruct (cell_eqb_spec lv rv), (cell_eqb_spec lv bv), (cell_eqb_spec rv bv);
      cbn [negb andb to_cres nullify]; try reflexivity; exfalso; congruence.
  - destruct (col sl l c) as [lv|] eqn:El, (col sr r c) as [rv|] eqn:Er; cbn [ocell_eqb].
    + destruct (cell_eqb lv rv); reflexivity.
    + reflexivity.
    + reflexivity.
    + apply col_none in El. apply col_none in Er. rewrite El, Er in Hm. discriminate.
Qed.

Definition gboth (sb sl sr : schema) (b l r : row) (c : N) : bool :=
  match col sl l c, col sr r c with
  | None, Some v => cmp_base sb b c v
  | Some v, None => cmp_base sb b c v
  | _, _ => false
  end.

Lemma base_col_both sb sl sr b l r c :
  base_col true sb sl sr b (Some l) (Some r) c = Some (gboth sb sl sr b l r c).
Proof. unfold base_col, gboth. destruct (col sl l c), (col sr r c); reflexivity. Qed.

Lemma clash_outside sb sl sr ob l r c :
  clash_at sb sl sr ob l r c = true -> mem c (merged_schema sb sl sr) = false ->
  exists b, ob = Some b /\ mem c sb = true /\ gboth sb sl sr b l r c = true.
Proof.
  rewrite mem_merged. unfold clash_at, cell_merge, gboth, cmp_base. intros Hc Hm.
  destruct ob as [b|]; cbn [ocol] in Hc.
  - destruct (col sb b c) as [bv|] eqn:Eb.
    + exists b. pose proof (col_some_mem _ _ _ _ Eb) as Mb. rewrite Mb in Hm. split; [reflexivity|]. split; [exact Mb|]. rewrite Eb.
      destruct (col sl l c) as [lv|] eqn:El, (col sr r c) as [rv|] eqn:Er; cbn [ocell_eqb nullify] in *.
      * rewrite (col_some_mem _ _ _ _ El), (col_some_mem _ _ _ _ Er) in Hm. discriminate.
      * destruct (cell_eqb_spec lv bv), (cell_eqb_spec bv lv); cbv iota in Hc; cbn [negb]; try discriminate; try reflexivity; congruence.
      * destruct (cell_eqb_spec rv bv), (cell_eqb_spec bv rv); cbv iota in Hc; cbn [negb]; try discriminate; try reflexivity; congruence.
      * discriminate.
    + exfalso. destruct (col sl l c) as [lv|] eqn:El, (col sr r c) as [rv|] eqn:Er; cbn [ocell_eqb] in Hc; try discriminate.
      rewrite (col_some_mem _ _ _ _ El), (col_some_mem _ _ _ _ Er) in Hm.
      destruct (mem c sb); discriminate.
  - exfalso. destruct (col sl l c) as [lv|] eqn:El, (col sr r c) as [rv|] eqn:Er; cbn [ocell_eqb] in Hc; try discriminate.
    rewrite (col_some_mem _ _ _ _ El), (col_some_mem _ _ _ _ Er) in Hm.
    destruct (mem c sb); discriminate.
Qed.

Lemma gboth_clash sb sl sr b l r c :
  mem c sb = true -> gboth sb sl sr b l r c = true -> clash_at sb sl sr (Some b) l r c = true.
Proof.
  intros Mb. apply (col_some_ex sb b c) in Mb as [bv Eb].
  unfold gboth, clash_at, cell_merge, cmp_base. cbn [ocol]. rewrite Eb. cbn [nullify].
  destruct (col sl l c) as [lv|], (col sr r c) as [rv|]; cbn [ocell_eqb]; try discriminate.
  - destruct (cell_eqb_spec bv lv), (cell_eqb_spec lv bv); try discriminate; try reflexivity; congruence.
  - destruct (cell_eqb_spec bv rv), (cell_eqb_spec rv bv); try discriminate; try reflexivity; congruence.
Qed.

Lemma conflict_split sb sl sr ob l r :
  cellwise_conflict sb sl sr ob l r
  = (match ob with Some b => existsb (gboth sb sl sr b l r) sb | None => false end)
    || existsb (fun c => is_conf (merged_col sb sl sr ob l r c)) (merged_schema sb sl sr).
Proof.
  apply eq_true_iff_eq. unfold cellwise_conflict. rewrite orb_true_iff, !existsb_exists. split.
  - intros [c [Hin Hc]].
    destruct (mem c (merged_schema sb sl sr)) eqn:Mm.
    + right. exists c. split; [apply mem_In; exact Mm|].
      rewrite merged_col_spec by exact Mm. unfold clash_at in Hc.
      destruct (cell_merge _ _ _); [discriminate|reflexivity].
    + left. destruct (clash_outside _ _ _ _ _ _ _ Hc Mm) as [b [Eo [Mb G]]]. subst ob.
      apply existsb_exists. exists c. split; [apply mem_In; exact Mb|exact G].
  - intros [H|[c [Hin Hc]]].
    + destruct ob as [b|]; [|discriminate]. apply existsb_exists in H as [c [Hin G]].
      exists c. split; [apply in_or_app; left; exact Hin|].
      apply gboth_clash; [apply mem_In; exact Hin|exact G].
    + pose proof Hin as Mm. apply mem_In in Mm. exists c. split.
      * rewrite mem_merged in Mm. apply in_or_app. right. apply in_or_app.
        destruct (mem c sl) eqn:Ml; [left; apply mem_In; exact Ml|right].
        cbn [andb orb] in Mm. apply andb_true_iff in Mm as [Mr _]. apply mem_In. exact Mr.
      * rewrite merged_col_spec in Hc by exact Mm. unfold clash_at.
        destruct (cell_merge _ _ _); [discriminate|reflexivity].
Qed.

Lemma cellwise_row_eq sb sl sr ob l r :
  map (fun c => val_of (merged_col sb sl sr ob l r c)) (merged_schema sb sl sr)
  = cellwise_row sb sl sr (merged_schema sb sl sr) ob l r.
Proof.
  unfold cellwise_row. apply map_ext_in. intros c Hin. apply mem_In in Hin.
  rewrite merged_col_spec by exact Hin.
  destruct (cell_merge _ _ _) as [[v|]|]; reflexivity.
Qed.

Lemma try_merge_both sb sl sr ob l r :
  try_merge true sb sl sr (merged_schema sb sl sr) ob (Some l) (Some r)
  = if cellwise_conflict sb sl sr ob l r then TConflict
    else TMerged (cellwise_row sb sl sr (merged_schema sb sl sr) ob l r).
Proof.
  rewrite conflict_split. unfold try_merge.
  assert (CP : col_pass (merged_col sb sl sr ob l r) (merged_schema sb sl sr)
               = if existsb (fun c => is_conf (merged_col sb sl sr ob l r c)) (merged_schema sb sl sr)
                 then TConflict else TMerged (cellwise_row sb sl sr (merged_schema sb sl sr) ob l r)).
  { rewrite col_pass_spec by (intros c Hc; apply merged_col_total; apply mem_In; exact Hc).
    rewrite cellwise_row_eq. reflexivity. }
  destruct ob as [b|].
  - rewrite (base_pass_exists _ (gboth sb sl sr b l r)) by (intro c; apply base_col_both).
    destruct (existsb (gboth sb sl sr b l r) sb); cbn [orb]; [reflexivity|exact CP].
  - cbn [orb]. exact CP.
Qed.

(* ---------- the differ layer: the whole row merge refines the declarative merge ---------- *)
(* The schema class of the property (one side adds columns anywhere or drops columns; no moves):
   a side whose column list differs from the ancestor's carries the schema-change flag. *)
Definition schemas_ok (sb sl sr : schema) : Prop :=
  (side_flag sb sl sr = false -> sl = sb) /\ (side_flag sb sr sl = false -> sr = sb).

(* two sides whose stored tuples for the key are byte-identical have the same column list (otherwise the
   differ's convergent-edit shortcut misreads one side's bytes under the other's schema: byte_coincidence_refuted) *)
Definition conv_ok (sl sr : schema) (ol or : option row) : Prop :=
  forall x, ol = Some x -> or = Some x -> sl = sr.

Lemma filter_all {A} (f : A -> bool) l : (forall x, In x l -> f x = true) -> filter f l = l.
Proof.
  induction l as [|x l IH]; intro H; cbn [filter]; [reflexivity|].
  rewrite (H x (or_introl eq_refl)). f_equal. apply IH. intros y Hy. apply H. right. exact Hy.
Qed.

Lemma filter_none {A} (f : A -> bool) l : (forall x, In x l -> f x = false) -> filter f l = [].
Proof.
  induction l as [|x l IH]; intro H; cbn [filter]; [reflexivity|].
  rewrite (H x (or_introl eq_refl)). apply IH. intros y Hy. apply H. right. exact Hy.
Qed.

Lemma merged_schema_same sb s : merged_schema sb s s = s.
Proof.
  unfold merged_schema.
  rewrite filter_all, filter_none; [apply app_nil_r| |].
  - intros c Hc. apply mem_In in Hc. rewrite Hc. reflexivity.
  - intros c Hc. apply mem_In in Hc. rewrite Hc. destruct (mem c sb); reflexivity.
Qed.

(* cells of columns the ancestor lacks are NULL *)
Definition newcols_null (sb ss : schema) (s : row) : Prop :=
  forall c v, mem c sb = false -> col ss s c = Some v -> v = None.

(* the hypothesis that separates the proved part of conflict_iff from the refuted part: when one
   side deleted the row, the surviving row was not changed only in columns its side added *)
Definition delete_visible (sb sl sr : schema) (ob ol or : option row) : Prop :=
  match ob, ol, or with
  | Some _, None, Some r => newcols_null sb sr r
  | Some _, Some l, None => newcols_null sb sl l
  | _, _, _ => True
  end.

Lemma side_diff_false flag (sb s : schema) ob os :
  (flag = false -> s = sb) -> side_diff flag ob os = false ->
  (ob = None /\ os = None) \/ (exists b, ob = Some b /\ os = Some b /\ s = sb).
Proof.
  intros Hs. unfold side_diff. destruct ob as [b|], os as [x|]; try discriminate.
  - intro H. apply orb_false_iff in H as [Hf Hr]. right. exists b.
    apply negb_false_iff in Hr. apply row_eqb_eq in Hr. subst. auto.
  - auto.
Qed.

Lemma cell_merge_right_base x y : cell_merge x y x = Some y.
Proof.
  unfold cell_merge. destruct (ocell_eqb_spec y x) as [e|n]; [reflexivity|].
  rewrite ocell_eqb_refl. reflexivity.
Qed.

Lemma cell_merge_left_base x y : cell_merge x x y = Some y.
Proof.
  unfold cell_merge. destruct (ocell_eqb_spec x y) as [e|n]; [subst; reflexivity|].
  rewrite ocell_eqb_refl. reflexivity.
Qed.

Lemma cell_merge_agree b x : cell_merge b x x = Some x.
Proof. unfold cell_merge. rewrite ocell_eqb_refl. reflexivity. Qed.

Lemma cellwise_of_pointwise sb sl sr ob l r (f : N -> option cell) :
  (forall c, cell_merge (ocol sb ob c) (col sl l c) (col sr r c) = Some (f c)) ->
  cellwise_conflict sb sl sr ob l r = false
  /\ forall sm, cellwise_row sb sl sr sm ob l r = map (fun c => nullify (f c)) sm.
Proof.
  intro H. split.
  - unfold cellwise_conflict. destruct (existsb _ _) eqn:E; [|reflexivity].
    apply existsb_exists in E as [c [_ Hc]]. unfold clash_at in Hc. rewrite H in Hc. discriminate.
  - intro sm. unfold cellwise_row. apply map_ext. intro c. rewrite H. destruct (f c); reflexivity.
Qed.

Lemma modified_refl sb b : modified sb sb b b = false.
Proof.
  unfold modified. destruct (existsb _ _) eqn:E; [|reflexivity].
  apply existsb_exists in E as [c [Hin Hc]]. apply mem_In in Hin.
  apply (col_some_ex sb b c) in Hin as [v Hv]. rewrite Hv in Hc. cbn [nullify] in Hc.
  rewrite ocell_eqb_refl in Hc. discriminate.
Qed.

Definition gone (sb ss : schema) (b s : row) (c : N) : bool :=
  match col ss s c with Some v => cmp_base sb b c v | None => false end.

Lemma modified_visible sb ss b s :
  newcols_null sb ss s -> modified sb ss b s = existsb (gone sb ss b s) sb.
Proof.
  intro Hn. apply eq_true_iff_eq. unfold modified, gone, cmp_base. rewrite !existsb_exists. split.
  - intros [c [Hin Hc]]. pose proof Hin as Ms. apply mem_In in Ms.
    apply (col_some_ex ss s c) in Ms as [v Hv]. rewrite Hv in Hc. cbn [ocell_eqb] in Hc.
    destruct (mem c sb) eqn:Mb.
    + exists c. split; [apply mem_In; exact Mb|]. rewrite Hv.
      destruct (cell_eqb_spec v (nullify (col sb b c))), (cell_eqb_spec (nullify (col sb b c)) v);
        try discriminate; try reflexivity; congruence.
    + exfalso. pose proof (Hn c v Mb Hv) as Ev. subst v.
      apply (col_none sb b c) in Mb. rewrite Mb in Hc. discriminate.
  - intros [c [Hin Hc]]. destruct (col ss s c) as [v|] eqn:Hv; [|discriminate].
    exists c. split; [apply mem_In; eapply col_some_mem; exact Hv|].
    rewrite Hv. cbn [ocell_eqb].
    destruct (cell_eqb_spec v (nullify (col sb b c))), (cell_eqb_spec (nullify (col sb b c)) v);
      try discriminate; try reflexivity; congruence.
Qed.

Lemma base_col_left_only sb sl sr b l c :
  base_col true sb sl sr b (Some l) None c = Some (gone sb sl b l c).
Proof. unfold base_col, gone. destruct (col sl l c); reflexivity. Qed.

Lemma base_col_right_only sb sl sr b r c :
  base_col true sb sl sr b None (Some r) c = Some (gone sb sr b r c).
Proof. unfold base_col, gone. destruct (col sr r c); reflexivity. Qed.

Theorem row_merge_refines_spec : forall sb sl sr ob ol or,
  schemas_ok sb sl sr -> conv_ok sl sr ol or -> delete_visible sb sl sr ob ol or ->
  row_merge true sb sl sr ob ol or
  = ROk (fst (spec_row sb sl sr ob ol or)) (snd (spec_row sb sl sr ob ol or)).
Proof.
  intros sb sl sr ob ol or [Hl Hr] Cv Dv. unfold row_merge.
  destruct (side_diff (side_flag sb sl sr) ob ol) eqn:Dl;
    destruct (side_diff (side_flag sb sr sl) ob or) eqn:Dr.
  - (* both sides have a diff *)
    destruct ol as [l|], or as [r|].
    + destruct (row_eqb l r) eqn:E.
      * apply row_eqb_eq in E. subst r.
        assert (sl = sr) by (apply (Cv l); reflexivity). subst sr.
        destruct (cellwise_of_pointwise sb sl sl ob l l (col sl l) (fun c => cell_merge_agree _ _)) as [C R].
        unfold spec_row. rewrite !merged_schema_same. destruct ob; rewrite C, R; reflexivity.
      * rewrite try_merge_both. unfold spec_row.
        destruct ob; destruct (cellwise_conflict _ _ _ _ _ _); reflexivity.
    + destruct ob as [b|]; [|discriminate]. cbn [delete_visible] in Dv.
      unfold try_merge. rewrite (base_pass_exists _ (gone sb sl b l)) by (intro c; apply base_col_left_only).
      unfold spec_row. rewrite (modified_visible _ _ _ _ Dv).
      destruct (existsb (gone sb sl b l) sb); reflexivity.
    + destruct ob as [b|]; [|discriminate]. cbn [delete_visible] in Dv.
      unfold try_merge. rewrite (base_pass_exists _ (gone sb sr b r)) by (intro c; apply base_col_right_only).
      unfold spec_row. rewrite (modified_visible _ _ _ _ Dv).
      destruct (existsb (gone sb sr b r) sb); reflexivity.
    + destruct ob; reflexivity.
  - (* only the left side has a diff *)
    destruct (side_diff_false _ sb sr ob or Hr Dr) as [[Eb Eo]|[b [Eb [Eo Es]]]]; subst.
    + destruct ol as [l|]; [reflexivity|discriminate].
    + destruct ol as [l|].
      * destruct (cellwise_of_pointwise sb sl sb (Some b) l b (col sl l)) as [C R].
        { intro c. apply cell_merge_right_base. }
        unfold spec_row. rewrite C, R. reflexivity.
      * unfold spec_row. rewrite modified_refl. reflexivity.
  - (* only the right side has a diff *)
    destruct (side_diff_false _ sb sl ob ol Hl Dl) as [[Eb Eo]|[b [Eb [Eo Es]]]]; subst.
    + destruct or as [r|]; [reflexivity|discriminate].
    + destruct or as [r|].
      * destruct (cellwise_of_pointwise sb sb sr (Some b) b r (col sr r)) as [C R].
        { intro c. apply cell_merge_left_base. }
        unfold spec_row. rewrite C, R. reflexivity.
      * unfold spec_row. rewrite modified_refl. reflexivity.
  - (* no diff *)
    destruct (side_diff_false _ sb sl ob ol Hl Dl) as [[Eb Eo]|[b [Eb [Eo Es]]]]; subst.
    + destruct (side_diff_false _ sb sr None or Hr Dr) as [[_ Eo]|[b [Eb _]]]; [subst; reflexivity|discriminate].
    + destruct (side_diff_false _ sb sr (Some b) or Hr Dr) as [[Eb _]|[b' [Eb [Eo Es]]]]; [discriminate|].
      inversion Eb; subst b' or sr.
      destruct (cellwise_of_pointwise sb sb sb (Some b) b b (col sb b) (fun c => cell_merge_agree _ _)) as [C R].
      unfold spec_row. rewrite C, R. reflexivity.
Qed.

(* ---------- conflict_iff ---------- *)
Lemma cell_merge_none_iff b l r : cell_merge b l r = None <-> cell_clash b l r.
Proof.
  unfold cell_merge, cell_clash.
  destruct (ocell_eqb_spec l r), (ocell_eqb_spec l b), (ocell_eqb_spec r b); split; intro H;
    try discriminate; try tauto; try (destruct H as [H1 [H2 H3]]; congruence).
Qed.

Lemma cellwise_conflict_iff sb sl sr ob l r :
  cellwise_conflict sb sl sr ob l r = true
  <-> exists c, cell_clash (ocol sb ob c) (col sl l c) (col sr r c).
Proof.
  unfold cellwise_conflict. rewrite existsb_exists. split.
  - intros [c [_ Hc]]. exists c. apply cell_merge_none_iff. unfold clash_at in Hc.
    destruct (cell_merge _ _ _); [discriminate|reflexivity].
  - intros [c Hc]. exists c. split.
    + destruct Hc as [H1 [H2 H3]].
      destruct (col sl l c) as [lv|] eqn:El.
      * apply in_or_app. right. apply in_or_app. left. apply mem_In. eapply col_some_mem. exact El.
      * destruct (col sr r c) as [rv|] eqn:Er; [|congruence].
        apply in_or_app. right. apply in_or_app. right. apply mem_In. eapply col_some_mem. exact Er.
    + apply cell_merge_none_iff in Hc. unfold clash_at. rewrite Hc. reflexivity.
Qed.

Lemma spec_conflict_iff sb sl sr ob ol or :
  snd (spec_row sb sl sr ob ol or) = true <-> conflict_prop sb sl sr ob ol or.
Proof.
  unfold spec_row, conflict_prop.
  destruct ol as [l|], or as [r|].
  - assert (E : snd (if cellwise_conflict sb sl sr ob l r
                     then (Some (remap (merged_schema sb sl sr) sl l), true)
                     else (Some (cellwise_row sb sl sr (merged_schema sb sl sr) ob l r), false))
                = cellwise_conflict sb sl sr ob l r) by (destruct (cellwise_conflict _ _ _ _ _ _); reflexivity).
    destruct ob as [b|]; rewrite E, cellwise_conflict_iff; split.
    + intros [c Hc]. right. right. exists l, r, c. auto.
    + intros [[b0 [r0 [_ [H _]]]]|[[b0 [l0 [_ [_ [H _]]]]]|[l0 [r0 [c [H1 [H2 H3]]]]]]]; try discriminate.
      inversion H1; inversion H2; subst. eauto.
    + intros [c Hc]. right. right. exists l, r, c. auto.
    + intros [[b0 [r0 [_ [H _]]]]|[[b0 [l0 [_ [_ [H _]]]]]|[l0 [r0 [c [H1 [H2 H3]]]]]]]; try discriminate.
      inversion H1; inversion H2; subst. eauto.
  - destruct ob as [b|]; cbn [snd]; split.
    + destruct (modified sb sl b l) eqn:M; cbn [snd]; [|discriminate]. intros _. right. left. exists b, l. auto.
    + intros [[b0 [r0 [_ [H _]]]]|[[b0 [l0 [H0 [H1 [_ M]]]]]|[l0 [r0 [c [_ [H _]]]]]]]; try discriminate.
      inversion H0; inversion H1; subst. rewrite M. reflexivity.
    + discriminate.
    + intros [[b0 [r0 [H _]]]|[[b0 [l0 [H _]]]|[l0 [r0 [c [_ [H _]]]]]]]; discriminate.
  - destruct ob as [b|]; cbn [snd]; split.
    + intro M. left. exists b, r. auto.
    + intros [[b0 [r0 [H0 [_ [H1 M]]]]]|[[b0 [l0 [_ [H _]]]]|[l0 [r0 [c [H _]]]]]]; try discriminate.
      inversion H0; inversion H1; subst. exact M.
    + discriminate.
    + intros [[b0 [r0 [H _]]]|[[b0 [l0 [H _]]]|[l0 [r0 [c [H _]]]]]]; discriminate.
  - destruct ob; cbn [snd]; split; try discriminate;
      intros [[b0 [r0 [_ [_ [H _]]]]]|[[b0 [l0 [_ [H _]]]]|[l0 [r0 [c [H _]]]]]]; discriminate.
Qed.

(* conflict_iff (full statement): for every schema triple of the property's class and all tables, a
   conflict is recorded for key k exactly when both sides changed the same cell differently or one
   side deleted a row the other modified.  FALSE of the faithful model without [delete_visible] and
   for moved columns: see conflict_iff_refuted / reorder_update_lost.  Proved part: *)
Theorem conflict_iff_partial : forall sb sl sr b l r k,
  schemas_ok sb sl sr -> conv_ok sl sr (get k l) (get k r) ->
  delete_visible sb sl sr (get k b) (get k l) (get k r) ->
  (exists e, getc k (m_conf (table_merge true sb sl sr b l r)) = Some e)
  <-> conflict_prop sb sl sr (get k b) (get k l) (get k r).
Proof.
  intros sb sl sr b l r k Hs Cv Dv. rewrite conflicts_exact. unfold merge_key.
  rewrite (row_merge_refines_spec _ _ _ _ _ _ Hs Cv Dv). rewrite <- spec_conflict_iff.
  destruct (snd (spec_row sb sl sr (get k b) (get k l) (get k r))); split; intro H; try discriminate; eauto.
  destruct H as [e H]. discriminate.
Qed.

(* delete vs. update confined to a column the modifying side added: no conflict is recorded and the
   update is dropped (the ancestor has columns [0;1], right added column 9 and set it on row 1,
   left deleted row 1). *)
Theorem conflict_iff_refuted :
  exists sb sl sr b l r k,
    schemas_ok sb sl sr /\ conv_ok sl sr (get k l) (get k r)
    /\ conflict_prop sb sl sr (get k b) (get k l) (get k r)
    /\ getc k (m_conf (table_merge true sb sl sr b l r)) = None
    /\ get k (m_rows (table_merge true sb sl sr b l r)) = None.
Proof.
  exists [0;1], [0;1], [0;1;9], [(1, [Some 1; Some 1])], [], [(1, [Some 1; Some 1; Some 5])], 1.
  split; [|split; [|split; [|split]]].
  - unfold schemas_ok. split; vm_compute; intro H; try reflexivity; discriminate.
  - intros x H. discriminate.
  - left. exists [Some 1; Some 1], [Some 1; Some 1; Some 5]. vm_compute. auto.
  - vm_compute. reflexivity.
  - vm_compute. reflexivity.
Qed.

(* byte coincidence across schemas: the right side dropped column 0; the left side set column 1 of
   row 1 to NULL, so its stored tuple (trailing NULL trimmed) is [0] — the same bytes as the right
   side's rewritten tuple [0] = (column 1 = 0).  The differ takes this for a convergent edit, keeps
   our bytes and reads them under the merged schema: column 1 = 0, our update to NULL is lost, no
   conflict.  (ThreeWayDiffer stores leftAndRightSchemasDiffer but never consults it.) *)
Theorem byte_coincidence_refuted :
  exists sb sl sr b l r k,
    schemas_ok sb sl sr /\ delete_visible sb sl sr (get k b) (get k l) (get k r)
    /\ spec_row sb sl sr (get k b) (get k l) (get k r) = (Some [None], false)
    /\ row_merge true sb sl sr (get k b) (get k l) (get k r) = ROk (Some [Some 0]) false.
Proof.
  exists [0;1], [0;1], [1], [(1, [Some 0; Some 0])], [(1, [Some 0])], [(1, [Some 0])], 1.
  split; [|split; [|split]].
  - unfold schemas_ok. split; vm_compute; intro H; try reflexivity; discriminate.
  - exact I.
  - vm_compute. reflexivity.
  - vm_compute. reflexivity.
Qed.

(* moved columns: the left side moved column 0 behind column 1 and swapped the two values of row 1,
   so its row bytes equal the ancestor's; the right side set column 0.  Both sides changed cell 0
   differently, no conflict is recorded and the left side's update of both cells is lost. *)
Theorem reorder_update_lost :
  exists sb sl sr b l r k,
    conflict_prop sb sl sr (get k b) (get k l) (get k r)
    /\ getc k (m_conf (table_merge true sb sl sr b l r)) = None
    /\ get k (m_rows (table_merge true sb sl sr b l r)) = Some [Some 2; Some 3].
Proof.
  exists [0;1], [1;0], [0;1], [(1, [Some 1; Some 2])], [(1, [Some 1; Some 2])], [(1, [Some 3; Some 2])], 1.
  split; [|split]; try (vm_compute; reflexivity).
  right. right. exists [Some 1; Some 2], [Some 3; Some 2], 0. vm_compute.
  split; [reflexivity|]. split; [reflexivity|]. repeat split; discriminate.
Qed.

(* ---------- corollaries ---------- *)
Lemma side_flag_same sb s' : side_flag sb sb s' = false.
Proof.
  unfold side_flag. apply orb_false_iff. split.
  - destruct (existsb _ sb) eqn:E; [|reflexivity]. apply existsb_exists in E as [c [Hin Hc]].
    apply mem_In in Hin. rewrite Hin in Hc. discriminate.
  - destruct (existsb _ s') eqn:E; [|reflexivity]. apply existsb_exists in E as [c [_ Hc]].
    destruct (mem c sb); discriminate.
Qed.

Lemma side_diff_same ob : side_diff false ob ob = false.
Proof.
  destruct ob as [b|]; cbn [side_diff orb]; [|reflexivity].
  assert (row_eqb b b = true) by (apply row_eqb_eq; reflexivity). rewrite H. reflexivity.
Qed.

(* merge_one_sided: a key the right side left untouched (same schema, same row) keeps our version —
   no hypotheses; and symmetrically a key we left untouched takes their version. *)
Theorem merge_one_sided_left : forall sb sl ob ol,
  row_merge true sb sl sb ob ol ob = ROk (option_map (remap (merged_schema sb sl sb) sl) ol) false.
Proof.
  intros. unfold row_merge. rewrite (side_flag_same sb sl), side_diff_same.
  destruct (side_diff _ ob ol); reflexivity.
Qed.

Theorem merge_one_sided_right : forall sb sr ob or,
  schemas_ok sb sb sr ->
  row_merge true sb sb sr ob ob or = ROk (option_map (remap (merged_schema sb sb sr) sr) or) false.
Proof.
  intros sb sr ob or Hs. unfold row_merge. rewrite (side_flag_same sb sr), side_diff_same.
  destruct (side_diff (side_flag sb sr sb) ob or) eqn:Dr; [reflexivity|].
  destruct Hs as [_ Hr].
  destruct (side_diff_false _ sb sr ob or Hr Dr) as [[Eb Eo]|[b [Eb [Eo Es]]]]; subst; reflexivity.
Qed.

(* merge_agree: both sides made the same change (same schema, same row): no conflict, that row. *)
Theorem merge_agree : forall sb s ob o,
  schemas_ok sb s s ->
  row_merge true sb s s ob o o = ROk (option_map (remap (merged_schema sb s s) s) o) false.
Proof.
  intros sb s ob o Hs.
  assert (Dv : delete_visible sb s s ob o o) by (destruct ob, o; exact I).
  assert (Cv : conv_ok s s o o) by (intros x _ _; reflexivity).
  rewrite (row_merge_refines_spec _ _ _ _ _ _ Hs Cv Dv). unfold spec_row.
  destruct o as [x|].
  - destruct (cellwise_of_pointwise sb s s ob x x (col s x) (fun c => cell_merge_agree _ _)) as [C R].
    destruct ob; rewrite C, R; reflexivity.
  - destruct ob; reflexivity.
Qed.

(* merge_cellwise: both rows present and no conflict: every cell of the merged row is the three-way
   merge of that cell. *)
Theorem merge_cellwise : forall sb sl sr ob l r,
  schemas_ok sb sl sr -> (l = r -> sl = sr) ->
  cellwise_conflict sb sl sr ob l r = false ->
  row_merge true sb sl sr ob (Some l) (Some r)
  = ROk (Some (cellwise_row sb sl sr (merged_schema sb sl sr) ob l r)) false.
Proof.
  intros sb sl sr ob l r Hs Hc C.
  assert (Dv : delete_visible sb sl sr ob (Some l) (Some r)) by (destruct ob; exact I).
  assert (Cv : conv_ok sl sr (Some l) (Some r)) by (intros x H1 H2; apply Hc; congruence).
  rewrite (row_merge_refines_spec sb sl sr ob (Some l) (Some r) Hs Cv Dv). unfold spec_row.
  destruct ob; rewrite C; reflexivity.
Qed.

(* ---------- merge_swap ---------- *)
Lemma schemas_ok_sym sb sl sr : schemas_ok sb sl sr -> schemas_ok sb sr sl.
Proof. intros [A B]. split; [exact B|exact A]. Qed.

Lemma conv_ok_sym sl sr ol or : conv_ok sl sr ol or -> conv_ok sr sl or ol.
Proof. intros H x H1 H2. symmetry. apply (H x); assumption. Qed.

Lemma delete_visible_sym sb sl sr ob ol or : delete_visible sb sl sr ob ol or -> delete_visible sb sr sl ob or ol.
Proof. unfold delete_visible. destruct ob, ol, or; auto. Qed.

Lemma cell_clash_sym b l r : cell_clash b l r -> cell_clash b r l.
Proof. unfold cell_clash. intros [A [B C]]. auto. Qed.

Lemma conflict_prop_sym sb sl sr ob ol or : conflict_prop sb sl sr ob ol or -> conflict_prop sb sr sl ob or ol.
Proof.
  unfold conflict_prop. intros [[b [r H]]|[[b [l H]]|[l [r [c [H1 [H2 H3]]]]]]].
  - right. left. exists b, r. tauto.
  - left. exists b, l. tauto.
  - right. right. exists r, l, c. split; [exact H2|]. split; [exact H1|]. apply cell_clash_sym. exact H3.
Qed.

(* merge_swap (full statement): swapping the two sides yields the same table data on the keys
   without conflict and the mirrored conflicts.  FALSE of the faithful model for moved columns
   (reorder_update_lost; the byte-equal convergent-edit shortcut keeps "ours").  Proved part: in the
   add/drop class the two directions record a conflict for exactly the same keys, with the same
   ancestor row and each direction's "theirs" being the other direction's own version. *)
Theorem merge_swap_partial : forall sb sl sr b l r k,
  schemas_ok sb sl sr -> conv_ok sl sr (get k l) (get k r) ->
  delete_visible sb sl sr (get k b) (get k l) (get k r) ->
  match getc k (m_conf (table_merge true sb sl sr b l r)), getc k (m_conf (table_merge true sb sr sl b r l)) with
  | None, None => True
  | Some (b1, _, t1), Some (b2, _, t2) => b1 = b2 /\ t1 = get k r /\ t2 = get k l
  | _, _ => False
  end.
Proof.
  intros sb sl sr b l r k Hs Cv Dv.
  pose proof (conflict_iff_partial sb sl sr b l r k Hs Cv Dv) as [A1 A2].
  pose proof (conflict_iff_partial sb sr sl b r l k (schemas_ok_sym _ _ _ Hs) (conv_ok_sym _ _ _ _ Cv) (delete_visible_sym _ _ _ _ _ _ Dv)) as [B1 B2].
  rewrite !conflicts_exact in *. unfold merge_key in *.
  destruct (row_merge true sb sl sr (get k b) (get k l) (get k r)) as [|v1 [|]];
    destruct (row_merge true sb sr sl (get k b) (get k r) (get k l)) as [|v2 [|]]; auto.
  all: try solve [exfalso; destruct (B2 (conflict_prop_sym _ _ _ _ _ _ (A1 (ex_intro _ _ eq_refl)))) as [e He]; discriminate].
  all: try solve [exfalso; destruct (A2 (conflict_prop_sym _ _ _ _ _ _ (B1 (ex_intro _ _ eq_refl)))) as [e He]; discriminate].
Qed.

(* non-vacuity: the one-sided add and drop classes satisfy schemas_ok *)
Example schemas_ok_add : schemas_ok [0;1;2] [0;1;2] [0;9;1;2].
Proof. split; vm_compute; intro H; try reflexivity; discriminate. Qed.
Example schemas_ok_drop : schemas_ok [0;1;2] [0;2] [0;1;2].
Proof. split; vm_compute; intro H; try reflexivity; discriminate. Qed.
Example schemas_ok_same : schemas_ok [0;1] [0;1] [0;1].
Proof. split; vm_compute; intro H; reflexivity. Qed.
(* a pure column move is outside the class *)
Example schemas_ok_not_move : ~ schemas_ok [0;1] [1;0] [0;1].
Proof. intros [A _]. specialize (A eq_refl). discriminate. Qed.

(* the oracle accepts the model's own observation on a conflicting example *)
Example oracle_accepts_model :
  let i := {| i_sb := [0;1]; i_sl := [0;1]; i_sr := [0;1;9];
              i_b := [(1, [Some 1; Some 1]); (2, [Some 2; Some 2]); (3, [Some 3; None])];
              i_l := [(1, [Some 7; Some 1]); (2, [Some 2; Some 5]); (4, [Some 4; Some 4])];
              i_r := [(1, [Some 1; Some 8; None]); (2, [Some 2; Some 6; Some 1]); (3, [Some 0; None; None]); (4, [Some 4; Some 5; None])] |} in
  check_case (i, model_obs i) = 0.
Proof. vm_compute. reflexivity. Qed.
