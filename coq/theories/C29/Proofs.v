(* C29 — proofs about the model of dolt's row-level three-way merge. *)
From Coq Require Import NArith List Bool Lia.
From Dolt Require Import C29.Model C29.Spec C29.Corr.
Import ListNotations.
Local Open Scope N_scope.

(* ---------- basic reflection ---------- *)
Lemma cell_eqb_spec (a b : cell) : reflect (a = b) (cell_eqb a b).
Proof.
  destruct a as [x|], b as [y|]; cbn [cell_eqb]; try (constructor; congruence).
  destruct (N.eqb_spec x y); constructor; congruence.
Qed.

Lemma cell_eqb_refl a : cell_eqb a a = true.
Proof. destruct (cell_eqb_spec a a); congruence. Qed.

Lemma ocell_eqb_spec (a b : option cell) : reflect (a = b) (ocell_eqb a b).
Proof.
  destruct a as [x|], b as [y|]; cbn [ocell_eqb]; try (constructor; congruence).
  destruct (cell_eqb_spec x y); constructor; congruence.
Qed.

Lemma ocell_eqb_refl a : ocell_eqb a a = true.
Proof. destruct (ocell_eqb_spec a a); congruence. Qed.

Lemma row_eqb_eq (a b : row) : row_eqb a b = true <-> a = b.
Proof.
  revert b; induction a as [|x a IH]; intros [|y b]; cbn [row_eqb]; split; intro H; try congruence; try discriminate.
  - apply andb_true_iff in H as [H1 H2]. destruct (cell_eqb_spec x y); try discriminate. apply IH in H2. congruence.
  - inversion H; subst. rewrite cell_eqb_refl. apply IH. reflexivity.
Qed.

Lemma mem_In c s : mem c s = true <-> In c s.
Proof.
  unfold mem. rewrite existsb_exists. split.
  - intros [x [Hin Hx]]. apply N.eqb_eq in Hx. subst. exact Hin.
  - intro Hin. exists c. split; [exact Hin|apply N.eqb_refl].
Qed.

Lemma index_of_none c s : index_of c s = None <-> mem c s = false.
Proof.
  induction s as [|x s IH]; cbn [index_of mem existsb]; [tauto|].
  rewrite (N.eqb_sym c x). destruct (x =? c); cbn [orb].
  - split; discriminate.
  - fold (mem c s). rewrite <- IH. destruct (index_of c s); cbn [option_map]; split; congruence.
Qed.

Lemma col_none s r c : col s r c = None <-> mem c s = false.
Proof.
  unfold col. rewrite <- index_of_none. destruct (index_of c s); split; congruence.
Qed.

Lemma col_some s r c : (exists v, col s r c = Some v) <-> mem c s = true.
Proof.
  destruct (col s r c) eqn:E.
  - split; [|eauto]. intros _. destruct (mem c s) eqn:M; [reflexivity|]. apply (col_none s r c) in M. rewrite M in E. discriminate.
  - apply col_none in E. rewrite E. split; [intros [v Hv]|]; discriminate.
Qed.

Lemma col_some_mem s r c v : col s r c = Some v -> mem c s = true.
Proof. intro H. apply (col_some s r c). eauto. Qed.

Lemma col_some_ex s r c : mem c s = true -> exists v, col s r c = Some v.
Proof. intro H. apply (col_some s r c). exact H. Qed.

Lemma mem_app c a b : mem c (a ++ b) = mem c a || mem c b.
Proof. unfold mem. apply existsb_app. Qed.

Lemma mem_filter c f s : mem c (filter f s) = mem c s && f c.
Proof.
  apply eq_true_iff_eq. rewrite andb_true_iff, !mem_In, filter_In. tauto.
Qed.

Lemma mem_merged c sb sl sr :
  mem c (merged_schema sb sl sr)
  = (mem c sl && implb (mem c sb) (mem c sr)) || (mem c sr && (negb (mem c sl) && negb (mem c sb))).
Proof. unfold merged_schema. rewrite mem_app, !mem_filter. reflexivity. Qed.

(* ---------- merge_total ---------- *)
Lemma base_pass_total f cs : (forall c, f c <> None) -> base_pass f cs <> None.
Proof.
  intro H. induction cs as [|c cs IH]; cbn [base_pass]; [discriminate|].
  specialize (H c). destruct (f c) as [[|]|]; [discriminate|exact IH|congruence].
Qed.

Lemma base_col_fixed_total sb sl sr b ol or c : base_col true sb sl sr b ol or c <> None.
Proof.
  unfold base_col. destruct ol as [l|], or as [r|]; try discriminate.
  - destruct (col sl l c), (col sr r c); discriminate.
  - destruct (col sl l c); discriminate.
  - destruct (col sr r c); discriminate.
Qed.

Lemma col_pass_total f cs : (forall c, In c cs -> f c <> CErr) -> col_pass f cs <> TErr.
Proof.
  induction cs as [|c cs IH]; intro H; cbn [col_pass]; [discriminate|].
  pose proof (H c (or_introl eq_refl)) as Hc.
  destruct (f c); [congruence|discriminate|].
  assert (IH' : col_pass f cs <> TErr) by (apply IH; intros; apply H; right; assumption).
  destruct (col_pass f cs); congruence.
Qed.

Lemma ocol_some_mem sb ob c v : ocol sb ob c = Some v -> mem c sb = true.
Proof. destruct ob as [b|]; cbn [ocol]; [|discriminate]. apply col_some_mem. Qed.

Lemma merged_col_total sb sl sr ob l r c :
  mem c (merged_schema sb sl sr) = true -> merged_col sb sl sr ob l r c <> CErr.
Proof.
  rewrite mem_merged. intro Hm. unfold merged_col.
  destruct (ocol sb ob c) as [bv|] eqn:Eb.
  - apply ocol_some_mem in Eb. rewrite Eb in Hm. cbn [implb negb andb orb] in Hm.
    rewrite !andb_false_r, orb_false_r in Hm. apply andb_true_iff in Hm as [Hl Hr].
    apply (col_some_ex sl l c) in Hl as [lv Hl]. apply (col_some_ex sr r c) in Hr as [rv Hr]. rewrite Hl, Hr.
    destruct (cell_eqb lv rv); [discriminate|]. destruct (negb (cell_eqb lv bv) && negb (cell_eqb rv bv)); [discriminate|].
    destruct (negb (cell_eqb lv bv)); discriminate.
  - destruct (col sl l c) as [lv|] eqn:El, (col sr r c) as [rv|] eqn:Er; try discriminate.
    + destruct (cell_eqb lv rv); discriminate.
    + apply col_none in El. apply col_none in Er. rewrite El, Er in Hm. discriminate.
Qed.

Lemma side_diff_nn f : side_diff f None None = false.
Proof. reflexivity. Qed.

(* merge_total: with the repaired processBaseColumn, no triple of schemas and no triple of row
   versions reaches an internal-error branch — in particular not with added, dropped or moved columns. *)
Theorem row_merge_total : forall sb sl sr ob ol or, row_merge true sb sl sr ob ol or <> RErr.
Proof.
  intros. unfold row_merge.
  destruct (side_diff (side_flag sb sl sr) ob ol) eqn:Dl, (side_diff (side_flag sb sr sl) ob or) eqn:Dr; try discriminate.
  destruct ol as [l|], or as [r|]; try discriminate.
  - destruct (row_eqb l r); [discriminate|].
    assert (T : try_merge true sb sl sr (merged_schema sb sl sr) ob (Some l) (Some r) <> TErr).
    { unfold try_merge.
      destruct ob as [b|].
      - pose proof (base_pass_total (base_col true sb sl sr b (Some l) (Some r)) sb (base_col_fixed_total sb sl sr b (Some l) (Some r))) as Hb.
        destruct (base_pass _ sb) as [[|]|]; [discriminate| |congruence].
        apply col_pass_total. intros c Hc. apply merged_col_total. apply mem_In. exact Hc.
      - apply col_pass_total. intros c Hc. apply merged_col_total. apply mem_In. exact Hc. }
    destruct (try_merge _ _ _ _ _ _ _ _); congruence.
  - destruct ob as [b|]; [|discriminate].
    assert (T : try_merge true sb sl sr (merged_schema sb sl sr) (Some b) (Some l) None <> TErr).
    { unfold try_merge.
      pose proof (base_pass_total _ sb (base_col_fixed_total sb sl sr b (Some l) None)) as Hb.
      destruct (base_pass _ sb) as [[|]|]; [discriminate|discriminate|congruence]. }
    destruct (try_merge _ _ _ _ _ _ _ _); congruence.
  - destruct ob as [b|]; [|discriminate].
    assert (T : try_merge true sb sl sr (merged_schema sb sl sr) (Some b) None (Some r) <> TErr).
    { unfold try_merge.
      pose proof (base_pass_total _ sb (base_col_fixed_total sb sl sr b None (Some r))) as Hb.
      destruct (base_pass _ sb) as [[|]|]; [discriminate|discriminate|congruence]. }
    destruct (try_merge _ _ _ _ _ _ _ _); congruence.
Qed.

Theorem merge_total : forall sb sl sr b l r, m_err (table_merge true sb sl sr b l r) = false.
Proof.
  intros. unfold table_merge. cbn [m_err].
  destruct (existsb _ _) eqn:E; [|reflexivity].
  apply existsb_exists in E as [k [_ Hk]]. unfold merge_key in Hk.
  pose proof (row_merge_total sb sl sr (get k b) (get k l) (get k r)) as T.
  destruct (row_merge _ _ _ _ _ _ _); [congruence|discriminate].
Qed.

(* F5: the line as found (rightSchema indexed with the left column index) does reach an internal
   error: the right side dropped column 0 and deleted row 1, the left side modified row 1. *)
Theorem merge_total_as_found_refuted :
  exists sb sl sr b l r, m_err (table_merge false sb sl sr b l r) = true
                         /\ m_err (table_merge false sb sr sl b r l) = false.
Proof.
  exists [0;1], [0;1], [1], [(1, [Some 1; Some 1])], [(1, [Some 1; Some 9])], [].
  split; vm_compute; reflexivity.
Qed.

(* ---------- table level: the merged table and the conflict list are the key-wise merge ---------- *)
Lemma get_none_keys k t : get k t = None <-> ~ In k (keys t).
Proof.
  induction t as [|[k' r] t IH]; cbn [get keys map fst]; [tauto|].
  destruct (N.eqb_spec k' k) as [e|n].
  - split; [discriminate|]. intro H. exfalso. apply H. left. exact e.
  - unfold keys in IH. rewrite IH. split; intro H.
    + intros [E|I]; [congruence|tauto].
    + intro I. apply H. right. exact I.
Qed.

Lemma merge_key_absent fixed sb sl sr b l r k :
  ~ In k (all_keys b l r) -> merge_key fixed sb sl sr b l r k = ROk None false.
Proof.
  unfold all_keys. rewrite nodup_In, !in_app_iff. intro H. unfold merge_key.
  assert (Hb : get k b = None) by (apply get_none_keys; tauto).
  assert (Hl : get k l = None) by (apply get_none_keys; tauto).
  assert (Hr : get k r = None) by (apply get_none_keys; tauto).
  rewrite Hb, Hl, Hr. reflexivity.
Qed.

Lemma existsb_eqb_In k ks : existsb (N.eqb k) ks = true <-> In k ks.
Proof. apply (mem_In k ks). Qed.

Lemma get_flat_map (g : N -> option row) ks k :
  get k (flat_map (fun k' => match g k' with Some v => [(k', v)] | None => [] end) ks)
  = if existsb (N.eqb k) ks then g k else None.
Proof.
  induction ks as [|k' ks IH]; cbn [flat_map existsb]; [reflexivity|].
  rewrite (N.eqb_sym k k').
  destruct (g k') as [v|] eqn:G; cbn [app get].
  - destruct (N.eqb_spec k' k) as [e|n]; cbn [orb]; [subst; rewrite G; reflexivity|exact IH].
  - rewrite IH. destruct (N.eqb_spec k' k) as [e|n]; cbn [orb]; [|reflexivity].
    subst. rewrite G. destruct (existsb _ ks); reflexivity.
Qed.

Lemma getc_flat_map (g : N -> option (option row * option row * option row)) ks k :
  getc k (flat_map (fun k' => match g k' with Some e => [(k', e)] | None => [] end) ks)
  = if existsb (N.eqb k) ks then g k else None.
Proof.
  induction ks as [|k' ks IH]; cbn [flat_map existsb]; [reflexivity|].
  rewrite (N.eqb_sym k k').
  destruct (g k') as [v|] eqn:G; cbn [app getc].
  - destruct (N.eqb_spec k' k) as [e|n]; cbn [orb]; [subst; rewrite G; reflexivity|exact IH].
  - rewrite IH. destruct (N.eqb_spec k' k) as [e|n]; cbn [orb]; [|reflexivity].
    subst. rewrite G. destruct (existsb _ ks); reflexivity.
Qed.

Theorem table_merge_get : forall fixed sb sl sr b l r k,
  get k (m_rows (table_merge fixed sb sl sr b l r))
  = match merge_key fixed sb sl sr b l r k with ROk v _ => v | RErr => None end.
Proof.
  intros. unfold table_merge. cbn [m_rows].
  rewrite (flat_map_ext _ (fun k' => match (match merge_key fixed sb sl sr b l r k' with ROk v _ => v | RErr => None end) with
                                     | Some v => [(k', v)] | None => [] end)).
  2:{ intro a. destruct (merge_key fixed sb sl sr b l r a) as [|[v|] c]; reflexivity. }
  rewrite get_flat_map. destruct (existsb (N.eqb k) (all_keys b l r)) eqn:E; [reflexivity|].
  rewrite merge_key_absent; [reflexivity|]. intro H. apply existsb_eqb_In in H. congruence.
Qed.

Theorem conflicts_exact : forall fixed sb sl sr b l r k,
  getc k (m_conf (table_merge fixed sb sl sr b l r))
  = match merge_key fixed sb sl sr b l r k with
    | ROk v true => Some (get k b, v, get k r)
    | _ => None
    end.
Proof.
  intros. unfold table_merge. cbn [m_conf].
  rewrite (flat_map_ext _ (fun k' => match (match merge_key fixed sb sl sr b l r k' with
                                            | ROk v true => Some (get k' b, v, get k' r) | _ => None end) with
                                     | Some e => [(k', e)] | None => [] end)).
  2:{ intro a. destruct (merge_key fixed sb sl sr b l r a) as [|v [|]]; reflexivity. }
  rewrite getc_flat_map. destruct (existsb (N.eqb k) (all_keys b l r)) eqn:E; [reflexivity|].
  rewrite merge_key_absent; [reflexivity|]. intro H. apply existsb_eqb_In in H. congruence.
Qed.

(* ---------- TryMerge with both rows present is the cell-wise merge (any schemas) ---------- *)
Definition is_conf (x : cres) : bool := match x with CConf => true | _ => false end.
Definition val_of (x : cres) : cell := match x with CVal v => v | _ => None end.
Definition to_cres (x : option (option cell)) : cres := match x with None => CConf | Some o => CVal (nullify o) end.

Lemma base_pass_exists f g cs : (forall c, f c = Some (g c)) -> base_pass f cs = Some (existsb g cs).
Proof.
  intro H. induction cs as [|c cs IH]; cbn [base_pass existsb]; [reflexivity|].
  rewrite H. destruct (g c); cbn [orb]; [reflexivity|exact IH].
Qed.

Lemma col_pass_spec f cs : (forall c, In c cs -> f c <> CErr) ->
  col_pass f cs = if existsb (fun c => is_conf (f c)) cs then TConflict else TMerged (map (fun c => val_of (f c)) cs).
Proof.
  induction cs as [|c cs IH]; intro H; cbn [col_pass existsb map]; [reflexivity|].
  pose proof (H c (or_introl eq_refl)) as Hc.
  destruct (f c) as [| |v] eqn:E; cbn [is_conf orb val_of]; [congruence|reflexivity|].
  rewrite IH by (intros; apply H; right; assumption).
  destruct (existsb _ cs); reflexivity.
Qed.

Lemma merged_col_spec sb sl sr ob l r c :
  mem c (merged_schema sb sl sr) = true ->
  merged_col sb sl sr ob l r c = to_cres (cell_merge (ocol sb ob c) (col sl l c) (col sr r c)).
Proof.
  rewrite mem_merged. intro Hm. unfold merged_col, cell_merge.
  destruct (ocol sb ob c) as [bv|] eqn:Eb.
  - apply ocol_some_mem in Eb. rewrite Eb in Hm. cbn [implb negb andb orb] in Hm.
    rewrite !andb_false_r, orb_false_r in Hm. apply andb_true_iff in Hm as [Hl Hr].
    apply (col_some_ex sl l c) in Hl as [lv Hl]. apply (col_some_ex sr r c) in Hr as [rv Hr]. rewrite Hl, Hr.
    cbn [ocell_eqb].
    destruct (cell_eqb_spec lv rv), (cell_eqb_spec lv bv), (cell_eqb_spec rv bv);
      cbn [negb andb to_cres nullify]; try reflexivity; exfalso; congruence.
  - destruct (col sl l c) as [lv|] eqn:El, (col sr r c) as [rv|] eqn:Er; cbn [ocell_eqb].
    + destruct (cell_eqb lv rv); reflexivity.
    + reflexivity.
    + reflexivity.
    + apply col_none in El. apply col_none in Er. rewrite El, Er in Hm. discriminate.
Qed.

Definition gboth (sb sl sr : schema) (b l r : row) (c : N) : bool :=
  match col sl l c, col sr r c with
  | None, Some v => cmp_base sb b c v
  | Some v, None => cmp_base sb b c v
  | _, _ => false
  end.

Lemma base_col_both sb sl sr b l r c :
  base_col true sb sl sr b (Some l) (Some r) c = Some (gboth sb sl sr b l r c).
Proof. unfold base_col, gboth. destruct (col sl l c), (col sr r c); reflexivity. Qed.

Lemma clash_outside sb sl sr ob l r c :
  clash_at sb sl sr ob l r c = true -> mem c (merged_schema sb sl sr) = false ->
  exists b, ob = Some b /\ mem c sb = true /\ gboth sb sl sr b l r c = true.
Proof.
  rewrite mem_merged. unfold clash_at, cell_merge, gboth, cmp_base. intros Hc Hm.
  destruct ob as [b|]; cbn [ocol] in Hc.
  - destruct (col sb b c) as [bv|] eqn:Eb.
    + exists b. pose proof (col_some_mem _ _ _ _ Eb) as Mb. rewrite Mb in Hm. split; [reflexivity|]. split; [exact Mb|]. rewrite Eb.
      destruct (col sl l c) as [lv|] eqn:El, (col sr r c) as [rv|] eqn:Er; cbn [ocell_eqb nullify] in *.
      * rewrite (col_some_mem _ _ _ _ El), (col_some_mem _ _ _ _ Er) in Hm. discriminate.
      * destruct (cell_eqb_spec lv bv), (cell_eqb_spec bv lv); cbv iota in Hc; cbn [negb]; try discriminate; try reflexivity; congruence.
      * destruct (cell_eqb_spec rv bv), (cell_eqb_spec bv rv); cbv iota in Hc; cbn [negb]; try discriminate; try reflexivity; congruence.
      * discriminate.
    + exfalso. destruct (col sl l c) as [lv|] eqn:El, (col sr r c) as [rv|] eqn:Er; cbn [ocell_eqb] in Hc; try discriminate.
      rewrite (col_some_mem _ _ _ _ El), (col_some_mem _ _ _ _ Er) in Hm.
      destruct (mem c sb); discriminate.
  - exfalso. destruct (col sl l c) as [lv|] eqn:El, (col sr r c) as [rv|] eqn:Er; cbn [ocell_eqb] in Hc; try discriminate.
    rewrite (col_some_mem _ _ _ _ El), (col_some_mem _ _ _ _ Er) in Hm.
    destruct (mem c sb); discriminate.
Qed.

Lemma gboth_clash sb sl sr b l r c :
  mem c sb = true -> gboth sb sl sr b l r c = true -> clash_at sb sl sr (Some b) l r c = true.
Proof.
  intros Mb. apply (col_some_ex sb b c) in Mb as [bv Eb].
  unfold gboth, clash_at, cell_merge, cmp_base. cbn [ocol]. rewrite Eb. cbn [nullify].
  destruct (col sl l c) as [lv|], (col sr r c) as [rv|]; cbn [ocell_eqb]; try discriminate.
  - destruct (cell_eqb_spec bv lv), (cell_eqb_spec lv bv); try discriminate; try reflexivity; congruence.
  - destruct (cell_eqb_spec bv rv), (cell_eqb_spec rv bv); try discriminate; try reflexivity; congruence.
Qed.

Lemma conflict_split sb sl sr ob l r :
  cellwise_conflict sb sl sr ob l r
  = (match ob with Some b => existsb (gboth sb sl sr b l r) sb | None => false end)
    || existsb (fun c => is_conf (merged_col sb sl sr ob l r c)) (merged_schema sb sl sr).
Proof.
  apply eq_true_iff_eq. unfold cellwise_conflict. rewrite orb_true_iff, !existsb_exists. split.
  - intros [c [Hin Hc]].
    destruct (mem c (merged_schema sb sl sr)) eqn:Mm.
    + right. exists c. split; [apply mem_In; exact Mm|].
      rewrite merged_col_spec by exact Mm. unfold clash_at in Hc.
      destruct (cell_merge _ _ _); [discriminate|reflexivity].
    + left. destruct (clash_outside _ _ _ _ _ _ _ Hc Mm) as [b [Eo [Mb G]]]. subst ob.
      apply existsb_exists. exists c. split; [apply mem_In; exact Mb|exact G].
  - intros [H|[c [Hin Hc]]].
    + destruct ob as [b|]; [|discriminate]. apply existsb_exists in H as [c [Hin G]].
      exists c. split; [apply in_or_app; left; exact Hin|].
      apply gboth_clash; [apply mem_In; exact Hin|exact G].
    + pose proof Hin as Mm. apply mem_In in Mm. exists c. split.
      * rewrite mem_merged in Mm. apply in_or_app. right. apply in_or_app.
        destruct (mem c sl) eqn:Ml; [left; apply mem_In; exact Ml|right].
        cbn [andb orb] in Mm. apply andb_true_iff in Mm as [Mr _]. apply mem_In. exact Mr.
      * rewrite merged_col_spec in Hc by exact Mm. unfold clash_at.
        destruct (cell_merge _ _ _); [discriminate|reflexivity].
Qed.

Lemma cellwise_row_eq sb sl sr ob l r :
  map (fun c => val_of (merged_col sb sl sr ob l r c)) (merged_schema sb sl sr)
  = cellwise_row sb sl sr (merged_schema sb sl sr) ob l r.
Proof.
  unfold cellwise_row. apply map_ext_in. intros c Hin. apply mem_In in Hin.
  rewrite merged_col_spec by exact Hin.
  destruct (cell_merge _ _ _) as [[v|]|]; reflexivity.
Qed.

Lemma try_merge_both sb sl sr ob l r :
  try_merge true sb sl sr (merged_schema sb sl sr) ob (Some l) (Some r)
  = if cellwise_conflict sb sl sr ob l r then TConflict
    else TMerged (cellwise_row sb sl sr (merged_schema sb sl sr) ob l r).
Proof.
  rewrite conflict_split. unfold try_merge.
  assert (CP : col_pass (merged_col sb sl sr ob l r) (merged_schema sb sl sr)
               = if existsb (fun c => is_conf (merged_col sb sl sr ob l r c)) (merged_schema sb sl sr)
                 then TConflict else TMerged (cellwise_row sb sl sr (merged_schema sb sl sr) ob l r)).
  { rewrite col_pass_spec by (intros c Hc; apply merged_col_total; apply mem_In; exact Hc).
    rewrite cellwise_row_eq. reflexivity. }
  destruct ob as [b|].
  - rewrite (base_pass_exists _ (gboth sb sl sr b l r)) by (intro c; apply base_col_both).
    destruct (existsb (gboth sb sl sr b l r) sb); cbn [orb]; [reflexivity|exact CP].
  - cbn [orb]. exact CP.
Qed.

(* ---------- the differ layer: the whole row merge refines the declarative merge ---------- *)
(* The schema class of the property (one side adds columns anywhere or drops columns; no moves):
   a side whose column list differs from the ancestor's carries the schema-change flag. *)
Definition schemas_ok (sb sl sr : schema) : Prop :=
  (side_flag sb sl sr = false -> sl = sb) /\ (side_flag sb sr sl = false -> sr = sb).

(* two sides whose stored tuples for the key are byte-identical have the same column list (otherwise the
   differ's convergent-edit shortcut misreads one side's bytes under the other's schema: byte_coincidence_refuted) *)
Definition conv_ok (sl sr : schema) (ol or : option row) : Prop :=
  forall x, ol = Some x -> or = Some x -> sl = sr.

Lemma filter_all {A} (f : A -> bool) l : (forall x, In x l -> f x = true) -> filter f l = l.
Proof.
  induction l as [|x l IH]; intro H; cbn [filter]; [reflexivity|].
  rewrite (H x (or_introl eq_refl)). f_equal. apply IH. intros y Hy. apply H. right. exact Hy.
Qed.

Lemma filter_none {A} (f : A -> bool) l : (forall x, In x l -> f x = false) -> filter f l = [].
Proof.
  induction l as [|x l IH]; intro H; cbn [filter]; [reflexivity|].
  rewrite (H x (or_introl eq_refl)). apply IH. intros y Hy. apply H. right. exact Hy.
Qed.

Lemma merged_schema_same sb s : merged_schema sb s s = s.
Proof.
  unfold merged_schema.
  rewrite filter_all, filter_none; [apply app_nil_r| |].
  - intros c Hc. apply mem_In in Hc. rewrite Hc. reflexivity.
  - intros c Hc. apply mem_In in Hc. rewrite Hc. destruct (mem c sb); reflexivity.
Qed.

(* cells of columns the ancestor lacks are NULL *)
Definition newcols_null (sb ss : schema) (s : row) : Prop :=
  forall c v, mem c sb = false -> col ss s c = Some v -> v = None.

(* the hypothesis that separates the proved part of conflict_iff from the refuted part: when one
   side deleted the row, the surviving row was not changed only in columns its side added *)
Definition delete_visible (sb sl sr : schema) (ob ol or : option row) : Prop :=
  match ob, ol, or with
  | Some _, None, Some r => newcols_null sb sr r
  | Some _, Some l, None => newcols_null sb sl l
  | _, _, _ => True
  end.

Lemma side_diff_false flag (sb s : schema) ob os :
  (flag = false -> s = sb) -> side_diff flag ob os = false ->
  (ob = None /\ os = None) \/ (exists b, ob = Some b /\ os = Some b /\ s = sb).
Proof.
  intros Hs. unfold side_diff. destruct ob as [b|], os as [x|]; try discriminate.
  - intro H. apply orb_false_iff in H as [Hf Hr]. right. exists b.
    apply negb_false_iff in Hr. apply row_eqb_eq in Hr. subst. auto.
  - auto.
Qed.

Lemma cell_merge_right_base x y : cell_merge x y x = Some y.
Proof.
  unfold cell_merge. destruct (ocell_eqb_spec y x) as [e|n]; [reflexivity|].
  rewrite ocell_eqb_refl. reflexivity.
Qed.

Lemma cell_merge_left_base x y : cell_merge x x y = Some y.
Proof.
  unfold cell_merge. destruct (ocell_eqb_spec x y) as [e|n]; [subst; reflexivity|].
  rewrite ocell_eqb_refl. reflexivity.
Qed.

Lemma cell_merge_agree b x : cell_merge b x x = Some x.
Proof. unfold cell_merge. rewrite ocell_eqb_refl. reflexivity. Qed.

Lemma cellwise_of_pointwise sb sl sr ob l r (f : N -> option cell) :
  (forall c, cell_merge (ocol sb ob c) (col sl l c) (col sr r c) = Some (f c)) ->
  cellwise_conflict sb sl sr ob l r = false
  /\ forall sm, cellwise_row sb sl sr sm ob l r = map (fun c => nullify (f c)) sm.
Proof.
  intro H. split.
  - unfold cellwise_conflict. destruct (existsb _ _) eqn:E; [|reflexivity].
    apply existsb_exists in E as [c [_ Hc]]. unfold clash_at in Hc. rewrite H in Hc. discriminate.
  - intro sm. unfold cellwise_row. apply map_ext. intro c. rewrite H. destruct (f c); reflexivity.
Qed.

Lemma modified_refl sb b : modified sb sb b b = false.
Proof.
  unfold modified. destruct (existsb _ _) eqn:E; [|reflexivity].
  apply existsb_exists in E as [c [Hin Hc]]. apply mem_In in Hin.
  apply (col_some_ex sb b c) in Hin as [v Hv]. rewrite Hv in Hc. cbn [nullify] in Hc.
  rewrite ocell_eqb_refl in Hc. discriminate.
Qed.

Definition gone (sb ss : schema) (b s : row) (c : N) : bool :=
  match col ss s c with Some v => cmp_base sb b c v | None => false end.

Lemma modified_visible sb ss b s :
  newcols_null sb ss s -> modified sb ss b s = existsb (gone sb ss b s) sb.
Proof.
  intro Hn. apply eq_true_iff_eq. unfold modified, gone, cmp_base. rewrite !existsb_exists. split.
  - intros [c [Hin Hc]]. pose proof Hin as Ms. apply mem_In in Ms.
    apply (col_some_ex ss s c) in Ms as [v Hv]. rewrite Hv in Hc. cbn [ocell_eqb] in Hc.
    destruct (mem c sb) eqn:Mb.
    + exists c. split; [apply mem_In; exact Mb|]. rewrite Hv.
      destruct (cell_eqb_spec v (nullify (col sb b c))), (cell_eqb_spec (nullify (col sb b c)) v);
        try discriminate; try reflexivity; congruence.
    + exfalso. pose proof (Hn c v Mb Hv) as Ev. subst v.
      apply (col_none sb b c) in Mb. rewrite Mb in Hc. discriminate.
  - intros [c [Hin Hc]]. destruct (col ss s c) as [v|] eqn:Hv; [|discriminate].
    exists c. split; [apply mem_In; eapply col_some_mem; exact Hv|].
    rewrite Hv. cbn [ocell_eqb].
    destruct (cell_eqb_spec v (nullify (col sb b c))), (cell_eqb_spec (nullify (col sb b c)) v);
      try discriminate; try reflexivity; congruence.
Qed.

Lemma base_col_left_only sb sl sr b l c :
  base_col true sb sl sr b (Some l) None c = Some (gone sb sl b l c).
Proof. unfold base_col, gone. destruct (col sl l c); reflexivity. Qed.

Lemma base_col_right_only sb sl sr b r c :
  base_col true sb sl sr b None (Some r) c = Some (gone sb sr b r c).
Proof. unfold base_col, gone. destruct (col sr r c); reflexivity. Qed.

(* the exact boundary of the delete-vs-modify case: the declarative "modified" (any cell of the
   surviving row, new columns included) coincides with what processBaseColumn inspects (ancestor
   columns only) *)
Definition delete_exact (sb sl sr : schema) (ob ol or : option row) : Prop :=
  match ob, ol, or with
  | Some b, None, Some r => modified sb sr b r = existsb (gone sb sr b r) sb
  | Some b, Some l, None => modified sb sl b l = existsb (gone sb sl b l) sb
  | _, _, _ => True
  end.

Lemma delete_visible_exact sb sl sr ob ol or :
  delete_visible sb sl sr ob ol or -> delete_exact sb sl sr ob ol or.
Proof.
  unfold delete_visible, delete_exact. destruct ob as [b|], ol as [l|], or as [r|]; auto; apply modified_visible.
Qed.

Theorem row_merge_refines_spec_exact : forall sb sl sr ob ol or,
  schemas_ok sb sl sr -> conv_ok sl sr ol or -> delete_exact sb sl sr ob ol or ->
  row_merge true sb sl sr ob ol or
  = ROk (fst (spec_row sb sl sr ob ol or)) (snd (spec_row sb sl sr ob ol or)).
Proof.
  intros sb sl sr ob ol or [Hl Hr] Cv Dv. unfold row_merge.
  destruct (side_diff (side_flag sb sl sr) ob ol) eqn:Dl;
    destruct (side_diff (side_flag sb sr sl) ob or) eqn:Dr.
  - (* both sides have a diff *)
    destruct ol as [l|], or as [r|].
    + destruct (row_eqb l r) eqn:E.
      * apply row_eqb_eq in E. subst r.
        assert (sl = sr) by (apply (Cv l); reflexivity). subst sr.
        destruct (cellwise_of_pointwise sb sl sl ob l l (col sl l) (fun c => cell_merge_agree _ _)) as [C R].
        unfold spec_row. rewrite !merged_schema_same. destruct ob; rewrite C, R; reflexivity.
      * rewrite try_merge_both. unfold spec_row.
        destruct ob; destruct (cellwise_conflict _ _ _ _ _ _); reflexivity.
    + destruct ob as [b|]; [|discriminate]. cbn [delete_exact] in Dv.
      unfold try_merge. rewrite (base_pass_exists _ (gone sb sl b l)) by (intro c; apply base_col_left_only).
      unfold spec_row. rewrite Dv.
      destruct (existsb (gone sb sl b l) sb); reflexivity.
    + destruct ob as [b|]; [|discriminate]. cbn [delete_exact] in Dv.
      unfold try_merge. rewrite (base_pass_exists _ (gone sb sr b r)) by (intro c; apply base_col_right_only).
      unfold spec_row. rewrite Dv.
      destruct (existsb (gone sb sr b r) sb); reflexivity.
    + destruct ob; reflexivity.
  - (* only the left side has a diff *)
    destruct (side_diff_false _ sb sr ob or Hr Dr) as [[Eb Eo]|[b [Eb [Eo Es]]]]; subst.
    + destruct ol as [l|]; [reflexivity|discriminate].
    + destruct ol as [l|].
      * destruct (cellwise_of_pointwise sb sl sb (Some b) l b (col sl l)) as [C R].
        { intro c. apply cell_merge_right_base. }
        unfold spec_row. rewrite C, R. reflexivity.
      * unfold spec_row. rewrite modified_refl. reflexivity.
  - (* only the right side has a diff *)
    destruct (side_diff_false _ sb sl ob ol Hl Dl) as [[Eb Eo]|[b [Eb [Eo Es]]]]; subst.
    + destruct or as [r|]; [reflexivity|discriminate].
    + destruct or as [r|].
      * destruct (cellwise_of_pointwise sb sb sr (Some b) b r (col sr r)) as [C R].
        { intro c. apply cell_merge_left_base. }
        unfold spec_row. rewrite C, R. reflexivity.
      * unfold spec_row. rewrite modified_refl. reflexivity.
  - (* no diff *)
    destruct (side_diff_false _ sb sl ob ol Hl Dl) as [[Eb Eo]|[b [Eb [Eo Es]]]]; subst.
    + destruct (side_diff_false _ sb sr None or Hr Dr) as [[_ Eo]|[b [Eb _]]]; [subst; reflexivity|discriminate].
    + destruct (side_diff_false _ sb sr (Some b) or Hr Dr) as [[Eb _]|[b' [Eb [Eo Es]]]]; [discriminate|].
      inversion Eb; subst b' or sr.
      destruct (cellwise_of_pointwise sb sb sb (Some b) b b (col sb b) (fun c => cell_merge_agree _ _)) as [C R].
      unfold spec_row. rewrite C, R. reflexivity.
Qed.

Theorem row_merge_refines_spec : forall sb sl sr ob ol or,
  schemas_ok sb sl sr -> conv_ok sl sr ol or -> delete_visible sb sl sr ob ol or ->
  row_merge true sb sl sr ob ol or
  = ROk (fst (spec_row sb sl sr ob ol or)) (snd (spec_row sb sl sr ob ol or)).
Proof.
  intros sb sl sr ob ol or Hs Cv Dv. apply row_merge_refines_spec_exact; auto. apply delete_visible_exact. exact Dv.
Qed.

(* ---------- conflict_iff ---------- *)
Lemma cell_merge_none_iff b l r : cell_merge b l r = None <-> cell_clash b l r.
Proof.
  unfold cell_merge, cell_clash.
  destruct (ocell_eqb_spec l r), (ocell_eqb_spec l b), (ocell_eqb_spec r b); split; intro H;
    try discriminate; try tauto; try (destruct H as [H1 [H2 H3]]; congruence).
Qed.

Lemma cellwise_conflict_iff sb sl sr ob l r :
  cellwise_conflict sb sl sr ob l r = true
  <-> exists c, cell_clash (ocol sb ob c) (col sl l c) (col sr r c).
Proof.
  unfold cellwise_conflict. rewrite existsb_exists. split.
  - intros [c [_ Hc]]. exists c. apply cell_merge_none_iff. unfold clash_at in Hc.
    destruct (cell_merge _ _ _); [discriminate|reflexivity].
  - intros [c Hc]. exists c. split.
    + destruct Hc as [H1 [H2 H3]].
      destruct (col sl l c) as [lv|] eqn:El.
      * apply in_or_app. right. apply in_or_app. left. apply mem_In. eapply col_some_mem. exact El.
      * destruct (col sr r c) as [rv|] eqn:Er; [|congruence].
        apply in_or_app. right. apply in_or_app. right. apply mem_In. eapply col_some_mem. exact Er.
    + apply cell_merge_none_iff in Hc. unfold clash_at. rewrite Hc. reflexivity.
Qed.

Lemma spec_conflict_iff sb sl sr ob ol or :
  snd (spec_row sb sl sr ob ol or) = true <-> conflict_prop sb sl sr ob ol or.
Proof.
  unfold spec_row, conflict_prop.
  destruct ol as [l|], or as [r|].
  - assert (E : snd (if cellwise_conflict sb sl sr ob l r
                     then (Some (remap (merged_schema sb sl sr) sl l), true)
                     else (Some (cellwise_row sb sl sr (merged_schema sb sl sr) ob l r), false))
                = cellwise_conflict sb sl sr ob l r) by (destruct (cellwise_conflict _ _ _ _ _ _); reflexivity).
    destruct ob as [b|]; rewrite E, cellwise_conflict_iff; split.
    + intros [c Hc]. right. right. exists l, r, c. auto.
    + intros [[b0 [r0 [_ [H _]]]]|[[b0 [l0 [_ [_ [H _]]]]]|[l0 [r0 [c [H1 [H2 H3]]]]]]]; try discriminate.
      inversion H1; inversion H2; subst. eauto.
    + intros [c Hc]. right. right. exists l, r, c. auto.
    + intros [[b0 [r0 [_ [H _]]]]|[[b0 [l0 [_ [_ [H _]]]]]|[l0 [r0 [c [H1 [H2 H3]]]]]]]; try discriminate.
      inversion H1; inversion H2; subst. eauto.
  - destruct ob as [b|]; cbn [snd]; split.
    + destruct (modified sb sl b l) eqn:M; cbn [snd]; [|discriminate]. intros _. right. left. exists b, l. auto.
    + intros [[b0 [r0 [_ [H _]]]]|[[b0 [l0 [H0 [H1 [_ M]]]]]|[l0 [r0 [c [_ [H _]]]]]]]; try discriminate.
      inversion H0; inversion H1; subst. rewrite M. reflexivity.
    + discriminate.
    + intros [[b0 [r0 [H _]]]|[[b0 [l0 [H _]]]|[l0 [r0 [c [_ [H _]]]]]]]; discriminate.
  - destruct ob as [b|]; cbn [snd]; split.
    + intro M. left. exists b, r. auto.
    + intros [[b0 [r0 [H0 [_ [H1 M]]]]]|[[b0 [l0 [_ [H _]]]]|[l0 [r0 [c [H _]]]]]]; try discriminate.
      inversion H0; inversion H1; subst. exact M.
    + discriminate.
    + intros [[b0 [r0 [H _]]]|[[b0 [l0 [H _]]]|[l0 [r0 [c [H _]]]]]]; discriminate.
  - destruct ob; cbn [snd]; split; try discriminate;
      intros [[b0 [r0 [_ [_ [H _]]]]]|[[b0 [l0 [_ [H _]]]]|[l0 [r0 [c [H _]]]]]]; discriminate.
Qed.

(* conflict_iff (full statement): for every schema triple of the property's class and all tables, a
   conflict is recorded for key k exactly when both sides changed the same cell differently or one
   side deleted a row the other modified.  FALSE of the faithful model without [delete_visible] and
   for moved columns: see conflict_iff_refuted / reorder_update_lost.  Proved part: *)
Theorem conflict_iff_partial : forall sb sl sr b l r k,
  schemas_ok sb sl sr -> conv_ok sl sr (get k l) (get k r) ->
  delete_visible sb sl sr (get k b) (get k l) (get k r) ->
  (exists e, getc k (m_conf (table_merge true sb sl sr b l r)) = Some e)
  <-> conflict_prop sb sl sr (get k b) (get k l) (get k r).
Proof.
  intros sb sl sr b l r k Hs Cv Dv. rewrite conflicts_exact. unfold merge_key.
  rewrite (row_merge_refines_spec _ _ _ _ _ _ Hs Cv Dv). rewrite <- spec_conflict_iff.
  destruct (snd (spec_row sb sl sr (get k b) (get k l) (get k r))); split; intro H; try discriminate; eauto.
  destruct H as [e H]. discriminate.
Qed.

(* delete vs. update confined to a column the modifying side added: no conflict is recorded and the
   update is dropped (the ancestor has columns [0;1], right added column 9 and set it on row 1,
   left deleted row 1). *)
Theorem conflict_iff_refuted :
  exists sb sl sr b l r k,
    schemas_ok sb sl sr /\ conv_ok sl sr (get k l) (get k r)
    /\ conflict_prop sb sl sr (get k b) (get k l) (get k r)
    /\ getc k (m_conf (table_merge true sb sl sr b l r)) = None
    /\ get k (m_rows (table_merge true sb sl sr b l r)) = None.
Proof.
  exists [0;1], [0;1], [0;1;9], [(1, [Some 1; Some 1])], [], [(1, [Some 1; Some 1; Some 5])], 1.
  split; [|split; [|split; [|split]]].
  - unfold schemas_ok. split; vm_compute; intro H; try reflexivity; discriminate.
  - intros x H. discriminate.
  - left. exists [Some 1; Some 1], [Some 1; Some 1; Some 5]. vm_compute. auto.
  - vm_compute. reflexivity.
  - vm_compute. reflexivity.
Qed.

(* byte coincidence across schemas: the right side dropped column 0; the left side set column 1 of
   row 1 to NULL, so its stored tuple (trailing NULL trimmed) is [0] — the same bytes as the right
   side's rewritten tuple [0] = (column 1 = 0).  The differ takes this for a convergent edit, keeps
   our bytes and reads them under the merged schema: column 1 = 0, our update to NULL is lost, no
   conflict.  (ThreeWayDiffer stores leftAndRightSchemasDiffer but never consults it.) *)
Theorem byte_coincidence_refuted :
  exists sb sl sr b l r k,
    schemas_ok sb sl sr /\ delete_visible sb sl sr (get k b) (get k l) (get k r)
    /\ spec_row sb sl sr (get k b) (get k l) (get k r) = (Some [None], false)
    /\ row_merge true sb sl sr (get k b) (get k l) (get k r) = ROk (Some [Some 0]) false.
Proof.
  exists [0;1], [0;1], [1], [(1, [Some 0; Some 0])], [(1, [Some 0])], [(1, [Some 0])], 1.
  split; [|split; [|split]].
  - unfold schemas_ok. split; vm_compute; intro H; try reflexivity; discriminate.
  - exact I.
  - vm_compute. reflexivity.
  - vm_compute. reflexivity.
Qed.

(* moved columns: the left side moved column 0 behind column 1 and swapped the two values of row 1,
   so its row bytes equal the ancestor's; the right side set column 0.  Both sides changed cell 0
   differently, no conflict is recorded and the left side's update of both cells is lost. *)
Theorem reorder_update_lost :
  exists sb sl sr b l r k,
    conflict_prop sb sl sr (get k b) (get k l) (get k r)
    /\ getc k (m_conf (table_merge true sb sl sr b l r)) = None
    /\ get k (m_rows (table_merge true sb sl sr b l r)) = Some [Some 2; Some 3].
Proof.
  exists [0;1], [1;0], [0;1], [(1, [Some 1; Some 2])], [(1, [Some 1; Some 2])], [(1, [Some 3; Some 2])], 1.
  split; [|split]; try (vm_compute; reflexivity).
  right. right. exists [Some 1; Some 2], [Some 3; Some 2], 0. vm_compute.
  split; [reflexivity|]. split; [reflexivity|]. repeat split; discriminate.
Qed.

(* ---------- corollaries ---------- *)
Lemma side_flag_same sb s' : side_flag sb sb s' = false.
Proof.
  unfold side_flag. apply orb_false_iff. split.
  - destruct (existsb _ sb) eqn:E; [|reflexivity]. apply existsb_exists in E as [c [Hin Hc]].
    apply mem_In in Hin. rewrite Hin in Hc. discriminate.
  - destruct (existsb _ s') eqn:E; [|reflexivity]. apply existsb_exists in E as [c [_ Hc]].
    destruct (mem c sb); discriminate.
Qed.

Lemma side_diff_same ob : side_diff false ob ob = false.
Proof.
  destruct ob as [b|]; cbn [side_diff orb]; [|reflexivity].
  assert (row_eqb b b = true) by (apply row_eqb_eq; reflexivity). rewrite H. reflexivity.
Qed.

(* merge_one_sided: a key the right side left untouched (same schema, same row) keeps our version —
   no hypotheses; and symmetrically a key we left untouched takes their version. *)
Theorem merge_one_sided_left : forall sb sl ob ol,
  row_merge true sb sl sb ob ol ob = ROk (option_map (remap (merged_schema sb sl sb) sl) ol) false.
Proof.
  intros. unfold row_merge. rewrite (side_flag_same sb sl), side_diff_same.
  destruct (side_diff _ ob ol); reflexivity.
Qed.

Theorem merge_one_sided_right : forall sb sr ob or,
  schemas_ok sb sb sr ->
  row_merge true sb sb sr ob ob or = ROk (option_map (remap (merged_schema sb sb sr) sr) or) false.
Proof.
  intros sb sr ob or Hs. unfold row_merge. rewrite (side_flag_same sb sr), side_diff_same.
  destruct (side_diff (side_flag sb sr sb) ob or) eqn:Dr; [reflexivity|].
  destruct Hs as [_ Hr].
  destruct (side_diff_false _ sb sr ob or Hr Dr) as [[Eb Eo]|[b [Eb [Eo Es]]]]; subst; reflexivity.
Qed.

(* merge_agree: both sides made the same change (same schema, same row): no conflict, that row. *)
Theorem merge_agree : forall sb s ob o,
  schemas_ok sb s s ->
  row_merge true sb s s ob o o = ROk (option_map (remap (merged_schema sb s s) s) o) false.
Proof.
  intros sb s ob o Hs.
  assert (Dv : delete_visible sb s s ob o o) by (destruct ob, o; exact I).
  assert (Cv : conv_ok s s o o) by (intros x _ _; reflexivity).
  rewrite (row_merge_refines_spec _ _ _ _ _ _ Hs Cv Dv). unfold spec_row.
  destruct o as [x|].
  - destruct (cellwise_of_pointwise sb s s ob x x (col s x) (fun c => cell_merge_agree _ _)) as [C R].
    destruct ob; rewrite C, R; reflexivity.
  - destruct ob; reflexivity.
Qed.

(* merge_cellwise: both rows present and no conflict: every cell of the merged row is the three-way
   merge of that cell. *)
Theorem merge_cellwise : forall sb sl sr ob l r,
  schemas_ok sb sl sr -> (l = r -> sl = sr) ->
  cellwise_conflict sb sl sr ob l r = false ->
  row_merge true sb sl sr ob (Some l) (Some r)
  = ROk (Some (cellwise_row sb sl sr (merged_schema sb sl sr) ob l r)) false.
Proof.
  intros sb sl sr ob l r Hs Hc C.
  assert (Dv : delete_visible sb sl sr ob (Some l) (Some r)) by (destruct ob; exact I).
  assert (Cv : conv_ok sl sr (Some l) (Some r)) by (intros x H1 H2; apply Hc; congruence).
  rewrite (row_merge_refines_spec sb sl sr ob (Some l) (Some r) Hs Cv Dv). unfold spec_row.
  destruct ob; rewrite C; reflexivity.
Qed.

(* ---------- merge_swap ---------- *)
Lemma schemas_ok_sym sb sl sr : schemas_ok sb sl sr -> schemas_ok sb sr sl.
Proof. intros [A B]. split; [exact B|exact A]. Qed.

Lemma conv_ok_sym sl sr ol or : conv_ok sl sr ol or -> conv_ok sr sl or ol.
Proof. intros H x H1 H2. symmetry. apply (H x); assumption. Qed.

Lemma delete_visible_sym sb sl sr ob ol or : delete_visible sb sl sr ob ol or -> delete_visible sb sr sl ob or ol.
Proof. unfold delete_visible. destruct ob, ol, or; auto. Qed.

Lemma cell_clash_sym b l r : cell_clash b l r -> cell_clash b r l.
Proof. unfold cell_clash. intros [A [B C]]. auto. Qed.

Lemma conflict_prop_sym sb sl sr ob ol or : conflict_prop sb sl sr ob ol or -> conflict_prop sb sr sl ob or ol.
Proof.
  unfold conflict_prop. intros [[b [r H]]|[[b [l H]]|[l [r [c [H1 [H2 H3]]]]]]].
  - right. left. exists b, r. tauto.
  - left. exists b, l. tauto.
  - right. right. exists r, l, c. split; [exact H2|]. split; [exact H1|]. apply cell_clash_sym. exact H3.
Qed.

(* merge_swap (full statement): swapping the two sides yields the same table data on the keys
   without conflict and the mirrored conflicts.  FALSE of the faithful model for moved columns
   (reorder_update_lost; the byte-equal convergent-edit shortcut keeps "ours").  Proved part: in the
   add/drop class the two directions record a conflict for exactly the same keys, with the same
   ancestor row and each direction's "theirs" being the other direction's own version. *)
Theorem merge_swap_partial : forall sb sl sr b l r k,
  schemas_ok sb sl sr -> conv_ok sl sr (get k l) (get k r) ->
  delete_visible sb sl sr (get k b) (get k l) (get k r) ->
  match getc k (m_conf (table_merge true sb sl sr b l r)), getc k (m_conf (table_merge true sb sr sl b r l)) with
  | None, None => True
  | Some (b1, _, t1), Some (b2, _, t2) => b1 = b2 /\ t1 = get k r /\ t2 = get k l
  | _, _ => False
  end.
Proof.
  intros sb sl sr b l r k Hs Cv Dv.
  pose proof (conflict_iff_partial sb sl sr b l r k Hs Cv Dv) as [A1 A2].
  pose proof (conflict_iff_partial sb sr sl b r l k (schemas_ok_sym _ _ _ Hs) (conv_ok_sym _ _ _ _ Cv) (delete_visible_sym _ _ _ _ _ _ Dv)) as [B1 B2].
  rewrite !conflicts_exact in *. unfold merge_key in *.
  destruct (row_merge true sb sl sr (get k b) (get k l) (get k r)) as [|v1 [|]];
    destruct (row_merge true sb sr sl (get k b) (get k r) (get k l)) as [|v2 [|]]; auto.
  all: try solve [exfalso; destruct (B2 (conflict_prop_sym _ _ _ _ _ _ (A1 (ex_intro _ _ eq_refl)))) as [e He]; discriminate].
  all: try solve [exfalso; destruct (A2 (conflict_prop_sym _ _ _ _ _ _ (B1 (ex_intro _ _ eq_refl)))) as [e He]; discriminate].
Qed.

(* non-vacuity: the one-sided add and drop classes satisfy schemas_ok *)
Example schemas_ok_add : schemas_ok [0;1;2] [0;1;2] [0;9;1;2].
Proof. split; vm_compute; intro H; try reflexivity; discriminate. Qed.
Example schemas_ok_drop : schemas_ok [0;1;2] [0;2] [0;1;2].
Proof. split; vm_compute; intro H; try reflexivity; discriminate. Qed.
Example schemas_ok_same : schemas_ok [0;1] [0;1] [0;1].
Proof. split; vm_compute; intro H; reflexivity. Qed.
(* a pure column move is outside the class *)
Example schemas_ok_not_move : ~ schemas_ok [0;1] [1;0] [0;1].
Proof. intros [A _]. specialize (A eq_refl). discriminate. Qed.

(* the oracle accepts the model's own observation on a conflicting example *)
Example oracle_accepts_model :
  let i := {| i_cls := []; i_sb := [0;1]; i_sl := [0;1]; i_sr := [0;1;9];
              i_b := [(1, [Some 1; Some 1]); (2, [Some 2; Some 2]); (3, [Some 3; None])];
              i_l := [(1, [Some 7; Some 1]); (2, [Some 2; Some 5]); (4, [Some 4; Some 4])];
              i_r := [(1, [Some 1; Some 8; None]); (2, [Some 2; Some 6; Some 1]); (3, [Some 0; None; None]); (4, [Some 4; Some 5; None])] |} in
  check_case (i, model_obs i) = 0.
Proof. vm_compute. reflexivity. Qed.

(* ====================================================================== *)
(* Round 2: full merge_swap, the schema class, decidable scope, oracle_on_model *)
(* ====================================================================== *)

(* ---------- column-name-indexed view of a row ---------- *)
Lemma col_cons x s v r c : col (x :: s) (v :: r) c = if x =? c then Some v else col s r c.
Proof.
  unfold col. cbn [index_of]. destruct (x =? c); [reflexivity|]. destruct (index_of c s); reflexivity.
Qed.

Lemma col_map (f : N -> cell) s c : col s (map f s) c = if mem c s then Some (f c) else None.
Proof.
  induction s as [|x s IH]; [reflexivity|]. cbn [map]. rewrite col_cons.
  unfold mem. cbn [existsb]. fold (mem c s). rewrite (N.eqb_sym c x).
  destruct (N.eqb_spec x c); cbn [orb]; [subst; reflexivity|exact IH].
Qed.

Lemma mem_merged_swap c sb sl sr : mem c (merged_schema sb sl sr) = mem c (merged_schema sb sr sl).
Proof. rewrite !mem_merged. destruct (mem c sb), (mem c sl), (mem c sr); reflexivity. Qed.

Lemma cell_merge_sym b l r : cell_merge b l r = cell_merge b r l.
Proof.
  unfold cell_merge.
  destruct (ocell_eqb_spec l r), (ocell_eqb_spec r l), (ocell_eqb_spec l b), (ocell_eqb_spec r b);
    subst; try reflexivity; congruence.
Qed.

Lemma clash_at_sym sb sl sr ob l r c : clash_at sb sl sr ob l r c = clash_at sb sr sl ob r l c.
Proof. unfold clash_at. rewrite cell_merge_sym. reflexivity. Qed.

Lemma cellwise_conflict_sym sb sl sr ob l r :
  cellwise_conflict sb sl sr ob l r = cellwise_conflict sb sr sl ob r l.
Proof.
  apply eq_true_iff_eq. unfold cellwise_conflict. rewrite !existsb_exists.
  split; intros [c [Hin Hc]]; exists c; (split; [rewrite !in_app_iff in *; tauto|]).
  - rewrite <- clash_at_sym. exact Hc.
  - rewrite clash_at_sym. exact Hc.
Qed.

(* two optional rows stored in different column orders hold the same data: both absent or both
   present, and every column name reads the same optional cell *)
Definition same_data (s1 : schema) (o1 : option row) (s2 : schema) (o2 : option row) : Prop :=
  (o1 = None <-> o2 = None) /\ forall c, ocol s1 o1 c = ocol s2 o2 c.

Lemma same_data_none s1 s2 : same_data s1 None s2 None.
Proof. split; [tauto|reflexivity]. Qed.

Lemma same_data_remap sb sl sr s x :
  same_data (merged_schema sb sl sr) (Some (remap (merged_schema sb sl sr) s x))
            (merged_schema sb sr sl) (Some (remap (merged_schema sb sr sl) s x)).
Proof.
  split; [split; discriminate|]. intro c. cbn [ocol]. unfold remap. rewrite !col_map, mem_merged_swap. reflexivity.
Qed.

(* the declarative merge is symmetric: same conflict verdict, and without conflict the same data *)
Lemma spec_swap sb sl sr ob ol or :
  snd (spec_row sb sl sr ob ol or) = snd (spec_row sb sr sl ob or ol)
  /\ (snd (spec_row sb sl sr ob ol or) = false ->
      same_data (merged_schema sb sl sr) (fst (spec_row sb sl sr ob ol or))
                (merged_schema sb sr sl) (fst (spec_row sb sr sl ob or ol))).
Proof.
  unfold spec_row. destruct ol as [l|], or as [r|].
  - rewrite (cellwise_conflict_sym sb sl sr ob l r).
    assert (D : same_data (merged_schema sb sl sr) (Some (cellwise_row sb sl sr (merged_schema sb sl sr) ob l r))
                          (merged_schema sb sr sl) (Some (cellwise_row sb sr sl (merged_schema sb sr sl) ob r l))).
    { split; [split; discriminate|]. intro c. cbn [ocol]. unfold cellwise_row.
      rewrite !col_map, mem_merged_swap. destruct (mem c (merged_schema sb sr sl)); [|reflexivity].
      rewrite cell_merge_sym. reflexivity. }
    destruct ob; destruct (cellwise_conflict _ _ _ _ _ _); cbn [fst snd]; split; try reflexivity; intro H; try discriminate; exact D.
  - destruct ob as [b|]; cbn [fst snd].
    + destruct (modified sb sl b l); cbn [fst snd]; split; try reflexivity; intro H; try discriminate. apply same_data_none.
    + split; [reflexivity|]. intros _. apply same_data_remap.
  - destruct ob as [b|]; cbn [fst snd].
    + destruct (modified sb sr b r); cbn [fst snd]; split; try reflexivity; intro H; try discriminate. apply same_data_none.
    + split; [reflexivity|]. intros _. apply same_data_remap.
  - destruct ob; cbn [fst snd]; split; try reflexivity; intros _; apply same_data_none.
Qed.

(* on a conflict the table keeps our version, rewritten into the merged schema *)
Lemma spec_conflict_ours sb sl sr ob ol or :
  snd (spec_row sb sl sr ob ol or) = true ->
  fst (spec_row sb sl sr ob ol or) = option_map (remap (merged_schema sb sl sr) sl) ol.
Proof.
  unfold spec_row. destruct ob as [b|], ol as [l|], or as [r|]; cbn [fst snd option_map]; try discriminate; try reflexivity.
  - destruct (cellwise_conflict _ _ _ _ _ _); cbn [fst snd]; [reflexivity|discriminate].
  - destruct (modified sb sl b l); cbn [fst snd]; [reflexivity|discriminate].
  - destruct (cellwise_conflict _ _ _ _ _ _); cbn [fst snd]; [reflexivity|discriminate].
Qed.

Lemma delete_exact_sym sb sl sr ob ol or : delete_exact sb sl sr ob ol or -> delete_exact sb sr sl ob or ol.
Proof. unfold delete_exact. destruct ob, ol, or; auto. Qed.

(* merge_swap (full, in the class): for every schema triple with schemas_ok, all tables and every key
   inside the data scope (conv_ok, delete_exact — the complements of the open findings): swapping the
   two sides records a conflict for the same keys with mirrored entries (same ancestor row, each
   direction's "theirs" is the other's own row, each "ours" is its own row in its merged schema), and
   on every other key the two merged tables hold the same data, column name by column name. *)
Theorem merge_swap : forall sb sl sr b l r k,
  schemas_ok sb sl sr -> conv_ok sl sr (get k l) (get k r) ->
  delete_exact sb sl sr (get k b) (get k l) (get k r) ->
  let M1 := table_merge true sb sl sr b l r in
  let M2 := table_merge true sb sr sl b r l in
  match getc k (m_conf M1), getc k (m_conf M2) with
  | None, None =>
      same_data (merged_schema sb sl sr) (get k (m_rows M1)) (merged_schema sb sr sl) (get k (m_rows M2))
  | Some (b1, o1, t1), Some (b2, o2, t2) =>
      b1 = b2 /\ t1 = get k r /\ t2 = get k l
      /\ o1 = option_map (remap (merged_schema sb sl sr) sl) (get k l)
      /\ o2 = option_map (remap (merged_schema sb sr sl) sr) (get k r)
  | _, _ => False
  end.
Proof.
  intros sb sl sr b l r k Hs Cv Dx M1 M2. subst M1 M2.
  rewrite !conflicts_exact, !table_merge_get. unfold merge_key.
  rewrite (row_merge_refines_spec_exact _ _ _ _ _ _ Hs Cv Dx).
  rewrite (row_merge_refines_spec_exact _ _ _ _ _ _ (schemas_ok_sym _ _ _ Hs) (conv_ok_sym _ _ _ _ Cv) (delete_exact_sym _ _ _ _ _ _ Dx)).
  destruct (spec_swap sb sl sr (get k b) (get k l) (get k r)) as [E D].
  pose proof (spec_conflict_ours sb sl sr (get k b) (get k l) (get k r)) as O1.
  pose proof (spec_conflict_ours sb sr sl (get k b) (get k r) (get k l)) as O2.
  rewrite <- E in *.
  destruct (snd (spec_row sb sl sr (get k b) (get k l) (get k r))).
  - rewrite O1, O2 by reflexivity. auto.
  - apply D. reflexivity.
Qed.

(* ---------- the schema class, decidably ---------- *)
Fixpoint schema_eqb (a b : schema) : bool :=
  match a, b with
  | [], [] => true
  | x :: a', y :: b' => (x =? y) && schema_eqb a' b'
  | _, _ => false
  end.

Lemma schema_eqb_eq a b : schema_eqb a b = true <-> a = b.
Proof.
  revert b; induction a as [|x a IH]; intros [|y b]; cbn [schema_eqb]; split; intro H; try congruence; try discriminate.
  - apply andb_true_iff in H as [H1 H2]. apply N.eqb_eq in H1. apply IH in H2. congruence.
  - inversion H; subst. rewrite N.eqb_refl. apply IH. reflexivity.
Qed.

(* exactly schemas_ok *)
Definition schemas_okb (sb sl sr : schema) : bool :=
  (side_flag sb sl sr || schema_eqb sl sb) && (side_flag sb sr sl || schema_eqb sr sb).

Lemma schemas_okb_iff sb sl sr : schemas_okb sb sl sr = true <-> schemas_ok sb sl sr.
Proof.
  unfold schemas_okb, schemas_ok. rewrite andb_true_iff, !orb_true_iff, !schema_eqb_eq. split.
  - intros [A B]. split; intro H; [destruct A as [A|A]|destruct B as [B|B]]; congruence.
  - intros [A B]. split.
    + destruct (side_flag sb sl sr); [left; reflexivity|right; apply A; reflexivity].
    + destruct (side_flag sb sr sl); [left; reflexivity|right; apply B; reflexivity].
Qed.

Lemma forallb_false_ex {A} (f : A -> bool) l : forallb f l = false -> exists x, In x l /\ f x = false.
Proof.
  induction l as [|x l IH]; cbn [forallb]; [discriminate|].
  destruct (f x) eqn:E; cbn [andb]; intro H.
  - destruct (IH H) as [y [Hy Fy]]. exists y. split; [right; exact Hy|exact Fy].
  - exists x. split; [left; reflexivity|exact E].
Qed.

(* a side whose column SET differs from the ancestor's carries the schema-change flag *)
Lemma flag_of_set_change sb s s' :
  (forall c, In c sb -> In c s -> True) ->
  same_cols s sb = false -> (forall c, In c sb -> In c s') -> side_flag sb s s' = true.
Proof.
  intros _ H Hs'. unfold same_cols in H. unfold side_flag. apply orb_true_iff.
  apply andb_false_iff in H as [H|H]; apply forallb_false_ex in H as [c [Hin Hc]].
  - left. apply existsb_exists. exists c. split; [exact Hin|]. rewrite Hc. reflexivity.
  - right. apply existsb_exists. exists c. split; [apply Hs'; exact Hin|].
    rewrite Hc. apply mem_In in Hin. rewrite Hin. reflexivity.
Qed.

(* The readable class of the property: one side keeps the ancestor's column list; the other side
   keeps it too, or changes the column SET (adds columns at any position, drops columns, possibly
   moving others while doing so).  A pure move (same set, different list) is outside the class —
   reorder_update_lost shows that it must be.  Both sides dropping the same column is outside too
   (neither side is flagged although both rewrote every row). *)
Definition compatb (sb sl sr : schema) : bool :=
  (schema_eqb sl sb && (schema_eqb sr sb || negb (same_cols sr sb)))
  || (schema_eqb sr sb && (schema_eqb sl sb || negb (same_cols sl sb))).

Lemma compat_left_base sb sr :
  (schema_eqb sr sb || negb (same_cols sr sb)) = true -> schemas_ok sb sb sr.
Proof.
  intro H. split; [intros _; reflexivity|]. intro F.
  apply orb_true_iff in H as [H|H]; [apply schema_eqb_eq; exact H|].
  apply negb_true_iff in H. rewrite (flag_of_set_change sb sr sb) in F; [discriminate|auto|exact H|auto].
Qed.

Theorem compat_schemas_ok : forall sb sl sr, compatb sb sl sr = true -> schemas_ok sb sl sr.
Proof.
  intros sb sl sr H. unfold compatb in H. apply orb_true_iff in H as [H|H]; apply andb_true_iff in H as [E H];
    apply schema_eqb_eq in E; subst.
  - apply compat_left_base. exact H.
  - apply schemas_ok_sym. apply compat_left_base. exact H.
Qed.

Example compat_add_anywhere : compatb [0;1;2] [0;1;2] [9;0;1;2] = true /\ compatb [0;1;2] [0;9;1;2] [0;1;2] = true.
Proof. split; reflexivity. Qed.
Example compat_drop : compatb [0;1;2] [0;2] [0;1;2] = true.
Proof. reflexivity. Qed.
Example compat_add_and_move : compatb [0;1;2] [0;1;2] [2;9;0;1] = true.
Proof. reflexivity. Qed.
Example compat_not_pure_move : compatb [0;1] [1;0] [0;1] = false /\ schemas_okb [0;1] [1;0] [0;1] = false.
Proof. split; reflexivity. Qed.
Example schemas_ok_not_both_drop : schemas_okb [0;1] [0] [0] = false.
Proof. reflexivity. Qed.

(* ---------- the data scope, decidably: the complements of the open findings ---------- *)
Definition conv_okb (sl sr : schema) (ol or : option row) : bool :=
  match ol, or with
  | Some l, Some r => negb (row_eqb l r) || schema_eqb sl sr     (* byte-identical tuples only under one column list *)
  | _, _ => true
  end.

Lemma conv_okb_ok sl sr ol or : conv_okb sl sr ol or = true -> conv_ok sl sr ol or.
Proof.
  unfold conv_okb, conv_ok. intros H x E1 E2. subst. apply orb_true_iff in H as [H|H].
  - apply negb_true_iff in H. assert (row_eqb x x = true) by (apply row_eqb_eq; reflexivity). congruence.
  - apply schema_eqb_eq. exact H.
Qed.

Definition delete_exactb (sb sl sr : schema) (ob ol or : option row) : bool :=
  match ob, ol, or with
  | Some b, None, Some r => Bool.eqb (modified sb sr b r) (existsb (gone sb sr b r) sb)
  | Some b, Some l, None => Bool.eqb (modified sb sl b l) (existsb (gone sb sl b l) sb)
  | _, _, _ => true
  end.

Lemma delete_exactb_ok sb sl sr ob ol or : delete_exactb sb sl sr ob ol or = true -> delete_exact sb sl sr ob ol or.
Proof.
  unfold delete_exactb, delete_exact. destruct ob, ol, or; auto; apply eqb_prop.
Qed.

Definition in_scope (sb sl sr : schema) (ob ol or : option row) : bool :=
  schemas_okb sb sl sr && conv_okb sl sr ol or && delete_exactb sb sl sr ob ol or.

Lemma in_scope_ok sb sl sr ob ol or : in_scope sb sl sr ob ol or = true ->
  schemas_ok sb sl sr /\ conv_ok sl sr ol or /\ delete_exact sb sl sr ob ol or.
Proof.
  unfold in_scope. rewrite !andb_true_iff. intros [[A B] C].
  split; [apply schemas_okb_iff; exact A|]. split; [apply conv_okb_ok; exact B|apply delete_exactb_ok; exact C].
Qed.

Lemma conv_okb_sym sl sr ol or : conv_okb sl sr ol or = conv_okb sr sl or ol.
Proof.
  unfold conv_okb. destruct ol as [l|], or as [r|]; try reflexivity.
  assert (E1 : row_eqb l r = row_eqb r l).
  { apply eq_true_iff_eq. rewrite !row_eqb_eq. split; congruence. }
  assert (E2 : schema_eqb sl sr = schema_eqb sr sl).
  { apply eq_true_iff_eq. rewrite !schema_eqb_eq. split; congruence. }
  rewrite E1, E2. reflexivity.
Qed.

Lemma in_scope_sym sb sl sr ob ol or : in_scope sb sl sr ob ol or = in_scope sb sr sl ob or ol.
Proof.
  unfold in_scope, schemas_okb. rewrite (conv_okb_sym sl sr).
  assert (E : delete_exactb sb sl sr ob ol or = delete_exactb sb sr sl ob or ol) by (destruct ob, ol, or; reflexivity).
  rewrite E. destruct (side_flag sb sl sr || schema_eqb sl sb), (side_flag sb sr sl || schema_eqb sr sb); reflexivity.
Qed.

(* conflict_iff, lifted: the hypotheses are three decidable predicates (in_scope); delete_exact is the
   exact boundary of the delete-vs-modify case (conflict_iff_boundary below).  Full statement (for every
   table in the schema class, without the data scope) is FALSE: conflict_iff_refuted,
   byte_coincidence_refuted, reorder_update_lost. *)
Theorem conflict_iff_in_scope : forall sb sl sr b l r k,
  in_scope sb sl sr (get k b) (get k l) (get k r) = true ->
  (exists e, getc k (m_conf (table_merge true sb sl sr b l r)) = Some e)
  <-> conflict_prop sb sl sr (get k b) (get k l) (get k r).
Proof.
  intros sb sl sr b l r k H. apply in_scope_ok in H as [Hs [Cv Dx]].
  rewrite conflicts_exact. unfold merge_key.
  rewrite (row_merge_refines_spec_exact _ _ _ _ _ _ Hs Cv Dx). rewrite <- spec_conflict_iff.
  destruct (snd (spec_row sb sl sr (get k b) (get k l) (get k r))); split; intro H; try discriminate; eauto.
  destruct H as [e H]. discriminate.
Qed.

(* delete_exact is necessary: when one side deleted the row and the other side's diff reaches
   TryMerge, the recorded verdict is "some ancestor column changed", so conflict_iff holds for that
   key exactly when delete_exact does. *)
Theorem conflict_iff_boundary : forall sb sl sr b r,
  side_diff (side_flag sb sr sl) (Some b) (Some r) = true ->
  ((exists v, row_merge true sb sl sr (Some b) None (Some r) = ROk v true)
   <-> conflict_prop sb sl sr (Some b) None (Some r))
  <-> delete_exact sb sl sr (Some b) None (Some r).
Proof.
  intros sb sl sr b r Dr.
  assert (R : row_merge true sb sl sr (Some b) None (Some r) = ROk None (existsb (gone sb sr b r) sb)).
  { unfold row_merge. rewrite Dr. cbn [side_diff]. unfold try_merge.
    rewrite (base_pass_exists _ (gone sb sr b r)) by (intro c; apply base_col_right_only).
    destruct (existsb (gone sb sr b r) sb); reflexivity. }
  rewrite R. rewrite <- spec_conflict_iff. unfold spec_row, delete_exact. cbn [snd].
  destruct (modified sb sr b r), (existsb (gone sb sr b r) sb).
  - split; intro H; [reflexivity|]. split; [reflexivity|intros _; exists None; reflexivity].
  - split; intro H; [|discriminate]. destruct H as [_ H]. destruct (H eq_refl) as [v Hv]. discriminate.
  - split; intro H; [|discriminate]. destruct H as [H _]. specialize (H (ex_intro _ None eq_refl)). discriminate.
  - split; intro H; [reflexivity|]. split; [intros [v Hv]; discriminate|discriminate].
Qed.

(* ---------- the representation-aware model at cls = identity is the value-only model ---------- *)
Lemma cell_veqb_id a b : cell_veqb (fun x => x) a b = cell_eqb a b.
Proof. destruct a, b; reflexivity. Qed.

Lemma ocell_veqb_id a b : ocell_veqb (fun x => x) a b = ocell_eqb a b.
Proof. destruct a as [x|], b as [y|]; cbn [ocell_veqb ocell_eqb]; try reflexivity; apply cell_veqb_id. Qed.

Lemma tie_same v : tie v v = v.
Proof. unfold tie. destruct (bytes_gt v v); reflexivity. Qed.

Lemma merged_col_g_id sb sl sr ob l r c :
  merged_col_g (fun x => x) sb sl sr ob l r c = merged_col sb sl sr ob l r c.
Proof.
  unfold merged_col_g, merged_col.
  destruct (ocol sb ob c) as [bv|], (col sl l c) as [lv|], (col sr r c) as [rv|]; rewrite ?cell_veqb_id; try reflexivity.
  - destruct (cell_eqb_spec lv rv); [subst; rewrite tie_same|]; reflexivity.
  - destruct (cell_eqb_spec lv rv); [subst; rewrite tie_same|]; reflexivity.
Qed.

Lemma base_col_g_id fixed sb sl sr b ol or c :
  base_col_g (fun x => x) fixed sb sl sr b ol or c = base_col fixed sb sl sr b ol or c.
Proof.
  unfold base_col_g, base_col, cmp_base_g, cmp_base.
  destruct ol as [l|], or as [r|]; reflexivity.
Qed.

Lemma base_pass_ext f g cs : (forall c, f c = g c) -> base_pass f cs = base_pass g cs.
Proof. intro H. induction cs as [|c cs IH]; cbn [base_pass]; [reflexivity|]. rewrite H, IH. reflexivity. Qed.

Lemma col_pass_ext f g cs : (forall c, f c = g c) -> col_pass f cs = col_pass g cs.
Proof. intro H. induction cs as [|c cs IH]; cbn [col_pass]; [reflexivity|]. rewrite H, IH. reflexivity. Qed.

Lemma try_merge_g_id fixed sb sl sr sm ob ol or :
  try_merge_g (fun x => x) fixed sb sl sr sm ob ol or = try_merge fixed sb sl sr sm ob ol or.
Proof.
  unfold try_merge_g, try_merge.
  assert (B : forall b, base_pass (base_col_g (fun x => x) fixed sb sl sr b ol or) sb = base_pass (base_col fixed sb sl sr b ol or) sb)
    by (intro b; apply base_pass_ext; intro c; apply base_col_g_id).
  destruct ob as [b|]; rewrite ?B;
    destruct ol as [l|], or as [r|]; try reflexivity;
    rewrite (col_pass_ext _ _ sm (merged_col_g_id sb sl sr _ l r)); reflexivity.
Qed.

Lemma row_merge_g_id fixed sb sl sr ob ol or :
  row_merge_g (fun x => x) fixed sb sl sr ob ol or = row_merge fixed sb sl sr ob ol or.
Proof. unfold row_merge_g, row_merge. rewrite try_merge_g_id. reflexivity. Qed.

Lemma existsb_ext {A} (f g : A -> bool) l : (forall x, f x = g x) -> existsb f l = existsb g l.
Proof. intro H. induction l as [|x l IH]; cbn [existsb]; [reflexivity|]. rewrite H, IH. reflexivity. Qed.

Lemma table_merge_g_id fixed sb sl sr b l r :
  table_merge_g (fun x => x) fixed sb sl sr b l r = table_merge fixed sb sl sr b l r.
Proof.
  unfold table_merge_g, table_merge.
  assert (K : forall k, merge_key_g (fun x => x) fixed sb sl sr b l r k = merge_key fixed sb sl sr b l r k)
    by (intro k; apply row_merge_g_id).
  f_equal.
  - apply existsb_ext. intro k. rewrite K. reflexivity.
  - apply flat_map_ext. intro k. rewrite K. reflexivity.
  - apply flat_map_ext. intro k. rewrite K. reflexivity.
Qed.

Lemma cell_merge_g_id b l r : cell_merge_g (fun x => x) b l r = cell_merge b l r.
Proof.
  unfold cell_merge_g, cell_merge. rewrite !ocell_veqb_id.
  destruct (ocell_eqb_spec l r) as [E|NE]; [|reflexivity]. subst.
  destruct r as [v|]; cbn [otie]; [rewrite tie_same|]; reflexivity.
Qed.

Lemma spec_row_g_id sb sl sr ob ol or : spec_row_g (fun x => x) sb sl sr ob ol or = spec_row sb sl sr ob ol or.
Proof.
  assert (M : forall s b x, modified_g (fun y => y) sb s b x = modified sb s b x).
  { intros. unfold modified_g, modified. apply existsb_ext. intro c. rewrite ocell_veqb_id. reflexivity. }
  assert (C : forall l r, cellwise_conflict_g (fun y => y) sb sl sr ob l r = cellwise_conflict sb sl sr ob l r).
  { intros. unfold cellwise_conflict_g, cellwise_conflict. apply existsb_ext. intro c.
    unfold clash_at_g, clash_at. rewrite cell_merge_g_id. reflexivity. }
  assert (R : forall sm l r, cellwise_row_g (fun y => y) sb sl sr sm ob l r = cellwise_row sb sl sr sm ob l r).
  { intros. unfold cellwise_row_g, cellwise_row. apply map_ext. intro c. rewrite cell_merge_g_id. reflexivity. }
  unfold spec_row_g, spec_row. destruct ob, ol, or; rewrite ?M, ?C, ?R; reflexivity.
Qed.

Lemma orow_agree_v_id s1 o1 s2 o2 : orow_agree_v (fun x => x) s1 o1 s2 o2 = orow_agree s1 o1 s2 o2.
Proof.
  destruct o1, o2; reflexivity.
Qed.

(* ---------- oracle_on_model ---------- *)
Lemma orow_eqb_refl a : orow_eqb a a = true.
Proof. destruct a; cbn [orow_eqb]; [apply row_eqb_eq|]; reflexivity. Qed.

Lemma orow_agree_refl s o : orow_agree s o s o = true.
Proof.
  destruct o; cbn [orow_agree]; [|reflexivity]. apply forallb_forall. intros c _. apply ocell_eqb_refl.
Qed.

Lemma same_cols_refl s : same_cols s s = true.
Proof. unfold same_cols. apply andb_true_iff. split; apply forallb_forall; intros c Hc; apply mem_In; exact Hc. Qed.

Lemma same_cols_merged_swap sb sl sr : same_cols (merged_schema sb sl sr) (merged_schema sb sr sl) = true.
Proof.
  unfold same_cols. apply andb_true_iff. split; apply forallb_forall; intros c Hc; apply mem_In in Hc.
  - rewrite <- mem_merged_swap. exact Hc.
  - rewrite mem_merged_swap. exact Hc.
Qed.

Lemma same_data_agree s1 o1 s2 o2 : same_data s1 o1 s2 o2 -> orow_agree s1 o1 s2 o2 = true.
Proof.
  intros [P D]. destruct o1 as [r1|], o2 as [r2|]; cbn [orow_agree].
  - apply forallb_forall. intros c _. specialize (D c). cbn [ocol] in D. rewrite D. apply ocell_eqb_refl.
  - destruct P as [_ P]. specialize (P eq_refl). discriminate.
  - destruct P as [P _]. specialize (P eq_refl). discriminate.
  - reflexivity.
Qed.

Lemma dir_ok_model sb sl sr b l r :
  (forall k, in_scope sb sl sr (get k b) (get k l) (get k r) = true) ->
  dir_ok (fun x => x) sb sl sr b l r (model_dir (fun x => x) sb sl sr b l r) = true.
Proof.
  intro H. unfold dir_ok, model_dir. rewrite table_merge_g_id. rewrite merge_total. cbv iota. cbn [d_class d_sm d_rows d_conf].
  rewrite !andb_true_iff. split; [split; [split|]|].
  - destruct (m_conf _); reflexivity.
  - apply same_cols_refl.
  - destruct (m_conf _); reflexivity.
  - apply forallb_forall. intros k _.
    destruct (in_scope_ok _ _ _ _ _ _ (H k)) as [Hs [Cv Dx]].
    rewrite table_merge_get, conflicts_exact. unfold merge_key.
    rewrite (row_merge_refines_spec_exact _ _ _ _ _ _ Hs Cv Dx). rewrite spec_row_g_id.
    destruct (spec_row sb sl sr (get k b) (get k l) (get k r)) as [v c]. cbn [fst snd].
    rewrite !orow_agree_v_id.
    rewrite orow_agree_refl. destruct c; cbn [andb negb]; rewrite ?orow_eqb_refl, ?orow_agree_refl; reflexivity.
Qed.

Lemma swap_ok_model sb sl sr b l r :
  (forall k, in_scope sb sl sr (get k b) (get k l) (get k r) = true) ->
  swap_ok sl sr (model_dir (fun x => x) sb sl sr b l r) (model_dir (fun x => x) sb sr sl b r l) = true.
Proof.
  intro H. unfold swap_ok, model_dir. rewrite !table_merge_g_id. rewrite !merge_total. cbv iota. cbn [d_class d_sm d_rows d_conf].
  apply orb_true_iff. right. apply andb_true_iff. split; [apply same_cols_merged_swap|].
  apply forallb_forall. intros k _.
  destruct (in_scope_ok _ _ _ _ _ _ (H k)) as [Hs [Cv Dx]].
  pose proof (merge_swap sb sl sr b l r k Hs Cv Dx) as MS. cbv zeta in MS.
  destruct (getc k (m_conf (table_merge true sb sl sr b l r))) as [[[b1 o1] t1]|];
    destruct (getc k (m_conf (table_merge true sb sr sl b r l))) as [[[b2 o2] t2]|]; try contradiction.
  - destruct MS as [E1 [E2 [E3 [E4 E5]]]]. subst. rewrite orow_eqb_refl, !orow_agree_refl. reflexivity.
  - apply same_data_agree. exact MS.
Qed.

(* oracle_on_model: on every input all of whose keys are inside the decidable scope, the executable
   statement of the property accepts the model's own observation (both directions and the swap).
   Stated for inputs without representation variants (i_cls = []); with variants the swap conjunct
   is merge_swap_g and the value conjuncts are not yet lifted (see the round-3 section). *)
Theorem oracle_on_model : forall i,
  i_cls i = [] ->
  (forall k, in_scope (i_sb i) (i_sl i) (i_sr i) (get k (i_b i)) (get k (i_l i)) (get k (i_r i)) = true) ->
  oracle i (model_obs i) = true.
Proof.
  intros i Ec H. unfold oracle, model_obs. cbn [o_lr o_rl]. rewrite Ec.
  change (clsf []) with (fun x : N => x).
  rewrite dir_ok_model by exact H.
  rewrite dir_ok_model by (intro k; rewrite <- in_scope_sym; apply H).
  rewrite swap_ok_model by exact H. reflexivity.
Qed.

(* ====================================================================== *)
(* Round 3: representation-aware model (value class vs stored bytes), for every class function *)
(* ====================================================================== *)
Section Representation.
  Variable cls : N -> N.

  Lemma cell_veqb_sym a b : cell_veqb cls a b = cell_veqb cls b a.
  Proof. destruct a, b; cbn [cell_veqb]; try reflexivity. apply N.eqb_sym. Qed.

  Lemma cell_veqb_trans a b c : cell_veqb cls a b = true -> cell_veqb cls c b = true -> cell_veqb cls a c = true.
  Proof.
    destruct a, b, c; cbn [cell_veqb]; try discriminate; try reflexivity.
    rewrite !N.eqb_eq. congruence.
  Qed.

  Lemma tie_sym l r : tie l r = tie r l.
  Proof.
    unfold tie, bytes_gt. destruct l as [x|], r as [y|]; try reflexivity.
    destruct (N.ltb_spec y x), (N.ltb_spec x y); try reflexivity; [exfalso; eapply N.lt_asymm; eassumption|].
    f_equal. apply N.le_antisymm; assumption.
  Qed.

  (* ---------- merge_total, any class function ---------- *)
  Lemma base_col_g_fixed_total sb sl sr b ol or c : base_col_g cls true sb sl sr b ol or c <> None.
  Proof.
    unfold base_col_g. destruct ol as [l|], or as [r|]; try discriminate.
    - destruct (col sl l c), (col sr r c); discriminate.
    - destruct (col sl l c); discriminate.
    - destruct (col sr r c); discriminate.
  Qed.

  Lemma merged_col_g_total sb sl sr ob l r c :
    mem c (merged_schema sb sl sr) = true -> merged_col_g cls sb sl sr ob l r c <> CErr.
  Proof.
    rewrite mem_merged. intro Hm. unfold merged_col_g.
    destruct (ocol sb ob c) as [bv|] eqn:Eb.
    - apply ocol_some_mem in Eb. rewrite Eb in Hm. cbn [implb negb andb orb] in Hm.
      rewrite !andb_false_r, orb_false_r in Hm. apply andb_true_iff in Hm as [Hl Hr].
      apply (col_some_ex sl l c) in Hl as [lv Hl]. apply (col_some_ex sr r c) in Hr as [rv Hr]. rewrite Hl, Hr.
      destruct (cell_veqb cls lv rv); [discriminate|].
      destruct (negb (cell_veqb cls lv bv) && negb (cell_veqb cls rv bv)); [discriminate|].
      destruct (negb (cell_veqb cls lv bv)); discriminate.
    - destruct (col sl l c) as [lv|] eqn:El, (col sr r c) as [rv|] eqn:Er; try discriminate.
      + destruct (cell_veqb cls lv rv); discriminate.
      + apply col_none in El. apply col_none in Er. rewrite El, Er in Hm. discriminate.
  Qed.

  Lemma try_merge_g_total sb sl sr ob ol or :
    (ob = None -> ol <> None /\ or <> None) ->
    try_merge_g cls true sb sl sr (merged_schema sb sl sr) ob ol or <> TErr.
  Proof.
    intro Hn. unfold try_merge_g.
    assert (CP : forall l r, col_pass (merged_col_g cls sb sl sr ob l r) (merged_schema sb sl sr) <> TErr).
    { intros. apply col_pass_total. intros c Hc. apply merged_col_g_total. apply mem_In. exact Hc. }
    destruct ob as [b|].
    - pose proof (base_pass_total _ sb (base_col_g_fixed_total sb sl sr b ol or)) as Hb.
      destruct (base_pass _ sb) as [[|]|]; [discriminate| |congruence].
      destruct ol, or; try discriminate; apply CP.
    - destruct (Hn eq_refl) as [H1 H2]. destruct ol, or; try congruence; apply CP.
  Qed.

  Theorem row_merge_g_total : forall sb sl sr ob ol or, row_merge_g cls true sb sl sr ob ol or <> RErr.
  Proof.
    intros. unfold row_merge_g.
    destruct (side_diff (side_flag sb sl sr) ob ol) eqn:Dl, (side_diff (side_flag sb sr sl) ob or) eqn:Dr; try discriminate.
    destruct ol as [l|], or as [r|]; try discriminate.
    - destruct (row_eqb l r); [discriminate|].
      pose proof (try_merge_g_total sb sl sr ob (Some l) (Some r)) as T.
      destruct (try_merge_g _ _ _ _ _ _ _ _ _); try discriminate. exfalso. apply T; [|reflexivity]. intros _. split; discriminate.
    - pose proof (try_merge_g_total sb sl sr ob (Some l) None) as T.
      destruct (try_merge_g _ _ _ _ _ _ _ _ _); try discriminate. exfalso. apply T; [|reflexivity].
      intro E. subst ob. discriminate.
    - pose proof (try_merge_g_total sb sl sr ob None (Some r)) as T.
      destruct (try_merge_g _ _ _ _ _ _ _ _ _); try discriminate. exfalso. apply T; [|reflexivity].
      intro E. subst ob. discriminate.
  Qed.

  (* merge_total for every class function: the merge with collation-equal, byte-different cells
     (and added / dropped / moved columns) never reaches an internal-error branch *)
  Theorem merge_total_g : forall sb sl sr b l r, m_err (table_merge_g cls true sb sl sr b l r) = false.
  Proof.
    intros. unfold table_merge_g. cbn [m_err].
    destruct (existsb _ _) eqn:E; [|reflexivity].
    apply existsb_exists in E as [k [_ Hk]]. unfold merge_key_g in Hk.
    pose proof (row_merge_g_total sb sl sr (get k b) (get k l) (get k r)) as T.
    destruct (row_merge_g _ _ _ _ _ _ _ _); [congruence|discriminate].
  Qed.

  (* ---------- table level ---------- *)
  Lemma merge_key_g_absent fixed sb sl sr b l r k :
    ~ In k (all_keys b l r) -> merge_key_g cls fixed sb sl sr b l r k = ROk None false.
  Proof.
    unfold all_keys. rewrite nodup_In, !in_app_iff. intro H. unfold merge_key_g.
    assert (Hb : get k b = None) by (apply get_none_keys; tauto).
    assert (Hl : get k l = None) by (apply get_none_keys; tauto).
    assert (Hr : get k r = None) by (apply get_none_keys; tauto).
    rewrite Hb, Hl, Hr. reflexivity.
  Qed.

  Theorem table_merge_get_g : forall fixed sb sl sr b l r k,
    get k (m_rows (table_merge_g cls fixed sb sl sr b l r))
    = match merge_key_g cls fixed sb sl sr b l r k with ROk v _ => v | RErr => None end.
  Proof.
    intros. unfold table_merge_g. cbn [m_rows].
    rewrite (flat_map_ext _ (fun k' => match (match merge_key_g cls fixed sb sl sr b l r k' with ROk v _ => v | RErr => None end) with
                                       | Some v => [(k', v)] | None => [] end)).
    2:{ intro a. destruct (merge_key_g cls fixed sb sl sr b l r a) as [|[v|] c]; reflexivity. }
    rewrite get_flat_map. destruct (existsb (N.eqb k) (all_keys b l r)) eqn:E; [reflexivity|].
    rewrite merge_key_g_absent; [reflexivity|]. intro H. apply existsb_eqb_In in H. congruence.
  Qed.

  Theorem conflicts_exact_g : forall fixed sb sl sr b l r k,
    getc k (m_conf (table_merge_g cls fixed sb sl sr b l r))
    = match merge_key_g cls fixed sb sl sr b l r k with
      | ROk v true => Some (get k b, v, get k r)
      | _ => None
      end.
  Proof.
    intros. unfold table_merge_g. cbn [m_conf].
    rewrite (flat_map_ext _ (fun k' => match (match merge_key_g cls fixed sb sl sr b l r k' with
                                              | ROk v true => Some (get k' b, v, get k' r) | _ => None end) with
                                       | Some e => [(k', e)] | None => [] end)).
    2:{ intro a. destruct (merge_key_g cls fixed sb sl sr b l r a) as [|v [|]]; reflexivity. }
    rewrite getc_flat_map. destruct (existsb (N.eqb k) (all_keys b l r)) eqn:E; [reflexivity|].
    rewrite merge_key_g_absent; [reflexivity|]. intro H. apply existsb_eqb_In in H. congruence.
  Qed.

  (* ---------- symmetry of TryMerge, representations included ---------- *)
  Lemma merged_col_g_sym sb sl sr ob l r c :
    mem c (merged_schema sb sl sr) = true ->
    merged_col_g cls sb sl sr ob l r c = merged_col_g cls sb sr sl ob r l c.
  Proof.
    rewrite mem_merged. intro Hm. unfold merged_col_g.
    destruct (ocol sb ob c) as [bv|] eqn:Eb.
    - apply ocol_some_mem in Eb. rewrite Eb in Hm. cbn [implb negb andb orb] in Hm.
      rewrite !andb_false_r, orb_false_r in Hm. apply andb_true_iff in Hm as [Hl Hr].
      apply (col_some_ex sl l c) in Hl as [lv Hl]. apply (col_some_ex sr r c) in Hr as [rv Hr]. rewrite Hl, Hr.
      rewrite (cell_veqb_sym rv lv), (tie_sym rv lv).
      destruct (cell_veqb cls lv rv) eqn:E; [reflexivity|].
      destruct (cell_veqb cls lv bv) eqn:A, (cell_veqb cls rv bv) eqn:B; cbn [negb andb]; try reflexivity.
      rewrite (cell_veqb_trans lv bv rv A B) in E. discriminate.
    - destruct (col sl l c) as [lv|], (col sr r c) as [rv|]; try reflexivity.
      rewrite (cell_veqb_sym rv lv), (tie_sym rv lv). reflexivity.
  Qed.

  Lemma base_col_g_sym sb sl sr b ol or c :
    base_col_g cls true sb sl sr b ol or c = base_col_g cls true sb sr sl b or ol c.
  Proof.
    unfold base_col_g. destruct ol as [l|], or as [r|]; try reflexivity.
    destruct (col sl l c), (col sr r c); reflexivity.
  Qed.

  (* two TryMerge outcomes that agree up to the column order of the two merged schemas *)
  Definition tm_swap (s1 s2 : schema) (a b : tm) : Prop :=
    match a, b with
    | TConflict, TConflict => True
    | TDelete, TDelete => True
    | TMerged m1, TMerged m2 => same_data s1 (Some m1) s2 (Some m2)
    | _, _ => False
    end.

  Lemma col_pass_swap sb sl sr ob l r :
    tm_swap (merged_schema sb sl sr) (merged_schema sb sr sl)
      (col_pass (merged_col_g cls sb sl sr ob l r) (merged_schema sb sl sr))
      (col_pass (merged_col_g cls sb sr sl ob r l) (merged_schema sb sr sl)).
  Proof.
    rewrite !col_pass_spec by (intros c Hc; apply merged_col_g_total; apply mem_In; exact Hc).
    assert (E : existsb (fun c => is_conf (merged_col_g cls sb sl sr ob l r c)) (merged_schema sb sl sr)
              = existsb (fun c => is_conf (merged_col_g cls sb sr sl ob r l c)) (merged_schema sb sr sl)).
    { apply eq_true_iff_eq. rewrite !existsb_exists. split; intros [c [Hin Hc]]; exists c; apply mem_In in Hin.
      - split; [apply mem_In; rewrite <- mem_merged_swap; exact Hin|]. rewrite <- merged_col_g_sym by exact Hin. exact Hc.
      - split; [apply mem_In; rewrite mem_merged_swap; exact Hin|]. rewrite merged_col_g_sym by (rewrite mem_merged_swap; exact Hin). exact Hc. }
    rewrite E. destruct (existsb _ (merged_schema sb sr sl)); cbn [tm_swap]; [exact I|].
    split; [split; discriminate|]. intro c. cbn [ocol].
    rewrite (col_map (fun c => val_of (merged_col_g cls sb sl sr ob l r c))).
    rewrite (col_map (fun c => val_of (merged_col_g cls sb sr sl ob r l c))).
    rewrite mem_merged_swap. destruct (mem c (merged_schema sb sr sl)) eqn:M; [|reflexivity].
    rewrite merged_col_g_sym by (rewrite mem_merged_swap; exact M). reflexivity.
  Qed.

  Lemma try_merge_g_swap sb sl sr ob ol or :
    (ob = None -> ol <> None /\ or <> None) -> (ol <> None \/ or <> None) ->
    tm_swap (merged_schema sb sl sr) (merged_schema sb sr sl)
      (try_merge_g cls true sb sl sr (merged_schema sb sl sr) ob ol or)
      (try_merge_g cls true sb sr sl (merged_schema sb sr sl) ob or ol).
  Proof.
    intros Hn Hs. unfold try_merge_g.
    destruct ob as [b|].
    - rewrite (base_pass_ext _ (base_col_g cls true sb sr sl b or ol) sb) by (intro c; apply base_col_g_sym).
      pose proof (base_pass_total _ sb (base_col_g_fixed_total sb sr sl b or ol)) as Hb.
      destruct (base_pass _ sb) as [[|]|]; [exact I| |congruence].
      destruct ol as [l|], or as [r|]; cbn [tm_swap]; try exact I; try apply col_pass_swap.
    - destruct (Hn eq_refl) as [H1 H2]. destruct ol as [l|], or as [r|]; try congruence; apply col_pass_swap.
  Qed.

  Lemma same_data_omap_remap sb sl sr s o :
    same_data (merged_schema sb sl sr) (option_map (remap (merged_schema sb sl sr) s) o)
              (merged_schema sb sr sl) (option_map (remap (merged_schema sb sr sl) s) o).
  Proof. destruct o; cbn [option_map]; [apply same_data_remap|apply same_data_none]. Qed.

  (* the outcome of the two directions for one key *)
  Definition res_swap (sb sl sr : schema) (ol or : option row) (a b : res) : Prop :=
    match a, b with
    | ROk v1 c1, ROk v2 c2 =>
        c1 = c2
        /\ (c1 = false -> same_data (merged_schema sb sl sr) v1 (merged_schema sb sr sl) v2)
        /\ (c1 = true -> v1 = option_map (remap (merged_schema sb sl sr) sl) ol
                         /\ v2 = option_map (remap (merged_schema sb sr sl) sr) or)
    | _, _ => False
    end.

  Theorem row_merge_g_swap : forall sb sl sr ob ol or,
    schemas_ok sb sl sr -> conv_ok sl sr ol or ->
    res_swap sb sl sr ol or (row_merge_g cls true sb sl sr ob ol or) (row_merge_g cls true sb sr sl ob or ol).
  Proof.
    intros sb sl sr ob ol or [Hl Hr] Cv. unfold row_merge_g.
    destruct (side_diff (side_flag sb sl sr) ob ol) eqn:Dl;
      destruct (side_diff (side_flag sb sr sl) ob or) eqn:Dr.
    - (* both sides have a diff *)
      destruct ol as [l|], or as [r|].
      + assert (ER : row_eqb r l = row_eqb l r).
        { apply eq_true_iff_eq. rewrite !row_eqb_eq. split; congruence. }
        rewrite ER. destruct (row_eqb l r) eqn:E.
        * apply row_eqb_eq in E. subst r. assert (sl = sr) by (apply (Cv l); reflexivity). subst sr.
          cbn [res_swap]. split; [reflexivity|]. split; [|discriminate]. intros _.
          split; [tauto|reflexivity].
        * pose proof (try_merge_g_swap sb sl sr ob (Some l) (Some r)) as T.
          destruct (try_merge_g cls true sb sl sr _ ob (Some l) (Some r)), (try_merge_g cls true sb sr sl _ ob (Some r) (Some l));
            cbn [tm_swap res_swap] in *;
            try (exfalso; apply T; [intros _; split; discriminate|left; discriminate]).
          -- split; [reflexivity|]. split; [discriminate|]. intros _. split; reflexivity.
          -- split; [reflexivity|]. split; [|discriminate]. intros _. apply same_data_none.
          -- split; [reflexivity|]. split; [|discriminate]. intros _. apply T; [intros _; split; discriminate|left; discriminate].
      + destruct ob as [b|]; [|discriminate].
        pose proof (try_merge_g_swap sb sl sr (Some b) (Some l) None) as T.
        destruct (try_merge_g cls true sb sl sr _ (Some b) (Some l) None), (try_merge_g cls true sb sr sl _ (Some b) None (Some l));
          cbn [tm_swap res_swap] in *;
          try (exfalso; apply T; [discriminate|left; discriminate]).
        * split; [reflexivity|]. split; [discriminate|]. intros _. split; reflexivity.
        * split; [reflexivity|]. split; [|discriminate]. intros _. apply same_data_none.
        * split; [reflexivity|]. split; [|discriminate]. intros _. apply T; [discriminate|left; discriminate].
      + destruct ob as [b|]; [|discriminate].
        pose proof (try_merge_g_swap sb sl sr (Some b) None (Some r)) as T.
        destruct (try_merge_g cls true sb sl sr _ (Some b) None (Some r)), (try_merge_g cls true sb sr sl _ (Some b) (Some r) None);
          cbn [tm_swap res_swap] in *;
          try (exfalso; apply T; [discriminate|right; discriminate]).
        * split; [reflexivity|]. split; [discriminate|]. intros _. split; reflexivity.
        * split; [reflexivity|]. split; [|discriminate]. intros _. apply same_data_none.
        * split; [reflexivity|]. split; [|discriminate]. intros _. apply T; [discriminate|right; discriminate].
      + cbn [res_swap]. split; [reflexivity|]. split; [|discriminate]. intros _. apply same_data_none.
    - (* only the left side has a diff: both directions keep the left row *)
      cbn [res_swap]. split; [reflexivity|]. split; [|discriminate]. intros _. apply same_data_omap_remap.
    - cbn [res_swap]. split; [reflexivity|]. split; [|discriminate]. intros _. apply same_data_omap_remap.
    - (* no diff on either side: both rows are the ancestor's, in the ancestor's schema *)
      cbn [res_swap]. split; [reflexivity|]. split; [|discriminate]. intros _.
      destruct (side_diff_false _ sb sl ob ol Hl Dl) as [[Eb Eo]|[b [Eb [Eo Es]]]]; subst.
      + destruct (side_diff_false _ sb sr None or Hr Dr) as [[_ Eo]|[b [Eb _]]]; [subst; apply same_data_none|discriminate].
      + destruct (side_diff_false _ sb sr (Some b) or Hr Dr) as [[Eb _]|[b' [Eb [Eo Es]]]]; [discriminate|].
        inversion Eb; subst b' or sr. cbn [option_map]. split; [tauto|reflexivity].
  Qed.

  (* merge_swap with representations: for every class function, every schema triple with schemas_ok,
     all tables and every key with conv_ok: the two directions record a conflict for the same keys
     with mirrored entries, and on every other key the two merged tables hold the same stored cells
     (same bytes, not only the same values), column name by column name.  (delete_exact is not needed:
     this is a symmetry of the implementation itself, not of the declarative merge.) *)
  Theorem merge_swap_g : forall sb sl sr b l r k,
    schemas_ok sb sl sr -> conv_ok sl sr (get k l) (get k r) ->
    let M1 := table_merge_g cls true sb sl sr b l r in
    let M2 := table_merge_g cls true sb sr sl b r l in
    match getc k (m_conf M1), getc k (m_conf M2) with
    | None, None =>
        same_data (merged_schema sb sl sr) (get k (m_rows M1)) (merged_schema sb sr sl) (get k (m_rows M2))
    | Some (b1, o1, t1), Some (b2, o2, t2) =>
        b1 = b2 /\ t1 = get k r /\ t2 = get k l
        /\ o1 = option_map (remap (merged_schema sb sl sr) sl) (get k l)
        /\ o2 = option_map (remap (merged_schema sb sr sl) sr) (get k r)
    | _, _ => False
    end.
  Proof.
    intros sb sl sr b l r k Hs Cv M1 M2. subst M1 M2.
    rewrite !conflicts_exact_g, !table_merge_get_g. unfold merge_key_g.
    pose proof (row_merge_g_swap sb sl sr (get k b) (get k l) (get k r) Hs Cv) as S.
    destruct (row_merge_g cls true sb sl sr (get k b) (get k l) (get k r)) as [|v1 c1];
      destruct (row_merge_g cls true sb sr sl (get k b) (get k r) (get k l)) as [|v2 c2]; cbn [res_swap] in S; try contradiction.
    destruct S as [Ec [Sd So]]. subst c2. destruct c1.
    - destruct (So eq_refl) as [E1 E2]. subst. auto.
    - apply Sd. reflexivity.
  Qed.
End Representation.

(* the seeded change "return leftVal on a convergent insert" breaks exactly this: with the tie-break
   the two directions agree on a collation-equal, byte-different convergent insert *)
Example tie_break_makes_swap_agree :
  let cls := fun x => if x <? 10 then 0 else x in      (* representations 1 ('AB') and 2 ('ab') of class 0 *)
  m_rows (table_merge_g cls true [0] [0] [0] [] [(3, [Some 1])] [(3, [Some 2])]) = [(3, [Some 2])]
  /\ m_rows (table_merge_g cls true [0] [0] [0] [] [(3, [Some 2])] [(3, [Some 1])]) = [(3, [Some 2])].
Proof. split; vm_compute; reflexivity. Qed.
