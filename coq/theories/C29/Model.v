(* C29 — executable model of dolt's row-level three-way merge.
   Mirrors go/libraries/doltcore/merge/merge_schema.go (mergeColumns),
   go/store/prolly/tree/three_way_differ.go (ThreeWayDiffer.Next),
   go/libraries/doltcore/merge/merge_prolly_rows.go (valueMerger.TryMerge,
   processBaseColumn, processColumn, primaryMerger.merge, conflictMerger.merge).
   No proofs in this file. *)
From Coq Require Import NArith List Bool.
Import ListNotations.
Local Open Scope N_scope.

(* A cell is a SQL value of one type class (NULL = None); a row is the list of
   non-key cells in the storage order of its side's schema; a schema is the list
   of column ids (tags) in storage order; a table maps keys to rows (first
   binding wins). *)
Definition cell := option N.
Definition row := list cell.
Definition schema := list N.
Definition table := list (N * row).

Definition cell_eqb (a b : cell) : bool :=
  match a, b with None, None => true | Some x, Some y => x =? y | _, _ => false end.

(* byte equality of two value tuples (bytes.Equal / equalcursorValues): positional, including the field count.
   Stored tuples have their trailing NULL fields trimmed (val.NewTuple / trimNullSuffix); rows are given to the
   model in that stored form, so (c0=0, c1=NULL) and (c1=0) are the same bytes. *)
Fixpoint row_eqb (a b : row) : bool :=
  match a, b with
  | [], [] => true
  | x :: a', y :: b' => cell_eqb x y && row_eqb a' b'
  | _, _ => false
  end.

Fixpoint get (k : N) (t : table) : option row :=
  match t with [] => None | (k', r) :: t' => if k' =? k then Some r else get k t' end.

Definition mem (c : N) (s : schema) : bool := existsb (N.eqb c) s.

(* findNonPKColumnMappingByTagOrName: position of column c in schema s *)
Fixpoint index_of (c : N) (s : schema) : option nat :=
  match s with [] => None | x :: s' => if x =? c then Some O else option_map S (index_of c s') end.

(* getColumn: None = the column does not exist on that side; fields past the end of a tuple read as NULL *)
Definition col (s : schema) (r : row) (c : N) : option cell :=
  match index_of c s with Some i => Some (nth i r None) | None => None end.

Definition ocol (s : schema) (o : option row) (c : N) : option cell :=
  match o with Some r => col s r c | None => None end.

Definition nullify (o : option cell) : cell := match o with Some v => v | None => None end.

(* mergeColumns: our columns in our order minus those of the ancestor that they dropped,
   then their new columns *)
Definition merged_schema (sb sl sr : schema) : schema :=
  filter (fun c => implb (mem c sb) (mem c sr)) sl
  ++ filter (fun c => negb (mem c sl) && negb (mem c sb)) sr.

(* diffInfo.{Left,Right}SchemaChange for side s (the other side is s'): the side added a
   column, or dropped an ancestor column that the other side still has *)
Definition side_flag (sb s s' : schema) : bool :=
  existsb (fun c => negb (mem c sb)) s || existsb (fun c => negb (mem c s) && mem c sb) s'.

(* remapTupleWithColumnDefaults without defaults: columns the side lacks become NULL *)
Definition remap (sm s : schema) (r : row) : row := map (fun c => nullify (col s r c)) sm.

(* tree.Differ: does the side have a diff at this key?  With the schema-change flag every
   surviving row counts as modified. *)
Definition side_diff (flag : bool) (ob os : option row) : bool :=
  match ob, os with
  | None, None => false
  | Some b, Some s => flag || negb (row_eqb b s)
  | _, _ => true
  end.

Definition cmp_base (sb : schema) (b : row) (c : N) (v : cell) : bool :=
  negb (cell_eqb (nullify (col sb b c)) v).

(* processBaseColumn for ancestor column c.  None = internal error.
   [fixed] = true models `m.leftSchema.GetNonPKCols().GetByIndex(leftColIdx)` (the repaired
   line); [fixed] = false models the line as found (`m.rightSchema…GetByIndex(leftColIdx)`,
   DESIGN F5): the lookup panics when the left index is out of range of the right schema. *)
Definition base_col (fixed : bool) (sb sl sr : schema) (b : row) (ol or : option row) (c : N) : option bool :=
  match ol, or with
  | None, None => Some false
  | None, Some r =>
      match col sr r c with None => Some false | Some v => Some (cmp_base sb b c v) end
  | Some l, None =>
      match col sl l c with
      | None => Some false
      | Some v =>
          if fixed then Some (cmp_base sb b c v)
          else match index_of c sl with
               | Some i => if Nat.ltb i (length sr) then Some (cmp_base sb b c v) else None
               | None => Some false
               end
      end
  | Some l, Some r =>
      match col sl l c, col sr r c with
      | Some _, Some _ => Some false
      | None, None => Some false
      | None, Some v => Some (cmp_base sb b c v)
      | Some v, None => Some (cmp_base sb b c v)
      end
  end.

(* the loop over the ancestor's columns in TryMerge: stops at the first error or conflict *)
Fixpoint base_pass (f : N -> option bool) (cs : schema) : option bool :=
  match cs with
  | [] => Some false
  | c :: cs' => match f c with None => None | Some true => Some true | Some false => base_pass f cs' end
  end.

Inductive cres := CErr | CConf | CVal (v : cell).

(* processColumn for merged column c (left and right rows both present) *)
Definition merged_col (sb sl sr : schema) (ob : option row) (l r : row) (c : N) : cres :=
  match ocol sb ob c with
  | None =>
      match col sl l c, col sr r c with
      | Some lv, None => CVal lv
      | None, None => CErr                       (* GetField with index -1 *)
      | None, Some rv => CVal rv
      | Some lv, Some rv => if cell_eqb lv rv then CVal lv else CConf
      end
  | Some bv =>
      match col sl l c, col sr r c with
      | None, None => CVal None
      | None, Some _ => CErr                     (* convert(leftVD, -1) *)
      | Some lv, None =>
          if cell_eqb lv None then CVal None
          else if negb (cell_eqb lv bv) && negb (cell_eqb bv None) then CConf
          else if negb (cell_eqb lv bv) then CVal lv else CVal None
      | Some lv, Some rv =>
          if cell_eqb lv rv then CVal lv
          else if negb (cell_eqb lv bv) && negb (cell_eqb rv bv) then CConf
          else if negb (cell_eqb lv bv) then CVal lv else CVal rv
      end
  end.

Inductive tm := TErr | TConflict | TDelete | TMerged (r : row).

Fixpoint col_pass (f : N -> cres) (cs : schema) : tm :=
  match cs with
  | [] => TMerged []
  | c :: cs' =>
      match f c with
      | CErr => TErr
      | CConf => TConflict
      | CVal v => match col_pass f cs' with TMerged r => TMerged (v :: r) | x => x end
      end
  end.

(* valueMerger.TryMerge (keyed tables) *)
Definition try_merge (fixed : bool) (sb sl sr sm : schema) (ob ol or : option row) : tm :=
  match (match ob with Some b => base_pass (base_col fixed sb sl sr b ol or) sb | None => Some false end) with
  | None => TErr
  | Some true => TConflict
  | Some false =>
      match ob, ol, or with
      | _, Some l, Some r => col_pass (merged_col sb sl sr ob l r) sm
      | Some _, _, _ => TDelete
      | None, _, _ => TErr                       (* not reachable from the differ *)
      end
  end.

Inductive res := RErr | ROk (v : option row) (conflict : bool).

(* ThreeWayDiffer.Next + the switch in computeProllyTreePatches + primaryMerger.merge, for one key.
   The value is the row left in the merged table (in the merged schema); on a conflict the
   table keeps our version and a conflict artifact is recorded. *)
Definition row_merge (fixed : bool) (sb sl sr : schema) (ob ol or : option row) : res :=
  let sm := merged_schema sb sl sr in
  let ours := option_map (remap sm sl) ol in
  match side_diff (side_flag sb sl sr) ob ol, side_diff (side_flag sb sr sl) ob or with
  | _, false => ROk ours false                                  (* no diff / left-only diff *)
  | false, true => ROk (option_map (remap sm sr) or) false      (* right add / modify / delete *)
  | true, true =>
      match ol, or with
      | None, None => ROk None false                            (* convergent delete *)
      | _, _ =>
          if (match ol, or with Some l, Some r => row_eqb l r | _, _ => false end)
          then ROk (option_map (remap sm sm) ol) false          (* convergent edit (same bytes): our stored tuple stays as it is and is
                                                                   read positionally under the merged schema — it is NOT rewritten *)
          else match try_merge fixed sb sl sr sm ob ol or with
               | TErr => RErr
               | TConflict => ROk ours true
               | TDelete => ROk None false
               | TMerged m => ROk (Some m) false
               end
      end
  end.

Definition keys (t : table) : list N := map fst t.

Definition all_keys (b l r : table) : list N := nodup N.eq_dec (keys b ++ keys l ++ keys r).

Definition merge_key (fixed : bool) (sb sl sr : schema) (b l r : table) (k : N) : res :=
  row_merge fixed sb sl sr (get k b) (get k l) (get k r).

Definition conflict_entry := (N * (option row * option row * option row))%type.  (* key, base, ours, theirs *)

Record merged := { m_err : bool; m_rows : table; m_conf : list conflict_entry }.

Definition is_err (x : res) : bool := match x with RErr => true | _ => false end.

(* mergeProllyTableData over all keys *)
Definition table_merge (fixed : bool) (sb sl sr : schema) (b l r : table) : merged :=
  let ks := all_keys b l r in
  let f := merge_key fixed sb sl sr b l r in
  {| m_err := existsb (fun k => is_err (f k)) ks;
     m_rows := flat_map (fun k => match f k with ROk (Some v) _ => [(k, v)] | _ => [] end) ks;
     m_conf := flat_map (fun k => match f k with ROk v true => [(k, (get k b, v, get k r))] | _ => [] end) ks |}.

(* ====================================================================== *)
(* Value class vs. representation.
   A cell's number stands for its stored bytes (bytes.Compare order = order of the numbers); a
   class function [cls] gives the value it denotes under the column's SQL type — 'foo' and 'FOO'
   in a case-insensitive collation are two representations of one class.  sqlType.Compare looks at
   the class; the differ (bytes.Equal) and the tie-break of processColumn look at the bytes.
   The functions above are the specialisation [cls = fun x => x] (proved: row_merge_g_id). *)
(* ====================================================================== *)
Definition cell_veqb (cls : N -> N) (a b : cell) : bool :=
  match a, b with None, None => true | Some x, Some y => cls x =? cls y | _, _ => false end.

(* bytes.Compare(leftCol, rightCol) > 0 *)
Definition bytes_gt (a b : cell) : bool :=
  match a, b with Some x, Some y => y <? x | Some _, None => true | _, _ => false end.

(* "we sort the two values and return the higher one" — both tie-break sites of processColumn *)
Definition tie (l r : cell) : cell := if bytes_gt l r then l else r.

Definition cmp_base_g (cls : N -> N) (sb : schema) (b : row) (c : N) (v : cell) : bool :=
  negb (cell_veqb cls (nullify (col sb b c)) v).

Definition base_col_g (cls : N -> N) (fixed : bool) (sb sl sr : schema) (b : row) (ol or : option row) (c : N) : option bool :=
  match ol, or with
  | None, None => Some false
  | None, Some r =>
      match col sr r c with None => Some false | Some v => Some (cmp_base_g cls sb b c v) end
  | Some l, None =>
      match col sl l c with
      | None => Some false
      | Some v =>
          if fixed then Some (cmp_base_g cls sb b c v)
          else match index_of c sl with
               | Some i => if Nat.ltb i (length sr) then Some (cmp_base_g cls sb b c v) else None
               | None => Some false
               end
      end
  | Some l, Some r =>
      match col sl l c, col sr r c with
      | Some _, Some _ => Some false
      | None, None => Some false
      | None, Some v => Some (cmp_base_g cls sb b c v)
      | Some v, None => Some (cmp_base_g cls sb b c v)
      end
  end.

Definition merged_col_g (cls : N -> N) (sb sl sr : schema) (ob : option row) (l r : row) (c : N) : cres :=
  match ocol sb ob c with
  | None =>
      match col sl l c, col sr r c with
      | Some lv, None => CVal lv
      | None, None => CErr
      | None, Some rv => CVal rv
      | Some lv, Some rv => if cell_veqb cls lv rv then CVal (tie lv rv) else CConf   (* tie-break site 1 *)
      end
  | Some bv =>
      match col sl l c, col sr r c with
      | None, None => CVal None
      | None, Some _ => CErr
      | Some lv, None =>
          if cell_veqb cls lv None then CVal None
          else if negb (cell_veqb cls lv bv) && negb (cell_veqb cls bv None) then CConf
          else if negb (cell_veqb cls lv bv) then CVal lv else CVal None
      | Some lv, Some rv =>
          if cell_veqb cls lv rv then CVal (tie lv rv)                                    (* tie-break site 2 *)
          else if negb (cell_veqb cls lv bv) && negb (cell_veqb cls rv bv) then CConf
          else if negb (cell_veqb cls lv bv) then CVal lv else CVal rv
      end
  end.

Definition try_merge_g (cls : N -> N) (fixed : bool) (sb sl sr sm : schema) (ob ol or : option row) : tm :=
  match (match ob with Some b => base_pass (base_col_g cls fixed sb sl sr b ol or) sb | None => Some false end) with
  | None => TErr
  | Some true => TConflict
  | Some false =>
      match ob, ol, or with
      | _, Some l, Some r => col_pass (merged_col_g cls sb sl sr ob l r) sm
      | Some _, _, _ => TDelete
      | None, _, _ => TErr
      end
  end.

Definition row_merge_g (cls : N -> N) (fixed : bool) (sb sl sr : schema) (ob ol or : option row) : res :=
  let sm := merged_schema sb sl sr in
  let ours := option_map (remap sm sl) ol in
  match side_diff (side_flag sb sl sr) ob ol, side_diff (side_flag sb sr sl) ob or with
  | _, false => ROk ours false
  | false, true => ROk (option_map (remap sm sr) or) false
  | true, true =>
      match ol, or with
      | None, None => ROk None false
      | _, _ =>
          if (match ol, or with Some l, Some r => row_eqb l r | _, _ => false end)
          then ROk (option_map (remap sm sm) ol) false
          else match try_merge_g cls fixed sb sl sr sm ob ol or with
               | TErr => RErr
               | TConflict => ROk ours true
               | TDelete => ROk None false
               | TMerged m => ROk (Some m) false
               end
      end
  end.

Definition merge_key_g (cls : N -> N) (fixed : bool) (sb sl sr : schema) (b l r : table) (k : N) : res :=
  row_merge_g cls fixed sb sl sr (get k b) (get k l) (get k r).

Definition table_merge_g (cls : N -> N) (fixed : bool) (sb sl sr : schema) (b l r : table) : merged :=
  let ks := all_keys b l r in
  let f := merge_key_g cls fixed sb sl sr b l r in
  {| m_err := existsb (fun k => is_err (f k)) ks;
     m_rows := flat_map (fun k => match f k with ROk (Some v) _ => [(k, v)] | _ => [] end) ks;
     m_conf := flat_map (fun k => match f k with ROk v true => [(k, (get k b, v, get k r))] | _ => [] end) ks |}.
