(* C29 — the three-way merge written declaratively: a key-wise, cell-wise
   function over "optional cells" (no cell = the row is absent or the side's
   schema has no such column), independent of the differ, of byte equality,
   of the order in which the implementation visits columns and of which side
   is rewritten.  Boolean forms are used as the executable oracle. *)
From Coq Require Import NArith List Bool.
From Dolt Require Import C29.Model.
Import ListNotations.
Local Open Scope N_scope.

Definition ocell_eqb (a b : option cell) : bool :=
  match a, b with None, None => true | Some x, Some y => cell_eqb x y | _, _ => false end.

(* three-way merge of one cell: None = conflict *)
Definition cell_merge (b l r : option cell) : option (option cell) :=
  if ocell_eqb l r then Some l
  else if ocell_eqb l b then Some r
  else if ocell_eqb r b then Some l
  else None.

(* both sides changed the same cell, differently *)
Definition cell_clash (b l r : option cell) : Prop := l <> r /\ l <> b /\ r <> b.

Definition clash_at (sb sl sr : schema) (ob : option row) (l r : row) (c : N) : bool :=
  match cell_merge (ocol sb ob c) (col sl l c) (col sr r c) with None => true | Some _ => false end.

Definition cellwise_conflict (sb sl sr : schema) (ob : option row) (l r : row) : bool :=
  existsb (clash_at sb sl sr ob l r) (sb ++ sl ++ sr).

Definition cellwise_row (sb sl sr sm : schema) (ob : option row) (l r : row) : row :=
  map (fun c => match cell_merge (ocol sb ob c) (col sl l c) (col sr r c) with
                | Some (Some v) => v | _ => None end) sm.

(* the surviving side's row differs from the ancestor's in some cell of its own schema
   (a column the ancestor lacks counts as NULL there; a column the side dropped is not a row change) *)
Definition modified (sb ss : schema) (b s : row) : bool :=
  existsb (fun c => negb (ocell_eqb (col ss s c) (Some (nullify (col sb b c))))) ss.

(* merged value (in the merged schema) and "a conflict is recorded" for one key *)
Definition spec_row (sb sl sr : schema) (ob ol or : option row) : option row * bool :=
  let sm := merged_schema sb sl sr in
  match ob, ol, or with
  | _, None, None => (None, false)
  | None, Some l, None => (Some (remap sm sl l), false)
  | None, None, Some r => (Some (remap sm sr r), false)
  | Some b, None, Some r => (None, modified sb sr b r)                 (* delete vs modify: conflict, ours (absent) stays *)
  | Some b, Some l, None => if modified sb sl b l then (Some (remap sm sl l), true) else (None, false)
  | _, Some l, Some r =>
      if cellwise_conflict sb sl sr ob l r then (Some (remap sm sl l), true)
      else (Some (cellwise_row sb sl sr sm ob l r), false)
  end.

(* the property's wording of "a conflict is recorded exactly when ..." *)
Definition conflict_prop (sb sl sr : schema) (ob ol or : option row) : Prop :=
  (exists b r, ob = Some b /\ ol = None /\ or = Some r /\ modified sb sr b r = true)
  \/ (exists b l, ob = Some b /\ ol = Some l /\ or = None /\ modified sb sl b l = true)
  \/ (exists l r c, ol = Some l /\ or = Some r /\
        cell_clash (ocol sb ob c) (col sl l c) (col sr r c)).

(* logical equality of two optional rows living in different column orders *)
Definition orow_agree (s1 : schema) (o1 : option row) (s2 : schema) (o2 : option row) : bool :=
  match o1, o2 with
  | None, None => true
  | Some r1, Some r2 =>
      forallb (fun c => ocell_eqb (col s1 r1 c) (col s2 r2 c)) (s1 ++ s2)
  | _, _ => false
  end.

(* ====================================================================== *)
(* The declarative merge over value classes (see Model.v: cls).  Equality of cells is equality of
   classes; where both sides hold the same value the merged cell is one of the two representations,
   chosen symmetrically (the larger byte string). *)
(* ====================================================================== *)
Definition ocell_veqb (cls : N -> N) (a b : option cell) : bool :=
  match a, b with None, None => true | Some x, Some y => cell_veqb cls x y | _, _ => false end.

Definition otie (l r : option cell) : option cell :=
  match l, r with Some x, Some y => Some (tie x y) | _, _ => l end.

Definition cell_merge_g (cls : N -> N) (b l r : option cell) : option (option cell) :=
  if ocell_veqb cls l r then Some (otie l r)
  else if ocell_veqb cls l b then Some r
  else if ocell_veqb cls r b then Some l
  else None.

Definition clash_at_g cls (sb sl sr : schema) (ob : option row) (l r : row) (c : N) : bool :=
  match cell_merge_g cls (ocol sb ob c) (col sl l c) (col sr r c) with None => true | Some _ => false end.

Definition cellwise_conflict_g cls (sb sl sr : schema) (ob : option row) (l r : row) : bool :=
  existsb (clash_at_g cls sb sl sr ob l r) (sb ++ sl ++ sr).

Definition cellwise_row_g cls (sb sl sr sm : schema) (ob : option row) (l r : row) : row :=
  map (fun c => match cell_merge_g cls (ocol sb ob c) (col sl l c) (col sr r c) with
                | Some (Some v) => v | _ => None end) sm.

Definition modified_g cls (sb ss : schema) (b s : row) : bool :=
  existsb (fun c => negb (ocell_veqb cls (col ss s c) (Some (nullify (col sb b c))))) ss.

Definition spec_row_g cls (sb sl sr : schema) (ob ol or : option row) : option row * bool :=
  let sm := merged_schema sb sl sr in
  match ob, ol, or with
  | _, None, None => (None, false)
  | None, Some l, None => (Some (remap sm sl l), false)
  | None, None, Some r => (Some (remap sm sr r), false)
  | Some b, None, Some r => (None, modified_g cls sb sr b r)
  | Some b, Some l, None => if modified_g cls sb sl b l then (Some (remap sm sl l), true) else (None, false)
  | _, Some l, Some r =>
      if cellwise_conflict_g cls sb sl sr ob l r then (Some (remap sm sl l), true)
      else (Some (cellwise_row_g cls sb sl sr sm ob l r), false)
  end.

(* agreement of two optional rows up to representation: same value class in every column *)
Definition orow_agree_v cls (s1 : schema) (o1 : option row) (s2 : schema) (o2 : option row) : bool :=
  match o1, o2 with
  | None, None => true
  | Some r1, Some r2 => forallb (fun c => ocell_veqb cls (col s1 r1 c) (col s2 r2 c)) (s1 ++ s2)
  | _, _ => false
  end.
