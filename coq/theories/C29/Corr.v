(* C29 — correspondence: model observation of a merge in both directions,
   comparison with what dolt returned through SQL, and the executable statement
   of the property (oracle) evaluated on dolt's observation. *)
From Coq Require Import NArith List Bool.
From Dolt Require Import C29.Model C29.Spec.
Import ListNotations.
Local Open Scope N_scope.

Record input := {
  i_sb : schema; i_sl : schema; i_sr : schema;     (* non-key column ids in storage order: ancestor, left branch, right branch *)
  i_b : table; i_l : table; i_r : table;            (* rows read back from the three commits *)
  i_cls : list (N * N) }.                           (* value class of the representations that are not their own class
                                                       (e.g. 'AB', 'Ab', 'ab' under a case-insensitive collation) *)

Fixpoint assocN (x : N) (m : list (N * N)) : option N :=
  match m with [] => None | (k, v) :: m' => if k =? x then Some v else assocN x m' end.
Definition clsf (m : list (N * N)) (x : N) : N := match assocN x m with Some c => c | None => x end.

(* one direction of the merge as observed *)
Record dir_obs := {
  d_class : N;                    (* 0 merged, 1 merged with conflicts recorded, 2 internal error / panic *)
  d_sm : schema;                  (* column order of the merged table *)
  d_rows : table;                 (* merged table, cells in d_sm order *)
  d_conf : list conflict_entry }. (* dolt_conflicts_<t>: key, base (ancestor order), ours (d_sm order), theirs (their order) *)

Record obs := { o_lr : dir_obs; o_rl : dir_obs }.   (* CALL dolt_merge('right') on left, and the reverse *)

Definition case := (input * obs)%type.

Definition model_dir (cls : N -> N) (sb sl sr : schema) (b l r : table) : dir_obs :=
  let m := table_merge_g cls true sb sl sr b l r in
  {| d_class := if m_err m then 2 else match m_conf m with [] => 0 | _ => 1 end;
     d_sm := merged_schema sb sl sr;
     d_rows := if m_err m then [] else m_rows m;
     d_conf := if m_err m then [] else m_conf m |}.

Definition model_obs (i : input) : obs :=
  {| o_lr := model_dir (clsf (i_cls i)) (i_sb i) (i_sl i) (i_sr i) (i_b i) (i_l i) (i_r i);
     o_rl := model_dir (clsf (i_cls i)) (i_sb i) (i_sr i) (i_sl i) (i_b i) (i_r i) (i_l i) |}.

Fixpoint getc (k : N) (cs : list conflict_entry) : option (option row * option row * option row) :=
  match cs with [] => None | (k', e) :: cs' => if k' =? k then Some e else getc k cs' end.

Definition orow_eqb (a b : option row) : bool :=
  match a, b with None, None => true | Some x, Some y => row_eqb x y | _, _ => false end.

Definition same_cols (s1 s2 : schema) : bool :=
  forallb (fun c => mem c s2) s1 && forallb (fun c => mem c s1) s2.

Definition tables_agree (s1 : schema) (t1 : table) (s2 : schema) (t2 : table) : bool :=
  forallb (fun k => orow_agree s1 (get k t1) s2 (get k t2)) (keys t1 ++ keys t2).

Definition conf_agree (s1 : schema) (c1 : list conflict_entry) (s2 : schema) (c2 : list conflict_entry) : bool :=
  forallb (fun k =>
    match getc k c1, getc k c2 with
    | Some (b1, o1, t1), Some (b2, o2, t2) => orow_eqb b1 b2 && orow_agree s1 o1 s2 o2 && orow_eqb t1 t2
    | _, _ => false
    end) (map fst c1 ++ map fst c2).

Definition dir_eqb (m o : dir_obs) : bool :=
  (d_class m =? d_class o)
  && ((d_class m =? 2)
      || (same_cols (d_sm m) (d_sm o)
          && tables_agree (d_sm m) (d_rows m) (d_sm o) (d_rows o)
          && conf_agree (d_sm m) (d_conf m) (d_sm o) (d_conf o))).

Definition obs_eqb (a b : obs) : bool := dir_eqb (o_lr a) (o_lr b) && dir_eqb (o_rl a) (o_rl b).

(* The property on one direction, as a predicate on what dolt returned:
   the merge did not fail internally; the merged table has the merged columns; for every key the
   merged row is the three-way merge of the three versions (as values: up to representation) and a
   conflict (base, ours, theirs) is recorded exactly when the declarative merge says so.  Which of two
   equal-valued representations the merged cell carries is constrained by swap_ok below. *)
Definition dir_ok (cls : N -> N) (sb sl sr : schema) (b l r : table) (o : dir_obs) : bool :=
  negb (d_class o =? 2)
  && same_cols (merged_schema sb sl sr) (d_sm o)
  && (d_class o =? match d_conf o with [] => 0 | _ => 1 end)
  && forallb (fun k =>
       let '(v, c) := spec_row_g cls sb sl sr (get k b) (get k l) (get k r) in
       orow_agree_v cls (merged_schema sb sl sr) v (d_sm o) (get k (d_rows o))
       && match getc k (d_conf o) with
          | None => negb c
          | Some (cb, co, ct) =>
              c && orow_eqb cb (get k b) && orow_agree_v cls (merged_schema sb sl sr) v (d_sm o) co
              && orow_eqb ct (get k r)
          end)
     (all_keys b l r ++ keys (d_rows o) ++ map fst (d_conf o)).

(* swapping the two sides: same conflicting keys, mirrored conflicts, same data elsewhere —
   byte for byte (representations included) *)
Definition swap_ok (sl sr : schema) (o1 o2 : dir_obs) : bool :=
  (d_class o1 =? 2) || (d_class o2 =? 2)
  || (same_cols (d_sm o1) (d_sm o2)
      && forallb (fun k =>
           match getc k (d_conf o1), getc k (d_conf o2) with
           | None, None => orow_agree (d_sm o1) (get k (d_rows o1)) (d_sm o2) (get k (d_rows o2))
           | Some (b1, ours1, theirs1), Some (b2, ours2, theirs2) =>
               orow_eqb b1 b2
               && orow_agree (d_sm o2) ours2 (d_sm o2) (option_map (remap (d_sm o2) sr) theirs1)
               && orow_agree (d_sm o1) ours1 (d_sm o1) (option_map (remap (d_sm o1) sl) theirs2)
           | _, _ => false
           end)
         (keys (d_rows o1) ++ keys (d_rows o2) ++ map fst (d_conf o1) ++ map fst (d_conf o2))).

Definition oracle (i : input) (o : obs) : bool :=
  dir_ok (clsf (i_cls i)) (i_sb i) (i_sl i) (i_sr i) (i_b i) (i_l i) (i_r i) (o_lr o)
  && dir_ok (clsf (i_cls i)) (i_sb i) (i_sr i) (i_sl i) (i_b i) (i_r i) (i_l i) (o_rl o)
  && swap_ok (i_sl i) (i_sr i) (o_lr o) (o_rl o).

Definition check_case (c : case) : N :=
  (if obs_eqb (model_obs (fst c)) (snd c) then 0 else 1)
  + (if oracle (fst c) (snd c) then 0 else 2).
