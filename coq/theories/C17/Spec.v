(* C17 — declarative side: document order on paths, and the three-way merge of JSON
   documents stated on path edits (independent of the streaming algorithm). *)
From Coq Require Import NArith ZArith List Bool.
From Dolt Require Import Base.Str C17.Model.
Import ListNotations.
Local Open Scope N_scope.

(* ---------- document (pre-)order on paths ----------
   A value comes before the values nested in it; siblings of an object are ordered by their key
   bytes, elements of an array by their index.  (An object key and an array index are never
   siblings in one document; for totality they are ordered by their serialized element bytes.) *)
Section Order.
  Variable enc_idx : N -> bytes.
  Definition elem_cmp (a b : pelem) : comparison :=
    match a, b with
    | PK x, PK y => lex_cmp x y
    | PI x, PI y => x ?= y
    | _, _ => lex_cmp (elem_bytes enc_idx a) (elem_bytes enc_idx b)
    end.
  Fixpoint path_cmp (p q : path) : comparison :=
    match p, q with
    | [], [] => Eq
    | [], _ :: _ => Lt
    | _ :: _, [] => Gt
    | a :: p', b :: q' => match elem_cmp a b with Eq => path_cmp p' q' | c => c end
    end.
End Order.

Definition doc_cmp := path_cmp varint.

(* The same order with the element kinds kept apart (an array index sorts before an object key;
   the two never meet as siblings in one document): a total order on paths, used to state the merge. *)
Section Lexg.
  Context {A : Type}.
  Variable ec : A -> A -> comparison.
  Fixpoint lexg (p q : list A) : comparison :=
    match p, q with
    | [], [] => Eq
    | [], _ :: _ => Lt
    | _ :: _, [] => Gt
    | a :: p', b :: q' => match ec a b with Eq => lexg p' q' | c => c end
    end.
End Lexg.

Definition telem_cmp (a b : pelem) : comparison :=
  match a, b with
  | PK x, PK y => lex_cmp x y
  | PI x, PI y => x ?= y
  | PI _, PK _ => Lt
  | PK _, PI _ => Gt
  end.
Definition tcmp : path -> path -> comparison := lexg telem_cmp.

Definition pelem_eqb (a b : pelem) : bool :=
  match a, b with
  | PK x, PK y => beq_bytes x y
  | PI x, PI y => x =? y
  | _, _ => false
  end.

(* [path_prefix p pre]: pre is a proper prefix of p, i.e. p is a location strictly inside pre *)
Fixpoint path_prefix (p pre : path) : bool :=
  match pre, p with
  | [], _ :: _ => true
  | [], [] => false
  | _ :: _, [] => false
  | b :: pre', a :: p' => pelem_eqb a b && path_prefix p' pre'
  end.

(* both paths go through (possibly different) elements of one array *)
Fixpoint path_same_arr (a b : path) : bool :=
  match a, b with
  | PI _ :: _, PI _ :: _ => true
  | PK x :: a', PK y :: b' => beq_bytes x y && path_same_arr a' b'
  | _, _ => false
  end.

(* The streaming algorithm run with the document order and the path relations: the algorithm as
   intended by its comments. *)
Definition three_way_doc := three_way tcmp path_prefix path_same_arr.

(* ---------- the merge, declaratively ----------
   Two edits clash when they are at the same location with different outcomes, when one is inside
   the value the other replaces / removes, or when they touch two different places of one array. *)
Definition clash (dl dr : diff) : bool :=
  match tcmp (d_key dl) (d_key dr) with
  | Eq => match same_key_step dl dr with None => true | Some _ => false end
  | _ => path_same_arr (d_key dl) (d_key dr)
         || path_prefix (d_key dl) (d_key dr) || path_prefix (d_key dr) (d_key dl)
  end.

Definition conflict_spec (L R : list diff) : bool :=
  existsb (fun dl => existsb (clash dl) R) L.

(* the edits to apply on top of the left document: every right edit (those also made by the left
   side are identical there and applying them again changes nothing) *)
Definition ops_spec (R : list diff) : list op := map right_op R.

Definition three_way_spec_result (L R : list diff) : tw :=
  if conflict_spec L R then TConflict else TOps (ops_spec R).

(* edits are applied as a set: values are set in document order; removals are applied last and from
   the back, so that removing an array element does not shift the elements still to be removed *)
Definition is_remove (o : op) : bool := match o with ORemove _ => true | _ => false end.
Definition apply_edits (ops : list op) (d : json) : json :=
  fold_left apply_op (filter (fun o => negb (is_remove o)) ops ++ rev (filter is_remove ops)) d.

Definition merge_spec (b l r : json) : mres :=
  if negb (is_obj b && is_obj l && is_obj r) then
    (if json_eqb l r then MMerged l else MConflict)
  else
    let L := json_diff b l in
    let R := json_diff b r in
    if conflict_spec L R then MConflict else MMerged (apply_edits (ops_spec R) l).

(* ---------- decidable side conditions under which MergeJSON is proved to be the declarative merge ----------
   Each excludes one class of the known deviations of the implementation. *)
Definition path_rel (a b : path) : bool := path_same_arr a b || path_prefix a b || path_prefix b a.

Definition comparison_eqb (a b : comparison) : bool :=
  match a, b with Eq, Eq | Lt, Lt | Gt, Gt => true | _, _ => false end.

(* (1) on every (left edit, right edit) pair, what the implementation computes on the serialized keys
   (bytes.Compare, IsJsonKeyPrefix, JsonKeysModifySameArray) is what the document order and the path
   relations say — fails for sibling keys one of which is a proper prefix of the other *)
Definition raw_agrees_pair (a b : path) : bool :=
  comparison_eqb (raw_kcmp a b) (tcmp a b)
  && Bool.eqb (raw_kprefix a b) (path_prefix a b) && Bool.eqb (raw_kprefix b a) (path_prefix b a)
  && Bool.eqb (raw_ksame_arr a b) (path_same_arr a b).
Definition raw_agrees (L R : list diff) : bool :=
  forallb (fun l => forallb (fun r => raw_agrees_pair (d_key l) (d_key r)) R) L.

(* (2) no two edits of one side are nested or in one array — the clash check between stream heads is
   then complete, and no array index shifts under the feet of a later edit *)
Fixpoint pairwise_unrelated (L : list diff) : bool :=
  match L with
  | [] => true
  | d :: t => forallb (fun e => negb (path_rel (d_key d) (d_key e))) t && pairwise_unrelated t
  end.

(* (3) a removal is the last right-side edit (the implementation applies edits in stream order, the
   declarative merge applies removals last) *)
Fixpoint removes_last (ops : list op) : bool :=
  match ops with
  | [] => true
  | o :: t => if is_remove o then (match t with [] => true | _ => false end) else removes_last t
  end.

Definition merge_side_conditions (b l r : json) : bool :=
  raw_agrees (json_diff b l) (json_diff b r)
  && pairwise_unrelated (json_diff b l) && pairwise_unrelated (json_diff b r)
  && removes_last (ops_spec (json_diff b r)).

Definition mres_eqb (a b : mres) : bool :=
  match a, b with
  | MConflict, MConflict => true
  | MMerged x, MMerged y => json_eqb x y
  | _, _ => false
  end.

(* well-formed documents: object keys strictly increasing (bytes), hereditarily *)
Fixpoint keys_sorted (l : list (bytes * json)) : bool :=
  match l with
  | [] => true
  | (k, _) :: t => match t with
                   | [] => true
                   | (k', _) :: _ => match lex_cmp k k' with Lt => keys_sorted t | _ => false end
                   end
  end.
Fixpoint wf_json (d : json) : bool :=
  match d with
  | JArr l => forallb wf_json l
  | JObj l => keys_sorted l && forallb (fun kv => wf_json (snd kv)) l
  | _ => true
  end.
