(* C17 — correspondence: model observation vs implementation observation, and the executable
   statement of the property evaluated on what the implementation returned. *)
From Coq Require Import NArith ZArith List Bool.
From Dolt Require Import Base.Str C17.Model C17.Spec.
Import ListNotations.
Local Open Scope N_scope.

(* compact spelling of long strings in generated case terms *)
Definition pad (c : N) (n : N) : bytes := repeat c (N.to_nat n).

(* one operation: mode code (0 set 1 insert 2 replace 3 remove 4 array_append 5 array_insert 6 lookup) *)
Definition opin := (N * list leg * json)%type.

(* result of one operation: error, changed flag, found flag (lookup), document *)
Record ores := { r_err : bool; r_chg : bool; r_found : bool; r_doc : json }.
(* result of a merge: error, conflict, document *)
Record mobs := { m_err : bool; m_conflict : bool; m_doc : json }.

Inductive cin :=
| COps (doc : json) (ops : list opin)
| CMerge (b l r : json)
| CSqlMerge (b l r : json)
| CLoc (p q : path).

Inductive obs :=
| OOps (steps : list (ores * ores))                 (* stored, in-memory *)
| OMerge (idx mem : mobs) (ilk irk mlk mrk : list (bytes * N))   (* diff keys with type 0 add 1 mod 2 rem *)
| OSql (m : mobs)
| OLoc (err : bool) (kp kq : bytes) (c : Z)
| OBad.

Definition case := (cin * obs)%type.

Definition mode_of (n : N) : mode :=
  if n =? 0 then MSet else if n =? 1 then MInsert else if n =? 2 then MReplace
  else if n =? 3 then MRemove else if n =? 4 then MAppend else MArrIns.

Definition model_op (d : json) (o : opin) : ores :=
  let '(m, p, v) := o in
  if m =? 6 then
    match lookup p d with
    | Some x => {| r_err := false; r_chg := false; r_found := true; r_doc := x |}
    | None => {| r_err := false; r_chg := false; r_found := false; r_doc := JNull |}
    end
  else match run_op (mode_of m) p d v with
       | RErr => {| r_err := true; r_chg := false; r_found := false; r_doc := JNull |}
       | ROk d' ch => {| r_err := false; r_chg := ch; r_found := true; r_doc := d' |}
       end.

Definition ores_eqb (a b : ores) : bool :=
  Bool.eqb (r_err a) (r_err b) && Bool.eqb (r_chg a) (r_chg b) && Bool.eqb (r_found a) (r_found b)
  && json_eqb (r_doc a) (r_doc b).

(* walk the chain: the input of a step is the stored result of the previous one.
   returns (model agrees with the in-memory implementation, stored == in-memory) *)
Fixpoint check_ops (d : json) (ops : list opin) (steps : list (ores * ores)) : bool * bool :=
  match ops, steps with
  | [], [] => (true, true)
  | o :: ops', (s, m) :: steps' =>
    let md := model_op d o in
    let next := if r_err s || (fst (fst o) =? 6) then d else r_doc s in
    let '(a, b) := check_ops next ops' steps' in
    (ores_eqb md m && a, ores_eqb s m && b)
  | _, _ => (false, false)
  end.

Definition mobs_of (r : mres) : mobs :=
  match r with
  | MConflict => {| m_err := false; m_conflict := true; m_doc := JNull |}
  | MMerged d => {| m_err := false; m_conflict := false; m_doc := d |}
  end.
Definition mobs_eqb (a b : mobs) : bool :=
  Bool.eqb (m_err a) (m_err b) && Bool.eqb (m_conflict a) (m_conflict b) && json_eqb (m_doc a) (m_doc b).

Definition diff_ty (d : diff) : N :=
  match d_from d, d_to d with None, _ => 0 | Some _, Some _ => 1 | Some _, None => 2 end.
Definition model_keys (a b : json) : list (bytes * N) :=
  map (fun d => (ekey (d_key d), diff_ty d)) (json_diff a b).
Fixpoint keys_eqb (a b : list (bytes * N)) : bool :=
  match a, b with
  | [], [] => true
  | (k, t) :: a', (k', t') :: b' => beq_bytes k k' && (t =? t') && keys_eqb a' b'
  | _, _ => false
  end.

Definition cmp_code (c : comparison) : Z := match c with Lt => (-1)%Z | Eq => 0%Z | Gt => 1%Z end.

(* bit0 clear: the model reproduces the implementation *)
Definition model_agrees (c : case) : bool :=
  match c with
  | (COps d ops, OOps steps) => fst (check_ops d ops steps)
  | (CMerge b l r, OMerge idx mem ilk irk mlk mrk) =>
    let m := mobs_of (merge_json b l r) in
    mobs_eqb m idx && mobs_eqb m mem
    && keys_eqb (model_keys b l) ilk && keys_eqb (model_keys b r) irk
    && keys_eqb (model_keys b l) mlk && keys_eqb (model_keys b r) mrk
  | (CSqlMerge b l r, OSql m) => mobs_eqb (mobs_of (merge_json b l r)) m
  | (CLoc p q, OLoc err kp kq c) =>
    negb err && beq_bytes (ekey p) kp && beq_bytes (ekey q) kq && Z.eqb (cmp_code (cmp_keys kp kq)) c
  | _ => false
  end.

(* the property on the implementation's observation:
   - every operation on the stored document gives the same document, change flag and error class as
     the same operation on the in-memory document;
   - the merge result is the declarative merge of the path edits;
   - the order of location keys is the document order of the paths. *)
Definition oracle (c : case) : bool :=
  match c with
  | (COps d ops, OOps steps) => snd (check_ops d ops steps)
  | (CMerge b l r, OMerge idx mem _ _ _ _) =>
    let s := mobs_of (merge_spec b l r) in mobs_eqb s idx && mobs_eqb s mem
  | (CSqlMerge b l r, OSql m) => mobs_eqb (mobs_of (merge_spec b l r)) m
  | (CLoc p q, OLoc err kp kq c) => negb err && Z.eqb (cmp_code (doc_cmp p q)) c
  | _ => false
  end.

Definition check_case (c : case) : N :=
  (if model_agrees c then 0 else 1) + (if oracle c then 0 else 2).
