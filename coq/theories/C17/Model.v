(* C17 — stored JSON documents.  Executable model of
     go-mysql-server sql/types/json_value.go   walkPathAndUpdate, updateObject, updateArray,
                                               updateObjectTreatAsArray, parseIndex  (the in-memory
                                               reference for set/insert/replace/remove/array ops)
     go/store/prolly/tree/json_location.go     key encoding, jsonPathFromKey, compareJsonLocations,
                                               IsJsonKeyPrefix, JsonKeysModifySameArray
     github.com/mohae/uvarint                  PutUvarint (SQLite4 varint)
     go/store/prolly/tree/json_diff.go         newInMemoryJsonDiffer (object / array / scalar)
     go/libraries/doltcore/merge/three_way_json_differ.go  ThreeWayJsonDiffer.Next
     go/libraries/doltcore/merge/merge_prolly_rows.go      MergeJSON
   No proofs here. *)
From Coq Require Import NArith ZArith List Bool.
From Dolt Require Import Base.Str.
Import ListNotations.
Local Open Scope N_scope.

(* ---------- JSON values; objects are association lists sorted by key bytes ---------- *)
Inductive json :=
| JNull | JBool (b : bool) | JNum (z : Z) | JStr (s : bytes)
| JArr (l : list json) | JObj (l : list (bytes * json)).

Fixpoint lex_cmp (a b : bytes) : comparison :=
  match a, b with
  | [], [] => Eq
  | [], _ :: _ => Lt
  | _ :: _, [] => Gt
  | x :: a', y :: b' => match x ?= y with Eq => lex_cmp a' b' | c => c end
  end.

Fixpoint json_eqb (a b : json) {struct a} : bool :=
  match a, b with
  | JNull, JNull => true
  | JBool x, JBool y => Bool.eqb x y
  | JNum x, JNum y => Z.eqb x y
  | JStr x, JStr y => beq_bytes x y
  | JArr x, JArr y =>
    (fix go (x y : list json) {struct x} : bool :=
       match x, y with
       | [], [] => true
       | a :: x', b :: y' => json_eqb a b && go x' y'
       | _, _ => false
       end) x y
  | JObj x, JObj y =>
    (fix go (x y : list (bytes * json)) {struct x} : bool :=
       match x, y with
       | [], [] => true
       | (k, a) :: x', (k', b) :: y' => beq_bytes k k' && json_eqb a b && go x' y'
       | _, _ => false
       end) x y
  | _, _ => false
  end.

Definition ojson_eqb (a b : option json) : bool :=
  match a, b with
  | None, None => true
  | Some x, Some y => json_eqb x y
  | _, _ => false
  end.

Definition is_obj (d : json) : bool := match d with JObj _ => true | _ => false end.

Fixpoint obj_get (k : bytes) (l : list (bytes * json)) : option json :=
  match l with
  | [] => None
  | (k', v) :: t => if beq_bytes k k' then Some v else obj_get k t
  end.

Fixpoint obj_set (k : bytes) (v : json) (l : list (bytes * json)) : list (bytes * json) :=
  match l with
  | [] => [(k, v)]
  | (k', v') :: t =>
    match lex_cmp k k' with
    | Lt => (k, v) :: l
    | Eq => (k, v) :: t
    | Gt => (k', v') :: obj_set k v t
    end
  end.

Fixpoint obj_del (k : bytes) (l : list (bytes * json)) : list (bytes * json) :=
  match l with
  | [] => []
  | (k', v') :: t => if beq_bytes k k' then t else (k', v') :: obj_del k t
  end.

(* list helpers on nat positions *)
Fixpoint set_nth {A} (n : nat) (v : A) (l : list A) : list A :=
  match l, n with
  | [], _ => []
  | _ :: t, O => v :: t
  | x :: t, S n' => x :: set_nth n' v t
  end.
Fixpoint del_nth {A} (n : nat) (l : list A) : list A :=
  match l, n with
  | [], _ => []
  | _ :: t, O => t
  | x :: t, S n' => x :: del_nth n' t
  end.
Fixpoint ins_nth {A} (n : nat) (v : A) (l : list A) : list A :=
  match n, l with
  | O, _ => v :: l
  | S n', x :: t => x :: ins_nth n' v t
  | S _, [] => [v]
  end.

(* ---------- MySQL path legs (after parsing; the text parser is not modelled) ---------- *)
Inductive leg := LKey (k : bytes) | LIdx (n : N) | LLast | LLastMinus (m : N).

Inductive mode := MSet | MInsert | MReplace | MRemove | MAppend | MArrIns.
Definition mode_eqb (a b : mode) : bool :=
  match a, b with
  | MSet, MSet | MInsert, MInsert | MReplace, MReplace | MRemove, MRemove
  | MAppend, MAppend | MArrIns, MArrIns => true
  | _, _ => false
  end.

Inductive res := RErr | ROk (d : json) (changed : bool).

(* parseIndex: (index, underflow, overflow); lastIndex may be -1 *)
Definition parse_index (l : leg) (last_index : Z) : (Z * bool * bool) :=
  match l with
  | LLast => ((if (last_index <? 0)%Z then 0 else last_index)%Z, false, false)
  | LLastMinus m =>
    let r := (last_index - Z.of_N m)%Z in
    if (r <? 0)%Z then (0%Z, true, false) else (r, false, false)
  | LIdx n =>
    if (Z.of_N n >? last_index)%Z then (last_index, false, true) else (Z.of_N n, false, false)
  | LKey _ => (0%Z, false, false)
  end.

(* walkPathAndUpdate at the end of the path *)
Definition walk_end (m : mode) (d v : json) : res :=
  match m with
  | MSet | MReplace => ROk v true
  | MInsert => ROk d false
  | MAppend => match d with
               | JArr a => ROk (JArr (a ++ [v])) true
               | _ => ROk (JArr [d; v]) true
               end
  | MArrIns | MRemove => RErr
  end.

(* updateObjectTreatAsArray: the rest of the path is ignored by the implementation *)
Definition treat_as_array (m : mode) (l : leg) (d v : json) : res :=
  let '(_, under, over) := parse_index l 0%Z in
  if under then
    (match m with MSet | MInsert => ROk (JArr [v; d]) true | _ => ROk d false end)
  else if over then
    (match m with MSet | MInsert => ROk (JArr [d; v]) true | _ => ROk d false end)
  else match m with
       | MSet | MReplace => ROk v true
       | MAppend => ROk (JArr [d; v]) true
       | _ => ROk d false
       end.

Fixpoint walk (m : mode) (p : list leg) (d v : json) {struct p} : res :=
  match p with
  | [] => walk_end m d v
  | LKey k :: rest =>
    match d with
    | JObj kv =>
      match rest with
      | [] =>
        match m with
        | MAppend =>
          match obj_get k kv with
          | None => ROk d false
          | Some cur =>
            match walk_end m cur v with
            | RErr => RErr
            | ROk nd ch => if ch then ROk (JObj (obj_set k nd kv)) true else ROk d false
            end
          end
        | MArrIns => RErr
        | _ =>
          let present := match obj_get k kv with Some _ => true | None => false end in
          if mode_eqb m MSet || (negb present && mode_eqb m MInsert) || (present && mode_eqb m MReplace)
          then ROk (JObj (obj_set k v kv)) true
          else if present && mode_eqb m MRemove then ROk (JObj (obj_del k kv)) true
          else ROk d false
        end
      | _ :: _ =>
        let cur := match obj_get k kv with Some c => c | None => JNull end in
        match walk m rest cur v with
        | RErr => RErr
        | ROk nd ch => if ch then ROk (JObj (obj_set k nd kv)) true else ROk d false
        end
      end
    | _ => match m with MArrIns => RErr | _ => ROk d false end
    end
  | il :: rest =>
    match d with
    | JArr a =>
      let len := Z.of_nat (length a) in
      let '(idx, under, over) := parse_index il (len - 1)%Z in
      if under && negb (mode_eqb m MSet) then ROk d false
      else if (len >? idx)%Z && negb over then
        let i := Z.to_nat idx in
        match rest, m with
        | [], MSet | [], MReplace => ROk (JArr (set_nth i v a)) true
        | [], MRemove => ROk (JArr (del_nth i a)) true
        | [], MArrIns => ROk (JArr (ins_nth i v a)) true
        | [], MInsert => ROk d false
        | _, _ =>
          match walk m rest (nth i a JNull) v with
          | RErr => RErr
          | ROk nd ch => if ch then ROk (JArr (set_nth i nd a)) true else ROk d false
          end
        end
      else match m with
           | MSet | MInsert | MArrIns => ROk (JArr (a ++ [v])) true
           | _ => ROk d false
           end
    | _ => treat_as_array m il d v
    end
  end.

(* the public entry points reject "$" for remove and array_insert *)
Definition run_op (m : mode) (p : list leg) (d v : json) : res :=
  match p, m with
  | [], MRemove | [], MArrIns => RErr
  | _, _ => walk m p d v
  end.

(* lookup, key / index legs only (LookupJSONValue on the in-memory document) *)
Fixpoint lookup (p : list leg) (d : json) : option json :=
  match p with
  | [] => Some d
  | LKey k :: r =>
    match d with
    | JObj kv => match obj_get k kv with Some v => lookup r v | None => None end
    | _ => None
    end
  | LIdx n :: r =>
    match d with
    | JArr a => match nth_error a (N.to_nat n) with Some v => lookup r v | None => None end
    | _ => None
    end
  | _ => None
  end.

(* ---------- location keys ---------- *)
Inductive pelem := PK (k : bytes) | PI (n : N).
Definition path := list pelem.

(* big-endian, k bytes *)
Fixpoint be (k : nat) (v : N) : bytes :=
  match k with
  | O => []
  | S k' => (v / 256 ^ N.of_nat k') :: be k' (v mod 256 ^ N.of_nat k')
  end.

(* uvarint.PutUvarint, x < 2^64 *)
Definition varint (x : N) : bytes :=
  if x <? 241 then [x]
  else if x <? 2288 then [(x - 240) / 256 + 241; (x - 240) mod 256]
  else if x <? 67824 then 249 :: be 2 (x - 2288)
  else if x <? 2 ^ 24 then 250 :: be 3 x
  else if x <? 2 ^ 32 then 251 :: be 4 x
  else if x <? 2 ^ 40 then 252 :: be 5 x
  else if x <? 2 ^ 48 then 253 :: be 6 x
  else if x <? 2 ^ 56 then 254 :: be 7 x
  else 255 :: be 8 x.

(* varIntLength *)
Definition varint_length (first : N) : nat :=
  if first <=? 240 then 1%nat else if first <=? 248 then 2%nat else N.to_nat (first - 246).

Definition begin_object_key : N := 255.
Definition begin_array_key : N := 254.

Section Enc.
  Variable enc_idx : N -> bytes.
  Definition elem_bytes (e : pelem) : bytes := match e with PK k => k | PI n => enc_idx n end.
  Definition enc_elem (e : pelem) : bytes :=
    match e with PK k => begin_object_key :: k | PI n => begin_array_key :: enc_idx n end.
  Definition enc_path (p : path) : bytes := concat (map enc_elem p).
  Definition enc_key (state : N) (p : path) : bytes := state :: enc_path p.
End Enc.

(* jsonPathFromKey + getPathElement: the element byte strings with their kind (true = array index).
   [skip] counts varint bytes still to be copied blindly; [cur] is the element being read (reversed). *)
Section Dec.
  Variable vlen : N -> nat.
  Fixpoint dec_go (s : bytes) (skip : nat) (cur : option (bool * bytes)) : list (bool * bytes) :=
    let flush := match cur with Some (a, r) => [(a, rev r)] | None => [] end in
    match s with
    | [] => flush
    | c :: s' =>
      match skip with
      | S k => dec_go s' k (match cur with Some (a, r) => Some (a, c :: r) | None => None end)
      | O =>
        if c =? begin_object_key then flush ++ dec_go s' 0 (Some (false, []))
        else if c =? begin_array_key then
          flush ++ dec_go s' (match s' with b :: _ => vlen b | [] => 0%nat end) (Some (true, []))
        else dec_go s' 0 (match cur with Some (a, r) => Some (a, c :: r) | None => None end)
      end
    end.
  Definition dec_key (key : bytes) : N * list (bool * bytes) :=
    match key with
    | [] => (0, [])
    | st :: s => (st, dec_go s 0 None)
    end.
End Dec.

(* compareJsonPathTypes (states: 0 start, 1 objectInitial, 2 arrayInitial, 3 end, 4 middleOfString) *)
Definition cmp_types (l r : N) : comparison :=
  if (l =? 0) && negb (r =? 0) then Lt
  else if (l =? 3) && negb (r =? 3) then Gt
  else if (r =? 0) && negb (l =? 0) then Gt
  else if (r =? 3) && negb (l =? 3) then Lt
  else Eq.

Definition last_is_array (st : N) (e : bool * bytes) : bool :=
  if st =? 2 then true else if st =? 1 then false else fst e.

(* compareJsonLocations on decoded locations *)
Fixpoint cmp_loc (ls rs : N) (l r : list (bool * bytes)) : comparison :=
  match l, r with
  | [], [] => cmp_types ls rs
  | [], e :: r' =>
    if (match r' with [] => (ls =? 1) && last_is_array rs e | _ => false end) then Gt
    else if negb (ls =? 3) then Lt else Gt
  | e :: l', [] =>
    if (match l' with [] => (rs =? 1) && last_is_array ls e | _ => false end) then Lt
    else if negb (rs =? 3) then Gt else Lt
  | (_, a) :: l', (_, b) :: r' =>
    match lex_cmp a b with Eq => cmp_loc ls rs l' r' | c => c end
  end.

(* jsonLocationOrdering.Compare on serialized keys *)
Definition cmp_keys (a b : bytes) : comparison :=
  match a, b with
  | [], [] => Eq
  | [], _ => Lt
  | _, [] => Gt
  | _, _ =>
    let '(ls, l) := dec_key varint_length a in
    let '(rs, r) := dec_key varint_length b in
    cmp_loc ls rs l r
  end.

(* IsJsonKeyPrefix(path, prefix) and JsonKeysModifySameArray on serialized keys *)
Definition is_json_key_prefix (p pre : bytes) : bool :=
  is_prefix pre p &&
  match skipn (length pre) p with
  | c :: _ => (c =? begin_array_key) || (c =? begin_object_key)
  | [] => false
  end.

Fixpoint keys_modify_same_array (a b : bytes) : bool :=
  match a, b with
  | x :: a', y :: b' => if x =? y then (if x =? begin_array_key then true else keys_modify_same_array a' b') else false
  | _, _ => false
  end.

(* ---------- JSON diff (newInMemoryJsonDiffer) ---------- *)
Record diff := { d_key : path; d_from : option json; d_to : option json }.

Definition same_kind (a b : json) : bool :=
  match a, b with
  | JNull, JNull | JBool _, JBool _ | JNum _, JNum _ | JStr _, JStr _ | JArr _, JArr _ | JObj _, JObj _ => true
  | _, _ => false
  end.

Section Diff.
  Variable rec : path -> json -> json -> list diff.

  Fixpoint obj_diff (pre : path) (xs : list (bytes * json)) {struct xs} : list (bytes * json) -> list diff :=
    fix inner (ys : list (bytes * json)) {struct ys} : list diff :=
      match xs, ys with
      | [], [] => []
      | [], (ky, vy) :: ys' => {| d_key := pre ++ [PK ky]; d_from := None; d_to := Some vy |} :: inner ys'
      | (kx, vx) :: xs', [] => {| d_key := pre ++ [PK kx]; d_from := Some vx; d_to := None |} :: obj_diff pre xs' []
      | (kx, vx) :: xs', (ky, vy) :: ys' =>
        match lex_cmp kx ky with
        | Gt => {| d_key := pre ++ [PK ky]; d_from := None; d_to := Some vy |} :: inner ys'
        | Lt => {| d_key := pre ++ [PK kx]; d_from := Some vx; d_to := None |} :: obj_diff pre xs' ys
        | Eq => rec (pre ++ [PK kx]) vx vy ++ obj_diff pre xs' ys'
        end
      end.

  Fixpoint arr_diff (pre : path) (i : N) (xs ys : list json) {struct xs} : list diff :=
    match xs, ys with
    | [], _ => (fix added (i : N) (ys : list json) : list diff :=
                  match ys with
                  | [] => []
                  | y :: ys' => {| d_key := pre ++ [PI i]; d_from := None; d_to := Some y |} :: added (i + 1) ys'
                  end) i ys
    | x :: xs', [] => {| d_key := pre ++ [PI i]; d_from := Some x; d_to := None |} :: arr_diff pre (i + 1) xs' []
    | x :: xs', y :: ys' => rec (pre ++ [PI i]) x y ++ arr_diff pre (i + 1) xs' ys'
    end.
End Diff.

(* fuel = nesting depth bound; an exhausted fuel returns no diffs (excluded by giving enough fuel) *)
Fixpoint jdiff (fuel : nat) (pre : path) (a b : json) : list diff :=
  match fuel with
  | O => []
  | S f =>
    if negb (same_kind a b) then [{| d_key := pre; d_from := Some a; d_to := Some b |}]
    else match a, b with
         | JObj xs, JObj ys => obj_diff (jdiff f) pre xs ys
         | JArr xs, JArr ys => arr_diff (jdiff f) pre 0 xs ys
         | _, _ => if json_eqb a b then [] else [{| d_key := pre; d_from := Some a; d_to := Some b |}]
         end
  end.

Fixpoint depth (d : json) : nat :=
  match d with
  | JArr l => S (fold_right (fun x acc => Nat.max (depth x) acc) O l)
  | JObj l => S (fold_right (fun x acc => Nat.max (depth (snd x)) acc) O l)
  | _ => 1%nat
  end.

Definition json_diff (a b : json) : list diff := jdiff (S (Nat.max (depth a) (depth b))) [] a b.

(* ---------- three-way differ, generic in the key type and its comparison ---------- *)
Inductive op := OSet (k : path) (v : json) | ORemove (k : path).
Inductive tw := TConflict | TOps (l : list op).

Definition tw_cons (o : op) (t : tw) : tw := match t with TConflict => TConflict | TOps l => TOps (o :: l) end.

(* what MergeJSON does with a right-side-only diff *)
Definition right_op (d : diff) : op :=
  match d_to d with Some v => OSet (d_key d) v | None => ORemove (d_key d) end.

(* both diffs are on the same key *)
Definition same_key_step (dl dr : diff) : option op :=
  match d_from dl with
  | None => if ojson_eqb (d_to dl) (d_to dr) then Some (right_op dr) else None
  | Some base =>
    match d_to dl, d_to dr with
    | None, None => Some (ORemove (d_key dr))
    | None, _ | _, None => None
    | Some lv, Some rv =>
      (* recursive MergeJSON(base, lv, rv): when all three are objects the diff would have recursed
         (unreachable for diffs produced by json_diff); otherwise plain equality of left and right *)
      if json_eqb lv rv then Some (OSet (d_key dr) rv) else None
    end
  end.

Section ThreeWay.
  Variable kcmp : path -> path -> comparison.        (* bytes.Compare(leftKey, rightKey) *)
  Variable kprefix : path -> path -> bool.           (* IsJsonKeyPrefix(path, prefix) *)
  Variable ksame_arr : path -> path -> bool.         (* JsonKeysModifySameArray *)

  Fixpoint three_way (ls : list diff) {struct ls} : list diff -> tw :=
    fix inner (rs : list diff) {struct rs} : tw :=
      match rs with
      | [] => TOps []                                 (* rightIsDone: remaining left diffs do not matter *)
      | dr :: rs' =>
        match ls with
        | [] => tw_cons (right_op dr) (inner rs')      (* leftIsDone: right-side-only diffs *)
        | dl :: ls' =>
          let c := kcmp (d_key dl) (d_key dr) in
          if (match c with Eq => false | _ => true end) && ksame_arr (d_key dl) (d_key dr) then TConflict
          else match c with
               | Gt => if kprefix (d_key dl) (d_key dr) then TConflict
                       else tw_cons (right_op dr) (inner rs')
               | Lt => if kprefix (d_key dr) (d_key dl) then TConflict
                       else three_way ls' rs
               | Eq => match same_key_step dl dr with
                       | None => TConflict
                       | Some o => tw_cons o (three_way ls' rs')
                       end
               end
        end
      end.
End ThreeWay.

(* the implementation's instances: everything is computed on the serialized keys *)
Definition ekey (p : path) : bytes := enc_key varint 0 p.
Definition raw_kcmp (a b : path) : comparison := lex_cmp (ekey a) (ekey b).
Definition raw_kprefix (p pre : path) : bool := is_json_key_prefix (ekey p) (ekey pre).
Definition raw_ksame_arr (a b : path) : bool := keys_modify_same_array (ekey a) (ekey b).

Definition three_way_impl := three_way raw_kcmp raw_kprefix raw_ksame_arr.

(* SetWithKey / RemoveWithKey on the merged document *)
Definition leg_of (e : pelem) : leg := match e with PK k => LKey k | PI n => LIdx n end.
Definition apply_op (d : json) (o : op) : json :=
  match o with
  | OSet k v => match walk MSet (map leg_of k) d v with ROk d' _ => d' | RErr => d end
  | ORemove k => match k with
                 | [] => d
                 | _ => match walk MRemove (map leg_of k) d JNull with ROk d' _ => d' | RErr => d end
                 end
  end.

Inductive mres := MConflict | MMerged (d : json).

(* MergeJSON *)
Definition merge_json (b l r : json) : mres :=
  if negb (is_obj b && is_obj l && is_obj r) then
    (if json_eqb l r then MMerged l else MConflict)
  else match three_way_impl (json_diff b l) (json_diff b r) with
       | TConflict => MConflict
       | TOps ops => MMerged (fold_left apply_op ops l)
       end.
