(* C17 — proofs. *)
From Coq Require Import NArith ZArith List Bool Lia Sorted.
From Dolt Require Import Base.Str C17.Model C17.Spec C17.Corr.
Import ListNotations.
Local Open Scope N_scope.

(* ------------------------------------------------------------------ *)
(* Refutation witnesses: the faithful model of MergeJSON (raw byte comparison of serialized keys;
   removals applied front to back) violates the declarative merge. *)
Definition k_a : bytes := [97].  Definition k_ab : bytes := [97; 98].  Definition k_b : bytes := [98].
Definition k_x : bytes := [120].

Definition w1_base := JObj [(k_a, JObj [(k_x, JNum 1)]); (k_ab, JNum 1)].
Definition w1_left := JObj [(k_a, JObj [(k_x, JNum 2)]); (k_ab, JNum 2)].
Definition w1_right := JObj [(k_a, JObj [(k_x, JNum 1)]); (k_ab, JNum 3)].

Theorem merge_json_refuted_prefix_siblings :
  exists b l r, wf_json b = true /\ wf_json l = true /\ wf_json r = true /\
    merge_spec b l r = MConflict /\
    merge_json b l r = MMerged (JObj [(k_a, JObj [(k_x, JNum 2)]); (k_ab, JNum 3)]).
Proof. exists w1_base, w1_left, w1_right. vm_compute. repeat split. Qed.

Definition w2_base := JObj [(k_a, JArr [JNum 1; JNum 2; JNum 3]); (k_b, JNum 1)].
Definition w2_left := JObj [(k_a, JArr [JNum 1; JNum 2; JNum 3]); (k_b, JNum 2)].
Definition w2_right := JObj [(k_a, JArr [JNum 1]); (k_b, JNum 1)].

Theorem merge_json_refuted_array_shrink :
  exists b l r, wf_json b = true /\ wf_json l = true /\ wf_json r = true /\
    merge_spec b l r = MMerged (JObj [(k_a, JArr [JNum 1]); (k_b, JNum 2)]) /\
    merge_json b l r = MMerged (JObj [(k_a, JArr [JNum 1; JNum 3]); (k_b, JNum 2)]).
Proof. exists w2_base, w2_left, w2_right. vm_compute. repeat split. Qed.

(* ------------------------------------------------------------------ *)
(* lex_cmp is a total order on byte strings *)
Lemma lex_cmp_refl a : lex_cmp a a = Eq.
Proof. induction a as [|x a IH]; cbn [lex_cmp]; [reflexivity|]. rewrite N.compare_refl. exact IH. Qed.

Lemma lex_cmp_eq a : forall b, lex_cmp a b = Eq -> a = b.
Proof.
  induction a as [|x a IH]; intros [|y b] H; cbn [lex_cmp] in H; try discriminate; [reflexivity|].
  destruct (x ?= y) eqn:E; try discriminate. apply N.compare_eq in E. subst. f_equal. apply IH. exact H.
Qed.

Lemma lex_cmp_antisym a : forall b, lex_cmp b a = CompOpp (lex_cmp a b).
Proof.
  induction a as [|x a IH]; intros [|y b]; cbn [lex_cmp CompOpp]; try reflexivity.
  rewrite (N.compare_antisym x y). destruct (x ?= y); cbn [CompOpp]; try reflexivity. apply IH.
Qed.

(* ------------------------------------------------------------------ *)
(* 1. loc_order: the location-key comparison is the document order of the paths.
   The array-index encoder is a section variable with the two facts the comparison relies on
   (SQLite4 varint: order preserving, length determined by its first byte). *)
Section LocOrder.
  Variable enc_idx : N -> bytes.
  Variable vlen : N -> nat.
  Hypothesis enc_idx_mono : forall a b, lex_cmp (enc_idx a) (enc_idx b) = (a ?= b).
  Hypothesis enc_idx_len : forall n, exists b t, enc_idx n = b :: t /\ length (b :: t) = vlen b.

  Definition elem_of (e : pelem) : bool * bytes :=
    (match e with PI _ => true | PK _ => false end, elem_bytes enc_idx e).

  (* keys are UTF-8: the separator bytes 0xFE / 0xFF do not occur in them *)
  Definition key_ok (e : pelem) : Prop :=
    match e with PK k => Forall (fun c => c < 254) k | PI _ => True end.

  Lemma cmp_loc_is_path_cmp p : forall q,
    cmp_loc 0 0 (map elem_of p) (map elem_of q) = path_cmp enc_idx p q.
  Proof.
    unfold elem_of.
    induction p as [|a p IH]; intros [|b q]; cbn [map cmp_loc path_cmp].
    - reflexivity.
    - destruct (map _ q); reflexivity.
    - destruct (map _ p); reflexivity.
    - assert (HE : lex_cmp (elem_bytes enc_idx a) (elem_bytes enc_idx b) = elem_cmp enc_idx a b).
      { destruct a as [x|x], b as [y|y]; cbn [elem_cmp elem_bytes]; try reflexivity. apply enc_idx_mono. }
      rewrite HE. destruct (elem_cmp enc_idx a b); try reflexivity. apply IH.
  Qed.

  Lemma dec_go_key k : forall rest a r, Forall (fun c => c < 254) k ->
    dec_go vlen (k ++ rest) 0 (Some (a, r)) = dec_go vlen rest 0 (Some (a, rev k ++ r)).
  Proof.
    induction k as [|c k IH]; intros rest a r HF; [reflexivity|].
    inversion HF as [|c' k' Hc HF']; subst.
    cbn [app dec_go]. unfold begin_object_key, begin_array_key.
    destruct (c =? 255) eqn:E1; [apply N.eqb_eq in E1; lia|].
    destruct (c =? 254) eqn:E2; [apply N.eqb_eq in E2; lia|].
    rewrite IH by exact HF'. cbn [rev]. rewrite <- app_assoc. reflexivity.
  Qed.

  Lemma dec_go_skip v : forall rest a r,
    dec_go vlen (v ++ rest) (length v) (Some (a, r)) = dec_go vlen rest 0 (Some (a, rev v ++ r)).
  Proof.
    induction v as [|c v IH]; intros rest a r; [reflexivity|].
    cbn [app length dec_go]. rewrite IH. cbn [rev]. rewrite <- app_assoc. reflexivity.
  Qed.

  Definition flush (cur : option (bool * bytes)) : list (bool * bytes) :=
    match cur with Some (a, r) => [(a, rev r)] | None => [] end.

  Lemma dec_go_path p : forall cur, Forall key_ok p ->
    dec_go vlen (enc_path enc_idx p) 0 cur = flush cur ++ map elem_of p.
  Proof.
    induction p as [|e p IH]; intros cur HF.
    - cbn. destruct cur as [[a r]|]; reflexivity.
    - inversion HF as [|e' p' He HF']; subst.
      unfold enc_path. cbn [map concat]. fold (enc_path enc_idx p).
      destruct e as [k|n]; cbn [enc_elem].
      + cbn [app dec_go]. unfold begin_object_key at 1. rewrite N.eqb_refl.
        rewrite dec_go_key by exact He. rewrite IH by exact HF'.
        cbn [flush map]. rewrite app_nil_r, rev_involutive. unfold elem_of at 2. cbn [elem_bytes].
        destruct cur as [[a r]|]; reflexivity.
      + destruct (enc_idx_len n) as [b [t [Hn Hl]]].
        cbn [app dec_go]. unfold begin_object_key at 1, begin_array_key at 1.
        change (254 =? 255) with false. rewrite N.eqb_refl. cbv iota.
        rewrite Hn. cbn [app]. rewrite <- Hl.
        change (b :: t ++ enc_path enc_idx p) with ((b :: t) ++ enc_path enc_idx p).
        rewrite dec_go_skip. rewrite IH by exact HF'.
        cbn [flush map]. rewrite app_nil_r, rev_involutive. unfold elem_of at 2. cbn [elem_bytes]. rewrite Hn.
        destruct cur as [[a r]|]; reflexivity.
  Qed.

  Lemma dec_key_enc st p : Forall key_ok p ->
    dec_key vlen (enc_key enc_idx st p) = (st, map elem_of p).
  Proof. intros HF. unfold dec_key, enc_key. rewrite dec_go_path by exact HF. reflexivity. Qed.

  (* compareJsonLocations after jsonPathFromKey, on the serialized keys of two value locations *)
  Definition cmp_keys_with (a b : bytes) : comparison :=
    let '(ls, l) := dec_key vlen a in
    let '(rs, r) := dec_key vlen b in
    cmp_loc ls rs l r.

  Theorem loc_order_gen : forall p q, Forall key_ok p -> Forall key_ok q ->
    cmp_keys_with (enc_key enc_idx 0 p) (enc_key enc_idx 0 q) = path_cmp enc_idx p q.
  Proof.
    intros p q Hp Hq. unfold cmp_keys_with. rewrite !dec_key_enc by assumption.
    apply cmp_loc_is_path_cmp.
  Qed.
End LocOrder.

(* ------------------------------------------------------------------ *)
(* 2. The streaming three-way differ equals the declarative clash/apply specification, for every
   pair of edit streams that are strictly increasing in the key order and in which no two edits of
   one side are nested or in one array.  The key order and the two path relations are section
   variables with the order laws used. *)
Section ThreeWaySpec.
  Variable kcmp : path -> path -> comparison.
  Variable kprefix : path -> path -> bool.
  Variable ksame : path -> path -> bool.

  Definition rel (a b : path) : bool := ksame a b || kprefix a b || kprefix b a.

  Hypothesis kcmp_eq : forall a b, kcmp a b = Eq -> a = b.
  Hypothesis kcmp_antisym : forall a b, kcmp b a = CompOpp (kcmp a b).
  Hypothesis kcmp_trans : forall a b c, kcmp a b = Lt -> kcmp b c = Lt -> kcmp a c = Lt.
  Hypothesis ksame_sym : forall a b, ksame a b = ksame b a.
  Hypothesis kprefix_lt : forall p pre, kprefix p pre = true -> kcmp pre p = Lt.
  (* a value and everything inside it, and the elements of one array, are contiguous in the order *)
  Hypothesis rel_convex : forall x y z, kcmp x y = Lt -> kcmp y z = Lt -> rel x z = true -> rel x y = true.

  Definition clash_g (dl dr : diff) : bool :=
    match kcmp (d_key dl) (d_key dr) with
    | Eq => match same_key_step dl dr with None => true | Some _ => false end
    | _ => rel (d_key dl) (d_key dr)
    end.
  Definition conflict_g (L R : list diff) : bool := existsb (fun dl => existsb (clash_g dl) R) L.
  Definition spec_g (L R : list diff) : tw := if conflict_g L R then TConflict else TOps (map right_op R).

  Definition klt (a b : diff) : Prop := kcmp (d_key a) (d_key b) = Lt.
  Definition unrelated (a b : diff) : Prop := rel (d_key a) (d_key b) = false.

  Let tw3 := three_way kcmp kprefix ksame.

  Lemma tw3_nil_r L : tw3 L [] = TOps [].
  Proof. destruct L; reflexivity. Qed.
  Lemma tw3_nil_l dr rs : tw3 [] (dr :: rs) = tw_cons (right_op dr) (tw3 [] rs).
  Proof. reflexivity. Qed.
  Lemma tw3_cons dl ls dr rs :
    tw3 (dl :: ls) (dr :: rs) =
    let c := kcmp (d_key dl) (d_key dr) in
    if (match c with Eq => false | _ => true end) && ksame (d_key dl) (d_key dr) then TConflict
    else match c with
         | Gt => if kprefix (d_key dl) (d_key dr) then TConflict else tw_cons (right_op dr) (tw3 (dl :: ls) rs)
         | Lt => if kprefix (d_key dr) (d_key dl) then TConflict else tw3 ls (dr :: rs)
         | Eq => match same_key_step dl dr with None => TConflict | Some o => tw_cons o (tw3 ls rs) end
         end.
  Proof. reflexivity. Qed.

  Lemma rel_sym a b : rel a b = rel b a.
  Proof. unfold rel. rewrite (ksame_sym a b). destruct (ksame b a), (kprefix a b), (kprefix b a); reflexivity. Qed.

  Lemma kcmp_gt_lt a b : kcmp a b = Gt -> kcmp b a = Lt.
  Proof. intros H. rewrite kcmp_antisym, H. reflexivity. Qed.
  Lemma kcmp_lt_gt a b : kcmp a b = Lt -> kcmp b a = Gt.
  Proof. intros H. rewrite kcmp_antisym, H. reflexivity. Qed.

  Lemma conflict_g_nil_r L : conflict_g L [] = false.
  Proof. unfold conflict_g. induction L as [|d L IH]; cbn [existsb]; [reflexivity|exact IH]. Qed.

  Lemma conflict_g_cons_l dl ls R : conflict_g (dl :: ls) R = existsb (clash_g dl) R || conflict_g ls R.
  Proof. reflexivity. Qed.

  Lemma conflict_g_cons_r L dr rs :
    conflict_g L (dr :: rs) = existsb (fun dl => clash_g dl dr) L || conflict_g L rs.
  Proof.
    unfold conflict_g. induction L as [|d L IH]; cbn [existsb] in *; [reflexivity|].
    rewrite IH. destruct (clash_g d dr), (existsb (clash_g d) rs), (existsb (fun dl => clash_g dl dr) L); reflexivity.
  Qed.

  Lemma same_key_step_op dl dr o : same_key_step dl dr = Some o -> o = right_op dr.
  Proof.
    unfold same_key_step, right_op. destruct (d_from dl) as [b|].
    - destruct (d_to dl) as [lv|], (d_to dr) as [rv|]; try discriminate.
      + destruct (json_eqb lv rv); [|discriminate]. intros H; inversion H; reflexivity.
      + intros H; inversion H; reflexivity.
    - destruct (ojson_eqb (d_to dl) (d_to dr)); [|discriminate]. intros H; inversion H; reflexivity.
  Qed.

  Lemma existsb_all_false {A} (f : A -> bool) l : (forall x, In x l -> f x = false) -> existsb f l = false.
  Proof.
    induction l as [|a l IH]; intros H; cbn [existsb]; [reflexivity|].
    rewrite (H a (or_introl eq_refl)). cbn [orb]. apply IH. intros x Hx. apply H. right. exact Hx.
  Qed.

  Theorem three_way_spec_gen : forall L R,
    StronglySorted klt L -> StronglySorted klt R ->
    ForallOrdPairs unrelated L -> ForallOrdPairs unrelated R ->
    tw3 L R = spec_g L R.
  Proof.
    induction L as [|dl ls IHL].
    - (* no left edits: every right edit is applied *)
      intros R _ _ _ _. unfold spec_g. cbn [conflict_g existsb].
      induction R as [|dr rs IHR]; [reflexivity|]. rewrite tw3_nil_l, IHR. reflexivity.
    - intros R HsL HsR HuL HuR.
      inversion HsL as [|dl' ls' HsL' HltL]; subst.
      inversion HuL as [|dl' ls' HuLh HuL']; subst.
      induction R as [|dr rs IHR].
      + rewrite tw3_nil_r. unfold spec_g. rewrite conflict_g_nil_r. reflexivity.
      + inversion HsR as [|dr' rs' HsR' HltR]; subst.
        inversion HuR as [|dr' rs' HuRh HuR']; subst.
        rewrite Forall_forall in HltL, HltR, HuLh, HuRh.
        rewrite tw3_cons. cbv zeta.
        destruct (kcmp (d_key dl) (d_key dr)) eqn:C.
        * (* same key *)
          cbn [andb]. pose proof (kcmp_eq _ _ C) as Hk.
          assert (Hrest : conflict_g (dl :: ls) (dr :: rs)
                          = (match same_key_step dl dr with None => true | Some _ => false end) || conflict_g ls rs).
          { rewrite conflict_g_cons_l. cbn [existsb]. unfold clash_g at 1. rewrite C.
            assert (H1 : existsb (clash_g dl) rs = false).
            { apply existsb_all_false. intros r Hr. unfold clash_g.
              pose proof (HltR r Hr) as Hlt. unfold klt in Hlt. rewrite Hk. rewrite Hlt.
              apply (HuRh r Hr). }
            rewrite H1, orb_false_r. rewrite conflict_g_cons_r.
            assert (H2 : existsb (fun l => clash_g l dr) ls = false).
            { apply existsb_all_false. intros l Hl. unfold clash_g.
              pose proof (HltL l Hl) as Hlt. unfold klt in Hlt. rewrite <- Hk.
              rewrite (kcmp_lt_gt _ _ Hlt). rewrite rel_sym. apply (HuLh l Hl). }
            rewrite H2. reflexivity. }
          unfold spec_g. rewrite Hrest.
          destruct (same_key_step dl dr) as [o|] eqn:SK; [|reflexivity].
          cbn [orb]. rewrite (same_key_step_op _ _ _ SK).
          rewrite (IHL rs HsL' HsR' HuL' HuR'). unfold spec_g.
          destruct (conflict_g ls rs); reflexivity.
        * (* left key first: the left edit only matters if it clashes with the current right edit *)
          cbn [andb].
          assert (Hnp : kprefix (d_key dl) (d_key dr) = false).
          { destruct (kprefix (d_key dl) (d_key dr)) eqn:P; [|reflexivity].
            apply kprefix_lt in P. rewrite kcmp_antisym, C in P. discriminate. }
          assert (Hcl : clash_g dl dr = ksame (d_key dl) (d_key dr) || kprefix (d_key dr) (d_key dl)).
          { unfold clash_g. rewrite C. unfold rel. rewrite Hnp, orb_false_r. reflexivity. }
          assert (Hrest : conflict_g (dl :: ls) (dr :: rs) = clash_g dl dr || conflict_g ls (dr :: rs)).
          { rewrite conflict_g_cons_l. cbn [existsb].
            destruct (clash_g dl dr) eqn:CL; [reflexivity|]. cbn [orb].
            assert (H1 : existsb (clash_g dl) rs = false).
            { apply existsb_all_false. intros r Hr. unfold clash_g.
              pose proof (HltR r Hr) as Hlt. unfold klt in Hlt.
              rewrite (kcmp_trans _ _ _ C Hlt).
              destruct (rel (d_key dl) (d_key r)) eqn:RR; [|reflexivity].
              pose proof (rel_convex _ _ _ C Hlt RR) as RC.
              unfold clash_g in CL. rewrite C in CL. congruence. }
            rewrite H1. reflexivity. }
          unfold spec_g. rewrite Hrest, Hcl.
          destruct (ksame (d_key dl) (d_key dr)); [reflexivity|]. cbn [orb].
          destruct (kprefix (d_key dr) (d_key dl)); [reflexivity|]. cbn [orb].
          rewrite (IHL (dr :: rs) HsL' HsR HuL' HuR). reflexivity.
        * (* right key first: the right edit is applied unless it clashes with the current left edit *)
          cbn [andb]. pose proof (kcmp_gt_lt _ _ C) as C'.
          assert (Hnp : kprefix (d_key dr) (d_key dl) = false).
          { destruct (kprefix (d_key dr) (d_key dl)) eqn:P; [|reflexivity].
            apply kprefix_lt in P. rewrite P in C. discriminate. }
          assert (Hcl : clash_g dl dr = ksame (d_key dl) (d_key dr) || kprefix (d_key dl) (d_key dr)).
          { unfold clash_g. rewrite C. unfold rel. rewrite Hnp, orb_false_r. reflexivity. }
          assert (Hrest : conflict_g (dl :: ls) (dr :: rs) = clash_g dl dr || conflict_g (dl :: ls) rs).
          { rewrite conflict_g_cons_r. cbn [existsb].
            destruct (clash_g dl dr) eqn:CL; [reflexivity|]. cbn [orb].
            assert (H1 : existsb (fun l => clash_g l dr) ls = false).
            { apply existsb_all_false. intros l Hl. unfold clash_g.
              pose proof (HltL l Hl) as Hlt. unfold klt in Hlt.
              rewrite (kcmp_lt_gt _ _ (kcmp_trans _ _ _ C' Hlt)).
              destruct (rel (d_key l) (d_key dr)) eqn:RR; [|reflexivity].
              rewrite rel_sym in RR.
              pose proof (rel_convex _ _ _ C' Hlt RR) as RC. rewrite rel_sym in RC.
              unfold clash_g in CL. rewrite C in CL. congruence. }
            rewrite H1. reflexivity. }
          unfold spec_g. rewrite Hrest, Hcl.
          destruct (ksame (d_key dl) (d_key dr)); [reflexivity|]. cbn [orb].
          destruct (kprefix (d_key dl) (d_key dr)); [reflexivity|]. cbn [orb].
          rewrite (IHR HsR' HuR'). unfold spec_g. cbn [map].
          destruct (conflict_g (dl :: ls) rs); reflexivity.
  Qed.
End ThreeWaySpec.

(* ------------------------------------------------------------------ *)
(* 3. The two facts about the index encoder, for uvarint.PutUvarint / varIntLength. *)
Lemma be_length k : forall v, length (be k v) = k.
Proof. induction k as [|k IH]; intros v; cbn [be length]; [reflexivity|]. rewrite IH. reflexivity. Qed.

Lemma varint_self_delimiting : forall n, exists b t, varint n = b :: t /\ length (b :: t) = varint_length b.
Proof.
  intros n. unfold varint.
  destruct (n <? 241) eqn:E1.
  { apply N.ltb_lt in E1. exists n, []. split; [reflexivity|]. unfold varint_length.
    destruct (n <=? 240) eqn:E; [reflexivity|]. apply N.leb_gt in E. lia. }
  destruct (n <? 2288) eqn:E2.
  { apply N.ltb_lt in E2. apply N.ltb_ge in E1.
    exists ((n - 240) / 256 + 241), [(n - 240) mod 256]. split; [reflexivity|].
    assert (Hq : (n - 240) / 256 < 8).
    { apply N.div_lt_upper_bound; [discriminate|]. change (256 * 8) with 2048. lia. }
    unfold varint_length. set (q := (n - 240) / 256) in *.
    destruct (q + 241 <=? 240) eqn:A; [apply N.leb_le in A; lia|].
    destruct (q + 241 <=? 248) eqn:B; [reflexivity|]. apply N.leb_gt in B. lia. }
  destruct (n <? 67824); [eexists _, _; split; [reflexivity|]; cbn [length]; rewrite be_length; reflexivity|].
  destruct (n <? 2 ^ 24); [eexists _, _; split; [reflexivity|]; cbn [length]; rewrite be_length; reflexivity|].
  destruct (n <? 2 ^ 32); [eexists _, _; split; [reflexivity|]; cbn [length]; rewrite be_length; reflexivity|].
  destruct (n <? 2 ^ 40); [eexists _, _; split; [reflexivity|]; cbn [length]; rewrite be_length; reflexivity|].
  destruct (n <? 2 ^ 48); [eexists _, _; split; [reflexivity|]; cbn [length]; rewrite be_length; reflexivity|].
  destruct (n <? 2 ^ 56); eexists _, _; (split; [reflexivity|]); cbn [length]; rewrite be_length; reflexivity.
Qed.

(* loc_order for the implementation's encoder; what remains a hypothesis is that the SQLite4 varint
   preserves order (the documented property of the format, checked on generated indexes across all
   nine length classes by the correspondence run). *)
Theorem loc_order_partial :
  (forall a b, lex_cmp (varint a) (varint b) = (a ?= b)) ->
  forall p q, Forall key_ok p -> Forall key_ok q ->
    cmp_keys_with varint_length (ekey p) (ekey q) = doc_cmp p q.
Proof.
  intros Hm p q Hp Hq. unfold ekey, doc_cmp.
  apply (loc_order_gen varint varint_length Hm varint_self_delimiting); assumption.
Qed.

Example loc_order_example :
  cmp_keys (ekey [PK k_a; PK k_x]) (ekey [PK k_ab]) = Lt /\ lex_cmp (ekey [PK k_a; PK k_x]) (ekey [PK k_ab]) = Gt.
Proof. vm_compute. split; reflexivity. Qed.

(* the side condition "no two edits of one side in one array" of three_way_spec_gen is needed:
   with a right side editing two elements of an array, the streaming differ misses the clash when the
   first of them is also made by the left side *)
Definition k_z : bytes := [122].
Theorem merge_json_refuted_same_array_convergent :
  exists b l r, wf_json b = true /\ wf_json l = true /\ wf_json r = true /\
    merge_spec b l r = MConflict /\
    merge_json b l r = MMerged (JObj [(k_z, JArr [JNum 9; JNum 2; JNum 7])]).
Proof.
  exists (JObj [(k_z, JArr [JNum 1; JNum 2])]), (JObj [(k_z, JArr [JNum 9; JNum 2])]),
         (JObj [(k_z, JArr [JNum 9; JNum 2; JNum 7])]).
  vm_compute. repeat split.
Qed.

(* non-vacuity of three_way_spec_gen's stream conditions: the edit streams of a clean merge *)
Example clean_merge_example :
  merge_json (JObj [(k_a, JNum 1); (k_b, JNum 1)]) (JObj [(k_a, JNum 2); (k_b, JNum 1)]) (JObj [(k_a, JNum 1); (k_b, JNum 3)])
  = MMerged (JObj [(k_a, JNum 2); (k_b, JNum 3)])
  /\ merge_spec (JObj [(k_a, JNum 1); (k_b, JNum 1)]) (JObj [(k_a, JNum 2); (k_b, JNum 1)]) (JObj [(k_a, JNum 1); (k_b, JNum 3)])
  = MMerged (JObj [(k_a, JNum 2); (k_b, JNum 3)]).
Proof. vm_compute. split; reflexivity. Qed.

(* ------------------------------------------------------------------ *)
(* 4. The SQLite4 varint preserves order: loc_order for the implementation's encoder, no hypothesis left. *)
Lemma be_cmp_S k : forall a b, lex_cmp (be (S k) a) (be (S k) b) = (a ?= b).
Proof.
  induction k as [|k IH]; intros a b.
  - cbn [be lex_cmp N.of_nat]. change (256 ^ 0) with 1. rewrite !N.div_1_r.
    destruct (a ?= b); reflexivity.
  - change (be (S (S k)) a) with ((a / 256 ^ N.of_nat (S k)) :: be (S k) (a mod 256 ^ N.of_nat (S k))).
    change (be (S (S k)) b) with ((b / 256 ^ N.of_nat (S k)) :: be (S k) (b mod 256 ^ N.of_nat (S k))).
    cbn [lex_cmp]. rewrite IH.
    set (P := 256 ^ N.of_nat (S k)).
    assert (HP : P <> 0) by (unfold P; apply N.pow_nonzero; discriminate).
    pose proof (N.div_mod a P HP) as Ha. pose proof (N.div_mod b P HP) as Hb.
    pose proof (N.mod_lt a P HP) as Ra. pose proof (N.mod_lt b P HP) as Rb.
    set (qa := a / P) in *. set (qb := b / P) in *. set (ra := a mod P) in *. set (rb := b mod P) in *.
    clearbody qa qb ra rb. clearbody P.
    destruct (qa ?= qb) eqn:E.
    + apply N.compare_eq in E. subst qb. subst a b.
      destruct (ra ?= rb) eqn:F; symmetry.
      * apply N.compare_eq_iff. apply N.compare_eq in F. subst rb. reflexivity.
      * apply N.compare_lt_iff. change (ra < rb) in F. apply N.add_lt_mono_l. exact F.
      * apply N.compare_gt_iff. apply N.compare_gt_iff in F. apply N.add_lt_mono_l. exact F.
    + change (qa < qb) in E. symmetry. apply N.compare_lt_iff.
      assert (H1 : P * (qa + 1) <= P * qb). { apply N.mul_le_mono_l. lia. }
      rewrite N.mul_add_distr_l, N.mul_1_r in H1. lia.
    + apply N.compare_gt_iff in E. symmetry. apply N.compare_gt_iff.
      assert (H1 : P * (qb + 1) <= P * qa) by (apply N.mul_le_mono_l; lia).
      rewrite N.mul_add_distr_l, N.mul_1_r in H1. lia.
Qed.

Lemma pair_lt c x y : x < y -> lex_cmp [x / 256 + c; x mod 256] [y / 256 + c; y mod 256] = Lt.
Proof.
  intros H. cbn [lex_cmp].
  assert (H256 : 256 <> 0) by discriminate.
  pose proof (N.div_mod x 256 H256) as Hx. pose proof (N.div_mod y 256 H256) as Hy.
  pose proof (N.mod_lt x 256 H256) as Rx. pose proof (N.mod_lt y 256 H256) as Ry.
  set (qx := x / 256) in *. set (qy := y / 256) in *. set (rx := x mod 256) in *. set (ry := y mod 256) in *.
  clearbody qx qy rx ry.
  destruct (qx + c ?= qy + c) eqn:E.
  - apply N.compare_eq in E. assert (HH : rx < ry) by lia.
    rewrite (proj2 (N.compare_lt_iff rx ry) HH). reflexivity.
  - reflexivity.
  - apply N.compare_gt_iff in E. lia.
Qed.

Lemma p24 : 2 ^ 24 = 16777216. Proof. reflexivity. Qed.
Lemma p32 : 2 ^ 32 = 4294967296. Proof. reflexivity. Qed.
Lemma p40 : 2 ^ 40 = 1099511627776. Proof. reflexivity. Qed.
Lemma p48 : 2 ^ 48 = 281474976710656. Proof. reflexivity. Qed.
Lemma p56 : 2 ^ 56 = 72057594037927936. Proof. reflexivity. Qed.

Ltac dl x c := let E := fresh "E" in destruct (x <? c) eqn:E; [apply N.ltb_lt in E | apply N.ltb_ge in E].

Ltac head_lt :=
  match goal with
  | |- match (?x ?= ?y) with Eq => _ | Lt => Lt | Gt => Gt end = Lt =>
    let HH := fresh in assert (HH : x < y) by lia; rewrite (proj2 (N.compare_lt_iff x y) HH); reflexivity
  end.
Ltac head_eq_be :=
  rewrite N.compare_refl; rewrite be_cmp_S; apply N.compare_lt_iff; lia.

Lemma varint_lt a b : a < b -> lex_cmp (varint a) (varint b) = Lt.
Proof.
  intros H. unfold varint. rewrite p24, p32, p40, p48, p56.
  assert (Qa : 241 <= a -> a < 2288 -> (a - 240) / 256 < 8).
  { intros. apply N.div_lt_upper_bound; [discriminate|]. change (256 * 8) with 2048. lia. }
  assert (Qb : 241 <= b -> b < 2288 -> (b - 240) / 256 < 8).
  { intros. apply N.div_lt_upper_bound; [discriminate|]. change (256 * 8) with 2048. lia. }
  dl a 241.
  { dl b 241. { cbn [lex_cmp]. rewrite (proj2 (N.compare_lt_iff a b) H). reflexivity. }
    dl b 2288. { specialize (Qb E0 E1). set (qb := (b - 240) / 256) in *. clearbody qb. cbn [lex_cmp]. head_lt. }
    dl b 67824; [cbn [lex_cmp]; head_lt|]. dl b 16777216; [cbn [lex_cmp]; head_lt|].
    dl b 4294967296; [cbn [lex_cmp]; head_lt|]. dl b 1099511627776; [cbn [lex_cmp]; head_lt|].
    dl b 281474976710656; [cbn [lex_cmp]; head_lt|]. dl b 72057594037927936; cbn [lex_cmp]; head_lt. }
  dl b 241; [lia|].
  dl a 2288.
  { specialize (Qa E E1).
    dl b 2288.
    { replace ((a - 240) / 256 + 241) with ((a - 240) / 256 + 241) by reflexivity.
      apply pair_lt. lia. }
    set (qa := (a - 240) / 256) in *. clearbody qa.
    dl b 67824; [cbn [lex_cmp]; head_lt|]. dl b 16777216; [cbn [lex_cmp]; head_lt|].
    dl b 4294967296; [cbn [lex_cmp]; head_lt|]. dl b 1099511627776; [cbn [lex_cmp]; head_lt|].
    dl b 281474976710656; [cbn [lex_cmp]; head_lt|]. dl b 72057594037927936; cbn [lex_cmp]; head_lt. }
  dl b 2288; [lia|].
  dl a 67824.
  { dl b 67824. { cbn [lex_cmp]. head_eq_be. }
    dl b 16777216; [cbn [lex_cmp]; head_lt|].
    dl b 4294967296; [cbn [lex_cmp]; head_lt|]. dl b 1099511627776; [cbn [lex_cmp]; head_lt|].
    dl b 281474976710656; [cbn [lex_cmp]; head_lt|]. dl b 72057594037927936; cbn [lex_cmp]; head_lt. }
  dl b 67824; [lia|].
  dl a 16777216.
  { dl b 16777216. { cbn [lex_cmp]. head_eq_be. }
    dl b 4294967296; [cbn [lex_cmp]; head_lt|]. dl b 1099511627776; [cbn [lex_cmp]; head_lt|].
    dl b 281474976710656; [cbn [lex_cmp]; head_lt|]. dl b 72057594037927936; cbn [lex_cmp]; head_lt. }
  dl b 16777216; [lia|].
  dl a 4294967296.
  { dl b 4294967296. { cbn [lex_cmp]. head_eq_be. }
    dl b 1099511627776; [cbn [lex_cmp]; head_lt|].
    dl b 281474976710656; [cbn [lex_cmp]; head_lt|]. dl b 72057594037927936; cbn [lex_cmp]; head_lt. }
  dl b 4294967296; [lia|].
  dl a 1099511627776.
  { dl b 1099511627776. { cbn [lex_cmp]. head_eq_be. }
    dl b 281474976710656; [cbn [lex_cmp]; head_lt|]. dl b 72057594037927936; cbn [lex_cmp]; head_lt. }
  dl b 1099511627776; [lia|].
  dl a 281474976710656.
  { dl b 281474976710656. { cbn [lex_cmp]. head_eq_be. }
    dl b 72057594037927936; cbn [lex_cmp]; head_lt. }
  dl b 281474976710656; [lia|].
  dl a 72057594037927936.
  { dl b 72057594037927936. { cbn [lex_cmp]. head_eq_be. } cbn [lex_cmp]. head_lt. }
  dl b 72057594037927936; [lia|].
  cbn [lex_cmp]. head_eq_be.
Qed.

Theorem varint_mono : forall a b, lex_cmp (varint a) (varint b) = (a ?= b).
Proof.
  intros a b. destruct (a ?= b) eqn:E.
  - apply N.compare_eq in E. subst. apply lex_cmp_refl.
  - apply varint_lt. exact E.
  - rewrite lex_cmp_antisym. rewrite varint_lt; [reflexivity|]. apply N.compare_gt_iff in E. exact E.
Qed.

Theorem loc_order : forall p q, Forall key_ok p -> Forall key_ok q ->
  cmp_keys_with varint_length (ekey p) (ekey q) = doc_cmp p q.
Proof. exact (loc_order_partial varint_mono). Qed.

(* the typed document order agrees with it whenever the two paths do not put an index and a key at
   the same place *)
Fixpoint kind_compatible (p q : path) : bool :=
  match p, q with
  | PK _ :: p', PK _ :: q' | PI _ :: p', PI _ :: q' => kind_compatible p' q'
  | _ :: _, _ :: _ => false
  | _, _ => true
  end.

Lemma doc_cmp_tcmp p : forall q, kind_compatible p q = true -> doc_cmp p q = tcmp p q.
Proof.
  induction p as [|a p IH]; intros [|b q] H; try reflexivity.
  destruct a as [x|x], b as [y|y]; cbn [kind_compatible] in H; try discriminate;
    unfold doc_cmp, tcmp in *; cbn [path_cmp lexg elem_cmp telem_cmp];
    (destruct (lex_cmp x y) + destruct (x ?= y)); try reflexivity; apply IH; exact H.
Qed.

(* ------------------------------------------------------------------ *)
(* 5. Order laws: generic lexicographic order, then the typed document order on paths. *)
Section LexLaws.
  Context {A : Type}.
  Variable ec : A -> A -> comparison.
  Hypothesis ec_refl : forall a, ec a a = Eq.
  Hypothesis ec_eq : forall a b, ec a b = Eq -> a = b.
  Hypothesis ec_antisym : forall a b, ec b a = CompOpp (ec a b).
  Hypothesis ec_trans : forall a b c, ec a b = Lt -> ec b c = Lt -> ec a c = Lt.

  Lemma lexg_refl p : lexg ec p p = Eq.
  Proof. induction p as [|a p IH]; cbn [lexg]; [reflexivity|]. rewrite ec_refl. exact IH. Qed.

  Lemma lexg_eq p : forall q, lexg ec p q = Eq -> p = q.
  Proof.
    induction p as [|a p IH]; intros [|b q] H; cbn [lexg] in H; try discriminate; [reflexivity|].
    destruct (ec a b) eqn:E; try discriminate. apply ec_eq in E. subst. f_equal. apply IH. exact H.
  Qed.

  Lemma lexg_antisym p : forall q, lexg ec q p = CompOpp (lexg ec p q).
  Proof.
    induction p as [|a p IH]; intros [|b q]; cbn [lexg CompOpp]; try reflexivity.
    rewrite (ec_antisym a b). destruct (ec a b); cbn [CompOpp]; try reflexivity. apply IH.
  Qed.

  Lemma lexg_trans p : forall q r, lexg ec p q = Lt -> lexg ec q r = Lt -> lexg ec p r = Lt.
  Proof.
    induction p as [|a p IH]; intros [|b q] [|c r] H1 H2; cbn [lexg] in *; try discriminate; try reflexivity.
    destruct (ec a b) eqn:E1; try discriminate.
    - apply ec_eq in E1. subst b. destruct (ec a c) eqn:E2; try discriminate; [|reflexivity].
      apply (IH q r); assumption.
    - destruct (ec b c) eqn:E2; try discriminate.
      + apply ec_eq in E2. subst c. rewrite E1. reflexivity.
      + rewrite (ec_trans _ _ _ E1 E2). reflexivity.
  Qed.
End LexLaws.

Lemma lex_cmp_lexg a : forall b, lex_cmp a b = lexg N.compare a b.
Proof. induction a as [|x a IH]; intros [|y b]; cbn [lex_cmp lexg]; try reflexivity; try (rewrite IH; reflexivity). Qed.

Lemma N_compare_antisym a b : (b ?= a) = CompOpp (a ?= b).
Proof. apply N.compare_antisym. Qed.
Lemma N_compare_trans a b c : (a ?= b) = Lt -> (b ?= c) = Lt -> (a ?= c) = Lt.
Proof. intros H1 H2. change (a < c). change (a < b) in H1. change (b < c) in H2. lia. Qed.

Lemma lex_cmp_trans a b c : lex_cmp a b = Lt -> lex_cmp b c = Lt -> lex_cmp a c = Lt.
Proof.
  rewrite !lex_cmp_lexg. apply lexg_trans.
  - intros x y. apply N.compare_eq.
  - exact N_compare_trans.
Qed.

Lemma telem_refl a : telem_cmp a a = Eq.
Proof. destruct a; cbn [telem_cmp]; [apply lex_cmp_refl | apply N.compare_refl]. Qed.
Lemma telem_eq a b : telem_cmp a b = Eq -> a = b.
Proof.
  destruct a as [x|x], b as [y|y]; cbn [telem_cmp]; intros H; try discriminate.
  - f_equal. apply lex_cmp_eq. exact H.
  - f_equal. apply N.compare_eq. exact H.
Qed.
Lemma telem_antisym a b : telem_cmp b a = CompOpp (telem_cmp a b).
Proof.
  destruct a as [x|x], b as [y|y]; cbn [telem_cmp CompOpp]; try reflexivity.
  - apply lex_cmp_antisym.
  - apply N.compare_antisym.
Qed.
Lemma telem_trans a b c : telem_cmp a b = Lt -> telem_cmp b c = Lt -> telem_cmp a c = Lt.
Proof.
  destruct a as [x|x], b as [y|y], c as [z|z]; cbn [telem_cmp]; intros H1 H2; try discriminate; try reflexivity.
  - exact (lex_cmp_trans _ _ _ H1 H2).
  - exact (N_compare_trans _ _ _ H1 H2).
Qed.

Lemma tcmp_refl p : tcmp p p = Eq.
Proof. apply lexg_refl. exact telem_refl. Qed.
Lemma tcmp_eq a b : tcmp a b = Eq -> a = b.
Proof. apply lexg_eq. exact telem_eq. Qed.
Lemma tcmp_antisym a b : tcmp b a = CompOpp (tcmp a b).
Proof. apply lexg_antisym. exact telem_antisym. Qed.
Lemma tcmp_trans a b c : tcmp a b = Lt -> tcmp b c = Lt -> tcmp a c = Lt.
Proof. apply lexg_trans; [exact telem_eq | exact telem_trans]. Qed.

Lemma pelem_eqb_eq a b : pelem_eqb a b = true -> a = b.
Proof.
  destruct a as [x|x], b as [y|y]; cbn [pelem_eqb]; intros H; try discriminate.
  - f_equal. apply beq_bytes_spec. exact H.
  - f_equal. apply N.eqb_eq. exact H.
Qed.
Lemma pelem_eqb_refl a : pelem_eqb a a = true.
Proof. destruct a; cbn [pelem_eqb]; [apply beq_bytes_refl | apply N.eqb_refl]. Qed.

Lemma path_same_arr_sym a : forall b, path_same_arr a b = path_same_arr b a.
Proof.
  induction a as [|x a IH]; intros [|y b]; try reflexivity.
  - destruct y; reflexivity.
  - destruct x; reflexivity.
  - destruct x as [k|i], y as [k'|j]; cbn [path_same_arr]; try reflexivity.
    rewrite IH. f_equal.
    destruct (beq_bytes k k') eqn:E1, (beq_bytes k' k) eqn:E2; try reflexivity.
    + apply beq_bytes_spec in E1. subst. rewrite beq_bytes_refl in E2. discriminate.
    + apply beq_bytes_spec in E2. subst. rewrite beq_bytes_refl in E1. discriminate.
Qed.

Lemma path_prefix_lt pre : forall p, path_prefix p pre = true -> tcmp pre p = Lt.
Proof.
  induction pre as [|b pre IH]; intros [|a p] H; cbn [path_prefix] in H; try discriminate; [reflexivity|].
  apply andb_true_iff in H as [H1 H2]. apply pelem_eqb_eq in H1. subst a.
  unfold tcmp. cbn [lexg]. rewrite telem_refl. apply IH. exact H2.
Qed.

(* an element between two equal elements (non-strictly) is that element *)
Lemma telem_squeeze a b : telem_cmp a b <> Gt -> telem_cmp b a <> Gt -> telem_cmp a b = Eq.
Proof.
  intros H1 H2. rewrite telem_antisym in H2. destruct (telem_cmp a b); cbn [CompOpp] in H2; congruence.
Qed.

Lemma tcmp_cons_lt a x b y : tcmp (a :: x) (b :: y) = Lt ->
  telem_cmp a b = Lt \/ (a = b /\ tcmp x y = Lt).
Proof.
  unfold tcmp. cbn [lexg]. destruct (telem_cmp a b) eqn:E; intros H; try discriminate.
  - right. split; [apply telem_eq; exact E | exact H].
  - left. reflexivity.
Qed.

Lemma prefix_convex x : forall y z, tcmp x y = Lt -> tcmp y z = Lt -> path_prefix z x = true -> path_prefix y x = true.
Proof.
  induction x as [|a x IH]; intros y z H1 H2 HP.
  - destruct y; [discriminate H1|reflexivity].
  - destruct z as [|c z]; [discriminate HP|]. cbn [path_prefix] in HP.
    apply andb_true_iff in HP as [HP1 HP2]. apply pelem_eqb_eq in HP1. subst c.
    destruct y as [|b y]; [discriminate H1|].
    apply tcmp_cons_lt in H1. apply tcmp_cons_lt in H2.
    destruct H1 as [H1 | [-> H1]].
    + destruct H2 as [H2 | [-> H2]].
      * rewrite telem_antisym, H1 in H2. discriminate.
      * rewrite telem_refl in H1. discriminate.
    + destruct H2 as [H2 | [_ H2]].
      * rewrite telem_refl in H2. discriminate.
      * cbn [path_prefix]. rewrite pelem_eqb_refl. cbn [andb]. apply (IH y z); assumption.
Qed.

Lemma same_arr_convex x : forall y z, tcmp x y = Lt -> tcmp y z = Lt -> path_same_arr x z = true -> path_same_arr x y = true.
Proof.
  induction x as [|a x IH]; intros y z H1 H2 HS; [discriminate HS|].
  destruct z as [|c z]; [destruct a; discriminate HS|].
  destruct y as [|b y]; [discriminate H1|].
  apply tcmp_cons_lt in H1. apply tcmp_cons_lt in H2.
  destruct a as [k|i], c as [k'|j]; cbn [path_same_arr] in HS; try discriminate.
  - apply andb_true_iff in HS as [HS1 HS2]. apply beq_bytes_spec in HS1. subst k'.
    destruct H1 as [H1 | [<- H1]].
    + destruct H2 as [H2 | [-> H2]].
      * rewrite telem_antisym, H1 in H2. discriminate.
      * rewrite telem_refl in H1. discriminate.
    + destruct H2 as [H2 | [_ H2]].
      * rewrite telem_refl in H2. discriminate.
      * cbn [path_same_arr]. rewrite beq_bytes_refl. cbn [andb]. apply (IH y z); assumption.
  - destruct b as [k|m]; [|reflexivity].
    destruct H2 as [H2 | [H2 _]]; [discriminate H2 | discriminate H2].
Qed.

Lemma path_rel_convex x y z : tcmp x y = Lt -> tcmp y z = Lt ->
  rel path_prefix path_same_arr x z = true -> rel path_prefix path_same_arr x y = true.
Proof.
  intros H1 H2 HR. unfold rel in *.
  apply orb_true_iff in HR as [HR | HR]; [apply orb_true_iff in HR as [HR | HR]|].
  - rewrite (same_arr_convex x y z H1 H2 HR). reflexivity.
  - (* z is a proper prefix of x: then z < x, against x < y < z *)
    apply path_prefix_lt in HR. pose proof (tcmp_trans _ _ _ H1 H2) as H3.
    rewrite tcmp_antisym, H3 in HR. discriminate.
  - rewrite (prefix_convex x y z H1 H2 HR). rewrite !orb_true_r. reflexivity.
Qed.

(* three_way_spec_gen for the document order: no abstract premise left *)
Theorem three_way_doc_spec : forall L R,
  StronglySorted (klt tcmp) L -> StronglySorted (klt tcmp) R ->
  ForallOrdPairs (unrelated path_prefix path_same_arr) L -> ForallOrdPairs (unrelated path_prefix path_same_arr) R ->
  three_way_doc L R = three_way_spec_result L R.
Proof.
  intros L R HL HR UL UR. unfold three_way_doc.
  rewrite (three_way_spec_gen tcmp path_prefix path_same_arr tcmp_eq tcmp_antisym tcmp_trans
             path_same_arr_sym (fun p pre => path_prefix_lt pre p) path_rel_convex L R HL HR UL UR).
  reflexivity.
Qed.

(* ------------------------------------------------------------------ *)
(* 6. json_diff emits its edits in strictly increasing document order. *)
Definition sortedD (D : list diff) : Prop := StronglySorted (klt tcmp) D.
Definition ext (pre : path) (d : diff) : Prop := exists suf, d_key d = pre ++ suf.
Definition under (pre : path) (P : pelem -> Prop) (d : diff) : Prop :=
  exists e suf, d_key d = pre ++ e :: suf /\ P e.

Lemma tcmp_app_l pre : forall x y, tcmp (pre ++ x) (pre ++ y) = tcmp x y.
Proof.
  induction pre as [|e pre IH]; intros x y; [reflexivity|].
  unfold tcmp in *. cbn [app lexg]. rewrite telem_refl. apply IH.
Qed.

Lemma klt_under pre e1 s1 e2 s2 d1 d2 :
  d_key d1 = pre ++ e1 :: s1 -> d_key d2 = pre ++ e2 :: s2 -> telem_cmp e1 e2 = Lt -> klt tcmp d1 d2.
Proof.
  intros H1 H2 HE. unfold klt. rewrite H1, H2, tcmp_app_l. unfold tcmp. cbn [lexg]. rewrite HE. reflexivity.
Qed.

Lemma sorted_app A : forall B, sortedD A -> sortedD B ->
  (forall a b, In a A -> In b B -> klt tcmp a b) -> sortedD (A ++ B).
Proof.
  unfold sortedD. induction A as [|a A IH]; intros B HA HB HX; [exact HB|].
  inversion HA as [|a' A' HA' HF]; subst. cbn [app]. constructor.
  - apply IH; [exact HA' | exact HB |]. intros x y Hx Hy. apply HX; [right; exact Hx | exact Hy].
  - apply Forall_app. split; [exact HF|]. apply Forall_forall. intros y Hy. apply HX; [left; reflexivity | exact Hy].
Qed.

Lemma under_ext pre P d : under pre P d -> ext pre d.
Proof. intros [e [suf [H _]]]. exists (e :: suf). exact H. Qed.

Lemma ext_under pre e d : ext (pre ++ [e]) d -> under pre (fun x => x = e) d.
Proof. intros [suf H]. exists e, suf. split; [|reflexivity]. rewrite H, <- app_assoc. reflexivity. Qed.

Lemma under_weaken pre (P Q : pelem -> Prop) D : (forall e, P e -> Q e) -> Forall (under pre P) D -> Forall (under pre Q) D.
Proof.
  intros HPQ HF. eapply Forall_impl; [|exact HF]. intros d [e [suf [H HP]]]. exists e, suf. split; [exact H | apply HPQ; exact HP].
Qed.

(* a diff at element e0 comes before every diff under a larger element *)
Lemma first_lt_all pre e0 s0 d0 (P : pelem -> Prop) D :
  d_key d0 = pre ++ e0 :: s0 -> (forall e, P e -> telem_cmp e0 e = Lt) ->
  Forall (under pre P) D -> Forall (klt tcmp d0) D.
Proof.
  intros H0 HP HF. eapply Forall_impl; [|exact HF]. intros d [e [suf [H He]]].
  eapply klt_under; [exact H0 | exact H | apply HP; exact He].
Qed.

Lemma keys_sorted_inv k v t : keys_sorted ((k, v) :: t) = true ->
  keys_sorted t = true /\ Forall (fun kv => lex_cmp k (fst kv) = Lt) t.
Proof.
  revert k v. induction t as [|[k' v'] t IH]; intros k v H.
  - split; [reflexivity | constructor].
  - cbn [keys_sorted] in H. destruct (lex_cmp k k') eqn:E; try discriminate.
    change (keys_sorted ((k', v') :: t) = true) in H. split; [exact H|].
    constructor; [exact E|]. destruct (IH k' v' H) as [_ HF].
    eapply Forall_impl; [|exact HF]. intros kv Hkv. cbn beta in *. eapply lex_cmp_trans; [exact E | exact Hkv].
Qed.

Definition key_in (S : list (bytes * json)) (e : pelem) : Prop :=
  exists k, e = PK k /\ In k (map fst S).
Definition key_gt (m : bytes) (e : pelem) : Prop := exists k, e = PK k /\ lex_cmp m k = Lt.

Lemma key_in_gt m S e : Forall (fun kv => lex_cmp m (fst kv) = Lt) S -> key_in S e -> key_gt m e.
Proof.
  intros HF [k [-> Hin]]. exists k. split; [reflexivity|].
  apply in_map_iff in Hin as [[k' v] [<- Hin]]. rewrite Forall_forall in HF. exact (HF _ Hin).
Qed.

Lemma key_gt_lt m e : key_gt m e -> telem_cmp (PK m) e = Lt.
Proof. intros [k [-> H]]. exact H. Qed.

Section DiffSorted.
  Variable rec : path -> json -> json -> list diff.
  Hypothesis rec_ok : forall pre a b, wf_json a = true -> wf_json b = true ->
    Forall (ext pre) (rec pre a b) /\ sortedD (rec pre a b).

  Definition mk (pre : path) (e : pelem) (f t : option json) : diff := {| d_key := pre ++ [e]; d_from := f; d_to := t |}.

  Lemma od_nil_cons pre ky vy ys :
    obj_diff rec pre [] ((ky, vy) :: ys) = mk pre (PK ky) None (Some vy) :: obj_diff rec pre [] ys.
  Proof. reflexivity. Qed.
  Lemma od_cons_nil pre kx vx xs :
    obj_diff rec pre ((kx, vx) :: xs) [] = mk pre (PK kx) (Some vx) None :: obj_diff rec pre xs [].
  Proof. reflexivity. Qed.
  Lemma od_cons_cons pre kx vx xs ky vy ys :
    obj_diff rec pre ((kx, vx) :: xs) ((ky, vy) :: ys) =
    match lex_cmp kx ky with
    | Gt => mk pre (PK ky) None (Some vy) :: obj_diff rec pre ((kx, vx) :: xs) ys
    | Lt => mk pre (PK kx) (Some vx) None :: obj_diff rec pre xs ((ky, vy) :: ys)
    | Eq => rec (pre ++ [PK kx]) vx vy ++ obj_diff rec pre xs ys
    end.
  Proof. reflexivity. Qed.

  Definition wf_vals (l : list (bytes * json)) : Prop := forallb (fun kv => wf_json (snd kv)) l = true.

  Lemma wf_vals_cons k v t : wf_vals ((k, v) :: t) -> wf_json v = true /\ wf_vals t.
  Proof. unfold wf_vals. cbn [forallb snd]. intros H. apply andb_true_iff in H. exact H. Qed.

  Lemma mk_key pre e f t : d_key (mk pre e f t) = pre ++ e :: [].
  Proof. reflexivity. Qed.

  Lemma obj_diff_ok pre xs : forall ys,
    keys_sorted xs = true -> keys_sorted ys = true -> wf_vals xs -> wf_vals ys ->
    Forall (under pre (fun e => key_in xs e \/ key_in ys e)) (obj_diff rec pre xs ys) /\ sortedD (obj_diff rec pre xs ys).
  Proof.
    induction xs as [|[kx vx] xs IHx]; intros ys; induction ys as [|[ky vy] ys IHy]; intros Sx Sy Wx Wy.
    - split; constructor.
    - rewrite od_nil_cons. destruct (keys_sorted_inv _ _ _ Sy) as [Sy' Gy]. destruct (wf_vals_cons _ _ _ Wy) as [_ Wy'].
      destruct (IHy Sx Sy' Wx Wy') as [F S]. split.
      + constructor.
        * exists (PK ky), []. split; [reflexivity|]. right. exists ky. split; [reflexivity | left; reflexivity].
        * eapply under_weaken; [|exact F]. intros e [H|[k [-> H]]]; [left; exact H | right; exists k; split; [reflexivity | right; exact H]].
      + constructor; [exact S|].
        eapply (first_lt_all pre (PK ky) []); [reflexivity | | exact F].
        intros e [[k [_ []]] | H]. apply key_gt_lt. exact (key_in_gt _ _ _ Gy H).
    - rewrite od_cons_nil. destruct (keys_sorted_inv _ _ _ Sx) as [Sx' Gx]. destruct (wf_vals_cons _ _ _ Wx) as [_ Wx'].
      destruct (IHx [] Sx' Sy Wx' Wy) as [F S]. split.
      + constructor.
        * exists (PK kx), []. split; [reflexivity|]. left. exists kx. split; [reflexivity | left; reflexivity].
        * eapply under_weaken; [|exact F]. intros e [[k [-> H]]|H]; [left; exists k; split; [reflexivity | right; exact H] | right; exact H].
      + constructor; [exact S|].
        eapply (first_lt_all pre (PK kx) []); [reflexivity | | exact F].
        intros e [H | [k [_ []]]]. apply key_gt_lt. exact (key_in_gt _ _ _ Gx H).
    - rewrite od_cons_cons.
      destruct (keys_sorted_inv _ _ _ Sx) as [Sx' Gx]. destruct (wf_vals_cons _ _ _ Wx) as [Wvx Wx'].
      destruct (keys_sorted_inv _ _ _ Sy) as [Sy' Gy]. destruct (wf_vals_cons _ _ _ Wy) as [Wvy Wy'].
      destruct (lex_cmp kx ky) eqn:C.
      + (* same key: recurse into the values *)
        apply lex_cmp_eq in C. subst ky.
        destruct (rec_ok (pre ++ [PK kx]) vx vy Wvx Wvy) as [FA SA].
        destruct (IHx ys Sx' Sy' Wx' Wy') as [F S].
        assert (FA' : Forall (under pre (fun e => e = PK kx)) (rec (pre ++ [PK kx]) vx vy)).
        { eapply Forall_impl; [|exact FA]. intros d Hd. apply ext_under. exact Hd. }
        split.
        * apply Forall_app. split.
          -- eapply under_weaken; [|exact FA']. intros e ->. left. exists kx. split; [reflexivity | left; reflexivity].
          -- eapply under_weaken; [|exact F]. intros e [[k [-> H]]|[k [-> H]]];
               [left | right]; exists k; (split; [reflexivity | right; exact H]).
        * apply sorted_app; [exact SA | exact S |].
          intros a b Ha Hb. rewrite Forall_forall in FA', F.
          destruct (FA' a Ha) as [e1 [s1 [K1 ->]]]. destruct (F b Hb) as [e2 [s2 [K2 H2]]].
          eapply klt_under; [exact K1 | exact K2 |]. apply key_gt_lt.
          destruct H2 as [H2|H2]; [exact (key_in_gt _ _ _ Gx H2) | exact (key_in_gt _ _ _ Gy H2)].
      + (* key only in the from-object: removed *)
        destruct (IHx ((ky, vy) :: ys) Sx' Sy Wx' Wy) as [F S]. split.
        * constructor.
          -- exists (PK kx), []. split; [reflexivity|]. left. exists kx. split; [reflexivity | left; reflexivity].
          -- eapply under_weaken; [|exact F]. intros e [[k [-> H]]|H]; [left; exists k; split; [reflexivity | right; exact H] | right; exact H].
        * constructor; [exact S|].
          eapply (first_lt_all pre (PK kx) []); [reflexivity | | exact F].
          intros e [H | [k [-> H]]]; [apply key_gt_lt; exact (key_in_gt _ _ _ Gx H)|].
          cbn [map fst] in H. destruct H as [<- | H]; [exact C|].
          cbn [telem_cmp]. eapply lex_cmp_trans; [exact C|].
          apply in_map_iff in H as [[k' v'] [<- Hin]]. rewrite Forall_forall in Gy. exact (Gy _ Hin).
      + (* key only in the to-object: added *)
        assert (C' : lex_cmp ky kx = Lt) by (rewrite lex_cmp_antisym, C; reflexivity).
        destruct (IHy Sx Sy' Wx Wy') as [F S]. split.
        * constructor.
          -- exists (PK ky), []. split; [reflexivity|]. right. exists ky. split; [reflexivity | left; reflexivity].
          -- eapply under_weaken; [|exact F]. intros e [H|[k [-> H]]]; [left; exact H | right; exists k; split; [reflexivity | right; exact H]].
        * constructor; [exact S|].
          eapply (first_lt_all pre (PK ky) []); [reflexivity | | exact F].
          intros e [[k [-> H]] | H]; [|apply key_gt_lt; exact (key_in_gt _ _ _ Gy H)].
          cbn [map fst] in H. destruct H as [<- | H]; [exact C'|].
          cbn [telem_cmp]. eapply lex_cmp_trans; [exact C'|].
          apply in_map_iff in H as [[k' v'] [<- Hin]]. rewrite Forall_forall in Gx. exact (Gx _ Hin).
  Qed.

  (* arrays: matching indexes are compared, the tail of the longer one is added / removed *)
  Fixpoint added_list (pre : path) (i : N) (ys : list json) : list diff :=
    match ys with
    | [] => []
    | y :: ys' => mk pre (PI i) None (Some y) :: added_list pre (i + 1) ys'
    end.

  Lemma ad_nil pre ys : forall i, arr_diff rec pre i [] ys = added_list pre i ys.
  Proof. induction ys as [|y ys IH]; intros i; [reflexivity|]. cbn [added_list]. rewrite <- IH. reflexivity. Qed.
  Lemma ad_cons_nil pre i x xs :
    arr_diff rec pre i (x :: xs) [] = mk pre (PI i) (Some x) None :: arr_diff rec pre (i + 1) xs [].
  Proof. reflexivity. Qed.
  Lemma ad_cons_cons pre i x xs y ys :
    arr_diff rec pre i (x :: xs) (y :: ys) = rec (pre ++ [PI i]) x y ++ arr_diff rec pre (i + 1) xs ys.
  Proof. reflexivity. Qed.

  Definition idx_ge (i : N) (e : pelem) : Prop := exists j, e = PI j /\ i <= j.

  Lemma idx_ge_lt i e : idx_ge (i + 1) e -> telem_cmp (PI i) e = Lt.
  Proof. intros [j [-> H]]. cbn [telem_cmp]. apply N.compare_lt_iff. lia. Qed.
  Lemma idx_ge_weaken i e : idx_ge (i + 1) e -> idx_ge i e.
  Proof. intros [j [-> H]]. exists j. split; [reflexivity | lia]. Qed.
  Lemma idx_ge_self i : idx_ge i (PI i).
  Proof. exists i. split; [reflexivity | lia]. Qed.

  Lemma added_list_ok pre ys : forall i,
    Forall (under pre (idx_ge i)) (added_list pre i ys) /\ sortedD (added_list pre i ys).
  Proof.
    induction ys as [|y ys IH]; intros i; [split; constructor|].
    cbn [added_list]. destruct (IH (i + 1)) as [F S]. split.
    - constructor; [exists (PI i), []; split; [reflexivity | apply idx_ge_self]|].
      eapply under_weaken; [|exact F]. apply idx_ge_weaken.
    - constructor; [exact S|]. eapply (first_lt_all pre (PI i) []); [reflexivity | | exact F]. apply idx_ge_lt.
  Qed.

  Definition wf_list (l : list json) : Prop := forallb wf_json l = true.

  Lemma arr_diff_ok pre xs : forall i ys, wf_list xs -> wf_list ys ->
    Forall (under pre (idx_ge i)) (arr_diff rec pre i xs ys) /\ sortedD (arr_diff rec pre i xs ys).
  Proof.
    induction xs as [|x xs IH]; intros i ys Wx Wy.
    - rewrite ad_nil. apply added_list_ok.
    - unfold wf_list in Wx. cbn [forallb] in Wx. apply andb_true_iff in Wx as [Wvx Wx'].
      destruct ys as [|y ys].
      + rewrite ad_cons_nil. destruct (IH (i + 1) [] Wx' Wy) as [F S]. split.
        * constructor; [exists (PI i), []; split; [reflexivity | apply idx_ge_self]|].
          eapply under_weaken; [|exact F]. apply idx_ge_weaken.
        * constructor; [exact S|]. eapply (first_lt_all pre (PI i) []); [reflexivity | | exact F]. apply idx_ge_lt.
      + unfold wf_list in Wy. cbn [forallb] in Wy. apply andb_true_iff in Wy as [Wvy Wy'].
        rewrite ad_cons_cons.
        destruct (rec_ok (pre ++ [PI i]) x y Wvx Wvy) as [FA SA].
        destruct (IH (i + 1) ys Wx' Wy') as [F S].
        assert (FA' : Forall (under pre (fun e => e = PI i)) (rec (pre ++ [PI i]) x y)).
        { eapply Forall_impl; [|exact FA]. intros d Hd. apply ext_under. exact Hd. }
        split.
        * apply Forall_app. split.
          -- eapply under_weaken; [|exact FA']. intros e ->. apply idx_ge_self.
          -- eapply under_weaken; [|exact F]. apply idx_ge_weaken.
        * apply sorted_app; [exact SA | exact S |].
          intros a b Ha Hb. rewrite Forall_forall in FA', F.
          destruct (FA' a Ha) as [e1 [s1 [K1 ->]]]. destruct (F b Hb) as [e2 [s2 [K2 H2]]].
          eapply klt_under; [exact K1 | exact K2 | apply idx_ge_lt; exact H2].
  Qed.
End DiffSorted.

Lemma ext_self pre f t : ext pre {| d_key := pre; d_from := f; d_to := t |}.
Proof. exists []. cbn. rewrite app_nil_r. reflexivity. Qed.

Lemma single_ok pre d : ext pre d -> Forall (ext pre) [d] /\ sortedD [d].
Proof. intros H. split; [constructor; [exact H | constructor] | constructor; constructor]. Qed.

Theorem jdiff_sorted fuel : forall pre a b, wf_json a = true -> wf_json b = true ->
  Forall (ext pre) (jdiff fuel pre a b) /\ sortedD (jdiff fuel pre a b).
Proof.
  induction fuel as [|f IH]; intros pre a b Wa Wb; [split; constructor|].
  cbn [jdiff]. destruct (same_kind a b) eqn:SK; cbn [negb]; [|apply single_ok; apply ext_self].
  destruct a, b; try discriminate SK;
    try (match goal with |- context [if ?c then _ else _] => destruct c end; [split; constructor | apply single_ok; apply ext_self]).
  - (* arrays *)
    cbn [wf_json] in Wa, Wb.
    destruct (arr_diff_ok (jdiff f) IH pre l 0 l0 Wa Wb) as [F S]. split; [|exact S].
    eapply Forall_impl; [|exact F]. intros d. apply under_ext.
  - (* objects *)
    cbn [wf_json] in Wa, Wb. apply andb_true_iff in Wa as [Sa Wa]. apply andb_true_iff in Wb as [Sb Wb].
    destruct (obj_diff_ok (jdiff f) IH pre l l0 Sa Sb Wa Wb) as [F S]. split; [|exact S].
    eapply Forall_impl; [|exact F]. intros d. apply under_ext.
Qed.

Theorem json_diff_sorted a b : wf_json a = true -> wf_json b = true -> sortedD (json_diff a b).
Proof. intros Wa Wb. exact (proj2 (jdiff_sorted _ [] a b Wa Wb)). Qed.

(* ------------------------------------------------------------------ *)
(* 7. MergeJSON = declarative merge, for every triple of well-formed documents that satisfies the
   decidable side conditions.   Full statement (refuted by the three witnesses above):
     forall b l r, wf_json b = true -> wf_json l = true -> wf_json r = true -> merge_json b l r = merge_spec b l r. *)
Lemma three_way_ext c1 p1 s1 c2 p2 s2 : forall L R,
  (forall l r, In l L -> In r R ->
     c1 (d_key l) (d_key r) = c2 (d_key l) (d_key r) /\ p1 (d_key l) (d_key r) = p2 (d_key l) (d_key r)
     /\ p1 (d_key r) (d_key l) = p2 (d_key r) (d_key l) /\ s1 (d_key l) (d_key r) = s2 (d_key l) (d_key r)) ->
  three_way c1 p1 s1 L R = three_way c2 p2 s2 L R.
Proof.
  induction L as [|dl ls IHL]; intros R H.
  - induction R as [|dr rs IHR]; [reflexivity|]. rewrite !tw3_nil_l. rewrite IHR; [reflexivity|].
    intros l r [] _.
  - induction R as [|dr rs IHR]; [rewrite !tw3_nil_r; reflexivity|].
    rewrite !tw3_cons. cbv zeta.
    destruct (H dl dr (or_introl eq_refl) (or_introl eq_refl)) as [Hc [Hp [Hp' Hs]]].
    rewrite Hc, Hp, Hp', Hs.
    rewrite (IHL (dr :: rs)) by (intros l r Hl Hr; apply H; [right; exact Hl | exact Hr]).
    rewrite (IHL rs) by (intros l r Hl Hr; apply H; [right; exact Hl | right; exact Hr]).
    rewrite IHR by (intros l r Hl Hr; apply H; [exact Hl | right; exact Hr]).
    reflexivity.
Qed.

Lemma comparison_eqb_eq a b : comparison_eqb a b = true -> a = b.
Proof. destruct a, b; cbn; intros H; try discriminate; reflexivity. Qed.

Lemma pairwise_unrelated_spec L : pairwise_unrelated L = true ->
  ForallOrdPairs (unrelated path_prefix path_same_arr) L.
Proof.
  induction L as [|d t IH]; intros H; [constructor|].
  cbn [pairwise_unrelated] in H. apply andb_true_iff in H as [H1 H2]. constructor; [|apply IH; exact H2].
  rewrite forallb_forall in H1. apply Forall_forall. intros e He. specialize (H1 e He).
  apply negb_true_iff in H1. exact H1.
Qed.

Lemma removes_last_apply ops d : removes_last ops = true -> apply_edits ops d = fold_left apply_op ops d.
Proof.
  intros H. unfold apply_edits. f_equal.
  induction ops as [|o t IH]; [reflexivity|].
  cbn [removes_last] in H. cbn [filter]. destruct (is_remove o) eqn:E; cbn [negb].
  - destruct t; [reflexivity | discriminate H].
  - cbn [app]. f_equal. apply IH. exact H.
Qed.

Theorem merge_json_partial : forall b l r,
  wf_json b = true -> wf_json l = true -> wf_json r = true ->
  merge_side_conditions b l r = true ->
  merge_json b l r = merge_spec b l r.
Proof.
  intros b l r Wb Wl Wr HC. unfold merge_json, merge_spec.
  destruct (negb (is_obj b && is_obj l && is_obj r)); [reflexivity|].
  unfold merge_side_conditions in HC.
  apply andb_true_iff in HC as [HC HRL]. apply andb_true_iff in HC as [HC HUR]. apply andb_true_iff in HC as [HRA HUL].
  set (L := json_diff b l) in *. set (R := json_diff b r) in *.
  assert (HE : three_way_impl L R = three_way_doc L R).
  { unfold three_way_impl, three_way_doc. apply three_way_ext. intros dl dr Hl Hr.
    unfold raw_agrees in HRA. rewrite forallb_forall in HRA. specialize (HRA dl Hl).
    rewrite forallb_forall in HRA. specialize (HRA dr Hr). unfold raw_agrees_pair in HRA.
    apply andb_true_iff in HRA as [HRA H4]. apply andb_true_iff in HRA as [HRA H3]. apply andb_true_iff in HRA as [H1 H2].
    apply comparison_eqb_eq in H1. apply Bool.eqb_prop in H2. apply Bool.eqb_prop in H3. apply Bool.eqb_prop in H4.
    repeat split; assumption. }
  rewrite HE.
  rewrite (three_way_doc_spec L R (json_diff_sorted b l Wb Wl) (json_diff_sorted b r Wb Wr)
             (pairwise_unrelated_spec L HUL) (pairwise_unrelated_spec R HUR)).
  unfold three_way_spec_result. destruct (conflict_spec L R); [reflexivity|].
  rewrite removes_last_apply by exact HRL. reflexivity.
Qed.

(* the side conditions are satisfiable on a merge with edits on both sides, and false on the witnesses *)
Example merge_side_conditions_examples :
  merge_side_conditions (JObj [(k_a, JNum 1); (k_b, JNum 1)]) (JObj [(k_a, JNum 2); (k_b, JNum 1)]) (JObj [(k_a, JNum 1); (k_b, JNum 3)]) = true
  /\ merge_side_conditions w1_base w1_left w1_right = false
  /\ merge_side_conditions w2_base w2_left w2_right = false.
Proof. vm_compute. repeat split. Qed.

(* ------------------------------------------------------------------ *)
(* 8. op_algebra: laws of the reference (in-memory) operations that the stored document must match. *)

(* a change flag of false means the document is returned as it was — every mode, every path *)
Theorem unchanged_same : forall p m d v d', walk m p d v = ROk d' false -> d' = d.
Proof.
  induction p as [|l rest IH]; intros m d v d' H.
  - cbn [walk] in H. unfold walk_end in H. destruct m, d; inversion H; reflexivity.
  - destruct l as [k| n | | n].
    + cbn [walk] in H. destruct d; try (destruct m; inversion H; reflexivity).
      destruct rest as [|l2 rest2].
      * destruct m; try discriminate H.
        all: try (match type of H with context [if ?c then _ else _] => destruct c end; inversion H; try reflexivity;
                  match goal with H2 : context [if ?c then _ else _] |- _ => destruct c; inversion H2; reflexivity end).
        -- destruct (obj_get k l) as [cur|]; [|inversion H; reflexivity].
           destruct (walk_end MAppend cur v) as [|nd ch]; [discriminate|]. destruct ch; inversion H; reflexivity.
      * destruct (walk m (l2 :: rest2) match obj_get k l with Some c => c | None => JNull end v) as [|nd ch]; [discriminate|].
        destruct ch; inversion H; reflexivity.
    + cbn [walk] in H. destruct d;
        try (unfold treat_as_array in H; destruct (parse_index (LIdx n) 0) as [[i u] o]; destruct u, o, m; inversion H; reflexivity).
      destruct (parse_index (LIdx n) (Z.of_nat (length l) - 1)) as [[i u] o].
      destruct (u && negb (mode_eqb m MSet)); [inversion H; reflexivity|].
      destruct ((Z.of_nat (length l) >? i)%Z && negb o).
      * destruct rest as [|l2 rest2]; destruct m; try (inversion H; reflexivity);
          (destruct (walk _ _ (nth (Z.to_nat i) l JNull) v) as [|nd ch]; [discriminate|]; destruct ch; inversion H; reflexivity).
      * destruct m; inversion H; reflexivity.
    + cbn [walk] in H. destruct d;
        try (unfold treat_as_array in H; destruct (parse_index LLast 0) as [[i u] o]; destruct u, o, m; inversion H; reflexivity).
      destruct (parse_index LLast (Z.of_nat (length l) - 1)) as [[i u] o].
      destruct (u && negb (mode_eqb m MSet)); [inversion H; reflexivity|].
      destruct ((Z.of_nat (length l) >? i)%Z && negb o).
      * destruct rest as [|l2 rest2]; destruct m; try (inversion H; reflexivity);
          (destruct (walk _ _ (nth (Z.to_nat i) l JNull) v) as [|nd ch]; [discriminate|]; destruct ch; inversion H; reflexivity).
      * destruct m; inversion H; reflexivity.
    + cbn [walk] in H. destruct d;
        try (unfold treat_as_array in H; destruct (parse_index (LLastMinus n) 0) as [[i u] o]; destruct u, o, m; inversion H; reflexivity).
      destruct (parse_index (LLastMinus n) (Z.of_nat (length l) - 1)) as [[i u] o].
      destruct (u && negb (mode_eqb m MSet)); [inversion H; reflexivity|].
      destruct ((Z.of_nat (length l) >? i)%Z && negb o).
      * destruct rest as [|l2 rest2]; destruct m; try (inversion H; reflexivity);
          (destruct (walk _ _ (nth (Z.to_nat i) l JNull) v) as [|nd ch]; [discriminate|]; destruct ch; inversion H; reflexivity).
      * destruct m; inversion H; reflexivity.
Qed.

Definition keys_only (p : list leg) : bool := forallb (fun l => match l with LKey _ => true | _ => false end) p.

Lemma obj_get_set k v l : obj_get k (obj_set k v l) = Some v.
Proof.
  induction l as [|[k' v'] t IH]; cbn [obj_set obj_get].
  - rewrite beq_bytes_refl. reflexivity.
  - destruct (lex_cmp k k') eqn:C; cbn [obj_get].
    + rewrite beq_bytes_refl. reflexivity.
    + rewrite beq_bytes_refl. reflexivity.
    + destruct (beq_bytes k k') eqn:E; [|exact IH].
      apply beq_bytes_spec in E. subst. rewrite lex_cmp_refl in C. discriminate.
Qed.

(* set p v, then lookup p, gives v — for every document and every path of object keys on which the
   set takes effect (change flag true) *)
Theorem set_then_lookup : forall p d v d', keys_only p = true ->
  walk MSet p d v = ROk d' true -> lookup p d' = Some v.
Proof.
  induction p as [|l rest IH]; intros d v d' HK H.
  - cbn in H. inversion H. reflexivity.
  - destruct l as [k| | |]; try discriminate HK. cbn [keys_only forallb] in HK.
    cbn [walk] in H. destruct d; try discriminate H.
    destruct rest as [|l2 rest2].
    + cbn [mode_eqb orb] in H. inversion H. cbn [lookup]. rewrite obj_get_set. reflexivity.
    + destruct (walk MSet (l2 :: rest2) match obj_get k l with Some c => c | None => JNull end v) as [|nd ch] eqn:W; [discriminate|].
      destruct ch; [|discriminate H]. inversion H. cbn [lookup]. rewrite obj_get_set.
      apply (IH _ _ _ HK W).
Qed.

Lemma obj_get_none_gt k t : Forall (fun kv => lex_cmp k (fst kv) = Lt) t -> obj_get k t = None.
Proof.
  induction t as [|[k' v'] t IH]; intros HF; [reflexivity|]. inversion HF as [|x y H1 H2]; subst. cbn [fst] in H1.
  cbn [obj_get]. destruct (beq_bytes k k') eqn:E; [|apply IH; exact H2].
  apply beq_bytes_spec in E. subst. rewrite lex_cmp_refl in H1. discriminate.
Qed.

Lemma obj_get_del k l : keys_sorted l = true -> obj_get k (obj_del k l) = None.
Proof.
  induction l as [|[k' v'] t IH]; intros HS; [reflexivity|].
  destruct (keys_sorted_inv _ _ _ HS) as [HS' HG].
  cbn [obj_del]. destruct (beq_bytes k k') eqn:E.
  - apply beq_bytes_spec in E. subst. apply obj_get_none_gt. exact HG.
  - cbn [obj_get]. rewrite E. apply IH. exact HS'.
Qed.

Lemma obj_get_wf k l c : forallb (fun kv => wf_json (snd kv)) l = true -> obj_get k l = Some c -> wf_json c = true.
Proof.
  induction l as [|[k' v'] t IH]; intros HW HG; [discriminate|].
  cbn [forallb snd] in HW. apply andb_true_iff in HW as [H1 H2]. cbn [obj_get] in HG.
  destruct (beq_bytes k k'); [inversion HG; subst; exact H1 | exact (IH H2 HG)].
Qed.

(* remove p, then lookup p, finds nothing — for every well-formed document and every non-empty path
   of object keys on which the removal takes effect *)
Theorem remove_then_lookup : forall p d d', keys_only p = true -> p <> [] -> wf_json d = true ->
  walk MRemove p d JNull = ROk d' true -> lookup p d' = None.
Proof.
  induction p as [|l rest IH]; intros d d' HK HN HW H; [congruence|].
  destruct l as [k| | |]; try discriminate HK. cbn [keys_only forallb] in HK.
  cbn [walk] in H. destruct d; try discriminate H.
  cbn [wf_json] in HW. apply andb_true_iff in HW as [HS HV].
  destruct rest as [|l2 rest2].
  - cbn [mode_eqb orb andb] in H. rewrite !andb_false_r in H. cbn [orb] in H.
    destruct (obj_get k l) eqn:G; cbn [andb] in H; [|discriminate H]. inversion H.
    cbn [lookup]. rewrite obj_get_del by exact HS. reflexivity.
  - destruct (walk MRemove (l2 :: rest2) match obj_get k l with Some c => c | None => JNull end JNull) as [|nd ch] eqn:W; [discriminate|].
    destruct ch; [|discriminate H]. inversion H. cbn [lookup]. rewrite obj_get_set.
    apply (IH _ _ HK ltac:(discriminate)) in W; [exact W|].
    destruct (obj_get k l) eqn:G; [exact (obj_get_wf _ _ _ HV G) | reflexivity].
Qed.

(* insert does not touch a location that exists; replace does not create one *)
Theorem insert_existing_noop : forall k kv v cur, obj_get k kv = Some cur ->
  walk MInsert [LKey k] (JObj kv) v = ROk (JObj kv) false.
Proof. intros k kv v cur G. cbn [walk]. rewrite G. reflexivity. Qed.
Theorem replace_missing_noop : forall k kv v, obj_get k kv = None ->
  walk MReplace [LKey k] (JObj kv) v = ROk (JObj kv) false.
Proof. intros k kv v G. cbn [walk]. rewrite G. reflexivity. Qed.

(* Not proved (op_algebra stays partial): operations on disjoint paths commute; the laws above for
   paths with array-index legs (in-range indexes behave like keys, out-of-range ones append). *)

(* ------------------------------------------------------------------ *)
(* 9. The oracle holds on the model wherever the property is proved: under the side conditions the
   model's merge observation passes the merge oracle; the location oracle passes on the model's keys. *)
Theorem oracle_on_model_merge : forall b l r,
  wf_json b = true -> wf_json l = true -> wf_json r = true -> merge_side_conditions b l r = true ->
  mres_eqb (merge_spec b l r) (merge_json b l r) = true -> 
  oracle (CMerge b l r, OMerge (mobs_of (merge_json b l r)) (mobs_of (merge_json b l r)) [] [] [] []) = true.
Proof.
  intros b l r Wb Wl Wr HC HE. cbn [oracle]. rewrite (merge_json_partial b l r Wb Wl Wr HC) in *.
  assert (HM : forall m, mres_eqb m m = true -> mobs_eqb (mobs_of m) (mobs_of m) = true).
  { intros m Hm. destruct m; unfold mobs_eqb, mobs_of; cbn; [reflexivity | exact Hm]. }
  rewrite (HM _ HE). reflexivity.
Qed.

Theorem oracle_on_model_loc : forall p q, Forall key_ok p -> Forall key_ok q ->
  oracle (CLoc p q, OLoc false (ekey p) (ekey q) (cmp_code (cmp_keys (ekey p) (ekey q)))) = true.
Proof.
  intros p q Hp Hq. cbn [oracle negb andb].
  assert (HK : cmp_keys (ekey p) (ekey q) = doc_cmp p q).
  { unfold cmp_keys, ekey, enc_key. rewrite <- (loc_order p q Hp Hq). reflexivity. }
  rewrite HK. apply Z.eqb_refl.
Qed.

(* ------------------------------------------------------------------ *)
(* 10. (round 3) json_eqb is reflexive: oracle_on_model_merge without its premise; lookup laws for
   paths with index legs; operations on different members of one object commute. *)
Lemma json_eqb_refl : forall d, json_eqb d d = true.
Proof.
  fix IH 1. intros [ | b | z | s | l | l]; cbn [json_eqb].
  - reflexivity.
  - destruct b; reflexivity.
  - apply Z.eqb_refl.
  - apply beq_bytes_refl.
  - induction l as [|x l IHl]; [reflexivity|]. rewrite (IH x). exact IHl.
  - induction l as [|[k x] l IHl]; [reflexivity|]. rewrite beq_bytes_refl, (IH x). exact IHl.
Qed.

Lemma mres_eqb_refl m : mres_eqb m m = true.
Proof. destruct m; cbn; [reflexivity | apply json_eqb_refl]. Qed.

Theorem oracle_on_model_merge_full : forall b l r,
  wf_json b = true -> wf_json l = true -> wf_json r = true -> merge_side_conditions b l r = true ->
  oracle (CMerge b l r, OMerge (mobs_of (merge_json b l r)) (mobs_of (merge_json b l r)) [] [] [] []) = true.
Proof.
  intros b l r Wb Wl Wr HC. apply oracle_on_model_merge; try assumption.
  rewrite (merge_json_partial b l r Wb Wl Wr HC). apply mres_eqb_refl.
Qed.

(* ---- lookup laws with index legs ---- *)
Fixpoint fits (p : list leg) (d : json) : bool :=
  match p with
  | [] => true
  | LKey k :: rest =>
    match d with
    | JObj kv => fits rest (match obj_get k kv with Some c => c | None => JNull end)
    | _ => true
    end
  | LIdx n :: rest =>
    match d with
    | JArr a => match rest with
                | [] => N.to_nat n <=? length a
                | _ => (N.to_nat n <? length a) && fits rest (nth (N.to_nat n) a JNull)
                end%nat
    | _ => false
    end
  | _ => false
  end.

Lemma nth_error_set_nth {A} (v : A) : forall n l, (n < length l)%nat -> nth_error (set_nth n v l) n = Some v.
Proof.
  induction n as [|n IH]; intros [|x l] H; cbn [length] in H; try lia; cbn [set_nth nth_error]; [reflexivity|].
  apply IH. lia.
Qed.

Lemma nth_error_app_end {A} (v : A) l : nth_error (l ++ [v]) (length l) = Some v.
Proof. induction l as [|x l IH]; [reflexivity | exact IH]. Qed.

Lemma Z_of_N_to_nat n : Z.to_nat (Z.of_N n) = N.to_nat n.
Proof. rewrite <- N_nat_Z, Nat2Z.id. reflexivity. Qed.

Lemma parse_index_in n len : (N.to_nat n < len)%nat ->
  parse_index (LIdx n) (Z.of_nat len - 1) = (Z.of_N n, false, false).
Proof.
  intros H. unfold parse_index. destruct (Z.of_N n >? Z.of_nat len - 1)%Z eqn:E; [|reflexivity].
  apply Z.gtb_lt in E. lia.
Qed.
Lemma parse_index_over n len : (len <= N.to_nat n)%nat ->
  parse_index (LIdx n) (Z.of_nat len - 1) = ((Z.of_nat len - 1)%Z, false, true).
Proof.
  intros H. unfold parse_index. destruct (Z.of_N n >? Z.of_nat len - 1)%Z eqn:E; [reflexivity|].
  assert (~ (Z.of_nat len - 1 < Z.of_N n)%Z) by (intros HH; apply Z.gtb_lt in HH; congruence). lia.
Qed.

Theorem set_then_lookup_idx : forall p d v d', fits p d = true ->
  walk MSet p d v = ROk d' true -> lookup p d' = Some v.
Proof.
  induction p as [|l rest IH]; intros d v d' HF H.
  - cbn in H. inversion H. reflexivity.
  - destruct l as [k|n| |]; try discriminate HF.
    + cbn [fits] in HF. cbn [walk] in H. destruct d; try discriminate H.
      destruct rest as [|l2 rest2].
      * cbn [mode_eqb orb] in H. inversion H. cbn [lookup]. rewrite obj_get_set. reflexivity.
      * destruct (walk MSet (l2 :: rest2) match obj_get k l with Some c => c | None => JNull end v) as [|nd ch] eqn:W; [discriminate|].
        destruct ch; [|discriminate H]. inversion H. cbn [lookup]. rewrite obj_get_set.
        apply (IH _ _ _ HF W).
    + cbn [fits] in HF. destruct d; try discriminate HF. cbn [walk] in H.
      destruct rest as [|l2 rest2].
      * apply Nat.leb_le in HF. destruct (Nat.eq_dec (N.to_nat n) (length l)) as [He|Hne].
        -- rewrite parse_index_over in H by lia. cbn [andb negb mode_eqb] in H. rewrite andb_false_r in H.
           inversion H. cbn [lookup]. rewrite He. rewrite nth_error_app_end. reflexivity.
        -- rewrite parse_index_in in H by lia. cbn [andb negb mode_eqb] in H.
           assert (HG : (Z.of_nat (length l) >? Z.of_N n)%Z = true) by (apply Z.gtb_lt; lia).
           rewrite HG in H. cbn [andb] in H. inversion H. cbn [lookup]. rewrite Z_of_N_to_nat.
           rewrite nth_error_set_nth by lia. reflexivity.
      * apply andb_true_iff in HF as [HL HF]. apply Nat.ltb_lt in HL.
        rewrite parse_index_in in H by exact HL. cbn [andb negb mode_eqb] in H.
        assert (HG : (Z.of_nat (length l) >? Z.of_N n)%Z = true) by (apply Z.gtb_lt; lia).
        rewrite HG in H. cbn [andb] in H. rewrite Z_of_N_to_nat in H.
        destruct (walk MSet (l2 :: rest2) (nth (N.to_nat n) l JNull) v) as [|nd ch] eqn:W; [discriminate|].
        destruct ch; [|discriminate H]. inversion H. cbn [lookup].
        rewrite nth_error_set_nth by exact HL. apply (IH _ _ _ HF W).
Qed.

(* removal: index legs may lead to the object whose member is removed (removing an array element
   shifts the following ones into its place, so the law is about object members) *)
Fixpoint fits_rm (p : list leg) (d : json) : bool :=
  match p with
  | [] => false
  | [LKey _] => true
  | LKey k :: rest =>
    match d with
    | JObj kv => fits_rm rest (match obj_get k kv with Some c => c | None => JNull end)
    | _ => true
    end
  | LIdx n :: rest =>
    match d with
    | JArr a => (N.to_nat n <? length a)%nat && fits_rm rest (nth (N.to_nat n) a JNull)
    | _ => false
    end
  | _ => false
  end.

Lemma nth_wf a : forall n, forallb wf_json a = true -> wf_json (nth n a JNull) = true.
Proof.
  induction a as [|x a IH]; intros [|n] H; try reflexivity; cbn [forallb] in H; apply andb_true_iff in H as [H1 H2].
  - exact H1.
  - cbn [nth]. apply IH. exact H2.
Qed.

Theorem remove_then_lookup_idx : forall p d d', fits_rm p d = true -> wf_json d = true ->
  walk MRemove p d JNull = ROk d' true -> lookup p d' = None.
Proof.
  induction p as [|l rest IH]; intros d d' HF HW H; [discriminate HF|].
  destruct l as [k|n| |]; try discriminate HF.
  - cbn [walk] in H. destruct d; try discriminate H.
    cbn [wf_json] in HW. apply andb_true_iff in HW as [HS HV].
    destruct rest as [|l2 rest2].
    + cbn [mode_eqb orb andb] in H. rewrite !andb_false_r in H. cbn [orb] in H.
      destruct (obj_get k l) eqn:G; cbn [andb] in H; [|discriminate H]. inversion H.
      cbn [lookup]. rewrite obj_get_del by exact HS. reflexivity.
    + change (fits_rm (LKey k :: l2 :: rest2) (JObj l)) with (fits_rm (l2 :: rest2) match obj_get k l with Some c => c | None => JNull end) in HF.
      destruct (walk MRemove (l2 :: rest2) match obj_get k l with Some c => c | None => JNull end JNull) as [|nd ch] eqn:W; [discriminate|].
      destruct ch; [|discriminate H]. inversion H. cbn [lookup]. rewrite obj_get_set.
      apply (IH _ _ HF) in W; [exact W|].
      destruct (obj_get k l) eqn:G; [exact (obj_get_wf _ _ _ HV G) | reflexivity].
  - cbn [fits_rm] in HF. destruct d; try discriminate HF. cbn [wf_json] in HW.
    apply andb_true_iff in HF as [HL HF]. apply Nat.ltb_lt in HL.
    cbn [walk] in H. rewrite parse_index_in in H by exact HL. cbn [andb negb mode_eqb] in H.
    assert (HG : (Z.of_nat (length l) >? Z.of_N n)%Z = true) by (apply Z.gtb_lt; lia).
    rewrite HG in H. cbn [andb] in H. rewrite Z_of_N_to_nat in H.
    destruct rest as [|l2 rest2]; [cbn [fits_rm] in HF; discriminate HF|].
    destruct (walk MRemove (l2 :: rest2) (nth (N.to_nat n) l JNull) JNull) as [|nd ch] eqn:W; [discriminate H|].
    destruct ch; [|discriminate H]. inversion H. cbn [lookup].
    rewrite nth_error_set_nth by exact HL. apply (IH _ _ HF (nth_wf _ _ HW) W).
Qed.

(* ---- operations on different members of one object commute ---- *)
Lemma lex_cmp_gt_lt a b : lex_cmp a b = Gt -> lex_cmp b a = Lt.
Proof. intros H. rewrite lex_cmp_antisym, H. reflexivity. Qed.
Lemma lex_cmp_lt_gt a b : lex_cmp a b = Lt -> lex_cmp b a = Gt.
Proof. intros H. rewrite lex_cmp_antisym, H. reflexivity. Qed.

Lemma obj_set_comm_lt k1 v1 k2 v2 : lex_cmp k1 k2 = Lt -> forall l,
  obj_set k1 v1 (obj_set k2 v2 l) = obj_set k2 v2 (obj_set k1 v1 l).
Proof.
  intros H12. pose proof (lex_cmp_lt_gt _ _ H12) as H21.
  induction l as [|[k' v'] t IH].
  - cbn [obj_set]. rewrite H12, H21. reflexivity.
  - destruct (lex_cmp k2 k') eqn:C2.
    + apply lex_cmp_eq in C2. subst k'.
      repeat (cbn [obj_set]; rewrite ?H12, ?H21, ?lex_cmp_refl). reflexivity.
    + pose proof (lex_cmp_trans _ _ _ H12 C2) as C1.
      repeat (cbn [obj_set]; rewrite ?H12, ?H21, ?C1, ?C2). reflexivity.
    + destruct (lex_cmp k1 k') eqn:C1.
      * apply lex_cmp_eq in C1. subst k'.
        repeat (cbn [obj_set]; rewrite ?H12, ?H21, ?C2, ?lex_cmp_refl). reflexivity.
      * repeat (cbn [obj_set]; rewrite ?H12, ?H21, ?C1, ?C2). reflexivity.
      * repeat (cbn [obj_set]; rewrite ?H12, ?H21, ?C1, ?C2). rewrite IH. reflexivity.
Qed.

Theorem obj_set_comm k1 v1 k2 v2 l : k1 <> k2 ->
  obj_set k1 v1 (obj_set k2 v2 l) = obj_set k2 v2 (obj_set k1 v1 l).
Proof.
  intros HN. destruct (lex_cmp k1 k2) eqn:C.
  - apply lex_cmp_eq in C. contradiction.
  - apply obj_set_comm_lt. exact C.
  - symmetry. apply obj_set_comm_lt. apply lex_cmp_gt_lt. exact C.
Qed.

Lemma beq_bytes_neq a b : a <> b -> beq_bytes a b = false.
Proof. intros H. destruct (beq_bytes a b) eqn:E; [|reflexivity]. apply beq_bytes_spec in E. contradiction. Qed.

Lemma obj_get_set_other k k' v l : k <> k' -> obj_get k (obj_set k' v l) = obj_get k l.
Proof.
  intros HN. induction l as [|[k2 v2] t IH]; cbn [obj_set obj_get].
  - rewrite (beq_bytes_neq _ _ HN). reflexivity.
  - destruct (lex_cmp k' k2) eqn:C; cbn [obj_get].
    + apply lex_cmp_eq in C. subst k2. rewrite (beq_bytes_neq _ _ HN). reflexivity.
    + rewrite (beq_bytes_neq _ _ HN). reflexivity.
    + rewrite IH. reflexivity.
Qed.

Lemma obj_del_del_comm k1 k2 l : obj_del k1 (obj_del k2 l) = obj_del k2 (obj_del k1 l).
Proof.
  induction l as [|[k v] t IH]; [reflexivity|]. cbn [obj_del].
  destruct (beq_bytes k2 k) eqn:E2, (beq_bytes k1 k) eqn:E1; cbn [obj_del]; rewrite ?E1, ?E2; try reflexivity.
  - apply beq_bytes_spec in E1, E2. subst. reflexivity.
  - rewrite IH. reflexivity.
Qed.

(* the implementation's two top-level operations on different members of one object *)
Definition app (m : mode) (p : list leg) (v : json) (d : json) : json :=
  match walk m p d v with ROk d' _ => d' | RErr => d end.

Theorem set_set_commute_members : forall k1 k2 v1 v2 kv, k1 <> k2 ->
  app MSet [LKey k2] v2 (app MSet [LKey k1] v1 (JObj kv)) = app MSet [LKey k1] v1 (app MSet [LKey k2] v2 (JObj kv)).
Proof.
  intros k1 k2 v1 v2 kv HN. unfold app. cbn [walk mode_eqb orb]. f_equal. symmetry. apply obj_set_comm. exact HN.
Qed.

Lemma obj_get_del_other k k' l : k <> k' -> obj_get k (obj_del k' l) = obj_get k l.
Proof.
  intros HN. induction l as [|[k2 v2] t IH]; [reflexivity|]. cbn [obj_del].
  destruct (beq_bytes k' k2) eqn:E; cbn [obj_get].
  - apply beq_bytes_spec in E. subst k2. rewrite (beq_bytes_neq _ _ HN). reflexivity.
  - rewrite IH. reflexivity.
Qed.

Theorem remove_remove_commute_members : forall k1 k2 kv, k1 <> k2 ->
  app MRemove [LKey k2] JNull (app MRemove [LKey k1] JNull (JObj kv)) = app MRemove [LKey k1] JNull (app MRemove [LKey k2] JNull (JObj kv)).
Proof.
  intros k1 k2 kv HN. unfold app. cbn [walk mode_eqb orb andb]. rewrite !andb_false_r. cbn [orb].
  destruct (obj_get k1 kv) eqn:G1; destruct (obj_get k2 kv) eqn:G2; cbn [andb walk mode_eqb orb]; rewrite ?andb_false_r; cbn [orb];
    rewrite ?(obj_get_del_other k2 k1 kv (fun H => HN (eq_sym H))), ?(obj_get_del_other k1 k2 kv HN), ?G1, ?G2; cbn [andb];
    try reflexivity.
  f_equal. apply obj_del_del_comm.
Qed.


(* Not proved: commutation for paths that share a prefix / for arbitrary pairwise unrelated paths
   (needed to drop the removal-last side condition of merge_json_partial, which therefore stays). *)
