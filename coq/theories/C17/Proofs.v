(* C17 — proofs. *)
From Coq Require Import NArith ZArith List Bool Lia Sorted.
From Dolt Require Import Base.Str C17.Model C17.Spec C17.Corr.
Import ListNotations.
Local Open Scope N_scope.

(* ------------------------------------------------------------------ *)
(* Refutation witnesses: the faithful model of MergeJSON (raw byte comparison of serialized keys;
   removals applied front to back) violates the declarative merge. *)
Definition k_a : bytes := [97].  Definition k_ab : bytes := [97; 98].  Definition k_b : bytes := [98].
Definition k_x : bytes := [120].

Definition w1_base := JObj [(k_a, JObj [(k_x, JNum 1)]); (k_ab, JNum 1)].
Definition w1_left := JObj [(k_a, JObj [(k_x, JNum 2)]); (k_ab, JNum 2)].
Definition w1_right := JObj [(k_a, JObj [(k_x, JNum 1)]); (k_ab, JNum 3)].

Theorem merge_json_refuted_prefix_siblings :
  exists b l r, wf_json b = true /\ wf_json l = true /\ wf_json r = true /\
    merge_spec b l r = MConflict /\
    merge_json b l r = MMerged (JObj [(k_a, JObj [(k_x, JNum 2)]); (k_ab, JNum 3)]).
Proof. exists w1_base, w1_left, w1_right. vm_compute. repeat split. Qed.

Definition w2_base := JObj [(k_a, JArr [JNum 1; JNum 2; JNum 3]); (k_b, JNum 1)].
Definition w2_left := JObj [(k_a, JArr [JNum 1; JNum 2; JNum 3]); (k_b, JNum 2)].
Definition w2_right := JObj [(k_a, JArr [JNum 1]); (k_b, JNum 1)].

Theorem merge_json_refuted_array_shrink :
  exists b l r, wf_json b = true /\ wf_json l = true /\ wf_json r = true /\
    merge_spec b l r = MMerged (JObj [(k_a, JArr [JNum 1]); (k_b, JNum 2)]) /\
    merge_json b l r = MMerged (JObj [(k_a, JArr [JNum 1; JNum 3]); (k_b, JNum 2)]).
Proof. exists w2_base, w2_left, w2_right. vm_compute. repeat split. Qed.

(* ------------------------------------------------------------------ *)
(* lex_cmp is a total order on byte strings *)
Lemma lex_cmp_refl a : lex_cmp a a = Eq.
Proof. induction a as [|x a IH]; cbn [lex_cmp]; [reflexivity|]. rewrite N.compare_refl. exact IH. Qed.

Lemma lex_cmp_eq a : forall b, lex_cmp a b = Eq -> a = b.
Proof.
  induction a as [|x a IH]; intros [|y b] H; cbn [lex_cmp] in H; try discriminate; [reflexivity|].
  destruct (x ?= y) eqn:E; try discriminate. apply N.compare_eq in E. subst. f_equal. apply IH. exact H.
Qed.

Lemma lex_cmp_antisym a : forall b, lex_cmp b a = CompOpp (lex_cmp a b).
Proof.
  induction a as [|x a IH]; intros [|y b]; cbn [lex_cmp CompOpp]; try reflexivity.
  rewrite (N.compare_antisym x y). destruct (x ?= y); cbn [CompOpp]; try reflexivity. apply IH.
Qed.

(* ------------------------------------------------------------------ *)
(* 1. loc_order: the location-key comparison is the document order of the paths.
   The array-index encoder is a section variable with the two facts the comparison relies on
   (SQLite4 varint: order preserving, length determined by its first byte). *)
Section LocOrder.
  Variable enc_idx : N -> bytes.
  Variable vlen : N -> nat.
  Hypothesis enc_idx_mono : forall a b, lex_cmp (enc_idx a) (enc_idx b) = (a ?= b).
  Hypothesis enc_idx_len : forall n, exists b t, enc_idx n = b :: t /\ length (b :: t) = vlen b.

  Definition elem_of (e : pelem) : bool * bytes :=
    (match e with PI _ => true | PK _ => false end, elem_bytes enc_idx e).

  (* keys are UTF-8: the separator bytes 0xFE / 0xFF do not occur in them *)
  Definition key_ok (e : pelem) : Prop :=
    match e with PK k => Forall (fun c => c < 254) k | PI _ => True end.

  Lemma cmp_loc_is_path_cmp p : forall q,
    cmp_loc 0 0 (map elem_of p) (map elem_of q) = path_cmp enc_idx p q.
  Proof.
    unfold elem_of.
    induction p as [|a p IH]; intros [|b q]; cbn [map cmp_loc path_cmp].
    - reflexivity.
    - destruct (map _ q); reflexivity.
    - destruct (map _ p); reflexivity.
    - assert (HE : lex_cmp (elem_bytes enc_idx a) (elem_bytes enc_idx b) = elem_cmp enc_idx a b).
      { destruct a as [x|x], b as [y|y]; cbn [elem_cmp elem_bytes]; try reflexivity. apply enc_idx_mono. }
      rewrite HE. destruct (elem_cmp enc_idx a b); try reflexivity. apply IH.
  Qed.

  Lemma dec_go_key k : forall rest a r, Forall (fun c => c < 254) k ->
    dec_go vlen (k ++ rest) 0 (Some (a, r)) = dec_go vlen rest 0 (Some (a, rev k ++ r)).
  Proof.
    induction k as [|c k IH]; intros rest a r HF; [reflexivity|].
    inversion HF as [|c' k' Hc HF']; subst.
    cbn [app dec_go]. unfold begin_object_key, begin_array_key.
    destruct (c =? 255) eqn:E1; [apply N.eqb_eq in E1; lia|].
    destruct (c =? 254) eqn:E2; [apply N.eqb_eq in E2; lia|].
    rewrite IH by exact HF'. cbn [rev]. rewrite <- app_assoc. reflexivity.
  Qed.

  Lemma dec_go_skip v : forall rest a r,
    dec_go vlen (v ++ rest) (length v) (Some (a, r)) = dec_go vlen rest 0 (Some (a, rev v ++ r)).
  Proof.
    induction v as [|c v IH]; intros rest a r; [reflexivity|].
    cbn [app length dec_go]. rewrite IH. cbn [rev]. rewrite <- app_assoc. reflexivity.
  Qed.

  Definition flush (cur : option (bool * bytes)) : list (bool * bytes) :=
    match cur with Some (a, r) => [(a, rev r)] | None => [] end.

  Lemma dec_go_path p : forall cur, Forall key_ok p ->
    dec_go vlen (enc_path enc_idx p) 0 cur = flush cur ++ map elem_of p.
  Proof.
    induction p as [|e p IH]; intros cur HF.
    - cbn. destruct cur as [[a r]|]; reflexivity.
    - inversion HF as [|e' p' He HF']; subst.
      unfold enc_path. cbn [map concat]. fold (enc_path enc_idx p).
      destruct e as [k|n]; cbn [enc_elem].
      + cbn [app dec_go]. unfold begin_object_key at 1. rewrite N.eqb_refl.
        rewrite dec_go_key by exact He. rewrite IH by exact HF'.
        cbn [flush map]. rewrite app_nil_r, rev_involutive. unfold elem_of at 2. cbn [elem_bytes].
        destruct cur as [[a r]|]; reflexivity.
      + destruct (enc_idx_len n) as [b [t [Hn Hl]]].
        cbn [app dec_go]. unfold begin_object_key at 1, begin_array_key at 1.
        change (254 =? 255) with false. rewrite N.eqb_refl. cbv iota.
        rewrite Hn. cbn [app]. rewrite <- Hl.
        change (b :: t ++ enc_path enc_idx p) with ((b :: t) ++ enc_path enc_idx p).
        rewrite dec_go_skip. rewrite IH by exact HF'.
        cbn [flush map]. rewrite app_nil_r, rev_involutive. unfold elem_of at 2. cbn [elem_bytes]. rewrite Hn.
        destruct cur as [[a r]|]; reflexivity.
  Qed.

  Lemma dec_key_enc st p : Forall key_ok p ->
    dec_key vlen (enc_key enc_idx st p) = (st, map elem_of p).
  Proof. intros HF. unfold dec_key, enc_key. rewrite dec_go_path by exact HF. reflexivity. Qed.

  (* compareJsonLocations after jsonPathFromKey, on the serialized keys of two value locations *)
  Definition cmp_keys_with (a b : bytes) : comparison :=
    let '(ls, l) := dec_key vlen a in
    let '(rs, r) := dec_key vlen b in
    cmp_loc ls rs l r.

  Theorem loc_order_gen : forall p q, Forall key_ok p -> Forall key_ok q ->
    cmp_keys_with (enc_key enc_idx 0 p) (enc_key enc_idx 0 q) = path_cmp enc_idx p q.
  Proof.
    intros p q Hp Hq. unfold cmp_keys_with. rewrite !dec_key_enc by assumption.
    apply cmp_loc_is_path_cmp.
  Qed.
End LocOrder.

(* ------------------------------------------------------------------ *)
(* 2. The streaming three-way differ equals the declarative clash/apply specification, for every
   pair of edit streams that are strictly increasing in the key order and in which no two edits of
   one side are nested or in one array.  The key order and the two path relations are section
   variables with the order laws used. *)
Section ThreeWaySpec.
  Variable kcmp : path -> path -> comparison.
  Variable kprefix : path -> path -> bool.
  Variable ksame : path -> path -> bool.

  Definition rel (a b : path) : bool := ksame a b || kprefix a b || kprefix b a.

  Hypothesis kcmp_eq : forall a b, kcmp a b = Eq -> a = b.
  Hypothesis kcmp_antisym : forall a b, kcmp b a = CompOpp (kcmp a b).
  Hypothesis kcmp_trans : forall a b c, kcmp a b = Lt -> kcmp b c = Lt -> kcmp a c = Lt.
  Hypothesis ksame_sym : forall a b, ksame a b = ksame b a.
  Hypothesis kprefix_lt : forall p pre, kprefix p pre = true -> kcmp pre p = Lt.
  (* a value and everything inside it, and the elements of one array, are contiguous in the order *)
  Hypothesis rel_convex : forall x y z, kcmp x y = Lt -> kcmp y z = Lt -> rel x z = true -> rel x y = true.

  Definition clash_g (dl dr : diff) : bool :=
    match kcmp (d_key dl) (d_key dr) with
    | Eq => match same_key_step dl dr with None => true | Some _ => false end
    | _ => rel (d_key dl) (d_key dr)
    end.
  Definition conflict_g (L R : list diff) : bool := existsb (fun dl => existsb (clash_g dl) R) L.
  Definition spec_g (L R : list diff) : tw := if conflict_g L R then TConflict else TOps (map right_op R).

  Definition klt (a b : diff) : Prop := kcmp (d_key a) (d_key b) = Lt.
  Definition unrelated (a b : diff) : Prop := rel (d_key a) (d_key b) = false.

  Let tw3 := three_way kcmp kprefix ksame.

  Lemma tw3_nil_r L : tw3 L [] = TOps [].
  Proof. destruct L; reflexivity. Qed.
  Lemma tw3_nil_l dr rs : tw3 [] (dr :: rs) = tw_cons (right_op dr) (tw3 [] rs).
  Proof. reflexivity. Qed.
  Lemma tw3_cons dl ls dr rs :
    tw3 (dl :: ls) (dr :: rs) =
    let c := kcmp (d_key dl) (d_key dr) in
    if (match c with Eq => false | _ => true end) && ksame (d_key dl) (d_key dr) then TConflict
    else match c with
         | Gt => if kprefix (d_key dl) (d_key dr) then TConflict else tw_cons (right_op dr) (tw3 (dl :: ls) rs)
         | Lt => if kprefix (d_key dr) (d_key dl) then TConflict else tw3 ls (dr :: rs)
         | Eq => match same_key_step dl dr with None => TConflict | Some o => tw_cons o (tw3 ls rs) end
         end.
  Proof. reflexivity. Qed.

  Lemma rel_sym a b : rel a b = rel b a.
  Proof. unfold rel. rewrite (ksame_sym a b). destruct (ksame b a), (kprefix a b), (kprefix b a); reflexivity. Qed.

  Lemma kcmp_gt_lt a b : kcmp a b = Gt -> kcmp b a = Lt.
  Proof. intros H. rewrite kcmp_antisym, H. reflexivity. Qed.
  Lemma kcmp_lt_gt a b : kcmp a b = Lt -> kcmp b a = Gt.
  Proof. intros H. rewrite kcmp_antisym, H. reflexivity. Qed.

  Lemma conflict_g_nil_r L : conflict_g L [] = false.
  Proof. unfold conflict_g. induction L as [|d L IH]; cbn [existsb]; [reflexivity|exact IH]. Qed.

  Lemma conflict_g_cons_l dl ls R : conflict_g (dl :: ls) R = existsb (clash_g dl) R || conflict_g ls R.
  Proof. reflexivity. Qed.

  Lemma conflict_g_cons_r L dr rs :
    conflict_g L (dr :: rs) = existsb (fun dl => clash_g dl dr) L || conflict_g L rs.
  Proof.
    unfold conflict_g. induction L as [|d L IH]; cbn [existsb] in *; [reflexivity|].
    rewrite IH. destruct (clash_g d dr), (existsb (clash_g d) rs), (existsb (fun dl => clash_g dl dr) L); reflexivity.
  Qed.

  Lemma same_key_step_op dl dr o : same_key_step dl dr = Some o -> o = right_op dr.
  Proof.
    unfold same_key_step, right_op. destruct (d_from dl) as [b|].
    - destruct (d_to dl) as [lv|], (d_to dr) as [rv|]; try discriminate.
      + destruct (json_eqb lv rv); [|discriminate]. intros H; inversion H; reflexivity.
      + intros H; inversion H; reflexivity.
    - destruct (ojson_eqb (d_to dl) (d_to dr)); [|discriminate]. intros H; inversion H; reflexivity.
  Qed.

  Lemma existsb_all_false {A} (f : A -> bool) l : (forall x, In x l -> f x = false) -> existsb f l = false.
  Proof.
    induction l as [|a l IH]; intros H; cbn [existsb]; [reflexivity|].
    rewrite (H a (or_introl eq_refl)). cbn [orb]. apply IH. intros x Hx. apply H. right. exact Hx.
  Qed.

  Theorem three_way_spec_gen : forall L R,
    StronglySorted klt L -> StronglySorted klt R ->
    ForallOrdPairs unrelated L -> ForallOrdPairs unrelated R ->
    tw3 L R = spec_g L R.
  Proof.
    induction L as [|dl ls IHL].
    - (* no left edits: every right edit is applied *)
      intros R _ _ _ _. unfold spec_g. cbn [conflict_g existsb].
      induction R as [|dr rs IHR]; [reflexivity|]. rewrite tw3_nil_l, IHR. reflexivity.
    - intros R HsL HsR HuL HuR.
      inversion HsL as [|dl' ls' HsL' HltL]; subst.
      inversion HuL as [|dl' ls' HuLh HuL']; subst.
      induction R as [|dr rs IHR].
      + rewrite tw3_nil_r. unfold spec_g. rewrite conflict_g_nil_r. reflexivity.
      + inversion HsR as [|dr' rs' HsR' HltR]; subst.
        inversion HuR as [|dr' rs' HuRh HuR']; subst.
        rewrite Forall_forall in HltL, HltR, HuLh, HuRh.
        rewrite tw3_cons. cbv zeta.
        destruct (kcmp (d_key dl) (d_key dr)) eqn:C.
        * (* same key *)
          cbn [andb]. pose proof (kcmp_eq _ _ C) as Hk.
          assert (Hrest : conflict_g (dl :: ls) (dr :: rs)
                          = (match same_key_step dl dr with None => true | Some _ => false end) || conflict_g ls rs).
          { rewrite conflict_g_cons_l. cbn [existsb]. unfold clash_g at 1. rewrite C.
            assert (H1 : existsb (clash_g dl) rs = false).
            { apply existsb_all_false. intros r Hr. unfold clash_g.
              pose proof (HltR r Hr) as Hlt. unfold klt in Hlt. rewrite Hk. rewrite Hlt.
              apply (HuRh r Hr). }
            rewrite H1, orb_false_r. rewrite conflict_g_cons_r.
            assert (H2 : existsb (fun l => clash_g l dr) ls = false).
            { apply existsb_all_false. intros l Hl. unfold clash_g.
              pose proof (HltL l Hl) as Hlt. unfold klt in Hlt. rewrite <- Hk.
              rewrite (kcmp_lt_gt _ _ Hlt). rewrite rel_sym. apply (HuLh l Hl). }
            rewrite H2. reflexivity. }
          unfold spec_g. rewrite Hrest.
          destruct (same_key_step dl dr) as [o|] eqn:SK; [|reflexivity].
          cbn [orb]. rewrite (same_key_step_op _ _ _ SK).
          rewrite (IHL rs HsL' HsR' HuL' HuR'). unfold spec_g.
          destruct (conflict_g ls rs); reflexivity.
        * (* left key first: the left edit only matters if it clashes with the current right edit *)
          cbn [andb].
          assert (Hnp : kprefix (d_key dl) (d_key dr) = false).
          { destruct (kprefix (d_key dl) (d_key dr)) eqn:P; [|reflexivity].
            apply kprefix_lt in P. rewrite kcmp_antisym, C in P. discriminate. }
          assert (Hcl : clash_g dl dr = ksame (d_key dl) (d_key dr) || kprefix (d_key dr) (d_key dl)).
          { unfold clash_g. rewrite C. unfold rel. rewrite Hnp, orb_false_r. reflexivity. }
          assert (Hrest : conflict_g (dl :: ls) (dr :: rs) = clash_g dl dr || conflict_g ls (dr :: rs)).
          { rewrite conflict_g_cons_l. cbn [existsb].
            destruct (clash_g dl dr) eqn:CL; [reflexivity|]. cbn [orb].
            assert (H1 : existsb (clash_g dl) rs = false).
            { apply existsb_all_false. intros r Hr. unfold clash_g.
              pose proof (HltR r Hr) as Hlt. unfold klt in Hlt.
              rewrite (kcmp_trans _ _ _ C Hlt).
              destruct (rel (d_key dl) (d_key r)) eqn:RR; [|reflexivity].
              pose proof (rel_convex _ _ _ C Hlt RR) as RC.
              unfold clash_g in CL. rewrite C in CL. congruence. }
            rewrite H1. reflexivity. }
          unfold spec_g. rewrite Hrest, Hcl.
          destruct (ksame (d_key dl) (d_key dr)); [reflexivity|]. cbn [orb].
          destruct (kprefix (d_key dr) (d_key dl)); [reflexivity|]. cbn [orb].
          rewrite (IHL (dr :: rs) HsL' HsR HuL' HuR). reflexivity.
        * (* right key first: the right edit is applied unless it clashes with the current left edit *)
          cbn [andb]. pose proof (kcmp_gt_lt _ _ C) as C'.
          assert (Hnp : kprefix (d_key dr) (d_key dl) = false).
          { destruct (kprefix (d_key dr) (d_key dl)) eqn:P; [|reflexivity].
            apply kprefix_lt in P. rewrite P in C. discriminate. }
          assert (Hcl : clash_g dl dr = ksame (d_key dl) (d_key dr) || kprefix (d_key dl) (d_key dr)).
          { unfold clash_g. rewrite C. unfold rel. rewrite Hnp, orb_false_r. reflexivity. }
          assert (Hrest : conflict_g (dl :: ls) (dr :: rs) = clash_g dl dr || conflict_g (dl :: ls) rs).
          { rewrite conflict_g_cons_r. cbn [existsb].
            destruct (clash_g dl dr) eqn:CL; [reflexivity|]. cbn [orb].
            assert (H1 : existsb (fun l => clash_g l dr) ls = false).
            { apply existsb_all_false. intros l Hl. unfold clash_g.
              pose proof (HltL l Hl) as Hlt. unfold klt in Hlt.
              rewrite (kcmp_lt_gt _ _ (kcmp_trans _ _ _ C' Hlt)).
              destruct (rel (d_key l) (d_key dr)) eqn:RR; [|reflexivity].
              rewrite rel_sym in RR.
              pose proof (rel_convex _ _ _ C' Hlt RR) as RC. rewrite rel_sym in RC.
              unfold clash_g in CL. rewrite C in CL. congruence. }
            rewrite H1. reflexivity. }
          unfold spec_g. rewrite Hrest, Hcl.
          destruct (ksame (d_key dl) (d_key dr)); [reflexivity|]. cbn [orb].
          destruct (kprefix (d_key dl) (d_key dr)); [reflexivity|]. cbn [orb].
          rewrite (IHR HsR' HuR'). unfold spec_g. cbn [map].
          destruct (conflict_g (dl :: ls) rs); reflexivity.
  Qed.
End ThreeWaySpec.

(* ------------------------------------------------------------------ *)
(* 3. The two facts about the index encoder, for uvarint.PutUvarint / varIntLength. *)
Lemma be_length k : forall v, length (be k v) = k.
Proof. induction k as [|k IH]; intros v; cbn [be length]; [reflexivity|]. rewrite IH. reflexivity. Qed.

Lemma varint_self_delimiting : forall n, exists b t, varint n = b :: t /\ length (b :: t) = varint_length b.
Proof.
  intros n. unfold varint.
  destruct (n <? 241) eqn:E1.
  { apply N.ltb_lt in E1. exists n, []. split; [reflexivity|]. unfold varint_length.
    destruct (n <=? 240) eqn:E; [reflexivity|]. apply N.leb_gt in E. lia. }
  destruct (n <? 2288) eqn:E2.
  { apply N.ltb_lt in E2. apply N.ltb_ge in E1.
    exists ((n - 240) / 256 + 241), [(n - 240) mod 256]. split; [reflexivity|].
    assert (Hq : (n - 240) / 256 < 8).
    { apply N.div_lt_upper_bound; [discriminate|]. change (256 * 8) with 2048. lia. }
    unfold varint_length. set (q := (n - 240) / 256) in *.
    destruct (q + 241 <=? 240) eqn:A; [apply N.leb_le in A; lia|].
    destruct (q + 241 <=? 248) eqn:B; [reflexivity|]. apply N.leb_gt in B. lia. }
  destruct (n <? 67824); [eexists _, _; split; [reflexivity|]; cbn [length]; rewrite be_length; reflexivity|].
  destruct (n <? 2 ^ 24); [eexists _, _; split; [reflexivity|]; cbn [length]; rewrite be_length; reflexivity|].
  destruct (n <? 2 ^ 32); [eexists _, _; split; [reflexivity|]; cbn [length]; rewrite be_length; reflexivity|].
  destruct (n <? 2 ^ 40); [eexists _, _; split; [reflexivity|]; cbn [length]; rewrite be_length; reflexivity|].
  destruct (n <? 2 ^ 48); [eexists _, _; split; [reflexivity|]; cbn [length]; rewrite be_length; reflexivity|].
  destruct (n <? 2 ^ 56); eexists _, _; (split; [reflexivity|]); cbn [length]; rewrite be_length; reflexivity.
Qed.

(* loc_order for the implementation's encoder; what remains a hypothesis is that the SQLite4 varint
   preserves order (the documented property of the format, checked on generated indexes across all
   nine length classes by the correspondence run). *)
Theorem loc_order_partial :
  (forall a b, lex_cmp (varint a) (varint b) = (a ?= b)) ->
  forall p q, Forall key_ok p -> Forall key_ok q ->
    cmp_keys_with varint_length (ekey p) (ekey q) = doc_cmp p q.
Proof.
  intros Hm p q Hp Hq. unfold ekey, doc_cmp.
  apply (loc_order_gen varint varint_length Hm varint_self_delimiting); assumption.
Qed.

Example loc_order_example :
  cmp_keys (ekey [PK k_a; PK k_x]) (ekey [PK k_ab]) = Lt /\ lex_cmp (ekey [PK k_a; PK k_x]) (ekey [PK k_ab]) = Gt.
Proof. vm_compute. split; reflexivity. Qed.

(* the side condition "no two edits of one side in one array" of three_way_spec_gen is needed:
   with a right side editing two elements of an array, the streaming differ misses the clash when the
   first of them is also made by the left side *)
Definition k_z : bytes := [122].
Theorem merge_json_refuted_same_array_convergent :
  exists b l r, wf_json b = true /\ wf_json l = true /\ wf_json r = true /\
    merge_spec b l r = MConflict /\
    merge_json b l r = MMerged (JObj [(k_z, JArr [JNum 9; JNum 2; JNum 7])]).
Proof.
  exists (JObj [(k_z, JArr [JNum 1; JNum 2])]), (JObj [(k_z, JArr [JNum 9; JNum 2])]),
         (JObj [(k_z, JArr [JNum 9; JNum 2; JNum 7])]).
  vm_compute. repeat split.
Qed.

(* non-vacuity of three_way_spec_gen's stream conditions: the edit streams of a clean merge *)
Example clean_merge_example :
  merge_json (JObj [(k_a, JNum 1); (k_b, JNum 1)]) (JObj [(k_a, JNum 2); (k_b, JNum 1)]) (JObj [(k_a, JNum 1); (k_b, JNum 3)])
  = MMerged (JObj [(k_a, JNum 2); (k_b, JNum 3)])
  /\ merge_spec (JObj [(k_a, JNum 1); (k_b, JNum 1)]) (JObj [(k_a, JNum 2); (k_b, JNum 1)]) (JObj [(k_a, JNum 1); (k_b, JNum 3)])
  = MMerged (JObj [(k_a, JNum 2); (k_b, JNum 3)]).
Proof. vm_compute. split; reflexivity. Qed.
