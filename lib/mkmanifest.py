#!/usr/bin/env python3
"""Regenerates /verif/MANIFEST.json from the metadata in props/*.py (one plugin per claimed property)."""
import glob, importlib, json, os, sys
ROOT = os.path.dirname(os.path.dirname(os.path.abspath(__file__)))
sys.path.insert(0, ROOT)
sys.path.insert(0, os.path.join(ROOT, "lib"))

BASELINE = json.load(open("/root/.vp/BASELINE.json"))["cmd"] if os.path.exists("/root/.vp/BASELINE.json") else ""
PENDING_REASON = {}


def main():
    props = [json.loads(l) for l in open(os.path.join(ROOT, "properties.jsonl"))]
    checks, na = [], []
    for pr in props:
        pid = pr["id"]
        path = os.path.join(ROOT, "props", pid.lower() + ".py")
        if not os.path.exists(path):
            na.append({"property_id": pid, "reason": "not claimed yet: the Coq model and correspondence harness planned in DESIGN.md §5 %s are not built in this revision" % pid})
            continue
        m = importlib.import_module("props." + pid.lower())
        checks.append({
            "property_id": pid,
            "quick_cmd": "./check %s --tier quick" % pid,
            "thorough_cmd": "./check %s --tier thorough" % pid,
            "evidence_file": "evidence/%s.json" % pid,
            "replay_cmd_template": "./check %s --replay {path}" % pid,
            "engine": "coq-proof+correspondence",
            "level_claimed": {"category": "proof", "text": m.LEVEL_TEXT, "design_ref": "DESIGN.md " + getattr(m, "DESIGN_REF", "§5 " + pid)},
            "level_note": m.LEVEL_NOTE,
            "technique": m.TECHNIQUE,
        })
    hooks_src = []
    try:
        import subprocess
        out = subprocess.run(["git", "-C", "/repo", "log", "--format=%H %s"], capture_output=True, text=True).stdout
        hooks_src = [l.split()[0] for l in out.splitlines() if " verif hook:" in l]
    except Exception:
        pass
    man = {
        "version": 1,
        "setup_cmd": "./check setup",
        "hooks": {
            "guard": "verif",
            "enable": "go build -tags verif (Go build tag; add-only files named verif_export.go with //go:build verif)",
            "baseline_off_cmd": BASELINE,
            "source_commits": hooks_src,
            "add_only": True,
        },
        "engines": [{
            "name": "coq-proof+correspondence", "path": "check",
            "serves_properties": [c["property_id"] for c in checks],
            "kind_free_text": "Coq 8.16.1 theorems over executable Gallina models (coq/theories), constants/tables regenerated from /repo by translator/, "
                              "model tied to the implementation by a Go harness (harness/, built from /repo with -tags verif) whose observations are compared "
                              "with the model and checked against the property's executable statement inside Coq (vm_compute)",
        }],
        "checks": checks,
        "not_applicable": na,
        "notes": "See DESIGN.md. VERIF_SEED seeds every generator; VERIF_TIER overrides --tier. known_findings.json lists recorded defects (never written at run time).",
    }
    with open(os.path.join(ROOT, "MANIFEST.json"), "w") as f:
        json.dump(man, f, indent=1)
    print("MANIFEST.json: %d checks, %d not claimed" % (len(checks), len(na)))


if __name__ == "__main__":
    main()
