#!/bin/bash
# lib/seedintake.sh ID [OFFSET] — store /tmp/seed-ID-out/{1,2} under seeded/ID-(n+OFFSET), drop the scratch worktree, run the check against each new patch
cd /verif; id=$1; off=${2:-0}; new=""
for n in 1 2; do [ -f /tmp/seed-$id-out/$n/patch.diff ] || continue; m=$((n+off)); mkdir -p seeded/$id-$m; cp /tmp/seed-$id-out/$n/patch.diff /tmp/seed-$id-out/$n/demo*_test.go /tmp/seed-$id-out/$n/README.md seeded/$id-$m/ 2>/dev/null; new="$new $m"; done
git -C /repo worktree remove --force /tmp/seed-$id >/dev/null 2>&1; rm -rf /tmp/seed-$id /tmp/seed-$id-out /tmp/seed-$id-tmp /tmp/seed-$id-*.log; git -C /repo worktree prune
for m in $new; do lib/seedtest.sh $id seeded/$id-$m/patch.diff > work/seedlogs/final/$id-$m.log 2>&1; done
for m in $new; do echo "$id-$m: $(grep -v '^\[\|^KNOWN' work/seedlogs/final/$id-$m.log | grep -E 'VIOLATION|^OK|MACHINERY|rc=|does not apply' | tail -2 | cut -c1-100 | tr '\n' ' ')"; done
