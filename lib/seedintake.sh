#!/bin/bash
# lib/seedintake.sh ID  — store /tmp/seed-ID-out/{1,2} under seeded/, drop the scratch worktree, run the check against each patch
cd /verif; id=$1
for n in 1 2; do [ -f /tmp/seed-$id-out/$n/patch.diff ] || continue; mkdir -p seeded/$id-$n; cp /tmp/seed-$id-out/$n/patch.diff /tmp/seed-$id-out/$n/demo*_test.go /tmp/seed-$id-out/$n/README.md seeded/$id-$n/ 2>/dev/null; done
git -C /repo worktree remove --force /tmp/seed-$id >/dev/null 2>&1; rm -rf /tmp/seed-$id /tmp/seed-$id-out /tmp/seed-$id-tmp /tmp/seed-$id-*.log; git -C /repo worktree prune
for n in 1 2; do [ -d seeded/$id-$n ] && lib/seedtest.sh $id seeded/$id-$n/patch.diff > work/seedlogs/final/$id-$n.log 2>&1; done
for n in 1 2; do [ -f work/seedlogs/final/$id-$n.log ] && echo "$id-$n: $(grep -v '^\[\|^KNOWN' work/seedlogs/final/$id-$n.log | grep -E 'VIOLATION|^OK|MACHINERY|rc=|does not apply' | tail -2 | cut -c1-100 | tr '\n' ' ')"; done
