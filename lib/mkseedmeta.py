#!/usr/bin/env python3
"""Writes seeded/<seed>/meta.json from the table below (kept by hand as seeds are confirmed and tested)."""
import json, os
ROOT = os.path.dirname(os.path.dirname(os.path.abspath(__file__)))
CONF = "lib/seedconfirm.sh (scratch worktree): builds with the patch, existing tests of the touched packages pass with it, the demo fails with it and passes without"
S = {
 "C01-1": dict(breaks="batched reads (getMany/getManyCompressed/findOffsets) use the offset/length of the FIRST entry of a same-prefix run for the later entries: a chunk labelled h is returned with another chunk's bytes (CRC passes)",
   needs="an 8-byte prefix collision inside one table file read through a batched path, with the returned bytes checked", first=True,
   by="./check C01: concrete replay — oracle (reads equal the abstract map; every API agrees) false on a generated history with colliding prefixes"),
 "C01-2": dict(breaks="tableReader.hasMany advances the shared cursor inside an equal-prefix run: a later request with the same prefix and a smaller suffix is reported absent although stored",
   needs="prefix collision and descending arrival order of same-prefix addresses in one HasMany batch (or a ghost address with the same prefix first)", first=True,
   by="./check C01: concrete replay — HasMany disagrees with Has/Get on a generated colliding-prefix history"),
 "C03-1": dict(breaks="the journal index lookup of the chunk that trips the 64 MiB intermediate sync is written after the index meta record: after reopen the chunk is in neither the index range nor the replayed tail — a reachable chunk is unreadable",
   needs="a non-committing write of > 64 MiB with a non-empty root and > maxNovel novel chunks, stop and reopen before the next meta record, read of exactly that chunk", first=True,
   by="./check C03: concrete replay (the model's index stream is compared byte for byte with journal.idx; theorem index_stream_covers is the invariant this breaks)"),
 "C03-2": dict(breaks="commitRootHashUnlocked fsyncs only when chunk bytes are unsynced: a commit consisting of a root record only is acknowledged with no fsync; a power loss loses an acknowledged commit",
   needs="a root-only commit (root A→B→A, commit right after another, first commit of a fresh journal) and a crash before any later fsync", first=False,
   missed="no durability-ordering observation: the check compared journal bytes and recovery, not whether fsync preceded the acknowledgement", by="pending: strace-based synced-before-ack observation being added to ./check C03"),
 "C05-1": dict(breaks="checkNewSpecsPresent returns early for a shrinking spec list: a conjoin / GC swap can publish a manifest naming a table file that a concurrent grace prune has unlinked",
   needs="a shrinking manifest update (conjoin N→1, GC to fewer files) whose new file was unlinked between landing and publish", first=None, by="pending re-test (first run hit an in-progress harness edit)"),
 "C05-2": dict(breaks="PruneUnreferencedWithGrace merges the manifest re-read under the LOCK into its keep set only if the ROOT changed: files published by another process with an unchanged root are unlinked",
   needs="two processes: B publishes a table file leaving the root unchanged; directory quiet longer than the grace period; A prunes without rebasing", first=None, by="pending re-test (harness now drives the real PruneUnreferencedWithGrace)"),
 "C11-1": None, "C11-2": None, "C44-1": None, "C44-2": None,
 "C12-1": dict(breaks="a pooled BlobBuilder that once wrote a taller blob gives later shallower multi-chunk blobs extra single-child root levels: same bytes, different root address",
   needs="one builder instance writes a ≥ 2-level blob and then a 1-level multi-chunk blob", first=True,
   by="./check C12: exit 1 — model≠impl on the blob routes bulk vs reuse; first reported as no-failing-input-found because the oracle did not flag differing roots between routes; oracle being strengthened"),
 "C12-2": dict(breaks="getNextAndSplitIfAtEnd splits an end-of-tree range patch only once: merging into a ≥ 3-level tree copies a last leaf that does not end on a content-defined boundary — right rows, non-canonical chunks and root",
   needs="right-hand tree with ≥ 3 levels, right's change confined to the last leaf, base ending on a leaf boundary, left appending rows", first=False,
   missed="generated trees had ≤ 2–3 levels without the last-leaf/append merge shape", by="pending: wide-key tall trees + last-leaf merge family being added to C12/C14"),
 "C14-1": dict(breaks="SendPatches treats a left point edit exactly on the END KEY of a right range patch as after the range: the range is sent unsplit and overwrites left's edit; no collision callback",
   needs="multi-chunk trees, left's chunk boundaries shifted, left's first edit inside the range is the range's last key (3 of 3000 random cases)", first=False,
   missed="generator not boundary-aware", by="pending: boundary-aware edit families being added to ./check C14"),
 "C14-2": dict(breaks="SendPatches leaves a right removal range unsplit when left ADDED a key inside it: left's insert is dropped with no collision",
   needs="right deletes the tail across ≥ 1 whole chunk; left inserts a new gap key inside a removed chunk with shifted boundaries (1 of 3000 random cases)", first=False,
   missed="generator not boundary-aware", by="pending: boundary-aware edit families being added to ./check C14"),
 "C15-1": dict(breaks="YEAR key fields compared on the raw storage byte: year 0 (stored as 255) sorts after 2155 instead of before 1901",
   needs="a YEAR key field holding 0 together with a non-zero year", first=True, by="./check C15: concrete replay — cmp_enc oracle false on a generated YEAR pair containing 0"),
 "C15-2": dict(breaks="TupleBuilder.BuildPrefix clears only the prefix slots: fields ≥ k written earlier leak into the next tuple built with the same builder",
   needs="populate > k fields, BuildPrefix(k), reuse the builder leaving such a field unset, Build", first=False,
   missed="correspondence built every tuple with a fresh/recycled builder; no builder histories", by="pending: builder state machine + histories being added to ./check C15"),
 "C38-1": dict(breaks="FoldExpression drops the escape handling for a backslash directly after '%': the escaped character is folded as a live wildcard (%\\%_ → %\\_%)",
   needs="a rule pattern with an unescaped % immediately followed by an escaped % or \\ followed by _ or %", first=True,
   by="./check C38: concrete replay — fold_sem oracle (LIKE meaning preserved by folding) false on a generated pattern"),
 "C38-2": dict(breaks="MatchNode.Remove absorbs the last remaining child into its parent even when the parent is itself a rule: the parent rule vanishes from the trie (still listed in rows)",
   needs="rule A plus rules B, C extending A's expression as A's only children; delete leaf C; query something A matches", first=False,
   missed="generator never built parent-is-a-rule families with deletes (the trie itself was not modelled at first)",
   by="./check C38 after strengthening: trie modelled (add_node/rem_node, theorem trie_denotes_history) + generator families of prefix-related rules with required shape tags → concrete replay"),
}
S["C11-1"] = json.load(open(os.path.join(ROOT, "seeded/C11-1/meta.json"))) if os.path.exists(os.path.join(ROOT, "seeded/C11-1/meta.json")) else None
for k, v in S.items():
    if v is None or "property" in v:
        continue
    d = {"property": k.split("-")[0], "breaks": v["breaks"], "needs_to_manifest": v["needs"], "confirmed": CONF,
         "detected_by": v["by"], "detected_initially": v["first"]}
    if v.get("missed"):
        d["missed_because"] = v["missed"]
    p = os.path.join(ROOT, "seeded", k)
    if os.path.isdir(p):
        json.dump(d, open(os.path.join(p, "meta.json"), "w"), indent=1)
print("seed metas written")
