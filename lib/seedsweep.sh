#!/bin/bash
# final sweep: lib/seedsweep.sh seed...  -> work/seedlogs/final/<seed>.log
cd /verif
for s in "$@"; do p=${s%-*}; lib/seedtest.sh $p seeded/$s/patch.diff > work/seedlogs/final/$s.log 2>&1; done
