"""Framework shared by all property checks (see DESIGN.md §1).

One check run:
  1. translator  : /repo source -> coq/theories/Gen/*.v      (rewritten only on change)
  2. make        : Properties/Cxx.vo (theorems) and Cxx/Corr.vo (executable model + oracle)
  3. go build    : harness binary from /repo's working tree with -tags verif
  4. cases       : corpus first, then generated from one PRNG (VERIF_SEED)
  5. harness     : implementation observations (JSONL)
  6. coqc        : cases.v — model run + oracle evaluated inside Coq (vm_compute)
  7. verdict     : agree & oracle true & obligations discharged -> exit 0
                   otherwise shrink / directed search -> VIOLATION line, exit 1
"""
import fcntl
import glob
import hashlib
import importlib
import json
import os
import random
import re
import shutil
import subprocess
import sys
import time

ROOT = os.path.dirname(os.path.dirname(os.path.abspath(__file__)))
REPO = os.environ.get("VERIF_REPO", "/repo")
COQ = os.path.join(ROOT, "coq")
THEORIES = os.path.join(COQ, "theories")
HARNESS = os.path.join(ROOT, "harness")
BIN = os.path.join(ROOT, "bin")
WORK = os.path.join(ROOT, "work")
EVID = os.path.join(ROOT, "evidence")
REPLAYS = os.path.join(ROOT, "replays")
CORPUS = os.path.join(ROOT, "corpus")
KNOWN = os.path.join(ROOT, "known_findings.json")

GATE_RE = re.compile(
    r"\bAdmitted\b|\badmit\b|\bAxiom\b|\bAxioms\b|\bParameter\b|\bParameters\b|\bConjecture\b|"
    r"Unset\s+Guard|bypass_check|type-in-type|impredicative-set|Admit\s+Obligations|"
    r"\bnative_compute\b|Unset\s+Positivity|Unset\s+Universe")


def goenv():
    e = dict(os.environ)
    e["GOFLAGS"] = "-mod=mod"
    e["GOPROXY"] = "off"
    e.pop("GOTOOLCHAIN", None) if e.get("GOTOOLCHAIN") == "local" else None
    e.pop("GOSUMDB", None) if e.get("GOSUMDB") == "off" else None
    return e


def sh(cmd, cwd=None, timeout=1200, env=None, inp=None):
    """Run a command, return (rc, stdout, stderr). rc=124 on timeout."""
    try:
        p = subprocess.run(cmd, cwd=cwd, env=env, input=inp, capture_output=True,
                           text=True, timeout=timeout, shell=isinstance(cmd, str))
        return p.returncode, p.stdout, p.stderr
    except subprocess.TimeoutExpired as ex:
        out = ex.stdout.decode() if isinstance(ex.stdout, bytes) else (ex.stdout or "")
        err = ex.stderr.decode() if isinstance(ex.stderr, bytes) else (ex.stderr or "")
        return 124, out, err + "\nTIMEOUT after %ss" % timeout


class BuildLock:
    """Serialises the build phases (translator, make, go build) of concurrent checks."""

    def __enter__(self):
        os.makedirs(WORK, exist_ok=True)
        self.f = open(os.path.join(WORK, ".buildlock"), "w")
        fcntl.flock(self.f, fcntl.LOCK_EX)
        return self

    def __exit__(self, *a):
        fcntl.flock(self.f, fcntl.LOCK_UN)
        self.f.close()


# --------------------------------------------------------------------------
# translator
# --------------------------------------------------------------------------
def build_translator():
    src = os.path.join(ROOT, "translator")
    out = os.path.join(BIN, "translator")
    os.makedirs(BIN, exist_ok=True)
    newest = max(os.path.getmtime(p) for p in glob.glob(src + "/*.go"))
    if os.path.exists(out) and os.path.getmtime(out) >= newest:
        return True, ""
    rc, o, e = sh(["go", "build", "-o", out, "."], cwd=src, env=goenv(), timeout=600)
    return rc == 0, o + e


def run_translator(units=None):
    ok, log = build_translator()
    if not ok:
        return False, "translator build failed:\n" + log
    cmd = [os.path.join(BIN, "translator"), "-repo", REPO, "-out", os.path.join(THEORIES, "Gen"),
           "-units", os.path.join(ROOT, "translator", "units")]
    if units:
        cmd += ["-only", ",".join(units)]
    rc, o, e = sh(cmd, timeout=120)
    return rc == 0, o + e


# --------------------------------------------------------------------------
# Coq
# --------------------------------------------------------------------------
def all_v_files():
    fs = []
    for d, _, names in os.walk(THEORIES):
        for n in names:
            if n.endswith(".v") and not n.startswith("."):
                fs.append(os.path.relpath(os.path.join(d, n), COQ))
    return sorted(fs)


def ensure_makefile():
    files = all_v_files()
    proj = "-Q theories Dolt\n-arg -w -arg -notation-overridden,-deprecated-hint-without-locality,-deprecated-instance-without-locality,-ambiguous-paths,-redundant-canonical-projection\n" + "\n".join(files) + "\n"
    pp = os.path.join(COQ, "_CoqProject")
    old = open(pp).read() if os.path.exists(pp) else ""
    mk = os.path.join(COQ, "Makefile")
    if old != proj or not os.path.exists(mk):
        with open(pp, "w") as f:
            f.write(proj)
        rc, o, e = sh(["coq_makefile", "-f", "_CoqProject", "-o", "Makefile"], cwd=COQ)
        if rc != 0:
            raise RuntimeError("coq_makefile failed: " + o + e)


def coq_make(targets, timeout=1500, jobs=16):
    """Build the given .vo targets (paths relative to coq/). Returns (ok, log)."""
    ensure_makefile()
    cmd = ["make", "-j%d" % jobs, "-f", "Makefile"] + list(targets)
    rc, o, e = sh(cmd, cwd=COQ, timeout=timeout)
    if rc == 124:
        # do not leave a runaway coqc behind (it would keep the CPU and, for callers holding it, the build lock)
        sh("pkill -f 'coqc.*-Q theories Dolt' || true", timeout=20)
    return rc == 0, (o + e)


def coq_cone(vfile):
    """Transitive in-project dependency cone of a .v file (paths relative to coq/)."""
    ensure_makefile()
    rc, o, e = sh(["coqdep", "-Q", "theories", "Dolt"] + all_v_files(), cwd=COQ, timeout=120)
    deps = {}
    for line in o.splitlines():
        if ":" not in line:
            continue
        lhs, rhs = line.split(":", 1)
        tgt = lhs.split()[0]
        if not tgt.endswith(".vo"):
            continue
        v = tgt[:-1]
        deps[v] = [d[:-1] for d in rhs.split() if d.endswith(".vo") and d.startswith("theories/")]
    seen, todo = [], [vfile]
    while todo:
        x = todo.pop()
        if x in seen:
            continue
        seen.append(x)
        todo.extend(deps.get(x, []))
    return sorted(seen)


QED_RE = re.compile(r"\b(Qed|Defined)\s*\.")


def count_obligations(vfiles):
    n = 0
    for v in vfiles:
        try:
            n += len(QED_RE.findall(strip_comments(open(os.path.join(COQ, v)).read())))
        except OSError:
            pass
    return n


def strip_comments(s):
    out, depth, i = [], 0, 0
    while i < len(s):
        if s.startswith("(*", i):
            depth += 1
            i += 2
        elif s.startswith("*)", i) and depth > 0:
            depth -= 1
            i += 2
        else:
            if depth == 0:
                out.append(s[i])
            i += 1
    return "".join(out)


def gate(vfiles):
    """Reject forbidden vernacular anywhere in the given files. Returns list of offences."""
    bad = []
    for v in vfiles:
        try:
            txt = strip_comments(open(os.path.join(COQ, v)).read())
        except OSError:
            continue
        for m in GATE_RE.finditer(txt):
            bad.append("%s: %s" % (v, m.group(0)))
        # Variable/Hypothesis outside a section
        depth = 0
        for line in txt.splitlines():
            t = line.strip()
            if re.match(r"(Section|Module)\b", t) and "Module Type" not in t and ":=" not in t:
                depth += 1
            elif re.match(r"End\s", t):
                depth = max(0, depth - 1)
            elif depth == 0 and re.match(r"(Variable|Variables|Hypothesis|Hypotheses|Context)\b", t):
                bad.append("%s: top-level %s" % (v, t[:40]))
    return bad


def coqc_capture(vpath_rel, timeout=600):
    """Compile one file of the project directly, capturing its output (Print Assumptions)."""
    rc, o, e = sh(["coqc", "-Q", "theories", "Dolt", "-w", "-notation-overridden", vpath_rel], cwd=COQ, timeout=timeout)
    return rc, o, e


def coq_eval(workdir, name, text, timeout=900):
    """Write work/<id>/<name>.v, compile with the project on the load path, return (rc, out, err)."""
    os.makedirs(workdir, exist_ok=True)
    p = os.path.join(workdir, name + ".v")
    with open(p, "w") as f:
        f.write(text)
    for ext in (".vo", ".glob", ".vok", ".vos"):
        try:
            os.remove(os.path.join(workdir, name + ext))
        except OSError:
            pass
    rc, o, e = sh(["coqc", "-Q", os.path.join(COQ, "theories"), "Dolt", "-w", "-notation-overridden", name + ".v"], cwd=workdir, timeout=timeout)
    return rc, o, e


def parse_verdicts(out):
    """Parse the printed value of a `list (N * N)` (index, code)."""
    flat = re.sub(r"\s+", " ", out)
    m = re.search(r"VERDICTS\s*=\s*(\[.*?\])\s*:", flat)
    if not m:
        return None
    body = m.group(1)
    return [(int(a), int(b)) for a, b in re.findall(r"\(\s*(\d+)(?:%N)?\s*,\s*(\d+)(?:%N)?\s*\)", body)]


# Coq term printers ---------------------------------------------------------
def cq_bytes(bs):
    return "[" + "; ".join(str(int(b)) for b in bs) + "]"


def cq_list(items):
    return "[" + "; ".join(items) + "]"


def cq_bool(b):
    return "true" if b else "false"


def cq_opt(x, f=str):
    return "None" if x is None else "(Some %s)" % f(x)


def cq_N(n):
    n = int(n)
    if n < 0:
        raise ValueError("negative N")
    return str(n)


def cq_Z(n):
    n = int(n)
    return "(%d)%%Z" % n


# --------------------------------------------------------------------------
# harness
# --------------------------------------------------------------------------
def harness_pkgs():
    out = []
    for d in sorted(os.listdir(HARNESS)):
        p = os.path.join(HARNESS, d)
        if os.path.isdir(p) and d not in ("cmd", "hk", "util") and glob.glob(p + "/*.go"):
            out.append(d)
    return out


def write_main(path, pkgs):
    os.makedirs(os.path.dirname(path), exist_ok=True)
    txt = "// GENERATED by lib/vlib.py — do not edit.\npackage main\n\nimport (\n\t\"verifharness/hk\"\n"
    for p in pkgs:
        txt += "\t_ \"verifharness/%s\"\n" % p
    txt += ")\n\nfunc main() { hk.Main() }\n"
    old = open(path).read() if os.path.exists(path) else ""
    if old != txt:
        with open(path, "w") as f:
            f.write(txt)


def build_harness(pkg, timeout=3000):
    """Build the harness from /repo's working tree with -tags verif.
    One binary per property (bin/h_<pkg>), so that a property whose own harness no longer
    compiles against a changed tree cannot break the other properties' checks."""
    os.makedirs(BIN, exist_ok=True)
    shutil.copyfile(os.path.join(REPO, "go", "go.sum"), os.path.join(HARNESS, "go.sum"))
    # the replace directive always points at the tree under check
    gm = os.path.join(HARNESS, "go.mod")
    txt = open(gm).read()
    new = re.sub(r"replace github.com/dolthub/dolt/go => \S+", "replace github.com/dolthub/dolt/go => " + os.path.join(REPO, "go"), txt)
    if new != txt:
        open(gm, "w").write(new)
    logs = ""
    write_main(os.path.join(HARNESS, "cmd", "h_" + pkg, "main.go"), [pkg])
    out = os.path.join(BIN, "h_" + pkg)
    rc, o, e = sh(["go", "build", "-trimpath", "-tags", "verif", "-o", out, "./cmd/h_" + pkg], cwd=HARNESS, env=goenv(), timeout=timeout)
    if rc == 0:
        return out, logs + o + e
    return None, logs + o + e


def run_harness(binary, runner, cases, timeout=1800, cwd=None, env=None):
    """Feed cases (list of JSON-able) to the harness; returns list of out dicts (same order)."""
    inp = "".join(json.dumps(c, separators=(",", ":")) + "\n" for c in cases)
    rc, o, e = sh([binary, runner], inp=inp, timeout=timeout, cwd=cwd, env=env)
    outs = []
    for line in o.splitlines():
        line = line.strip()
        if line.startswith("{"):
            try:
                outs.append(json.loads(line))
            except ValueError:
                pass
    if rc != 0 or len(outs) != len(cases):
        raise HarnessError("harness rc=%s, %d/%d observations\n%s" % (rc, len(outs), len(cases), e[-4000:]))
    return outs


class HarnessError(Exception):
    pass


# --------------------------------------------------------------------------
# known findings
# --------------------------------------------------------------------------
def load_known(prop):
    try:
        k = json.load(open(KNOWN))
    except (OSError, ValueError):
        return []
    return [f for f in k.get("findings", []) if f.get("property") == prop]


# --------------------------------------------------------------------------
# the generic check
# --------------------------------------------------------------------------
class Ctx:
    def __init__(self, plugin, tier, seed):
        self.p = plugin
        self.id = plugin.ID
        self.tier = tier
        self.seed = seed
        self.rng = random.Random(seed * 1000003 + int(hashlib.sha1(self.id.encode()).hexdigest()[:8], 16))
        self.work = os.path.join(WORK, self.id)
        self.t0 = time.time()
        self.notes = []
        self.violations = []   # list of dict(kind, replay, detail, no_input)
        self.known_seen = []
        os.makedirs(self.work, exist_ok=True)

    def log(self, *a):
        print("[%s %6.1fs]" % (self.id, time.time() - self.t0), *a, file=sys.stderr, flush=True)


def load_plugin(pid):
    sys.path.insert(0, ROOT)
    return importlib.import_module("props." + pid.lower())


def load_corpus(pid):
    out = []
    for p in sorted(glob.glob(os.path.join(CORPUS, pid, "*.json"))):
        try:
            c = json.load(open(p))
            out.append(c["case"] if isinstance(c, dict) and "case" in c and "obs" in c else c)
        except (OSError, ValueError):
            pass
    return out


def write_replay(ctx, n, payload):
    os.makedirs(REPLAYS, exist_ok=True)
    path = os.path.join(REPLAYS, "%s-%d-%d.json" % (ctx.id, ctx.seed, n))
    with open(path, "w") as f:
        json.dump(payload, f, indent=1, sort_keys=True)
    return path


def eval_cases(ctx, cases, outs, tag="cases", want_model=False):
    """Run model + oracle inside Coq over (case, impl observation) pairs.
    Returns dict index -> code (bit0: model != impl, bit1: oracle false on impl obs,
    bit2: the observation could not even be written as a term of the model's observation type,
    i.e. it lies outside the model's domain — counted as a correspondence mismatch),
    or raises CoqEvalError when nothing can be evaluated at all."""
    p = ctx.p
    codes = {}
    shard = getattr(p, "COQ_SHARD", 400)
    counter = [0]

    def run(idxs, depth):
        terms = []
        unprintable = []
        for i in idxs:
            try:
                terms.append("(%d, %s)" % (i, p.coq_case(cases[i], outs[i])))
            except Exception as ex:   # the plugin's printer rejected the observation
                unprintable.append(i)
                ctx.notes.append("case %d: observation not printable as a model term: %s" % (i, str(ex)[:200]))
        for i in unprintable:
            codes[i] = codes.get(i, 0) | 5
        if not terms:
            return
        txt = "From Coq Require Import NArith ZArith List Bool String.\nImport ListNotations.\n"
        txt += "From Dolt Require Import %s.\n" % p.COQ_CORR_MODULE
        txt += "Local Open Scope N_scope.\n"
        txt += "Definition cases : list (N * %s) :=\n  [%s].\n" % (p.COQ_CASE_TYPE, ";\n   ".join(terms))
        txt += ("Definition VERDICTS := Eval vm_compute in\n"
                "  filter (fun v => negb (N.eqb (snd v) 0)) (map (fun c => (fst c, %s (snd c))) cases).\n"
                "Print VERDICTS.\n") % p.COQ_CHECK
        if want_model and hasattr(p, "COQ_MODEL_OBS"):
            txt += "Eval vm_compute in map (fun c => (fst c, %s (snd c))) cases.\n" % p.COQ_MODEL_OBS
        counter[0] += 1
        name = "%s_%d" % (tag, counter[0])
        rc, o, e = coq_eval(ctx.work, name, txt, timeout=getattr(p, "COQ_EVAL_TIMEOUT", 900))
        v = parse_verdicts(o) if rc == 0 else None
        if v is None:
            live = [i for i in idxs if i not in unprintable]
            if len(live) > 1 and depth < 12 and "Corr" not in (e or "")[:0]:
                # isolate the offending case(s): a single ill-typed / out-of-domain term must not hide the others
                h = len(live) // 2
                run(live[:h], depth + 1)
                run(live[h:], depth + 1)
                return
            if len(live) == 1 and depth > 0:
                codes[live[0]] = codes.get(live[0], 0) | 5
                ctx.notes.append("case %d: coqc rejected the term: %s" % (live[0], (o + e)[-400:]))
                return
            raise CoqEvalError("coqc %s.v failed (rc=%d):\n%s" % (name, rc, (o + e)[-3000:]))
        for i, c in v:
            codes[i] = c
        if want_model:
            ctx.last_model_dump = o

    for s0 in range(0, len(cases), shard):
        run(list(range(s0, min(len(cases), s0 + shard))), 0)
    return codes


class CoqEvalError(Exception):
    pass


def known_match(ctx, case, out):
    """Does this failing case match an open known finding? Plugins decide via match_known."""
    for f in load_known(ctx.id):
        if not str(f.get("status", "")).startswith("open"):
            continue
        fn = getattr(ctx.p, "match_known", None)
        if fn and fn(f, case, out):
            return f
    return None


def shrink(ctx, binary, case, pred, budget=60):
    """Greedy shrink: plugin proposes smaller cases; keep the first that still satisfies pred."""
    cand_fn = getattr(ctx.p, "shrink_candidates", None)
    if not cand_fn:
        return case
    cur = case
    tries = 0
    progress = True
    while progress and tries < budget:
        progress = False
        for c in cand_fn(cur):
            tries += 1
            if tries > budget:
                break
            try:
                if pred(c):
                    cur = c
                    progress = True
                    break
            except Exception:
                continue
    return cur


def run_generic(ctx):
    p = ctx.p
    tier = ctx.tier
    ev = {"property_id": ctx.id, "tier": tier, "seed": ctx.seed, "level": "proof"}
    cov = {}
    obligations_ok = True
    broken = []   # names of broken obligations / correspondences

    prop_v = "theories/Properties/%s.v" % ctx.id
    corr_targets = list(getattr(p, "COQ_TARGETS", []))
    with BuildLock():
        ctx.log("translator")
        tok, tlog = run_translator()
        if not tok:
            ctx.notes.append("translator: " + tlog.strip()[-500:])
        if tier == "thorough" and os.environ.get("VERIF_NO_CLEAN") != "1":
            pass  # a clean rebuild is done once by `check thorough-prep`; see check script
        ctx.log("make", prop_v)
        ok_prop, mlog = coq_make([prop_v + "o"] , timeout=3000)
        if not ok_prop:
            obligations_ok = False
            m = re.findall(r'File "\./?([^"]+)", line (\d+)', mlog)
            where = ", ".join("%s:%s" % x for x in m[:3]) or "see log"
            broken.append("proof obligations of %s do not check (%s)" % (prop_v, where))
            ctx.notes.append(mlog[-3000:])
        ok_corr, clog = coq_make(corr_targets, timeout=3000) if corr_targets else (True, "")
        if not ok_corr:
            ctx.notes.append(clog[-3000:])
        cone = coq_cone(prop_v)
        if corr_targets:
            for t in corr_targets:
                cone = sorted(set(cone) | set(coq_cone(t[:-1])))
        g = gate(cone)
        if g:
            obligations_ok = False
            broken.append("gate: forbidden vernacular: " + "; ".join(g[:5]))
        n_obl = count_obligations(coq_cone(prop_v))
    ctx.log("harness build")
    binary, hlog = build_harness(p.HARNESS_PKG)
    # Print Assumptions of the property theorems
    assumptions_txt = ""
    if ok_prop:
        rc, o, e = coqc_capture(prop_v)
        assumptions_txt = o.strip()
        if rc != 0:
            obligations_ok = False
            broken.append("Properties file failed on direct compile")
    closed = [l for l in assumptions_txt.splitlines() if l.strip()]
    cov["obligations"] = n_obl
    cov["discharged"] = n_obl if (ok_prop and not g) else 0
    cov["checker_cmd"] = "cd /verif/coq && coq_makefile -f _CoqProject -o Makefile && make -j16 %so  (Coq 8.16.1 coqc; full .vo build); coqc %s (Print Assumptions)" % (prop_v, prop_v)
    tb = list(TRUSTED_BASE_COMMON) + list(getattr(p, "TRUSTED_BASE", []))
    tb.append("Print Assumptions output of %s: %s" % (prop_v, " | ".join(closed) if closed else "(not available: file did not compile)"))
    cov["trusted_base"] = tb
    cov["theorems"] = getattr(p, "THEOREMS", [])
    if getattr(p, "REFUTED", None):
        cov["refuted"] = p.REFUTED

    if tier == "thorough" and ok_prop:
        ck = coqchk(ctx.id)
        cov["coqchk"] = ck
        tb.append("coqchk (independent checker) on Dolt.Properties.%s: %s" % (ctx.id, ck.get("summary", "")))
        if not ck.get("ok"):
            obligations_ok = False
            broken.append("coqchk rejects Properties/%s.vo: %s" % (ctx.id, ck.get("summary", "")[:300]))

    if binary is None:
        # The harness does not compile against the current tree: correspondence cannot run.
        broken.append("correspondence harness does not build against /repo (API changed?)")
        ctx.notes.append(hlog[-3000:])
        return finish(ctx, ev, cov, [], [], {}, broken, corr_ran=False)

    if not ok_corr:
        broken.append("executable model/oracle (%s) does not compile" % ", ".join(corr_targets))
        return finish(ctx, ev, cov, [], [], {}, broken, corr_ran=False)

    # cases
    cases = load_corpus(ctx.id)
    n_corpus = len(cases)
    cases += p.gen_cases(ctx.rng, tier)
    ctx.log("harness run: %d cases (%d corpus)" % (len(cases), n_corpus))
    hrun = getattr(p, "run_impl", None)
    try:
        outs = hrun(ctx, binary, cases) if hrun else run_harness(binary, p.HARNESS_RUNNER, cases, timeout=getattr(p, "HARNESS_TIMEOUT", 1800))
    except HarnessError as ex:
        broken.append("harness run failed: " + str(ex)[:1500])
        return finish(ctx, ev, cov, cases, [], {}, broken, corr_ran=False)
    ctx.log("coq eval")
    try:
        codes = eval_cases(ctx, cases, outs)
    except CoqEvalError as ex:
        broken.append("model evaluation failed: " + str(ex)[:1500])
        return finish(ctx, ev, cov, cases, outs, {}, broken, corr_ran=False)
    ctx.binary = binary
    return finish(ctx, ev, cov, cases, outs, codes, broken, corr_ran=True)


def coqchk(pid, timeout=3000):
    """Thorough tier: re-check the compiled property file and everything it depends on with the
    independent checker, and record the axioms it reports. Cached per content hash of the .vo."""
    vo = os.path.join(THEORIES, "Properties", pid + ".vo")
    try:
        h = hashlib.sha1(open(vo, "rb").read()).hexdigest()
    except OSError:
        return {"ok": False, "summary": "no .vo"}
    cache = os.path.join(WORK, "coqchk_%s_%s.json" % (pid, h))
    if os.path.exists(cache):
        return json.load(open(cache))
    rc, o, e = sh(["coqchk", "-silent", "-o", "-Q", "theories", "Dolt", "Dolt.Properties." + pid], cwd=COQ, timeout=timeout)
    txt = (o + e).strip()
    m = re.search(r"CONTEXT SUMMARY.*", txt, re.S)
    res = {"ok": rc == 0, "rc": rc, "summary": re.sub(r"\s+", " ", (m.group(0) if m else txt[-1500:]))[:3000]}
    if rc == 0:
        with open(cache, "w") as f:
            json.dump(res, f)
    return res


TRUSTED_BASE_COMMON = [
    "Coq 8.16.1 kernel (coqc), vm_compute used in finite-sweep lemmas and in the correspondence evaluation; no native_compute",
    "no axioms declared by the development (gate greps Admitted/admit/Axiom/Parameter/Conjecture/Unset Guard/bypass_check/top-level Variable)",
    "translator /verif/translator (Go, go/ast): transcribes constants, tables and whitelisted straight-line integer functions into coq/theories/Gen; hard error outside its grammar",
    "correspondence check: model and oracle are evaluated inside Coq (vm_compute) on inputs/observations written by lib/vlib.py from the Go harness's JSON; the Go harness (built from /repo with -tags verif), the Python term printers and canonicalisers are trusted glue; no extraction is used by this check",
]


def finish(ctx, ev, cov, cases, outs, codes, broken, corr_ran):
    p = ctx.p
    # distribution / non-triviality
    tags_count = {}
    distinct = set()
    for i, c in enumerate(cases):
        o = outs[i] if i < len(outs) else None
        tags = p.classify(c, o) if hasattr(p, "classify") and o is not None else []
        for t in tags:
            tags_count[t] = tags_count.get(t, 0) + 1
        if tags and (not hasattr(p, "nontrivial") or p.nontrivial(c, o)):
            distinct.add(hashlib.sha1(json.dumps(c, sort_keys=True).encode()).hexdigest())
    mism = [i for i, c in codes.items() if c & 1]
    ofail = [i for i, c in codes.items() if c & 2]
    cov["correspondence"] = {
        "ran": corr_ran, "cases": len(cases), "mismatches": len(mism), "oracle_failures": len(ofail),
        "distribution": tags_count,
    }
    cov["evaluations"] = len(cases)
    cov["distinct_nontrivial"] = len(distinct)
    cov["rule"] = getattr(p, "RULE", "")
    cov["samples"] = [{"case": cases[i], "impl": outs[i].get("obs") if i < len(outs) else None} for i in range(min(3, len(cases)))]
    # machinery self-check: generator must reach its interesting branches
    machinery_broken = []
    if corr_ran:
        for t in getattr(p, "REQUIRED_TAGS", []):
            if tags_count.get(t, 0) == 0:
                machinery_broken.append("generator never hit interesting branch '%s'" % t)

    nrep = 0
    reported = []
    # 1. oracle failures on implementation observations: concrete violations
    seen_keys = set()
    for i in sorted(ofail):
        kf = known_match(ctx, cases[i], outs[i])
        if kf:
            if kf["key"] not in ctx.known_seen:
                ctx.known_seen.append(kf["key"])
                print("KNOWN-FINDING: property=%s %s" % (ctx.id, kf["what_fails"]))
            continue
        if len(reported) >= 5:
            continue
        case = cases[i]
        out = outs[i]
        if hasattr(p, "shrink_candidates") and getattr(ctx, "binary", None):
            def still_fails(c):
                o = run_harness(ctx.binary, p.HARNESS_RUNNER, [c])
                cd = eval_cases(ctx, [c], o, tag="shrink")
                return bool(cd.get(0, 0) & 2) and not known_match(ctx, c, o[0])
            case = shrink(ctx, ctx.binary, case, still_fails)
            if case is not cases[i]:
                out = run_harness(ctx.binary, p.HARNESS_RUNNER, [case])[0]
        key = json.dumps(case, sort_keys=True)
        if key in seen_keys:
            continue
        seen_keys.add(key)
        if len(reported) >= 5:
            continue
        path = write_replay(ctx, nrep, {"property": ctx.id, "kind": "oracle-failure-on-implementation",
                                        "case": case, "impl_observation": out,
                                        "explain": "the executable statement of the property (%s) is false on what the implementation returned for this input" % getattr(p, "COQ_CHECK", ""),
                                        "seed": ctx.seed, "tier": ctx.tier})
        nrep += 1
        reported.append("VIOLATION property=%s replay=%s" % (ctx.id, path))
    # 2. correspondence mismatches with oracle true, or broken obligations: search for a failing input
    mism_only = [i for i in sorted(mism) if i not in ofail]
    if (mism_only or broken) and not reported:
        found = None
        if corr_ran and getattr(ctx, "binary", None) and hasattr(p, "neighbours"):
            seeds = [cases[i] for i in mism_only[:5]] or cases[:3]
            neigh = []
            for s in seeds:
                neigh.extend(list(p.neighbours(s, ctx.rng))[:200])
            if hasattr(p, "search_cases"):
                neigh.extend(p.search_cases(ctx.rng))
            if neigh:
                try:
                    no = run_harness(ctx.binary, p.HARNESS_RUNNER, neigh)
                    cd = eval_cases(ctx, neigh, no, tag="search")
                    for j in sorted(cd):
                        if cd[j] & 2 and not known_match(ctx, neigh[j], no[j]):
                            found = (neigh[j], no[j])
                            break
                except (HarnessError, CoqEvalError) as ex:
                    ctx.notes.append("search failed: " + str(ex)[:500])
        if found:
            path = write_replay(ctx, nrep, {"property": ctx.id, "kind": "failing-input-found-by-search",
                                            "case": found[0], "impl_observation": found[1],
                                            "broken": broken, "seed": ctx.seed, "tier": ctx.tier})
            reported.append("VIOLATION property=%s replay=%s" % (ctx.id, path))
        else:
            what = list(broken)
            samples = []
            for i in mism_only[:3]:
                samples.append({"case": cases[i], "impl_observation": outs[i]})
            if mism_only:
                what.append("correspondence %s: model and implementation disagree on %d of %d cases" % (getattr(p, "COQ_CHECK", ""), len(mism_only), len(cases)))
            model_dump = ""
            if mism_only and corr_ran:
                try:
                    eval_cases(ctx, [cases[i] for i in mism_only[:3]], [outs[i] for i in mism_only[:3]], tag="dump", want_model=True)
                    model_dump = getattr(ctx, "last_model_dump", "")[-4000:]
                except CoqEvalError:
                    pass
            path = write_replay(ctx, nrep, {"property": ctx.id, "kind": "no-failing-input-found",
                                            "no_longer_checks": what, "mismatching_cases": samples,
                                            "model_output": model_dump, "notes": ctx.notes[-3:],
                                            "seed": ctx.seed, "tier": ctx.tier})
            reported.append("VIOLATION property=%s replay=%s no-failing-input-found" % (ctx.id, path))
    # open known findings whose witness is replayed by the plugin itself
    ev["coverage"] = cov
    ev["assumptions"] = getattr(p, "ASSUMPTIONS", [])
    ev["violations"] = len(reported)
    ev["wall_s"] = round(time.time() - ctx.t0, 2)
    cov["known_findings_seen"] = ctx.known_seen
    cov["machinery_problems"] = machinery_broken
    cov["explanation"] = getattr(p, "EXPLANATION", "")
    os.makedirs(EVID, exist_ok=True)
    with open(os.path.join(EVID, ctx.id + ".json"), "w") as f:
        json.dump(ev, f, indent=1, sort_keys=True)
    for line in reported:
        print(line)
    if reported:
        # a reported violation takes precedence: a broken implementation can also starve generator tags
        return 1
    if machinery_broken:
        for m in machinery_broken:
            print("MACHINERY-BROKEN: property=%s %s" % (ctx.id, m), file=sys.stderr)
        return 2
    print("OK property=%s tier=%s cases=%d obligations=%d wall=%.1fs" % (ctx.id, ctx.tier, len(cases), cov.get("obligations", 0), ev["wall_s"]))
    return 0


def run_replay(ctx, path):
    p = ctx.p
    r = json.load(open(path))
    if r.get("kind") == "no-failing-input-found" and not r.get("mismatching_cases"):
        print("replay names a broken obligation, re-running the check")
        return run_generic(ctx)
    cases = [r["case"]] if "case" in r else [m["case"] for m in r.get("mismatching_cases", [])]
    with BuildLock():
        run_translator()
        coq_make(list(getattr(p, "COQ_TARGETS", [])))
        binary, hlog = build_harness(p.HARNESS_PKG)
    if binary is None:
        print("harness does not build:\n" + hlog[-2000:])
        return 2
    hrun = getattr(p, "run_impl", None)
    outs = hrun(ctx, binary, cases) if hrun else run_harness(binary, p.HARNESS_RUNNER, cases)
    codes = eval_cases(ctx, cases, outs, tag="replay", want_model=True)
    for i, c in enumerate(cases):
        print(json.dumps({"case": c, "impl": outs[i], "code": codes.get(i, 0),
                          "meaning": "bit0: model!=impl, bit1: property oracle false on impl observation"}))
    bad = any(v & 2 for v in codes.values())
    if bad:
        print("VIOLATION property=%s replay=%s" % (ctx.id, path))
        return 1
    if any(v & 1 for v in codes.values()):
        print("VIOLATION property=%s replay=%s no-failing-input-found" % (ctx.id, path))
        return 1
    print("replay: property holds on this input")
    return 0
