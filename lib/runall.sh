#!/bin/bash
# lib/runall.sh [ids...]  — runs quick checks sequentially, writes work/status.tsv (id, rc, wall, last line)
cd /verif; mkdir -p work
IDS="$@"; [ -z "$IDS" ] && IDS=$(ls props/c[0-9]*.py | sed 's#props/c##; s#.py##' | sed 's/^/C/')
for p in $IDS; do
  s=$(date +%s); out=$(timeout 3000 ./check $p 2>/dev/null); rc=$?; e=$(date +%s)
  echo -e "$p\t$rc\t$((e-s))\t$(echo "$out" | grep -c KNOWN-FINDING)\t$(echo "$out" | grep -v KNOWN-FINDING | tail -1)" >> work/status.tsv
done
echo finished >> work/status.tsv
