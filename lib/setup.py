"""MANIFEST.setup_cmd: build everything from files on disk, offline."""
import os, sys, time
import vlib


def main():
    t0 = time.time()
    with vlib.BuildLock():
        ok, log = vlib.run_translator()
        print("translator:", "ok" if ok else "FAILED\n" + log)
        vlib.ensure_makefile()
        ok2, mlog = vlib.coq_make([], timeout=6000)   # default target: everything
        print("coq make:", "ok" if ok2 else "FAILED\n" + mlog[-3000:])
        pk = vlib.harness_pkgs()
        b, hlog = vlib.build_harness(pk[0]) if pk else ("", "")
        print("harness:", "ok" if b else "FAILED\n" + hlog[-3000:])
    print("setup wall %.1fs" % (time.time() - t0))
    # setup itself succeeds even when a proof is broken: the per-property check reports it
    return 0 if b is not None else 1


if __name__ == "__main__":
    sys.exit(main())
