"""MANIFEST.setup_cmd: build everything from files on disk, offline."""
import os, sys, time
import vlib


def main():
    t0 = time.time()
    with vlib.BuildLock():
        ok, log = vlib.run_translator()
        print("translator:", "ok" if ok else "FAILED\n" + log)
        vlib.ensure_makefile()
        ok2, mlog = vlib.coq_make([], timeout=6000)   # default target: everything
        print("coq make:", "ok" if ok2 else "FAILED\n" + mlog[-3000:])
        pk = vlib.harness_pkgs()
        import os, shutil
        shutil.copyfile(os.path.join(vlib.REPO, "go", "go.sum"), os.path.join(vlib.HARNESS, "go.sum"))
        for p in pk:
            vlib.write_main(os.path.join(vlib.HARNESS, "cmd", "h_" + p, "main.go"), [p])
        os.makedirs(vlib.BIN, exist_ok=True)
        # all harness binaries in one go invocation (compiles shared packages once, links in parallel)
        rc, o, e = vlib.sh(["go", "build", "-trimpath", "-tags", "verif", "-o", vlib.BIN + "/"] + ["./cmd/h_" + p for p in pk],
                           cwd=vlib.HARNESS, env=vlib.goenv(), timeout=6000)
        b = "all"
        if rc != 0:
            print("combined harness build failed, building one by one:\n" + (o + e)[-2000:])
            for p in pk:
                b1, hlog = vlib.build_harness(p)
                print("harness %s:" % p, "ok" if b1 else "FAILED\n" + hlog[-1500:])
        print("harness: done")
    print("setup wall %.1fs" % (time.time() - t0))
    # setup itself succeeds even when a proof is broken: the per-property check reports it
    return 0 if b is not None else 1


if __name__ == "__main__":
    sys.exit(main())
