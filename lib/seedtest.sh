#!/bin/bash
# Run one property's check against a seeded change without touching /repo:
#   lib/seedtest.sh Cxx /path/to/patch.diff [tier]
# Makes a scratch worktree of /repo with the patch applied and a scratch copy of /verif
# (own work/, evidence/, replays/, bin/, .vo files) whose checks run with VERIF_REPO=<worktree>.
# Prints the check output; exit status is the check's. Everything is removed afterwards.
set -u
PROP=$1; PATCH=$(readlink -f "$2"); TIER=${3:-quick}
WT=$(mktemp -d /tmp/seedwt-XXXXXX); VC=$(mktemp -d /tmp/seedverif-XXXXXX)
cleanup() { git -C /repo worktree remove --force "$WT" >/dev/null 2>&1; rm -rf "$WT" "$VC"; git -C /repo worktree prune; }
trap cleanup EXIT
rmdir "$WT"
git -C /repo worktree add -q --detach "$WT" HEAD || exit 3
# bring over uncommitted add-only hook files (verif_export*.go) that agents may not have committed yet
(cd /repo && git ls-files --others --exclude-standard | grep 'verif_export' | while read f; do mkdir -p "$WT/$(dirname $f)"; cp "$f" "$WT/$f"; done)
git -C "$WT" apply "$PATCH" || { echo "patch does not apply"; exit 3; }
rsync -a --exclude .git --exclude work --exclude replays --exclude evidence --exclude "bin/h_*" /verif/ "$VC"/
cd "$VC" && VERIF_REPO="$WT" ./check "$PROP" --tier "$TIER"
RC=$?
echo "--- seedtest rc=$RC"
SEEDNAME=$(basename "$(dirname "$PATCH")")
if ls "$VC"/replays/* >/dev/null 2>&1; then mkdir -p /verif/work/seedtest/"$SEEDNAME"; rm -f /verif/work/seedtest/"$SEEDNAME"/*.json; cp "$VC"/replays/* /verif/work/seedtest/"$SEEDNAME"/ 2>/dev/null; echo "replays copied to /verif/work/seedtest/$SEEDNAME/"; fi
exit $RC
