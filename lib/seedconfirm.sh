#!/bin/bash
# Confirm a seeded change in a scratch worktree:
#   lib/seedconfirm.sh <seed dir with patch.diff + demo_test.go> <go pkg dir rel. to go/ for the demo> <demo test regex> <pkgs to run existing tests in ...>
# Prints: build ok?, existing tests ok with patch?, demo fails with patch?, demo passes without?
set -u
SD=$(readlink -f "$1"); PKG=$2; RX=$3; shift 3; PKGS="$@"
WT=$(mktemp -d /tmp/seedconf-XXXXXX); rmdir "$WT"
git -C /repo worktree add -q --detach "$WT" HEAD || exit 3
trap 'git -C /repo worktree remove --force "$WT" >/dev/null 2>&1; rm -rf "$WT"; git -C /repo worktree prune' EXIT
export GOFLAGS=-mod=mod GOPROXY=off
TP=-trimpath; [ "${NO_TRIMPATH:-0}" = 1 ] && TP=""
cd "$WT/go"
git -C "$WT" apply "$SD/patch.diff" || { echo "APPLY-FAILED"; exit 3; }
go build $TP $PKGS ./$PKG/ >/dev/null 2>&1 && echo "build-with-patch: ok" || echo "build-with-patch: FAILED"
go test $TP -vet=off -count=1 -timeout 90m -skip "TestFileManifestUpdate|TestFindPrefix|TestPullTableFileWriter|TestGitRemoteFactory_TwoClients|TestSignAndVerifyCommit" $PKGS 2>&1 | grep -v "no test files" | tail -8; echo "existing-tests-with-patch rc=${PIPESTATUS[0]}"
for f in "$SD"/demo*_test.go; do cp "$f" "$PKG/zz_$(basename $f)"; done
go test $TP -vet=off -count=1 -run "$RX" ./$PKG/ >/tmp/seedconf.$$ 2>&1; echo "demo-with-patch rc=$? (expect non-zero)"; tail -3 /tmp/seedconf.$$
git -C "$WT" apply -R "$SD/patch.diff"
go test $TP -vet=off -count=1 -run "$RX" ./$PKG/ >/tmp/seedconf.$$ 2>&1; echo "demo-without-patch rc=$? (expect 0)"; tail -2 /tmp/seedconf.$$; rm -f /tmp/seedconf.$$
