#!/bin/bash
# lib/coqchk_all.sh — re-check every compiled Properties/Cxx.vo (and all they depend on) with the independent checker coqchk,
# eight groups in parallel; writes coq/COQCHK.md. Needs a completed build (./check setup).
cd /verif/coq; mkdir -p /verif/work/coqchk_all; rm -f /verif/work/coqchk_all/g*.txt
i=0
for g in "C01 C02 C03 C04 C05 C06" "C07 C08 C09 C10 C11 C12" "C13 C14 C15 C16 C17 C18" "C19 C20 C21 C22 C23 C24" "C25 C26 C27 C28 C29 C30" "C31 C32 C33 C34 C35 C36" "C37 C38 C39 C40 C41 C42" "C43 C44 C45 C46 C47"; do
  i=$((i+1)); mods=$(for p in $g; do echo -n "Dolt.Properties.$p "; done)
  (s=$(date +%s); timeout 4200 coqchk -silent -o -Q theories Dolt $mods > /verif/work/coqchk_all/g$i.txt 2>&1; echo "rc=$? secs=$(( $(date +%s)-s )) mods=$g" >> /verif/work/coqchk_all/g$i.txt) &
done
wait
{ echo "# coqchk over all property files (lib/coqchk_all.sh, $(date -u +%Y-%m-%dT%H:%MZ), verif commit $(git -C /verif rev-parse --short HEAD))"; echo
  echo '`coqchk -silent -o -Q theories Dolt Dolt.Properties.Cxx …` per group; the context summary of each group follows.'; echo
  for f in /verif/work/coqchk_all/g*.txt; do echo '```'; grep -v '^\s*$' $f; echo '```'; done; } > COQCHK.md
grep -h "^rc=" /verif/work/coqchk_all/g*.txt
