#!/bin/bash
# lib/seedall.sh <mode: test|confirm> seed...   — sequential; logs under work/seedlogs
cd /verif
declare -A PKG TESTS
PKG[C05]=store/nbs; TESTS[C05]="./store/nbs/"
PKG[C12]=store/prolly/tree; TESTS[C12]="./store/prolly/..."
PKG[C14]=store/prolly; TESTS[C14]="./store/prolly/..."
PKG[C15]=store/val; TESTS[C15]="./store/val/"
PKG[C19-1]=store/datas; TESTS[C19-1]="./store/datas/"
PKG[C19-2]=libraries/doltcore/doltdb; TESTS[C19-2]="./libraries/doltcore/doltdb/"
PKG[C29]=libraries/doltcore/merge; TESTS[C29]="./libraries/doltcore/merge/"
PKG[C46]=libraries/doltcore/doltdb; TESTS[C46]="./libraries/doltcore/doltdb/"
PKG[C23]=libraries/doltcore/sqle/enginetest; TESTS[C23]="./libraries/doltcore/sqle/dsess/"
PKG[C06]=store/nbs; TESTS[C06]="./store/nbs/"
PKG[C07]=store/nbs; TESTS[C07]="./store/nbs/"
PKG[C09-1]=store/datas; TESTS[C09-1]="./store/datas/ ./store/types/"
PKG[C09-2]=store/prolly/message; TESTS[C09-2]="./store/prolly/message/"
PKG[C10]=store/nbs; TESTS[C10]="./store/nbs/"
PKG[C13]=store/prolly; TESTS[C13]="./store/prolly/"
PKG[C16]=store/prolly/tree; TESTS[C16]="./store/prolly/tree/"
PKG[C18]=store/datas; TESTS[C18]="./store/datas/"
PKG[C20]=store/datas; TESTS[C20]="./store/datas/"
PKG[C25]=libraries/doltcore/sqle/enginetest; TESTS[C25]="./libraries/doltcore/merge/"
PKG[C27]=libraries/doltcore/sqle/enginetest; TESTS[C27]="./libraries/doltcore/sqle/index/"
PKG[C31]=libraries/doltcore/sqle/enginetest; TESTS[C31]="./libraries/doltcore/rebase/"
PKG[C32]=libraries/doltcore/sqle/enginetest; TESTS[C32]="./libraries/doltcore/sqle/sqlfmt/"
PKG[C35-1]=store/datas; TESTS[C35-1]="./store/datas/"
PKG[C35-2]=libraries/doltcore/remotesrv; TESTS[C35-2]="./libraries/doltcore/remotesrv/"
PKG[C39]=libraries/doltcore/remotesrv; TESTS[C39]="./libraries/doltcore/remotesrv/"
PKG[C40]=libraries/doltcore/sqle/binlogreplication; TESTS[C40]="./libraries/doltcore/sqle/kvexec/"
PKG[C42]=store/blobstore; TESTS[C42]="./store/chunks/"
PKG[C47]=libraries/doltcore/sqle; TESTS[C47]="./libraries/doltcore/sqle/dsess/"
PKG[C02]=store/nbs; TESTS[C02]="./store/chunks/"
PKG[C08-1]=libraries/doltcore/doltdb; TESTS[C08-1]="./libraries/doltcore/doltdb/gcctx/"
PKG[C08-2]=store/types; TESTS[C08-2]="./store/types/"
PKG[C17-1]=libraries/doltcore/merge; TESTS[C17-1]="./store/prolly/tree/"
PKG[C17-2]=store/prolly/tree; TESTS[C17-2]="./store/prolly/tree/"
PKG[C26]=libraries/doltcore/sqle/kvexec; TESTS[C26]="./libraries/doltcore/sqle/kvexec/"
PKG[C34-1]=libraries/doltcore/sqle/integration_test; TESTS[C34-1]="./libraries/doltcore/env/actions/"
PKG[C34-2]=libraries/doltcore/sqle/enginetest; TESTS[C34-2]="./libraries/doltcore/env/actions/"
PKG[C04]=store/nbs; TESTS[C04]="./store/nbs/"
PKG[C21-1]=store/datas; TESTS[C21-1]="./store/datas/"
PKG[C21-2]=libraries/doltcore/doltdb; TESTS[C21-2]="./libraries/doltcore/doltdb/"
PKG[C22]=libraries/doltcore/sqle/enginetest; TESTS[C22]="./libraries/doltcore/doltdb/"
PKG[C24]=libraries/doltcore/sqle/enginetest; TESTS[C24]="./libraries/doltcore/merge/"
PKG[C28-1]=libraries/doltcore/sqle/dsess; TESTS[C28-1]="./libraries/doltcore/sqle/dsess/"
PKG[C28-2]=libraries/doltcore/sqle/enginetest; TESTS[C28-2]="./libraries/doltcore/sqle/dsess/"
PKG[C30]=store/prolly; TESTS[C30]="./store/prolly/..."
PKG[C33]=libraries/doltcore/sqle/enginetest; TESTS[C33]="./libraries/doltcore/sqle/"
PKG[C36-1]=libraries/doltcore/sqle/sqlfmt; TESTS[C36-1]="./libraries/doltcore/sqle/sqlfmt/"
PKG[C36-2]=libraries/doltcore/table/untyped/sqlexport; TESTS[C36-2]="./libraries/doltcore/table/untyped/sqlexport/"
PKG[C37]=libraries/doltcore/doltdb; TESTS[C37]="./libraries/doltcore/doltdb/"
PKG[C43]=libraries/doltcore/sqle/enginetest; TESTS[C43]="./libraries/doltcore/sqle/dprocedures/"
PKG[C22-2]=libraries/doltcore/sqle/enginetest; TESTS[C22-2]="./libraries/doltcore/sqle/dsess/"
PKG[C37-2]=libraries/doltcore/schema/encoding; TESTS[C37-2]="./libraries/doltcore/schema/... ./libraries/doltcore/sqle/enginetest/"
PKG[C41]=store/nbs; TESTS[C41]="./store/nbs/"
PKG[C45-1]=libraries/doltcore/sqle/cluster; TESTS[C45-1]="./libraries/doltcore/sqle/cluster/"
PKG[C45-2]=libraries/doltcore/sqle; TESTS[C45-2]="./libraries/doltcore/sqle/"
mode=$1; shift
for s in "$@"; do
  p=${s%-*}
  if [ "$mode" = test ]; then
    lib/seedtest.sh $p seeded/$s/patch.diff > work/seedlogs/test_$s.log 2>&1
  else
    k=$s; [ -z "${PKG[$k]:-}" ] && k=$p
    lib/seedconfirm.sh seeded/$s ${PKG[$k]} 'TestSeed|TestC[0-9]+Seed|TestC44|TestDemoC|TestC[0-9]+[A-Z]' ${TESTS[$k]} > work/seedlogs/confirm_$s.log 2>&1
  fi
done
echo done >> work/seedlogs/${mode}_all_done
