#!/bin/bash
# lib/seedall.sh <mode: test|confirm> seed...   — sequential; logs under work/seedlogs
cd /verif
declare -A PKG TESTS
PKG[C05]=store/nbs; TESTS[C05]="./store/nbs/"
PKG[C12]=store/prolly/tree; TESTS[C12]="./store/prolly/..."
PKG[C14]=store/prolly; TESTS[C14]="./store/prolly/..."
PKG[C15]=store/val; TESTS[C15]="./store/val/"
PKG[C19-1]=store/datas; TESTS[C19-1]="./store/datas/"
PKG[C19-2]=libraries/doltcore/doltdb; TESTS[C19-2]="./libraries/doltcore/doltdb/"
PKG[C29]=libraries/doltcore/merge; TESTS[C29]="./libraries/doltcore/merge/"
PKG[C46]=libraries/doltcore/doltdb; TESTS[C46]="./libraries/doltcore/doltdb/"
PKG[C23]=libraries/doltcore/sqle/enginetest; TESTS[C23]="./libraries/doltcore/sqle/dsess/"
mode=$1; shift
for s in "$@"; do
  p=${s%-*}
  if [ "$mode" = test ]; then
    lib/seedtest.sh $p seeded/$s/patch.diff > work/seedlogs/test_$s.log 2>&1
    mkdir -p work/seedtest/$s; mv work/seedtest/*.json work/seedtest/$s/ 2>/dev/null
  else
    k=$s; [ -z "${PKG[$k]:-}" ] && k=$p
    lib/seedconfirm.sh seeded/$s ${PKG[$k]} 'TestSeed|TestC19Seed|TestC44' ${TESTS[$k]} > work/seedlogs/confirm_$s.log 2>&1
  fi
done
echo done >> work/seedlogs/${mode}_all_done
