// Package c14: three-way merge is key-wise (property C14).
//
// One case = (base, left, right) as key->value lists plus a collision-handler
// mode. The real prolly.MergeMaps (PatchGenerator + SendPatches + ApplyPatches)
// and tree.ThreeWayDiffer are run on the three real maps with a recording
// handler.
package c14

import (
	"context"
	"encoding/json"
	"errors"
	"io"
	"math/rand"

	"github.com/dolthub/go-mysql-server/sql"

	"github.com/dolthub/dolt/go/store/hash"
	"github.com/dolthub/dolt/go/store/prolly"
	"github.com/dolthub/dolt/go/store/prolly/tree"
	"github.com/dolthub/dolt/go/store/val"

	"verifharness/hk"
)

func init() { hk.Register("c14", Run) }

type Case struct {
	Base  [][2]int64 `json:"base"`
	Left  [][2]int64 `json:"left"`
	Right [][2]int64 `json:"right"`
	Mode  int        `json:"mode"`
	Pad   int        `json:"pad"` // extra bytes in every value (more chunks per entry)
	// boundary-aware scenarios: the harness builds (base, left, right) itself from the chunk
	// boundaries of a first bulk tree (all random choices from Seed) and reports them in Obs.In
	Scen  string `json:"scen"`
	Seed  int64  `json:"seed"`
	N     int    `json:"n"`
	KPad  int    `json:"kpad"` // > 0: wide keys (int, pad bytes): fan-out about 4 on every level
	Shift int    `json:"shift"`
}

type In struct {
	Base  [][2]int64 `json:"base"`
	Left  [][2]int64 `json:"left"`
	Right [][2]int64 `json:"right"`
}

type Op struct {
	Key    int64  `json:"k"`
	Op     int    `json:"op"`
	Right  *int64 `json:"r"`
	Merged *int64 `json:"m"`
}

type Call struct {
	Key   *int64 `json:"k,omitempty"`
	Base  *int64 `json:"b"`
	Left  *int64 `json:"l"`
	Right *int64 `json:"r"`
}

// one patch of the stream tree.SendPatches really sent
type PatchObs struct {
	Level int        `json:"lvl"`
	Key   int64      `json:"k"`            // Level 0: EndKey; Level > 0: EndKey (inclusive upper bound)
	To    *int64     `json:"to"`           // Level 0: new value (nil = delete)
	Lo    *int64     `json:"lo"`           // Level > 0: KeyBelowStart (nil = from the very first key)
	Cont  [][2]int64 `json:"c,omitempty"`  // Level > 0: the entries of the subtree the patch points to
}

type Obs struct {
	In      *In    `json:"in,omitempty"`
	RHeight int    `json:"rheight"` // height of the right-hand tree
	Note    string `json:"note,omitempty"`
	Stream []PatchObs `json:"stream"`
	DOps   []Op       `json:"dops"`
	DCalls []Call     `json:"dcalls"`
	PRes   [][2]int64 `json:"pres"`
	PCalls []Call     `json:"pcalls"`
	PCanon bool       `json:"pcanon"`
	Height int        `json:"height"`
	Chunks int        `json:"chunks"`
}

var ctx = context.Background()
var kdPlain = val.NewTupleDescriptor(val.Type{Enc: val.Int64Enc})
var kdWide = val.NewTupleDescriptor(val.Type{Enc: val.Int64Enc}, val.Type{Enc: val.ByteStringEnc})
var kd = kdPlain
var keyPad = 0
var vd = val.NewTupleDescriptor(val.Type{Enc: val.Int64Enc}, val.Type{Enc: val.ByteStringEnc, Nullable: true})

func key(ns tree.NodeStore, k int64) val.Tuple {
	b := val.NewTupleBuilder(kd, ns)
	b.PutInt64(0, k)
	if keyPad > 0 {
		p := make([]byte, keyPad)
		for i := range p {
			p[i] = byte(k*7 + int64(i)*13)
		}
		b.PutByteString(1, p)
	}
	t, err := b.Build(ctx, ns.Pool())
	if err != nil {
		panic(err)
	}
	return t
}

func value(ns tree.NodeStore, v int64, pad int) val.Tuple {
	b := val.NewTupleBuilder(vd, ns)
	b.PutInt64(0, v)
	if pad > 0 {
		p := make([]byte, pad)
		for i := range p {
			p[i] = byte(v + int64(i))
		}
		b.PutByteString(1, p)
	}
	t, err := b.Build(ctx, ns.Pool())
	if err != nil {
		panic(err)
	}
	return t
}

func decode(t []byte) *int64 {
	if t == nil {
		return nil
	}
	v, ok := vd.GetInt64(0, val.Tuple(t))
	if !ok {
		panic("value without field 0")
	}
	return &v
}

func mk(ns tree.NodeStore, es [][2]int64, pad int) prolly.Map {
	tups := make([]val.Tuple, 0, 2*len(es))
	for _, e := range es {
		tups = append(tups, key(ns, e[0]), value(ns, e[1], pad))
	}
	m, err := prolly.NewMapFromTuples(ctx, ns, kd, vd, tups...)
	if err != nil {
		panic(err)
	}
	return m
}

// the handler table (same as Corr.collide_mode)
func collide(mode int, l, r *int64) (res *int64, ok bool) {
	if l != nil && r != nil {
		x, y := *l, *r
		switch mode {
		case 1:
			return &x, true
		case 2:
			return &y, true
		case 3:
			z := x + y + 1000
			return &z, true
		case 4:
			if (x+y)%2 == 0 {
				z := x*7 + y
				return &z, true
			}
		}
		return nil, false
	}
	var x int64
	if l != nil {
		x = *l
	} else if r != nil {
		x = *r
	} else {
		return nil, false
	}
	switch mode {
	case 1, 3:
		return nil, true
	case 4:
		return nil, x%2 == 0
	}
	return nil, false
}

func Run(raw json.RawMessage) (any, error) {
	var c Case
	if err := json.Unmarshal(raw, &c); err != nil {
		return nil, err
	}
	ns := tree.NewTestNodeStore()
	kd, keyPad = kdPlain, 0
	if c.KPad > 0 {
		kd, keyPad = kdWide, c.KPad
	}
	o := Obs{DOps: []Op{}, DCalls: []Call{}, PRes: [][2]int64{}, PCalls: []Call{}}
	if c.Scen != "" {
		in, note := scenario(ns, c)
		c.Base, c.Left, c.Right = in.Base, in.Left, in.Right
		o.In, o.Note = in, note
	}
	base, left, right := mk(ns, c.Base, c.Pad), mk(ns, c.Left, c.Pad), mk(ns, c.Right, c.Pad)
	o.RHeight = right.Height()

	// route 1: chunk-level patch merge
	merged, _, err := prolly.MergeMaps(ctx, left, right, base, func(l, r tree.Diff) (tree.Diff, bool) {
		k, _ := kd.GetInt64(0, val.Tuple(l.Key))
		o.PCalls = append(o.PCalls, Call{Key: &k, Base: decode(l.From), Left: decode(l.To), Right: decode(r.To)})
		res, ok := collide(c.Mode, decode(l.To), decode(r.To))
		d := l
		if res != nil {
			d.To = tree.Item(value(ns, *res, c.Pad))
		} else {
			d.To = nil
		}
		return d, ok
	})
	if err != nil {
		return nil, err
	}
	it, err := merged.IterAll(ctx)
	if err != nil {
		return nil, err
	}
	for {
		k, v, err := it.Next(ctx)
		if errors.Is(err, io.EOF) {
			break
		} else if err != nil {
			return nil, err
		}
		kk, _ := kd.GetInt64(0, k)
		o.PRes = append(o.PRes, [2]int64{kk, *decode(v)})
	}
	o.PCanon = mk(ns, o.PRes, c.Pad).HashOf() == merged.HashOf()
	o.Height = merged.Height()
	_ = merged.WalkNodes(ctx, func(ctx context.Context, nd *tree.Node) error { o.Chunks++; return nil })

	// the patch stream itself: the same generators and SendPatches, patches collected instead of applied
	{
		lg, err := tree.PatchGeneratorFromRoots[val.Tuple](ctx, ns, ns, base.Node(), left.Node(), kd)
		if err != nil {
			return nil, err
		}
		rg, err := tree.PatchGeneratorFromRoots[val.Tuple](ctx, ns, ns, base.Node(), right.Node(), kd)
		if err != nil {
			return nil, err
		}
		buf := tree.NewPatchBuffer(1 << 15)
		err = tree.SendPatches(ctx, lg, rg, buf, func(l, r tree.Diff) (tree.Diff, bool) {
			res, ok := collide(c.Mode, decode(l.To), decode(r.To))
			d := l
			if res != nil {
				d.To = tree.Item(value(ns, *res, c.Pad))
			} else {
				d.To = nil
			}
			return d, ok
		})
		if err != nil {
			return nil, err
		}
		_ = buf.Close()
		o.Stream = []PatchObs{}
		for {
			p, err := buf.NextPatch(ctx)
			if err != nil {
				return nil, err
			}
			if p.EndKey == nil {
				break
			}
			k, _ := kd.GetInt64(0, val.Tuple(p.EndKey))
			po := PatchObs{Level: p.Level, Key: k}
			if p.Level == 0 {
				po.To = decode(p.To)
			} else {
				if p.KeyBelowStart != nil {
					lo, _ := kd.GetInt64(0, val.Tuple(p.KeyBelowStart))
					po.Lo = &lo
				}
				po.Cont = [][2]int64{}
				if p.To != nil {
					nd, err := ns.Read(ctx, hash.New(p.To))
					if err != nil {
						return nil, err
					}
					sub := prolly.NewMap(nd, ns, kd, vd)
					it, err := sub.IterAll(ctx)
					if err != nil {
						return nil, err
					}
					for {
						kk, vv, err := it.Next(ctx)
						if errors.Is(err, io.EOF) {
							break
						} else if err != nil {
							return nil, err
						}
						k2, _ := kd.GetInt64(0, kk)
						po.Cont = append(po.Cont, [2]int64{k2, *decode(vv)})
					}
				}
			}
			o.Stream = append(o.Stream, po)
		}
	}

	// route 2: key-level three-way differ
	sctx := sql.NewEmptyContext()
	d, err := tree.NewThreeWayDiffer[val.Tuple, val.Tuple, *val.TupleDesc](ctx, ns, left.Tuples(), right.Tuples(), base.Tuples(),
		func(_ *sql.Context, l, r, b val.Tuple) (val.Tuple, bool, error) {
			o.DCalls = append(o.DCalls, Call{Base: decode(b), Left: decode(l), Right: decode(r)})
			res, ok := collide(c.Mode, decode(l), decode(r))
			if res != nil {
				return value(ns, *res, c.Pad), ok, nil
			}
			return nil, ok, nil
		}, false, tree.ThreeWayDiffInfo{}, kd)
	if err != nil {
		return nil, err
	}
	for {
		x, err := d.Next(sctx)
		if errors.Is(err, io.EOF) {
			break
		} else if err != nil {
			return nil, err
		}
		k, _ := kd.GetInt64(0, x.Key)
		var r, m []byte
		if x.Right != nil {
			r = x.Right
		}
		if x.Merged != nil {
			m = x.Merged
		}
		o.DOps = append(o.DOps, Op{Key: k, Op: int(x.Op), Right: decode(r), Merged: decode(m)})
	}
	return o, nil
}

// index ranges [s, e) of the leaf chunks of a map over the sorted entry list
func leafChunks(m prolly.Map) [][2]int {
	var out [][2]int
	pos := 0
	_ = m.WalkNodes(ctx, func(_ context.Context, nd *tree.Node) error {
		if nd.IsLeaf() && nd.Count() > 0 {
			out = append(out, [2]int{pos, pos + nd.Count()})
			pos += nd.Count()
		}
		return nil
	})
	return out
}

func withoutIdx(es [][2]int64, idx ...int) [][2]int64 {
	drop := map[int]bool{}
	for _, i := range idx {
		drop[i] = true
	}
	var out [][2]int64
	for i, e := range es {
		if !drop[i] {
			out = append(out, e)
		}
	}
	return out
}

func withKey(es [][2]int64, k, v int64) [][2]int64 {
	out := make([][2]int64, 0, len(es)+1)
	done := false
	for _, e := range es {
		if !done && e[0] > k {
			out = append(out, [2]int64{k, v})
			done = true
		}
		if e[0] == k {
			out = append(out, [2]int64{k, v})
			done = true
			continue
		}
		out = append(out, e)
	}
	if !done {
		out = append(out, [2]int64{k, v})
	}
	return out
}

func clone(es [][2]int64) [][2]int64 { return append([][2]int64{}, es...) }

// scenario builds (base, left, right) around the leaf chunk boundaries of a bulk tree.
func scenario(ns tree.NodeStore, c Case) (*In, string) {
	r := rand.New(rand.NewSource(c.Seed))
	t0 := make([][2]int64, c.N)
	for i := range t0 {
		t0[i] = [2]int64{int64(10*i + 5), int64(r.Intn(400))}
	}
	ch := leafChunks(mk(ns, t0, c.Pad))
	nc := len(ch)
	in := &In{}
	if nc < 5 {
		in.Base, in.Left, in.Right = t0, t0, t0
		return in, "too-few-chunks"
	}
	// the "shift": a left edit in an earlier (later) chunk so that left's patch generator is already at leaf level
	shiftLeft := func(left [][2]int64, j int, after bool) [][2]int64 {
		jj := j - 1
		if after {
			jj = j + 1
		}
		if jj < 0 || jj >= nc {
			return left
		}
		s, e := ch[jj][0], ch[jj][1]
		switch c.Shift {
		case 1: // delete a key somewhere in the neighbouring chunk
			k := t0[s+r.Intn(e-s)][0]
			return withoutKey(left, k)
		case 2: // delete the neighbour's key adjacent to the chunk
			k := t0[e-1][0]
			if after {
				k = t0[s][0]
			}
			return withoutKey(left, k)
		case 3: // insert a new key in the neighbouring chunk
			return withKey(left, t0[s+r.Intn(e-s)][0]+2, 777)
		case 4: // delete a key two chunks away
			j2 := jj - 1
			if after {
				j2 = jj + 1
			}
			if j2 >= 0 && j2 < nc {
				return withoutKey(left, t0[ch[j2][0]+r.Intn(ch[j2][1]-ch[j2][0])][0])
			}
		}
		return left
	}
	switch c.Scen {
	case "tail": // right edits only the last leaf of the base, the base ends on a leaf boundary, left appends
		j := nc*2/3 + r.Intn(nc-1-nc*2/3)
		e := ch[j][1]
		mi := ch[j][0] + r.Intn(e-ch[j][0])
		in.Base = clone(t0[:e])
		in.Right = clone(t0[:e])
		in.Right[mi][1]++
		if r.Intn(3) == 0 {
			in.Right = withKey(in.Right, t0[mi][0]+1, 555)
		}
		in.Left = clone(t0)
	case "head": // mirror: right edits only the first leaf, left prepends
		j := 1 + r.Intn(nc/3)
		s := ch[j][0]
		mi := s + r.Intn(ch[j][1]-s)
		in.Base = clone(t0[s:])
		in.Right = clone(t0[s:])
		in.Right[mi-s][1]++
		in.Left = clone(t0)
	case "range-end", "range-start":
		// right changes one whole-chunk's interior (a range patch), left edits exactly the last / first key of that chunk
		j := 1 + r.Intn(nc-2)
		s, e := ch[j][0], ch[j][1]
		in.Base = clone(t0)
		in.Right = clone(t0)
		in.Left = clone(t0)
		if e-s < 2 {
			return in, "chunk-too-small"
		}
		if c.Scen == "range-end" {
			in.Right[s+r.Intn(e-s-1)][1] += 1
			in.Left[e-1][1] += 2
			in.Left = shiftLeft(in.Left, j, false)
		} else {
			in.Right[s+1+r.Intn(e-s-1)][1] += 1
			in.Left[s][1] += 2
			in.Left = shiftLeft(in.Left, j, false)
		}
	case "removed-insert": // right removes the tail across whole chunks, left inserts a new key inside the removed part
		j := nc/2 + r.Intn(nc-1-nc/2)
		s := ch[j][0]
		in.Base = clone(t0)
		in.Right = clone(t0[:s])
		jj := j + r.Intn(nc-j)
		x := ch[jj][0] + r.Intn(ch[jj][1]-ch[jj][0])
		in.Left = withKey(clone(t0), t0[x][0]+3, 888)
		in.Left = shiftLeft(in.Left, j, false)
	case "removed-insert-head": // mirror: right removes the head, left inserts inside it
		j := 1 + r.Intn(nc/2)
		e := ch[j][1]
		in.Base = clone(t0)
		in.Right = clone(t0[e:])
		jj := r.Intn(j + 1)
		x := ch[jj][0] + r.Intn(ch[jj][1]-ch[jj][0])
		in.Left = withKey(clone(t0), t0[x][0]+3, 888)
		in.Left = shiftLeft(in.Left, j, true)
	default:
		in.Base, in.Left, in.Right = t0, t0, t0
		return in, "unknown-scenario"
	}
	return in, ""
}

func withoutKey(es [][2]int64, k int64) [][2]int64 {
	var out [][2]int64
	for _, e := range es {
		if e[0] != k {
			out = append(out, e)
		}
	}
	return out
}
