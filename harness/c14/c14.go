// Package c14: three-way merge is key-wise (property C14).
//
// One case = (base, left, right) as key->value lists plus a collision-handler
// mode. The real prolly.MergeMaps (PatchGenerator + SendPatches + ApplyPatches)
// and tree.ThreeWayDiffer are run on the three real maps with a recording
// handler.
package c14

import (
	"context"
	"encoding/json"
	"errors"
	"io"

	"github.com/dolthub/go-mysql-server/sql"

	"github.com/dolthub/dolt/go/store/hash"
	"github.com/dolthub/dolt/go/store/prolly"
	"github.com/dolthub/dolt/go/store/prolly/tree"
	"github.com/dolthub/dolt/go/store/val"

	"verifharness/hk"
)

func init() { hk.Register("c14", Run) }

type Case struct {
	Base  [][2]int64 `json:"base"`
	Left  [][2]int64 `json:"left"`
	Right [][2]int64 `json:"right"`
	Mode  int        `json:"mode"`
	Pad   int        `json:"pad"` // extra bytes in every value (more chunks per entry)
}

type Op struct {
	Key    int64  `json:"k"`
	Op     int    `json:"op"`
	Right  *int64 `json:"r"`
	Merged *int64 `json:"m"`
}

type Call struct {
	Key   *int64 `json:"k,omitempty"`
	Base  *int64 `json:"b"`
	Left  *int64 `json:"l"`
	Right *int64 `json:"r"`
}

// one patch of the stream tree.SendPatches really sent
type PatchObs struct {
	Level int        `json:"lvl"`
	Key   int64      `json:"k"`            // Level 0: EndKey; Level > 0: EndKey (inclusive upper bound)
	To    *int64     `json:"to"`           // Level 0: new value (nil = delete)
	Lo    *int64     `json:"lo"`           // Level > 0: KeyBelowStart (nil = from the very first key)
	Cont  [][2]int64 `json:"c,omitempty"`  // Level > 0: the entries of the subtree the patch points to
}

type Obs struct {
	Stream []PatchObs `json:"stream"`
	DOps   []Op       `json:"dops"`
	DCalls []Call     `json:"dcalls"`
	PRes   [][2]int64 `json:"pres"`
	PCalls []Call     `json:"pcalls"`
	PCanon bool       `json:"pcanon"`
	Height int        `json:"height"`
	Chunks int        `json:"chunks"`
}

var ctx = context.Background()
var kd = val.NewTupleDescriptor(val.Type{Enc: val.Int64Enc})
var vd = val.NewTupleDescriptor(val.Type{Enc: val.Int64Enc}, val.Type{Enc: val.ByteStringEnc, Nullable: true})

func key(ns tree.NodeStore, k int64) val.Tuple {
	b := val.NewTupleBuilder(kd, ns)
	b.PutInt64(0, k)
	t, err := b.Build(ctx, ns.Pool())
	if err != nil {
		panic(err)
	}
	return t
}

func value(ns tree.NodeStore, v int64, pad int) val.Tuple {
	b := val.NewTupleBuilder(vd, ns)
	b.PutInt64(0, v)
	if pad > 0 {
		p := make([]byte, pad)
		for i := range p {
			p[i] = byte(v + int64(i))
		}
		b.PutByteString(1, p)
	}
	t, err := b.Build(ctx, ns.Pool())
	if err != nil {
		panic(err)
	}
	return t
}

func decode(t []byte) *int64 {
	if t == nil {
		return nil
	}
	v, ok := vd.GetInt64(0, val.Tuple(t))
	if !ok {
		panic("value without field 0")
	}
	return &v
}

func mk(ns tree.NodeStore, es [][2]int64, pad int) prolly.Map {
	tups := make([]val.Tuple, 0, 2*len(es))
	for _, e := range es {
		tups = append(tups, key(ns, e[0]), value(ns, e[1], pad))
	}
	m, err := prolly.NewMapFromTuples(ctx, ns, kd, vd, tups...)
	if err != nil {
		panic(err)
	}
	return m
}

// the handler table (same as Corr.collide_mode)
func collide(mode int, l, r *int64) (res *int64, ok bool) {
	if l != nil && r != nil {
		x, y := *l, *r
		switch mode {
		case 1:
			return &x, true
		case 2:
			return &y, true
		case 3:
			z := x + y + 1000
			return &z, true
		case 4:
			if (x+y)%2 == 0 {
				z := x*7 + y
				return &z, true
			}
		}
		return nil, false
	}
	var x int64
	if l != nil {
		x = *l
	} else if r != nil {
		x = *r
	} else {
		return nil, false
	}
	switch mode {
	case 1, 3:
		return nil, true
	case 4:
		return nil, x%2 == 0
	}
	return nil, false
}

func Run(raw json.RawMessage) (any, error) {
	var c Case
	if err := json.Unmarshal(raw, &c); err != nil {
		return nil, err
	}
	ns := tree.NewTestNodeStore()
	base, left, right := mk(ns, c.Base, c.Pad), mk(ns, c.Left, c.Pad), mk(ns, c.Right, c.Pad)
	o := Obs{DOps: []Op{}, DCalls: []Call{}, PRes: [][2]int64{}, PCalls: []Call{}}

	// route 1: chunk-level patch merge
	merged, _, err := prolly.MergeMaps(ctx, left, right, base, func(l, r tree.Diff) (tree.Diff, bool) {
		k, _ := kd.GetInt64(0, val.Tuple(l.Key))
		o.PCalls = append(o.PCalls, Call{Key: &k, Base: decode(l.From), Left: decode(l.To), Right: decode(r.To)})
		res, ok := collide(c.Mode, decode(l.To), decode(r.To))
		d := l
		if res != nil {
			d.To = tree.Item(value(ns, *res, c.Pad))
		} else {
			d.To = nil
		}
		return d, ok
	})
	if err != nil {
		return nil, err
	}
	it, err := merged.IterAll(ctx)
	if err != nil {
		return nil, err
	}
	for {
		k, v, err := it.Next(ctx)
		if errors.Is(err, io.EOF) {
			break
		} else if err != nil {
			return nil, err
		}
		kk, _ := kd.GetInt64(0, k)
		o.PRes = append(o.PRes, [2]int64{kk, *decode(v)})
	}
	o.PCanon = mk(ns, o.PRes, c.Pad).HashOf() == merged.HashOf()
	o.Height = merged.Height()
	_ = merged.WalkNodes(ctx, func(ctx context.Context, nd *tree.Node) error { o.Chunks++; return nil })

	// the patch stream itself: the same generators and SendPatches, patches collected instead of applied
	{
		lg, err := tree.PatchGeneratorFromRoots[val.Tuple](ctx, ns, ns, base.Node(), left.Node(), kd)
		if err != nil {
			return nil, err
		}
		rg, err := tree.PatchGeneratorFromRoots[val.Tuple](ctx, ns, ns, base.Node(), right.Node(), kd)
		if err != nil {
			return nil, err
		}
		buf := tree.NewPatchBuffer(1 << 15)
		err = tree.SendPatches(ctx, lg, rg, buf, func(l, r tree.Diff) (tree.Diff, bool) {
			res, ok := collide(c.Mode, decode(l.To), decode(r.To))
			d := l
			if res != nil {
				d.To = tree.Item(value(ns, *res, c.Pad))
			} else {
				d.To = nil
			}
			return d, ok
		})
		if err != nil {
			return nil, err
		}
		_ = buf.Close()
		o.Stream = []PatchObs{}
		for {
			p, err := buf.NextPatch(ctx)
			if err != nil {
				return nil, err
			}
			if p.EndKey == nil {
				break
			}
			k, _ := kd.GetInt64(0, val.Tuple(p.EndKey))
			po := PatchObs{Level: p.Level, Key: k}
			if p.Level == 0 {
				po.To = decode(p.To)
			} else {
				if p.KeyBelowStart != nil {
					lo, _ := kd.GetInt64(0, val.Tuple(p.KeyBelowStart))
					po.Lo = &lo
				}
				po.Cont = [][2]int64{}
				if p.To != nil {
					nd, err := ns.Read(ctx, hash.New(p.To))
					if err != nil {
						return nil, err
					}
					sub := prolly.NewMap(nd, ns, kd, vd)
					it, err := sub.IterAll(ctx)
					if err != nil {
						return nil, err
					}
					for {
						kk, vv, err := it.Next(ctx)
						if errors.Is(err, io.EOF) {
							break
						} else if err != nil {
							return nil, err
						}
						k2, _ := kd.GetInt64(0, kk)
						po.Cont = append(po.Cont, [2]int64{k2, *decode(vv)})
					}
				}
			}
			o.Stream = append(o.Stream, po)
		}
	}

	// route 2: key-level three-way differ
	sctx := sql.NewEmptyContext()
	d, err := tree.NewThreeWayDiffer[val.Tuple, val.Tuple, *val.TupleDesc](ctx, ns, left.Tuples(), right.Tuples(), base.Tuples(),
		func(_ *sql.Context, l, r, b val.Tuple) (val.Tuple, bool, error) {
			o.DCalls = append(o.DCalls, Call{Base: decode(b), Left: decode(l), Right: decode(r)})
			res, ok := collide(c.Mode, decode(l), decode(r))
			if res != nil {
				return value(ns, *res, c.Pad), ok, nil
			}
			return nil, ok, nil
		}, false, tree.ThreeWayDiffInfo{}, kd)
	if err != nil {
		return nil, err
	}
	for {
		x, err := d.Next(sctx)
		if errors.Is(err, io.EOF) {
			break
		} else if err != nil {
			return nil, err
		}
		k, _ := kd.GetInt64(0, x.Key)
		var r, m []byte
		if x.Right != nil {
			r = x.Right
		}
		if x.Merged != nil {
			m = x.Merged
		}
		o.DOps = append(o.DOps, Op{Key: k, Op: int(x.Op), Right: decode(r), Merged: decode(m)})
	}
	return o, nil
}
