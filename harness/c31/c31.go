// Package c31: cherry-pick, revert and rebase through SQL (property C31).
//
// One case = a commit tree (every commit given by its parent and its full
// table contents) and a list of operations, each run on a fresh branch:
//
//	cp  head c        dolt_cherry_pick(c) with HEAD = head
//	rv  head c        dolt_revert(c) with HEAD = head
//	rb  tip onto plan dolt_rebase('-i', onto) on a branch at tip, the dolt_rebase
//	                  table rewritten to the plan, dolt_rebase('--continue')
//
// Observation per op: outcome kind and the table contents of HEAD afterwards.
package c31

import (
	"encoding/json"
	"fmt"
	"strconv"
	"strings"

	"verifharness/hk"
	"verifharness/util"
)

func init() { hk.Register("c31", Run) }

// Row: [table, pk, a, b]; a/b nil = NULL.
type Row struct {
	T  int    `json:"t"`
	K  int    `json:"k"`
	Cs []*int `json:"c"`
}

type Commit struct {
	Parent int      `json:"parent"` // -1 for the root commit
	Rows   []Row    `json:"rows"`
	Cols1  []string `json:"cols1"` // non-key columns of t1 in this commit (default a,b); t2 is always a,b
}

type Step struct {
	Action string `json:"a"`
	Commit int    `json:"c"`
	Order  string `json:"o"` // rebase_order to write (decimal, e.g. "3.7"); default: position
}

type Op struct {
	Kind      string `json:"kind"` // cp | rv | rb
	Head      int    `json:"head"`
	C         int    `json:"c"`
	Onto      int    `json:"onto"`
	Plan      []Step `json:"plan"`
	Dirty     []Row  `json:"dirty"` // cp / rv: unrelated unstaged edit: new rows of table t2 in the working set (nil: none)
	HasDirty  bool   `json:"hasdirty"`
	Untracked bool   `json:"untracked"` // cp / rv: an untracked table u exists in the working set
	Res       string `json:"res"`       // what to do when the operation stops with conflicts: "" (give up) | ours | theirs | abort
}

type Case struct {
	Commits []Commit `json:"commits"`
	Ops     []Op     `json:"ops"`
}

type OpObs struct {
	Kind      string   `json:"kind"` // ok | conflict | nochange | err
	Rows      []Row    `json:"rows"`
	Msg       string   `json:"msg,omitempty"`
	NewCnt    int      `json:"newcnt"`         // commits on HEAD that are not ancestors of the start point (rb: of onto)
	Dflt      []int    `json:"dflt,omitempty"` // rb: the commits of the default plan, in order
	Cols1     []string `json:"cols1"`          // non-key columns of t1 afterwards
	Restored  bool     `json:"restored"`       // after --abort: working / staged / head hashes, branch and status as before the operation
	Work      []Row    `json:"work"`           // working-set rows afterwards (rows = committed HEAD rows)
	DirtyKept bool     `json:"dirtykept"`      // the unrelated edits are still uncommitted: dolt_status lists them unstaged, HEAD does not have them
	Pauses    int      `json:"pauses"`         // how many times the operation stopped with conflicts and was continued
}

type Obs struct {
	Ops []OpObs `json:"ops"`
}

const NTables = 2

func tname(t int) string { return fmt.Sprintf("t%d", t) }

func cellSQL(c *int) string {
	if c == nil {
		return "NULL"
	}
	return strconv.Itoa(*c)
}

func cols1Of(s *util.Session) ([]string, error) {
	r := s.Exec("SELECT * FROM t1 LIMIT 0")
	if r.Err != "" {
		return nil, fmt.Errorf("cols: %s", r.Err)
	}
	out := []string{}
	for _, c := range r.Cols {
		if c != "pk" {
			out = append(out, c)
		}
	}
	return out, nil
}

func has(l []string, x string) bool {
	for _, y := range l {
		if y == x {
			return true
		}
	}
	return false
}

func setContent(s *util.Session, rows []Row, cols1 []string) error {
	if len(cols1) == 0 {
		cols1 = []string{"a", "b"}
	}
	cur, err := cols1Of(s)
	if err != nil {
		return err
	}
	for _, c := range cur {
		if !has(cols1, c) {
			if err := s.MustExec("ALTER TABLE t1 DROP COLUMN " + c); err != nil {
				return err
			}
		}
	}
	for _, c := range cols1 {
		if !has(cur, c) {
			if err := s.MustExec("ALTER TABLE t1 ADD COLUMN " + c + " int"); err != nil {
				return err
			}
		}
	}
	for t := 1; t <= NTables; t++ {
		if err := s.MustExec("DELETE FROM " + tname(t)); err != nil {
			return err
		}
	}
	for _, r := range rows {
		cols := []string{"a", "b"}
		if r.T == 1 {
			cols = cols1
		}
		vals := []string{strconv.Itoa(r.K)}
		for i := range cols {
			vals = append(vals, cellSQL(r.Cs[i]))
		}
		q := fmt.Sprintf("INSERT INTO %s (pk,%s) VALUES (%s)", tname(r.T), strings.Join(cols, ","), strings.Join(vals, ","))
		if err := s.MustExec(q); err != nil {
			return err
		}
	}
	return nil
}

func parseCell(v string) *int {
	if v == "NULL" {
		return nil
	}
	n, err := strconv.Atoi(strings.TrimPrefix(v, "i:"))
	if err != nil {
		panic("unexpected cell " + v)
	}
	return &n
}

func readContent(s *util.Session) ([]Row, error) { return readContentAsOf(s, "") }

func readContentAsOf(s *util.Session, rev string) ([]Row, error) {
	out := []Row{}
	for t := 1; t <= NTables; t++ {
		q := "SELECT * FROM " + tname(t)
		if rev != "" {
			q += " AS OF '" + rev + "'"
		}
		r := s.Exec(q + " ORDER BY pk")
		if r.Err != "" {
			return nil, fmt.Errorf("read %s: %s", tname(t), r.Err)
		}
		for _, row := range r.Rows {
			cs := []*int{}
			for _, v := range row[1:] {
				cs = append(cs, parseCell(v))
			}
			out = append(out, Row{T: t, K: *parseCell(row[0]), Cs: cs})
		}
	}
	return out, nil
}

func str(v string) string { return strings.TrimPrefix(v, "s:") }

func classify(msg string) string {
	m := strings.ToLower(msg)
	switch {
	case strings.Contains(m, "uncommitted changes"), strings.Contains(m, "local changes would be overwritten"):
		return "refused"
	case strings.Contains(m, "schema conflict"), strings.Contains(m, "schema"):
		return "schemaconflict"
	case strings.Contains(m, "conflict"):
		return "conflict"
	case strings.Contains(m, "no changes were made"), strings.Contains(m, "nothing to commit"):
		return "nochange"
	}
	return "err"
}

func one(s *util.Session, q string) string {
	r := s.Exec(q)
	if r.Err != "" || len(r.Rows) == 0 {
		return "!" + r.Err
	}
	return r.Rows[0][0]
}

// fingerprint of the session's state: working / staged root hashes, head commit, branch, status rows, merge state
func fingerprint(s *util.Session) string {
	return strings.Join([]string{
		one(s, "SELECT dolt_hashof_db('WORKING')"), one(s, "SELECT dolt_hashof_db('STAGED')"), one(s, "SELECT dolt_hashof('HEAD')"),
		one(s, "SELECT active_branch()"), one(s, "SELECT count(*) FROM dolt_status"),
		one(s, "SELECT count(*) FROM dolt_merge_status WHERE is_merging"),
		freshBranchCount(s),
	}, "|")
}

// temporary rebase branches as a NEW session sees them (the session's own view can be a stale transaction snapshot)
func freshBranchCount(s *util.Session) string {
	f, err := s.E.NewSession()
	if err != nil {
		return "!" + err.Error()
	}
	return one(f, "SELECT count(*) FROM dolt_branches WHERE name LIKE 'dolt_rebase_%'")
}

func resolveAll(s *util.Session, how string) {
	for t := 1; t <= NTables; t++ {
		s.Exec(fmt.Sprintf("CALL dolt_conflicts_resolve('--%s','%s')", how, tname(t)))
	}
	s.Exec("CALL dolt_add('-A')")
}

func Run(raw json.RawMessage) (any, error) {
	var c Case
	if err := json.Unmarshal(raw, &c); err != nil {
		return nil, err
	}
	env, err := util.NewEnv(false)
	if err != nil {
		return nil, err
	}
	defer env.Close()
	s, err := env.NewSession()
	if err != nil {
		return nil, err
	}
	for t := 1; t <= NTables; t++ {
		if err := s.MustExec(fmt.Sprintf("CREATE TABLE %s (pk int primary key, a int, b int)", tname(t))); err != nil {
			return nil, err
		}
	}
	hashes := make([]string, len(c.Commits))
	idx := map[string]int{}
	for i, cm := range c.Commits {
		if cm.Parent >= 0 {
			if err := s.MustExec(fmt.Sprintf("CALL dolt_checkout('-B','build','%s')", hashes[cm.Parent])); err != nil {
				return nil, err
			}
		}
		if err := setContent(s, cm.Rows, cm.Cols1); err != nil {
			return nil, err
		}
		r := s.Exec(fmt.Sprintf("CALL dolt_commit('-A','-m','c%d')", i))
		if r.Err != "" {
			return nil, fmt.Errorf("commit %d: %s", i, r.Err)
		}
		hashes[i] = str(r.Rows[0][0])
		idx[hashes[i]] = i
	}
	var obs Obs
	for n, op := range c.Ops {
		var o OpObs
		o.Rows = []Row{}
		br := fmt.Sprintf("op%d", n)
		start := op.Head
		// every op in its own session: a failed procedure must not leak transaction state into the next op
		s, err = env.NewSession()
		if err != nil {
			return obs, err
		}
		if err := s.MustExec(fmt.Sprintf("CALL dolt_checkout('-b','%s','%s')", br, hashes[start])); err != nil {
			return obs, err
		}
		base := hashes[start]
		dirtyOp := op.HasDirty || op.Untracked
		if op.HasDirty {
			if err := s.MustExec("DELETE FROM t2"); err != nil {
				return obs, err
			}
			for _, r := range op.Dirty {
				if err := s.MustExec(fmt.Sprintf("INSERT INTO t2 VALUES (%d,%s,%s)", r.K, cellSQL(r.Cs[0]), cellSQL(r.Cs[1]))); err != nil {
					return obs, err
				}
			}
		}
		if op.Untracked {
			if err := s.MustExec("CREATE TABLE u (pk int primary key)", "INSERT INTO u VALUES (1)"); err != nil {
				return obs, err
			}
		}
		pre := fingerprint(s)
		switch op.Kind {
		case "cp", "rv":
			proc := "dolt_cherry_pick"
			if op.Kind == "rv" {
				proc = "dolt_revert"
			}
			r := s.Exec(fmt.Sprintf("CALL %s('%s')", proc, hashes[op.C]))
			switch {
			case r.Err != "":
				o.Kind, o.Msg = classify(r.Err), r.Err
			case len(r.Rows) == 1 && len(r.Rows[0]) >= 4 && (r.Rows[0][1] != "i:0" || r.Rows[0][2] != "i:0" || r.Rows[0][3] != "i:0"):
				o.Kind, o.Msg = "conflict", strings.Join(r.Rows[0], ",")
			default:
				o.Kind = "ok"
			}
			if o.Kind == "conflict" && op.Res == "abort" {
				a := s.Exec(fmt.Sprintf("CALL %s('--abort')", proc))
				if a.Err != "" {
					o.Kind, o.Msg = "err", "abort: "+a.Err
				} else {
					o.Kind = "aborted"
					o.Restored = fingerprint(s) == pre
				}
			} else if o.Kind == "conflict" && (op.Res == "ours" || op.Res == "theirs") {
				resolveAll(s, op.Res)
				cr := s.Exec(fmt.Sprintf("CALL %s('--continue')", proc))
				switch {
				case cr.Err != "" && (strings.Contains(cr.Err, "no changes") || strings.Contains(cr.Err, "nothing to commit")):
					o.Kind, o.Msg = "nochange", cr.Err
				case cr.Err != "":
					o.Kind, o.Msg = "err", "continue: "+cr.Err
				case len(cr.Rows) == 1 && len(cr.Rows[0]) >= 4 && (cr.Rows[0][1] != "i:0" || cr.Rows[0][2] != "i:0" || cr.Rows[0][3] != "i:0"):
					o.Kind, o.Msg = "err", "continue still reports conflicts: "+strings.Join(cr.Rows[0], ",")
				default:
					o.Kind, o.Pauses = "resolved", 1
				}
			}
			if o.Kind == "refused" {
				o.Restored = fingerprint(s) == pre
			}
			if o.Kind != "ok" && o.Kind != "resolved" && o.Kind != "aborted" && o.Kind != "refused" {
				s.Exec(fmt.Sprintf("CALL %s('--abort')", proc))
				s.Exec("CALL dolt_reset('--hard')")
			}
		case "rb":
			base = hashes[op.Onto]
			r := s.Exec(fmt.Sprintf("CALL dolt_rebase('-i','%s')", hashes[op.Onto]))
			if r.Err != "" {
				o.Kind, o.Msg = classify(r.Err), r.Err
				break
			}
			d := s.Exec("SELECT commit_hash FROM dolt_rebase ORDER BY rebase_order")
			for _, row := range d.Rows {
				if i, ok := idx[str(row[0])]; ok {
					o.Dflt = append(o.Dflt, i)
				} else {
					o.Dflt = append(o.Dflt, -1)
				}
			}
			if err := s.MustExec("DELETE FROM dolt_rebase"); err != nil {
				o.Kind, o.Msg = "err", err.Error()
				s.Exec("CALL dolt_rebase('--abort')")
				break
			}
			for j, st := range op.Plan {
				ord := strconv.Itoa(j + 1)
				if st.Order != "" {
					ord = st.Order
				}
				q := fmt.Sprintf("INSERT INTO dolt_rebase VALUES (%s,'%s','%s','m%d')", ord, st.Action, hashes[st.Commit], j)
				if err := s.MustExec(q); err != nil {
					o.Kind, o.Msg = "err", err.Error()
				}
			}
			for round := 0; o.Kind == "" || (o.Kind == "conflict" && (op.Res == "ours" || op.Res == "theirs") && round <= len(op.Plan)+1); round++ {
				if o.Kind == "conflict" {
					resolveAll(s, op.Res)
					o.Pauses++
					o.Kind = ""
				}
				r = s.Exec("CALL dolt_rebase('--continue')")
				if r.Err != "" {
					o.Kind, o.Msg = classify(r.Err), r.Err
				} else if len(r.Rows) == 1 && r.Rows[0][0] != "i:0" {
					o.Kind, o.Msg = "err", strings.Join(r.Rows[0], ",")
				} else if o.Pauses > 0 {
					o.Kind = "resolved"
				} else {
					o.Kind = "ok"
				}
			}
			if o.Kind == "conflict" && op.Res == "abort" {
				a := s.Exec("CALL dolt_rebase('--abort')")
				if a.Err != "" {
					o.Kind, o.Msg = "err", "abort: "+a.Err
				} else {
					o.Kind = "aborted"
					post := fingerprint(s)
					o.Restored = post == pre
					if !o.Restored {
						o.Msg = "pre=" + pre + " post=" + post
					}
					base = hashes[start]
				}
			}
			if o.Kind != "ok" && o.Kind != "resolved" && o.Kind != "aborted" {
				s.Exec("CALL dolt_rebase('--abort')")
				s.Exec("CALL dolt_reset('--hard')")
			}
		default:
			return nil, fmt.Errorf("unknown op %q", op.Kind)
		}
		ab := s.Exec("SELECT active_branch()")
		if o.Kind == "ok" || o.Kind == "resolved" || o.Kind == "aborted" || o.Kind == "refused" {
			if len(ab.Rows) != 1 || str(ab.Rows[0][0]) != br {
				o.Kind, o.Msg = "err", "unexpected active branch after op: "+fmt.Sprint(ab.Rows)
			}
			rows, err := readContentAsOf(s, "HEAD")
			if err != nil {
				return nil, err
			}
			o.Rows = rows
			o.Work, err = readContent(s)
			if err != nil {
				return nil, err
			}
			o.Cols1, _ = cols1Of(s)
			st := s.Exec("SELECT table_name, staged, status FROM dolt_status ORDER BY table_name")
			if !dirtyOp {
				if st.Err != "" || len(st.Rows) != 0 {
					o.Kind, o.Msg = "err", "working set not clean after op: "+st.Err+fmt.Sprint(st.Rows)
				}
			} else {
				// exactly the unrelated edits are still listed, unstaged; the untracked table is not in HEAD
				want := [][]string{}
				if op.HasDirty {
					want = append(want, []string{"s:t2", "i:0", "s:modified"})
				}
				if op.Untracked {
					want = append(want, []string{"s:u", "i:0", "s:new table"})
				}
				o.DirtyKept = st.Err == "" && fmt.Sprint(st.Rows) == fmt.Sprint(want)
				if op.Untracked && s.Exec("SELECT count(*) FROM u AS OF 'HEAD'").Err == "" {
					o.DirtyKept = false
				}
				if !o.DirtyKept {
					o.Msg += " status=" + fmt.Sprint(st.Rows) + st.Err
				}
			}
			cnt := s.Exec(fmt.Sprintf("SELECT count(*) FROM dolt_log('%s..HEAD')", base))
			if cnt.Err == "" {
				o.NewCnt, _ = strconv.Atoi(strings.TrimPrefix(cnt.Rows[0][0], "i:"))
			} else {
				o.NewCnt = -1
			}
		} else if len(ab.Rows) == 1 && str(ab.Rows[0][0]) != br {
			// leave a half-finished rebase branch behind
			s.Exec(fmt.Sprintf("CALL dolt_checkout('%s')", br))
		}
		obs.Ops = append(obs.Ops, o)
	}
	return obs, nil
}
