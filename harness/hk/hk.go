// Package hk is the tiny kernel shared by all harness packages: a registry of
// per-property runners and a JSONL driver loop.
package hk

import (
	"bufio"
	"encoding/json"
	"fmt"
	"os"
	"runtime/debug"
)

// Runner executes one case (raw JSON) against the real implementation and
// returns a JSON-serialisable observation.
type Runner func(c json.RawMessage) (any, error)

var registry = map[string]Runner{}

func Register(name string, r Runner) { registry[name] = r }

type outLine struct {
	I     int    `json:"i"`
	Obs   any    `json:"obs,omitempty"`
	Err   string `json:"err,omitempty"`
	Panic string `json:"panic,omitempty"`
}

func runOne(r Runner, c json.RawMessage) (o outLine) {
	defer func() {
		if p := recover(); p != nil {
			o.Panic = fmt.Sprintf("%v\n%s", p, debug.Stack())
		}
	}()
	obs, err := r(c)
	if err != nil {
		o.Err = err.Error()
	}
	o.Obs = obs
	return o
}

// Main reads one JSON case per line on stdin and writes one observation per
// line on stdout. A panic inside the implementation is caught and reported as
// an observation ("panic"), never as a harness crash.
func Main() {
	if len(os.Args) < 2 {
		fmt.Fprintln(os.Stderr, "usage: h <property>  (cases on stdin, JSONL)")
		os.Exit(2)
	}
	r, ok := registry[os.Args[1]]
	if !ok {
		fmt.Fprintln(os.Stderr, "unknown property runner:", os.Args[1])
		os.Exit(2)
	}
	in := bufio.NewReaderSize(os.Stdin, 1<<20)
	out := bufio.NewWriter(os.Stdout)
	defer out.Flush()
	enc := json.NewEncoder(out)
	i := 0
	for {
		line, err := in.ReadBytes('\n')
		if len(line) > 1 {
			o := runOne(r, json.RawMessage(line))
			o.I = i
			if e := enc.Encode(o); e != nil {
				fmt.Fprintln(os.Stderr, "encode:", e)
				os.Exit(3)
			}
			out.Flush() // one observation per case reaches the parent even if a later case kills the process
			i++
		}
		if err != nil {
			break
		}
	}
}
